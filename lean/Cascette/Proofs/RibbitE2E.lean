/-
Proofs/RibbitE2E — the pieces between "the reader reads the text" and "the client's `query`
returns the database's rows": request line → `read_line` → `trim` → routing (`split('/')`),
V1/V2 detection (`is_v1_mime_response`), MIME body extraction (the `mimeBody` stand-in) — helper
lemmas for Props/C15.
-/
import Cascette.Proofs.RibbitRoundTrip
import Cascette.Proofs.RibbitServer
namespace Cascette.Proofs.Ribbit
open Cascette.Model.Bpsv Cascette.Model.Ribbit Cascette.Proofs.Bpsv

/-! ### substring search -/

theorem startsWith_mem (pat t : Str) (h : startsWith pat t = true) : ∀ c ∈ pat, c ∈ t := by
  induction pat generalizing t with
  | nil => intro c hc; cases hc
  | cons p ps ih =>
    cases t with
    | nil => simp [startsWith] at h
    | cons x xs =>
      simp only [startsWith, Bool.and_eq_true, beq_iff_eq] at h
      intro c hc
      simp only [List.mem_cons] at hc ⊢
      rcases hc with rfl | hc
      · exact .inl h.1
      · exact .inr (ih xs h.2 c hc)

theorem containsSub_mem (pat s : Str) (h : containsSub pat s = true) : ∀ c ∈ pat, c ∈ s := by
  induction s with
  | nil =>
    simp only [containsSub, decide_eq_true_eq] at h
    subst h; intro c hc; cases hc
  | cons x xs ih =>
    simp only [containsSub, Bool.or_eq_true] at h
    intro c hc
    rcases h with h | h
    · exact startsWith_mem _ _ h c hc
    · exact List.mem_cons_of_mem _ (ih h c hc)

/-- a pattern with a character the text does not have does not occur in it. -/
theorem containsSub_false_of_notin (pat s : Str) (c : Char) (hc : c ∈ pat) (hs : c ∉ s) :
    containsSub pat s = false := by
  cases h : containsSub pat s with
  | false => rfl
  | true => exact absurd (containsSub_mem pat s h c hc) hs

/-- a character outside the pattern cannot help it match: appending it changes nothing. -/
theorem startsWith_append_notin (pat t : Str) (c : Char) (r : Str) (hc : c ∉ pat) :
    startsWith pat (t ++ c :: r) = startsWith pat t := by
  induction pat generalizing t with
  | nil => simp [startsWith]
  | cons p ps ih =>
    have hp : p ≠ c := fun e => hc (by simp [e])
    have hps : c ∉ ps := fun m => hc (by simp [m])
    cases t with
    | nil => simp [startsWith, hp]
    | cons x xs => simp [startsWith, ih xs hps]

theorem containsSub_nil (pat : Str) (h : pat ≠ []) : containsSub pat [] = false := by
  simp [containsSub, h]

/-- occurrences do not straddle a character the pattern does not contain. -/
theorem containsSub_append_sep (pat a b : Str) (c : Char) (hne : pat ≠ []) (hc : c ∉ pat) :
    containsSub pat (a ++ c :: b) = (containsSub pat a || containsSub pat b) := by
  induction a with
  | nil =>
    obtain ⟨p, ps, rfl⟩ := List.exists_cons_of_ne_nil hne
    have hp : p ≠ c := fun e => hc (by simp [e])
    simp [containsSub, startsWith, hp]
  | cons x xs ih =>
    simp only [List.cons_append, containsSub]
    rw [ih]
    have := startsWith_append_notin pat (x :: xs) c b hc
    simp only [List.cons_append] at this
    rw [this, Bool.or_assoc]

theorem containsSub_joinWith (pat : Str) (c : Char) (xs : List Str) (hne : pat ≠ []) (hc : c ∉ pat)
    (h : ∀ x ∈ xs, containsSub pat x = false) : containsSub pat (joinWith [c] xs) = false := by
  induction xs with
  | nil => simpa [joinWith] using containsSub_nil pat hne
  | cons x xs ih =>
    cases xs with
    | nil => simpa [joinWith] using h x (by simp)
    | cons y ys =>
      simp only [joinWith, List.append_assoc, List.singleton_append]
      rw [containsSub_append_sep pat x _ c hne hc, h x (by simp),
        ih (fun z hz => h z (by simp [hz]))]
      rfl

theorem startsWith_prefix (pat a b : Str) (h : startsWith pat a = true) :
    startsWith pat (a ++ b) = true := by
  induction pat generalizing a with
  | nil => simp [startsWith]
  | cons p ps ih =>
    cases a with
    | nil => simp [startsWith] at h
    | cons x xs =>
      simp only [startsWith, Bool.and_eq_true, beq_iff_eq] at h
      simp [startsWith, h.1, ih xs h.2]

theorem containsSub_prefix (pat a b : Str) (h : containsSub pat a = true) :
    containsSub pat (a ++ b) = true := by
  induction a with
  | nil =>
    simp only [containsSub, decide_eq_true_eq] at h
    subst h
    cases b <;> simp [containsSub, startsWith]
  | cons x xs ih =>
    simp only [containsSub, Bool.or_eq_true] at h
    simp only [List.cons_append, containsSub, Bool.or_eq_true]
    rcases h with h | h
    · left
      have := startsWith_prefix pat (x :: xs) b h
      simpa using this
    · exact .inr (ih h)

/-- a text without the pattern: no prefix of it has the pattern either. -/
theorem containsSub_false_prefix (pat a b : Str) (h : containsSub pat (a ++ b) = false) :
    containsSub pat a = false := by
  cases ha : containsSub pat a with
  | false => rfl
  | true => rw [containsSub_prefix pat a b ha] at h; cases h

/-! ### the request line: `{endpoint}\r\n` → `read_line` → `trim` -/

theorem requestLine_nonl (cmd : Str) (h : '\n' ∉ cmd) : requestLine cmd = cmd ++ ['\r', '\n'] := by
  induction cmd with
  | nil => rfl
  | cons c cs ih =>
    have hc : c ≠ '\n' := fun e => h (by simp [e])
    simp [requestLine, hc, ih (fun m => h (by simp [m]))]

theorem trimEnd_allws (w : Str) (hw : ∀ c ∈ w, isWs c = true) : trimEnd w = [] := by
  induction w with
  | nil => rfl
  | cons c cs ih =>
    simp [trimEnd, ih (fun d hd => hw d (by simp [hd])), hw c (by simp)]

theorem trimEnd_append_allws (a w : Str) (hw : ∀ c ∈ w, isWs c = true) :
    trimEnd (a ++ w) = trimEnd a := by
  induction a with
  | nil => simpa [trimEnd] using trimEnd_allws w hw
  | cons c cs ih => simp only [List.cons_append, trimEnd, ih]

theorem trimEnd_append_ws (a : Str) (h : trimEnd a = a) : trimEnd (a ++ ['\r', '\n']) = a := by
  rw [trimEnd_append_allws a _ (by decide), h]

/-- the server sees exactly the endpoint string the client was called with, when that string has
no line break, starts with a non-blank and ends with a non-blank. -/
theorem trim_requestLine (cmd : Str) (c : Char) (cs : Str) (hcmd : cmd = c :: cs) (hnl : '\n' ∉ cmd)
    (hfirst : isWs c = false) (hend : trimEnd cmd = cmd) :
    trim (requestLine cmd) = cmd := by
  rw [requestLine_nonl cmd hnl]
  unfold trim
  rw [trimEnd_append_ws cmd hend, hcmd]
  exact trimStart_cons c cs hfirst

/-! ### routing: `split('/')` of the endpoint string -/

theorem products_lit : "/products/".toList = '/' :: ("products".toList ++ ['/']) := by decide

theorem endpoint_eq_join (q : Req) :
    q.endpoint = joinWith ['/'] [q.t.ver, "products".toList, q.product, q.ep.name] := by
  simp [Req.endpoint, joinWith, products_lit]

theorem ver_noslash (t : Transport) : '/' ∉ t.ver := by cases t <;> decide
theorem epName_noslash (e : Endpoint) : '/' ∉ e.name := by cases e <;> decide
theorem epName_nonl (e : Endpoint) : '\n' ∉ e.name := by cases e <;> decide
theorem parseEndpoint_name (e : Endpoint) : parseEndpoint e.name = some e := by cases e <;> decide

theorem splitOn_endpoint (q : Req) (hp : '/' ∉ q.product) :
    splitOn '/' q.endpoint = [q.t.ver, "products".toList, q.product, q.ep.name] := by
  rw [endpoint_eq_join]
  apply splitOn_joinWith
  intro y hy
  simp only [List.mem_cons, List.mem_nil_iff, or_false] at hy
  rcases hy with rfl | rfl | rfl | rfl
  · exact ver_noslash _
  · decide
  · exact hp
  · exact epName_noslash _

/-- `handle_v1_command`/`handle_v2_command` after the prefix test, on the client's endpoint
string. -/
theorem routeProduct_endpoint (s : Server) (seqn : Nat) (q : Req) (hp : '/' ∉ q.product) :
    routeProduct s seqn q.t.ver q.endpoint =
      (latest s.db q.product).map (fun r => respondBpsv s seqn r q.ep) := by
  unfold routeProduct
  rw [splitOn_endpoint q hp]
  cases hl : latest s.db q.product <;> simp [parseEndpoint_name, hl]

theorem endpoint_shape (q : Req) : ∃ d rest, q.endpoint =
    'v' :: d :: '/' :: 'p' :: rest ∧ d = (if q.t = .v2 then '2' else '1') := by
  refine ⟨if q.t = .v2 then '2' else '1', "roducts/".toList ++ q.product ++ '/' :: q.ep.name, ?_, rfl⟩
  have : "/products/".toList = '/' :: 'p' :: "roducts/".toList := by decide
  cases ht : q.t <;> simp [Req.endpoint, Transport.ver, ht, this]

/-- the reply bytes for a record: raw BPSV on v2, MIME-wrapped on v1. -/
def wire (H : Str → Str) (t : Transport) (body : Str) : Str :=
  if t = .v2 then body else wrapInMime H body

/-- `handle_command` on the endpoint string of a product request. -/
theorem handleCommand_endpoint (H : Str → Str) (s : Server) (seqn : Nat) (q : Req)
    (hp : '/' ∉ q.product) :
    handleCommand H s seqn q.endpoint =
      (latest s.db q.product).map (fun r => wire H q.t (respondBpsv s seqn r q.ep)) := by
  have hroute := routeProduct_endpoint s seqn q hp
  obtain ⟨d, rest, hshape, hd⟩ := endpoint_shape q
  unfold handleCommand wire
  by_cases ht : q.t = .v2
  · have hver : q.t.ver = ['v', '2'] := by rw [ht]; rfl
    rw [hver] at hroute
    rw [if_pos ht] at hd
    subst hd
    have h1 : startsWith ['v', '1', '/'] q.endpoint = false := by rw [hshape]; simp [startsWith]
    have h2 : startsWith ['v', '2', '/'] q.endpoint = true := by rw [hshape]; simp [startsWith]
    rw [h1, h2, hroute]
    simp [ht]
  · have hver : q.t.ver = ['v', '1'] := by
      cases hq : q.t <;> simp_all [Transport.ver]
    rw [hver] at hroute
    rw [if_neg ht] at hd
    subst hd
    have h1 : startsWith ['v', '1', '/'] q.endpoint = true := by rw [hshape]; simp [startsWith]
    have hne : q.endpoint ≠ "v1/summary".toList := by
      rw [hshape]; intro e
      have : "v1/summary".toList = ['v','1','/','s','u','m','m','a','r','y'] := by decide
      rw [this] at e
      simp at e
    rw [if_pos h1, if_neg hne, hroute]
    cases latest s.db q.product <;> simp [ht]

theorem tcpExchange_eq (H : Str → Str) (s : Server) (seqn : Nat) (cmd : Str) (c : Char) (cs : Str)
    (hcmd : cmd = c :: cs) (hnl : '\n' ∉ cmd) (hfirst : isWs c = false) (hend : trimEnd cmd = cmd) :
    tcpExchange H s seqn cmd = (handleCommand H s seqn cmd).getD [] := by
  have ht := trim_requestLine cmd c cs hcmd hnl hfirst hend
  unfold tcpExchange handleConnection
  cases hreq : requestLine cmd with
  | nil =>
    rw [requestLine_nonl cmd hnl] at hreq
    simp at hreq
  | cons x xs =>
    simp only
    rw [← hreq, ht]

theorem trimEnd_append_nows (a b : Str) (c : Char) (hb : b ≠ []) (hlast : b.getLast? = some c)
    (hc : isWs c = false) : trimEnd (a ++ b) = a ++ b := by
  induction b generalizing a with
  | nil => exact absurd rfl hb
  | cons x xs ih =>
    cases xs with
    | nil =>
      simp at hlast; subst hlast
      exact trimEnd_append a [x] (by simp) (by simp [trimEnd, hc])
    | cons y ys =>
      have := ih (a ++ [x]) (by simp) (by simpa using hlast)
      simpa using this

theorem epName_last (e : Endpoint) : ∃ c, e.name.getLast? = some c ∧ isWs c = false ∧ e.name ≠ [] := by
  cases e
  · exact ⟨'s', by decide, by decide, by decide⟩
  · exact ⟨'s', by decide, by decide, by decide⟩
  · exact ⟨'l', by decide, by decide, by decide⟩

/-- the TCP server's reply to the request line the client writes for a product request
(empty = the connection is closed without a reply). -/
theorem tcpExchange_endpoint (H : Str → Str) (s : Server) (seqn : Nat) (q : Req)
    (hp : '/' ∉ q.product) (hnl : '\n' ∉ q.product) :
    tcpExchange H s seqn q.endpoint =
      ((latest s.db q.product).map (fun r => wire H q.t (respondBpsv s seqn r q.ep))).getD [] := by
  obtain ⟨d, rest, hshape, _⟩ := endpoint_shape q
  obtain ⟨c, hlast, hc, hne⟩ := epName_last q.ep
  have hnl' : '\n' ∉ q.endpoint := by
    have hv : '\n' ∉ q.t.ver := by cases q.t <;> decide
    have hpr : '\n' ∉ "/products/".toList := by decide
    simp only [Req.endpoint, List.mem_append, List.mem_cons, not_or]
    exact ⟨⟨⟨hv, hpr⟩, hnl⟩, by decide, epName_nonl _⟩
  have hend : trimEnd q.endpoint = q.endpoint := by
    have : q.endpoint = (q.t.ver ++ "/products/".toList ++ q.product ++ ['/']) ++ q.ep.name := by
      simp [Req.endpoint]
    rw [this]
    exact trimEnd_append_nows _ _ c hne hlast hc
  rw [tcpExchange_eq H s seqn q.endpoint 'v' _ hshape hnl' (by decide) hend,
    handleCommand_endpoint H s seqn q hp]

theorem tcpExchange_summary (H : Str → Str) (s : Server) (seqn : Nat) :
    tcpExchange H s seqn "v1/summary".toList = wrapInMime H (summaryText s.order seqn) := by
  have hl : "v1/summary".toList = 'v' :: "1/summary".toList := by decide
  rw [tcpExchange_eq H s seqn _ 'v' _ hl (by decide) (by decide) (by decide)]
  unfold handleCommand
  rw [if_pos (by decide), if_pos rfl]
  rfl

/-- the HTTP server's answer to the URL path `TactClient` builds for a product request. -/
theorem handleHttp_endpoint (s : Server) (seqn : Nat) (q : Req) (ht : q.t = .http)
    (hp : '/' ∉ q.product) (hne : q.product ≠ []) :
    handleHttp s seqn (tactPath q.endpoint) =
      (latest s.db q.product).map (fun r => respondBpsv s seqn r q.ep) := by
  have hpath : tactPath q.endpoint = joinWith ['/'] [[], q.product, q.ep.name] := by
    have h1 : q.endpoint = "v1/products".toList ++ ('/' :: (q.product ++ '/' :: q.ep.name)) := by
      have : "/products/".toList = "/products".toList ++ ['/'] := by decide
      simp [Req.endpoint, ht, Transport.ver, this]
    have h2 : startsWith "v1/products/".toList q.endpoint = true := by
      have : "v1/products".toList ++ ('/' :: (q.product ++ '/' :: q.ep.name))
          = "v1/products/".toList ++ (q.product ++ '/' :: q.ep.name) := by
        have : "v1/products/".toList = "v1/products".toList ++ ['/'] := by decide
        rw [this]; simp
      rw [h1, this]
      exact startsWith_append _ _
    unfold tactPath
    simp only [h2, ↓reduceIte]
    rw [h1, List.drop_left' (by decide)]
    simp [startsWith, joinWith]
  rw [hpath]
  unfold handleHttp
  rw [splitOn_joinWith '/' [] [q.product, q.ep.name] (by
    intro y hy
    simp only [List.mem_cons, List.mem_nil_iff, or_false] at hy
    rcases hy with rfl | rfl | rfl
    · simp
    · exact hp
    · exact epName_noslash _)]
  cases hl : latest s.db q.product <;> simp [hne, parseEndpoint_name, hl]

/-! ### V1-vs-V2 detection (`is_v1_mime_response`) -/

def ctPat : Str := "content-type:".toList

/-- no look-alike: the lower-cased text does not say `content-type:`. -/
def NoLookalike (s : Str) : Prop := containsSub ctPat (s.map lowerAscii) = false

theorem take512_ascii_prefix (a rest : Str) (used : Nat) (ha : ∀ c ∈ a, c.utf8Size = 1)
    (hlen : used + a.length ≤ 512) :
    take512 used (a ++ rest) = a ++ take512 (used + a.length) rest := by
  induction a generalizing used with
  | nil => simp
  | cons c cs ih =>
    have hc : c.utf8Size = 1 := ha c (by simp)
    simp only [List.length_cons] at hlen
    have hle : ¬ used + c.utf8Size > 512 := by rw [hc]; omega
    simp only [List.cons_append, take512, hle, ↓reduceIte, List.length_cons]
    rw [ih (used + c.utf8Size) (fun d hd => ha d (by simp [hd])) (by rw [hc]; omega), hc]
    have : used + 1 + cs.length = used + (cs.length + 1) := by omega
    rw [this]

theorem take512_is_prefix (s : Str) (used : Nat) : ∃ t, s = take512 used s ++ t := by
  induction s generalizing used with
  | nil => exact ⟨[], rfl⟩
  | cons c cs ih =>
    unfold take512
    split
    · exact ⟨c :: cs, rfl⟩
    · obtain ⟨t, ht⟩ := ih (used + c.utf8Size)
      exact ⟨t, by simp only [List.cons_append]; rw [← ht]⟩

theorem mimePrelude_ascii : ∀ c ∈ mimePrelude, c.utf8Size = 1 := by decide +kernel
theorem mimePrelude_len : mimePrelude.length = 158 := by decide +kernel
theorem mimePrelude_ct : containsSub ctPat (mimePrelude.map lowerAscii) = true := by decide +kernel
theorem mimePrelude_alt :
    containsSub "multipart/alternative".toList (mimePrelude.map lowerAscii) = true := by decide +kernel

theorem isV1Mime_of_prefix (a rest : Str) (ha : ∀ c ∈ a, c.utf8Size = 1) (hlen : 0 + a.length ≤ 512)
    (h1 : containsSub "content-type:".toList (a.map lowerAscii) = true)
    (h2 : containsSub "multipart/alternative".toList (a.map lowerAscii) = true) :
    isV1Mime (a ++ rest) = true := by
  unfold isV1Mime
  rw [take512_ascii_prefix a rest 0 ha hlen]
  simp only [List.map_append]
  rw [containsSub_prefix _ _ _ h1, containsSub_prefix _ _ _ h2]
  rfl

/-- every V1 reply the server writes is detected as V1, whatever the body. -/
theorem isV1Mime_wrap (H : Str → Str) (body : Str) : isV1Mime (wrapInMime H body) = true := by
  have hshape : wrapInMime H body = mimePrelude ++
      (body ++ mimeClose ++ checksumPrefix ++ H (mimePrelude ++ body ++ mimeClose) ++ ['\r', '\n']) := by
    unfold wrapInMime
    simp only [List.append_assoc]
  rw [hshape]
  exact isV1Mime_of_prefix mimePrelude _ mimePrelude_ascii (by rw [mimePrelude_len]; omega)
    mimePrelude_ct mimePrelude_alt

theorem isV1Mime_false_of (l : Str)
    (h : containsSub "content-type:".toList l = false) :
    (containsSub "content-type:".toList l &&
      (containsSub "multipart/alternative".toList l || containsSub "multipart/mixed".toList l)) = false := by
  rw [h]; rfl

/-- a reply that nowhere says `content-type:` (any letter case) is read as V2. -/
theorem isV1Mime_false (body : Str) (h : NoLookalike body) : isV1Mime body = false := by
  obtain ⟨t, ht⟩ := take512_is_prefix body 0
  unfold NoLookalike at h
  rw [ht, List.map_append] at h
  exact isV1Mime_false_of _ (containsSub_false_prefix _ _ _ h)

/-! ### the MIME layer (stand-in `mimeBody`) on what `wrap_in_mime` writes -/

/-- the boundary text does not occur. -/
def NoBoundary (s : Str) : Prop := containsSub boundaryMark s = false

theorem dropPrefix_append (p s : Str) : dropPrefix p (p ++ s) = some s := by
  induction p with
  | nil => cases s <;> rfl
  | cons c cs ih => simp [dropPrefix, ih]

theorem untilBoundary_append (body : Str) (c : Char) (r : Str) (hc : c ∉ boundaryMark)
    (h : NoBoundary body) : untilBoundary (body ++ c :: r) = body ++ untilBoundary (c :: r) := by
  unfold NoBoundary at h
  induction body with
  | nil => rfl
  | cons x xs ih =>
    simp only [containsSub, Bool.or_eq_false_iff] at h
    have hs := startsWith_append_notin boundaryMark (x :: xs) c r hc
    simp only [List.cons_append] at hs
    have hstep : untilBoundary (x :: (xs ++ c :: r)) =
        if startsWith boundaryMark (x :: (xs ++ c :: r)) then [] else x :: untilBoundary (xs ++ c :: r) := rfl
    simp only [List.cons_append]
    rw [hstep, hs, h.1, ih h.2]
    rfl

theorem untilBoundary_close : untilBoundary mimeClose = ['\r', '\n'] := by decide +kernel
theorem mimeClose_shape : ∃ r, mimeClose = '\r' :: r := ⟨"\n--RibbitBoundary--\r\n".toList, by decide⟩

/-- **the MIME layer returns the body `wrap_in_mime` was given**, when the body does not contain
the boundary text (otherwise: `witness_boundary`). -/
theorem mimeBody_wrap (body : Str) (h : NoBoundary body) :
    mimeBody (mimePrelude ++ body ++ mimeClose) = some body := by
  unfold mimeBody
  rw [List.append_assoc, dropPrefix_append]
  obtain ⟨r, hr⟩ := mimeClose_shape
  have hu : untilBoundary (body ++ mimeClose) = body ++ ['\r', '\n'] := by
    rw [hr, untilBoundary_append body '\r' r (by decide) h, ← hr, untilBoundary_close]
  simp only [Option.map_some, hu]
  have h1 : stripLf (body ++ ['\r', '\n']) = body ++ ['\r'] := by simp [stripLf]
  have h2 : stripCr (body ++ ['\r']) = body := by simp [stripCr]
  rw [h1, h2]

/-- V1 transport, for every body: the client returns what the BPSV reader makes of the body. -/
theorem clientTcp_wrap (H : Str → Str) (hH : GoodHash H) (body : Str) (h : NoBoundary body) :
    clientTcp H (wrapInMime H body) = liftParse body := by
  unfold clientTcp
  rw [isV1Mime_wrap, if_pos rfl]
  unfold clientV1
  rw [extractChecksum_wrap H hH body]
  simp only [ne_eq, not_true_eq_false, ↓reduceIte]
  unfold readMime
  rw [mimeBody_wrap body h]

/-- V2 transport. -/
theorem clientTcp_plain (H : Str → Str) (body : Str) (h : NoLookalike body) :
    clientTcp H body = liftParse body := by
  unfold clientTcp
  rw [isV1Mime_false body h]
  rfl

/-! ### from the fields to the whole reply: neither pattern contains '|' or a line break, so an
occurrence in the reply lies inside one field, the header or the seqn line -/

theorem map_joinWith (g : Char → Char) (c : Char) (xs : List Str) :
    (joinWith [c] xs).map g = joinWith [g c] (xs.map (List.map g)) := by
  induction xs with
  | nil => rfl
  | cons x xs ih =>
    cases xs with
    | nil => rfl
    | cons y ys =>
      simp only [joinWith, List.map_append, List.map_cons, List.map_nil] at ih ⊢
      rw [ih]

/-- `pat` does not occur in the `g`-image of `s` (`g` = identity or ASCII lower-casing). -/
def Free (pat : Str) (g : Char → Char) (s : Str) : Prop := containsSub pat (s.map g) = false

theorem free_joinWith (pat : Str) (g : Char → Char) (c : Char) (xs : List Str) (hne : pat ≠ [])
    (hc : g c ∉ pat) (h : ∀ x ∈ xs, Free pat g x) : Free pat g (joinWith [c] xs) := by
  unfold Free
  rw [map_joinWith]
  apply containsSub_joinWith pat (g c) _ hne hc
  intro x hx
  obtain ⟨y, hy, rfl⟩ := List.mem_map.mp hx
  exact h y hy

theorem free_of_notin (pat : Str) (g : Char → Char) (s : Str) (c : Char) (hc : c ∈ pat)
    (hs : ∀ x ∈ s, g x ≠ c) : Free pat g s := by
  apply containsSub_false_of_notin pat _ c hc
  intro hm
  obtain ⟨x, hx, he⟩ := List.mem_map.mp hm
  exact hs x hx he

/-- header, rows (each joined from fields), seqn line. -/
theorem free_document {α : Type} (pat : Str) (g : Char → Char) (hne : pat ≠ [])
    (hbar : g '|' ∉ pat) (hnl : g '\n' ∉ pat) (header : Str) (xs : List α) (fields : α → List Str)
    (seqn : Nat) (hH : Free pat g header) (hF : ∀ x ∈ xs, ∀ f ∈ fields x, Free pat g f)
    (hS : Free pat g (seqnLine seqn)) :
    Free pat g (joinWith nl (header :: ((xs.map fun x => joinWith bar (fields x)) ++ [seqnLine seqn]))) := by
  apply free_joinWith pat g '\n' _ hne hnl
  intro l hl
  simp only [List.mem_cons, List.mem_append, List.mem_map, List.mem_nil_iff, or_false] at hl
  rcases hl with rfl | ⟨x, hx, rfl⟩ | rfl
  · exact hH
  · exact free_joinWith pat g '|' _ hne hbar (hF x hx)
  · exact hS

theorem all_notin (P : Char → Bool) (s : Str) (h : s.all P = true) (c : Char) (hc : P c = false) :
    c ∉ s := by
  intro hm
  have := List.all_eq_true.mp h c hm
  rw [hc] at this; cases this

theorem toNat_ofNat_small (n : Nat) (h : n < 0xd800) : (Char.ofNat n).toNat = n := by
  have : n.isValidChar := .inl h
  simp [Char.toNat, Char.ofNat, this, Char.ofNatAux]

/-- ASCII lower-casing produces a non-letter only from itself. -/
theorem lowerAscii_eq (x t : Char) (ht : t.toNat < 97) (h : lowerAscii x = t) : x = t := by
  unfold lowerAscii at h
  split at h
  · rename_i hr
    have := congrArg Char.toNat h
    rw [toNat_ofNat_small _ (by omega)] at this
    omega
  · exact h

theorem parseUnsigned_notin (b : Nat) (s : Str) (n : Nat) (c : Char) (h : parseUnsigned b s = some n)
    (hd : isDigit c = false) (hp : c ≠ '+') : c ∉ s := by
  unfold parseUnsigned at h
  simp only at h
  split at h; · cases h
  rename_i hh
  have hall : (stripPlus s).all isDigit = true := by
    simp only [Bool.or_eq_true, Bool.not_eq_true', not_or, Bool.not_eq_false] at hh
    exact hh.2
  have := all_notin isDigit _ hall c hd
  unfold stripPlus at this
  split at this
  · simp only [List.mem_cons, not_or]
    exact ⟨hp, this⟩
  · exact this

/-- a string `str::parse::<i64>` accepts has only digits and a sign. -/
theorem parseI64_notin (s : Str) (n : Int) (c : Char) (h : parseI64 s = some n)
    (hd : isDigit c = false) (hp : c ≠ '+') (hm : c ≠ '-') : c ∉ s := by
  unfold parseI64 at h
  split at h
  · rename_i d
    split at h; · cases h
    rename_i hh
    have hall : d.all isDigit = true := by
      simp only [Bool.or_eq_true, Bool.not_eq_true', not_or, Bool.not_eq_false] at hh
      exact hh.2
    simp only [List.mem_cons, not_or]
    exact ⟨hm, all_notin isDigit _ hall c hd⟩
  · cases hu : parseUnsigned (2 ^ 63) s with
    | none => simp [hu] at h
    | some m => exact parseUnsigned_notin _ s m c hu hd hp

theorem seqnLine_notin (n : Nat) (c : Char) (hd : isDigit c = false)
    (hc : c ∉ ['#','#',' ','s','e','q','n',' ','=',' ']) : c ∉ seqnLine n := by
  unfold seqnLine
  simp only [List.mem_append, not_or]
  exact ⟨hc, all_notin isDigit _ (natDigits_all n) c hd⟩

/-! #### the boundary text -/

theorem boundaryMark_ne : boundaryMark ≠ [] := by decide
theorem R_in_boundary : 'R' ∈ boundaryMark := by decide

theorem noBoundary_iff (s : Str) : NoBoundary s ↔ Free boundaryMark id s := by
  simp [NoBoundary, Free]

theorem freeB_of_notin (s : Str) (h : 'R' ∉ s) : Free boundaryMark id s :=
  free_of_notin _ _ s 'R' R_in_boundary (fun x hx e => h (by simp only [id] at e; rw [← e]; exact hx))

/-! #### `content-type:` -/

theorem ctPat_ne : ctPat ≠ [] := by decide
theorem colon_in_ct : ':' ∈ ctPat := by decide

theorem freeC_of_notin (s : Str) (h : ':' ∉ s) : Free ctPat lowerAscii s :=
  free_of_notin _ _ s ':' colon_in_ct (fun x hx e => by
    have := lowerAscii_eq x ':' (by decide) e
    subst this; exact h hx)

theorem noLookalike_iff (s : Str) : NoLookalike s ↔ Free ctPat lowerAscii s := Iff.rfl

/-- both patterns at once: `B` = boundary text, `C` = `content-type:` after lower-casing. -/
structure Plain (s : Str) : Prop where
  B : Free boundaryMark id s
  C : Free ctPat lowerAscii s

theorem plain_of_notin (s : Str) (hR : 'R' ∉ s) (hc : ':' ∉ s) : Plain s :=
  ⟨freeB_of_notin s hR, freeC_of_notin s hc⟩

theorem plain_hex (s : Str) (h : HexOk s) : Plain s :=
  plain_of_notin s (all_notin _ _ h.1 _ (by decide)) (all_notin _ _ h.1 _ (by decide))

theorem plain_i64 (s : Str) (n : Int) (h : parseI64 s = some n) : Plain s :=
  plain_of_notin s (parseI64_notin s n _ h (by decide) (by decide) (by decide))
    (parseI64_notin s n _ h (by decide) (by decide) (by decide))

theorem plain_digits (n : Nat) : Plain (natDigits n) :=
  plain_of_notin _ (all_notin _ _ (natDigits_all n) _ (by decide))
    (all_notin _ _ (natDigits_all n) _ (by decide))

theorem plain_seqnLine (n : Nat) : Plain (seqnLine n) :=
  plain_of_notin _ (seqnLine_notin n _ (by decide) (by decide)) (seqnLine_notin n _ (by decide) (by decide))

theorem plain_versionsHeader : Plain versionsHeader :=
  ⟨by unfold Free; decide +kernel, by unfold Free; decide +kernel⟩
theorem plain_cdnsHeader : Plain cdnsHeader :=
  ⟨by unfold Free; decide +kernel, by unfold Free; decide +kernel⟩
theorem plain_summaryHeader : Plain summaryHeader :=
  ⟨by unfold Free; decide +kernel, by unfold Free; decide +kernel⟩
theorem plain_versionsRegions : ∀ reg ∈ versionsRegions, Plain reg := by
  intro reg h
  apply plain_of_notin
  · revert reg; decide
  · revert reg; decide
theorem plain_cdnsRegions : ∀ reg ∈ cdnsRegions, Plain reg := by
  intro reg h
  apply plain_of_notin
  · revert reg; decide
  · revert reg; decide

theorem lower_bar : lowerAscii '|' = '|' := by decide
theorem lower_nl : lowerAscii '\n' = '\n' := by decide

/-! #### the three documents -/

theorem plain_document {α : Type} (header : Str) (xs : List α) (fields : α → List Str) (seqn : Nat)
    (hH : Plain header) (hF : ∀ x ∈ xs, ∀ f ∈ fields x, Plain f) :
    Plain (joinWith nl (header :: ((xs.map fun x => joinWith bar (fields x)) ++ [seqnLine seqn]))) :=
  ⟨free_document _ _ boundaryMark_ne (by decide) (by decide) header xs fields seqn hH.B
      (fun x hx f hf => (hF x hx f hf).B) (plain_seqnLine seqn).B,
   free_document _ _ ctPat_ne (by rw [lower_bar]; decide) (by rw [lower_nl]; decide) header xs fields seqn
      hH.C (fun x hx f hf => (hF x hx f hf).C) (plain_seqnLine seqn).C⟩

/-- one-sided versions (the V1 path needs only `B`, the V2 path only `C`). -/
theorem freeB_document {α : Type} (header : Str) (xs : List α) (fields : α → List Str) (seqn : Nat)
    (hH : Free boundaryMark id header) (hF : ∀ x ∈ xs, ∀ f ∈ fields x, Free boundaryMark id f) :
    Free boundaryMark id
      (joinWith nl (header :: ((xs.map fun x => joinWith bar (fields x)) ++ [seqnLine seqn]))) :=
  free_document _ _ boundaryMark_ne (by decide) (by decide) header xs fields seqn hH hF
    (plain_seqnLine seqn).B

theorem freeC_document {α : Type} (header : Str) (xs : List α) (fields : α → List Str) (seqn : Nat)
    (hH : Free ctPat lowerAscii header) (hF : ∀ x ∈ xs, ∀ f ∈ fields x, Free ctPat lowerAscii f) :
    Free ctPat lowerAscii
      (joinWith nl (header :: ((xs.map fun x => joinWith bar (fields x)) ++ [seqnLine seqn]))) :=
  free_document _ _ ctPat_ne (by rw [lower_bar]; decide) (by rw [lower_nl]; decide) header xs fields seqn
    hH hF (plain_seqnLine seqn).C

/-! ### the database the server accepted -/

theorem firstInvalid_none (recs : List Record) (h : firstInvalid recs = none) :
    ∀ r ∈ recs, validate r = none := by
  induction recs with
  | nil => intro r hr; cases hr
  | cons x xs ih =>
    unfold firstInvalid at h
    cases hv : validate x with
    | some f => rw [hv] at h; cases h
    | none =>
      rw [hv] at h
      intro r hr
      simp only [List.mem_cons] at hr
      rcases hr with rfl | hr
      · exact hv
      · exact ih h r hr

/-- `BuildDatabase::from_file` succeeds only on a non-empty list of records that all pass
`validate`, and keeps them all. -/
theorem load_ok (recs db : List Record) (h : load recs = .ok db) :
    db = recs ∧ recs ≠ [] ∧ ∀ r ∈ db, validate r = none := by
  unfold load at h
  split at h; · cases h
  rename_i hne
  cases hf : firstInvalid recs with
  | some f => rw [hf] at h; cases h
  | none =>
    rw [hf] at h
    cases h
    exact ⟨rfl, hne, firstInvalid_none recs hf⟩

/-! ### `split` is inverted by `join`; HTTP routing -/

theorem joinWith_cons_head (sep : Str) (c : Char) (x : Str) (xs : List Str) :
    joinWith sep ((c :: x) :: xs) = c :: joinWith sep (x :: xs) := by
  cases xs <;> simp [joinWith]

theorem joinWith_splitOn (sep : Char) (s : Str) : joinWith [sep] (splitOn sep s) = s := by
  induction s with
  | nil => rfl
  | cons c cs ih =>
    unfold splitOn at ih ⊢
    simp only [splitAux]
    by_cases h : c = sep
    · simp only [h, ↓reduceIte, joinWith, List.nil_append, List.singleton_append]
      rw [ih]
    · simp only [h, ↓reduceIte]
      rw [joinWith_cons_head, ih]

theorem splitOn_nosep_pieces (sep : Char) (s : Str) : ∀ y ∈ splitOn sep s, sep ∉ y := by
  induction s with
  | nil => intro y hy; simp [splitOn, splitAux] at hy; subst hy; simp
  | cons c cs ih =>
    unfold splitOn at ih ⊢
    simp only [splitAux]
    by_cases h : c = sep
    · simp only [h, ↓reduceIte]
      intro y hy
      simp only [List.mem_cons] at hy
      rcases hy with rfl | hy
      · simp
      · exact ih y (by simpa using hy)
    · simp only [h, ↓reduceIte]
      intro y hy
      simp only [List.mem_cons] at hy
      rcases hy with rfl | hy
      · have := ih (splitAux sep cs).1 (by simp)
        simp only [List.mem_cons, not_or]
        exact ⟨fun e => h e.symm, this⟩
      · exact ih y (by simp [hy])

theorem parseEndpoint_some (ep : Str) (e : Endpoint) (h : parseEndpoint ep = some e) : ep = e.name := by
  unfold parseEndpoint at h
  split at h
  · cases h; assumption
  · split at h
    · cases h; assumption
    · split at h
      · cases h; assumption
      · cases h

/-- the URL path of a product endpoint. -/
def httpPath (p : Str) (e : Endpoint) : Str := '/' :: p ++ '/' :: e.name

theorem httpPath_eq_join (p : Str) (e : Endpoint) : httpPath p e = joinWith ['/'] [[], p, e.name] := by
  simp [httpPath, joinWith]

theorem handleHttp_path (s : Server) (seqn : Nat) (p : Str) (e : Endpoint) (hp : '/' ∉ p) (hne : p ≠ []) :
    handleHttp s seqn (httpPath p e) = (latest s.db p).map (fun r => respondBpsv s seqn r e) := by
  rw [httpPath_eq_join]
  unfold handleHttp
  rw [splitOn_joinWith '/' [] [p, e.name] (by
    intro y hy
    simp only [List.mem_cons, List.mem_nil_iff, or_false] at hy
    rcases hy with rfl | rfl | rfl
    · simp
    · exact hp
    · exact epName_noslash _)]
  cases hl : latest s.db p <;> simp [hne, parseEndpoint_name, hl]

/-- a 200 comes only from a path of the table. -/
theorem handleHttp_some (s : Server) (seqn : Nat) (path body : Str) (h : handleHttp s seqn path = some body) :
    ∃ p e r, path = httpPath p e ∧ p ≠ [] ∧ '/' ∉ p ∧ latest s.db p = some r ∧
      body = respondBpsv s seqn r e := by
  have hjoin := joinWith_splitOn '/' path
  have hpieces := splitOn_nosep_pieces '/' path
  unfold handleHttp at h
  split at h
  · rename_i product ep hsplit
    split at h; · cases h
    rename_i hne
    cases hpe : parseEndpoint ep with
    | none => simp [hpe] at h
    | some e =>
      cases hl : latest s.db product with
      | none => simp [hpe, hl] at h
      | some r =>
        simp only [hpe, hl, Option.some.injEq] at h
        refine ⟨product, e, r, ?_, hne, ?_, hl, h.symm⟩
        · rw [httpPath_eq_join, ← parseEndpoint_some ep e hpe, ← hsplit, hjoin]
        · exact hpieces product (by rw [hsplit]; simp)
  · cases h


end Cascette.Proofs.Ribbit
