/-
Proofs/SerialPatchIndex — lemmas for the patch index model (property C08): entry round trip and
inversion, length of the serialised entry table, `parsePIdx_ser` (the builder's canonical file
parses back to the value it was built from), `parsePIdx_wf` (what an accepting parse establishes).
-/
import Cascette.Model.SerialPatchIndex
import Cascette.Proofs.Serial
namespace Cascette.Proofs.SerialPatchIndex
open Cascette Cascette.Model.Manifest Cascette.Model.Serial Cascette.Model.SerialPatchIndex
open Cascette.Proofs.Manifest Cascette.Proofs.Serial

/-- a key as the Rust struct holds it for key size `ks`: 16 bytes, zero beyond `ks` -/
def KeyWf (ks : Nat) (k : Bytes) : Prop := k.length = 16 ∧ pad16 (k.take ks) = k

structure PEntryWf (ks : Nat) (e : PEntry) : Prop where
  src : KeyWf ks e.src
  tgt : KeyWf ks e.tgt
  patch : KeyWf ks e.patch
  srcSize : e.srcSize < 4294967296
  tgtSize : e.tgtSize < 4294967296
  encSize : e.encSize < 4294967296

theorem take_len {ks : Nat} {k : Bytes} (h : k.length = 16) (hk : ks ≤ 16) : (k.take ks).length = ks := by
  rw [List.length_take]; omega

theorem rdLe_leW4 (n : Nat) (h : n < 4294967296) : rdLe (leW 4 n) = n := by
  rw [rdLe_leW]; exact Nat.mod_eq_of_lt h

theorem rdLe4_lt (bs : Bytes) (h : bs.length = 4) : rdLe bs < 4294967296 := by
  match bs, h with
  | [a, b, c, d], _ =>
    simp only [rdLe]
    have := a.isLt; have := b.isLt; have := c.isLt; have := d.isLt
    omega

theorem parsePEntry_ser (ks : Nat) (hk : ks ≤ 16) (e : PEntry) (rest : Bytes) (h : PEntryWf ks e) :
    parsePEntry ks (serPEntry ks e ++ rest) = some (e, rest) := by
  obtain ⟨src, ss, tgt, ts, es, sf, pk⟩ := e
  obtain ⟨⟨l1, p1⟩, ⟨l2, p2⟩, ⟨l3, p3⟩, s1, s2, s3⟩ := h
  simp only at l1 p1 l2 p2 l3 p3 s1 s2 s3
  unfold parsePEntry serPEntry
  rw [if_neg (by omega)]
  simp only [List.append_assoc]
  rw [readN_append ks _ _ (take_len l1 hk)]
  simp only
  rw [readN_append 4 _ _ (leW_length _ _)]
  simp only
  rw [readN_append ks _ _ (take_len l2 hk)]
  simp only
  rw [readN_append 4 _ _ (leW_length _ _)]
  simp only
  rw [readN_append 4 _ _ (leW_length _ _)]
  simp only [List.cons_append, List.nil_append]
  rw [readN_append ks _ _ (take_len l3 hk)]
  simp only [p1, p2, p3, rdLe_leW4 _ s1, rdLe_leW4 _ s2, rdLe_leW4 _ s3]

theorem pad16_wf {ks : Nat} {k : Bytes} (hk : ks ≤ 16) (h : k.length = ks) : KeyWf ks (pad16 k) := by
  have e : (pad16 k).take ks = k := by
    unfold pad16; rw [← h]; exact List.take_left
  refine ⟨?_, by rw [e]⟩
  unfold pad16
  rw [List.length_append, List.length_replicate]; omega

/-- an accepted entry read: the entry is well formed, the key size is at most 16 and exactly
`esize ks` bytes were consumed -/
theorem parsePEntry_inv {ks : Nat} {bs r : Bytes} {e : PEntry} (h : parsePEntry ks bs = some (e, r)) :
    PEntryWf ks e ∧ ks ≤ 16 ∧ bs.length = esize ks + r.length := by
  unfold parsePEntry at h
  by_cases hk : ks > 16
  · rw [if_pos hk] at h; cases h
  · rw [if_neg hk] at h
    have hk' : ks ≤ 16 := by omega
    cases h1 : readN ks bs with
    | none => rw [h1] at h; simp at h
    | some q1 =>
      obtain ⟨src, r1⟩ := q1
      simp only [h1] at h
      cases h2 : readN 4 r1 with
      | none => rw [h2] at h; simp at h
      | some q2 =>
        obtain ⟨ss, r2⟩ := q2
        simp only [h2] at h
        cases h3 : readN ks r2 with
        | none => rw [h3] at h; simp at h
        | some q3 =>
          obtain ⟨tgt, r3⟩ := q3
          simp only [h3] at h
          cases h4 : readN 4 r3 with
          | none => rw [h4] at h; simp at h
          | some q4 =>
            obtain ⟨ts, r4⟩ := q4
            simp only [h4] at h
            cases h5 : readN 4 r4 with
            | none => rw [h5] at h; simp at h
            | some q5 =>
              obtain ⟨es, r5⟩ := q5
              simp only [h5] at h
              cases r5 with
              | nil => simp at h
              | cons sf r6 =>
                simp only at h
                cases h7 : readN ks r6 with
                | none => rw [h7] at h; simp at h
                | some q7 =>
                  obtain ⟨pk, r7⟩ := q7
                  simp only [h7, Option.some.injEq, Prod.mk.injEq] at h
                  obtain ⟨rfl, rfl⟩ := h
                  obtain ⟨e1, l1⟩ := readN_inv h1
                  obtain ⟨e2, l2⟩ := readN_inv h2
                  obtain ⟨e3, l3⟩ := readN_inv h3
                  obtain ⟨e4, l4⟩ := readN_inv h4
                  obtain ⟨e5, l5⟩ := readN_inv h5
                  obtain ⟨e7, l7⟩ := readN_inv h7
                  refine ⟨⟨pad16_wf hk' l1, pad16_wf hk' l3, pad16_wf hk' l7, rdLe4_lt _ l2,
                    rdLe4_lt _ l4, rdLe4_lt _ l5⟩, hk', ?_⟩
                  rw [e1, e2, e3, e4, e5, e7]
                  simp only [List.length_append, List.length_cons, l1, l2, l3, l4, l5, l7, esize]
                  omega

theorem serPEntry_length {ks : Nat} (hk : ks ≤ 16) {e : PEntry} (h : PEntryWf ks e) :
    (serPEntry ks e).length = esize ks := by
  unfold serPEntry esize
  simp only [List.length_append, take_len h.src.1 hk, take_len h.tgt.1 hk, take_len h.patch.1 hk,
    leW_length, List.length_cons, List.length_nil]
  omega

theorem flatten_length {ks : Nat} (hk : ks ≤ 16) (es : List PEntry) (h : ∀ e ∈ es, PEntryWf ks e) :
    ((es.map (serPEntry ks)).flatten).length = es.length * esize ks := by
  induction es with
  | nil => simp
  | cons e es ih =>
    simp only [List.map_cons, List.flatten_cons, List.length_append, List.length_cons,
      serPEntry_length hk (h e List.mem_cons_self), ih (fun x hx => h x (List.mem_cons_of_mem _ hx))]
    rw [Nat.add_mul, Nat.one_mul, Nat.add_comm]

/-- the well-formed logical content: what `parse` establishes (for inputs below 2 GiB) and what
`build` needs to write a file whose u32 size fields do not wrap -/
structure PWf (v : PIdx) : Prop where
  ks : v.keySize < 256
  small : v.entries ≠ [] → v.keySize ≤ 16
  entries : ∀ e ∈ v.entries, PEntryWf v.keySize e
  size : totalSize v < 4294967296

theorem serEntries_length (v : PIdx) (h : PWf v) :
    (serEntries v).length = v.entries.length * esize v.keySize := by
  unfold serEntries
  by_cases he : v.entries = []
  · rw [he]; simp
  · exact flatten_length (h.small he) _ h.entries

theorem block2_length (v : PIdx) : (block2 v).length = 5 + (serEntries v).length := by
  unfold block2
  simp only [List.length_append, leW_length, List.length_cons, List.length_nil]

theorem block8_length (v : PIdx) : (block8 v).length = 14 + (serEntries v).length := by
  unfold block8
  simp only [List.length_append, leW_length, List.length_cons, List.length_nil]

theorem parseBlock2_ser (v : PIdx) (h : PWf v) : parseBlock2 (block2 v) = some v := by
  have hlen := serEntries_length v h
  have hb2 := block2_length v
  have hT := h.size
  have hb8 := block8_length v
  unfold totalSize at hT
  obtain ⟨ks, entries⟩ := v
  have hks := h.ks
  simp only at hks hlen
  have hksm : (BitVec.ofNat 8 ks : Byte).toNat = ks := by
    simp only [BitVec.toNat_ofNat]; omega
  have hn : entries.length < 4294967296 := by
    by_cases he : entries = []
    · rw [he]; simp
    · have : esize ks ≥ 13 := by unfold esize; omega
      have : entries.length * 13 ≤ entries.length * esize ks := Nat.mul_le_mul_left _ this
      omega
  unfold parseBlock2
  rw [hb2]
  unfold block2
  simp only [List.append_assoc, List.cons_append, List.nil_append]
  rw [readN_append 4 _ _ (leW_length _ _)]
  simp only [rdLe_leW4 _ hn, hksm, hlen]
  rw [if_neg (by omega)]
  have pE : parseMany (parsePEntry ks) entries.length ((entries.map (serPEntry ks)).flatten ++ []) = some (entries, []) := by
    by_cases he : entries = []
    · subst he; rfl
    · exact parseMany_ser _ _ _ _ (fun e hm r => parsePEntry_ser ks (h.small he) e r (h.entries e hm))
  rw [List.append_nil] at pE
  unfold serEntries
  simp only
  rw [pE]

/-! ### the canonical file written by `PatchIndexBuilder::build` -/

/-- the 50 bytes in front of block 2: the 43-byte header and the fixed block 1 -/
def prefix50 (v : PIdx) : Bytes :=
  leW 4 43 ++ leW 4 1 ++ leW 4 (totalSize v) ++ leW 2 1 ++ [0] ++ leW 4 3 ++
  (leW 4 1 ++ leW 4 7) ++ (leW 4 2 ++ leW 4 (block2 v).length) ++ (leW 4 8 ++ leW 4 (block8 v).length) ++
  block1Data

theorem serPIdx_split (v : PIdx) : serPIdx v = prefix50 v ++ (block2 v ++ block8 v) := by
  unfold serPIdx prefix50
  simp only [List.append_assoc]

theorem prefix50_length (v : PIdx) : (prefix50 v).length = 50 := by
  unfold prefix50 block1Data
  simp only [List.length_append, leW_length, List.length_cons, List.length_nil]

theorem serPIdx_length (v : PIdx) : (serPIdx v).length = totalSize v := by
  rw [serPIdx_split, List.length_append, prefix50_length, List.length_append]
  unfold totalSize; omega

theorem leW4_eq (n : Nat) : ∃ a b c d : Byte, leW 4 n = [a, b, c, d] := ⟨_, _, _, _, rfl⟩

theorem parseDesc8 (x0 x1 x2 x3 y0 y1 y2 y3 : Byte) (r : Bytes) :
    parseDesc ([x0, x1, x2, x3, y0, y1, y2, y3] ++ r) =
      some ((rdLe [x0, x1, x2, x3], rdLe [y0, y1, y2, y3]), r) := by
  unfold parseDesc
  rw [show [x0, x1, x2, x3, y0, y1, y2, y3] ++ r = [x0, x1, x2, x3] ++ ([y0, y1, y2, y3] ++ r) from rfl,
    readN_append 4 _ _ rfl]
  simp only
  rw [readN_append 4 _ _ rfl]

theorem parseExtra_one (r : Bytes) : parseExtra 1 (0 :: r) = some ((0, [], []), r) := by
  simp [parseExtra, readN]

theorem parsePHeader_ser (v : PIdx) (hT : totalSize v < 4294967296) :
    parsePHeader (serPIdx v) =
      some ⟨43, totalSize v, 1, 0, [], [], [(1, 7), (2, (block2 v).length), (8, (block8 v).length)]⟩ := by
  have hlen := serPIdx_length v
  have hL2 : (block2 v).length < 4294967296 := by unfold totalSize at hT; omega
  have hL8 : (block8 v).length < 4294967296 := by unfold totalSize at hT; omega
  obtain ⟨t0, t1, t2, t3, ht⟩ := leW4_eq (totalSize v)
  obtain ⟨a0, a1, a2, a3, ha⟩ := leW4_eq (block2 v).length
  obtain ⟨b0, b1, b2, b3, hb⟩ := leW4_eq (block8 v).length
  have rt : rdLe [t0, t1, t2, t3] = totalSize v := by rw [← ht]; exact rdLe_leW4 _ hT
  have ra : rdLe [a0, a1, a2, a3] = (block2 v).length := by rw [← ha]; exact rdLe_leW4 _ hL2
  have rb : rdLe [b0, b1, b2, b3] = (block8 v).length := by rw [← hb]; exact rdLe_leW4 _ hL8
  have c43 : leW 4 43 = [43, 0, 0, 0] := by decide
  have c1 : leW 4 1 = [1, 0, 0, 0] := by decide
  have c21 : leW 2 1 = [1, 0] := by decide
  have c3 : leW 4 3 = [3, 0, 0, 0] := by decide
  have c7 : leW 4 7 = [7, 0, 0, 0] := by decide
  have c2 : leW 4 2 = [2, 0, 0, 0] := by decide
  have c8 : leW 4 8 = [8, 0, 0, 0] := by decide
  have r43 : rdLe [(43 : Byte), 0, 0, 0] = 43 := by decide
  have r1 : rdLe [(1 : Byte), 0, 0, 0] = 1 := by decide
  have r21 : rdLe [(1 : Byte), 0] = 1 := by decide
  have r3 : rdLe [(3 : Byte), 0, 0, 0] = 3 := by decide
  have r7 : rdLe [(7 : Byte), 0, 0, 0] = 7 := by decide
  have r2 : rdLe [(2 : Byte), 0, 0, 0] = 2 := by decide
  have r8 : rdLe [(8 : Byte), 0, 0, 0] = 8 := by decide
  have e1 : serPIdx v = [43, 0, 0, 0, 1, 0, 0, 0, t0, t1, t2, t3, 1, 0] ++
      (0 :: ([3, 0, 0, 0] ++ ([1, 0, 0, 0, 7, 0, 0, 0] ++ ([2, 0, 0, 0, a0, a1, a2, a3] ++
        ([8, 0, 0, 0, b0, b1, b2, b3] ++ (block1Data ++ (block2 v ++ block8 v))))))) := by
    unfold serPIdx
    rw [ht, ha, hb, c43, c1, c21, c3, c7, c2, c8]
    simp
  unfold parsePHeader
  rw [hlen, e1, readN_append 14 _ _ rfl]
  simp only [r43, r1, r21, rt, ne_eq, not_true_eq_false, if_false]
  rw [if_neg (by unfold totalSize; omega), parseExtra_one]
  simp only
  rw [readN_append 4 _ _ rfl]
  simp only [r3, parseMany, parseDesc8, r1, r7, r2, r8, ra, rb, List.map_cons, List.map_nil,
    List.sum_cons, List.sum_nil]
  rw [if_neg (by unfold totalSize; omega)]

theorem block2_at (v : PIdx) : ((serPIdx v).drop (43 + 7)).take (block2 v).length = block2 v := by
  rw [serPIdx_split, List.drop_left' (prefix50_length v), List.take_left' rfl]

/-- the builder's file parses back to the value it was built from (and the canonical header) -/
theorem parsePFull_ser (v : PIdx) (h : PWf v) :
    parsePFull (serPIdx v) =
      some (⟨43, totalSize v, 1, 0, [], [], [(1, 7), (2, (block2 v).length), (8, (block8 v).length)]⟩, v) := by
  unfold parsePFull
  rw [parsePHeader_ser v h.size]
  simp only
  rw [if_neg (by rw [serPIdx_length]; simp)]
  have s1 : ¬ ((1 : Nat) = 2) := by decide
  have s2 : ¬ ((1 : Nat) = 8) := by decide
  have s3 : ¬ ((8 : Nat) = 2) := by decide
  simp only [stepBlocks, s1, s2, s3, if_false, if_true, block2_at, parseBlock2_ser v h]

theorem parsePIdx_ser (v : PIdx) (h : PWf v) : parsePIdx (serPIdx v) = some v := by
  unfold parsePIdx
  rw [parsePFull_ser v h]; rfl

/-! ### what an accepting parse establishes -/

/-- the part of `PWf` that does not depend on the input size, plus the bound that gives it -/
structure PCore (bound : Nat) (v : PIdx) : Prop where
  ks : v.keySize < 256
  small : v.entries ≠ [] → v.keySize ≤ 16
  entries : ∀ e ∈ v.entries, PEntryWf v.keySize e
  fits : 5 + v.entries.length * esize v.keySize ≤ bound + 5

theorem parseMany_entries_inv {ks : Nat} : ∀ (n : Nat) (bs : Bytes) (es : List PEntry) (r : Bytes),
    parseMany (parsePEntry ks) n bs = some (es, r) →
    es.length = n ∧ (∀ e ∈ es, PEntryWf ks e) ∧ (es ≠ [] → ks ≤ 16) := by
  intro n
  induction n with
  | zero =>
    intro bs es r h
    simp only [parseMany, Option.some.injEq, Prod.mk.injEq] at h
    obtain ⟨rfl, rfl⟩ := h
    simp
  | succ c ih =>
    intro bs es r h
    unfold parseMany at h
    cases h1 : parsePEntry ks bs with
    | none => rw [h1] at h; simp at h
    | some q =>
      obtain ⟨x, r1⟩ := q
      simp only [h1] at h
      cases h2 : parseMany (parsePEntry ks) c r1 with
      | none => rw [h2] at h; simp at h
      | some q2 =>
        obtain ⟨xs, r'⟩ := q2
        simp only [h2, Option.some.injEq, Prod.mk.injEq] at h
        obtain ⟨rfl, rfl⟩ := h
        obtain ⟨w1, k1, _⟩ := parsePEntry_inv h1
        obtain ⟨l2, w2, _⟩ := ih _ _ _ h2
        refine ⟨by simp [l2], ?_, fun _ => k1⟩
        intro y hy
        rcases List.mem_cons.mp hy with rfl | hy
        · exact w1
        · exact w2 y hy

theorem parseBlock2_inv {bd : Bytes} {v : PIdx} (h : parseBlock2 bd = some v) : PCore bd.length v := by
  unfold parseBlock2 at h
  cases h1 : readN 4 bd with
  | none => rw [h1] at h; simp at h
  | some q1 =>
    obtain ⟨c, r1⟩ := q1
    simp only [h1] at h
    cases r1 with
    | nil => simp at h
    | cons ks r2 =>
      simp only at h
      by_cases hn : bd.length < 5 + rdLe c * esize ks.toNat
      · rw [if_pos hn] at h; cases h
      · rw [if_neg hn] at h
        cases h2 : parseMany (parsePEntry ks.toNat) (rdLe c) r2 with
        | none => rw [h2] at h; simp at h
        | some q2 =>
          obtain ⟨es, r3⟩ := q2
          simp only [h2, Option.some.injEq] at h
          subst h
          obtain ⟨l, w, k⟩ := parseMany_entries_inv _ _ _ _ h2
          exact ⟨ks.isLt, k, w, by simp only [l]; omega⟩

theorem parseBlock8_inv {bd : Bytes} {v : PIdx} (h : parseBlock8 bd = some v) : PCore bd.length v := by
  unfold parseBlock8 at h
  cases h1 : readN 14 bd with
  | none => rw [h1] at h; simp at h
  | some q1 =>
    obtain ⟨hd, r1⟩ := q1
    simp only [h1] at h
    obtain ⟨_, l1⟩ := readN_inv h1
    match hd, l1, h with
    | [ver, ks, o0, o1, c0, c1, c2, c3, _, _, _, _, _, _], _, h =>
      simp only at h
      by_cases hv : ver ≠ 3
      · rw [if_pos hv] at h; cases h
      · rw [if_neg hv] at h
        by_cases hn : bd.length < rdLe [o0, o1] + rdLe [c0, c1, c2, c3] * esize ks.toNat
        · rw [if_pos hn] at h; cases h
        · rw [if_neg hn] at h
          cases h2 : parseMany (parsePEntry ks.toNat) (rdLe [c0, c1, c2, c3]) (bd.drop (rdLe [o0, o1])) with
          | none => rw [h2] at h; simp at h
          | some q2 =>
            obtain ⟨es, r3⟩ := q2
            simp only [h2, Option.some.injEq] at h
            subst h
            obtain ⟨l, w, k⟩ := parseMany_entries_inv _ _ _ _ h2
            exact ⟨ks.isLt, k, w, by simp only [l]; omega⟩

theorem PCore.mono {a b : Nat} {v : PIdx} (h : PCore a v) (hab : a ≤ b) : PCore b v :=
  ⟨h.ks, h.small, h.entries, by have := h.fits; omega⟩

theorem stepBlocks_inv (data : Bytes) : ∀ (blocks : List (Nat × Nat)) (off : Nat) (st st' : PIdx × Bool),
    PCore data.length st.1 → stepBlocks data off blocks st = some st' → PCore data.length st'.1 := by
  intro blocks
  induction blocks with
  | nil =>
    intro off st st' hc h
    simp only [stepBlocks, Option.some.injEq] at h
    subst h; exact hc
  | cons b rest ih =>
    intro off st st' hc h
    obtain ⟨ty, sz⟩ := b
    have hbd : ((data.drop off).take sz).length ≤ data.length := by
      rw [List.length_take, List.length_drop]; omega
    unfold stepBlocks at h
    simp only at h
    by_cases h2 : ty = 2
    · rw [if_pos h2] at h
      cases hp : parseBlock2 ((data.drop off).take sz) with
      | none => rw [hp] at h; simp at h
      | some v =>
        simp only [hp] at h
        exact ih _ _ _ ((parseBlock2_inv hp).mono hbd) h
    · rw [if_neg h2] at h
      by_cases h8 : ty = 8
      · rw [if_pos h8] at h
        by_cases hf : st.2 = true
        · rw [if_pos hf] at h
          exact ih _ _ _ hc h
        · rw [if_neg hf] at h
          cases hp : parseBlock8 ((data.drop off).take sz) with
          | none => rw [hp] at h; simp at h
          | some v =>
            simp only [hp] at h
            exact ih _ _ _ ((parseBlock8_inv hp).mono hbd) h
      · rw [if_neg h8] at h
        exact ih _ _ _ hc h

/-- every accepted input below 2 GiB parses to a well-formed value: the rebuilt file (header, block
1 and TWO copies of the entry table) still has a `u32` size -/
theorem parsePIdx_wf {b : Bytes} {v : PIdx} (h : parsePIdx b = some v) (hb : b.length < 2147483600) :
    PWf v := by
  unfold parsePIdx at h
  cases hf : parsePFull b with
  | none => rw [hf] at h; simp at h
  | some p =>
    obtain ⟨hd, v'⟩ := p
    rw [hf] at h
    simp only [Option.map_some, Option.some.injEq] at h
    subst h
    unfold parsePFull at hf
    cases hh : parsePHeader b with
    | none => rw [hh] at hf; simp at hf
    | some hdr =>
      simp only [hh] at hf
      by_cases hds : hdr.dataSize ≠ b.length
      · rw [if_pos hds] at hf; cases hf
      · rw [if_neg hds] at hf
        cases hs : stepBlocks b hdr.headerSize hdr.blocks (⟨16, []⟩, false) with
        | none => rw [hs] at hf; simp at hf
        | some st =>
          obtain ⟨v'', fl⟩ := st
          simp only [hs, Option.some.injEq, Prod.mk.injEq] at hf
          obtain ⟨_, rfl⟩ := hf
          have init : PCore b.length (⟨16, []⟩, false).1 :=
            ⟨by decide, fun x => absurd rfl x, fun e he => (by cases he), by simp⟩
          have c := stepBlocks_inv b _ _ _ _ init hs
          simp only at c
          refine ⟨c.ks, c.small, c.entries, ?_⟩
          have hl : (serEntries v'').length = v''.entries.length * esize v''.keySize := by
            unfold serEntries
            by_cases he : v''.entries = []
            · rw [he]; simp
            · exact flatten_length (c.small he) _ c.entries
          have := c.fits
          unfold totalSize
          rw [block2_length, block8_length, hl]
          omega

end Cascette.Proofs.SerialPatchIndex
