/-
Proofs/LruRefine — the pointer layer `Model/LruPtr` (entry array, prev/next indices, header
head/tail, free-list stack, key map: `LruManager` as written) REFINES the sequence layer
`Model/LruSeq`, for every history of touch / remove / evict_tail / evict_to_target / bump /
checkpoint / reset / reopen, on every key (the all-zero key included) and every capacity that
fits the `u32` the code stores it in.

* `Seg` / `ListOk`  : the intrusive doubly linked list over the slots `L` (LRU tail first).
* `RepF s L F`      : representation invariant — array length = capacity, `L ++ F` is a
                      permutation of all slots (linked ∪ free = all, disjoint), the list is well
                      formed, `key_map` ↔ linked slots, free slots hold `LruFileEntry::empty()`.
* `unlink_ok`, `linkAtHead_ok`, `detach_ok`, `install_ok` : each pointer-level primitive keeps
                      the invariant (never indexes out of range = never panics) and does to `L`
                      what the sequence model does to its key list.
* `step_sim` / `run_sim` : forward simulation `LruPtr.step` ↔ `LruSeq.step`, whole histories.
* fuel: `iterAux_seg` / `iter_sim` (for_each_entry) and `evictLoop_sim` (evict_to_target) show
  that the fuel `entries.length + 1` of the model's two `while` loops is never exhausted under the
  invariant; `slots_rep`: the abstraction FUNCTION (`Ptr.slots`, the `next` walk) returns `L`.
* persistence: `rebuild_*` (the `is_active` loop of `load_from_disk`), `load_rep` (it restores the
  invariant with the same slot list when no linked key is all-zero), `GoodFile` / `snapOf` /
  `goodfile_decode` (what `checkpoint_to_disk` writes parses back, via the codec theorem), `Sim2`
  (simulation relation with files), `step_sim2` / `run_sim2`: ALL operations incl. `load_from_disk`
  and `run_cycle`, for 9-byte keys other than the all-zero key.
* `viewOf_rep` / `fileView_checkpoint`: what an independent reader of the checkpoint file finds.
-/
import Cascette.Model.LruPtr
import Cascette.Proofs.Lru
import Cascette.Proofs.LruPtr
namespace Cascette.Proofs.LruRefine
open Cascette Cascette.Model.LruPtr
open Cascette.Model.LruSeq (Seq)
open Cascette.Model

/-- the key stored in slot `i` (spec-level view; `[]` for an index outside the array) -/
def keyAt (es : List Entry) (i : Nat) : Key :=
  match es[i]? with
  | some e => e.ekey
  | none => []

/-- `Seg es p L n`: the slots of `L` are linked in this order — the first one's `prev` is `p`,
each one's `next` is its successor, the last one's `next` is `n`, each one's `prev` its
predecessor. -/
def Seg (es : List Entry) : Nat → List Nat → Nat → Prop
  | _, [], _ => True
  | p, i :: rest, n => (∃ e, es[i]? = some e ∧ e.prev = p ∧ e.next = rest.headD n) ∧ Seg es i rest n

theorem seg_append (es : List Entry) (p n : Nat) (A B : List Nat) :
    Seg es p (A ++ B) n ↔ Seg es p A (B.headD n) ∧ Seg es (A.getLastD p) B n := by
  induction A generalizing p with
  | nil => simp [Seg]
  | cons a A ih =>
    simp only [List.cons_append, Seg, ih, List.getLastD_cons]
    cases A <;> simp [and_assoc]

/-- `Seg` reads only the `prev`/`next` fields of the slots it lists. -/
theorem seg_congr {es es' : List Entry} {p n : Nat} {L : List Nat}
    (h : ∀ i ∈ L, ∀ e, es[i]? = some e → ∃ e', es'[i]? = some e' ∧ e'.prev = e.prev ∧ e'.next = e.next)
    (hs : Seg es p L n) : Seg es' p L n := by
  induction L generalizing p with
  | nil => trivial
  | cons a L ih =>
    obtain ⟨⟨e, he, hp, hn⟩, hrest⟩ := hs
    obtain ⟨e', he', hp', hn'⟩ := h a List.mem_cons_self e he
    exact ⟨⟨e', he', by omega, by omega⟩, ih (fun i hi => h i (List.mem_cons_of_mem _ hi)) hrest⟩

theorem getLastD_mem_cons (b : Nat) (L : List Nat) (a : Nat) : (b :: L).getLastD a ∈ b :: L := by
  induction L generalizing b a with
  | nil => simp [List.getLastD]
  | cons c L ih =>
    rw [List.getLastD_cons]
    exact List.mem_cons_of_mem _ (ih c b)

/-- re-pointing the `next` of the last slot of a segment. -/
theorem seg_set_last_next {es es' : List Entry} {p n n' : Nat} {L : List Nat} (hnd : L.Nodup)
    (h : ∀ i ∈ L, ∀ e, es[i]? = some e → ∃ e', es'[i]? = some e' ∧ e'.prev = e.prev ∧
      e'.next = if i = L.getLastD p then n' else e.next)
    (hs : Seg es p L n) : Seg es' p L n' := by
  induction L generalizing p with
  | nil => trivial
  | cons a L ih =>
    obtain ⟨⟨e, he, hp, hn⟩, hrest⟩ := hs
    obtain ⟨e', he', hp', hn'⟩ := h a List.mem_cons_self e he
    have hnd' := List.nodup_cons.mp hnd
    cases L with
    | nil =>
      rw [List.getLastD_cons, List.getLastD_nil, if_pos rfl] at hn'
      exact ⟨⟨e', he', by omega, hn'⟩, trivial⟩
    | cons b L =>
      have hne : a ≠ (b :: L).getLastD a := fun heq => hnd'.1 (heq ▸ getLastD_mem_cons b L a)
      rw [List.getLastD_cons, if_neg hne] at hn'
      refine ⟨⟨e', he', by omega, hn'.trans hn⟩, ?_⟩
      apply ih hnd'.2 _ hrest
      intro i hi e1 he1
      obtain ⟨e2, h2, h3, h4⟩ := h i (List.mem_cons_of_mem _ hi) e1 he1
      rw [List.getLastD_cons] at h4
      exact ⟨e2, h2, h3, h4⟩

/-- re-pointing the `prev` of the first slot of a segment. -/
theorem seg_set_first_prev {es es' : List Entry} {p p' n : Nat} {L : List Nat} (hnd : L.Nodup)
    (h : ∀ i ∈ L, ∀ e, es[i]? = some e → ∃ e', es'[i]? = some e' ∧ e'.next = e.next ∧
      e'.prev = if i = L.headD n then p' else e.prev)
    (hs : Seg es p L n) : Seg es' p' L n := by
  cases L with
  | nil => trivial
  | cons a L =>
    obtain ⟨⟨e, he, hp, hn⟩, hrest⟩ := hs
    obtain ⟨e', he', hn', hp'⟩ := h a List.mem_cons_self e he
    have hnd' := List.nodup_cons.mp hnd
    simp only [List.headD_cons, if_true] at hp'
    refine ⟨⟨e', he', hp', by omega⟩, ?_⟩
    apply seg_congr _ hrest
    intro i hi e1 he1
    obtain ⟨e2, h2, h3, h4⟩ := h i (List.mem_cons_of_mem _ hi) e1 he1
    have : i ≠ a := fun heq => hnd'.1 (heq ▸ hi)
    rw [List.headD_cons, if_neg this] at h4
    exact ⟨e2, h2, h4, h3⟩

theorem modify_mk (h : Header) (es : List Entry) (km : KeyMap) (fl : List Nat) (g p c : Nat)
    (fs : Spec.Lru.Files Bytes) (i : Nat) (f : Entry → Entry) (hi : i < es.length) :
    Model.LruPtr.modify ⟨h, es, km, fl, g, p, c, fs⟩ i f = some ⟨h, es.set i (f es[i]), km, fl, g, p, c, fs⟩ := by
  simp only [Model.LruPtr.modify, List.getElem?_eq_getElem hi]

/-- what `unlink idx` does to slot `i`, given the unlinked entry's `prev = pv` and `next = nx` -/
def unlinkUpd (idx pv nx i : Nat) (x : Entry) : Entry :=
  if i = idx then { x with prev := SENT, next := SENT }
  else if i = pv then { x with next := nx }
  else if i = nx then { x with prev := pv }
  else x

theorem unlink_spec (s : Ptr) (idx : Nat) (e : Entry) (he : s.entries[idx]? = some e)
    (hlen : s.entries.length ≤ SENT)
    (hpv : e.prev = SENT ∨ e.prev < s.entries.length) (hnx : e.next = SENT ∨ e.next < s.entries.length)
    (h1 : e.prev ≠ idx) (h2 : e.next ≠ idx) (h3 : e.prev ≠ e.next ∨ e.prev = SENT) :
    ∃ es', unlink s idx = some { s with
        header := { s.header with tail := if e.prev = SENT then e.next else s.header.tail,
                                  head := if e.next = SENT then e.prev else s.header.head },
        entries := es' } ∧ es'.length = s.entries.length ∧
      ∀ i x, s.entries[i]? = some x → es'[i]? = some (unlinkUpd idx e.prev e.next i x) := by
  have hidx : idx < s.entries.length := by
    rcases Nat.lt_or_ge idx s.entries.length with h | h
    · exact h
    · rw [List.getElem?_eq_none h] at he; cases he
  have he' : s.entries[idx] = e := by
    rw [List.getElem?_eq_getElem hidx] at he; exact Option.some.inj he
  unfold unlink
  rw [he]
  simp only
  by_cases hp : e.prev = SENT
  · by_cases hn : e.next = SENT
    · simp only [hp, hn, if_true]
      rw [modify_mk _ _ _ _ _ _ _ _ _ _ hidx]
      refine ⟨_, rfl, by simp, ?_⟩
      intro i x hx
      simp only [List.getElem?_set, unlinkUpd]
      grind
    · have hn' : e.next < s.entries.length := by omega
      simp only [hp, hn, if_true, if_false]
      rw [modify_mk _ _ _ _ _ _ _ _ _ _ hn']
      simp only
      rw [modify_mk _ _ _ _ _ _ _ _ _ _ (by simpa using hidx)]
      refine ⟨_, rfl, by simp, ?_⟩
      intro i x hx
      simp only [List.getElem?_set, unlinkUpd]
      grind
  · have hp' : e.prev < s.entries.length := by omega
    by_cases hn : e.next = SENT
    · simp only [hp, hn, if_true, if_false]
      rw [modify_mk _ _ _ _ _ _ _ _ _ _ hp']
      simp only
      rw [modify_mk _ _ _ _ _ _ _ _ _ _ (by simpa using hidx)]
      refine ⟨_, rfl, by simp, ?_⟩
      intro i x hx
      simp only [List.getElem?_set, unlinkUpd]
      grind
    · have hn' : e.next < s.entries.length := by omega
      simp only [hp, hn, if_false]
      rw [modify_mk _ _ _ _ _ _ _ _ _ _ hp']
      simp only
      rw [modify_mk _ _ _ _ _ _ _ _ _ _ (by simpa using hn')]
      simp only
      rw [modify_mk _ _ _ _ _ _ _ _ _ _ (by simpa using hidx)]
      refine ⟨_, rfl, by simp, ?_⟩
      intro i x hx
      simp only [List.getElem?_set, unlinkUpd]
      grind

/-- what `link_at_head idx` does to slot `i` when the old head is `oh` -/
def linkUpd (idx oh i : Nat) (x : Entry) : Entry :=
  if i = idx then { x with next := SENT, prev := oh }
  else if i = oh then { x with next := idx }
  else x

theorem linkAtHead_spec (s : Ptr) (idx : Nat) (hidx : idx < s.entries.length)
    (hlen : s.entries.length ≤ SENT)
    (hh : s.header.head = SENT ∨ s.header.head < s.entries.length) (hne : s.header.head ≠ idx) :
    ∃ es', linkAtHead s idx = some { s with
        header := { s.header with head := idx, tail := if s.header.head = SENT then idx else s.header.tail },
        entries := es' } ∧ es'.length = s.entries.length ∧
      ∀ i x, s.entries[i]? = some x → es'[i]? = some (linkUpd idx s.header.head i x) := by
  obtain ⟨h, es, km, fl, g, p, c, fs⟩ := s
  simp only at hidx hlen hh hne ⊢
  unfold linkAtHead
  simp only
  rw [modify_mk _ _ _ _ _ _ _ _ _ _ hidx]
  simp only
  by_cases hp : h.head = SENT
  · simp only [hp, if_true]
    refine ⟨_, rfl, by simp, ?_⟩
    intro i x hx
    simp only [List.getElem?_set, linkUpd]
    grind
  · have hp' : h.head < es.length := by omega
    simp only [hp, if_false]
    rw [modify_mk _ _ _ _ _ _ _ _ _ _ (by simpa using hp')]
    refine ⟨_, rfl, by simp, ?_⟩
    intro i x hx
    simp only [List.getElem?_set, linkUpd]
    grind

theorem getLastD_mem_or (A : List Nat) (p : Nat) : (A = [] ∧ A.getLastD p = p) ∨ A.getLastD p ∈ A := by
  cases A with
  | nil => exact Or.inl ⟨rfl, rfl⟩
  | cons a A => exact Or.inr (getLastD_mem_cons a A p)

theorem headD_mem_or (B : List Nat) (n : Nat) : (B = [] ∧ B.headD n = n) ∨ B.headD n ∈ B := by
  cases B with
  | nil => exact Or.inl ⟨rfl, rfl⟩
  | cons b B => exact Or.inr (by simp)

theorem getLastD_append' (A B : List Nat) (p : Nat) : (A ++ B).getLastD p = B.getLastD (A.getLastD p) := by
  induction A generalizing p with
  | nil => rfl
  | cons a A ih => rw [List.cons_append, List.getLastD_cons, List.getLastD_cons, ih]

/-- header + entry array describe the doubly linked list of the slots `L` (LRU tail first). -/
structure ListOk (h : Header) (es : List Entry) (L : List Nat) : Prop where
  seg : Seg es SENT L SENT
  tail : h.tail = L.headD SENT
  head : h.head = L.getLastD SENT


theorem unlinkUpd_ekey (idx pv nx i : Nat) (x : Entry) :
    (unlinkUpd idx pv nx i x).ekey = x.ekey ∧ (unlinkUpd idx pv nx i x).flags = x.flags := by
  unfold unlinkUpd; split; · exact ⟨rfl, rfl⟩
  split; · exact ⟨rfl, rfl⟩
  split <;> exact ⟨rfl, rfl⟩

theorem unlinkUpd_left {idx pv nx i : Nat} (x : Entry) (h1 : i ≠ idx) (h2 : i ≠ nx) :
    unlinkUpd idx pv nx i x = if i = pv then { x with next := nx } else x := by
  unfold unlinkUpd; simp only [h1, h2, if_false]

theorem unlinkUpd_right {idx pv nx i : Nat} (x : Entry) (h1 : i ≠ idx) (h2 : i ≠ pv) :
    unlinkUpd idx pv nx i x = if i = nx then { x with prev := pv } else x := by
  unfold unlinkUpd; simp only [h1, h2, if_false]

/-- `unlink idx` on a well-formed list `A ++ idx :: B` never indexes out of range and leaves the
well-formed list `A ++ B`; keys and flags of all slots, and everything outside the list, untouched. -/
theorem unlink_ok (s : Ptr) (A B : List Nat) (idx : Nat) (hlen : s.entries.length ≤ SENT)
    (hb : ∀ i ∈ A ++ idx :: B, i < s.entries.length) (hnd : (A ++ idx :: B).Nodup)
    (hok : ListOk s.header s.entries (A ++ idx :: B)) :
    ∃ es' hd tl, unlink s idx = some { s with header := { s.header with tail := tl, head := hd }, entries := es' } ∧
      ListOk { s.header with tail := tl, head := hd } es' (A ++ B) ∧ es'.length = s.entries.length ∧
      ∀ i x, s.entries[i]? = some x → ∃ x', es'[i]? = some x' ∧ x'.ekey = x.ekey ∧ x'.flags = x.flags ∧
        (i ∉ A ++ idx :: B → x' = x) := by
  obtain ⟨hseg, htail, hhead⟩ := hok
  rw [seg_append] at hseg
  obtain ⟨hA, ⟨e, he, hp, hn⟩, hB⟩ := hseg
  simp only [List.headD_cons] at hA
  rw [List.nodup_append] at hnd
  obtain ⟨hndA, hndB, hdisj⟩ := hnd
  have hndB' := List.nodup_cons.mp hndB
  have hidx : idx < s.entries.length := hb idx (by simp)
  have hbA : ∀ i ∈ A, i < s.entries.length := fun i hi => hb i (by simp [hi])
  have hbB : ∀ i ∈ B, i < s.entries.length := fun i hi => hb i (by simp [hi])
  have hAidx : ∀ i ∈ A, i ≠ idx := fun i hi => hdisj i hi idx (by simp)
  have hAB : ∀ i ∈ A, ∀ j ∈ B, i ≠ j := fun i hi j hj => hdisj i hi j (by simp [hj])
  have hBidx : ∀ i ∈ B, i ≠ idx := fun i hi h => hndB'.1 (h ▸ hi)
  have hpv : e.prev = SENT ∨ e.prev < s.entries.length := by
    rcases getLastD_mem_or A SENT with ⟨_, h⟩ | h
    · left; omega
    · right; rw [hp]; exact hbA _ h
  have hnx : e.next = SENT ∨ e.next < s.entries.length := by
    rcases headD_mem_or B SENT with ⟨_, h⟩ | h
    · left; omega
    · right; rw [hn]; exact hbB _ h
  have h1 : e.prev ≠ idx := by
    rcases getLastD_mem_or A SENT with ⟨_, h⟩ | h
    · omega
    · rw [hp]; exact hAidx _ h
  have h2 : e.next ≠ idx := by
    rcases headD_mem_or B SENT with ⟨_, h⟩ | h
    · omega
    · rw [hn]; exact hBidx _ h
  have h3 : e.prev ≠ e.next ∨ e.prev = SENT := by
    rcases getLastD_mem_or A SENT with ⟨_, h⟩ | h
    · right; omega
    · left
      rcases headD_mem_or B SENT with ⟨_, h'⟩ | h'
      · have := hbA _ h; omega
      · rw [hp, hn]; exact hAB _ h _ h'
  have hAnx : ∀ i ∈ A, i ≠ e.next := by
    intro i hi
    rcases headD_mem_or B SENT with ⟨_, h⟩ | h
    · have := hbA i hi; omega
    · rw [hn]; exact hAB i hi _ h
  have hBpv : ∀ i ∈ B, i ≠ e.prev := by
    intro i hi
    rcases getLastD_mem_or A SENT with ⟨_, h⟩ | h
    · have := hbB i hi; omega
    · rw [hp]; exact fun heq => hAB _ h i hi heq.symm
  obtain ⟨es', hun, hl', hpt⟩ := unlink_spec s idx e he hlen hpv hnx h1 h2 h3
  refine ⟨es', _, _, hun, ⟨?_, ?_, ?_⟩, hl', ?_⟩
  · rw [seg_append]
    constructor
    · rw [← hn]
      apply seg_set_last_next hndA _ hA
      intro i hi x hx
      refine ⟨_, hpt i x hx, ?_, ?_⟩ <;>
      · rw [unlinkUpd_left x (hAidx i hi) (hAnx i hi)]
        try rw [← hp]
        split <;> rfl
    · rw [← hp]
      apply seg_set_first_prev hndB'.2 _ hB
      intro i hi x hx
      refine ⟨_, hpt i x hx, ?_, ?_⟩ <;>
      · rw [unlinkUpd_right x (hBidx i hi) (hBpv i hi)]
        try rw [← hn]
        split <;> rfl
  · show (if e.prev = SENT then e.next else s.header.tail) = (A ++ B).headD SENT
    cases A with
    | nil => simp only [List.getLastD_nil] at hp; simp only [hp, if_true, hn, List.nil_append]
    | cons a A' =>
      have : e.prev ≠ SENT := by
        have := hbA _ (getLastD_mem_cons a A' SENT); omega
      simp only [this, if_false, htail, List.cons_append, List.headD_cons]
  · show (if e.next = SENT then e.prev else s.header.head) = (A ++ B).getLastD SENT
    rw [getLastD_append'] at hhead ⊢
    cases B with
    | nil => simp only [List.headD_nil] at hn; simp only [hn, if_true, hp, List.getLastD_nil]
    | cons b B' =>
      have : e.next ≠ SENT := by
        have := hbB b (by simp); simp only [List.headD_cons] at hn; omega
      simp only [this, if_false, hhead, List.getLastD_cons]
  · intro i x hx
    refine ⟨_, hpt i x hx, (unlinkUpd_ekey _ _ _ _ _).1, (unlinkUpd_ekey _ _ _ _ _).2, ?_⟩
    intro hni
    simp only [List.mem_append, List.mem_cons, not_or] at hni
    have hlt : i < s.entries.length := by
      rcases Nat.lt_or_ge i s.entries.length with h | h
      · exact h
      · rw [List.getElem?_eq_none h] at hx; cases hx
    have e1 : i ≠ e.prev := by
      rcases getLastD_mem_or A SENT with ⟨_, h⟩ | h
      · omega
      · rw [hp]; exact fun heq => hni.1 (heq ▸ h)
    have e2 : i ≠ e.next := by
      rcases headD_mem_or B SENT with ⟨_, h⟩ | h
      · omega
      · rw [hn]; exact fun heq => hni.2.2 (heq ▸ h)
    rw [unlinkUpd_left x hni.2.1 e2, if_neg e1]

theorem linkUpd_ekey (idx oh i : Nat) (x : Entry) :
    (linkUpd idx oh i x).ekey = x.ekey ∧ (linkUpd idx oh i x).flags = x.flags := by
  unfold linkUpd; split; · exact ⟨rfl, rfl⟩
  split <;> exact ⟨rfl, rfl⟩

theorem getElem?_lt {es : List Entry} {i : Nat} {x : Entry} (h : es[i]? = some x) : i < es.length := by
  rcases Nat.lt_or_ge i es.length with h' | h'
  · exact h'
  · rw [List.getElem?_eq_none h'] at h; cases h

/-- `link_at_head idx` of a slot outside the well-formed list `L` never indexes out of range and
leaves the well-formed list `L ++ [idx]`. -/
theorem linkAtHead_ok (s : Ptr) (L : List Nat) (idx : Nat) (hlen : s.entries.length ≤ SENT)
    (hb : ∀ i ∈ L, i < s.entries.length) (hidx : idx < s.entries.length) (hni : idx ∉ L) (hnd : L.Nodup)
    (hok : ListOk s.header s.entries L) :
    ∃ es' tl, linkAtHead s idx = some { s with header := { s.header with head := idx, tail := tl }, entries := es' } ∧
      ListOk { s.header with head := idx, tail := tl } es' (L ++ [idx]) ∧ es'.length = s.entries.length ∧
      ∀ i x, s.entries[i]? = some x → ∃ x', es'[i]? = some x' ∧ x'.ekey = x.ekey ∧ x'.flags = x.flags ∧
        (i ∉ idx :: L → x' = x) := by
  obtain ⟨hseg, htail, hhead⟩ := hok
  have hh : s.header.head = SENT ∨ s.header.head < s.entries.length := by
    rcases getLastD_mem_or L SENT with ⟨_, h⟩ | h
    · left; omega
    · right; rw [hhead]; exact hb _ h
  have hne : s.header.head ≠ idx := by
    rcases getLastD_mem_or L SENT with ⟨_, h⟩ | h
    · omega
    · rw [hhead]; exact fun heq => hni (heq ▸ h)
  have hLidx : ∀ i ∈ L, i ≠ idx := fun i hi heq => hni (heq ▸ hi)
  obtain ⟨es', hlk, hl', hpt⟩ := linkAtHead_spec s idx hidx hlen hh hne
  refine ⟨es', _, hlk, ⟨?_, ?_, ?_⟩, hl', ?_⟩
  · rw [seg_append]
    constructor
    · simp only [List.headD_cons]
      apply seg_set_last_next hnd _ hseg
      intro i hi x hx
      refine ⟨_, hpt i x hx, ?_, ?_⟩
      · unfold linkUpd; rw [if_neg (hLidx i hi)]; split <;> rfl
      · unfold linkUpd; rw [if_neg (hLidx i hi), ← hhead]; split <;> rfl
    · have hx : s.entries[idx]? = some s.entries[idx] := List.getElem?_eq_getElem hidx
      refine ⟨⟨_, hpt idx _ hx, ?_, ?_⟩, trivial⟩
      · unfold linkUpd; rw [if_pos rfl]; exact hhead
      · unfold linkUpd; rw [if_pos rfl]; rfl
  · show (if s.header.head = SENT then idx else s.header.tail) = (L ++ [idx]).headD SENT
    cases L with
    | nil => simp only [List.getLastD_nil] at hhead; simp only [hhead, if_true, List.nil_append, List.headD_cons]
    | cons a L' =>
      have : s.header.head ≠ SENT := by
        have := hb _ (getLastD_mem_cons a L' SENT); omega
      simp only [this, if_false, htail, List.cons_append, List.headD_cons]
  · show idx = (L ++ [idx]).getLastD SENT
    rw [List.getLastD_concat]
  · intro i x hx
    refine ⟨_, hpt i x hx, (linkUpd_ekey _ _ _ _).1, (linkUpd_ekey _ _ _ _).2, ?_⟩
    intro hnotin
    simp only [List.mem_cons, not_or] at hnotin
    have hlt := getElem?_lt hx
    have e1 : i ≠ s.header.head := by
      rcases getLastD_mem_or L SENT with ⟨_, h⟩ | h
      · omega
      · rw [hhead]; exact fun heq => hnotin.2 (heq ▸ h)
    unfold linkUpd; rw [if_neg hnotin.1, if_neg e1]


/-! ### `HashMap<[u8; 9], u32>` as an association list -/

theorem kmGet_remove (m : KeyMap) (k k' : Key) :
    kmGet (kmRemove m k) k' = if k = k' then none else kmGet m k' := by
  induction m with
  | nil => simp [kmRemove, kmGet]
  | cons p m ih =>
    obtain ⟨a, v⟩ := p
    unfold kmRemove at ih ⊢
    by_cases ha : a = k
    · subst ha
      simp only [List.filter, ne_eq, not_true_eq_false, decide_false, ih, kmGet]
      split
      · rfl
      · simp
    · simp only [List.filter, ne_eq, ha, not_false_eq_true, decide_true, kmGet, ih]
      by_cases hk : a = k'
      · subst hk; simp [Ne.symm ha]
      · simp [hk]

theorem kmGet_insert (m : KeyMap) (k : Key) (v : Nat) (k' : Key) :
    kmGet (kmInsert m k v) k' = if k = k' then some v else kmGet m k' := by
  unfold kmInsert
  simp only [kmGet]
  split
  · rfl
  · next h => rw [kmGet_remove, if_neg h]

theorem mem_keys_iff (m : KeyMap) (k : Key) : k ∈ m.map Prod.fst ↔ ∃ i, kmGet m k = some i := by
  induction m with
  | nil => simp [kmGet]
  | cons p m ih =>
    obtain ⟨a, v⟩ := p
    simp only [List.map_cons, List.mem_cons, kmGet, ih]
    by_cases ha : a = k
    · simp [ha]
    · simp [ha, Ne.symm ha]

theorem keys_remove_nodup (m : KeyMap) (k : Key) (h : (m.map Prod.fst).Nodup) :
    ((kmRemove m k).map Prod.fst).Nodup :=
  h.sublist (List.Sublist.map _ List.filter_sublist)

theorem keys_insert_nodup (m : KeyMap) (k : Key) (v : Nat) (h : (m.map Prod.fst).Nodup) :
    ((kmInsert m k v).map Prod.fst).Nodup := by
  unfold kmInsert
  rw [List.map_cons, List.nodup_cons]
  refine ⟨?_, keys_remove_nodup m k h⟩
  rw [mem_keys_iff]
  rintro ⟨i, hi⟩
  rw [kmGet_remove, if_pos rfl] at hi
  cases hi

theorem nodup_map_of_inj_on {α β : Type} (f : α → β) (L : List α) (hnd : L.Nodup)
    (hinj : ∀ a ∈ L, ∀ b ∈ L, f a = f b → a = b) : (L.map f).Nodup := by
  induction L with
  | nil => exact List.nodup_nil
  | cons a L ih =>
    have hnd' := List.nodup_cons.mp hnd
    rw [List.map_cons, List.nodup_cons]
    refine ⟨?_, ih hnd'.2 (fun x hx y hy => hinj x (List.mem_cons_of_mem _ hx) y (List.mem_cons_of_mem _ hy))⟩
    intro hm
    obtain ⟨b, hb, hfb⟩ := List.mem_map.mp hm
    have := hinj b (List.mem_cons_of_mem _ hb) a List.mem_cons_self hfb
    exact hnd'.1 (this ▸ hb)

theorem erase_mid {α : Type} [DecidableEq α] (A B : List α) (k : α) (h : k ∉ A) :
    (A ++ k :: B).erase k = A ++ B := by
  induction A with
  | nil => simp
  | cons a A ih =>
    have hne : a ≠ k := fun heq => h (heq ▸ List.mem_cons_self)
    have : k ∉ A := fun hm => h (List.mem_cons_of_mem _ hm)
    simp only [List.cons_append]
    rw [List.erase_cons_tail (by simpa using hne), ih this]

/-! ### the representation invariant -/

/-- `RepF s L F`: the pointer state `s` represents the recency list of the slots `L` (LRU tail
first) with the slots `F` unused.  `F` is `s.freeList` between operations (`Rep`); inside an
operation it also holds the slot the caller currently owns (popped from the free list or
returned by `detach_tail`). -/
structure RepF (s : Ptr) (L F : List Nat) : Prop where
  /-- `entries.len() == capacity` -/
  len : s.entries.length = s.cap
  /-- `capacity: u32`, so no slot index equals `LRU_SENTINEL` -/
  u32 : s.cap ≤ SENT
  /-- linked ∪ free = all slots, linked ∩ free = ∅, no slot twice -/
  slots : (L ++ F).Perm (List.range s.cap)
  /-- head/tail/prev/next describe exactly the list `L` -/
  list : ListOk s.header s.entries L
  /-- a `HashMap` has each key once -/
  kmNodup : (s.keyMap.map Prod.fst).Nodup
  /-- `key_map` maps exactly the keys of the linked slots, each to its slot -/
  km : ∀ k i, kmGet s.keyMap k = some i ↔ i ∈ L ∧ keyAt s.entries i = k
  /-- unused slots hold `LruFileEntry::empty()` -/
  freeEmpty : ∀ i ∈ F, s.entries[i]? = some Entry.empty
  /-- the header keeps a version `deserialize` accepts -/
  ver : s.header.version ≤ 1
  /-- no code path sets a flag -/
  flags0 : ∀ (i : Nat) (e : Entry), s.entries[i]? = some e → e.flags = 0

abbrev Rep (s : Ptr) (L : List Nat) : Prop := RepF s L s.freeList

namespace RepF
variable {s : Ptr} {L F : List Nat}

theorem nodup (h : RepF s L F) : (L ++ F).Nodup := h.slots.nodup_iff.mpr List.nodup_range
theorem nodupL (h : RepF s L F) : L.Nodup := (List.nodup_append.mp h.nodup).1
theorem nodupF (h : RepF s L F) : F.Nodup := (List.nodup_append.mp h.nodup).2.1
theorem disj (h : RepF s L F) {i : Nat} (hi : i ∈ L) (hf : i ∈ F) : False :=
  (List.nodup_append.mp h.nodup).2.2 i hi i hf rfl
theorem lt (h : RepF s L F) {i : Nat} (hi : i ∈ L ++ F) : i < s.entries.length := by
  rw [h.len]; exact List.mem_range.mp (h.slots.mem_iff.mp hi)
theorem ltL (h : RepF s L F) {i : Nat} (hi : i ∈ L) : i < s.entries.length := h.lt (List.mem_append_left _ hi)
theorem ltF (h : RepF s L F) {i : Nat} (hi : i ∈ F) : i < s.entries.length := h.lt (List.mem_append_right _ hi)
theorem lenS (h : RepF s L F) : s.entries.length ≤ SENT := by rw [h.len]; exact h.u32
theorem count (h : RepF s L F) : L.length + F.length = s.cap := by
  have := h.slots.length_eq; simpa using this

theorem keyInj (h : RepF s L F) : ∀ a ∈ L, ∀ b ∈ L, keyAt s.entries a = keyAt s.entries b → a = b := by
  intro a ha b hb hab
  have h1 := (h.km (keyAt s.entries a) a).mpr ⟨ha, rfl⟩
  have h2 := (h.km (keyAt s.entries a) b).mpr ⟨hb, hab.symm⟩
  rw [h1] at h2; exact Option.some.inj h2

theorem keysNodup (h : RepF s L F) : (L.map (keyAt s.entries)).Nodup :=
  nodup_map_of_inj_on _ L h.nodupL h.keyInj

/-- `len()` (= `key_map.len()`) is the number of linked slots. -/
theorem kmLen (h : RepF s L F) : s.keyMap.length = L.length := by
  have hp : (s.keyMap.map Prod.fst).Perm (L.map (keyAt s.entries)) := by
    rw [List.perm_ext_iff_of_nodup h.kmNodup h.keysNodup]
    intro k
    rw [mem_keys_iff, List.mem_map]
    constructor
    · rintro ⟨i, hi⟩; exact ⟨i, (h.km k i).mp hi⟩
    · rintro ⟨i, hi⟩; exact ⟨i, (h.km k i).mpr hi⟩
  simpa using hp.length_eq

end RepF


theorem keyAt_of {es : List Entry} {i : Nat} {x : Entry} (h : es[i]? = some x) : keyAt es i = x.ekey := by
  simp only [keyAt, h]

theorem flags_transfer {es es' : List Entry} (hl : es'.length = es.length)
    (hpt : ∀ (i : Nat) (x : Entry), es[i]? = some x → ∃ x' : Entry, es'[i]? = some x' ∧ x'.flags = x.flags)
    (h0 : ∀ (i : Nat) (e : Entry), es[i]? = some e → e.flags = 0) : ∀ (i : Nat) (e : Entry), es'[i]? = some e → e.flags = 0 := by
  intro i e hie
  have hlt : i < es.length := hl ▸ getElem?_lt hie
  obtain ⟨x', hx', hf⟩ := hpt i _ (List.getElem?_eq_getElem hlt)
  rw [hie] at hx'
  rw [Option.some.inj hx', hf]
  exact h0 i _ (List.getElem?_eq_getElem hlt)

theorem flags_set {es : List Entry} (h0 : ∀ (i : Nat) (e : Entry), es[i]? = some e → e.flags = 0) (a : Entry) (ha : a.flags = 0)
    (j : Nat) : ∀ (i : Nat) (e : Entry), (es.set j a)[i]? = some e → e.flags = 0 := by
  intro i e hie
  rw [List.getElem?_set] at hie
  split at hie
  · split at hie
    · cases hie; exact ha
    · cases hie
  · exact h0 i e hie

/-- the common part of `detach_tail` and `remove`: drop the slot's key from the key map, unlink
the slot, overwrite it with `LruFileEntry::empty()`.  The slot ends up owned by the caller
(first in `F`). -/
theorem detach_ok (s : Ptr) (A B F : List Nat) (idx : Nat) (e : Entry)
    (h : RepF s (A ++ idx :: B) F) (he : s.entries[idx]? = some e) :
    ∃ s1 s2, unlink { s with keyMap := kmRemove s.keyMap e.ekey } idx = some s1 ∧
      Model.LruPtr.modify s1 idx (fun _ => Entry.empty) = some s2 ∧
      RepF s2 (A ++ B) (idx :: F) ∧ s2.freeList = s.freeList ∧ s2.gen = s.gen ∧ s2.prev = s.prev ∧
      s2.cap = s.cap ∧ s2.files = s.files ∧ (∀ i ∈ A ++ B, keyAt s2.entries i = keyAt s.entries i) := by
  have hnd := h.nodupL
  have hidxL : idx ∈ A ++ idx :: B := by simp
  have hidx := h.ltL hidxL
  have hne : ∀ i ∈ A ++ B, i ≠ idx := by
    intro i hi heq
    subst heq
    rw [List.nodup_append] at hnd
    rcases List.mem_append.mp hi with hi | hi
    · exact hnd.2.2 i hi i (by simp) rfl
    · exact (List.nodup_cons.mp hnd.2.1).1 hi
  have hsub : ∀ i ∈ A ++ B, i ∈ A ++ idx :: B := by
    intro i hi
    rcases List.mem_append.mp hi with hi | hi
    · simp [hi]
    · simp [hi]
  obtain ⟨es', hd, tl, hun, hok, hl', hpt⟩ :=
    unlink_ok { s with keyMap := kmRemove s.keyMap e.ekey } A B idx h.lenS (fun i hi => h.ltL hi) hnd h.list
  have hidx' : idx < es'.length := by rw [hl']; exact hidx
  refine ⟨_, _, hun, modify_mk _ _ _ _ _ _ _ _ _ _ hidx', ?_, rfl, rfl, rfl, rfl, rfl, ?_⟩
  · have hkey : ∀ i ∈ A ++ B, keyAt (es'.set idx Entry.empty) i = keyAt s.entries i := by
      intro i hi
      have hlt := h.ltL (hsub i hi)
      obtain ⟨x', hx', hk, _, _⟩ := hpt i _ (List.getElem?_eq_getElem hlt)
      have : (es'.set idx Entry.empty)[i]? = some x' := by
        rw [List.getElem?_set_ne (Ne.symm (hne i hi))]; exact hx'
      rw [keyAt_of this, keyAt_of (List.getElem?_eq_getElem hlt), hk]
    constructor
    · show (es'.set idx Entry.empty).length = s.cap
      rw [List.length_set, hl']; exact h.len
    · exact h.u32
    · show ((A ++ B) ++ idx :: F).Perm (List.range s.cap)
      refine List.Perm.trans ?_ h.slots
      have e1 : (A ++ B) ++ idx :: F = A ++ (B ++ idx :: F) := by simp
      have e2 : (A ++ idx :: B) ++ F = A ++ (idx :: (B ++ F)) := by simp
      rw [e1, e2]
      exact List.Perm.append_left A List.perm_middle
    · show ListOk _ (es'.set idx Entry.empty) (A ++ B)
      refine ⟨seg_congr ?_ hok.seg, hok.tail, hok.head⟩
      intro i hi x hx
      exact ⟨x, by rw [List.getElem?_set_ne (Ne.symm (hne i hi))]; exact hx, rfl, rfl⟩
    · exact keys_remove_nodup _ _ h.kmNodup
    · intro k i
      show kmGet (kmRemove s.keyMap e.ekey) k = some i ↔ i ∈ A ++ B ∧ keyAt (es'.set idx Entry.empty) i = k
      rw [kmGet_remove]
      constructor
      · intro hg
        split at hg
        · cases hg
        · next hek =>
          obtain ⟨hiL, hik⟩ := (h.km k i).mp hg
          have hii : i ≠ idx := by
            intro heq; subst heq
            rw [keyAt_of he] at hik; exact hek hik
          have hiAB : i ∈ A ++ B := by
            rcases List.mem_append.mp hiL with hi | hi
            · exact List.mem_append_left _ hi
            · rcases List.mem_cons.mp hi with hi | hi
              · exact absurd hi hii
              · exact List.mem_append_right _ hi
          exact ⟨hiAB, by rw [hkey i hiAB]; exact hik⟩
      · rintro ⟨hiAB, hik⟩
        rw [hkey i hiAB] at hik
        have hg := (h.km k i).mpr ⟨hsub i hiAB, hik⟩
        have hek : ¬ e.ekey = k := by
          intro heq
          have hg' := (h.km k idx).mpr ⟨hidxL, by rw [keyAt_of he]; exact heq⟩
          rw [hg] at hg'
          exact hne i hiAB (Option.some.inj hg')
        rw [if_neg hek]; exact hg
    · intro i hi
      show (es'.set idx Entry.empty)[i]? = some Entry.empty
      rcases List.mem_cons.mp hi with hi | hi
      · subst hi; rw [List.getElem?_set_self hidx']
      · have hii : i ≠ idx := fun heq => h.disj hidxL (heq ▸ hi)
        have hnL : i ∉ A ++ idx :: B := fun hm => h.disj hm hi
        obtain ⟨x', hx', _, _, hsame⟩ := hpt i _ (h.freeEmpty i hi)
        rw [List.getElem?_set_ne (Ne.symm hii), hx', hsame hnL]
    · exact h.ver
    · exact flags_set (flags_transfer hl' (fun i x hx => by
        obtain ⟨x', h1, _, h3, _⟩ := hpt i x hx; exact ⟨x', h1, h3⟩) h.flags0) Entry.empty rfl idx
  · intro i hi
    have hlt := h.ltL (hsub i hi)
    obtain ⟨x', hx', hk, _, _⟩ := hpt i _ (List.getElem?_eq_getElem hlt)
    have : (es'.set idx Entry.empty)[i]? = some x' := by
      rw [List.getElem?_set_ne (Ne.symm (hne i hi))]; exact hx'
    show keyAt (es'.set idx Entry.empty) i = keyAt s.entries i
    rw [keyAt_of this, keyAt_of (List.getElem?_eq_getElem hlt), hk]


/-- the second half of `touch` on a new key: write the entry into the owned slot `f`, insert
into the key map, link at the head. -/
theorem install_ok (s : Ptr) (L F : List Nat) (f : Nat) (k : Key)
    (h : RepF s L (f :: F)) (hk : kmGet s.keyMap k = none) :
    ∃ s2 s3, Model.LruPtr.modify s f (fun _ => { prev := SENT, next := SENT, ekey := k, flags := 0 }) = some s2 ∧
      linkAtHead { s2 with keyMap := kmInsert s2.keyMap k f } f = some s3 ∧
      RepF s3 (L ++ [f]) F ∧ s3.freeList = s.freeList ∧ s3.gen = s.gen ∧ s3.prev = s.prev ∧
      s3.cap = s.cap ∧ s3.files = s.files ∧ keyAt s3.entries f = k ∧
      (∀ i ∈ L, keyAt s3.entries i = keyAt s.entries i) := by
  obtain ⟨hdr, es, km, fl, g, p, c, fs⟩ := s
  have hf : f < es.length := h.ltF (by simp)
  have hfL : f ∉ L := fun hm => h.disj hm (by simp)
  have hLf : ∀ i ∈ L, i ≠ f := fun i hi heq => hfL (heq ▸ hi)
  let new : Entry := { prev := SENT, next := SENT, ekey := k, flags := 0 }
  have hok1 : ListOk hdr (es.set f new) L := by
    refine ⟨seg_congr ?_ h.list.seg, h.list.tail, h.list.head⟩
    intro i hi x hx
    exact ⟨x, by rw [List.getElem?_set_ne (Ne.symm (hLf i hi))]; exact hx, rfl, rfl⟩
  obtain ⟨es', tl, hlk, hok, hl', hpt⟩ :=
    linkAtHead_ok ⟨hdr, es.set f new, kmInsert km k f, fl, g, p, c, fs⟩ L f
      (by simpa using h.lenS) (fun i hi => by simpa using h.ltL hi) (by simpa using hf) hfL h.nodupL hok1
  simp only [List.length_set] at hl'
  have hkeyf : keyAt es' f = k := by
    obtain ⟨x', hx', hkk, _, _⟩ := hpt f new (by simp [List.getElem?_set_self hf])
    rw [keyAt_of hx', hkk]
  have hkeyL : ∀ i ∈ L, keyAt es' i = keyAt es i := by
    intro i hi
    have hlt : i < es.length := h.ltL hi
    obtain ⟨x', hx', hkk, _, _⟩ := hpt i es[i] (by
      show (es.set f new)[i]? = some es[i]
      rw [List.getElem?_set_ne (Ne.symm (hLf i hi))]; exact List.getElem?_eq_getElem hlt)
    rw [keyAt_of hx', keyAt_of (List.getElem?_eq_getElem hlt), hkk]
  refine ⟨_, _, modify_mk _ _ _ _ _ _ _ _ _ _ hf, hlk, ?_, rfl, rfl, rfl, rfl, rfl, hkeyf, hkeyL⟩
  constructor
  · show es'.length = c
    rw [hl']; exact h.len
  · exact h.u32
  · show ((L ++ [f]) ++ F).Perm (List.range c)
    have : (L ++ [f]) ++ F = L ++ f :: F := by simp
    rw [this]; exact h.slots
  · exact hok
  · exact keys_insert_nodup _ _ _ h.kmNodup
  · intro k' i
    show kmGet (kmInsert km k f) k' = some i ↔ i ∈ L ++ [f] ∧ keyAt es' i = k'
    rw [kmGet_insert]
    constructor
    · intro hg
      split at hg
      · next hkk => cases hg; subst hkk; exact ⟨by simp, hkeyf⟩
      · obtain ⟨hiL, hik⟩ := (h.km k' i).mp hg
        exact ⟨List.mem_append_left _ hiL, by rw [hkeyL i hiL]; exact hik⟩
    · rintro ⟨hi, hik⟩
      rcases List.mem_append.mp hi with hi | hi
      · rw [hkeyL i hi] at hik
        have hg := (h.km k' i).mpr ⟨hi, hik⟩
        have : ¬ k = k' := by
          intro heq; subst heq
          have : kmGet km k = none := hk
          rw [this] at hg; cases hg
        rw [if_neg this]; exact hg
      · simp only [List.mem_singleton] at hi
        subst hi
        rw [hkeyf] at hik
        rw [if_pos hik]
  · intro i hi
    show es'[i]? = some Entry.empty
    have hif : i ≠ f := fun heq => (List.nodup_cons.mp h.nodupF).1 (heq ▸ hi)
    have hiL : i ∉ f :: L := by
      intro hm
      rcases List.mem_cons.mp hm with hm | hm
      · exact hif hm
      · exact h.disj hm (List.mem_cons_of_mem _ hi)
    obtain ⟨x', hx', _, _, hsame⟩ := hpt i Entry.empty (by
      show (es.set f new)[i]? = some Entry.empty
      rw [List.getElem?_set_ne (Ne.symm hif)]; exact h.freeEmpty i (List.mem_cons_of_mem _ hi))
    rw [hx', hsame hiL]
  · exact h.ver
  · exact flags_transfer (es := es.set f new) (by simpa using hl') (fun i x hx => by
      obtain ⟨x', h1, _, h3, _⟩ := hpt i x hx; exact ⟨x', h1, h3⟩) (flags_set h.flags0 new rfl f)


theorem detachTail_nil (s : Ptr) (F : List Nat) (h : RepF s [] F) : detachTail s = some (s, none) := by
  unfold detachTail
  have : s.header.tail = SENT := h.list.tail
  simp only [this, if_true]

theorem detachTail_cons (s : Ptr) (t : Nat) (rest F : List Nat) (h : RepF s (t :: rest) F) :
    ∃ s2, detachTail s = some (s2, some t) ∧ RepF s2 rest (t :: F) ∧ s2.freeList = s.freeList ∧
      s2.gen = s.gen ∧ s2.prev = s.prev ∧ s2.cap = s.cap ∧ s2.files = s.files ∧
      (∀ i ∈ rest, keyAt s2.entries i = keyAt s.entries i) := by
  have htl : s.header.tail = t := h.list.tail
  have hlt : t < s.entries.length := h.ltL (by simp)
  have hne : t ≠ SENT := by have := h.lenS; omega
  have he : s.entries[t]? = some s.entries[t] := List.getElem?_eq_getElem hlt
  obtain ⟨s1, s2, hun, hmod, hrep, h1, h2, h3, h4, h5, h6⟩ := detach_ok s [] rest F t _ h he
  refine ⟨s2, ?_, hrep, h1, h2, h3, h4, h5, h6⟩
  unfold detachTail
  simp only [htl, hne, if_false, he, hun, hmod]

/-- the sequence-level state a pointer-level state stands for (checkpoint files are not related
here: the operations below neither read nor depend on them). -/
def Sim (s : Ptr) (q : Seq Key) : Prop :=
  ∃ L, Rep s L ∧ q.order = L.map (keyAt s.entries) ∧ q.free = s.freeList.length ∧ q.cap = s.cap ∧
    q.gen = s.gen ∧ q.prev = s.prev

theorem keyAt_congr {es es' : List Entry} (hl : es'.length = es.length)
    (hpt : ∀ (i : Nat) (x : Entry), es[i]? = some x → ∃ x' : Entry, es'[i]? = some x' ∧ x'.ekey = x.ekey) (i : Nat) :
    keyAt es' i = keyAt es i := by
  rcases Nat.lt_or_ge i es.length with h | h
  · obtain ⟨x', hx', hk⟩ := hpt i _ (List.getElem?_eq_getElem h)
    rw [keyAt_of hx', keyAt_of (List.getElem?_eq_getElem h), hk]
  · simp only [keyAt, List.getElem?_eq_none h, List.getElem?_eq_none (hl ▸ h)]

theorem touch_hit_sim (s : Ptr) (k : Key) (A B : List Nat) (idx : Nat)
    (hr : Rep s (A ++ idx :: B)) (hkm : kmGet s.keyMap k = some idx) :
    ∃ s', touch s k = some (s', true) ∧ Rep s' (A ++ B ++ [idx]) ∧
      (∀ i, keyAt s'.entries i = keyAt s.entries i) ∧ s'.freeList = s.freeList ∧ s'.gen = s.gen ∧
      s'.prev = s.prev ∧ s'.cap = s.cap ∧ s'.files = s.files := by
  have hnd := hr.nodupL
  have hidxL : idx ∈ A ++ idx :: B := by simp
  have hidx := hr.ltL hidxL
  have hsub : ∀ i ∈ A ++ B, i ∈ A ++ idx :: B := by
    intro i hi
    rcases List.mem_append.mp hi with hi | hi
    · simp [hi]
    · simp [hi]
  have hni : idx ∉ A ++ B := by
    intro hi
    rw [List.nodup_append] at hnd
    rcases List.mem_append.mp hi with hi | hi
    · exact hnd.2.2 idx hi idx (by simp) rfl
    · exact (List.nodup_cons.mp hnd.2.1).1 hi
  have hndAB : (A ++ B).Nodup := by
    refine hnd.sublist ?_
    exact List.Sublist.append_left (List.sublist_cons_self idx B) A
  obtain ⟨es', hd, tl, hun, hok, hl', hpt⟩ := unlink_ok s A B idx hr.lenS (fun i hi => hr.ltL hi) hnd hr.list
  obtain ⟨es'', tl', hlk, hok', hl'', hpt'⟩ :=
    linkAtHead_ok { s with header := { s.header with tail := tl, head := hd }, entries := es' } (A ++ B) idx
      (by show es'.length ≤ SENT; rw [hl']; exact hr.lenS)
      (fun i hi => by show i < es'.length; rw [hl']; exact hr.ltL (hsub i hi))
      (by show idx < es'.length; rw [hl']; exact hidx) hni hndAB hok
  have hl2 : es''.length = s.entries.length := hl''.trans hl'
  have hkey1 : ∀ i, keyAt es' i = keyAt s.entries i :=
    keyAt_congr hl' (fun i x hx => by obtain ⟨x', h1, h2, _⟩ := hpt i x hx; exact ⟨x', h1, h2⟩)
  have hkey2 : ∀ i, keyAt es'' i = keyAt es' i :=
    keyAt_congr hl'' (fun i x hx => by obtain ⟨x', h1, h2, _⟩ := hpt' i x hx; exact ⟨x', h1, h2⟩)
  refine ⟨{ s with header := { s.header with head := idx, tail := tl' }, entries := es'' }, ?_, ?_,
    fun i => (hkey2 i).trans (hkey1 i), rfl, rfl, rfl, rfl, rfl⟩
  · unfold touch
    simp only [hkm, hun, hlk, Option.map]
  · constructor
    · show es''.length = s.cap
      rw [hl2]; exact hr.len
    · exact hr.u32
    · show ((A ++ B ++ [idx]) ++ s.freeList).Perm (List.range s.cap)
      refine List.Perm.trans ?_ hr.slots
      apply List.Perm.append_right
      have e1 : A ++ B ++ [idx] = A ++ (B ++ [idx]) := by simp
      rw [e1]
      exact List.Perm.append_left A (List.perm_append_comm)
    · exact hok'
    · exact hr.kmNodup
    · intro k' i
      show kmGet s.keyMap k' = some i ↔ i ∈ A ++ B ++ [idx] ∧ keyAt es'' i = k'
      rw [hr.km k' i, hkey2, hkey1]
      have : i ∈ A ++ B ++ [idx] ↔ i ∈ A ++ idx :: B := by
        simp only [List.mem_append, List.mem_cons, List.not_mem_nil, or_false]
        constructor
        · rintro ((h | h) | h)
          · exact Or.inl h
          · exact Or.inr (Or.inr h)
          · exact Or.inr (Or.inl h)
        · rintro (h | h | h)
          · exact Or.inl (Or.inl h)
          · exact Or.inr h
          · exact Or.inl (Or.inr h)
      rw [this]
    · intro i hi
      show es''[i]? = some Entry.empty
      have hnL : i ∉ A ++ idx :: B := fun hm => hr.disj hm hi
      obtain ⟨x', hx', _, _, hsame⟩ := hpt i _ (hr.freeEmpty i hi)
      rw [hsame hnL] at hx'
      have hnL' : i ∉ idx :: (A ++ B) := by
        intro hm
        rcases List.mem_cons.mp hm with hm | hm
        · exact hnL (hm ▸ hidxL)
        · exact hnL (hsub i hm)
      obtain ⟨x'', hx'', _, _, hsame'⟩ := hpt' i _ hx'
      rw [hx'', hsame' hnL']
    · exact hr.ver
    · exact flags_transfer hl'' (fun i x hx => by
        obtain ⟨x', h1, _, h3, _⟩ := hpt' i x hx; exact ⟨x', h1, h3⟩)
        (flags_transfer hl' (fun i x hx => by
          obtain ⟨x', h1, _, h3, _⟩ := hpt i x hx; exact ⟨x', h1, h3⟩) hr.flags0)


theorem not_mem_order_of_none {s : Ptr} {L F : List Nat} (h : RepF s L F) {k : Key}
    (hk : kmGet s.keyMap k = none) : k ∉ L.map (keyAt s.entries) := by
  intro hm
  obtain ⟨i, hi, hik⟩ := List.mem_map.mp hm
  have := (h.km k i).mpr ⟨hi, hik⟩
  rw [hk] at this; cases this

section seqfacts
variable {κ : Type} [DecidableEq κ]

theorem seq_touch_hit (q : Seq κ) (k : κ) (A B : List κ) (ho : q.order = A ++ k :: B) (hnA : k ∉ A) :
    LruSeq.touch q k = ({ q with order := A ++ B ++ [k] }, true) := by
  unfold LruSeq.touch
  rw [if_pos (by rw [ho]; simp), ho, erase_mid _ _ _ hnA]

theorem seq_touch_free (q : Seq κ) (k : κ) (hnm : k ∉ q.order) (hfree : 0 < q.free) :
    LruSeq.touch q k = ({ q with order := q.order ++ [k], free := q.free - 1 }, true) := by
  unfold LruSeq.touch; rw [if_neg hnm, if_pos hfree]

theorem seq_touch_full_nil (q : Seq κ) (k : κ) (ho : q.order = []) (hfree : ¬ 0 < q.free) :
    LruSeq.touch q k = (q, false) := by
  unfold LruSeq.touch; rw [if_neg (by rw [ho]; simp), if_neg hfree, ho]

theorem seq_touch_full_cons (q : Seq κ) (k x : κ) (t : List κ) (ho : q.order = x :: t) (hnm : k ∉ q.order)
    (hfree : ¬ 0 < q.free) : LruSeq.touch q k = ({ q with order := t ++ [k] }, true) := by
  unfold LruSeq.touch; rw [if_neg hnm, if_neg hfree, ho]

theorem seq_remove_hit (q : Seq κ) (k : κ) (A B : List κ) (ho : q.order = A ++ k :: B) (hnA : k ∉ A) :
    LruSeq.remove q k = ({ q with order := A ++ B, free := q.free + 1 }, true) := by
  unfold LruSeq.remove
  rw [if_pos (by rw [ho]; simp), ho, erase_mid _ _ _ hnA]

theorem seq_remove_miss (q : Seq κ) (k : κ) (hnm : k ∉ q.order) : LruSeq.remove q k = (q, false) := by
  unfold LruSeq.remove; rw [if_neg hnm]

end seqfacts

/-- `touch` (pointer level) simulates `touch` (sequence level): never panics, same result, and the
resulting states correspond. -/
theorem touch_sim (s : Ptr) (q : Seq Key) (k : Key) (h : Sim s q) :
    ∃ s', touch s k = some (s', (LruSeq.touch q k).2) ∧ s'.files = s.files ∧ Sim s' (LruSeq.touch q k).1 := by
  obtain ⟨L, hr, ho, hf, hc, hg, hp⟩ := h
  cases hkm : kmGet s.keyMap k with
  | some idx =>
    obtain ⟨hiL, hik⟩ := (hr.km k idx).mp hkm
    obtain ⟨A, B, hAB⟩ := List.append_of_mem hiL
    subst hAB
    obtain ⟨s', ht, hr', hkey, h1, h2, h3, h4, h5⟩ := touch_hit_sim s k A B idx hr hkm
    have hmem : k ∈ q.order := by rw [ho, ← hik]; exact List.mem_map_of_mem hiL
    have hnA : k ∉ A.map (keyAt s.entries) := by
      intro hm
      obtain ⟨a, ha, hak⟩ := List.mem_map.mp hm
      have := hr.keyInj a (by simp [ha]) idx hiL (hak.trans hik.symm)
      subst this
      have hnd := hr.nodupL
      rw [List.nodup_append] at hnd
      exact hnd.2.2 a ha a (by simp) rfl
    have ho' : q.order = A.map (keyAt s.entries) ++ k :: B.map (keyAt s.entries) := by
      rw [ho, List.map_append, List.map_cons, hik]
    rw [seq_touch_hit q k _ _ ho' hnA]
    refine ⟨s', ht, h5, A ++ B ++ [idx], hr', ?_, by rw [h1]; exact hf, by rw [h4]; exact hc,
      by rw [h2]; exact hg, by rw [h3]; exact hp⟩
    show A.map (keyAt s.entries) ++ B.map (keyAt s.entries) ++ [k] = (A ++ B ++ [idx]).map (keyAt s'.entries)
    rw [List.map_congr_left (fun i _ => hkey i)]
    simp only [List.map_append, List.map_cons, List.map_nil, hik]
  | none =>
    have hnm : k ∉ q.order := by rw [ho]; exact not_mem_order_of_none hr hkm
    cases hfl : s.freeList with
    | cons f rest =>
      have hr0 : RepF { s with freeList := rest } L (f :: rest) := by
        have := hr; unfold Rep at this; rw [hfl] at this
        exact ⟨this.len, this.u32, this.slots, this.list, this.kmNodup, this.km, this.freeEmpty, this.ver, this.flags0⟩
      obtain ⟨s2, s3, hmod, hlk, hr3, h1, h2, h3, h4, h5, hkf, hkL⟩ := install_ok _ L rest f k hr0 hkm
      have hfree : 0 < q.free := by rw [hf, hfl]; simp
      rw [seq_touch_free q k hnm hfree]
      refine ⟨s3, ?_, h5, L ++ [f], ?_, ?_, ?_, by rw [h4]; exact hc, by rw [h2]; exact hg, by rw [h3]; exact hp⟩
      · unfold touch
        simp only [hkm, hfl, hmod, hlk, Option.map]
      · unfold Rep; rw [h1]; exact hr3
      · show q.order ++ [k] = (L ++ [f]).map (keyAt s3.entries)
        rw [List.map_append, List.map_congr_left hkL, ho]
        simp only [List.map_cons, List.map_nil, hkf]
      · show q.free - 1 = s3.freeList.length
        rw [h1, hf, hfl]; simp
    | nil =>
      have hfree : ¬ 0 < q.free := by rw [hf, hfl]; simp
      have hrN : RepF s L [] := by have := hr; unfold Rep at this; rw [hfl] at this; exact this
      cases L with
      | nil =>
        rw [seq_touch_full_nil q k ho hfree]
        refine ⟨s, ?_, rfl, [], hr, ho, hf, hc, hg, hp⟩
        unfold touch
        simp only [hkm, hfl, detachTail_nil s [] hrN]
      | cons t rest =>
        obtain ⟨s2, hdt, hr2, g1, g2, g3, g4, g5, hk2⟩ := detachTail_cons s t rest [] hrN
        have hkm2 : kmGet s2.keyMap k = none := by
          cases hx : kmGet s2.keyMap k with
          | none => rfl
          | some i =>
            obtain ⟨hi, hik⟩ := (hr2.km k i).mp hx
            rw [hk2 i hi] at hik
            have := (hr.km k i).mpr ⟨List.mem_cons_of_mem _ hi, hik⟩
            rw [hkm] at this; cases this
        obtain ⟨s3, s4, hmod, hlk, hr4, h1, h2, h3, h4, h5, hkf, hkL⟩ := install_ok s2 rest [] t k hr2 hkm2
        rw [seq_touch_full_cons q k _ _ ho hnm hfree]
        refine ⟨s4, ?_, h5.trans g5, rest ++ [t], ?_, ?_, ?_, by rw [h4, g4]; exact hc, by rw [h2, g2]; exact hg,
          by rw [h3, g3]; exact hp⟩
        · unfold touch
          simp only [hkm, hfl, hdt, hmod, hlk, Option.map]
        · unfold Rep; rw [h1, g1, hfl]; exact hr4
        · show rest.map (keyAt s.entries) ++ [k] = (rest ++ [t]).map (keyAt s4.entries)
          rw [List.map_append, List.map_congr_left hkL, List.map_congr_left hk2]
          simp only [List.map_cons, List.map_nil, hkf]
        · show q.free = s4.freeList.length
          rw [h1, g1, hf]


/-- `remove` simulates `remove`. -/
theorem remove_sim (s : Ptr) (q : Seq Key) (k : Key) (h : Sim s q) :
    ∃ s', remove s k = some (s', (LruSeq.remove q k).2) ∧ s'.files = s.files ∧ Sim s' (LruSeq.remove q k).1 := by
  obtain ⟨L, hr, ho, hf, hc, hg, hp⟩ := h
  cases hkm : kmGet s.keyMap k with
  | none =>
    have hnm : k ∉ q.order := by rw [ho]; exact not_mem_order_of_none hr hkm
    rw [seq_remove_miss q k hnm]
    refine ⟨s, ?_, rfl, L, hr, ho, hf, hc, hg, hp⟩
    unfold remove; simp only [hkm]
  | some idx =>
    obtain ⟨hiL, hik⟩ := (hr.km k idx).mp hkm
    obtain ⟨A, B, hAB⟩ := List.append_of_mem hiL
    subst hAB
    have hlt := hr.ltL hiL
    have he : s.entries[idx]? = some s.entries[idx] := List.getElem?_eq_getElem hlt
    have hek : s.entries[idx].ekey = k := by rw [← keyAt_of he]; exact hik
    obtain ⟨s1, s2, hun, hmod, hr2, g1, g2, g3, g4, g5, hk2⟩ := detach_ok s A B s.freeList idx _ hr he
    rw [hek] at hun
    have hnA : k ∉ A.map (keyAt s.entries) := by
      intro hm
      obtain ⟨a, ha, hak⟩ := List.mem_map.mp hm
      have := hr.keyInj a (by simp [ha]) idx hiL (hak.trans hik.symm)
      subst this
      have hnd := hr.nodupL
      rw [List.nodup_append] at hnd
      exact hnd.2.2 a ha a (by simp) rfl
    have ho' : q.order = A.map (keyAt s.entries) ++ k :: B.map (keyAt s.entries) := by
      rw [ho, List.map_append, List.map_cons, hik]
    rw [seq_remove_hit q k _ _ ho' hnA]
    refine ⟨{ s2 with freeList := idx :: s2.freeList }, ?_, g5, A ++ B, ?_, ?_, ?_, by show q.cap = s2.cap; rw [g4]; exact hc,
      by show q.gen = s2.gen; rw [g2]; exact hg, by show q.prev = s2.prev; rw [g3]; exact hp⟩
    · unfold remove; simp only [hkm, hun, hmod]
    · unfold Rep
      show RepF { s2 with freeList := idx :: s2.freeList } (A ++ B) (idx :: s2.freeList)
      rw [g1]
      exact ⟨hr2.len, hr2.u32, hr2.slots, hr2.list, hr2.kmNodup, hr2.km, hr2.freeEmpty, hr2.ver, hr2.flags0⟩
    · show A.map (keyAt s.entries) ++ B.map (keyAt s.entries) = (A ++ B).map (keyAt s2.entries)
      rw [List.map_congr_left hk2, List.map_append]
    · show q.free + 1 = (idx :: s2.freeList).length
      rw [g1, hf]; rfl

theorem seq_evictTail_nil {κ : Type} (q : Seq κ) (ho : q.order = []) : LruSeq.evictTail q = (q, false) := by
  unfold LruSeq.evictTail; rw [ho]

theorem seq_evictTail_cons {κ : Type} (q : Seq κ) (x : κ) (t : List κ) (ho : q.order = x :: t) :
    LruSeq.evictTail q = ({ q with order := t, free := q.free + 1 }, true) := by
  unfold LruSeq.evictTail; rw [ho]

/-- public `evict_tail` simulates `evictTail`. -/
theorem evictTail_sim (s : Ptr) (q : Seq Key) (h : Sim s q) :
    ∃ s' r, evictTail s = some (s', r) ∧ r.isSome = (LruSeq.evictTail q).2 ∧ s'.files = s.files ∧
      Sim s' (LruSeq.evictTail q).1 := by
  obtain ⟨L, hr, ho, hf, hc, hg, hp⟩ := h
  cases L with
  | nil =>
    rw [seq_evictTail_nil q ho]
    refine ⟨s, none, ?_, rfl, rfl, [], hr, ho, hf, hc, hg, hp⟩
    unfold evictTail; simp only [detachTail_nil s _ hr]
  | cons t rest =>
    obtain ⟨s2, hdt, hr2, g1, g2, g3, g4, g5, hk2⟩ := detachTail_cons s t rest s.freeList hr
    rw [seq_evictTail_cons q _ _ ho]
    refine ⟨{ s2 with freeList := t :: s2.freeList }, some t, ?_, rfl, g5, rest, ?_, ?_, ?_,
      by show q.cap = s2.cap; rw [g4]; exact hc,
      by show q.gen = s2.gen; rw [g2]; exact hg, by show q.prev = s2.prev; rw [g3]; exact hp⟩
    · unfold evictTail; simp only [hdt]
    · unfold Rep
      show RepF { s2 with freeList := t :: s2.freeList } rest (t :: s2.freeList)
      rw [g1]
      exact ⟨hr2.len, hr2.u32, hr2.slots, hr2.list, hr2.kmNodup, hr2.km, hr2.freeEmpty, hr2.ver, hr2.flags0⟩
    · show rest.map (keyAt s.entries) = rest.map (keyAt s2.entries)
      rw [List.map_congr_left hk2]
    · show q.free + 1 = (t :: s2.freeList).length
      rw [g1, hf]; rfl


theorem sim_congr {s : Ptr} {q q' : Seq Key} (h : Sim s q) (h1 : q'.order = q.order) (h2 : q'.free = q.free)
    (h3 : q'.cap = q.cap) (h4 : q'.gen = q.gen) (h5 : q'.prev = q.prev) : Sim s q' := by
  obtain ⟨L, hr, ho, hf, hc, hg, hp⟩ := h
  exact ⟨L, hr, h1.trans ho, h2.trans hf, h3.trans hc, h4.trans hg, h5.trans hp⟩

theorem sim_len_le {s : Ptr} {q : Seq Key} (h : Sim s q) : q.order.length ≤ s.entries.length := by
  obtain ⟨L, hr, ho, _⟩ := h
  rw [ho, List.length_map, hr.len]
  have := hr.count; omega

/-- the `while freed < target` loop of `evict_to_target`: with fuel above the list length it
never runs dry, and it evicts exactly what the sequence-level loop evicts. -/
theorem evictLoop_sim (target avg : Nat) (fuel : Nat) (s : Ptr) (q : Seq Key) (evicted freed : Nat)
    (h : Sim s q) (hfuel : q.order.length < fuel) :
    ∃ s', evictLoop target avg fuel s evicted freed =
        some (s', evicted + (LruSeq.evictToAux target avg q.order q.free freed).2.2.1,
              (LruSeq.evictToAux target avg q.order q.free freed).2.2.2) ∧ s'.files = s.files ∧
      Sim s' { q with order := (LruSeq.evictToAux target avg q.order q.free freed).1,
                      free := (LruSeq.evictToAux target avg q.order q.free freed).2.1 } := by
  induction fuel generalizing s q evicted freed with
  | zero => omega
  | succ fuel ih =>
    unfold evictLoop
    by_cases hlt : freed < target
    · rw [if_pos hlt]
      obtain ⟨s1, r, hev, hres, hfs1, hsim⟩ := evictTail_sim s q h
      rw [hev]
      cases ho : q.order with
      | nil =>
        rw [seq_evictTail_nil q ho] at hres hsim
        cases r with
        | some t => cases hres
        | none =>
          refine ⟨s1, ?_, hfs1, ?_⟩
          · simp only [LruSeq.evictToAux, Nat.add_zero]
          · simp only [LruSeq.evictToAux]
            exact sim_congr hsim ho.symm rfl rfl rfl rfl
      | cons x t =>
        rw [seq_evictTail_cons q x t ho] at hres hsim
        cases r with
        | none => cases hres
        | some tl =>
          have hlen : ({ q with order := t, free := q.free + 1 } : Seq Key).order.length < fuel := by
            rw [ho] at hfuel; simp only [List.length_cons] at hfuel ⊢; omega
          obtain ⟨s', hrun, hfs', hsim'⟩ := ih s1 _ (evicted + 1) (freed + avg) hsim hlen
          refine ⟨s', ?_, hfs'.trans hfs1, ?_⟩
          · simp only [LruSeq.evictToAux, if_pos hlt]
            rw [hrun]
            simp only [Nat.add_assoc, Nat.add_comm 1]
          · simp only [LruSeq.evictToAux, if_pos hlt]
            exact sim_congr hsim' rfl rfl rfl rfl rfl
    · rw [if_neg hlt]
      refine ⟨s, ?_, rfl, ?_⟩
      · cases ho : q.order <;> simp only [LruSeq.evictToAux, if_neg hlt, Nat.add_zero]
      · cases ho : q.order with
        | nil => simp only [LruSeq.evictToAux]; exact sim_congr h ho.symm rfl rfl rfl rfl
        | cons x t => simp only [LruSeq.evictToAux, if_neg hlt]; exact sim_congr h ho.symm rfl rfl rfl rfl

/-- `evict_to_target` simulates `evictTo`; the fuel `entries.len() + 1` suffices. -/
theorem evictTo_sim (s : Ptr) (q : Seq Key) (target avg : Nat) (h : Sim s q) :
    ∃ s', evictToTarget s target avg = some (s', (LruSeq.evictTo q target avg).2) ∧ s'.files = s.files ∧
      Sim s' (LruSeq.evictTo q target avg).1 := by
  have hfuel : q.order.length < s.entries.length + 1 := by have := sim_len_le h; omega
  obtain ⟨s', hrun, hfs, hsim⟩ := evictLoop_sim target avg _ s q 0 0 h hfuel
  refine ⟨s', ?_, hfs, hsim⟩
  unfold evictToTarget
  rw [hrun]
  simp only [Nat.zero_add, LruSeq.evictTo]

/-- `LruManager::new` / `reset`: the empty list, every slot free. -/
theorem rep_fresh (hdr : Header) (cap : Nat) (hcap : cap ≤ SENT) (g p : Nat) (fs : Spec.Lru.Files Bytes)
    (hh : hdr.head = SENT) (ht : hdr.tail = SENT) (hv : hdr.version ≤ 1) :
    Rep ⟨hdr, List.replicate cap Entry.empty, [], (List.range cap).reverse, g, p, cap, fs⟩ [] := by
  refine ⟨by simp, hcap, ?_, ⟨trivial, ht, hh⟩, List.nodup_nil, ?_, ?_, hv, ?_⟩
  · simp only [List.nil_append]; exact List.reverse_perm _
  · intro k i; simp [kmGet]
  · intro i hi
    simp only [List.mem_reverse, List.mem_range] at hi
    simp [hi]
  · intro i e hie
    rw [List.getElem?_replicate] at hie
    split at hie
    · cases hie; rfl
    · cases hie

theorem sim_init (cap : Nat) (hcap : cap ≤ SENT) (fs : Spec.Lru.Files Bytes) :
    Sim (Ptr.init cap fs) (Seq.init cap) :=
  ⟨[], rep_fresh _ cap hcap 1 0 fs rfl rfl (by decide), rfl, by simp [Seq.init, Ptr.init], rfl, rfl, rfl⟩

theorem sim_cap {s : Ptr} {q : Seq Key} (h : Sim s q) : s.cap ≤ SENT := by
  obtain ⟨L, hr, _⟩ := h; exact hr.u32

/-- one operation that does not read a checkpoint back: the pointer level never panics, answers
what the sequence level answers, and the states still correspond. -/
theorem step_sim (md5 : Bytes → Bytes) (s : Ptr) (q : Seq Key) (op : Spec.Lru.Op Key) (h : Sim s q)
    (hop : Proofs.Lru.isReload op = false) :
    ∃ s', step md5 s op = some (s', (LruSeq.step zeroKey q op).2) ∧ Sim s' (LruSeq.step zeroKey q op).1 ∧
      (op ≠ .checkpoint → s'.files = s.files) := by
  cases op with
  | touch k =>
    obtain ⟨s', h1, hfs, h2⟩ := touch_sim s q k h
    exact ⟨s', by simp only [step, h1, Option.map, LruSeq.step], h2, fun _ => hfs⟩
  | remove k =>
    obtain ⟨s', h1, hfs, h2⟩ := remove_sim s q k h
    exact ⟨s', by simp only [step, h1, Option.map, LruSeq.step], h2, fun _ => hfs⟩
  | evictTail =>
    obtain ⟨s', r, h1, h2, hfs, h3⟩ := evictTail_sim s q h
    exact ⟨s', by simp only [step, h1, Option.map, LruSeq.step, h2], h3, fun _ => hfs⟩
  | evictTo t a =>
    obtain ⟨s', h1, hfs, h2⟩ := evictTo_sim s q t a h
    exact ⟨s', by simp only [step, h1, Option.map, LruSeq.step], h2, fun _ => hfs⟩
  | bump =>
    obtain ⟨L, hr, ho, hf, hc, hg, hp⟩ := h
    refine ⟨bump s, rfl, ⟨L, ?_, ho, hf, hc, ?_, hg⟩, fun _ => rfl⟩
    · exact ⟨hr.len, hr.u32, hr.slots, hr.list, hr.kmNodup, hr.km, hr.freeEmpty, hr.ver, hr.flags0⟩
    · show Spec.Lru.nextGen q.gen = Spec.Lru.nextGen s.gen
      rw [hg]
  | checkpoint =>
    obtain ⟨L, hr, ho, hf, hc, hg, hp⟩ := h
    refine ⟨checkpoint md5 s, rfl, ⟨L, ?_, ho, hf, hc, hg, hp⟩, fun hne => absurd rfl hne⟩
    exact ⟨hr.len, hr.u32, hr.slots, hr.list, hr.kmNodup, hr.km, hr.freeEmpty, hr.ver, hr.flags0⟩
  | load g => simp [Proofs.Lru.isReload] at hop
  | runCycle l a => simp [Proofs.Lru.isReload] at hop
  | reset =>
    have hcap := sim_cap h
    obtain ⟨L, hr, ho, hf, hc, hg, hp⟩ := h
    refine ⟨reset s, rfl, ⟨[], rep_fresh _ s.cap hcap _ _ _ rfl rfl (by decide), rfl, ?_, hc, hg, hp⟩, fun _ => rfl⟩
    show q.cap = ((List.range s.cap).reverse).length
    simp [hc]
  | reopen =>
    have hcap := sim_cap h
    obtain ⟨L, hr, ho, hf, hc, hg, hp⟩ := h
    refine ⟨Ptr.init s.cap s.files, rfl, ⟨[], rep_fresh _ s.cap hcap _ _ _ rfl rfl (by decide), rfl, ?_, hc, rfl, rfl⟩, fun _ => rfl⟩
    show q.cap = ((List.range s.cap).reverse).length
    simp [hc]

/-- whole histories: the pointer-level run never panics / loops, returns the results of the
sequence-level run, and ends in a corresponding state. -/
theorem run_sim (md5 : Bytes → Bytes) (ops : List (Spec.Lru.Op Key)) (s : Ptr) (q : Seq Key) (h : Sim s q)
    (hops : ∀ op ∈ ops, Proofs.Lru.isReload op = false) :
    ∃ s', run md5 s ops = some (s', (LruSeq.run zeroKey q ops).2) ∧ Sim s' (LruSeq.run zeroKey q ops).1 := by
  induction ops generalizing s q with
  | nil => exact ⟨s, rfl, h⟩
  | cons op ops ih =>
    obtain ⟨s1, h1, hs1, _⟩ := step_sim md5 s q op h (hops op List.mem_cons_self)
    obtain ⟨s2, h2, hs2⟩ := ih s1 _ hs1 (fun o ho => hops o (List.mem_cons_of_mem _ ho))
    exact ⟨s2, by simp only [run, h1, h2, LruSeq.run], hs2⟩


/-- the `while idx != LRU_SENTINEL` walk of `for_each_entry` over a well-formed segment: fuel
`≥ length` is enough, every index is in range, and the keys come out in list order minus the
all-zero key (`is_active`). -/
theorem iterAux_seg (es : List Entry) (L : List Nat) (p fuel : Nat) (hseg : Seg es p L SENT)
    (hne : ∀ i ∈ L, i ≠ SENT) (hfuel : L.length ≤ fuel) :
    iterAux es fuel (L.headD SENT) = some ((L.map (keyAt es)).filter (fun k => k ≠ zeroKey)) := by
  induction L generalizing p fuel with
  | nil => cases fuel <;> simp [iterAux]
  | cons i rest ih =>
    obtain ⟨⟨e, he, _, hn⟩, hrest⟩ := hseg
    cases fuel with
    | zero => simp at hfuel
    | succ fuel =>
      have hi : i ≠ SENT := hne i List.mem_cons_self
      have := ih i fuel hrest (fun j hj => hne j (List.mem_cons_of_mem _ hj)) (by simpa using hfuel)
      simp only [List.headD_cons, iterAux, if_neg hi, he, hn, this, List.map_cons, keyAt_of he]
      by_cases hz : e.ekey = zeroKey
      · simp [Entry.isActive, hz]
      · simp [Entry.isActive, hz]

/-- `for_each_entry` at pointer level = `Seq.iter` of the abstraction; the fuel suffices. -/
theorem iter_sim {s : Ptr} {q : Seq Key} (h : Sim s q) : iter s = some (q.iter zeroKey) := by
  obtain ⟨L, hr, ho, _⟩ := h
  unfold iter LruSeq.Seq.iter
  rw [hr.list.tail, ho]
  apply iterAux_seg _ _ _ _ hr.list.seg
  · intro i hi; have := hr.ltL hi; have := hr.lenS; omega
  · have := hr.count; rw [hr.len]; omega

theorem contains_sim {s : Ptr} {q : Seq Key} (h : Sim s q) (k : Key) : contains s k = q.contains k := by
  obtain ⟨L, hr, ho, _⟩ := h
  unfold contains LruSeq.Seq.contains
  cases hk : kmGet s.keyMap k with
  | none =>
    have := not_mem_order_of_none hr hk
    rw [← ho] at this
    simp [this]
  | some i =>
    obtain ⟨hi, hik⟩ := (hr.km k i).mp hk
    have : k ∈ q.order := by rw [ho, ← hik]; exact List.mem_map_of_mem hi
    simp [this]

theorem len_sim {s : Ptr} {q : Seq Key} (h : Sim s q) : len s = q.len := by
  obtain ⟨L, hr, ho, _⟩ := h
  unfold len LruSeq.Seq.len
  rw [hr.kmLen, ho, List.length_map]

/-- the slot-level accounting the invariant gives: linked + free = capacity = array length. -/
theorem sim_slots {s : Ptr} {q : Seq Key} (h : Sim s q) :
    len s + s.freeList.length = s.cap ∧ s.entries.length = s.cap := by
  obtain ⟨L, hr, ho, _⟩ := h
  unfold len
  rw [hr.kmLen]
  exact ⟨hr.count, hr.len⟩


theorem slotWalk_seg (es : List Entry) (L : List Nat) (p fuel : Nat) (hseg : Seg es p L SENT)
    (hne : ∀ i ∈ L, i ≠ SENT) (hfuel : L.length ≤ fuel) :
    slotWalk es fuel (L.headD SENT) = some L := by
  induction L generalizing p fuel with
  | nil => cases fuel <;> simp [slotWalk]
  | cons i rest ih =>
    obtain ⟨⟨e, he, _, hn⟩, hrest⟩ := hseg
    cases fuel with
    | zero => simp at hfuel
    | succ fuel =>
      have hi : i ≠ SENT := hne i List.mem_cons_self
      have := ih i fuel hrest (fun j hj => hne j (List.mem_cons_of_mem _ hj)) (by simpa using hfuel)
      simp only [List.headD_cons, slotWalk, if_neg hi, he, hn, this, Option.map]

theorem prevOk_seg (es : List Entry) (L : List Nat) (p n : Nat) (hseg : Seg es p L n) :
    prevOk es p L = true := by
  induction L generalizing p with
  | nil => rfl
  | cons i rest ih =>
    obtain ⟨⟨e, he, hp, _⟩, hrest⟩ := hseg
    simp only [prevOk, he, hp, beq_self_eq_true, ih i hrest, Bool.and_self]

/-- the abstraction FUNCTION: under the representation invariant the walk over the data
structure (fuel `entries.len() + 1`) returns exactly the abstract slot list, so `L` is determined
by the state; and an independent reader of header + array finds every `prev` and `mru_head`
consistent with that walk. -/
theorem slots_rep {s : Ptr} {L F : List Nat} (h : RepF s L F) :
    s.slots = some L ∧ prevOk s.entries SENT L = true ∧ s.header.head = L.getLastD SENT := by
  refine ⟨?_, prevOk_seg _ _ _ _ h.list.seg, h.list.head⟩
  unfold Ptr.slots
  rw [h.list.tail]
  apply slotWalk_seg _ _ _ _ h.list.seg
  · intro i hi; have := h.ltL hi; have := h.lenS; omega
  · have := h.count; rw [h.len]; omega

theorem rep_unique {s : Ptr} {L L' F F' : List Nat} (h : RepF s L F) (h' : RepF s L' F') : L = L' := by
  have h1 := (slots_rep h).1
  rw [(slots_rep h').1] at h1
  exact (Option.some.inj h1).symm


/-! ### `load_from_disk`: rebuilding `key_map` / `free_list` from `is_active` -/

/-- a key no active entry carries is left as it was -/
theorem rebuild_get_other (es : List Entry) (i : Nat) (km : KeyMap) (fl : List Nat) (k : Key)
    (h : ∀ (j : Nat) (e : Entry), es[j]? = some e → e.isActive = true → e.ekey ≠ k) :
    kmGet (rebuild es i km fl).1 k = kmGet km k := by
  induction es generalizing i km fl with
  | nil => rfl
  | cons e es ih =>
    have hrest : ∀ (j : Nat) (e' : Entry), es[j]? = some e' → e'.isActive = true → e'.ekey ≠ k :=
      fun j e' hj => h (j + 1) e' (by simpa using hj)
    unfold rebuild
    split
    · next ha =>
      rw [ih _ _ _ hrest, kmGet_insert, if_neg (h 0 e (by simp) ha)]
    · exact ih _ _ _ hrest

/-- the active entry that carries `k` (when it is the only one) is what the rebuilt map answers -/
theorem rebuild_get_unique (es : List Entry) (i : Nat) (km : KeyMap) (fl : List Nat) (k : Key) (j : Nat) (e : Entry)
    (hj : es[j]? = some e) (ha : e.isActive = true) (hk : e.ekey = k)
    (huniq : ∀ (j' : Nat) (e' : Entry), es[j']? = some e' → e'.isActive = true → e'.ekey = k → j' = j) :
    kmGet (rebuild es i km fl).1 k = some (i + j) := by
  induction es generalizing i j km fl with
  | nil => simp at hj
  | cons e0 es ih =>
    cases j with
    | zero =>
      simp only [List.getElem?_cons_zero, Option.some.injEq] at hj
      subst hj
      have hrest : ∀ (j : Nat) (e' : Entry), es[j]? = some e' → e'.isActive = true → e'.ekey ≠ k := by
        intro j e' hj' ha' hk'
        have := huniq (j + 1) e' (by simpa using hj') ha' hk'
        omega
      unfold rebuild
      rw [if_pos ha, rebuild_get_other _ _ _ _ _ hrest, kmGet_insert, if_pos hk]
      rfl
    | succ j =>
      have hj' : es[j]? = some e := by simpa using hj
      have huniq' : ∀ (j' : Nat) (e' : Entry), es[j']? = some e' → e'.isActive = true → e'.ekey = k → j' = j := by
        intro j' e' h1 h2 h3
        have := huniq (j' + 1) e' (by simpa using h1) h2 h3
        omega
      unfold rebuild
      split
      · rw [ih _ _ _ _ hj' huniq']; congr 1; omega
      · rw [ih _ _ _ _ hj' huniq']; congr 1; omega

/-- whatever the rebuilt map answers was there before or is an active entry with that key -/
theorem rebuild_get_sound (es : List Entry) (i : Nat) (km : KeyMap) (fl : List Nat) (k : Key) (v : Nat)
    (h : kmGet (rebuild es i km fl).1 k = some v) :
    kmGet km k = some v ∨ ∃ (j : Nat) (e : Entry), es[j]? = some e ∧ e.isActive = true ∧ e.ekey = k ∧ v = i + j := by
  induction es generalizing i km fl with
  | nil => exact Or.inl h
  | cons e0 es ih =>
    unfold rebuild at h
    split at h
    · next ha =>
      rcases ih _ _ _ h with h1 | ⟨j, e, h1, h2, h3, h4⟩
      · rw [kmGet_insert] at h1
        split at h1
        · next hk => cases h1; exact Or.inr ⟨0, e0, by simp, ha, hk, rfl⟩
        · exact Or.inl h1
      · exact Or.inr ⟨j + 1, e, by simpa using h1, h2, h3, by omega⟩
    · rcases ih _ _ _ h with h1 | ⟨j, e, h1, h2, h3, h4⟩
      · exact Or.inl h1
      · exact Or.inr ⟨j + 1, e, by simpa using h1, h2, h3, by omega⟩

theorem rebuild_keys_nodup (es : List Entry) (i : Nat) (km : KeyMap) (fl : List Nat)
    (h : (km.map Prod.fst).Nodup) : ((rebuild es i km fl).1.map Prod.fst).Nodup := by
  induction es generalizing i km fl with
  | nil => exact h
  | cons e0 es ih =>
    unfold rebuild
    split
    · exact ih _ _ _ (keys_insert_nodup _ _ _ h)
    · exact ih _ _ _ h

/-- the rebuilt free list: what was there plus exactly the inactive indices -/
theorem rebuild_free_mem (es : List Entry) (i : Nat) (km : KeyMap) (fl : List Nat) (v : Nat) :
    v ∈ (rebuild es i km fl).2 ↔
      v ∈ fl ∨ ∃ (j : Nat) (e : Entry), es[j]? = some e ∧ e.isActive = false ∧ v = i + j := by
  induction es generalizing i km fl with
  | nil => simp [rebuild]
  | cons e0 es ih =>
    unfold rebuild
    split
    · next ha =>
      rw [ih]
      constructor
      · rintro (h | ⟨j, e, h1, h2, h3⟩)
        · exact Or.inl h
        · exact Or.inr ⟨j + 1, e, by simpa using h1, h2, by omega⟩
      · rintro (h | ⟨j, e, h1, h2, h3⟩)
        · exact Or.inl h
        · cases j with
          | zero =>
            simp only [List.getElem?_cons_zero, Option.some.injEq] at h1
            subst h1; rw [ha] at h2; cases h2
          | succ j => exact Or.inr ⟨j, e, by simpa using h1, h2, by omega⟩
    · next ha =>
      rw [ih]
      constructor
      · rintro (h | ⟨j, e, h1, h2, h3⟩)
        · rcases List.mem_cons.mp h with h | h
          · exact Or.inr ⟨0, e0, by simp, by simpa using ha, by omega⟩
          · exact Or.inl h
        · exact Or.inr ⟨j + 1, e, by simpa using h1, h2, by omega⟩
      · rintro (h | ⟨j, e, h1, h2, h3⟩)
        · exact Or.inl (List.mem_cons_of_mem _ h)
        · cases j with
          | zero => exact Or.inl (by simp [h3])
          | succ j => exact Or.inr ⟨j, e, by simpa using h1, h2, by omega⟩

theorem rebuild_free_nodup (es : List Entry) (i : Nat) (km : KeyMap) (fl : List Nat)
    (h : fl.Nodup) (hb : ∀ x ∈ fl, x < i) : (rebuild es i km fl).2.Nodup := by
  induction es generalizing i km fl with
  | nil => exact h
  | cons e0 es ih =>
    unfold rebuild
    split
    · exact ih _ _ _ h (fun x hx => by have := hb x hx; omega)
    · refine ih _ _ _ (List.nodup_cons.mpr ⟨fun hm => by have := hb i hm; omega, h⟩) ?_
      intro x hx
      rcases List.mem_cons.mp hx with hx | hx
      · omega
      · have := hb x hx; omega


theorem isActive_iff (e : Entry) : e.isActive = true ↔ e.ekey ≠ zeroKey := by
  simp [Entry.isActive]

/-- `load_from_disk` on an entry array + header that satisfied the invariant when they were
written, none of whose linked keys is all-zero: the rebuilt `key_map` and `free_list` restore
the invariant with the SAME slot list (the free list may come back in another order). -/
theorem load_rep (s0 : Ptr) (L F : List Nat) (hr : RepF s0 L F)
    (hnz : ∀ i ∈ L, keyAt s0.entries i ≠ zeroKey)
    (hdr : Header) (hh : hdr.head = s0.header.head) (ht : hdr.tail = s0.header.tail) (hv : hdr.version ≤ 1)
    (s : Ptr) (hcap : s.cap = s0.cap) (g : Nat) :
    Rep { s with header := hdr, entries := s0.entries, keyMap := (rebuild s0.entries 0 [] []).1,
                 freeList := (rebuild s0.entries 0 [] []).2, gen := g } L ∧
    (rebuild s0.entries 0 [] []).2.length = F.length := by
  have hcov : ∀ j, j < s0.entries.length → j ∈ L ∨ j ∈ F := by
    intro j hj
    have : j ∈ L ++ F := hr.slots.mem_iff.mpr (List.mem_range.mpr (hr.len ▸ hj))
    exact List.mem_append.mp this
  have hact : ∀ (j : Nat) (e : Entry), s0.entries[j]? = some e → (e.isActive = true ↔ j ∈ L) := by
    intro j e hj
    constructor
    · intro ha
      rcases hcov j (getElem?_lt hj) with h | h
      · exact h
      · have := hr.freeEmpty j h
        rw [hj] at this
        cases this
        simp [Entry.isActive, Entry.empty] at ha
    · intro hjL
      rw [isActive_iff, ← keyAt_of hj]
      exact hnz j hjL
  have hfree : ∀ v, v ∈ (rebuild s0.entries 0 [] []).2 ↔ v < s0.entries.length ∧ v ∉ L := by
    intro v
    rw [rebuild_free_mem]
    constructor
    · rintro (h | ⟨j, e, h1, h2, h3⟩)
      · cases h
      · have : v = j := by omega
        subst this
        refine ⟨getElem?_lt h1, fun hL => ?_⟩
        rw [(hact v e h1).mpr hL] at h2; cases h2
    · rintro ⟨hlt, hnL⟩
      refine Or.inr ⟨v, _, List.getElem?_eq_getElem hlt, ?_, by omega⟩
      cases ha : (s0.entries[v]).isActive with
      | false => rfl
      | true => exact absurd ((hact v _ (List.getElem?_eq_getElem hlt)).mp ha) hnL
  have hnd' : (rebuild s0.entries 0 [] []).2.Nodup :=
    rebuild_free_nodup _ _ _ _ List.nodup_nil (fun x hx => by cases hx)
  have hslots : (L ++ (rebuild s0.entries 0 [] []).2).Perm (List.range s0.cap) := by
    rw [List.perm_ext_iff_of_nodup _ List.nodup_range]
    · intro v
      rw [List.mem_append, hfree, List.mem_range, ← hr.len]
      constructor
      · rintro (h | h)
        · exact hr.ltL h
        · exact h.1
      · intro hlt
        by_cases hL : v ∈ L
        · exact Or.inl hL
        · exact Or.inr ⟨hlt, hL⟩
    · rw [List.nodup_append]
      refine ⟨hr.nodupL, hnd', ?_⟩
      intro a ha b hb hab
      subst hab
      exact ((hfree a).mp hb).2 ha
  refine ⟨?_, ?_⟩
  · refine ⟨by show s0.entries.length = s.cap; rw [hcap]; exact hr.len, by show s.cap ≤ SENT; rw [hcap]; exact hr.u32,
      by show (L ++ (rebuild s0.entries 0 [] []).2).Perm (List.range s.cap); rw [hcap]; exact hslots,
      ⟨hr.list.seg, ht.trans hr.list.tail, hh.trans hr.list.head⟩,
      rebuild_keys_nodup _ _ _ _ List.nodup_nil, ?_, ?_, hv, hr.flags0⟩
    · intro k i
      show kmGet (rebuild s0.entries 0 [] []).1 k = some i ↔ i ∈ L ∧ keyAt s0.entries i = k
      constructor
      · intro hg
        rcases rebuild_get_sound _ _ _ _ _ _ hg with h | ⟨j, e, h1, h2, h3, h4⟩
        · simp [kmGet] at h
        · have : i = j := by omega
          subst this
          exact ⟨(hact i e h1).mp h2, by rw [keyAt_of h1]; exact h3⟩
      · rintro ⟨hiL, hik⟩
        have hlt := hr.ltL hiL
        have hi : s0.entries[i]? = some s0.entries[i] := List.getElem?_eq_getElem hlt
        have := rebuild_get_unique s0.entries 0 [] [] k i _ hi ((hact i _ hi).mpr hiL)
          (by rw [← keyAt_of hi]; exact hik) (by
            intro j' e' h1 h2 h3
            exact hr.keyInj j' ((hact j' e' h1).mp h2) i hiL (by rw [keyAt_of h1, h3, hik]))
        rw [this]; congr 1; omega
    · intro i hi
      show s0.entries[i]? = some Entry.empty
      obtain ⟨hlt, hnL⟩ := (hfree i).mp hi
      rcases hcov i hlt with h | h
      · exact absurd h hnL
      · exact hr.freeEmpty i h
  · have h1 := hr.count
    have h2 := hslots.length_eq
    simp only [List.length_append, List.length_range] at h2
    omega


open Cascette.Spec.Lru

/-! ### checkpoint files: pointer level (bytes) vs sequence level (key lists) -/

/-- apply `f` to what every file holds -/
def mapF {σ τ : Type} (f : σ → τ) (fs : Files σ) : Files τ := fs.map (fun p => (p.1, f p.2))

section mapF
variable {σ τ : Type} (f : σ → τ)

theorem lookup_mapF (fs : Files σ) (g : Nat) : Files.lookup (mapF f fs) g = (Files.lookup fs g).map f := by
  induction fs with
  | nil => rfl
  | cons p fs ih =>
    obtain ⟨a, v⟩ := p
    simp only [mapF, List.map_cons, Files.lookup] at ih ⊢
    split
    · rfl
    · exact ih

theorem delete_mapF (fs : Files σ) (g : Nat) : Files.delete (mapF f fs) g = mapF f (Files.delete fs g) := by
  simp only [Files.delete, mapF, List.filter_map]
  rfl

theorem scan_mapF (fs : Files σ) (g p : Nat) : Files.scan (mapF f fs) g p = mapF f (Files.scan fs g p) := by
  simp only [Files.scan, mapF, List.filter_map]
  rfl

theorem write_mapF (fs : Files σ) (g : Nat) (v : σ) :
    Files.write (mapF f fs) g (f v) = mapF f (Files.write fs g v) := by
  simp only [Files.write, delete_mapF]
  rfl

theorem latest_mapF (fs : Files σ) : Files.latest (mapF f fs) = Files.latest fs := by
  induction fs with
  | nil => rfl
  | cons p fs ih =>
    obtain ⟨a, v⟩ := p
    simp only [mapF, List.map_cons, Files.latest] at ih ⊢
    rw [ih]

theorem mem_mapF {fs : Files σ} {p : Nat × τ} (h : p ∈ mapF f fs) : ∃ p0 ∈ fs, p = (p0.1, f p0.2) := by
  obtain ⟨p0, h1, h2⟩ := List.mem_map.mp h
  exact ⟨p0, h1, h2.symm⟩

end mapF

/-- what a checkpoint file says at sequence level: the keys of the linked entries in list order
(`[]` for bytes that do not parse or do not describe a terminating list). -/
def snapOf (md5 : Bytes → Bytes) (data : Bytes) : List Key :=
  match deserialize md5 data with
  | none => []
  | some (h, es) =>
    match slotWalk es (es.length + 1) h.tail with
    | none => []
    | some L => L.map (keyAt es)

/-- the file was written by `checkpoint_to_disk` from a state of capacity `cap` that satisfied
the representation invariant and held 9-byte keys. -/
def GoodFile (md5 : Bytes → Bytes) (cap : Nat) (data : Bytes) : Prop :=
  ∃ s0 L, Rep s0 L ∧ s0.cap = cap ∧ (∀ i ∈ L, (keyAt s0.entries i).length = 9) ∧
    data = serialize md5 s0.header s0.entries

theorem SENT_lt : SENT < 2 ^ 32 := by decide

theorem seg_bounds (es : List Entry) (L : List Nat) (p n : Nat) (hseg : Seg es p L n)
    (hp : p ≤ SENT) (hn : n ≤ SENT) (hL : ∀ i ∈ L, i ≤ SENT) :
    ∀ i ∈ L, ∀ e, es[i]? = some e → e.prev ≤ SENT ∧ e.next ≤ SENT := by
  induction L generalizing p with
  | nil => intro i hi; cases hi
  | cons a L ih =>
    obtain ⟨⟨e0, he0, hp0, hn0⟩, hrest⟩ := hseg
    intro i hi e he
    rcases List.mem_cons.mp hi with hi | hi
    · subst hi
      rw [he0] at he; cases he
      refine ⟨by omega, ?_⟩
      rw [hn0]
      rcases headD_mem_or L n with ⟨_, h⟩ | h
      · omega
      · exact hL _ (List.mem_cons_of_mem _ h)
    · exact ih a hrest (hL a List.mem_cons_self) (fun j hj => hL j (List.mem_cons_of_mem _ hj)) i hi e he

/-- under the invariant (and 9-byte keys) every field fits its on-disk width. -/
theorem rep_fits {s : Ptr} {L F : List Nat} (h : RepF s L F) (h9 : ∀ i ∈ L, (keyAt s.entries i).length = 9) :
    (∀ e ∈ s.entries, Proofs.LruPtr.Entry.Fits e) ∧ s.header.head < 2 ^ 32 ∧ s.header.tail < 2 ^ 32 := by
  have hS := SENT_lt
  have hLS : ∀ i ∈ L, i ≤ SENT := fun i hi => by have := h.ltL hi; have := h.lenS; omega
  refine ⟨?_, ?_, ?_⟩
  · intro e he
    obtain ⟨i, hi, hie⟩ := List.getElem_of_mem he
    have hie' : s.entries[i]? = some e := by rw [List.getElem?_eq_getElem hi, hie]
    have : i ∈ L ++ F := h.slots.mem_iff.mpr (List.mem_range.mpr (h.len ▸ hi))
    rcases List.mem_append.mp this with hiL | hiF
    · obtain ⟨b1, b2⟩ := seg_bounds _ _ _ _ h.list.seg (Nat.le_refl _) (Nat.le_refl _) hLS i hiL e hie'
      refine ⟨by omega, by omega, ?_, ?_⟩
      · rw [← keyAt_of hie']; exact h9 i hiL
      · rw [h.flags0 i e hie']; decide
    · have := h.freeEmpty i hiF
      rw [hie'] at this; cases this
      exact ⟨hS, hS, by decide, by decide⟩
  · rw [h.list.head]
    rcases getLastD_mem_or L SENT with ⟨_, h'⟩ | h'
    · omega
    · have := hLS _ h'; omega
  · rw [h.list.tail]
    rcases headD_mem_or L SENT with ⟨_, h'⟩ | h'
    · omega
    · have := hLS _ h'; omega

/-- a good file parses back to the array and header indices it was written from, and at
sequence level it says: the keys of the linked slots, in order. -/
theorem goodfile_decode (md5 : Bytes → Bytes) (hmd5 : ∀ x, (md5 x).length = 16) (s0 : Ptr) (L : List Nat)
    (hr : Rep s0 L) (h9 : ∀ i ∈ L, (keyAt s0.entries i).length = 9) :
    deserialize md5 (serialize md5 s0.header s0.entries) =
      some ({ s0.header with hash := md5 (headerBytes s0.header zeros16 ++ bodyBytes s0.entries) }, s0.entries) ∧
    snapOf md5 (serialize md5 s0.header s0.entries) = L.map (keyAt s0.entries) := by
  obtain ⟨hf, hh, ht⟩ := rep_fits hr h9
  have hd := Proofs.LruPtr.codec_roundtrip md5 hmd5 s0.header s0.entries hr.ver hh ht hf
  refine ⟨hd, ?_⟩
  unfold snapOf
  rw [hd]
  have := (slots_rep hr).1
  unfold Ptr.slots at this
  simp only [this]


section seqfacts2
variable {κ : Type} [DecidableEq κ]

/-- at sequence level a key gets into the table only by being touched (no reload). -/
theorem seq_step_mem (zero : κ) (q : Seq κ) (op : Op κ) (hop : Proofs.Lru.isReload op = false) (x : κ)
    (hx : x ∈ (LruSeq.step zero q op).1.order) : x ∈ q.order ∨ op = .touch x := by
  cases op with
  | touch k =>
    rcases Proofs.Lru.touch_mem hx with h | h
    · exact Or.inr (by rw [h])
    · exact Or.inl h
  | remove k =>
    simp only [LruSeq.step, LruSeq.remove] at hx
    split at hx
    · exact Or.inl (List.mem_of_mem_erase hx)
    · exact Or.inl hx
  | evictTail =>
    simp only [LruSeq.step, LruSeq.evictTail] at hx
    split at hx
    · exact Or.inl hx
    · next y t ho => exact Or.inl (by rw [ho]; exact List.mem_cons_of_mem _ hx)
  | evictTo t a => exact Or.inl ((Proofs.Lru.evictTo_refines q t a).2.2.2.subset hx)
  | bump => exact Or.inl hx
  | checkpoint => exact Or.inl hx
  | load g => simp [Proofs.Lru.isReload] at hop
  | runCycle l a => simp [Proofs.Lru.isReload] at hop
  | reset => simp [LruSeq.step] at hx
  | reopen => simp [LruSeq.step] at hx

/-- only `checkpoint` and `run_cycle` change the set of files. -/
theorem seq_step_files (zero : κ) (q : Seq κ) (op : Op κ) (h1 : op ≠ .checkpoint) (h2 : ∀ l a, op ≠ .runCycle l a) :
    (LruSeq.step zero q op).1.files = q.files := by
  cases op with
  | touch k => exact Proofs.Lru.touch_files q k
  | remove k => simp only [LruSeq.step, LruSeq.remove]; split <;> rfl
  | evictTail => simp only [LruSeq.step, LruSeq.evictTail]; split <;> rfl
  | evictTo t a => rfl
  | bump => rfl
  | checkpoint => exact absurd rfl h1
  | load g => simp only [LruSeq.step]; split <;> rfl
  | runCycle l a => exact absurd rfl (h2 l a)
  | reset => rfl
  | reopen => rfl

end seqfacts2

/-- the simulation relation with persistence: `Sim`, plus every pointer-level file is a good
checkpoint whose sequence-level reading is the sequence model's file, plus what the sequence
level needs to know about the keys (9 bytes, never all-zero). -/
structure Sim2 (md5 : Bytes → Bytes) (s : Ptr) (q : Seq Key) : Prop where
  sim : Sim s q
  files : q.files = mapF (snapOf md5) s.files
  good : ∀ p ∈ s.files, GoodFile md5 s.cap p.2
  keys9 : ∀ k ∈ q.order, k.length = 9
  noZero : Proofs.Lru.NoZero zeroKey q

theorem sim2_init (md5 : Bytes → Bytes) (cap : Nat) (hcap : cap ≤ SENT) :
    Sim2 md5 (Ptr.init cap []) (Seq.init cap) :=
  ⟨sim_init cap hcap [], rfl, fun p hp => (by cases hp), fun k hk => (by cases hk), Proofs.Lru.noZero_init _ _⟩

/-- the key-level side conditions of one operation: a touched key is a `[u8; 9]` and not all-zero -/
def OpOk (op : Op Key) : Prop := ∀ k, op = .touch k → k.length = 9 ∧ k ≠ zeroKey

theorem sim_s_cap {s : Ptr} {q : Seq Key} (h : Sim s q) : q.cap = s.cap := by
  obtain ⟨_, _, _, _, hc, _⟩ := h; exact hc

/-- in-memory operations and `bump`/`reset`/`reopen` under `Sim2`. -/
theorem step_sim2_mem (md5 : Bytes → Bytes) (s : Ptr) (q : Seq Key) (op : Op Key) (h : Sim2 md5 s q)
    (hok : OpOk op) (hr : Proofs.Lru.isReload op = false) (hc : op ≠ .checkpoint) :
    ∃ s', step md5 s op = some (s', (LruSeq.step zeroKey q op).2) ∧ Sim2 md5 s' (LruSeq.step zeroKey q op).1 := by
  obtain ⟨s', hstep, hsim, hfs⟩ := step_sim md5 s q op h.sim hr
  have hfs := hfs hc
  have hrc : ∀ l a, op ≠ .runCycle l a := by
    intro l a heq; subst heq; simp [Proofs.Lru.isReload] at hr
  have hqf := seq_step_files zeroKey q op hc hrc
  have hcap : s'.cap = s.cap := by
    rw [← sim_s_cap hsim, Proofs.Lru.step_cap, sim_s_cap h.sim]
  refine ⟨s', hstep, hsim, by rw [hqf, hfs]; exact h.files, by rw [hfs, hcap]; exact h.good, ?_, ?_⟩
  · intro k hk
    rcases seq_step_mem zeroKey q op hr k hk with hm | hm
    · exact h.keys9 k hm
    · exact (hok k hm).1
  · exact Proofs.Lru.step_noZero zeroKey op (fun heq => (hok zeroKey heq).2 rfl) h.noZero


theorem sim_keys9 {s : Ptr} {q : Seq Key} {L : List Nat} (ho : q.order = L.map (keyAt s.entries))
    (h9 : ∀ k ∈ q.order, k.length = 9) : ∀ i ∈ L, (keyAt s.entries i).length = 9 :=
  fun i hi => h9 _ (by rw [ho]; exact List.mem_map_of_mem hi)

/-- `checkpoint_to_disk` under `Sim2`: the file written is a good file whose sequence-level
reading is the current order. -/
theorem checkpoint_sim2 (md5 : Bytes → Bytes) (hmd5 : ∀ x, (md5 x).length = 16) (s : Ptr) (q : Seq Key)
    (h : Sim2 md5 s q) : Sim2 md5 (checkpoint md5 s) (LruSeq.step zeroKey q .checkpoint).1 := by
  obtain ⟨L, hr, ho, hf, hc, hg, hp⟩ := h.sim
  have h9 := sim_keys9 ho h.keys9
  have hsnap : snapOf md5 (serialize md5 s.header s.entries) = q.order := by
    rw [(goodfile_decode md5 hmd5 s L hr h9).2, ho]
  have hgood : GoodFile md5 s.cap (serialize md5 s.header s.entries) := ⟨s, L, hr, rfl, h9, rfl⟩
  have hw : ∀ p ∈ Files.write s.files s.gen (serialize md5 s.header s.entries), GoodFile md5 s.cap p.2 := by
    intro p hp
    rcases Proofs.Lru.mem_write hp with rfl | hp
    · exact hgood
    · exact h.good p hp
  have hwf : Files.write q.files q.gen q.order =
      mapF (snapOf md5) (Files.write s.files s.gen (serialize md5 s.header s.entries)) := by
    rw [← write_mapF, hsnap, h.files, hg]
  refine ⟨⟨L, ⟨hr.len, hr.u32, hr.slots, hr.list, hr.kmNodup, hr.km, hr.freeEmpty, hr.ver, hr.flags0⟩,
    ho, hf, hc, hg, hp⟩, ?_, ?_, h.keys9,
    Proofs.Lru.step_noZero zeroKey .checkpoint (fun heq => by cases heq) h.noZero⟩
  · show (if q.prev ≠ 0 ∧ q.prev ≠ q.gen then Files.delete (Files.write q.files q.gen q.order) q.prev
          else Files.write q.files q.gen q.order) =
        mapF (snapOf md5) (if s.prev ≠ 0 ∧ s.prev ≠ s.gen then
          Files.delete (Files.write s.files s.gen (serialize md5 s.header s.entries)) s.prev
          else Files.write s.files s.gen (serialize md5 s.header s.entries))
    rw [hp, hg] at *
    split
    · rw [← delete_mapF, hwf]
    · exact hwf
  · intro p hp'
    have : p ∈ (if s.prev ≠ 0 ∧ s.prev ≠ s.gen then
          Files.delete (Files.write s.files s.gen (serialize md5 s.header s.entries)) s.prev
          else Files.write s.files s.gen (serialize md5 s.header s.entries)) := hp'
    split at this
    · exact hw p (Proofs.Lru.mem_delete this)
    · exact hw p this

/-- `load_from_disk` under `Sim2`. -/
theorem load_sim2 (md5 : Bytes → Bytes) (hmd5 : ∀ x, (md5 x).length = 16) (s : Ptr) (q : Seq Key) (g : Nat)
    (h : Sim2 md5 s q) :
    ∃ s', (loadFromDisk md5 s g).1 = s' ∧
      (if (loadFromDisk md5 s g).2 then Out.ok else Out.err) = (LruSeq.step zeroKey q (.load g)).2 ∧
      Sim2 md5 s' (LruSeq.step zeroKey q (.load g)).1 ∧
      ((loadFromDisk md5 s g).2 = true → ∃ snap, Files.lookup q.files g = some snap) ∧
      ((loadFromDisk md5 s g).2 = false → Files.lookup q.files g = none) := by
  have hlq : Files.lookup q.files g = (Files.lookup s.files g).map (snapOf md5) := by
    rw [h.files, lookup_mapF]
  cases hl : Files.lookup s.files g with
  | none =>
    rw [hl] at hlq
    refine ⟨s, ?_, ?_, ?_, ?_, ?_⟩
    · simp only [loadFromDisk, hl]
    · simp only [loadFromDisk, hl, LruSeq.step, hlq, Option.map]; rfl
    · simp only [LruSeq.step, hlq, Option.map]; exact h
    · simp only [loadFromDisk, hl]; intro hc; cases hc
    · intro _; exact hlq
  | some data =>
    rw [hl] at hlq
    obtain ⟨s0, L0, hr0, hcap0, h90, hdata⟩ := h.good _ (Proofs.Lru.lookup_mem hl)
    obtain ⟨hdec, hsnap⟩ := goodfile_decode md5 hmd5 s0 L0 hr0 h90
    rw [← hdata] at hdec hsnap
    have hzs : zeroKey ∉ snapOf md5 data := by
      have hm : (g, snapOf md5 data) ∈ q.files := Proofs.Lru.lookup_mem (by rw [hlq]; rfl)
      exact h.noZero.files _ hm
    have hnz : ∀ i ∈ L0, keyAt s0.entries i ≠ zeroKey := by
      intro i hi heq
      apply hzs; rw [hsnap, ← heq]; exact List.mem_map_of_mem hi
    obtain ⟨L, hr, ho, hf, hc, hg, hp⟩ := h.sim
    obtain ⟨hrep, hflen⟩ := load_rep s0 L0 s0.freeList hr0 hnz
      { s0.header with hash := md5 (headerBytes s0.header zeros16 ++ bodyBytes s0.entries) } rfl rfl hr0.ver
      s hcap0.symm g
    have hload : loadFromDisk md5 s g =
        ({ s with header := { s0.header with hash := md5 (headerBytes s0.header zeros16 ++ bodyBytes s0.entries) },
                  entries := s0.entries, keyMap := (rebuild s0.entries 0 [] []).1,
                  freeList := (rebuild s0.entries 0 [] []).2, gen := g }, true) := by
      simp only [loadFromDisk, hl, hdec]
    have hstepq : LruSeq.step zeroKey q (.load g) = (LruSeq.loadSnap zeroKey q g (snapOf md5 data), .ok) := by
      simp only [LruSeq.step, hlq, Option.map]
    rw [hload, hstepq]
    refine ⟨_, rfl, rfl, ?_, fun _ => ⟨_, hlq⟩, fun hc => by cases hc⟩
    have hfilt : (snapOf md5 data).filter (fun k => k ≠ zeroKey) = snapOf md5 data :=
      Proofs.Lru.filter_ne_zero hzs
    refine ⟨⟨L0, hrep, ?_, ?_, hc, rfl, hp⟩, h.files, ?_, ?_, ?_⟩
    · show (snapOf md5 data).filter (fun k => k ≠ zeroKey) = L0.map (keyAt s0.entries)
      rw [hfilt, hsnap]
    · show q.cap - ((snapOf md5 data).filter (fun k => k ≠ zeroKey)).length = (rebuild s0.entries 0 [] []).2.length
      rw [hfilt, hsnap, hflen, List.length_map, hc, ← hcap0]
      have := hr0.count; omega
    · exact h.good
    · intro k hk
      have hk' : k ∈ (snapOf md5 data).filter (fun k => k ≠ zeroKey) := hk
      rw [hfilt, hsnap] at hk'
      obtain ⟨i, hi, hik⟩ := List.mem_map.mp hk'
      rw [← hik]; exact h90 i hi
    · have := Proofs.Lru.step_noZero zeroKey (.load g) (fun heq => by cases heq) h.noZero
      rw [hstepq] at this; exact this


/-- the eviction step of `run_cycle`. -/
theorem cycleEvict_sim (s1 : Ptr) (q1 : Seq Key) (limit avg : Nat) (h : Sim s1 q1) :
    ∃ s2, (if 0 < limit ∧ 0 < avg then
            if limit < len s1 * avg then evictToTarget s1 (len s1 * avg - limit) avg else some (s1, 0, 0)
          else some (s1, 0, 0)) = some (s2, (LruSeq.cycleEvict q1 limit avg).2) ∧
      s2.files = s1.files ∧ Sim s2 (LruSeq.cycleEvict q1 limit avg).1 := by
  have hlen : len s1 = q1.order.length := len_sim h
  unfold LruSeq.cycleEvict
  rw [hlen]
  split
  · split
    · obtain ⟨s2, h1, h2, h3⟩ := evictTo_sim s1 q1 (q1.order.length * avg - limit) avg h
      exact ⟨s2, h1, h2, h3⟩
    · exact ⟨s1, rfl, rfl, h⟩
  · exact ⟨s1, rfl, rfl, h⟩

theorem sim_set_files {s : Ptr} {q : Seq Key} (h : Sim s q) (X : Files Bytes) (Y : Files (List Key)) :
    Sim { s with files := X } { q with files := Y } := by
  obtain ⟨L, hr, ho, hf, hc, hg, hp⟩ := h
  exact ⟨L, ⟨hr.len, hr.u32, hr.slots, hr.list, hr.kmNodup, hr.km, hr.freeEmpty, hr.ver, hr.flags0⟩,
    ho, hf, hc, hg, hp⟩

/-- everything `run_cycle` does after the optional load. -/
def cycleTail (s1 : Ptr) (nLoaded limit avg : Nat) : Option (Ptr × Out) :=
  match (if 0 < limit ∧ 0 < avg then
          if limit < len s1 * avg then evictToTarget s1 (len s1 * avg - limit) avg else some (s1, 0, 0)
        else some (s1, 0, 0)) with
  | none => none
  | some (s2, nEv, freed) =>
    let s3 := { s2 with files := Files.scan s2.files s2.gen s2.prev }
    match iter s3 with
    | none => none
    | some l => some (s3, .cycle nLoaded nEv freed l.length)

theorem cycleTail_sim2 (md5 : Bytes → Bytes) (s1 : Ptr) (q1 : Seq Key) (nLoaded limit avg : Nat)
    (h : Sim2 md5 s1 q1) :
    ∃ s3, cycleTail s1 nLoaded limit avg =
        some (s3, .cycle nLoaded (LruSeq.cycleEvict q1 limit avg).2.1 (LruSeq.cycleEvict q1 limit avg).2.2
                  (Seq.iter zeroKey (LruSeq.cycleEvict q1 limit avg).1).length) ∧
      Sim2 md5 s3 { (LruSeq.cycleEvict q1 limit avg).1 with files := Files.scan q1.files q1.gen q1.prev } := by
  obtain ⟨s2, hev, hfs, hsim⟩ := cycleEvict_sim s1 q1 limit avg h.sim
  obtain ⟨hqf, hqc, hqg, hqp⟩ := Proofs.Lru.cycleEvict_files q1 limit avg
  obtain ⟨_, _, _, hsub⟩ := Proofs.Lru.cycleEvict_refines q1 limit avg
  have hs3 := sim_set_files hsim (Files.scan s2.files s2.gen s2.prev) (Files.scan q1.files q1.gen q1.prev)
  have hiter : iter { s2 with files := Files.scan s2.files s2.gen s2.prev } =
      some (Seq.iter zeroKey (LruSeq.cycleEvict q1 limit avg).1) := (iter_sim hsim : iter s2 = _)
  have hg2 : s2.gen = q1.gen := by obtain ⟨_, _, _, _, _, hg, _⟩ := hsim; rw [← hg, hqg]
  have hp2 : s2.prev = q1.prev := by obtain ⟨_, _, _, _, _, _, hp⟩ := hsim; rw [← hp, hqp]
  have hc2 : s2.cap = s1.cap := by rw [← sim_s_cap hsim, hqc, sim_s_cap h.sim]
  refine ⟨{ s2 with files := Files.scan s2.files s2.gen s2.prev }, ?_, hs3, ?_, ?_, ?_, ?_⟩
  · unfold cycleTail
    rw [hev]
    simp only [hiter]
  · show Files.scan q1.files q1.gen q1.prev = mapF (snapOf md5) (Files.scan s2.files s2.gen s2.prev)
    rw [← scan_mapF, hfs, h.files, hg2, hp2]
  · intro p hp
    have : p ∈ s1.files := hfs ▸ Proofs.Lru.mem_scan hp
    show GoodFile md5 s2.cap p.2
    rw [hc2]; exact h.good p this
  · intro k hk
    exact h.keys9 k (hsub.subset hk)
  · exact ⟨fun hm => h.noZero.order (hsub.subset hm), fun p hp => h.noZero.files p (Proofs.Lru.mem_scan hp)⟩

theorem runCycle_eq (md5 : Bytes → Bytes) (s : Ptr) (limit avg : Nat) :
    runCycle md5 s limit avg =
      match (match Files.latest s.files with
             | none => some (s, 0)
             | some g => if (loadFromDisk md5 s g).2 then some ((loadFromDisk md5 s g).1, len (loadFromDisk md5 s g).1) else none) with
      | none => some (s, .err)
      | some (s1, n) => cycleTail s1 n limit avg := rfl

/-- `run_cycle` under `Sim2`. -/
theorem runCycle_sim2 (md5 : Bytes → Bytes) (hmd5 : ∀ x, (md5 x).length = 16) (s : Ptr) (q : Seq Key)
    (limit avg : Nat) (h : Sim2 md5 s q) :
    ∃ s', runCycle md5 s limit avg = some (s', (LruSeq.step zeroKey q (.runCycle limit avg)).2) ∧
      Sim2 md5 s' (LruSeq.step zeroKey q (.runCycle limit avg)).1 := by
  rw [runCycle_eq]
  have hlat : Files.latest q.files = Files.latest s.files := by rw [h.files, latest_mapF]
  cases hl : Files.latest s.files with
  | none =>
    rw [hl] at hlat
    obtain ⟨s3, h1, h2⟩ := cycleTail_sim2 md5 s q 0 limit avg h
    refine ⟨s3, ?_, ?_⟩
    · simp only [h1, LruSeq.step, hlat]
    · simp only [LruSeq.step, hlat]; exact h2
  | some g =>
    rw [hl] at hlat
    obtain ⟨s1, hs1, hout, hsim1, hsome, hnone⟩ := load_sim2 md5 hmd5 s q g h
    cases hb : (loadFromDisk md5 s g).2 with
    | false =>
      have hln := hnone hb
      refine ⟨s, ?_, ?_⟩
      · simp only [hb, LruSeq.step, hlat, hln]; rfl
      · simp only [LruSeq.step, hlat, hln]; exact h
    | true =>
      obtain ⟨snap, hsnap⟩ := hsome hb
      have hq1 : (LruSeq.step zeroKey q (.load g)).1 = LruSeq.loadSnap zeroKey q g snap := by
        simp only [LruSeq.step, hsnap]
      rw [hq1] at hsim1
      have hlen : len s1 = (LruSeq.loadSnap zeroKey q g snap).order.length := len_sim hsim1.sim
      obtain ⟨s3, h1, h2⟩ := cycleTail_sim2 md5 s1 _ (len s1) limit avg hsim1
      refine ⟨s3, ?_, ?_⟩
      · simp only [hb, if_true, hs1, h1, LruSeq.step, hlat, hsnap]
        rw [hlen]
      · simp only [LruSeq.step, hlat, hsnap]; exact h2


/-- EVERY operation (reloads included) under `Sim2`: the pointer level never panics / loops,
answers what the sequence level answers, and the relation is kept — provided a touched key is a
`[u8; 9]` that is not all-zero. -/
theorem step_sim2 (md5 : Bytes → Bytes) (hmd5 : ∀ x, (md5 x).length = 16) (s : Ptr) (q : Seq Key)
    (op : Op Key) (h : Sim2 md5 s q) (hok : OpOk op) :
    ∃ s', LruPtr.step md5 s op = some (s', (LruSeq.step zeroKey q op).2) ∧ Sim2 md5 s' (LruSeq.step zeroKey q op).1 := by
  cases op with
  | checkpoint => exact ⟨checkpoint md5 s, rfl, checkpoint_sim2 md5 hmd5 s q h⟩
  | load g =>
    obtain ⟨s', h1, h2, h3, _, _⟩ := load_sim2 md5 hmd5 s q g h
    refine ⟨s', ?_, h3⟩
    simp only [LruPtr.step, h1, h2]
  | runCycle l a =>
    obtain ⟨s', h1, h2⟩ := runCycle_sim2 md5 hmd5 s q l a h
    exact ⟨s', by simp only [LruPtr.step, h1], h2⟩
  | touch k => exact step_sim2_mem md5 s q _ h hok rfl (fun heq => by cases heq)
  | remove k => exact step_sim2_mem md5 s q _ h hok rfl (fun heq => by cases heq)
  | evictTail => exact step_sim2_mem md5 s q _ h hok rfl (fun heq => by cases heq)
  | evictTo t a => exact step_sim2_mem md5 s q _ h hok rfl (fun heq => by cases heq)
  | bump => exact step_sim2_mem md5 s q _ h hok rfl (fun heq => by cases heq)
  | reset => exact step_sim2_mem md5 s q _ h hok rfl (fun heq => by cases heq)
  | reopen => exact step_sim2_mem md5 s q _ h hok rfl (fun heq => by cases heq)

theorem run_sim2 (md5 : Bytes → Bytes) (hmd5 : ∀ x, (md5 x).length = 16) (ops : List (Op Key)) (s : Ptr)
    (q : Seq Key) (h : Sim2 md5 s q) (hops : ∀ op ∈ ops, OpOk op) :
    ∃ s', LruPtr.run md5 s ops = some (s', (LruSeq.run zeroKey q ops).2) ∧ Sim2 md5 s' (LruSeq.run zeroKey q ops).1 := by
  induction ops generalizing s q with
  | nil => exact ⟨s, rfl, h⟩
  | cons op ops ih =>
    obtain ⟨s1, h1, hs1⟩ := step_sim2 md5 hmd5 s q op h (hops op List.mem_cons_self)
    obtain ⟨s2, h2, hs2⟩ := ih s1 _ hs1 (fun o ho => hops o (List.mem_cons_of_mem _ ho))
    exact ⟨s2, by simp only [LruPtr.run, h1, h2, LruSeq.run], hs2⟩


/-- an independent reader of header + array (`viewOf`, what `filecheck` prints) finds, under the
representation invariant: a terminating walk over exactly the slots `L`, every `prev` and
`mru_head` consistent, every unlinked slot empty and as many of them as `F`. -/
theorem viewOf_rep {s : Ptr} {L F : List Nat} (h : RepF s L F) (hdr : Header)
    (hh : hdr.head = s.header.head) (ht : hdr.tail = s.header.tail) :
    viewOf hdr s.entries = some { entries := s.cap, linked := L.map (keyAt s.entries), free := F.length,
                                  stale := 0, prevOk := true, headOk := true } := by
  obtain ⟨hw, hp, hhd⟩ := slots_rep h
  unfold Ptr.slots at hw
  have hnd := h.nodup
  rw [List.nodup_append] at hnd
  have hperm : F.Perm ((List.range s.entries.length).filter (fun i => !L.contains i)) := by
    have h1 := (h.slots.filter (fun i => !L.contains i))
    rw [List.filter_append] at h1
    have e1 : L.filter (fun i => !L.contains i) = [] := by
      rw [List.filter_eq_nil_iff]; intro a ha; simp [ha]
    have e2 : F.filter (fun i => !L.contains i) = F := by
      rw [List.filter_eq_self]; intro a ha
      have : a ∉ L := fun hL => hnd.2.2 a hL a ha rfl
      simp [this]
    rw [e1, e2, List.nil_append, ← h.len] at h1
    exact h1
  have hempty : ∀ i ∈ (List.range s.entries.length).filter (fun i => !L.contains i),
      emptyAt s.entries i = true := by
    intro i hi
    have hiF : i ∈ F := hperm.mem_iff.mpr hi
    unfold emptyAt
    rw [h.freeEmpty i hiF]; simp
  unfold viewOf
  rw [ht, hw]
  simp only [hp, hh, hhd, beq_self_eq_true]
  have e3 : ((List.range s.entries.length).filter (fun i => !L.contains i)).filter (emptyAt s.entries) =
      (List.range s.entries.length).filter (fun i => !L.contains i) := by
    rw [List.filter_eq_self]; exact hempty
  have e4 : ((List.range s.entries.length).filter (fun i => !L.contains i)).filter
      (fun i => !emptyAt s.entries i) = [] := by
    rw [List.filter_eq_nil_iff]; intro a ha; simp [hempty a ha]
  rw [e3, e4, ← hperm.length_eq, h.len]
  rfl

/-- the file `checkpoint_to_disk` writes from a state under the invariant, read back by the
independent reader: a well-formed list over `capacity` slots carrying the keys of the linked
slots in order, `free_list.len()` empty slots, no stale slot. -/
theorem fileView_checkpoint (md5 : Bytes → Bytes) (hmd5 : ∀ x, (md5 x).length = 16) (s : Ptr) (L : List Nat)
    (hr : Rep s L) (h9 : ∀ i ∈ L, (keyAt s.entries i).length = 9) :
    fileView md5 (checkpoint md5 s) =
      some (some { entries := s.cap, linked := L.map (keyAt s.entries), free := s.freeList.length,
                   stale := 0, prevOk := true, headOk := true }) := by
  have hl : Files.lookup (checkpoint md5 s).files s.gen = some (serialize md5 s.header s.entries) := by
    show Files.lookup (if s.prev ≠ 0 ∧ s.prev ≠ s.gen then
          Files.delete (Files.write s.files s.gen (serialize md5 s.header s.entries)) s.prev
          else Files.write s.files s.gen (serialize md5 s.header s.entries)) s.gen = _
    split
    · next hp => rw [Proofs.Lru.lookup_delete_ne _ _ _ hp.2]; exact Proofs.Lru.lookup_write_self _ _ _
    · exact Proofs.Lru.lookup_write_self _ _ _
  have hdec := (goodfile_decode md5 hmd5 s L hr h9).1
  unfold fileView
  have hg : (checkpoint md5 s).gen = s.gen := rfl
  rw [hg, hl]
  simp only [hdec]
  exact congrArg some (viewOf_rep hr _ rfl rfl)

end Cascette.Proofs.LruRefine
