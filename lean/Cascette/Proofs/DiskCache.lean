/-
Proofs/DiskCache — invariants of Model/DiskCache:
 * `DInv`    : index and directory have distinct keys, `count = |index|`, `bytes = Σ size`,
               every indexed key has its file (so the `Err` branch of `get` is unreachable);
               preserved by every operation INCLUDING `reopen`
 * `RefD`    : a file whose key is unindexed or indexed-unexpired holds the reference value;
               preserved by everything except a `reopen` that finds an expired entry still
               indexed (that is the finding disk-ttl-across-instances)
 * `Kept`    : a long-TTL value survives every operation that does not write/remove its key
 * `KeysEq`  : without `reopen`, directory and index hold the same keys
-/
import Cascette.Proofs.CacheAssoc
import Cascette.Model.DiskCache
namespace Cascette.Proofs.DiskCache
open Cascette.Spec.CacheMap (Key Val Ref)
open Cascette.Model.CacheAssoc Cascette.Model.DiskCache Cascette.Proofs.CacheAssoc
open Cascette.Spec

structure DInv (s : State) : Prop where
  nodupI : NoDup s.index
  nodupF : NoDup s.files
  count : s.count = (s.index.length : Int)
  bytes : s.bytes = (sumBy DEntry.size s.index : Int)
  backed : ∀ k e, lookup k s.index = some e → ∃ v, lookup k s.files = some v

theorem dinv_init : DInv init := ⟨trivial, trivial, rfl, rfl, fun _ _ h => by cases h⟩

/-- removing key `k` from index and directory together -/
theorem dinv_drop {s : State} {k : Key} {e : DEntry} (he : lookup k s.index = some e) (h : DInv s) :
    DInv { unindex s k e with files := erase k s.files } := by
  have h1 := length_erase h.nodupI he
  have h2 := sumBy_erase DEntry.size h.nodupI he
  refine ⟨nodup_erase h.nodupI, nodup_erase h.nodupF, ?_, ?_, ?_⟩
  · show s.count - 1 = ((erase k s.index).length : Int)
    rw [h.count]; omega
  · show s.bytes - (e.size : Int) = (sumBy DEntry.size (erase k s.index) : Int)
    rw [h.bytes]; omega
  · intro k' e' hl
    have hl : lookup k' (erase k s.index) = some e' := hl
    have hne : k' ≠ k := by
      intro heq; subst heq; rw [lookup_erase_self] at hl; cases hl
    rw [lookup_erase_ne hne] at hl
    obtain ⟨v, hv⟩ := h.backed k' e' hl
    exact ⟨v, by show lookup k' (erase k s.files) = some v; rw [lookup_erase_ne hne]; exact hv⟩

theorem dinv_unindex {s : State} {k : Key} {e : DEntry} (he : lookup k s.index = some e) (h : DInv s) :
    DInv (unindex s k e) := by
  have h1 := length_erase h.nodupI he
  have h2 := sumBy_erase DEntry.size h.nodupI he
  refine ⟨nodup_erase h.nodupI, h.nodupF, ?_, ?_, ?_⟩
  · show s.count - 1 = ((erase k s.index).length : Int)
    rw [h.count]; omega
  · show s.bytes - (e.size : Int) = (sumBy DEntry.size (erase k s.index) : Int)
    rw [h.bytes]; omega
  · intro k' e' hl
    exact h.backed k' e' (lookup_erase_some hl)

theorem dinv_get {s : State} (k : Key) (h : DInv s) : DInv (Model.DiskCache.get s k).1 := by
  unfold Model.DiskCache.get
  cases hi : lookup k s.index with
  | some e =>
    dsimp only
    by_cases hs : e.short = true
    · rw [if_pos hs]; exact dinv_drop hi h
    · rw [if_neg hs]
      cases hf : lookup k s.files with
      | some v => exact h
      | none => exact dinv_unindex hi h
  | none =>
    dsimp only
    cases hf : lookup k s.files with
    | none => exact h
    | some v =>
      dsimp only
      refine ⟨nodup_cons_erase _ h.nodupI, h.nodupF, ?_, ?_, ?_⟩
      · show s.count + 1 = (((k, _) :: erase k s.index).length : Int)
        rw [h.count, List.length_cons, erase_of_lookup_none hi]; omega
      · show s.bytes + (v.length : Int) = (sumBy DEntry.size ((k, { size := v.length, short := false }) :: erase k s.index) : Int)
        rw [sumBy_cons, h.bytes, erase_of_lookup_none hi]; dsimp only; omega
      · intro k' e' hl
        have hl : lookup k' ((k, { size := v.length, short := false }) :: erase k s.index) = some e' := hl
        by_cases hk : k' = k
        · subst hk; exact ⟨v, hf⟩
        · rw [lookup_cons_ne hk] at hl
          exact h.backed k' e' (lookup_erase_some hl)

theorem dinv_putCore {s : State} (k : Key) (v : Val) (short : Bool) (h : DInv s) :
    DInv (putCore s k v short) := by
  have hback : ∀ k' e', lookup k' ((k, ({ size := v.length, short := short } : DEntry)) :: erase k s.index) = some e' →
      ∃ v', lookup k' ((k, v) :: erase k s.files) = some v' := by
    intro k' e' hl
    by_cases hk : k' = k
    · subst hk; exact ⟨v, lookup_cons_self _ _ _⟩
    · rw [lookup_cons_ne hk] at hl
      obtain ⟨v', hv'⟩ := h.backed k' e' (lookup_erase_some hl)
      exact ⟨v', by rw [lookup_cons_ne hk, lookup_erase_ne hk]; exact hv'⟩
  unfold putCore
  cases hi : lookup k s.index with
  | some old =>
    dsimp only
    have h1 := length_erase h.nodupI hi
    have h2 := sumBy_erase DEntry.size h.nodupI hi
    refine ⟨nodup_cons_erase _ h.nodupI, nodup_cons_erase _ h.nodupF, ?_, ?_, hback⟩
    · show s.count = (((k, _) :: erase k s.index).length : Int)
      rw [h.count, List.length_cons]; omega
    · show (if v.length > old.size then s.bytes + ((v.length - old.size : Nat) : Int)
            else s.bytes - ((old.size - v.length : Nat) : Int))
          = (sumBy DEntry.size ((k, { size := v.length, short := short }) :: erase k s.index) : Int)
      rw [sumBy_cons, h.bytes]
      dsimp only
      split <;> omega
  | none =>
    dsimp only
    refine ⟨nodup_cons_erase _ h.nodupI, nodup_cons_erase _ h.nodupF, ?_, ?_, hback⟩
    · show s.count + 1 = (((k, _) :: erase k s.index).length : Int)
      rw [h.count, List.length_cons, erase_of_lookup_none hi]; omega
    · show s.bytes + (v.length : Int) = (sumBy DEntry.size ((k, { size := v.length, short := short }) :: erase k s.index) : Int)
      rw [sumBy_cons, h.bytes, erase_of_lookup_none hi]; dsimp only; omega

theorem dinv_remove {s : State} (k : Key) (h : DInv s) : DInv (remove s k).1 := by
  unfold remove
  cases hi : lookup k s.index with
  | some e => exact dinv_drop hi h
  | none =>
    dsimp only
    cases hf : lookup k s.files with
    | none => exact h
    | some v =>
      refine ⟨h.nodupI, nodup_erase h.nodupF, h.count, h.bytes, ?_⟩
      intro k' e' hl
      have hne : k' ≠ k := by
        intro heq; subst heq
        have hl : lookup k' s.index = some e' := hl
        rw [hi] at hl; cases hl
      obtain ⟨v', hv'⟩ := h.backed k' e' hl
      exact ⟨v', by show lookup k' (erase k s.files) = some v'; rw [lookup_erase_ne hne]; exact hv'⟩

theorem dinv_step (cfg : Config) {s : State} (op : Op) (h : DInv s) : DInv (step cfg s op).1 := by
  cases op with
  | put k v => exact dinv_putCore k v _ h
  | putTtl k v short => exact dinv_putCore k v short h
  | get k => exact dinv_get k h
  | contains k => exact h
  | remove k => exact dinv_remove k h
  | clear => exact dinv_init
  | size => exact h
  | stats => exact h
  | reopen => exact ⟨trivial, h.nodupF, rfl, rfl, fun _ _ hl => by cases hl⟩

theorem dinv_run (cfg : Config) (ops : List Op) : ∀ s, DInv s → DInv (run cfg s ops) := by
  induction ops with
  | nil => intro s h; exact h
  | cons op t ih => intro s h; exact ih _ (dinv_step cfg op h)

/-- with every indexed key backed by its file, `get` never takes the `Err` branch -/
theorem get_no_err {s : State} (k : Key) (h : DInv s) : (Model.DiskCache.get s k).2 ≠ .ioErr := by
  unfold Model.DiskCache.get
  cases hi : lookup k s.index with
  | some e =>
    dsimp only
    by_cases hs : e.short = true
    · rw [if_pos hs]; intro hc; cases hc
    · rw [if_neg hs]
      obtain ⟨v, hv⟩ := h.backed k e hi
      rw [hv]; intro hc; cases hc
  | none =>
    dsimp only
    cases hf : lookup k s.files with
    | none => intro hc; cases hc
    | some v => intro hc; cases hc

/-! ### reference map -/

/-- a file that `get` would serve (key unindexed, or indexed and unexpired) holds the reference
value of its key -/
def RefD (s : State) (r : Ref) : Prop :=
  ∀ k v, lookup k s.files = some v →
    match lookup k s.index with
    | some e => e.short = false → r k = some v
    | none => r k = some v

theorem refd_get_out {s : State} {r : Ref} (k : Key) (h : RefD s r) {v : Val}
    (hg : (Model.DiskCache.get s k).2 = .hit v) : r k = some v := by
  unfold Model.DiskCache.get at hg
  cases hi : lookup k s.index with
  | some e =>
    rw [hi] at hg
    dsimp only at hg
    by_cases hs : e.short = true
    · rw [if_pos hs] at hg; cases hg
    · rw [if_neg hs] at hg
      cases hf : lookup k s.files with
      | none => rw [hf] at hg; cases hg
      | some v' =>
        rw [hf] at hg
        cases hg
        have := h k v hf
        rw [hi] at this
        exact this (by simpa using hs)
  | none =>
    rw [hi] at hg
    dsimp only at hg
    cases hf : lookup k s.files with
    | none => rw [hf] at hg; cases hg
    | some v' =>
      rw [hf] at hg
      cases hg
      have := h k v hf
      rw [hi] at this
      exact this

theorem refd_putCore {s : State} {r : Ref} (k : Key) (v : Val) (short : Bool) (h : RefD s r) :
    RefD (putCore s k v short) (CacheMap.step r (.put k v (!short))) := by
  have hfiles : (putCore s k v short).files = (k, v) :: erase k s.files := by
    unfold putCore; split <;> rfl
  have hindex : (putCore s k v short).index = (k, { size := v.length, short := short }) :: erase k s.index := by
    unfold putCore; split <;> rfl
  intro k' v' hl
  rw [hfiles] at hl
  rw [hindex]
  unfold CacheMap.step
  by_cases hk : k' = k
  · subst hk
    rw [lookup_cons_self] at hl ⊢
    cases hl
    intro hs
    have hs : short = false := hs
    simp [hs]
  · rw [lookup_cons_ne hk, lookup_erase_ne hk] at hl
    rw [lookup_cons_ne hk, lookup_erase_ne hk]
    simp only [hk, if_false]
    exact h k' v' hl

/-- dropping key `k` from the directory (and possibly the index) keeps `RefD` for any reference
map that agrees with `r` away from `k` -/
theorem refd_drop {s : State} {r r' : Ref} (k : Key) (idx : Index) (h : RefD s r)
    (hidx : ∀ k', k' ≠ k → lookup k' idx = lookup k' s.index) (hr : ∀ k', k' ≠ k → r' k' = r k')
    (c b : Int) : RefD { index := idx, files := erase k s.files, count := c, bytes := b } r' := by
  intro k' v' hl
  have hl : lookup k' (erase k s.files) = some v' := hl
  have hne : k' ≠ k := by
    intro heq; subst heq; rw [lookup_erase_self] at hl; cases hl
  rw [lookup_erase_ne hne] at hl
  show match lookup k' idx with
    | some e => e.short = false → r' k' = some v'
    | none => r' k' = some v'
  rw [hidx k' hne, hr k' hne]
  exact h k' v' hl

theorem refd_get {s : State} {r : Ref} (k : Key) (h : RefD s r) : RefD (Model.DiskCache.get s k).1 r := by
  unfold Model.DiskCache.get
  cases hi : lookup k s.index with
  | some e =>
    dsimp only
    by_cases hs : e.short = true
    · rw [if_pos hs]
      exact refd_drop k (erase k s.index) h (fun k' hne => lookup_erase_ne hne _) (fun _ _ => rfl) _ _
    · rw [if_neg hs]
      cases hf : lookup k s.files with
      | some v => exact h
      | none =>
        intro k' v' hl0
        have hl : lookup k' s.files = some v' := hl0
        clear hl0
        have hne : k' ≠ k := by
          intro heq; subst heq; rw [hf] at hl; cases hl
        show match lookup k' (erase k s.index) with
          | some e => e.short = false → r k' = some v'
          | none => r k' = some v'
        rw [lookup_erase_ne hne]
        exact h k' v' hl
  | none =>
    dsimp only
    cases hf : lookup k s.files with
    | none => exact h
    | some v =>
      intro k' v' hl
      have hl : lookup k' s.files = some v' := hl
      show match lookup k' ((k, ({ size := v.length, short := false } : DEntry)) :: erase k s.index) with
        | some e => e.short = false → r k' = some v'
        | none => r k' = some v'
      by_cases hk : k' = k
      · subst hk
        rw [lookup_cons_self]
        intro _
        have := h k' v' hl
        rw [hi] at this
        exact this
      · rw [lookup_cons_ne hk, lookup_erase_ne hk]
        exact h k' v' hl

theorem refd_remove {s : State} {r : Ref} (k : Key) (h : RefD s r) :
    RefD (remove s k).1 (CacheMap.step r (.remove k)) := by
  have hr : ∀ k', k' ≠ k → CacheMap.step r (.remove k) k' = r k' := by
    intro k' hne; unfold CacheMap.step; simp only [hne, if_false]
  unfold remove
  cases hi : lookup k s.index with
  | some e =>
    exact refd_drop k (erase k s.index) h (fun k' hne => lookup_erase_ne hne _) hr _ _
  | none =>
    dsimp only
    cases hf : lookup k s.files with
    | some v => exact refd_drop k s.index h (fun _ _ => rfl) hr _ _
    | none =>
      intro k' v' hl
      have hl : lookup k' s.files = some v' := hl
      have hne : k' ≠ k := by
        intro heq; subst heq; rw [hf] at hl; cases hl
      rw [hr k' hne]
      exact h k' v' hl

/-- is it safe (for expiry) to drop the index now? no expired entry is still indexed -/
def noShort (s : State) : Bool := s.index.all (fun p => !p.2.short)

theorem noShort_lookup {s : State} (h : noShort s = true) {k : Key} {e : DEntry}
    (hl : lookup k s.index = some e) : e.short = false := by
  unfold noShort at h
  rw [List.all_eq_true] at h
  have := h (k, e) (mem_of_lookup hl)
  simpa using this

/-- the side condition under which the full statement holds: every `reopen` in the history
happens at a moment when no expired entry is still indexed. -/
def runSafe (cfg : Config) : State → List Op → Bool
  | _, [] => true
  | s, op :: ops => (!isReopen op || noShort s) && runSafe cfg (step cfg s op).1 ops

theorem refd_step (cfg : Config) {s : State} {r : Ref} (op : Op) (h : RefD s r)
    (hsafe : (!isReopen op || noShort s) = true) :
    RefD (step cfg s op).1 (CacheMap.step r (absOp cfg op)) := by
  cases op with
  | put k v => exact refd_putCore k v _ h
  | putTtl k v short => exact refd_putCore k v short h
  | get k => exact refd_get k h
  | contains k => exact h
  | remove k => exact refd_remove k h
  | clear => intro k v hl; cases hl
  | size => exact h
  | stats => exact h
  | reopen =>
    have hns : noShort s = true := by simpa [isReopen] using hsafe
    intro k v hl
    have hl : lookup k s.files = some v := hl
    show r k = some v
    have := h k v hl
    cases hi : lookup k s.index with
    | none => rw [hi] at this; exact this
    | some e => rw [hi] at this; exact this (noShort_lookup hns hi)

theorem refd_run (cfg : Config) (ops : List Op) : ∀ (s : State) (r : Ref), RefD s r →
    runSafe cfg s ops = true → RefD (run cfg s ops) (CacheMap.run r (ops.map (absOp cfg))) := by
  induction ops with
  | nil => intro s r h _; exact h
  | cons op t ih =>
    intro s r h hs
    unfold runSafe at hs
    simp only [Bool.and_eq_true] at hs
    exact ih _ _ (refd_step cfg op h hs.1) hs.2

theorem refd_init : RefD init CacheMap.empty := by
  intro k v hl; cases hl

/-- histories without `reopen` meet the side condition -/
theorem runSafe_of_no_reopen (cfg : Config) (ops : List Op) :
    ∀ s, (∀ op ∈ ops, isReopen op = false) → runSafe cfg s ops = true := by
  induction ops with
  | nil => intro _ _; rfl
  | cons op t ih =>
    intro s h
    unfold runSafe
    simp only [Bool.and_eq_true]
    refine ⟨?_, ih _ (fun o ho => h o (List.mem_cons_of_mem _ ho))⟩
    rw [h op List.mem_cons_self]; rfl

/-! ### never another key's value, never a replaced value — across any number of instances -/

def LastD (s : State) (r : Ref) : Prop := ∀ k v, lookup k s.files = some v → r k = some v

theorem last_step (cfg : Config) {s : State} {r : Ref} (op : Op) (h : LastD s r) :
    LastD (step cfg s op).1 (CacheMap.stepLastPut r (absOp cfg op)) := by
  have hput : ∀ k v short, LastD (putCore s k v short) (CacheMap.stepLastPut r (.put k v (!short))) := by
    intro k v short k' v' hl
    have hfiles : (putCore s k v short).files = (k, v) :: erase k s.files := by
      unfold putCore; split <;> rfl
    rw [hfiles] at hl
    unfold CacheMap.stepLastPut
    by_cases hk : k' = k
    · subst hk; rw [lookup_cons_self] at hl; cases hl; simp
    · rw [lookup_cons_ne hk, lookup_erase_ne hk] at hl
      simp only [hk, if_false]; exact h k' v' hl
  cases op with
  | put k v => exact hput k v _
  | putTtl k v short => exact hput k v short
  | get k =>
    intro k' v' hl
    have hl : lookup k' (Model.DiskCache.get s k).1.files = some v' := hl
    have : lookup k' s.files = some v' := by
      unfold Model.DiskCache.get at hl
      cases hi : lookup k s.index with
      | some e =>
        rw [hi] at hl; dsimp only at hl
        by_cases hs : e.short = true
        · rw [if_pos hs] at hl; exact lookup_erase_some hl
        · rw [if_neg hs] at hl
          cases hf : lookup k s.files with
          | some v => rw [hf] at hl; exact hl
          | none => rw [hf] at hl; exact hl
      | none =>
        rw [hi] at hl; dsimp only at hl
        cases hf : lookup k s.files with
        | some v => rw [hf] at hl; exact hl
        | none => rw [hf] at hl; exact hl
    exact h k' v' this
  | contains k => exact h
  | remove k =>
    intro k' v' hl
    have hl : lookup k' (remove s k).1.files = some v' := hl
    have : lookup k' s.files = some v' := by
      unfold remove at hl
      cases hi : lookup k s.index with
      | some e => rw [hi] at hl; exact lookup_erase_some hl
      | none =>
        rw [hi] at hl; dsimp only at hl
        cases hf : lookup k s.files with
        | some v => rw [hf] at hl; exact lookup_erase_some hl
        | none => rw [hf] at hl; exact hl
    exact h k' v' this
  | clear => intro k v hl; cases hl
  | size => exact h
  | stats => exact h
  | reopen => exact h

theorem last_run (cfg : Config) (ops : List Op) : ∀ (s : State) (r : Ref), LastD s r →
    LastD (run cfg s ops) (CacheMap.runLastPut r (ops.map (absOp cfg))) := by
  induction ops with
  | nil => intro s r h; exact h
  | cons op t ih => intro s r h; exact ih _ _ (last_step cfg op h)

theorem get_hit_file {s : State} {k : Key} {v : Val} (hg : (Model.DiskCache.get s k).2 = .hit v) :
    lookup k s.files = some v := by
  unfold Model.DiskCache.get at hg
  cases hi : lookup k s.index with
  | some e =>
    rw [hi] at hg; dsimp only at hg
    by_cases hs : e.short = true
    · rw [if_pos hs] at hg; cases hg
    · rw [if_neg hs] at hg
      cases hf : lookup k s.files with
      | none => rw [hf] at hg; cases hg
      | some v' => rw [hf] at hg; cases hg; rfl
  | none =>
    rw [hi] at hg; dsimp only at hg
    cases hf : lookup k s.files with
    | none => rw [hf] at hg; cases hg
    | some v' => rw [hf] at hg; cases hg; rfl

/-! ### survival -/

/-- key `k` has its file with value `v` and is not indexed as expired -/
def Kept (k : Key) (v : Val) (s : State) : Prop :=
  lookup k s.files = some v ∧ ∀ e, lookup k s.index = some e → e.short = false

theorem kept_get_out {k : Key} {v : Val} {s : State} (h : Kept k v s) : (Model.DiskCache.get s k).2 = .hit v := by
  obtain ⟨hf, hi⟩ := h
  unfold Model.DiskCache.get
  cases hx : lookup k s.index with
  | some e =>
    dsimp only
    have := hi e hx
    simp [this, hf]
  | none =>
    dsimp only
    rw [hf]

theorem kept_step (cfg : Config) {k : Key} {v : Val} {s : State} (op : Op) (h : Kept k v s)
    (ht : touches k op = false) : Kept k v (step cfg s op).1 := by
  obtain ⟨hf, hi⟩ := h
  have hput : ∀ k' v' short, k' ≠ k → Kept k v (putCore s k' v' short) := by
    intro k' v' short hne
    have hfiles : (putCore s k' v' short).files = (k', v') :: erase k' s.files := by
      unfold putCore; split <;> rfl
    have hindex : (putCore s k' v' short).index = (k', { size := v'.length, short := short }) :: erase k' s.index := by
      unfold putCore; split <;> rfl
    have hne' : k ≠ k' := fun h => hne h.symm
    refine ⟨?_, ?_⟩
    · rw [hfiles, lookup_cons_ne hne', lookup_erase_ne hne']; exact hf
    · intro e he
      rw [hindex, lookup_cons_ne hne', lookup_erase_ne hne'] at he
      exact hi e he
  cases op with
  | put k' v' =>
    have : k' ≠ k := by simpa [touches] using ht
    exact hput k' v' _ this
  | putTtl k' v' short =>
    have : k' ≠ k := by simpa [touches] using ht
    exact hput k' v' short this
  | get k' =>
    show Kept k v (Model.DiskCache.get s k').1
    by_cases hk : k = k'
    · subst hk
      unfold Model.DiskCache.get
      cases hx : lookup k s.index with
      | some e =>
        dsimp only
        have hs := hi e hx
        simp only [hs, Bool.false_eq_true, if_false, hf]
        exact ⟨hf, hi⟩
      | none =>
        dsimp only
        rw [hf]
        refine ⟨hf, ?_⟩
        intro e he
        have he : lookup k ((k, ({ size := v.length, short := false } : DEntry)) :: erase k s.index) = some e := he
        rw [lookup_cons_self] at he
        cases he; rfl
    · unfold Model.DiskCache.get
      cases hx : lookup k' s.index with
      | some e =>
        dsimp only
        by_cases hs : e.short = true
        · rw [if_pos hs]
          refine ⟨?_, ?_⟩
          · show lookup k (erase k' s.files) = some v
            rw [lookup_erase_ne hk]; exact hf
          · intro e' he
            have he : lookup k (erase k' s.index) = some e' := he
            rw [lookup_erase_ne hk] at he; exact hi e' he
        · rw [if_neg hs]
          cases hf' : lookup k' s.files with
          | some v' => exact ⟨hf, hi⟩
          | none =>
            refine ⟨hf, ?_⟩
            intro e' he
            have he : lookup k (erase k' s.index) = some e' := he
            rw [lookup_erase_ne hk] at he; exact hi e' he
      | none =>
        dsimp only
        cases hf' : lookup k' s.files with
        | none => exact ⟨hf, hi⟩
        | some v' =>
          refine ⟨hf, ?_⟩
          intro e' he
          have he : lookup k ((k', ({ size := v'.length, short := false } : DEntry)) :: erase k' s.index) = some e' := he
          rw [lookup_cons_ne hk, lookup_erase_ne hk] at he; exact hi e' he
  | contains k' => exact ⟨hf, hi⟩
  | remove k' =>
    have hne : k' ≠ k := by simpa [touches] using ht
    have hk : k ≠ k' := fun h => hne h.symm
    show Kept k v (remove s k').1
    unfold remove
    cases hx : lookup k' s.index with
    | some e =>
      refine ⟨?_, ?_⟩
      · show lookup k (erase k' s.files) = some v
        rw [lookup_erase_ne hk]; exact hf
      · intro e' he
        have he : lookup k (erase k' s.index) = some e' := he
        rw [lookup_erase_ne hk] at he; exact hi e' he
    | none =>
      dsimp only
      cases hf' : lookup k' s.files with
      | none => exact ⟨hf, hi⟩
      | some v' =>
        refine ⟨?_, hi⟩
        show lookup k (erase k' s.files) = some v
        rw [lookup_erase_ne hk]; exact hf
  | clear => simp [touches] at ht
  | size => exact ⟨hf, hi⟩
  | stats => exact ⟨hf, hi⟩
  | reopen => exact ⟨hf, fun e he => by cases he⟩

theorem kept_run (cfg : Config) {k : Key} {v : Val} (ops : List Op) : ∀ s, Kept k v s →
    (∀ op ∈ ops, touches k op = false) → Kept k v (run cfg s ops) := by
  induction ops with
  | nil => intro s h _; exact h
  | cons op t ih =>
    intro s h ht
    exact ih _ (kept_step cfg op h (ht op List.mem_cons_self)) (fun o ho => ht o (List.mem_cons_of_mem _ ho))

theorem kept_putCore (s : State) (k : Key) (v : Val) : Kept k v (putCore s k v false) := by
  have hfiles : (putCore s k v false).files = (k, v) :: erase k s.files := by
    unfold putCore; split <;> rfl
  have hindex : (putCore s k v false).index = (k, { size := v.length, short := false }) :: erase k s.index := by
    unfold putCore; split <;> rfl
  refine ⟨by rw [hfiles, lookup_cons_self], ?_⟩
  intro e he
  rw [hindex, lookup_cons_self] at he
  cases he; rfl

/-! ### one instance: directory and index hold the same keys -/

def KeysEq (s : State) : Prop := s.files.map Prod.fst = s.index.map Prod.fst

theorem keys_erase {α : Type} (k : Key) (l : List (Key × α)) :
    (erase k l).map Prod.fst = (l.map Prod.fst).filter (fun x => !(x == k)) := by
  induction l with
  | nil => rfl
  | cons p t ih =>
    obtain ⟨k2, e2⟩ := p
    unfold erase
    by_cases hk : k2 = k
    · simp [hk, ih]
    · simp [hk, ih]

theorem lookup_none_iff {α : Type} (k : Key) (l : List (Key × α)) :
    lookup k l = none ↔ k ∉ l.map Prod.fst := by
  induction l with
  | nil => simp [lookup]
  | cons p t ih =>
    obtain ⟨k2, e2⟩ := p
    unfold lookup
    by_cases hk : k2 = k
    · simp [hk]
    · have : ¬ k = k2 := fun h => hk h.symm
      simp [hk, this, ih]

theorem keysEq_lookup {s : State} (h : KeysEq s) (k : Key) :
    lookup k s.files = none ↔ lookup k s.index = none := by
  rw [lookup_none_iff, lookup_none_iff, h]

theorem keysEq_drop {s : State} (k : Key) (h : KeysEq s) (c b : Int) :
    KeysEq { index := erase k s.index, files := erase k s.files, count := c, bytes := b } := by
  show (erase k s.files).map Prod.fst = (erase k s.index).map Prod.fst
  rw [keys_erase, keys_erase, h]

theorem keysEq_step (cfg : Config) {s : State} (op : Op) (h : KeysEq s) (hr : isReopen op = false) :
    KeysEq (step cfg s op).1 := by
  have hput : ∀ k v short, KeysEq (putCore s k v short) := by
    intro k v short
    have hfiles : (putCore s k v short).files = (k, v) :: erase k s.files := by
      unfold putCore; split <;> rfl
    have hindex : (putCore s k v short).index = (k, { size := v.length, short := short }) :: erase k s.index := by
      unfold putCore; split <;> rfl
    show (putCore s k v short).files.map Prod.fst = (putCore s k v short).index.map Prod.fst
    rw [hfiles, hindex, List.map_cons, List.map_cons, keys_erase, keys_erase, h]
  cases op with
  | put k v => exact hput k v _
  | putTtl k v short => exact hput k v short
  | get k =>
    show KeysEq (Model.DiskCache.get s k).1
    unfold Model.DiskCache.get
    cases hi : lookup k s.index with
    | some e =>
      dsimp only
      by_cases hs : e.short = true
      · rw [if_pos hs]; exact keysEq_drop k h _ _
      · rw [if_neg hs]
        cases hf : lookup k s.files with
        | some v => exact h
        | none => rw [(keysEq_lookup h k).mp hf] at hi; cases hi
    | none =>
      dsimp only
      rw [(keysEq_lookup h k).mpr hi]
      exact h
  | contains k => exact h
  | remove k =>
    show KeysEq (remove s k).1
    unfold remove
    cases hi : lookup k s.index with
    | some e => exact keysEq_drop k h _ _
    | none =>
      dsimp only
      rw [(keysEq_lookup h k).mpr hi]
      exact h
  | clear => rfl
  | size => exact h
  | stats => exact h
  | reopen => cases hr

theorem keysEq_run (cfg : Config) (ops : List Op) : ∀ s, KeysEq s →
    (∀ op ∈ ops, isReopen op = false) → KeysEq (run cfg s ops) := by
  induction ops with
  | nil => intro s h _; exact h
  | cons op t ih =>
    intro s h hr
    exact ih _ (keysEq_step cfg op h (hr op List.mem_cons_self)) (fun o ho => hr o (List.mem_cons_of_mem _ ho))

end Cascette.Proofs.DiskCache
