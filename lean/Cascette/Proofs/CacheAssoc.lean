/-
Proofs/CacheAssoc — lemmas about the association lists (`lookup`, `erase`, `sumBy`) that stand
for DashMap / HashMap / the cache directory in Model/MemCache and Model/DiskCache.
-/
import Cascette.Model.MemCache
namespace Cascette.Proofs.CacheAssoc
open Cascette.Spec.CacheMap (Key)
open Cascette.Model.CacheAssoc

/-- keys pairwise distinct -/
def NoDup {α : Type} : List (Key × α) → Prop
  | [] => True
  | (k, _) :: t => lookup k t = none ∧ NoDup t

variable {α : Type}

theorem lookup_erase_self (k : Key) (l : List (Key × α)) : lookup k (erase k l) = none := by
  induction l with
  | nil => rfl
  | cons p t ih =>
    obtain ⟨k', e⟩ := p
    unfold erase
    by_cases h : k' = k
    · simp only [h, if_true]; exact ih
    · simp only [h, if_false]; unfold lookup; simp only [h, if_false]; exact ih

theorem lookup_erase_ne {k k' : Key} (hne : k' ≠ k) (l : List (Key × α)) :
    lookup k' (erase k l) = lookup k' l := by
  induction l with
  | nil => rfl
  | cons p t ih =>
    obtain ⟨k2, e⟩ := p
    unfold erase
    by_cases h : k2 = k
    · simp only [h, if_true]
      rw [ih]
      have : ¬ k = k' := fun h' => hne h'.symm
      conv => rhs; unfold lookup
      simp only [this, if_false]
    · simp only [h, if_false]
      unfold lookup
      by_cases h2 : k2 = k'
      · simp only [h2, if_true]
      · simp only [h2, if_false]; exact ih

theorem erase_of_lookup_none {k : Key} {l : List (Key × α)} (h : lookup k l = none) : erase k l = l := by
  induction l with
  | nil => rfl
  | cons p t ih =>
    obtain ⟨k2, e⟩ := p
    unfold lookup at h
    by_cases h2 : k2 = k
    · simp only [h2, if_true] at h; cases h
    · simp only [h2, if_false] at h
      unfold erase
      simp only [h2, if_false, ih h]

/-- removal never creates a binding -/
theorem lookup_erase_some {k k' : Key} {l : List (Key × α)} {e : α}
    (h : lookup k' (erase k l) = some e) : lookup k' l = some e := by
  by_cases hk : k' = k
  · subst hk; rw [lookup_erase_self] at h; cases h
  · rwa [lookup_erase_ne hk] at h

theorem nodup_erase {k : Key} {l : List (Key × α)} (h : NoDup l) : NoDup (erase k l) := by
  induction l with
  | nil => trivial
  | cons p t ih =>
    obtain ⟨k2, e⟩ := p
    obtain ⟨h1, h2⟩ := h
    unfold erase
    by_cases hk : k2 = k
    · simp only [hk, if_true]; exact ih h2
    · simp only [hk, if_false]
      refine ⟨?_, ih h2⟩
      rw [lookup_erase_ne hk]; exact h1

theorem nodup_cons_erase {k : Key} {l : List (Key × α)} (e : α) (h : NoDup l) :
    NoDup ((k, e) :: erase k l) := ⟨lookup_erase_self k l, nodup_erase h⟩

theorem length_erase {k : Key} {l : List (Key × α)} {e : α} (hn : NoDup l) (h : lookup k l = some e) :
    (erase k l).length + 1 = l.length := by
  induction l with
  | nil => cases h
  | cons p t ih =>
    obtain ⟨k2, e2⟩ := p
    obtain ⟨h1, h2⟩ := hn
    unfold lookup at h
    unfold erase
    by_cases hk : k2 = k
    · subst hk
      simp only [if_true]
      rw [erase_of_lookup_none h1]; rfl
    · simp only [hk, if_false] at h ⊢
      simp only [List.length_cons]
      rw [ih h2 h]

theorem sumBy_cons (f : α → Nat) (k : Key) (e : α) (t : List (Key × α)) :
    sumBy f ((k, e) :: t) = f e + sumBy f t := rfl

theorem sumBy_erase (f : α → Nat) {k : Key} {l : List (Key × α)} {e : α} (hn : NoDup l)
    (h : lookup k l = some e) : sumBy f (erase k l) + f e = sumBy f l := by
  induction l with
  | nil => cases h
  | cons p t ih =>
    obtain ⟨k2, e2⟩ := p
    obtain ⟨h1, h2⟩ := hn
    unfold lookup at h
    unfold erase
    by_cases hk : k2 = k
    · subst hk
      simp only [if_true] at h ⊢
      cases h
      rw [erase_of_lookup_none h1, sumBy_cons]; omega
    · simp only [hk, if_false] at h ⊢
      rw [sumBy_cons, sumBy_cons]
      have := ih h2 h
      omega

theorem lookup_cons_self (k : Key) (e : α) (l : List (Key × α)) : lookup k ((k, e) :: l) = some e := by
  unfold lookup; simp only [if_true]

theorem lookup_cons_ne {k k' : Key} (h : k' ≠ k) (e : α) (l : List (Key × α)) :
    lookup k' ((k, e) :: l) = lookup k' l := by
  have : ¬ k = k' := fun h' => h h'.symm
  conv => lhs; unfold lookup
  simp only [this, if_false]

/-- every binding is found by `lookup` when keys are distinct -/
theorem lookup_of_mem {l : List (Key × α)} {k : Key} {e : α} (hn : NoDup l) (h : (k, e) ∈ l) :
    lookup k l = some e := by
  induction l with
  | nil => cases h
  | cons p t ih =>
    obtain ⟨k2, e2⟩ := p
    obtain ⟨h1, h2⟩ := hn
    rcases List.mem_cons.mp h with heq | hmem
    · cases heq; exact lookup_cons_self _ _ _
    · have := ih h2 hmem
      by_cases hk : k = k2
      · subst hk; rw [h1] at this; cases this
      · rw [lookup_cons_ne hk]; exact this

theorem mem_of_lookup {l : List (Key × α)} {k : Key} {e : α} (h : lookup k l = some e) : (k, e) ∈ l := by
  induction l with
  | nil => cases h
  | cons p t ih =>
    obtain ⟨k2, e2⟩ := p
    unfold lookup at h
    by_cases hk : k2 = k
    · simp only [hk, if_true] at h; cases h; subst hk; exact List.mem_cons_self
    · simp only [hk, if_false] at h; exact List.mem_cons_of_mem _ (ih h)

end Cascette.Proofs.CacheAssoc
