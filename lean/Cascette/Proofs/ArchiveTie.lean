/-
Proofs/ArchiveTie — the hand-written local-storage model (Model/Archive, Model/Container, and the
offset field of Model/Lsm) computes with exactly the constants and predicates that
lib/rs2lean_archive.py extracts from the CURRENT Rust source
(lean/Cascette/Generated/ArchiveSrc.lean, regenerated on every `./check C04`).

If someone changes `LOCAL_HEADER_SIZE`, a field range or byte order of `LocalHeader::to_bytes`, the
checksum seed / lengths / lane mask, `MAX_ARCHIVE_SIZE`, the 100 MiB reserve, a `u32::try_from`,
the remap condition of `write_to_archive`, the way `create_archive` opens the file, the bounds
test of `read_raw`, a BLTE sniff of `read_content`, the `save_all` of `Installation::write_file`
or the 30-bit offset mask of an `.idx` record in /repo, the generated file changes and one of
these theorems stops checking.
-/
import Cascette.Generated.ArchiveSrc
import Cascette.Proofs.Container
namespace Cascette.Proofs.ArchiveTie
open Cascette Cascette.Model Cascette.Model.Archive
open Cascette.Generated

/-- `LOCAL_HEADER_SIZE` -/
theorem header_size_tie : headerSize = ArchiveSrc.local_header_size := by decide

/-- `MAX_ARCHIVE_SIZE` and the reserve of `select_archive_for_write` -/
theorem archive_limits_tie :
    maxArchive = ArchiveSrc.max_archive_size ∧ writeReserve = ArchiveSrc.write_reserve := by decide

/-- the remap condition of `write_to_archive` is the rule the model (and its driver) uses, hence
it satisfies the law the history theorems need. -/
theorem remap_tie (o n : Nat) : remapFixed o n = ArchiveSrc.remap o n := rfl

theorem remap_src_remapsOnChange (P : Params) (h : P.remap = ArchiveSrc.remap) :
    Cascette.Proofs.Archive.RemapsOnChange P :=
  Cascette.Proofs.Archive.remapFixed_ok P (by rw [h]; funext o n; exact (remap_tie o n).symm)

/-- `create_archive`: an existing data file keeps its content. -/
theorem create_tie : keepOnCreateNow = ArchiveSrc.create_keeps_existing := rfl

/-- `Installation::write_file` saves the index exactly when the source does. -/
theorem write_file_tie (P : Params) (cfg : Lsm.Cfg) (s : Container.IState) (op : Container.IOp) :
    Container.istep P cfg s op = Container.istepWith ArchiveSrc.write_file_saves_index P cfg s op := rfl

/-- the bounds test of `read_raw`. -/
theorem read_bounds_tie (s : State) (o : Open) (file : Bytes) (ho : s.opn = some o)
    (hf : s.disk = some file) (off size : Nat) :
    (∃ b, readRaw s 0 off size = .ok b) ↔ ArchiveSrc.read_out_of_bounds off size o.mapped = false := by
  rw [Cascette.Proofs.Archive.readRaw_ok_iff s o file ho hf off size]
  simp only [ArchiveSrc.read_out_of_bounds, decide_eq_false_iff_not]
  omega

/-- the two BLTE sniffs of `read_content`: at `LOCAL_HEADER_SIZE`, else at 0, else raw. -/
theorem sniff_tie (P : Params) (s : State) (id off size : Nat) :
    readContent P s id off size =
      match readRaw s id off size with
      | .error e => .error e
      | .ok data =>
        if data.length ≥ ArchiveSrc.sniff_offset + ArchiveSrc.sniff_len ∧
            (data.drop ArchiveSrc.sniff_offset).take ArchiveSrc.sniff_len =
              ArchiveSrc.sniff_magic.map (BitVec.ofNat 8) then
          decompressBlte P.cd (data.drop ArchiveSrc.sniff_offset)
        else if data.length ≥ ArchiveSrc.sniff_len ∧
            (data.drop ArchiveSrc.sniff_direct_offset).take ArchiveSrc.sniff_len =
              ArchiveSrc.sniff_magic.map (BitVec.ofNat 8) then decompressBlte P.cd data
        else .ok data := by
  have hm : Blte.magic = ArchiveSrc.sniff_magic.map (BitVec.ofNat 8) := by decide
  unfold readContent
  rw [hm]
  rfl

/-- the size / offset limits of `write_content_with_mode`, in the order the code applies them. -/
theorem placeAt_tie (pos n : Nat) :
    placeAt pos n =
      if n ≥ 2 ^ ArchiveSrc.size_type_bits then .error .tooLarge
      else if ArchiveSrc.local_header_size + n ≥ 2 ^ ArchiveSrc.size_type_bits then .error .tooLarge
      else if pos ≥ ArchiveSrc.max_archive_size - ArchiveSrc.write_reserve then .error .rollover
      else if ArchiveSrc.exceeds_max pos (ArchiveSrc.local_header_size + n) = true then .error .tooLarge
      else if pos ≥ 2 ^ ArchiveSrc.offset_type_bits then .error .tooLarge
      else .ok (pos, ArchiveSrc.local_header_size + n) := by
  unfold placeAt ArchiveSrc.exceeds_max
  simp only [decide_eq_true_eq]
  rfl

/-- the late offset check comes after the write: the model advances the position there. -/
theorem offset_check_order_tie : ArchiveSrc.offset_checked_after_write = true ∧
    placeAtWrites (2 ^ ArchiveSrc.offset_type_bits) 0 = true := by decide

/-! ### local header -/

/-- the 30-byte header assembled from the generated field table. -/
def localHeaderG (key : Bytes) (blteSize offset : Nat) : Bytes :=
  let h22 := (if ArchiveSrc.key_reversed then key.reverse else key) ++
    Blte.beBytes (ArchiveSrc.field_size_with_header.2 - ArchiveSrc.field_size_with_header.1)
      (ArchiveSrc.size_with_header blteSize) ++
    List.replicate (ArchiveSrc.field_flags.2 - ArchiveSrc.field_flags.1) (BitVec.ofNat 8 ArchiveSrc.flags)
  let h26 := h22 ++ toLe32 (Jenkins.hashlittle h22 (BitVec.ofNat 32 ArchiveSrc.checksum_a_seed))
  h26 ++ checksumB offset h26

/-- `LocalHeader::new(..).to_bytes()` of the model = the header assembled from the source's field
ranges, byte orders, seed and `size_with_header` expression. -/
theorem localHeader_tie (key : Bytes) (blteSize offset : Nat) :
    localHeader key blteSize offset = localHeaderG key blteSize offset := by
  have e : blteSize + headerSize = ArchiveSrc.size_with_header blteSize := rfl
  unfold localHeader localHeaderG
  rw [e]
  rfl

/-- the field table is the layout the model assumes: key 16 bytes from 0, size big-endian, the
three little-endian fields, contiguous up to `LOCAL_HEADER_SIZE`; checksum A covers everything
before itself, checksum B everything before itself; lanes are `& 3` = `% 4`. -/
theorem layout_tie :
    ArchiveSrc.field_encoding_key = (0, 16) ∧
    ArchiveSrc.field_encoding_key.2 = ArchiveSrc.field_size_with_header.1 ∧
    ArchiveSrc.field_size_with_header.2 = ArchiveSrc.field_flags.1 ∧
    ArchiveSrc.field_flags.2 = ArchiveSrc.field_checksum_a.1 ∧
    ArchiveSrc.field_checksum_a.2 = ArchiveSrc.field_checksum_b.1 ∧
    ArchiveSrc.field_checksum_b.2 = ArchiveSrc.local_header_size ∧
    ArchiveSrc.field_checksum_a.2 - ArchiveSrc.field_checksum_a.1 = 4 ∧
    ArchiveSrc.field_checksum_b.2 - ArchiveSrc.field_checksum_b.1 = 4 ∧
    ArchiveSrc.checksum_a_len = ArchiveSrc.field_checksum_a.1 ∧
    ArchiveSrc.checksum_b_len = ArchiveSrc.field_checksum_b.1 ∧
    ArchiveSrc.size_with_header_big_endian = true ∧ ArchiveSrc.flags_big_endian = false ∧
    ArchiveSrc.checksum_a_big_endian = false ∧ ArchiveSrc.checksum_b_big_endian = false ∧
    ArchiveSrc.checksum_b_lane_mask + 1 = 4 := by decide

/-- for a 16-byte key (`[u8; 16]`) the model's header has `LOCAL_HEADER_SIZE` bytes, its checksum
A is over the first `checksum_a_len` bytes and its checksum B over the first `checksum_b_len`. -/
theorem localHeader_shape (key : Bytes) (hk : key.length = 16) (blteSize offset : Nat) :
    (localHeader key blteSize offset).length = ArchiveSrc.local_header_size ∧
    (localHeader key blteSize offset).take 16 = key.reverse ∧
    ((localHeader key blteSize offset).drop ArchiveSrc.field_checksum_a.1).take 4 =
      toLe32 (Jenkins.hashlittle ((localHeader key blteSize offset).take ArchiveSrc.checksum_a_len)
        (BitVec.ofNat 32 ArchiveSrc.checksum_a_seed)) ∧
    (localHeader key blteSize offset).drop ArchiveSrc.field_checksum_b.1 =
      checksumB offset ((localHeader key blteSize offset).take ArchiveSrc.checksum_b_len) := by
  have hb : (Blte.beBytes 4 (blteSize + headerSize)).length = 4 := Cascette.Proofs.Blte.beBytes_length _ _
  have hr : key.reverse.length = 16 := by rw [List.length_reverse, hk]
  have h22 : (key.reverse ++ Blte.beBytes 4 (blteSize + headerSize) ++ [0, 0]).length = 22 := by
    simp only [List.length_append, hr, hb, List.length_cons, List.length_nil]
  have h26 : ∀ w : W32, ((key.reverse ++ Blte.beBytes 4 (blteSize + headerSize) ++ [0, 0]) ++ toLe32 w).length = 26 := by
    intro w; rw [List.length_append, h22]; rfl
  unfold localHeader
  simp only
  refine ⟨?_, ?_, ?_, ?_⟩
  · rw [List.length_append, h26]; rfl
  · rw [List.append_assoc, List.append_assoc, List.append_assoc, List.take_left' hr]
  · show List.take 4 (List.drop 22 (_ ++ _)) = toLe32 (Jenkins.hashlittle (List.take 22 (_ ++ _)) _)
    rw [List.append_assoc _ (toLe32 _), List.drop_left' h22, List.take_left' h22]
    rw [List.take_left' (by rfl)]
    rfl
  · show List.drop 26 (_ ++ _) = checksumB offset (List.take 26 (_ ++ _))
    rw [List.drop_left' (h26 _), List.take_left' (h26 _)]

/-! ### the offset field of an `.idx` record -/

/-- `Lsm.packLoc` keeps `off % 2^30`: the source's `offset & 0x3FFF_FFFF` below `<< 30`. -/
theorem idx_offset_tie (off : Nat) :
    off % 2 ^ 30 = off &&& ArchiveSrc.idx_offset_mask ∧
      2 ^ ArchiveSrc.idx_offset_bits = ArchiveSrc.idx_offset_mask + 1 := by
  refine ⟨?_, by decide⟩
  have : ArchiveSrc.idx_offset_mask = 2 ^ 30 - 1 := by decide
  rw [this, Nat.and_two_pow_sub_one_eq_mod]

end Cascette.Proofs.ArchiveTie
