/-
Proofs/CacheExt — lemmas for the C10 extension (Model/CacheExt):
 * `detVictims_ok`       the victims the model computes (`ev=auto`) are victims the policy allows
 * extended memory model: invariants through cleanup ticks and metrics, what a cleanup tick removes,
                         count bound, caller-level histories (`elabRun_ok`)
 * disk: `Dead` — a key put with an ended TTL stays unservable on that instance whatever else happens
 * disk metrics
-/
import Cascette.Proofs.MemCache
import Cascette.Proofs.DiskCache
import Cascette.Model.CacheExt
namespace Cascette.Proofs.CacheExt
open Cascette.Spec.CacheMap (Key Val Ref)
open Cascette.Model.CacheAssoc Cascette.Model.MemCache Cascette.Proofs.CacheAssoc
open Cascette.Proofs.MemCache
open Cascette.Spec

/-! ### `detVictims` is a choice the policy allows -/

theorem insertBy_perm (p : Policy) (x : Key × Entry) (l : Store) : (insertBy p x l).Perm (x :: l) := by
  induction l with
  | nil => exact List.Perm.refl _
  | cons y t ih =>
    unfold insertBy
    split
    · exact List.Perm.refl _
    · exact (List.Perm.cons y ih).trans (List.Perm.swap x y t)

theorem sortBy_perm (p : Policy) (l : Store) : (sortBy p l).Perm l := by
  induction l with
  | nil => exact List.Perm.refl _
  | cons x t ih =>
    unfold sortBy
    exact (insertBy_perm p x _).trans (List.Perm.cons x ih)

def Sorted (p : Policy) (l : Store) : Prop := l.Pairwise (fun a b => metric p a.2 ≤ metric p b.2)

theorem insertBy_sorted (p : Policy) (x : Key × Entry) (l : Store) (h : Sorted p l) : Sorted p (insertBy p x l) := by
  induction l with
  | nil => exact List.pairwise_singleton _ _
  | cons y t ih =>
    unfold insertBy
    obtain ⟨hy, ht⟩ := List.pairwise_cons.mp h
    split
    · rename_i hlt
      refine List.pairwise_cons.mpr ⟨?_, h⟩
      intro b hb
      rcases List.mem_cons.mp hb with rfl | hb
      · omega
      · have := hy b hb; omega
    · rename_i hnlt
      refine List.pairwise_cons.mpr ⟨?_, ih ht⟩
      intro b hb
      have := (insertBy_perm p x t).mem_iff.mp hb
      rcases List.mem_cons.mp this with rfl | hb
      · omega
      · exact hy b hb

theorem sortBy_sorted (p : Policy) (l : Store) : Sorted p (sortBy p l) := by
  induction l with
  | nil => exact List.Pairwise.nil
  | cons x t ih => unfold sortBy; exact insertBy_sorted p x _ ih

/-- keys pairwise distinct, as a `Pairwise` fact (so that it moves along permutations) -/
theorem nodup_iff_pairwise {α : Type} (l : List (Key × α)) : NoDup l ↔ l.Pairwise (fun a b => a.1 ≠ b.1) := by
  induction l with
  | nil => exact ⟨fun _ => List.Pairwise.nil, fun _ => trivial⟩
  | cons x t ih =>
    obtain ⟨k, e⟩ := x
    constructor
    · rintro ⟨h1, h2⟩
      refine List.pairwise_cons.mpr ⟨?_, ih.mp h2⟩
      intro b hb heq
      have heq' : k = b.1 := heq
      have : lookup k t = some b.2 := lookup_of_mem h2 (by rw [heq']; exact hb)
      rw [h1] at this; cases this
    · intro h
      obtain ⟨h1, h2⟩ := List.pairwise_cons.mp h
      refine ⟨?_, ih.mpr h2⟩
      cases hl : lookup k t with
      | none => rfl
      | some e' => exact absurd rfl (h1 (k, e') (mem_of_lookup hl))

theorem nodup_perm {α : Type} {l l' : List (Key × α)} (hp : l.Perm l') (h : NoDup l) : NoDup l' := by
  rw [nodup_iff_pairwise] at h ⊢
  exact hp.pairwise h (fun hab => fun heq => hab heq.symm)

theorem distinct_iff (vs : List Key) : distinct vs = true ↔ vs.Pairwise (· ≠ ·) := by
  induction vs with
  | nil => exact ⟨fun _ => List.Pairwise.nil, fun _ => rfl⟩
  | cons a t ih =>
    unfold distinct
    simp only [Bool.and_eq_true, Bool.not_eq_true', List.contains_eq_mem, decide_eq_false_iff_not,
      List.pairwise_cons, ih]
    constructor
    · rintro ⟨h1, h2⟩; exact ⟨fun b hb heq => h1 (heq ▸ hb), h2⟩
    · rintro ⟨h1, h2⟩; exact ⟨fun hm => h1 a hm rfl, h2⟩

/-- **the victims the model computes are victims the policy allows**, for every policy, every
store with distinct keys and every requested number — ties included (the insertion sort is one
of the stable sorts of one of the iteration orders). -/
theorem detVictims_ok (p : Policy) (st : Store) (n : Nat) (hn : NoDup st) :
    victimsOk p st n (detVictims p st n) = true := by
  have hperm := sortBy_perm p st
  have hsorted := sortBy_sorted p st
  have hnd : NoDup (sortBy p st) := nodup_perm hperm.symm hn
  have hsplit : (sortBy p st).take n ++ (sortBy p st).drop n = sortBy p st := List.take_append_drop n _
  have hmemtake : ∀ x, x ∈ (sortBy p st).take n → x ∈ st := fun x hx =>
    hperm.mem_iff.mp (List.mem_of_mem_take hx)
  have hlook : ∀ x, x ∈ (sortBy p st).take n → lookup x.1 st = some x.2 := fun x hx =>
    lookup_of_mem hn (hmemtake x hx)
  unfold victimsOk detVictims
  simp only [Bool.and_eq_true, List.all_eq_true, beq_iff_eq, Bool.or_eq_true, List.contains_eq_mem,
    decide_eq_true_eq, List.mem_map, forall_exists_index, and_imp, forall_apply_eq_imp_iff₂]
  refine ⟨⟨⟨?_, ?_⟩, ?_⟩, ?_⟩
  · rw [distinct_iff]
    have h1 : ((sortBy p st).take n).Pairwise (fun a b => a.1 ≠ b.1) :=
      ((nodup_iff_pairwise _).mp hnd).sublist (List.take_sublist n _)
    exact List.pairwise_map.mpr h1
  · intro x hx; rw [hlook x hx]; rfl
  · rw [List.length_map, List.length_take, hperm.length_eq]
  · intro q hq
    have hq' : q ∈ (sortBy p st).take n ++ (sortBy p st).drop n := by rw [hsplit]; exact hperm.mem_iff.mpr hq
    rcases List.mem_append.mp hq' with hq1 | hq2
    · left; exact ⟨q, hq1, rfl⟩
    · right
      intro x hx
      rw [hlook x hx]
      have hpw : ((sortBy p st).take n ++ (sortBy p st).drop n).Pairwise (fun a b => metric p a.2 ≤ metric p b.2) := by
        rw [hsplit]; exact hsorted
      have := (List.pairwise_append.mp hpw).2.2 x hx q hq2
      simpa using this

/-! ### the extended in-memory model: metrics, cleanup task, caller-level operations -/
section MemX
open Cascette.Model.CacheExt Cascette.Model.CacheExt.Mem

theorem xstep_base_s (cfg : Config) (x : XState) (op : Op) :
    (xstep cfg x (.base op)).1.s = (step cfg x.s op).1 := by
  cases op <;> rfl

theorem xstep_cleanup_s (cfg : Config) (x : XState) : (xstep cfg x .cleanup).1.s = cleanupTick x.s := rfl

theorem inv_cleanupTick {s : State} (h : Inv s) : Inv (cleanupTick s) := inv_evictKeys _ _ h

theorem inv_xstep (cfg : Config) {x : XState} (op : XOp) (h : Inv x.s) : Inv (xstep cfg x op).1.s := by
  cases op with
  | base op => rw [xstep_base_s]; exact inv_step cfg op h
  | cleanup => exact inv_cleanupTick h

theorem inv_xrun (cfg : Config) (ops : List XOp) : ∀ x : XState, Inv x.s → Inv (xrun cfg x ops).s := by
  induction ops with
  | nil => intro x h; exact h
  | cons op t ih => intro x h; exact ih _ (inv_xstep cfg op h)

theorem ref_cleanupTick {s : State} {r : Ref} (h : RefInv s r) : RefInv (cleanupTick s) r :=
  fun k e hl hs => h k e (mono_evictKeys _ _ hl) hs

theorem ref_xstep (cfg : Config) {x : XState} {r : Ref} (op : XOp) (h : RefInv x.s r) :
    RefInv (xstep cfg x op).1.s (CacheMap.step r (absXOp cfg op)) := by
  cases op with
  | base op => rw [xstep_base_s]; exact ref_step cfg op h
  | cleanup => exact ref_cleanupTick h

theorem ref_xrun (cfg : Config) (ops : List XOp) : ∀ (x : XState) (r : Ref), RefInv x.s r →
    RefInv (xrun cfg x ops).s (CacheMap.run r (ops.map (absXOp cfg))) := by
  induction ops with
  | nil => intro x r h; exact h
  | cons op t ih => intro x r h; exact ih _ _ (ref_xstep cfg op h)

/-- `hit_count ≤ get_count` -/
theorem metrics_xstep (cfg : Config) {x : XState} (op : XOp) (h : x.m.hits ≤ x.m.gets) :
    (xstep cfg x op).1.m.hits ≤ (xstep cfg x op).1.m.gets := by
  cases op with
  | cleanup => exact h
  | base op =>
    cases op with
    | get k =>
      show (x.m.record _).hits ≤ (x.m.record _).gets
      unfold Metrics.record
      dsimp only
      split <;> omega
    | clear => exact Nat.le_refl 0
    | put k v vs => exact h
    | putTtl k v short vs => exact h
    | contains k => exact h
    | remove k => exact h
    | size => exact h
    | stats => exact h

theorem metrics_xrun (cfg : Config) (ops : List XOp) : ∀ x : XState, x.m.hits ≤ x.m.gets →
    (xrun cfg x ops).m.hits ≤ (xrun cfg x ops).m.gets := by
  induction ops with
  | nil => intro x h; exact h
  | cons op t ih => intro x h; exact ih _ (metrics_xstep cfg op h)

/-! cleanup: what one tick removes -/

theorem evictKeys_lookup (vs : List Key) : ∀ (s : State) (k : Key),
    lookup k (evictKeys s vs).store = if k ∈ vs then none else lookup k s.store := by
  induction vs with
  | nil => intro s k; simp [evictKeys]
  | cons v t ih =>
    intro s k
    show lookup k (evictKeys (removeCounted s v) t).store = _
    rw [ih]
    have hst : (removeCounted s v).store = erase v s.store := by
      unfold removeCounted
      cases hl : lookup v s.store with
      | none => exact (erase_of_lookup_none hl).symm
      | some e => rfl
    by_cases hk : k ∈ t
    · simp [hk]
    · simp only [hk, if_false, List.mem_cons, or_false]
      rw [hst]
      by_cases hkv : k = v
      · subst hkv; simp [lookup_erase_self]
      · simp only [hkv, if_false]; exact lookup_erase_ne hkv _

theorem mem_expiredKeys {st : Store} {k : Key} : k ∈ expiredKeys st ↔ ∃ e, (k, e) ∈ st ∧ e.short = true := by
  unfold expiredKeys
  simp only [List.mem_map, List.mem_filter]
  constructor
  · rintro ⟨p, ⟨hp, hs⟩, rfl⟩; exact ⟨p.2, hp, hs⟩
  · rintro ⟨e, he, hs⟩; exact ⟨(k, e), ⟨he, hs⟩, rfl⟩

/-- after a tick of the cleanup task: exactly the unexpired entries are left, under their keys -/
theorem cleanupTick_lookup {s : State} (hi : Inv s) (k : Key) :
    lookup k (cleanupTick s).store = match lookup k s.store with
      | some e => if e.short then none else some e
      | none => none := by
  unfold cleanupTick
  rw [evictKeys_lookup]
  cases hl : lookup k s.store with
  | none =>
    dsimp only
    split <;> rfl
  | some e =>
    dsimp only
    by_cases hs : e.short = true
    · have : k ∈ expiredKeys s.store := mem_expiredKeys.mpr ⟨e, mem_of_lookup hl, hs⟩
      simp [this, hs]
    · have : k ∉ expiredKeys s.store := by
        intro hk
        obtain ⟨e', he', hs'⟩ := mem_expiredKeys.mp hk
        have := lookup_of_mem hi.nodup he'
        rw [hl] at this; cases this; exact hs hs'
      simp [this, hs]

theorem cleanupTick_unswept {s : State} (hi : Inv s) : unswept (cleanupTick s).store = [] := by
  unfold unswept
  rw [List.filter_eq_nil_iff]
  intro p hp hs
  have hi' := inv_cleanupTick hi
  have hl := lookup_of_mem hi'.nodup (show (p.1, p.2) ∈ _ from hp)
  rw [cleanupTick_lookup hi] at hl
  cases hl0 : lookup p.1 s.store with
  | none => rw [hl0] at hl; cases hl
  | some e =>
    rw [hl0] at hl
    dsimp only at hl
    by_cases he : e.short = true
    · simp [he] at hl
    · simp [he] at hl; subst hl; exact he hs

/-- a tick of the cleanup task does not change what any `get` answers -/
theorem cleanupTick_get {s : State} (hi : Inv s) (k : Key) :
    (Model.MemCache.get (cleanupTick s) k).2 = (Model.MemCache.get s k).2 := by
  rw [get_out, get_out, cleanupTick_lookup hi]
  cases hl : lookup k s.store with
  | none => rfl
  | some e =>
    dsimp only
    by_cases he : e.short = true
    · simp [he]
    · simp [he]

theorem erase_eq_filter {α : Type} (k : Key) (l : List (Key × α)) :
    erase k l = l.filter (fun p => !(p.1 == k)) := by
  induction l with
  | nil => rfl
  | cons p t ih =>
    obtain ⟨k', e⟩ := p
    unfold erase
    by_cases h : k' = k
    · simp only [h, if_true, List.filter_cons, beq_self_eq_true, Bool.not_true, Bool.false_eq_true, if_false]
      exact ih
    · have hb : (k' == k) = false := by simpa using h
      simp only [h, if_false, List.filter_cons, hb, Bool.not_false, if_true]
      rw [ih]

theorem evictKeys_store (vs : List Key) : ∀ s : State,
    (evictKeys s vs).store = s.store.filter (fun p => !vs.contains p.1) := by
  induction vs with
  | nil => intro s; show s.store = _; exact (List.filter_eq_self.mpr (fun _ _ => rfl)).symm
  | cons v t ih =>
    intro s
    show (evictKeys (removeCounted s v) t).store = _
    rw [ih]
    have hst : (removeCounted s v).store = erase v s.store := by
      unfold removeCounted
      cases hl : lookup v s.store with
      | none => exact (erase_of_lookup_none hl).symm
      | some e => rfl
    rw [hst, erase_eq_filter, List.filter_filter]
    apply List.filter_congr
    intro p _
    simp only [List.contains_cons, Bool.not_or]
    rw [Bool.and_comm]

/-- a tick of the cleanup task leaves the retrievable entries exactly as they were -/
theorem cleanupTick_retrievable {s : State} (hi : Inv s) :
    retrievable (cleanupTick s).store = retrievable s.store := by
  unfold cleanupTick retrievable
  rw [evictKeys_store, List.filter_filter]
  apply List.filter_congr
  intro p hp
  cases hs : p.2.short with
  | true => simp
  | false =>
    have : p.1 ∉ expiredKeys s.store := by
      intro hk
      obtain ⟨e', he', hs'⟩ := mem_expiredKeys.mp hk
      have h1 := lookup_of_mem hi.nodup he'
      have h2 := lookup_of_mem hi.nodup (show (p.1, p.2) ∈ s.store from hp)
      rw [h1] at h2; cases h2; rw [hs] at hs'; cases hs'
    simp [this]

theorem cleanupTick_retrievable_length {s : State} (hi : Inv s) :
    (retrievable (cleanupTick s).store).length = (retrievable s.store).length := by
  rw [cleanupTick_retrievable hi]

theorem count_cleanupTick_le {s : State} : (cleanupTick s).count ≤ s.count := by
  unfold cleanupTick
  generalize expiredKeys s.store = vs
  induction vs generalizing s with
  | nil => exact Int.le_refl _
  | cons v t ih =>
    have h1 := @ih (removeCounted s v)
    have h2 := count_removeCounted_le s v
    show (evictKeys (removeCounted s v) t).count ≤ _
    omega

theorem count_xstep (cfg : Config) (hmax : 1 ≤ cfg.maxEntries) (hp : cfg.policy ≠ .ttl) {x : XState}
    (hi : Inv x.s) (hc : x.s.count ≤ (cfg.maxEntries : Int)) (op : XOp) (hok : xopOk cfg x op = true) :
    (xstep cfg x op).1.s.count ≤ (cfg.maxEntries : Int) := by
  cases op with
  | base op => rw [xstep_base_s]; exact count_step cfg hmax hp hi hc op hok
  | cleanup => have := @count_cleanupTick_le x.s; show (cleanupTick x.s).count ≤ _; omega

theorem count_xrun (cfg : Config) (hmax : 1 ≤ cfg.maxEntries) (hp : cfg.policy ≠ .ttl) (ops : List XOp) :
    ∀ x : XState, Inv x.s → x.s.count ≤ (cfg.maxEntries : Int) → xrunOk cfg x ops = true →
      (xrun cfg x ops).s.count ≤ (cfg.maxEntries : Int) := by
  induction ops with
  | nil => intro x _ hc _; exact hc
  | cons op t ih =>
    intro x hi hc hok
    unfold xrunOk at hok
    simp only [Bool.and_eq_true] at hok
    exact ih _ (inv_xstep cfg op hi) (count_xstep cfg hmax hp hi hc op hok.1) hok.2

/-- every caller-level operation elaborates to one whose victim list the policy allows -/
theorem elabOp_ok (cfg : Config) {x : XState} (hi : Inv x.s) (a : AOp) : xopOk cfg x (elabOp cfg x.s a) = true := by
  have hv : victimsOk cfg.policy (tick x.s).store (evictN cfg (tick x.s)) (autoVictims cfg x.s) = true :=
    detVictims_ok _ _ _ (inv_tick hi).nodup
  cases a with
  | put k v => show (!evicts cfg (tick x.s) || victimsOk _ _ _ _) = true; rw [hv]; simp
  | putTtl k v short => show (!evicts cfg (tick x.s) || victimsOk _ _ _ _) = true; rw [hv]; simp
  | get k => rfl
  | contains k => rfl
  | remove k => rfl
  | clear => rfl
  | size => rfl
  | stats => rfl
  | cleanup => rfl

theorem elabRun_ok (cfg : Config) (ops : List AOp) : ∀ x : XState, Inv x.s →
    xrunOk cfg x (elabRun cfg x ops) = true := by
  induction ops with
  | nil => intro x _; rfl
  | cons a t ih =>
    intro x hi
    unfold elabRun xrunOk
    rw [elabOp_ok cfg hi a, Bool.true_and]
    exact ih _ (inv_xstep cfg _ hi)

theorem arun_eq_xrun (cfg : Config) (ops : List AOp) : ∀ x : XState,
    arun cfg x ops = xrun cfg x (elabRun cfg x ops) := by
  induction ops with
  | nil => intro x; rfl
  | cons a t ih => intro x; exact ih _

end MemX


/-! ### time stamps are pairwise distinct, so Lru / Fifo victims are determined -/
section Stamps
open Cascette.Model.CacheExt Cascette.Model.CacheExt.Mem


/-- every stamp is at most `c`, and two stored entries with the same `last` (or the same
`created`) stamp are the same entry -/
def StampedBy (st : Store) (P : Nat → Prop) : Prop :=
  ∀ a ∈ st, (P a.2.last ∧ P a.2.created) ∧
    ∀ b ∈ st, (a.2.last = b.2.last → a.1 = b.1) ∧ (a.2.created = b.2.created → a.1 = b.1)

def Stamped (s : State) : Prop := StampedBy s.store (· ≤ s.clock)
def StampedLt (s : State) : Prop := StampedBy s.store (· < s.clock)

theorem stamped_init : Stamped init := fun a ha => by cases ha

theorem stamped_tick {s : State} (h : Stamped s) : StampedLt (tick s) := by
  intro a ha
  obtain ⟨⟨h1, h2⟩, h3⟩ := h a ha
  refine ⟨⟨?_, ?_⟩, h3⟩
  · show a.2.last < s.clock + 1; omega
  · show a.2.created < s.clock + 1; omega

theorem stampedBy_sub {st st' : Store} {P : Nat → Prop} (hsub : ∀ p ∈ st', p ∈ st) (h : StampedBy st P) :
    StampedBy st' P :=
  fun a ha => ⟨(h a (hsub a ha)).1, fun b hb => (h a (hsub a ha)).2 b (hsub b hb)⟩

theorem stampedBy_weaken {st : Store} {P Q : Nat → Prop} (hpq : ∀ n, P n → Q n) (h : StampedBy st P) :
    StampedBy st Q :=
  fun a ha => ⟨⟨hpq _ (h a ha).1.1, hpq _ (h a ha).1.2⟩, (h a ha).2⟩

theorem removeCounted_sub (s : State) (k : Key) : (∀ p ∈ (removeCounted s k).store, p ∈ s.store) ∧
    (removeCounted s k).clock = s.clock := by
  unfold removeCounted
  split
  · exact ⟨fun p hp => mem_erase hp, rfl⟩
  · exact ⟨fun p hp => hp, rfl⟩

theorem evictKeys_sub (vs : List Key) : ∀ s : State, (∀ p ∈ (evictKeys s vs).store, p ∈ s.store) ∧
    (evictKeys s vs).clock = s.clock := by
  induction vs with
  | nil => intro s; exact ⟨fun p hp => hp, rfl⟩
  | cons v t ih =>
    intro s
    have h1 := ih (removeCounted s v)
    have h2 := removeCounted_sub s v
    exact ⟨fun p hp => h2.1 p (h1.1 p hp), by show (evictKeys (removeCounted s v) t).clock = _; rw [h1.2, h2.2]⟩

theorem preEvict_sub (cfg : Config) (s : State) (vs : List Key) :
    (∀ p ∈ (preEvict cfg s vs).store, p ∈ s.store) ∧ (preEvict cfg s vs).clock = s.clock := by
  unfold preEvict performEviction
  split
  · split
    · exact ⟨fun p hp => hp, rfl⟩
    · split
      · exact ⟨fun p hp => hp, rfl⟩
      · split <;> exact evictKeys_sub _ _
  · exact ⟨fun p hp => hp, rfl⟩

theorem mem_erase_ne {α : Type} {k : Key} {l : List (Key × α)} {p : Key × α} (h : p ∈ erase k l) : p.1 ≠ k := by
  rw [erase_eq_filter, List.mem_filter] at h
  simpa using h.2

/-- inserting an entry stamped with the current clock over a store stamped strictly earlier -/
theorem stampedBy_insert {st : Store} {c : Nat} (k : Key) (e : Entry) (h : StampedBy st (· < c))
    (hl : e.last = c) (hc : e.created = c) : StampedBy ((k, e) :: erase k st) (· ≤ c) := by
  intro a ha
  rcases List.mem_cons.mp ha with rfl | ha'
  · refine ⟨⟨by show e.last ≤ c; omega, by show e.created ≤ c; omega⟩, ?_⟩
    intro b hb
    rcases List.mem_cons.mp hb with rfl | hb'
    · exact ⟨fun _ => rfl, fun _ => rfl⟩
    · have hb1 := (h b (mem_erase hb')).1
      refine ⟨fun heq => ?_, fun heq => ?_⟩
      · have : e.last = b.2.last := heq
        omega
      · have : e.created = b.2.created := heq
        omega
  · have ha1 := h a (mem_erase ha')
    refine ⟨⟨by have := ha1.1.1; omega, by have := ha1.1.2; omega⟩, ?_⟩
    intro b hb
    rcases List.mem_cons.mp hb with rfl | hb'
    · refine ⟨fun heq => ?_, fun heq => ?_⟩
      · have : a.2.last = e.last := heq
        have := ha1.1.1; omega
      · have : a.2.created = e.created := heq
        have := ha1.1.2; omega
    · exact ha1.2 b (mem_erase hb')

theorem stamped_putCore (cfg : Config) {s : State} (k : Key) (v : Val) (short : Bool) (vs : List Key)
    (h : StampedLt s) : Stamped (putCore cfg s k v short vs) := by
  have hsub := preEvict_sub cfg s vs
  have h1 : StampedBy (preEvict cfg s vs).store (· < s.clock) := stampedBy_sub hsub.1 h
  have hst : (putCore cfg s k v short vs).store = (k, newEntry (preEvict cfg s vs) v short) :: erase k (preEvict cfg s vs).store :=
    insertCounted_store _ _ _
  have hclk : (putCore cfg s k v short vs).clock = s.clock := by
    show (insertCounted (preEvict cfg s vs) k _).clock = _
    unfold insertCounted
    split <;> exact hsub.2
  unfold Stamped
  rw [hst, hclk]
  exact stampedBy_insert k _ h1 hsub.2 hsub.2

theorem stamped_sweep {s : State} (k : Key) (e : Entry) (h : StampedLt s) : Stamped (sweep s k e) := by
  unfold sweep
  split
  · exact stampedBy_weaken (fun n hn => Nat.le_of_lt hn) (stampedBy_sub (fun p hp => mem_erase hp) h)
  · exact stampedBy_weaken (fun n hn => Nat.le_of_lt hn) h

theorem stamped_get {s : State} (k : Key) (h : StampedLt s) : Stamped (Model.MemCache.get s k).1 := by
  unfold Model.MemCache.get
  cases hl : lookup k s.store with
  | none => exact stampedBy_weaken (fun n hn => Nat.le_of_lt hn) h
  | some e =>
    dsimp only
    by_cases hs : e.short = true
    · rw [if_pos hs]; exact stamped_sweep k e h
    · rw [if_neg hs]
      have he := mem_of_lookup hl
      have hek := h (k, e) he
      -- the refreshed entry: `last` = clock, `created` as before
      intro a ha
      rcases List.mem_cons.mp ha with rfl | ha'
      · refine ⟨⟨Nat.le_refl _, Nat.le_of_lt hek.1.2⟩, ?_⟩
        intro b hb
        rcases List.mem_cons.mp hb with rfl | hb'
        · exact ⟨fun _ => rfl, fun _ => rfl⟩
        · have hb1 := (h b (mem_erase hb')).1
          refine ⟨fun heq => ?_, fun heq => ?_⟩
          · have : s.clock = b.2.last := heq
            omega
          · exact (hek.2 b (mem_erase hb')).2 heq
      · have ha1 := h a (mem_erase ha')
        refine ⟨⟨Nat.le_of_lt ha1.1.1, Nat.le_of_lt ha1.1.2⟩, ?_⟩
        intro b hb
        rcases List.mem_cons.mp hb with rfl | hb'
        · refine ⟨fun heq => ?_, fun heq => ?_⟩
          · have : a.2.last = s.clock := heq
            have := ha1.1.1; omega
          · exact (ha1.2 (k, e) he).2 heq
        · exact ha1.2 b (mem_erase hb')

theorem stamped_step (cfg : Config) {s : State} (op : Op) (h : Stamped s) : Stamped (step cfg s op).1 := by
  have ht := stamped_tick h
  have hw : Stamped (tick s) := stampedBy_weaken (fun n hn => Nat.le_of_lt hn) ht
  cases op with
  | put k v vs => exact stamped_putCore cfg k v _ vs ht
  | putTtl k v short vs => exact stamped_putCore cfg k v short vs ht
  | get k => exact stamped_get k ht
  | contains k =>
    show Stamped (contains (tick s) k).1
    unfold contains
    split
    · exact hw
    · split
      · exact stamped_sweep k _ ht
      · exact hw
  | remove k =>
    show Stamped (remove (tick s) k).1
    unfold remove
    split
    · have := removeCounted_sub (tick s) k
      unfold Stamped; rw [this.2]
      exact stampedBy_sub this.1 hw
    · exact hw
  | clear => exact fun a ha => by cases ha
  | size => exact hw
  | stats => exact hw

theorem stamped_cleanupTick {s : State} (h : Stamped s) : Stamped (cleanupTick s) := by
  have := evictKeys_sub (expiredKeys s.store) s
  unfold Stamped cleanupTick; rw [this.2]
  exact stampedBy_sub this.1 h

theorem stamped_xstep (cfg : Config) {x : XState} (op : XOp) (h : Stamped x.s) : Stamped (xstep cfg x op).1.s := by
  cases op with
  | base op => rw [xstep_base_s]; exact stamped_step cfg op h
  | cleanup => exact stamped_cleanupTick h

theorem stamped_xrun (cfg : Config) (ops : List XOp) : ∀ x : XState, Stamped x.s → Stamped (xrun cfg x ops).s := by
  induction ops with
  | nil => intro x h; exact h
  | cons op t ih => intro x h; exact ih _ (stamped_xstep cfg op h)

/-! pigeonhole on duplicate-free key lists -/

theorem length_le_of_subset : ∀ (l1 l2 : List Key), l1.Pairwise (· ≠ ·) → (∀ x ∈ l1, x ∈ l2) → l1.length ≤ l2.length := by
  intro l1
  induction l1 with
  | nil => intro l2 _ _; exact Nat.zero_le _
  | cons a t ih =>
    intro l2 hnd hsub
    obtain ⟨ha, ht⟩ := List.pairwise_cons.mp hnd
    have hal : a ∈ l2 := hsub a List.mem_cons_self
    have hsub' : ∀ x ∈ t, x ∈ l2.erase a := by
      intro x hx
      have hne : x ≠ a := fun h => ha x hx h.symm
      exact (List.mem_erase_of_ne hne).mpr (hsub x (List.mem_cons_of_mem _ hx))
    have := ih (l2.erase a) ht hsub'
    rw [List.length_erase_of_mem hal] at this
    have hpos : 0 < l2.length := List.length_pos_of_mem hal
    show t.length + 1 ≤ l2.length
    omega

theorem exists_other {l1 l2 : List Key} (_h1 : l1.Pairwise (· ≠ ·)) (h2 : l2.Pairwise (· ≠ ·))
    (hlen : l1.length = l2.length) {k : Key} (hk : k ∈ l1) (hk2 : k ∉ l2) : ∃ k', k' ∈ l2 ∧ k' ∉ l1 := by
  apply Classical.byContradiction
  intro hno
  have hsub : ∀ x ∈ l2, x ∈ l1.erase k := by
    intro x hx
    have hx1 : x ∈ l1 := Classical.byContradiction (fun hn => hno ⟨x, hx, hn⟩)
    have hne : x ≠ k := fun h => hk2 (h ▸ hx)
    exact (List.mem_erase_of_ne hne).mpr hx1
  have := length_le_of_subset l2 (l1.erase k) h2 hsub
  rw [List.length_erase_of_mem hk] at this
  have hpos : 0 < l1.length := List.length_pos_of_mem hk
  omega

theorem victimsOk_rank {p : Policy} {st : Store} {n : Nat} {vs : List Key} (h : victimsOk p st n vs = true) :
    ∀ q ∈ st, q.1 ∈ vs ∨ ∀ k ∈ vs, ∃ e, lookup k st = some e ∧ metric p e ≤ metric p q.2 := by
  unfold victimsOk at h
  simp only [Bool.and_eq_true, List.all_eq_true, beq_iff_eq, Bool.or_eq_true, List.contains_eq_mem,
    decide_eq_true_eq] at h
  intro q hq
  rcases h.2 q hq with h1 | h2
  · left; exact h1
  · right
    intro k hk
    have := h2 k hk
    cases hl : lookup k st with
    | none => rw [hl] at this; simp at this
    | some e => rw [hl] at this; exact ⟨e, rfl, by simpa using this⟩

/-- **with pairwise distinct metrics the policy leaves no choice**: two victim lists the policy
allows name the same keys -/
theorem victims_determined {p : Policy} {st : Store} {n : Nat} {vs vs' : List Key}
    (hinj : ∀ a ∈ st, ∀ b ∈ st, metric p a.2 = metric p b.2 → a.1 = b.1)
    (h : victimsOk p st n vs = true) (h' : victimsOk p st n vs' = true) : ∀ k, k ∈ vs → k ∈ vs' := by
  intro k hk
  apply Classical.byContradiction
  intro hk'
  obtain ⟨hd, hp, hl⟩ := victimsOk_facts h
  obtain ⟨hd', hp', hl'⟩ := victimsOk_facts h'
  obtain ⟨k2, hk2, hk2n⟩ := exists_other ((distinct_iff _).mp hd) ((distinct_iff _).mp hd') (by omega) hk hk'
  obtain ⟨e, he⟩ := Option.isSome_iff_exists.mp (hp k hk)
  obtain ⟨e2, he2⟩ := Option.isSome_iff_exists.mp (hp' k2 hk2)
  have hm := mem_of_lookup he
  have hm2 := mem_of_lookup he2
  -- k2 survives under vs, so every victim of vs (k among them) ranks no later than k2
  have r1 : metric p e ≤ metric p e2 := by
    rcases victimsOk_rank h (k2, e2) hm2 with hin | hall
    · exact absurd hin hk2n
    · obtain ⟨e', he', hle⟩ := hall k hk
      rw [he] at he'; cases he'; exact hle
  -- k survives under vs', so every victim of vs' (k2 among them) ranks no later than k
  have r2 : metric p e2 ≤ metric p e := by
    rcases victimsOk_rank h' (k, e) hm with hin | hall
    · exact absurd hin hk'
    · obtain ⟨e', he', hle⟩ := hall k2 hk2
      rw [he2] at he'; cases he'; exact hle
  have : k = k2 := hinj (k, e) hm (k2, e2) hm2 (by show metric p e = metric p e2; omega)
  exact hk2n (this ▸ hk)

/-- evicting two lists with the same members gives the same state -/
theorem evictKeys_congr {s : State} (hi : Inv s) {vs vs' : List Key} (h : ∀ k, k ∈ vs ↔ k ∈ vs') :
    evictKeys s vs = evictKeys s vs' := by
  have h1 := inv_evictKeys vs s hi
  have h2 := inv_evictKeys vs' s hi
  have hst : (evictKeys s vs).store = (evictKeys s vs').store := by
    rw [evictKeys_store, evictKeys_store]
    apply List.filter_congr
    intro p _
    have := h p.1
    by_cases hc : p.1 ∈ vs
    · simp [hc, this.mp hc]
    · have hc' : p.1 ∉ vs' := fun h' => hc (this.mpr h')
      simp [hc, hc']
  have hc : (evictKeys s vs).count = (evictKeys s vs').count := by rw [h1.count, h2.count, hst]
  have hb : (evictKeys s vs).bytes = (evictKeys s vs').bytes := by rw [h1.bytes, h2.bytes, hst]
  have hk : (evictKeys s vs).clock = (evictKeys s vs').clock := by
    rw [(evictKeys_sub vs s).2, (evictKeys_sub vs' s).2]
  cases hA : evictKeys s vs
  cases hB : evictKeys s vs'
  rw [hA] at hst hc hb hk
  rw [hB] at hst hc hb hk
  simp only at hst hc hb hk
  subst hst hc hb hk
  rfl


end Stamps

end Cascette.Proofs.CacheExt

namespace Cascette.Proofs.CacheExtDisk
open Cascette.Spec.CacheMap (Key Val Ref)
open Cascette.Model.CacheAssoc Cascette.Model.DiskCache Cascette.Proofs.CacheAssoc
open Cascette.Proofs.DiskCache
open Cascette.Spec

/-- does the operation store key `k` again, or replace the instance? -/
def revives (k : Key) : Op → Bool
  | .put k' _ | .putTtl k' _ _ => k' == k
  | .reopen => true
  | _ => false

/-- key `k` cannot be served by this instance: it is indexed with an ended TTL, or neither
indexed nor on disk -/
def Dead (k : Key) (s : State) : Prop :=
  (∃ e, lookup k s.index = some e ∧ e.short = true) ∨ (lookup k s.index = none ∧ lookup k s.files = none)

theorem dead_putCore (s : State) (k : Key) (v : Val) : Dead k (putCore s k v true) := by
  left
  refine ⟨{ size := v.length, short := true }, ?_, rfl⟩
  have hindex : (putCore s k v true).index = (k, { size := v.length, short := true }) :: erase k s.index := by
    unfold putCore; split <;> rfl
  rw [hindex, lookup_cons_self]

theorem dead_get_out {k : Key} {s : State} (h : Dead k s) :
    (Model.DiskCache.get s k).2 = .miss ∧ lookup k (Model.DiskCache.get s k).1.files = none := by
  unfold Model.DiskCache.get
  rcases h with ⟨e, he, hs⟩ | ⟨hi, hf⟩
  · rw [he]; dsimp only; rw [if_pos hs]
    exact ⟨rfl, lookup_erase_self _ _⟩
  · rw [hi]; dsimp only; rw [hf]; exact ⟨rfl, hf⟩

/-- an operation on another key leaves `k`'s index entry and file alone -/
theorem frame_putCore (s : State) {k k' : Key} (v' : Val) (short : Bool) (hne : k ≠ k') :
    lookup k (putCore s k' v' short).index = lookup k s.index ∧
    lookup k (putCore s k' v' short).files = lookup k s.files := by
  have hfiles : (putCore s k' v' short).files = (k', v') :: erase k' s.files := by
    unfold putCore; split <;> rfl
  have hindex : (putCore s k' v' short).index = (k', { size := v'.length, short := short }) :: erase k' s.index := by
    unfold putCore; split <;> rfl
  rw [hfiles, hindex, lookup_cons_ne hne, lookup_erase_ne hne, lookup_cons_ne hne, lookup_erase_ne hne]
  exact ⟨rfl, rfl⟩

theorem frame_get (s : State) {k k' : Key} (hne : k ≠ k') :
    lookup k (Model.DiskCache.get s k').1.index = lookup k s.index ∧
    lookup k (Model.DiskCache.get s k').1.files = lookup k s.files := by
  unfold Model.DiskCache.get
  cases hx : lookup k' s.index with
  | some e =>
    dsimp only
    by_cases hs : e.short = true
    · rw [if_pos hs]
      exact ⟨lookup_erase_ne hne _, lookup_erase_ne hne _⟩
    · rw [if_neg hs]
      cases hf : lookup k' s.files with
      | some v => exact ⟨rfl, rfl⟩
      | none => exact ⟨lookup_erase_ne hne _, rfl⟩
  | none =>
    dsimp only
    cases hf : lookup k' s.files with
    | some v =>
      dsimp only
      rw [lookup_cons_ne hne, lookup_erase_ne hne]
      exact ⟨rfl, rfl⟩
    | none => exact ⟨rfl, rfl⟩

theorem frame_remove (s : State) {k k' : Key} (hne : k ≠ k') :
    lookup k (remove s k').1.index = lookup k s.index ∧
    lookup k (remove s k').1.files = lookup k s.files := by
  unfold remove
  cases hx : lookup k' s.index with
  | some e => exact ⟨lookup_erase_ne hne _, lookup_erase_ne hne _⟩
  | none =>
    dsimp only
    cases hf : lookup k' s.files with
    | some v => exact ⟨rfl, lookup_erase_ne hne _⟩
    | none => exact ⟨rfl, rfl⟩

theorem dead_of_frame {k : Key} {s s' : State} (h : Dead k s)
    (hf : lookup k s'.index = lookup k s.index ∧ lookup k s'.files = lookup k s.files) : Dead k s' := by
  unfold Dead; rw [hf.1, hf.2]; exact h

theorem dead_step (cfg : Config) {k : Key} {s : State} (op : Op) (h : Dead k s)
    (hr : revives k op = false) : Dead k (step cfg s op).1 := by
  cases op with
  | put k' v' =>
    have hne : k ≠ k' := by intro h; subst h; simp [revives] at hr
    exact dead_of_frame h (frame_putCore s v' _ hne)
  | putTtl k' v' short =>
    have hne : k ≠ k' := by intro h; subst h; simp [revives] at hr
    exact dead_of_frame h (frame_putCore s v' short hne)
  | get k' =>
    by_cases hk : k = k'
    · subst hk
      right
      show lookup k (Model.DiskCache.get s k).1.index = none ∧ lookup k (Model.DiskCache.get s k).1.files = none
      refine ⟨?_, (dead_get_out h).2⟩
      unfold Model.DiskCache.get
      rcases h with ⟨e, he, hs⟩ | ⟨hi, hf⟩
      · rw [he]; dsimp only; rw [if_pos hs]; exact lookup_erase_self _ _
      · rw [hi]; dsimp only; rw [hf]; exact hi
    · exact dead_of_frame h (frame_get s hk)
  | contains k' => exact h
  | remove k' =>
    by_cases hk : k = k'
    · subst hk
      right
      show lookup k (remove s k).1.index = none ∧ lookup k (remove s k).1.files = none
      unfold remove
      rcases h with ⟨e, he, hs⟩ | ⟨hi, hf⟩
      · rw [he]; exact ⟨lookup_erase_self _ _, lookup_erase_self _ _⟩
      · rw [hi]; dsimp only; rw [hf]; exact ⟨hi, hf⟩
    · exact dead_of_frame h (frame_remove s hk)
  | clear => right; exact ⟨rfl, rfl⟩
  | size => exact h
  | stats => exact h
  | reopen => simp [revives] at hr

theorem dead_run (cfg : Config) {k : Key} (ops : List Op) : ∀ s, Dead k s →
    (∀ op ∈ ops, revives k op = false) → Dead k (run cfg s ops) := by
  induction ops with
  | nil => intro s h _; exact h
  | cons op t ih =>
    intro s h hr
    exact ih _ (dead_step cfg op h (hr op List.mem_cons_self)) (fun o ho => hr o (List.mem_cons_of_mem _ ho))

/-! the cleanup task of the disk cache, disk metrics -/
section DX
open Cascette.Model.CacheExt Cascette.Model.CacheExt.Disk

theorem dinv_dropIfExpired {s : State} (k : Key) (h : DInv s) : DInv (dropIfExpired s k) := by
  unfold dropIfExpired
  cases hl : lookup k s.index with
  | none => exact h
  | some e =>
    dsimp only
    split
    · exact dinv_drop hl h
    · exact h

theorem dinv_foldDrop (ks : List Key) : ∀ s, DInv s → DInv (ks.foldl dropIfExpired s) := by
  induction ks with
  | nil => intro s h; exact h
  | cons k t ih => intro s h; exact ih _ (dinv_dropIfExpired k h)

theorem dinv_cleanupTick {s : State} (h : DInv s) : DInv (cleanupTick s) := dinv_foldDrop _ _ h

/-- what the treatment of key `k'` does to the index entry and file of `k` -/
theorem dropIfExpired_lookup (s : State) (k k' : Key) :
    (lookup k (dropIfExpired s k').index = lookup k s.index ∧ lookup k (dropIfExpired s k').files = lookup k s.files) ∨
    (k = k' ∧ (∃ e, lookup k s.index = some e ∧ e.short = true) ∧
      lookup k (dropIfExpired s k').index = none ∧ lookup k (dropIfExpired s k').files = none) := by
  unfold dropIfExpired
  cases hl : lookup k' s.index with
  | none => left; exact ⟨rfl, rfl⟩
  | some e =>
    dsimp only
    by_cases hs : e.short = true
    · rw [if_pos hs]
      by_cases hk : k = k'
      · right
        subst hk
        exact ⟨rfl, ⟨e, hl, hs⟩, lookup_erase_self _ _, lookup_erase_self _ _⟩
      · left
        exact ⟨lookup_erase_ne hk _, lookup_erase_ne hk _⟩
    · rw [if_neg hs]; left; exact ⟨rfl, rfl⟩

theorem dead_dropIfExpired {k : Key} {s : State} (k' : Key) (h : Dead k s) : Dead k (dropIfExpired s k') := by
  rcases dropIfExpired_lookup s k k' with hf | ⟨_, _, h1, h2⟩
  · exact dead_of_frame h hf
  · right; exact ⟨h1, h2⟩

theorem dead_cleanupTick {k : Key} {s : State} (h : Dead k s) : Dead k (cleanupTick s) := by
  unfold cleanupTick
  generalize (s.index.filter (fun p => p.2.short)).map (·.1) = ks
  induction ks generalizing s with
  | nil => exact h
  | cons k' t ih => exact ih (dead_dropIfExpired k' h)

theorem kept_dropIfExpired {k : Key} {v : Val} {s : State} (k' : Key) (h : Kept k v s) : Kept k v (dropIfExpired s k') := by
  obtain ⟨hf, hi⟩ := h
  rcases dropIfExpired_lookup s k k' with ⟨h1, h2⟩ | ⟨_, ⟨e, he, hs⟩, _, _⟩
  · exact ⟨by rw [h2]; exact hf, fun e he => hi e (by rw [← h1]; exact he)⟩
  · have := hi e he; rw [hs] at this; cases this

theorem kept_cleanupTick {k : Key} {v : Val} {s : State} (h : Kept k v s) : Kept k v (cleanupTick s) := by
  unfold cleanupTick
  generalize (s.index.filter (fun p => p.2.short)).map (·.1) = ks
  induction ks generalizing s with
  | nil => exact h
  | cons k' t ih => exact ih (kept_dropIfExpired k' h)

/-- files only disappear in a cleanup tick -/
theorem last_cleanupTick {s : State} {r : Ref} (h : LastD s r) : LastD (cleanupTick s) r := by
  unfold cleanupTick
  generalize (s.index.filter (fun p => p.2.short)).map (·.1) = ks
  induction ks generalizing s with
  | nil => exact h
  | cons k' t ih =>
    apply ih
    intro k v hl
    rcases dropIfExpired_lookup s k k' with ⟨_, h2⟩ | ⟨_, _, _, h2⟩
    · exact h k v (by rw [← h2]; exact hl)
    · rw [h2] at hl; cases hl

/-- after a tick no indexed entry has an ended TTL -/
theorem cleanupTick_noShort {s : State} (h : DInv s) : noShort (cleanupTick s) = true := by
  have key : ∀ (ks : List Key) (s : State), DInv s →
      (∀ k e, lookup k s.index = some e → e.short = true → k ∈ ks) →
      ∀ k e, lookup k (ks.foldl dropIfExpired s).index = some e → e.short = false := by
    intro ks
    induction ks with
    | nil =>
      intro s _ hall k e hl
      cases hs : e.short with
      | false => rfl
      | true => exact absurd (hall k e hl hs) (by simp)
    | cons k' t ih =>
      intro s hd hall
      apply ih (dropIfExpired s k') (dinv_dropIfExpired k' hd)
      intro k e hl hs
      rcases dropIfExpired_lookup s k k' with ⟨h1, _⟩ | ⟨_, _, h1, _⟩
      · rw [h1] at hl
        rcases List.mem_cons.mp (hall k e hl hs) with rfl | ht
        · -- k = k': it was dropped, so it cannot still be indexed
          exfalso
          have : lookup k (dropIfExpired s k).index = none := by
            unfold dropIfExpired; rw [hl]; dsimp only; rw [if_pos hs]; exact lookup_erase_self _ _
          rw [h1] at this; rw [hl] at this; cases this
        · exact ht
      · rw [h1] at hl; cases hl
  unfold noShort
  rw [List.all_eq_true]
  intro p hp
  have hd' := dinv_cleanupTick h
  have hl := lookup_of_mem hd'.nodupI (show (p.1, p.2) ∈ _ from hp)
  have := key _ s h (fun k e hl hs => List.mem_map.mpr ⟨(k, e), List.mem_filter.mpr ⟨mem_of_lookup hl, hs⟩, rfl⟩) p.1 p.2 hl
  simp [this]

theorem dxstep_s (cfg : Config) (x : XState) (op : Op) : (xstep cfg x (.base op)).1.s = (step cfg x.s op).1 := by
  cases op <;> rfl

theorem dinv_xstep (cfg : Config) {x : XState} (op : XOp) (h : DInv x.s) : DInv (xstep cfg x op).1.s := by
  cases op with
  | base op => rw [dxstep_s]; exact dinv_step cfg op h
  | cleanup => exact dinv_cleanupTick h
  | putRefused k v => exact h

theorem dinv_xrun (cfg : Config) (ops : List XOp) : ∀ x : XState, DInv x.s → DInv (xrun cfg x ops).s := by
  induction ops with
  | nil => intro x h; exact h
  | cons op t ih => intro x h; exact ih _ (dinv_xstep cfg op h)

/-- does the extended operation store key `k` again, or replace the instance? -/
def xrevives (k : Key) : XOp → Bool
  | .base op => revives k op
  | .cleanup => false
  | .putRefused _ _ => false

def xtouches (k : Key) : XOp → Bool
  | .base op => touches k op
  | .cleanup => false
  | .putRefused _ _ => false

theorem dead_xrun (cfg : Config) {k : Key} (ops : List XOp) : ∀ x : XState, Dead k x.s →
    (∀ op ∈ ops, xrevives k op = false) → Dead k (xrun cfg x ops).s := by
  induction ops with
  | nil => intro x h _; exact h
  | cons op t ih =>
    intro x h hr
    apply ih _ _ (fun o ho => hr o (List.mem_cons_of_mem _ ho))
    have h0 := hr op List.mem_cons_self
    cases op with
    | base op => rw [dxstep_s]; exact dead_step cfg op h h0
    | cleanup => exact dead_cleanupTick h
    | putRefused k' v' => exact h

theorem kept_xrun (cfg : Config) {k : Key} {v : Val} (ops : List XOp) : ∀ x : XState, Kept k v x.s →
    (∀ op ∈ ops, xtouches k op = false) → Kept k v (xrun cfg x ops).s := by
  induction ops with
  | nil => intro x h _; exact h
  | cons op t ih =>
    intro x h hr
    apply ih _ _ (fun o ho => hr o (List.mem_cons_of_mem _ ho))
    have h0 := hr op List.mem_cons_self
    cases op with
    | base op => rw [dxstep_s]; exact kept_step cfg op h h0
    | cleanup => exact kept_cleanupTick h
    | putRefused k' v' => exact h

theorem last_xrun (cfg : Config) (ops : List XOp) : ∀ (x : XState) (r : Ref), LastD x.s r →
    LastD (xrun cfg x ops).s (CacheMap.runLastPut r (ops.map (absXOp cfg))) := by
  induction ops with
  | nil => intro x r h; exact h
  | cons op t ih =>
    intro x r h
    apply ih
    cases op with
    | base op => rw [dxstep_s]; exact last_step cfg op h
    | cleanup => exact last_cleanupTick h
    | putRefused k' v' => exact h

theorem record_le (m : Metrics) (b : Bool) (h : m.hits ≤ m.gets) : (m.record b).hits ≤ (m.record b).gets := by
  cases b <;> simp [Metrics.record] <;> omega

theorem dmetrics_xstep (cfg : Config) {x : XState} (op : XOp) (h : x.m.hits ≤ x.m.gets) :
    (xstep cfg x op).1.m.hits ≤ (xstep cfg x op).1.m.gets := by
  cases op with
  | cleanup => exact h
  | putRefused k v => exact h
  | base op =>
    cases op with
    | get k => exact record_le _ _ h
    | clear => exact Nat.le_refl 0
    | reopen => exact Nat.le_refl 0
    | put k v => exact h
    | putTtl k v short => exact h
    | contains k => exact h
    | remove k => exact h
    | size => exact h
    | stats => exact h

theorem dmetrics_xrun (cfg : Config) (ops : List XOp) : ∀ x : XState, x.m.hits ≤ x.m.gets →
    (xrun cfg x ops).m.hits ≤ (xrun cfg x ops).m.gets := by
  induction ops with
  | nil => intro x h; exact h
  | cons op t ih => intro x h; exact ih _ (dmetrics_xstep cfg op h)

end DX
end Cascette.Proofs.CacheExtDisk
