/-
Proofs/CacheExt — lemmas for the C10 extension (Model/CacheExt):
 * `detVictims_ok`       the victims the model computes (`ev=auto`) are victims the policy allows
 * extended memory model: invariants through cleanup ticks and metrics, what a cleanup tick removes,
                         count bound, caller-level histories (`elabRun_ok`)
 * disk: `Dead` — a key put with an ended TTL stays unservable on that instance whatever else happens
 * disk metrics
-/
import Cascette.Proofs.MemCache
import Cascette.Proofs.DiskCache
import Cascette.Model.CacheExt
namespace Cascette.Proofs.CacheExt
open Cascette.Spec.CacheMap (Key Val Ref)
open Cascette.Model.CacheAssoc Cascette.Model.MemCache Cascette.Proofs.CacheAssoc
open Cascette.Proofs.MemCache
open Cascette.Spec

/-! ### `detVictims` is a choice the policy allows -/

theorem insertBy_perm (p : Policy) (x : Key × Entry) (l : Store) : (insertBy p x l).Perm (x :: l) := by
  induction l with
  | nil => exact List.Perm.refl _
  | cons y t ih =>
    unfold insertBy
    split
    · exact List.Perm.refl _
    · exact (List.Perm.cons y ih).trans (List.Perm.swap x y t)

theorem sortBy_perm (p : Policy) (l : Store) : (sortBy p l).Perm l := by
  induction l with
  | nil => exact List.Perm.refl _
  | cons x t ih =>
    unfold sortBy
    exact (insertBy_perm p x _).trans (List.Perm.cons x ih)

def Sorted (p : Policy) (l : Store) : Prop := l.Pairwise (fun a b => metric p a.2 ≤ metric p b.2)

theorem insertBy_sorted (p : Policy) (x : Key × Entry) (l : Store) (h : Sorted p l) : Sorted p (insertBy p x l) := by
  induction l with
  | nil => exact List.pairwise_singleton _ _
  | cons y t ih =>
    unfold insertBy
    obtain ⟨hy, ht⟩ := List.pairwise_cons.mp h
    split
    · rename_i hlt
      refine List.pairwise_cons.mpr ⟨?_, h⟩
      intro b hb
      rcases List.mem_cons.mp hb with rfl | hb
      · omega
      · have := hy b hb; omega
    · rename_i hnlt
      refine List.pairwise_cons.mpr ⟨?_, ih ht⟩
      intro b hb
      have := (insertBy_perm p x t).mem_iff.mp hb
      rcases List.mem_cons.mp this with rfl | hb
      · omega
      · exact hy b hb

theorem sortBy_sorted (p : Policy) (l : Store) : Sorted p (sortBy p l) := by
  induction l with
  | nil => exact List.Pairwise.nil
  | cons x t ih => unfold sortBy; exact insertBy_sorted p x _ ih

/-- keys pairwise distinct, as a `Pairwise` fact (so that it moves along permutations) -/
theorem nodup_iff_pairwise {α : Type} (l : List (Key × α)) : NoDup l ↔ l.Pairwise (fun a b => a.1 ≠ b.1) := by
  induction l with
  | nil => exact ⟨fun _ => List.Pairwise.nil, fun _ => trivial⟩
  | cons x t ih =>
    obtain ⟨k, e⟩ := x
    constructor
    · rintro ⟨h1, h2⟩
      refine List.pairwise_cons.mpr ⟨?_, ih.mp h2⟩
      intro b hb heq
      have heq' : k = b.1 := heq
      have : lookup k t = some b.2 := lookup_of_mem h2 (by rw [heq']; exact hb)
      rw [h1] at this; cases this
    · intro h
      obtain ⟨h1, h2⟩ := List.pairwise_cons.mp h
      refine ⟨?_, ih.mpr h2⟩
      cases hl : lookup k t with
      | none => rfl
      | some e' => exact absurd rfl (h1 (k, e') (mem_of_lookup hl))

theorem nodup_perm {α : Type} {l l' : List (Key × α)} (hp : l.Perm l') (h : NoDup l) : NoDup l' := by
  rw [nodup_iff_pairwise] at h ⊢
  exact hp.pairwise h (fun hab => fun heq => hab heq.symm)

theorem distinct_iff (vs : List Key) : distinct vs = true ↔ vs.Pairwise (· ≠ ·) := by
  induction vs with
  | nil => exact ⟨fun _ => List.Pairwise.nil, fun _ => rfl⟩
  | cons a t ih =>
    unfold distinct
    simp only [Bool.and_eq_true, Bool.not_eq_true', List.contains_eq_mem, decide_eq_false_iff_not,
      List.pairwise_cons, ih]
    constructor
    · rintro ⟨h1, h2⟩; exact ⟨fun b hb heq => h1 (heq ▸ hb), h2⟩
    · rintro ⟨h1, h2⟩; exact ⟨fun hm => h1 a hm rfl, h2⟩

/-- **the victims the model computes are victims the policy allows**, for every policy, every
store with distinct keys and every requested number — ties included (the insertion sort is one
of the stable sorts of one of the iteration orders). -/
theorem detVictims_ok (p : Policy) (st : Store) (n : Nat) (hn : NoDup st) :
    victimsOk p st n (detVictims p st n) = true := by
  have hperm := sortBy_perm p st
  have hsorted := sortBy_sorted p st
  have hnd : NoDup (sortBy p st) := nodup_perm hperm.symm hn
  have hsplit : (sortBy p st).take n ++ (sortBy p st).drop n = sortBy p st := List.take_append_drop n _
  have hmemtake : ∀ x, x ∈ (sortBy p st).take n → x ∈ st := fun x hx =>
    hperm.mem_iff.mp (List.mem_of_mem_take hx)
  have hlook : ∀ x, x ∈ (sortBy p st).take n → lookup x.1 st = some x.2 := fun x hx =>
    lookup_of_mem hn (hmemtake x hx)
  unfold victimsOk detVictims
  simp only [Bool.and_eq_true, List.all_eq_true, beq_iff_eq, Bool.or_eq_true, List.contains_eq_mem,
    decide_eq_true_eq, List.mem_map, forall_exists_index, and_imp, forall_apply_eq_imp_iff₂]
  refine ⟨⟨⟨?_, ?_⟩, ?_⟩, ?_⟩
  · rw [distinct_iff]
    have h1 : ((sortBy p st).take n).Pairwise (fun a b => a.1 ≠ b.1) :=
      ((nodup_iff_pairwise _).mp hnd).sublist (List.take_sublist n _)
    exact List.pairwise_map.mpr h1
  · intro x hx; rw [hlook x hx]; rfl
  · rw [List.length_map, List.length_take, hperm.length_eq]
  · intro q hq
    have hq' : q ∈ (sortBy p st).take n ++ (sortBy p st).drop n := by rw [hsplit]; exact hperm.mem_iff.mpr hq
    rcases List.mem_append.mp hq' with hq1 | hq2
    · left; exact ⟨q, hq1, rfl⟩
    · right
      intro x hx
      rw [hlook x hx]
      have hpw : ((sortBy p st).take n ++ (sortBy p st).drop n).Pairwise (fun a b => metric p a.2 ≤ metric p b.2) := by
        rw [hsplit]; exact hsorted
      have := (List.pairwise_append.mp hpw).2.2 x hx q hq2
      simpa using this

/-! ### the extended in-memory model: metrics, cleanup task, caller-level operations -/
section MemX
open Cascette.Model.CacheExt Cascette.Model.CacheExt.Mem

theorem xstep_base_s (cfg : Config) (x : XState) (op : Op) :
    (xstep cfg x (.base op)).1.s = (step cfg x.s op).1 := by
  cases op <;> rfl

theorem xstep_cleanup_s (cfg : Config) (x : XState) : (xstep cfg x .cleanup).1.s = cleanupTick x.s := rfl

theorem inv_cleanupTick {s : State} (h : Inv s) : Inv (cleanupTick s) := inv_evictKeys _ _ h

theorem inv_xstep (cfg : Config) {x : XState} (op : XOp) (h : Inv x.s) : Inv (xstep cfg x op).1.s := by
  cases op with
  | base op => rw [xstep_base_s]; exact inv_step cfg op h
  | cleanup => exact inv_cleanupTick h

theorem inv_xrun (cfg : Config) (ops : List XOp) : ∀ x : XState, Inv x.s → Inv (xrun cfg x ops).s := by
  induction ops with
  | nil => intro x h; exact h
  | cons op t ih => intro x h; exact ih _ (inv_xstep cfg op h)

theorem ref_cleanupTick {s : State} {r : Ref} (h : RefInv s r) : RefInv (cleanupTick s) r :=
  fun k e hl hs => h k e (mono_evictKeys _ _ hl) hs

theorem ref_xstep (cfg : Config) {x : XState} {r : Ref} (op : XOp) (h : RefInv x.s r) :
    RefInv (xstep cfg x op).1.s (CacheMap.step r (absXOp cfg op)) := by
  cases op with
  | base op => rw [xstep_base_s]; exact ref_step cfg op h
  | cleanup => exact ref_cleanupTick h

theorem ref_xrun (cfg : Config) (ops : List XOp) : ∀ (x : XState) (r : Ref), RefInv x.s r →
    RefInv (xrun cfg x ops).s (CacheMap.run r (ops.map (absXOp cfg))) := by
  induction ops with
  | nil => intro x r h; exact h
  | cons op t ih => intro x r h; exact ih _ _ (ref_xstep cfg op h)

/-- `hit_count ≤ get_count` -/
theorem metrics_xstep (cfg : Config) {x : XState} (op : XOp) (h : x.m.hits ≤ x.m.gets) :
    (xstep cfg x op).1.m.hits ≤ (xstep cfg x op).1.m.gets := by
  cases op with
  | cleanup => exact h
  | base op =>
    cases op with
    | get k =>
      show (x.m.record _).hits ≤ (x.m.record _).gets
      unfold Metrics.record
      dsimp only
      split <;> omega
    | clear => exact Nat.le_refl 0
    | put k v vs => exact h
    | putTtl k v short vs => exact h
    | contains k => exact h
    | remove k => exact h
    | size => exact h
    | stats => exact h

theorem metrics_xrun (cfg : Config) (ops : List XOp) : ∀ x : XState, x.m.hits ≤ x.m.gets →
    (xrun cfg x ops).m.hits ≤ (xrun cfg x ops).m.gets := by
  induction ops with
  | nil => intro x h; exact h
  | cons op t ih => intro x h; exact ih _ (metrics_xstep cfg op h)

/-! cleanup: what one tick removes -/

theorem evictKeys_lookup (vs : List Key) : ∀ (s : State) (k : Key),
    lookup k (evictKeys s vs).store = if k ∈ vs then none else lookup k s.store := by
  induction vs with
  | nil => intro s k; simp [evictKeys]
  | cons v t ih =>
    intro s k
    show lookup k (evictKeys (removeCounted s v) t).store = _
    rw [ih]
    have hst : (removeCounted s v).store = erase v s.store := by
      unfold removeCounted
      cases hl : lookup v s.store with
      | none => exact (erase_of_lookup_none hl).symm
      | some e => rfl
    by_cases hk : k ∈ t
    · simp [hk]
    · simp only [hk, if_false, List.mem_cons, or_false]
      rw [hst]
      by_cases hkv : k = v
      · subst hkv; simp [lookup_erase_self]
      · simp only [hkv, if_false]; exact lookup_erase_ne hkv _

theorem mem_expiredKeys {st : Store} {k : Key} : k ∈ expiredKeys st ↔ ∃ e, (k, e) ∈ st ∧ e.short = true := by
  unfold expiredKeys
  simp only [List.mem_map, List.mem_filter]
  constructor
  · rintro ⟨p, ⟨hp, hs⟩, rfl⟩; exact ⟨p.2, hp, hs⟩
  · rintro ⟨e, he, hs⟩; exact ⟨(k, e), ⟨he, hs⟩, rfl⟩

/-- after a tick of the cleanup task: exactly the unexpired entries are left, under their keys -/
theorem cleanupTick_lookup {s : State} (hi : Inv s) (k : Key) :
    lookup k (cleanupTick s).store = match lookup k s.store with
      | some e => if e.short then none else some e
      | none => none := by
  unfold cleanupTick
  rw [evictKeys_lookup]
  cases hl : lookup k s.store with
  | none =>
    dsimp only
    split <;> rfl
  | some e =>
    dsimp only
    by_cases hs : e.short = true
    · have : k ∈ expiredKeys s.store := mem_expiredKeys.mpr ⟨e, mem_of_lookup hl, hs⟩
      simp [this, hs]
    · have : k ∉ expiredKeys s.store := by
        intro hk
        obtain ⟨e', he', hs'⟩ := mem_expiredKeys.mp hk
        have := lookup_of_mem hi.nodup he'
        rw [hl] at this; cases this; exact hs hs'
      simp [this, hs]

theorem cleanupTick_unswept {s : State} (hi : Inv s) : unswept (cleanupTick s).store = [] := by
  unfold unswept
  rw [List.filter_eq_nil_iff]
  intro p hp hs
  have hi' := inv_cleanupTick hi
  have hl := lookup_of_mem hi'.nodup (show (p.1, p.2) ∈ _ from hp)
  rw [cleanupTick_lookup hi] at hl
  cases hl0 : lookup p.1 s.store with
  | none => rw [hl0] at hl; cases hl
  | some e =>
    rw [hl0] at hl
    dsimp only at hl
    by_cases he : e.short = true
    · simp [he] at hl
    · simp [he] at hl; subst hl; exact he hs

/-- a tick of the cleanup task does not change what any `get` answers -/
theorem cleanupTick_get {s : State} (hi : Inv s) (k : Key) :
    (Model.MemCache.get (cleanupTick s) k).2 = (Model.MemCache.get s k).2 := by
  rw [get_out, get_out, cleanupTick_lookup hi]
  cases hl : lookup k s.store with
  | none => rfl
  | some e =>
    dsimp only
    by_cases he : e.short = true
    · simp [he]
    · simp [he]

theorem erase_eq_filter {α : Type} (k : Key) (l : List (Key × α)) :
    erase k l = l.filter (fun p => !(p.1 == k)) := by
  induction l with
  | nil => rfl
  | cons p t ih =>
    obtain ⟨k', e⟩ := p
    unfold erase
    by_cases h : k' = k
    · simp only [h, if_true, List.filter_cons, beq_self_eq_true, Bool.not_true, Bool.false_eq_true, if_false]
      exact ih
    · have hb : (k' == k) = false := by simpa using h
      simp only [h, if_false, List.filter_cons, hb, Bool.not_false, if_true]
      rw [ih]

theorem evictKeys_store (vs : List Key) : ∀ s : State,
    (evictKeys s vs).store = s.store.filter (fun p => !vs.contains p.1) := by
  induction vs with
  | nil => intro s; show s.store = _; exact (List.filter_eq_self.mpr (fun _ _ => rfl)).symm
  | cons v t ih =>
    intro s
    show (evictKeys (removeCounted s v) t).store = _
    rw [ih]
    have hst : (removeCounted s v).store = erase v s.store := by
      unfold removeCounted
      cases hl : lookup v s.store with
      | none => exact (erase_of_lookup_none hl).symm
      | some e => rfl
    rw [hst, erase_eq_filter, List.filter_filter]
    apply List.filter_congr
    intro p _
    simp only [List.contains_cons, Bool.not_or]
    rw [Bool.and_comm]

/-- a tick of the cleanup task leaves the retrievable entries exactly as they were -/
theorem cleanupTick_retrievable {s : State} (hi : Inv s) :
    retrievable (cleanupTick s).store = retrievable s.store := by
  unfold cleanupTick retrievable
  rw [evictKeys_store, List.filter_filter]
  apply List.filter_congr
  intro p hp
  cases hs : p.2.short with
  | true => simp
  | false =>
    have : p.1 ∉ expiredKeys s.store := by
      intro hk
      obtain ⟨e', he', hs'⟩ := mem_expiredKeys.mp hk
      have h1 := lookup_of_mem hi.nodup he'
      have h2 := lookup_of_mem hi.nodup (show (p.1, p.2) ∈ s.store from hp)
      rw [h1] at h2; cases h2; rw [hs] at hs'; cases hs'
    simp [this]

theorem cleanupTick_retrievable_length {s : State} (hi : Inv s) :
    (retrievable (cleanupTick s).store).length = (retrievable s.store).length := by
  rw [cleanupTick_retrievable hi]

theorem count_cleanupTick_le {s : State} : (cleanupTick s).count ≤ s.count := by
  unfold cleanupTick
  generalize expiredKeys s.store = vs
  induction vs generalizing s with
  | nil => exact Int.le_refl _
  | cons v t ih =>
    have h1 := @ih (removeCounted s v)
    have h2 := count_removeCounted_le s v
    show (evictKeys (removeCounted s v) t).count ≤ _
    omega

theorem count_xstep (cfg : Config) (hmax : 1 ≤ cfg.maxEntries) (hp : cfg.policy ≠ .ttl) {x : XState}
    (hi : Inv x.s) (hc : x.s.count ≤ (cfg.maxEntries : Int)) (op : XOp) (hok : xopOk cfg x op = true) :
    (xstep cfg x op).1.s.count ≤ (cfg.maxEntries : Int) := by
  cases op with
  | base op => rw [xstep_base_s]; exact count_step cfg hmax hp hi hc op hok
  | cleanup => have := @count_cleanupTick_le x.s; show (cleanupTick x.s).count ≤ _; omega

theorem count_xrun (cfg : Config) (hmax : 1 ≤ cfg.maxEntries) (hp : cfg.policy ≠ .ttl) (ops : List XOp) :
    ∀ x : XState, Inv x.s → x.s.count ≤ (cfg.maxEntries : Int) → xrunOk cfg x ops = true →
      (xrun cfg x ops).s.count ≤ (cfg.maxEntries : Int) := by
  induction ops with
  | nil => intro x _ hc _; exact hc
  | cons op t ih =>
    intro x hi hc hok
    unfold xrunOk at hok
    simp only [Bool.and_eq_true] at hok
    exact ih _ (inv_xstep cfg op hi) (count_xstep cfg hmax hp hi hc op hok.1) hok.2

/-- every caller-level operation elaborates to one whose victim list the policy allows -/
theorem elabOp_ok (cfg : Config) {x : XState} (hi : Inv x.s) (a : AOp) : xopOk cfg x (elabOp cfg x.s a) = true := by
  have hv : victimsOk cfg.policy (tick x.s).store (evictN cfg (tick x.s)) (autoVictims cfg x.s) = true :=
    detVictims_ok _ _ _ (inv_tick hi).nodup
  cases a with
  | put k v => show (!evicts cfg (tick x.s) || victimsOk _ _ _ _) = true; rw [hv]; simp
  | putTtl k v short => show (!evicts cfg (tick x.s) || victimsOk _ _ _ _) = true; rw [hv]; simp
  | get k => rfl
  | contains k => rfl
  | remove k => rfl
  | clear => rfl
  | size => rfl
  | stats => rfl
  | cleanup => rfl

theorem elabRun_ok (cfg : Config) (ops : List AOp) : ∀ x : XState, Inv x.s →
    xrunOk cfg x (elabRun cfg x ops) = true := by
  induction ops with
  | nil => intro x _; rfl
  | cons a t ih =>
    intro x hi
    unfold elabRun xrunOk
    rw [elabOp_ok cfg hi a, Bool.true_and]
    exact ih _ (inv_xstep cfg _ hi)

theorem arun_eq_xrun (cfg : Config) (ops : List AOp) : ∀ x : XState,
    arun cfg x ops = xrun cfg x (elabRun cfg x ops) := by
  induction ops with
  | nil => intro x; rfl
  | cons a t ih => intro x; exact ih _

end MemX

end Cascette.Proofs.CacheExt

namespace Cascette.Proofs.CacheExtDisk
open Cascette.Spec.CacheMap (Key Val Ref)
open Cascette.Model.CacheAssoc Cascette.Model.DiskCache Cascette.Proofs.CacheAssoc
open Cascette.Proofs.DiskCache
open Cascette.Spec

/-- does the operation store key `k` again, or replace the instance? -/
def revives (k : Key) : Op → Bool
  | .put k' _ | .putTtl k' _ _ => k' == k
  | .reopen => true
  | _ => false

/-- key `k` cannot be served by this instance: it is indexed with an ended TTL, or neither
indexed nor on disk -/
def Dead (k : Key) (s : State) : Prop :=
  (∃ e, lookup k s.index = some e ∧ e.short = true) ∨ (lookup k s.index = none ∧ lookup k s.files = none)

theorem dead_putCore (s : State) (k : Key) (v : Val) : Dead k (putCore s k v true) := by
  left
  refine ⟨{ size := v.length, short := true }, ?_, rfl⟩
  have hindex : (putCore s k v true).index = (k, { size := v.length, short := true }) :: erase k s.index := by
    unfold putCore; split <;> rfl
  rw [hindex, lookup_cons_self]

theorem dead_get_out {k : Key} {s : State} (h : Dead k s) :
    (Model.DiskCache.get s k).2 = .miss ∧ lookup k (Model.DiskCache.get s k).1.files = none := by
  unfold Model.DiskCache.get
  rcases h with ⟨e, he, hs⟩ | ⟨hi, hf⟩
  · rw [he]; dsimp only; rw [if_pos hs]
    exact ⟨rfl, lookup_erase_self _ _⟩
  · rw [hi]; dsimp only; rw [hf]; exact ⟨rfl, hf⟩

/-- an operation on another key leaves `k`'s index entry and file alone -/
theorem frame_putCore (s : State) {k k' : Key} (v' : Val) (short : Bool) (hne : k ≠ k') :
    lookup k (putCore s k' v' short).index = lookup k s.index ∧
    lookup k (putCore s k' v' short).files = lookup k s.files := by
  have hfiles : (putCore s k' v' short).files = (k', v') :: erase k' s.files := by
    unfold putCore; split <;> rfl
  have hindex : (putCore s k' v' short).index = (k', { size := v'.length, short := short }) :: erase k' s.index := by
    unfold putCore; split <;> rfl
  rw [hfiles, hindex, lookup_cons_ne hne, lookup_erase_ne hne, lookup_cons_ne hne, lookup_erase_ne hne]
  exact ⟨rfl, rfl⟩

theorem frame_get (s : State) {k k' : Key} (hne : k ≠ k') :
    lookup k (Model.DiskCache.get s k').1.index = lookup k s.index ∧
    lookup k (Model.DiskCache.get s k').1.files = lookup k s.files := by
  unfold Model.DiskCache.get
  cases hx : lookup k' s.index with
  | some e =>
    dsimp only
    by_cases hs : e.short = true
    · rw [if_pos hs]
      exact ⟨lookup_erase_ne hne _, lookup_erase_ne hne _⟩
    · rw [if_neg hs]
      cases hf : lookup k' s.files with
      | some v => exact ⟨rfl, rfl⟩
      | none => exact ⟨lookup_erase_ne hne _, rfl⟩
  | none =>
    dsimp only
    cases hf : lookup k' s.files with
    | some v =>
      dsimp only
      rw [lookup_cons_ne hne, lookup_erase_ne hne]
      exact ⟨rfl, rfl⟩
    | none => exact ⟨rfl, rfl⟩

theorem frame_remove (s : State) {k k' : Key} (hne : k ≠ k') :
    lookup k (remove s k').1.index = lookup k s.index ∧
    lookup k (remove s k').1.files = lookup k s.files := by
  unfold remove
  cases hx : lookup k' s.index with
  | some e => exact ⟨lookup_erase_ne hne _, lookup_erase_ne hne _⟩
  | none =>
    dsimp only
    cases hf : lookup k' s.files with
    | some v => exact ⟨rfl, lookup_erase_ne hne _⟩
    | none => exact ⟨rfl, rfl⟩

theorem dead_of_frame {k : Key} {s s' : State} (h : Dead k s)
    (hf : lookup k s'.index = lookup k s.index ∧ lookup k s'.files = lookup k s.files) : Dead k s' := by
  unfold Dead; rw [hf.1, hf.2]; exact h

theorem dead_step (cfg : Config) {k : Key} {s : State} (op : Op) (h : Dead k s)
    (hr : revives k op = false) : Dead k (step cfg s op).1 := by
  cases op with
  | put k' v' =>
    have hne : k ≠ k' := by intro h; subst h; simp [revives] at hr
    exact dead_of_frame h (frame_putCore s v' _ hne)
  | putTtl k' v' short =>
    have hne : k ≠ k' := by intro h; subst h; simp [revives] at hr
    exact dead_of_frame h (frame_putCore s v' short hne)
  | get k' =>
    by_cases hk : k = k'
    · subst hk
      right
      show lookup k (Model.DiskCache.get s k).1.index = none ∧ lookup k (Model.DiskCache.get s k).1.files = none
      refine ⟨?_, (dead_get_out h).2⟩
      unfold Model.DiskCache.get
      rcases h with ⟨e, he, hs⟩ | ⟨hi, hf⟩
      · rw [he]; dsimp only; rw [if_pos hs]; exact lookup_erase_self _ _
      · rw [hi]; dsimp only; rw [hf]; exact hi
    · exact dead_of_frame h (frame_get s hk)
  | contains k' => exact h
  | remove k' =>
    by_cases hk : k = k'
    · subst hk
      right
      show lookup k (remove s k).1.index = none ∧ lookup k (remove s k).1.files = none
      unfold remove
      rcases h with ⟨e, he, hs⟩ | ⟨hi, hf⟩
      · rw [he]; exact ⟨lookup_erase_self _ _, lookup_erase_self _ _⟩
      · rw [hi]; dsimp only; rw [hf]; exact ⟨hi, hf⟩
    · exact dead_of_frame h (frame_remove s hk)
  | clear => right; exact ⟨rfl, rfl⟩
  | size => exact h
  | stats => exact h
  | reopen => simp [revives] at hr

theorem dead_run (cfg : Config) {k : Key} (ops : List Op) : ∀ s, Dead k s →
    (∀ op ∈ ops, revives k op = false) → Dead k (run cfg s ops) := by
  induction ops with
  | nil => intro s h _; exact h
  | cons op t ih =>
    intro s h hr
    exact ih _ (dead_step cfg op h (hr op List.mem_cons_self)) (fun o ho => hr o (List.mem_cons_of_mem _ ho))

/-! disk metrics -/
section DX
open Cascette.Model.CacheExt Cascette.Model.CacheExt.Disk

theorem dxstep_s (cfg : Config) (x : XState) (op : Op) : (xstep cfg x op).1.s = (step cfg x.s op).1 := by
  cases op <;> rfl

theorem dxrun_s (cfg : Config) (ops : List Op) : ∀ x : XState, (xrun cfg x ops).s = run cfg x.s ops := by
  induction ops with
  | nil => intro x; rfl
  | cons op t ih =>
    intro x
    show (xrun cfg (xstep cfg x op).1 t).s = run cfg (step cfg x.s op).1 t
    rw [ih, dxstep_s]

theorem record_le (m : Metrics) (b : Bool) (h : m.hits ≤ m.gets) : (m.record b).hits ≤ (m.record b).gets := by
  cases b <;> simp [Metrics.record] <;> omega

theorem dmetrics_xstep (cfg : Config) {x : XState} (op : Op) (h : x.m.hits ≤ x.m.gets) :
    (xstep cfg x op).1.m.hits ≤ (xstep cfg x op).1.m.gets := by
  cases op with
  | get k =>
    exact record_le _ _ h
  | clear => exact Nat.le_refl 0
  | reopen => exact Nat.le_refl 0
  | put k v => exact h
  | putTtl k v short => exact h
  | contains k => exact h
  | remove k => exact h
  | size => exact h
  | stats => exact h

theorem dmetrics_xrun (cfg : Config) (ops : List Op) : ∀ x : XState, x.m.hits ≤ x.m.gets →
    (xrun cfg x ops).m.hits ≤ (xrun cfg x ops).m.gets := by
  induction ops with
  | nil => intro x h; exact h
  | cons op t ih => intro x h; exact ih _ (dmetrics_xstep cfg op h)

end DX
end Cascette.Proofs.CacheExtDisk
