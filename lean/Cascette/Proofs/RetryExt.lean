/-
Proofs/RetryExt — lemmas about the library-level parsers of `from_env` (Model/RetryEnv) and the
observation of sleeps through tokio's timer (Model/RetryClock).
-/
import Cascette.Model.RetryEnv
import Cascette.Model.RetryClock
import Cascette.Proofs.Retry
namespace Cascette.Proofs.RetryExt
open Cascette.Model.Retry Cascette.Model.RetryEnv Cascette.Model.RetryClock

theorem parseDigits_ge : ∀ (s : List Char) (acc v : Nat), parseDigits s acc = some v → acc ≤ v := by
  intro s
  induction s with
  | nil => intro acc v h; simp [parseDigits] at h; omega
  | cons c cs ih =>
    intro acc v h
    unfold parseDigits at h
    cases hd : digitVal c with
    | none => simp [hd] at h
    | some d =>
      simp only [hd] at h
      have := ih _ _ h
      omega

/-- step-wise overflow detection = computing the value and comparing it with the limit -/
theorem checkedLoop_eq (limit : Nat) : ∀ (s : List Char) (acc : Nat), acc < limit →
    checkedLoop limit s acc = (parseDigits s acc).bind fun v => if v < limit then some v else none := by
  intro s
  induction s with
  | nil => intro acc h; simp [checkedLoop, parseDigits, h]
  | cons c cs ih =>
    intro acc h
    unfold checkedLoop parseDigits
    cases hd : digitVal c with
    | none => simp
    | some d =>
      simp only
      by_cases h1 : 10 * acc < limit
      · by_cases h2 : 10 * acc + d < limit
        · rw [if_pos h1, if_pos h2]; exact ih _ h2
        · rw [if_pos h1, if_neg h2]
          cases hp : parseDigits cs (10 * acc + d) with
          | none => rfl
          | some v =>
            have := parseDigits_ge _ _ _ hp
            simp only [Option.bind_some]
            rw [if_neg (by omega)]
      · rw [if_neg h1]
        cases hp : parseDigits cs (10 * acc + d) with
        | none => rfl
        | some v =>
          have := parseDigits_ge _ _ _ hp
          simp only [Option.bind_some]
          rw [if_neg (by omega)]

theorem parseBody_eq (limit : Nat) (hl : 0 < limit) (body : List Char) (hne : body ≠ []) :
    parseBody limit body = checkedLoop limit body 0 := by
  rw [checkedLoop_eq limit body 0 hl]
  unfold parseBody
  have : body.isEmpty = false := by cases body <;> simp_all
  rw [this]
  cases parseDigits body 0 <;> simp

theorem stripPlus_plus (cs : List Char) : stripPlus ('+' :: cs) = cs := rfl

theorem stripPlus_of_ne (c : Char) (cs : List Char) (h : c ≠ '+') : stripPlus (c :: cs) = c :: cs := by
  unfold stripPlus
  split
  · rename_i r heq
    cases heq
    exact absurd rfl h
  · rfl

/-- `from_str_radix` as the library writes it = `Model.Retry.parseUnsigned` -/
theorem parseUnsignedChecked_eq (limit : Nat) (hl : 0 < limit) (s : List Char) :
    parseUnsignedChecked limit s = parseUnsigned limit s := by
  unfold parseUnsignedChecked parseUnsigned
  cases s with
  | nil => simp [stripPlus, parseBody]
  | cons c cs =>
    simp only [List.isEmpty_cons, Bool.false_eq_true, ↓reduceIte]
    by_cases hp : c :: cs = ['+']
    · rw [if_pos (Or.inl hp), hp, stripPlus_plus]; simp [parseBody]
    · by_cases hm : c :: cs = ['-']
      · rw [if_pos (Or.inr hm), hm, stripPlus_of_ne _ _ (by decide)]
        have : digitVal '-' = none := by decide
        simp [parseBody, parseDigits, this]
      · rw [if_neg (by simp only [not_or]; exact ⟨hp, hm⟩)]
        refine (parseBody_eq limit hl _ ?_).symm
        intro h
        by_cases hc : c = '+'
        · subst hc
          rw [stripPlus_plus] at h
          subst h
          exact hp rfl
        · rw [stripPlus_of_ne _ _ hc] at h
          cases h

/-! ### the 30-year clamp -/

theorem view_observed (room d : Nat) (hroom : farFuture ≤ room) : view (observed room d) = view d := by
  unfold view observed tick sleepFor farFuture at *
  split <;> omega

theorem view_exact (d : Nat) (h : d ≤ farFuture) : view d = (d + 999999) / 1000000 := by
  unfold view; rw [Nat.min_eq_left h]

theorem view_above (d : Nat) (h : farFuture ≤ d) : view d = view farFuture := by
  unfold view; rw [Nat.min_eq_right h, Nat.min_self]

end Cascette.Proofs.RetryExt
