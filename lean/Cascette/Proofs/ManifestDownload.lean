/-
Proofs/ManifestDownload — invariant and refinement of the DownloadManifestBuilder model over WHOLE
builder programs (the counterpart of `irun_refines` for the install builder): the six tag/file
operations (with the download builder's own `remove_file` running-position loop and `remove_tag`
name-map REBUILD) plus the configuration and per-file setters (`with_checksums`, `with_flags`,
`with_base_priority`, `set_file_checksum`, `set_file_flags`), which must not disturb masks, tags or
the name map.
-/
import Cascette.Proofs.ManifestBuilder
namespace Cascette.Proofs.Manifest
open Cascette Cascette.Model.Manifest Cascette.Spec.TagSets

/-! ### `remove_tag`: the rebuilt name map -/

/-- `tag_name_to_index.clear(); for (i, tag) in tags.iter().enumerate() { insert(name, i) }`
resolves every name to its position (names distinct: "later wins" never fires). -/
theorem nmLookup_rebuild (ts : List Tag) (i : Nat) (m : NameMap) (x : Bytes)
    (hnd : (ts.map (·.name)).Nodup) :
    nmLookup (rebuildNames ts i m) x =
      match idxOfN (ts.map (·.name)) x with
      | some j => some (i + j)
      | none => nmLookup m x := by
  induction ts generalizing i m with
  | nil => simp [rebuildNames, idxOfN]
  | cons t ts ih =>
    simp only [List.map_cons] at hnd
    have hnn : t.name ∉ ts.map (·.name) := (List.nodup_cons.mp hnd).1
    have hnd' := (List.nodup_cons.mp hnd).2
    simp only [rebuildNames, List.map_cons, idxOfN]
    rw [ih (i + 1) _ hnd']
    by_cases hn : t.name = x
    · subst hn
      have : idxOfN (ts.map (·.name)) t.name = none := (idxOfN_none _ _).mpr hnn
      simp [this, nmLookup_insert]
    · simp only [hn, if_false]
      cases hj : idxOfN (ts.map (·.name)) x with
      | none =>
        have : ¬ x = t.name := fun e => hn e.symm
        simp [nmLookup_insert, this]
      | some j => simp; omega

theorem look_rebuild (ts : List Tag) (hnd : (ts.map (·.name)).Nodup) : Look ts (rebuildNames ts 0 []) := by
  intro x
  rw [nmLookup_rebuild ts 0 [] x hnd]
  cases idxOfN (ts.map (·.name)) x with
  | none => rfl
  | some j => simp

/-! ### download builder: programs, invariant, abstraction -/

/-- the abstract file of a download manifest: (encoding key, size, priority) -/
abbrev DF := Bytes × Nat × Int

def dfOf (e : DEntry) : DF := (e.key, e.size, e.prio)

/-- download builder programs: the six tag/file operations and the five setters -/
inductive DOp where
  | addTag (name : Bytes) (typ : Nat)
  | addFile (key : Bytes) (size : Nat) (prio : Int)
  | assoc (i : Nat) (name : Bytes)
  | dissoc (i : Nat) (name : Bytes)
  | removeFile (k : Nat)
  | removeTag (name : Bytes)
  | withChecksums (en : Bool)
  | withFlags (fs : Nat)
  | withBase (bp : Int)
  | setChecksum (i c : Nat)
  | setFlags (i : Nat) (f : Bytes)
deriving Repr

/-- the abstract operation a download-builder call stands for. The setters are stutter steps (no
abstract operation: they change neither the file list as (key, size, priority) nor any
membership); an `add_file` with a size above `2^40 - 1` is rejected by the builder
(`u40_roundtrip`) and therefore is no abstract operation either. -/
def DOp.spec : DOp → Option (Op DF)
  | .addTag n t => some (.addTag n t)
  | .addFile k s p => if s > max40 then none else some (.addFile (k, s, p))
  | .assoc i n => some (.assoc i n)
  | .dissoc i n => some (.dissoc i n)
  | .removeFile k => some (.removeFile k)
  | .removeTag n => some (.removeTag n)
  | _ => none

/-- the abstract program of a download-builder program -/
def specProg (ops : List DOp) : List (Op DF) := ops.filterMap DOp.spec

/-- a call that returns `Err` leaves the builder as it was -/
def orKeepD (b : DBuilder) : Except Err DBuilder → DBuilder
  | .ok b' => b'
  | .error _ => b

def dstep (b : DBuilder) : DOp → DBuilder
  | .addTag n t => b.addTag n t
  | .addFile k s p => orKeepD b (b.addFile k s p)
  | .assoc i n => orKeepD b (b.assoc i n)
  | .dissoc i n => orKeepD b (b.dissoc i n)
  | .removeFile k => (b.removeFile k).1
  | .removeTag n => match b.removeTag n with | .ok (b', _) => b' | .error _ => b
  | .withChecksums en => b.withChecksums en
  | .withFlags fs => orKeepD b (b.withFlags fs)
  | .withBase bp => orKeepD b (b.withBase bp)
  | .setChecksum i c => orKeepD b (b.setChecksum i c)
  | .setFlags i f => orKeepD b (b.setFlags i f)

def drun (b : DBuilder) (ops : List DOp) : DBuilder := ops.foldl dstep b

structure DInv (b : DBuilder) : Prop where
  masks : ∀ t ∈ b.tags, MaskOk b.entries.length t.mask
  nodup : (b.tags.map (·.name)).Nodup
  look : Look b.tags b.names

def absD (b : DBuilder) : SState DF :=
  ⟨b.entries.map dfOf, b.tags.map (absTag b.entries.length)⟩

theorem hasName_absD (n : Nat) (tags : List Tag) (files : List DF) (name : Bytes) :
    hasName (⟨files, tags.map (absTag n)⟩ : SState DF) name = true ↔ name ∈ tags.map (·.name) := by
  unfold hasName
  simp only [List.any_map, List.any_eq_true, Function.comp, absTag, List.mem_map]
  constructor
  · rintro ⟨t, ht, h⟩; exact ⟨t, ht, of_decide_eq_true h⟩
  · rintro ⟨t, ht, h⟩; exact ⟨t, ht, decide_eq_true h⟩

theorem absD_files_length (b : DBuilder) : (absD b).files.length = b.entries.length := by
  simp [absD]

/-- the common shape of `associate_file_with_tag` / `disassociate_file_from_tag` -/
def dbitOp (b : DBuilder) (i : Nat) (name : Bytes) (f : Bytes → Bytes) : Except Err DBuilder :=
  if i ≥ b.entries.length then .error .fileOob else
  match nmLookup b.names name with
  | none => .error .tagNotFound
  | some ti =>
    match modTag b.tags ti f with
    | .error e => .error e
    | .ok ts => .ok { b with tags := ts }

theorem dassoc_eq (b : DBuilder) (i : Nat) (name : Bytes) :
    b.assoc i name = dbitOp b i name (fun m => addFile m i) := rfl
theorem ddissoc_eq (b : DBuilder) (i : Nat) (name : Bytes) :
    b.dissoc i name = dbitOp b i name (fun m => removeFile m i) := rfl

theorem dbitOp_refines (b : DBuilder) (hI : DInv b) (i : Nat) (name : Bytes) (f : Bytes → Bytes) (v : Bool)
    (hf : ∀ m, i < b.entries.length → MaskOk b.entries.length m →
      MaskOk b.entries.length (f m) ∧ memOf b.entries.length (f m) = (memOf b.entries.length m).set i v) :
    DInv (orKeepD b (dbitOp b i name f)) ∧ absD (orKeepD b (dbitOp b i name f)) =
      (if i < (absD b).files.length ∧ hasName (absD b) name = true
        then { absD b with tags := setMem (absD b).tags i name v } else absD b) := by
  by_cases hi : i ≥ b.entries.length
  · have e : dbitOp b i name f = .error .fileOob := by unfold dbitOp; rw [if_pos hi]
    rw [e]
    have : ¬ i < (absD b).files.length := by rw [absD_files_length]; omega
    simp [this, hI, orKeepD]
  · have hi' : i < b.entries.length := by omega
    cases hl : nmLookup b.names name with
    | none =>
      have e : dbitOp b i name f = .error .tagNotFound := by unfold dbitOp; rw [if_neg hi, hl]
      rw [e]
      have hnot : name ∉ b.tags.map (·.name) := by
        rw [← idxOfN_none, ← hI.look name]; exact hl
      have : ¬ hasName (absD b) name = true := by
        unfold absD; rw [hasName_absD]; exact hnot
      simp [this, hI, orKeepD]
    | some ti =>
      have hidx : idxOfN (b.tags.map (·.name)) name = some ti := by rw [← hI.look name]; exact hl
      have hget := idxOfN_some _ _ _ hidx
      have hlt : ti < b.tags.length := by
        have := (List.getElem?_eq_some_iff.mp hget).1
        simpa using this
      have e : dbitOp b i name f = .ok { b with tags := b.tags.modify ti fun t => { t with mask := f t.mask } } := by
        unfold dbitOp modTag; rw [if_neg hi, hl]; simp only; rw [if_neg (by omega)]
      rw [e]
      simp only [orKeepD]
      have hmem : name ∈ b.tags.map (·.name) := List.mem_of_getElem? hget
      have hhas : hasName (absD b) name = true := by unfold absD; rw [hasName_absD]; exact hmem
      have hnames := names_modify_mask b.tags ti f
      refine ⟨⟨?_, ?_, ?_⟩, ?_⟩
      · intro t ht
        simp only at ht ⊢
        obtain ⟨j, hj⟩ := List.getElem?_of_mem ht
        rw [List.getElem?_modify] at hj
        cases hg : b.tags[j]? with
        | none => rw [hg] at hj; cases hj
        | some t0 =>
          rw [hg] at hj
          simp only [Option.map_eq_map, Option.map_some, Option.some.injEq] at hj
          have ht0 : t0 ∈ b.tags := List.mem_of_getElem? hg
          split at hj
          · subst hj; exact (hf _ hi' (hI.masks t0 ht0)).1
          · subst hj; exact hI.masks t0 ht0
      · simp only; rw [hnames]; exact hI.nodup
      · intro x; simp only; rw [hnames]; exact hI.look x
      · have hcond : i < (absD b).files.length ∧ hasName (absD b) name = true :=
          ⟨by rw [absD_files_length]; exact hi', hhas⟩
        rw [if_pos hcond]
        unfold absD setMem
        simp only
        congr 1
        exact modify_eq_mapIf b.tags name ti _ (absTag b.entries.length)
          (fun s => { s with mem := s.mem.set i v }) hI.nodup hidx (fun _ => rfl)
          (fun t ht => by
            unfold absTag
            simp only [(hf t.mask hi' (hI.masks t ht)).2])

theorem daddTag_refines (b : DBuilder) (hI : DInv b) (name : Bytes) (typ : Nat)
    (hfresh : hasName (absD b) name = false) :
    DInv (b.addTag name typ) ∧ absD (b.addTag name typ) =
      { absD b with tags := (absD b).tags ++ [⟨name, typ, List.replicate (absD b).files.length false⟩] } := by
  have hnot : name ∉ b.tags.map (·.name) := by
    intro h
    have := (hasName_absD b.entries.length b.tags (b.entries.map dfOf) name).mpr h
    unfold absD at hfresh; rw [this] at hfresh; cases hfresh
  unfold DBuilder.addTag
  refine ⟨⟨?_, ?_, ?_⟩, ?_⟩
  · intro t ht
    simp only [List.mem_append, List.mem_singleton] at ht ⊢
    rcases ht with ht | ht
    · exact hI.masks t ht
    · subst ht; exact maskOk_zero _
  · simp only [List.map_append, List.map_cons, List.map_nil]
    rw [List.nodup_append]
    refine ⟨hI.nodup, by simp, ?_⟩
    intro a ha c hc
    simp only [List.mem_singleton] at hc
    subst hc
    intro e; subst e; exact hnot ha
  · intro x
    simp only [List.map_append, List.map_cons, List.map_nil]
    rw [nmLookup_insert, idxOfN_append_fresh _ _ _ hnot, List.length_map, hI.look x]
  · unfold absD
    simp only [List.map_append, List.map_cons, List.map_nil, absTag, memOf_zero, List.length_map]

/-- `add_file` with an accepted size: a new `false` column; an oversized file: nothing changes -/
theorem daddFile_refines (b : DBuilder) (hI : DInv b) (key : Bytes) (size : Nat) (prio : Int) :
    DInv (orKeepD b (b.addFile key size prio)) ∧ absD (orKeepD b (b.addFile key size prio)) =
      (if size > max40 then absD b else
        { files := (absD b).files ++ [(key, size, prio)],
          tags := (absD b).tags.map fun t => { t with mem := t.mem ++ [false] } }) := by
  unfold DBuilder.addFile
  by_cases hs : size > max40
  · rw [if_pos hs, if_pos hs]; exact ⟨hI, rfl⟩
  · rw [if_neg hs, if_neg hs]
    simp only [orKeepD, growMasks_eq]
    have hlen : ∀ e : DEntry, (b.entries ++ [e]).length = b.entries.length + 1 := by simp
    refine ⟨⟨?_, ?_, ?_⟩, ?_⟩
    · intro t ht
      simp only [List.mem_map] at ht
      obtain ⟨t0, ht0, rfl⟩ := ht
      simp only [hlen]
      exact (growMask_ok _ _ (hI.masks t0 ht0)).1
    · simp only [List.map_map, Function.comp_def]; exact hI.nodup
    · intro x; simp only [List.map_map, Function.comp_def]; exact hI.look x
    · unfold absD
      simp only [hlen, List.map_map, List.map_append, List.map_cons, List.map_nil, dfOf]
      congr 1
      apply List.map_congr_left
      intro t ht
      simp only [Function.comp, absTag, (growMask_ok _ _ (hI.masks t ht)).2]

theorem map_eraseIdx' {α β : Type} (f : α → β) (l : List α) (k : Nat) :
    (l.eraseIdx k).map f = (l.map f).eraseIdx k := by
  induction l generalizing k with
  | nil => simp
  | cons a as ih =>
    cases k with
    | zero => simp
    | succ j => simp [ih j]

theorem dremoveFile_refines (b : DBuilder) (hI : DInv b) (k : Nat) :
    DInv (b.removeFile k).1 ∧ absD (b.removeFile k).1 =
      (if k < (absD b).files.length then
        { files := (absD b).files.eraseIdx k, tags := (absD b).tags.map fun t => { t with mem := t.mem.eraseIdx k } }
       else absD b) := by
  unfold DBuilder.removeFile
  by_cases hk : k ≥ b.entries.length
  · rw [if_pos hk]
    have : ¬ k < (absD b).files.length := by rw [absD_files_length]; omega
    simp [this, hI]
  · rw [if_neg hk]
    have hk' : k < b.entries.length := by omega
    have hlen : (b.entries.eraseIdx k).length = b.entries.length - 1 := by
      rw [List.length_eraseIdx, if_pos hk']
    simp only [hlen]
    refine ⟨⟨?_, ?_, ?_⟩, ?_⟩
    · intro t ht
      simp only [List.mem_map] at ht
      obtain ⟨t0, ht0, rfl⟩ := ht
      simp only [hlen]
      exact (dlRemove_ok _ _ _ hk' (hI.masks t0 ht0)).1
    · simp only [List.map_map, Function.comp_def]; exact hI.nodup
    · intro x; simp only [List.map_map, Function.comp_def]; exact hI.look x
    · have : k < (absD b).files.length := by rw [absD_files_length]; exact hk'
      rw [if_pos this]
      unfold absD
      simp only [hlen, List.map_map]
      congr 1
      · exact map_eraseIdx' dfOf b.entries k
      · apply List.map_congr_left
        intro t ht
        simp only [Function.comp, absTag, (dlRemove_ok _ _ _ hk' (hI.masks t ht)).2]

/-- `remove_tag`: `Vec::remove` + REBUILD of the name map from the remaining tags -/
theorem dremoveTag_refines (b : DBuilder) (hI : DInv b) (name : Bytes) :
    DInv (match b.removeTag name with | .ok (b', _) => b' | .error _ => b) ∧
    absD (match b.removeTag name with | .ok (b', _) => b' | .error _ => b) =
      { absD b with tags := (absD b).tags.filter fun t => t.name ≠ name } := by
  unfold DBuilder.removeTag
  cases hl : nmLookup b.names name with
  | none =>
    have hnot : name ∉ b.tags.map (·.name) := by
      rw [← idxOfN_none, ← hI.look name]; exact hl
    simp only
    refine ⟨hI, ?_⟩
    unfold absD
    simp only
    congr 1
    symm
    apply List.filter_eq_self.mpr
    intro s hs
    obtain ⟨t, ht, rfl⟩ := List.mem_map.mp hs
    apply decide_eq_true
    intro e; apply hnot; rw [← e]; exact List.mem_map_of_mem ht
  | some ti =>
    have hidx : idxOfN (b.tags.map (·.name)) name = some ti := by rw [← hI.look name]; exact hl
    have hget := idxOfN_some _ _ _ hidx
    have hlt : ti < b.tags.length := by
      have := (List.getElem?_eq_some_iff.mp hget).1
      simpa using this
    simp only [if_neg (show ¬ ti ≥ b.tags.length by omega)]
    have hnames : (b.tags.eraseIdx ti).map (·.name) = (b.tags.map (·.name)).eraseIdx ti :=
      map_name_eraseIdx _ _
    have hnd' : ((b.tags.eraseIdx ti).map (·.name)).Nodup := by
      rw [hnames]; exact List.Nodup.sublist (List.eraseIdx_sublist _ _) hI.nodup
    refine ⟨⟨?_, hnd', look_rebuild _ hnd'⟩, ?_⟩
    · intro t ht; exact hI.masks t (List.mem_of_mem_eraseIdx ht)
    · unfold absD
      simp only
      congr 1
      exact eraseIdx_eq_filter b.tags name ti _ hI.nodup hidx (fun _ => rfl)

/-! ### the setters touch neither masks, tags, names nor (key, size, priority) -/

theorem map_dfOf_modify (es : List DEntry) (i : Nat) (g : DEntry → DEntry) (hg : ∀ e, dfOf (g e) = dfOf e) :
    (es.modify i g).map dfOf = es.map dfOf := by
  induction es generalizing i with
  | nil => simp
  | cons e es ih =>
    cases i with
    | zero => simp [hg]
    | succ k => simp [ih k]

/-- a builder that differs only in configuration / checksum / flag fields has the same abstraction
and keeps the invariant -/
theorem setter_keeps (b b' : DBuilder) (hI : DInv b) (ht : b'.tags = b.tags) (hn : b'.names = b.names)
    (he : b'.entries.map dfOf = b.entries.map dfOf) : DInv b' ∧ absD b' = absD b := by
  have hlen : b'.entries.length = b.entries.length := by
    have := congrArg List.length he; simpa using this
  refine ⟨⟨?_, ?_, ?_⟩, ?_⟩
  · rw [ht, hlen]; exact hI.masks
  · rw [ht]; exact hI.nodup
  · rw [ht, hn]; exact hI.look
  · unfold absD; rw [ht, he, hlen]

theorem setter_refines (b : DBuilder) (hI : DInv b) (op : DOp) (hop : op.spec = none)
    (hadd : ∀ k s p, op ≠ .addFile k s p) : DInv (dstep b op) ∧ absD (dstep b op) = absD b := by
  cases op with
  | addTag n t => cases hop
  | addFile k s p => exact absurd rfl (hadd k s p)
  | assoc i n => cases hop
  | dissoc i n => cases hop
  | removeFile k => cases hop
  | removeTag n => cases hop
  | withChecksums en => exact setter_keeps b _ hI rfl rfl rfl
  | withFlags fs =>
    simp only [dstep, DBuilder.withFlags]
    split
    · exact ⟨hI, rfl⟩
    · split
      · exact ⟨hI, rfl⟩
      · exact setter_keeps b _ hI rfl rfl rfl
  | withBase bp =>
    simp only [dstep, DBuilder.withBase]
    split
    · exact ⟨hI, rfl⟩
    · exact setter_keeps b _ hI rfl rfl rfl
  | setChecksum i c =>
    simp only [dstep, DBuilder.setChecksum]
    split
    · exact ⟨hI, rfl⟩
    · split
      · exact ⟨hI, rfl⟩
      · exact setter_keeps b _ hI rfl rfl (map_dfOf_modify _ _ _ (fun _ => rfl))
  | setFlags i f =>
    simp only [dstep, DBuilder.setFlags]
    split
    · exact ⟨hI, rfl⟩
    · split
      · exact ⟨hI, rfl⟩
      · split
        · exact ⟨hI, rfl⟩
        · exact setter_keeps b _ hI rfl rfl (map_dfOf_modify _ _ _ (fun _ => rfl))

/-! ### one step, whole programs -/

/-- one step of a download program: invariant kept; the abstraction takes the abstract step of
`op.spec`, or stays where it is when the call is a setter / a rejected oversized `add_file` -/
theorem dstep_refines (b : DBuilder) (hI : DInv b) (op : DOp) :
    match op.spec with
    | none => DInv (dstep b op) ∧ absD (dstep b op) = absD b
    | some sop => ∀ s', step (absD b) sop = some s' → DInv (dstep b op) ∧ absD (dstep b op) = s' := by
  cases op with
  | addTag name typ =>
    simp only [DOp.spec]
    intro s' hs
    simp only [step] at hs
    split at hs
    · cases hs
    · rename_i hf
      have hf' : hasName (absD b) name = false := by simpa using hf
      simp only [Option.some.injEq] at hs
      subst hs
      exact daddTag_refines b hI name typ hf'
  | addFile key size prio =>
    have := daddFile_refines b hI key size prio
    simp only [DOp.spec]
    by_cases hs : size > max40
    · rw [if_pos hs] at this ⊢
      exact this
    · rw [if_neg hs] at this ⊢
      intro s' hs'
      simp only [step, Option.some.injEq] at hs'
      subst hs'
      exact this
  | assoc i name =>
    have := dbitOp_refines b hI i name (fun m => addFile m i) true (fun m hi hm => addFile_ok _ _ _ hi hm)
    simp only [DOp.spec, dstep, dassoc_eq]
    intro s' hs
    refine ⟨this.1, ?_⟩
    rw [this.2]
    simp only [step] at hs
    exact ite_some hs
  | dissoc i name =>
    have := dbitOp_refines b hI i name (fun m => removeFile m i) false (fun m hi hm => removeFile_ok _ _ _ hi hm)
    simp only [DOp.spec, dstep, ddissoc_eq]
    intro s' hs
    refine ⟨this.1, ?_⟩
    rw [this.2]
    simp only [step] at hs
    exact ite_some hs
  | removeFile k =>
    have := dremoveFile_refines b hI k
    simp only [DOp.spec, dstep]
    intro s' hs
    refine ⟨this.1, ?_⟩
    rw [this.2]
    simp only [step] at hs
    exact ite_some hs
  | removeTag name =>
    have := dremoveTag_refines b hI name
    simp only [DOp.spec, dstep]
    intro s' hs
    refine ⟨this.1, ?_⟩
    rw [this.2]
    simp only [step, Option.some.injEq] at hs
    exact hs
  | withChecksums en => exact setter_refines b hI _ rfl (fun _ _ _ h => by cases h)
  | withFlags fs => exact setter_refines b hI _ rfl (fun _ _ _ h => by cases h)
  | withBase bp => exact setter_refines b hI _ rfl (fun _ _ _ h => by cases h)
  | setChecksum i c => exact setter_refines b hI _ rfl (fun _ _ _ h => by cases h)
  | setFlags i f => exact setter_refines b hI _ rfl (fun _ _ _ h => by cases h)

theorem dinv_new (v : Nat) (b : DBuilder) (h : DBuilder.new v = .ok b) : DInv b ∧ absD b = SState.empty := by
  unfold DBuilder.new at h
  split at h
  · cases h
  · simp only [Except.ok.injEq] at h
    subst h
    exact ⟨⟨fun _ h => by simp at h, by simp, fun _ => rfl⟩, rfl⟩

/-- whole programs -/
theorem drun_refines (ops : List DOp) (b : DBuilder) (hI : DInv b) (s' : SState DF)
    (hs : run (absD b) (specProg ops) = some s') : DInv (drun b ops) ∧ absD (drun b ops) = s' := by
  induction ops generalizing b with
  | nil =>
    simp only [specProg, List.filterMap_nil, run, Option.some.injEq] at hs
    subst hs; exact ⟨hI, rfl⟩
  | cons op ops ih =>
    have h1 := dstep_refines b hI op
    simp only [drun, List.foldl_cons]
    cases hsp : op.spec with
    | none =>
      rw [hsp] at h1
      simp only [specProg, List.filterMap_cons, hsp] at hs
      exact ih (dstep b op) h1.1 (by rw [h1.2]; exact hs)
    | some sop =>
      rw [hsp] at h1
      simp only [specProg, List.filterMap_cons, hsp, run] at hs
      cases hst : step (absD b) sop with
      | none => rw [hst] at hs; cases hs
      | some s1 =>
        rw [hst] at hs
        simp only at hs
        obtain ⟨h2, h3⟩ := h1 s1 hst
        exact ih (dstep b op) h2 (by rw [h3]; exact hs)

end Cascette.Proofs.Manifest
