/-
Proofs/CdnDownload — lemmas about `Model.CdnDownload.download` and the joint histories
(`drun`), on top of the cache lemmas of Proofs/Fallback and the retry loop of Model/Retry.
-/
import Cascette.Model.CdnDownload
import Cascette.Proofs.Fallback
import Cascette.Proofs.Retry
namespace Cascette.Proofs.CdnDownload
open Cascette.Model.Fallback Cascette.Proofs.Fallback
open Cascette.Model.CdnDownload
open Cascette.Model.Retry (Arith Policy Outcome Result Trace execute defaultPolicy)
open Cascette.Proofs.Retry (Retryable)

/-! ### the retry loop: a success is the first non-retryable outcome of the script -/

theorem loop_ok_decomp (A : Arith) (p : Policy) (jit : Nat → Nat → Nat) (a b : Nat)
    (outs : List Outcome) (v : Nat) (h : (Model.Retry.loop A p jit a b outs).result = .ok v) :
    ∃ pre post, outs = pre ++ .ok v :: post ∧ (∀ o ∈ pre, Retryable o) ∧
      (Model.Retry.loop A p jit a b outs).calls = pre.length + 1 := by
  fun_induction Model.Retry.loop A p jit a b outs with
  | case1 => cases h
  | case2 a b v' rest =>
    simp only [Result.ok.injEq] at h; subst h
    exact ⟨[], rest, rfl, by simp, rfl⟩
  | case3 a b e rest hc => cases h
  | case4 a b e rest hc base hd => cases h
  | case5 a b e rest hc base delay hd hb => cases h
  | case6 a b e rest hc base delay hd b' hb t ih =>
    obtain ⟨pre, post, h1, h2, h3⟩ := ih h
    refine ⟨.err e :: pre, post, by rw [h1]; rfl, ?_, by simp only [List.length_cons]; exact congrArg (· + 1) h3⟩
    intro o ho
    simp only [List.mem_cons] at ho
    rcases ho with rfl | ho
    · refine ⟨e, rfl, ?_⟩
      cases hs : e.shouldRetry
      · simp [hs] at hc
      · rfl
    · exact h2 o ho

theorem execute_ok_decomp (A : Arith) (p : Policy) (jit : Nat → Nat → Nat)
    (outs : List Outcome) (v : Nat) (h : (execute A p jit outs).result = .ok v) :
    ∃ pre post, outs = pre ++ .ok v :: post ∧ (∀ o ∈ pre, Retryable o) ∧
      (execute A p jit outs).calls = pre.length + 1 :=
  loop_ok_decomp A p jit 0 (A.first p) outs v h

/-! ### the exits of `download` -/

variable {κ : Type} [DecidableEq κ]

/-- the network step of `download`. -/
abbrev fetch (A : Arith) (jit : Nat → Nat → Nat) (outs : List Outcome) : Trace :=
  execute A defaultPolicy jit outs

theorem download_exits (A : Arith) (jit : Nat → Nat → Nat) (junk : Nat) (st : CState κ Nat)
    (c now tStore : Nat) (ob : Obj κ) (outs : List Outcome) :
    (ob.keyOk = false ∧ download A jit junk st c now tStore ob outs = (st, 0, .err .invalidKey)) ∨
    (ob.keyOk = true ∧ ∃ e, (cacheGet st c ob.key now).2 = .error e ∧
        download A jit junk st c now tStore ob outs = ((cacheGet st c ob.key now).1, 0, .err (.cache 0))) ∨
    (ob.keyOk = true ∧ ∃ d, (cacheGet st c ob.key now).2 = .ok (some (.doc d)) ∧
        download A jit junk st c now tStore ob outs = ((cacheGet st c ob.key now).1, 0, .ok d)) ∨
    (ob.keyOk = true ∧ (cacheGet st c ob.key now).2 = .ok (some .junk) ∧
        download A jit junk st c now tStore ob outs = ((cacheGet st c ob.key now).1, 0, .ok junk)) ∨
    (ob.keyOk = true ∧ (cacheGet st c ob.key now).2 = .ok none ∧
        ((∃ v, (fetch A jit outs).result = .ok v ∧
            download A jit junk st c now tStore ob outs =
              (cachePut (cacheGet st c ob.key now).1 c ob.key (.doc v) (tStore + ob.ttl),
                (fetch A jit outs).calls, .ok v)) ∨
         ((∀ v, (fetch A jit outs).result ≠ .ok v) ∧
            download A jit junk st c now tStore ob outs =
              ((cacheGet st c ob.key now).1, (fetch A jit outs).calls, (fetch A jit outs).result)))) := by
  unfold download fetch
  cases hv : ob.keyOk with
  | false => left; simp
  | true =>
    right
    simp only [Bool.not_true, Bool.false_eq_true, if_false, true_and]
    rcases hg : cacheGet st c ob.key now with ⟨st1, g⟩
    rcases g with e | g
    · left; exact ⟨e, rfl, rfl⟩
    · right
      rcases g with _ | b
      · right; right
        refine ⟨rfl, ?_⟩
        simp only
        rcases hr : (execute A defaultPolicy jit outs).result with v | e | _ | _
        · left; exact ⟨v, rfl, rfl⟩
        · right; exact ⟨fun v hv => (by cases hv), rfl⟩
        · right; exact ⟨fun v hv => (by cases hv), rfl⟩
        · right; exact ⟨fun v hv => (by cases hv), rfl⟩
      · rcases b with d | _
        · left; exact ⟨d, rfl, rfl⟩
        · right; left; exact ⟨rfl, rfl⟩

/-! ### the invariant `Holds` through downloads -/

/-- other clients' index entries for a key are not touched by `c`'s lookup. -/
theorem cacheGet_others_idx (st : CState κ α) (c now : Nat) (k : κ)
    (hoth : ∀ c', c' ≠ c → alookup st.idx (c', k) = none ∨ alookup st.idx (c', k) = some none) :
    ∀ c', c' ≠ c → alookup (cacheGet st c k now).1.idx (c', k) = none ∨
      alookup (cacheGet st c k now).1.idx (c', k) = some none := by
  intro c' hc'
  have hp : (c', k) ≠ (c, k) := pair_ne_of_client hc'
  have := hoth c' hc'
  obtain ⟨disk, files, idx, mem⟩ := st
  unfold cacheGet
  cases disk
  · simp only [Bool.false_eq_true, if_false]
    repeat' split
    all_goals simpa using this
  · simp only [if_true]
    repeat' split
    all_goals simp only [alookup_aerase_ne _ _ _ hp, alookup_ainsert_ne _ _ _ _ hp]
    all_goals exact this

/-- a store by `c` makes `c` hold the content until the given expiry. -/
theorem holds_put_self (s : CState κ α) (c : Nat) (k : κ) (d : α) (x : Nat)
    (hoth : ∀ c', c' ≠ c → alookup s.idx (c', k) = none ∨ alookup s.idx (c', k) = some none) :
    Holds (cachePut s c k (.doc d) x) c k d x := by
  obtain ⟨disk, files, idx, mem⟩ := s
  cases disk
  · simp [cachePut, Holds]
  · simp only [cachePut, if_true, Holds, forall_const, Bool.true_eq_false, false_implies, and_true,
      alookup_ainsert_same, true_and]
    intro c' hc'
    rw [alookup_ainsert_ne _ _ _ _ (pair_ne_of_client hc')]
    exact hoth c' hc'

/-- after a download that went to the network and succeeded, `c` holds the object until
`tStore + ttl`. -/
theorem holds_after_download (A : Arith) (jit : Nat → Nat → Nat) (junk : Nat)
    (st st1 : CState κ Nat) (c now tStore : Nat) (ob : Obj κ) (outs : List Outcome) (n v : Nat)
    (hq : download A jit junk st c now tStore ob outs = (st1, n, .ok v)) (hn : n ≠ 0)
    (hoth : ∀ c', c' ≠ c → alookup st.idx (c', ob.key) = none ∨ alookup st.idx (c', ob.key) = some none) :
    Holds st1 c ob.key v (tStore + ob.ttl) := by
  rcases download_exits A jit junk st c now tStore ob outs with ⟨_, hx⟩ | ⟨_, e, _, hx⟩ |
    ⟨_, d, _, hx⟩ | ⟨_, _, hx⟩ | ⟨_, _, ⟨v', _, hx⟩ | ⟨hno, hx⟩⟩
  all_goals rw [hx] at hq
  all_goals simp only [Prod.mk.injEq] at hq
  · exact absurd hq.2.1.symm hn
  · exact absurd hq.2.1.symm hn
  · exact absurd hq.2.1.symm hn
  · exact absurd hq.2.1.symm hn
  · obtain ⟨h1, _, h3⟩ := hq
    simp only [Result.ok.injEq] at h3
    subst h3
    rw [← h1]
    exact holds_put_self _ c ob.key v' _ (cacheGet_others_idx st c now ob.key hoth)
  · exact absurd hq.2.2 (hno v)

/-- the steps that leave `c`'s entry for `k` (valid until `e`) in place. -/
def DQuiet (c : Nat) (k : κ) (e : Nat) : DOp κ → Prop
  | .query c' now ep _ => ep.key ≠ k ∨ c' ≠ c ∨ now < e
  | .corrupt k' => k' ≠ k
  | .download c' now _ ob _ => ob.key ≠ k ∨ c' ≠ c ∨ now < e

theorem holds_download (A : Arith) (jit : Nat → Nat → Nat) (junk : Nat) (st : CState κ Nat)
    (c c' : Nat) (k : κ) (d : Nat) (e now tStore : Nat) (ob : Obj κ) (outs : List Outcome)
    (h : Holds st c k d e) (hq : ob.key ≠ k ∨ c' ≠ c ∨ now < e) :
    Holds (download A jit junk st c' now tStore ob outs).1 c k d e ∧
      (ob.key = k → ob.keyOk = true → (c' = c ∨ st.disk = true) →
        (download A jit junk st c' now tStore ob outs).2 = (0, .ok d)) := by
  by_cases hk : ob.key = k
  · by_cases hc : c' = c
    · subst hc
      have hnow : now < e := by
        rcases hq with h1 | h1 | h1
        · exact absurd hk h1
        · exact absurd rfl h1
        · exact h1
      have hg := holds_get_self st c' k d e now h hnow
      rcases download_exits A jit junk st c' now tStore ob outs with ⟨hv, hx⟩ | ⟨_, e', he, _⟩ |
        ⟨_, d', hd', hx⟩ | ⟨_, hj, _⟩ | ⟨_, hm, _⟩
      · rw [hx]; exact ⟨h, fun _ hv' => by rw [hv] at hv'; cases hv'⟩
      · rw [hk, hg] at he; cases he
      · rw [hk, hg] at hd'
        simp only [Except.ok.injEq, Option.some.injEq, Blob.doc.injEq] at hd'
        subst hd'
        rw [hx, hk, hg]; exact ⟨h, fun _ _ _ => rfl⟩
      · rw [hk, hg] at hj; cases hj
      · rw [hk, hg] at hm; cases hm
    · have hg := holds_get_other_client st c c' k d e now h hc
      cases hdisk : st.disk with
      | true =>
        have hres := hg.2 hdisk
        rcases download_exits A jit junk st c' now tStore ob outs with ⟨hv, hx⟩ | ⟨_, e', he, _⟩ |
          ⟨_, d', hd', hx⟩ | ⟨_, hj, _⟩ | ⟨_, hm, _⟩
        · rw [hx]; exact ⟨h, fun _ hv' => by rw [hv] at hv'; cases hv'⟩
        · rw [hk, hres] at he; cases he
        · rw [hk, hres] at hd'
          simp only [Except.ok.injEq, Option.some.injEq, Blob.doc.injEq] at hd'
          subst hd'
          rw [hx, hk]; exact ⟨hg.1, fun _ _ _ => rfl⟩
        · rw [hk, hres] at hj; cases hj
        · rw [hk, hres] at hm; cases hm
      | false =>
        have hd1 : (cacheGet st c' k now).1.disk = false := by rw [cacheGet_disk, hdisk]
        rcases download_exits A jit junk st c' now tStore ob outs with ⟨hv, hx⟩ | ⟨_, e', he, hx⟩ |
          ⟨_, d', hd', hx⟩ | ⟨_, hj, hx⟩ | ⟨_, hm, ⟨v, _, hx⟩ | ⟨_, hx⟩⟩
        all_goals rw [hx]
        all_goals refine ⟨?_, fun a b cc => by rcases cc with cc | cc; exact absurd cc hc; cases cc⟩
        · exact h
        · rw [hk]; exact hg.1
        · rw [hk]; exact hg.1
        · rw [hk]; exact hg.1
        · rw [hk]; exact holds_put_other_client_mem _ c c' k k d e _ _ hg.1 hc hd1
        · rw [hk]; exact hg.1
  · have hk' : ob.key ≠ k := hk
    refine ⟨?_, fun hk2 => absurd hk2 hk⟩
    have hg := holds_get_otherkey st c c' k ob.key d e now h hk'
    rcases download_exits A jit junk st c' now tStore ob outs with ⟨hv, hx⟩ | ⟨_, e', he, hx⟩ |
      ⟨_, d', hd', hx⟩ | ⟨_, hj, hx⟩ | ⟨_, hm, ⟨v, _, hx⟩ | ⟨_, hx⟩⟩
    all_goals rw [hx]
    · exact h
    · exact hg
    · exact hg
    · exact hg
    · exact holds_put_otherkey _ c c' k ob.key d e _ _ hg hk'
    · exact hg

theorem holds_drun (cfg : Config) (A : Arith) (jit : Nat → Nat → Nat) (junk : Nat)
    (c : Nat) (k : κ) (d : Nat) (e : Nat) :
    ∀ (ops : List (DOp κ)) (st : CState κ Nat), Holds st c k d e → (∀ op ∈ ops, DQuiet c k e op) →
      Holds (drun cfg A jit junk st ops) c k d e := by
  intro ops
  induction ops with
  | nil => intro st h _; exact h
  | cons op rest ih =>
    intro st h hq
    have hop := hq op (by simp)
    have : Holds (dstep cfg A jit junk st op) c k d e := by
      cases op with
      | query c' now ep o => exact (holds_query cfg st c c' k d e now ep o h hop).1
      | corrupt k' => exact holds_corrupt st c k k' d e h hop
      | download c' now tS ob outs => exact (holds_download A jit junk st c c' k d e now tS ob outs h hop).1
    simpa [drun] using ih (dstep cfg A jit junk st op) this (fun x hx => hq x (by simp [hx]))

/-! ### what a download can put into the cache -/

theorem allDocs_download (P : Nat → Prop) (A : Arith) (jit : Nat → Nat → Nat) (junk : Nat)
    (st : CState κ Nat) (c now tStore : Nat) (ob : Obj κ) (outs : List Outcome)
    (h : AllDocs P st) (hP : ∀ v, Outcome.ok v ∈ outs → P v) :
    AllDocs P (download A jit junk st c now tStore ob outs).1 := by
  have hg := allDocs_get P st c ob.key now h
  rcases download_exits A jit junk st c now tStore ob outs with ⟨_, hx⟩ | ⟨_, e', _, hx⟩ |
    ⟨_, d', _, hx⟩ | ⟨_, _, hx⟩ | ⟨_, _, ⟨v, hv, hx⟩ | ⟨_, hx⟩⟩
  all_goals rw [hx]
  · exact h
  · exact hg
  · exact hg
  · exact hg
  · obtain ⟨pre, post, ho, _, _⟩ := execute_ok_decomp A defaultPolicy jit outs v hv
    exact allDocs_put P _ c ob.key v _ hg (hP v (by rw [ho]; simp))
  · exact hg

end Cascette.Proofs.CdnDownload
