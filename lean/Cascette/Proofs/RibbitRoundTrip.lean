/-
Proofs/RibbitRoundTrip — parse ∘ format for the three BPSV documents the server writes.
-/
import Cascette.Proofs.RibbitParse
namespace Cascette.Proofs.Ribbit
open Cascette.Model.Bpsv Cascette.Model.Ribbit Cascette.Proofs.Bpsv

/-! ### what `validate` guarantees -/

structure Valid (r : Record) : Prop where
  product : r.product ≠ []
  version : r.version ≠ []
  build : r.build ≠ []
  buildConfig : validHash r.buildConfig = true
  cdnConfig : validHash r.cdnConfig = true
  productConfig : ∀ c, r.productConfig = some c → validHash c = true
  encodingEkey : validHash r.encodingEkey = true
  rootEkey : validHash r.rootEkey = true
  installEkey : validHash r.installEkey = true
  downloadEkey : validHash r.downloadEkey = true

theorem validate_none (r : Record) (h : validate r = none) : Valid r := by
  unfold validate at h
  split at h; · cases h
  rename_i h1
  split at h; · cases h
  rename_i h2
  split at h; · cases h
  rename_i h3
  split at h; · cases h
  rename_i h4
  split at h; · cases h
  rename_i h5
  split at h; · cases h
  rename_i h6
  split at h; · cases h
  rename_i h7
  split at h; · cases h
  rename_i h8
  split at h; · cases h
  rename_i h9
  split at h; · cases h
  rename_i h10
  refine ⟨h1, h2, h3, by simpa using h4, by simpa using h5, ?_, by simpa using h7, by simpa using h8,
    by simpa using h9, by simpa using h10⟩
  intro c hc
  rw [hc] at h6
  simpa [optValidHash] using h6

theorem Valid.pcHex {r : Record} (h : Valid r) : HexOk (r.productConfig.getD []) := by
  cases hp : r.productConfig with
  | none => exact HexOk.nil
  | some c => exact validHash_hexOk c (h.productConfig c hp)

/-! ### characters of a string that parses as i64 -/

theorem all_digits_facts (d : Str) (h : d.all isDigit = true) : '|' ∉ d ∧ '\n' ∉ d := by
  constructor <;> intro hm <;> have := List.all_eq_true.mp h _ hm <;> simp [isDigit] at this

theorem parseUnsigned_chars (b : Nat) (s : Str) (n : Nat) (h : parseUnsigned b s = some n) :
    '|' ∉ s ∧ '\n' ∉ s := by
  unfold parseUnsigned at h
  simp only at h
  split at h; · cases h
  rename_i hd
  have hall : (stripPlus s).all isDigit = true := by
    simp only [Bool.or_eq_true, Bool.not_eq_true', not_or, Bool.not_eq_false] at hd
    exact hd.2
  have := all_digits_facts _ hall
  unfold stripPlus at this
  split at this
  · simp only [List.mem_cons, not_or]
    exact ⟨⟨by decide, this.1⟩, ⟨by decide, this.2⟩⟩
  · exact this

theorem parseI64_chars (s : Str) (n : Int) (h : parseI64 s = some n) : '|' ∉ s ∧ '\n' ∉ s := by
  unfold parseI64 at h
  split at h
  · rename_i d
    split at h; · cases h
    rename_i hd
    have hall : d.all isDigit = true := by
      simp only [Bool.or_eq_true, Bool.not_eq_true', not_or, Bool.not_eq_false] at hd
      exact hd.2
    have := all_digits_facts _ hall
    simp only [List.mem_cons, not_or]
    exact ⟨⟨by decide, this.1⟩, ⟨by decide, this.2⟩⟩
  · cases hp : parseUnsigned (2 ^ 63) s with
    | none => simp [hp] at h
    | some m => exact parseUnsigned_chars _ s m hp

/-! ### regions -/

def goodRegion : Str → Bool
  | c :: cs => !isWs c && c != '#' && !(c :: cs).contains '|' && !(c :: cs).contains '\n'
  | [] => false

theorem goodRegion_spec (reg : Str) (h : goodRegion reg = true) :
    ∃ c cs, reg = c :: cs ∧ isWs c = false ∧ c ≠ '#' ∧ '|' ∉ reg ∧ '\n' ∉ reg := by
  cases reg with
  | nil => simp [goodRegion] at h
  | cons c cs =>
    simp only [goodRegion, Bool.and_eq_true, Bool.not_eq_true', bne_iff_ne, ne_eq] at h
    refine ⟨c, cs, rfl, h.1.1.1, h.1.1.2, ?_, ?_⟩
    · intro hm; have := h.1.2; simp at this; simp at hm; exact hm.elim this.1 this.2
    · intro hm; have := h.2; simp at this; simp at hm; exact hm.elim this.1 this.2

theorem versionsRegions_good : versionsRegions.all goodRegion = true := by decide
theorem cdnsRegions_good : cdnsRegions.all goodRegion = true := by decide

/-! ### header constants (kernel evaluation of closed terms) -/

def versionsSchema : List (Str × Ty) :=
  [("Region".toList, .str), ("BuildConfig".toList, .hex), ("CDNConfig".toList, .hex),
   ("KeyRing".toList, .hex), ("BuildId".toList, .dec), ("VersionsName".toList, .str),
   ("ProductConfig".toList, .hex)]

def cdnsSchema : List (Str × Ty) :=
  [("Name".toList, .str), ("Path".toList, .str), ("Hosts".toList, .str), ("Servers".toList, .str),
   ("ConfigPath".toList, .str)]

def summarySchema : List (Str × Ty) := [("Product".toList, .str), ("Seqn".toList, .dec)]

theorem parseSchema_versions : parseSchema versionsHeader = .ok versionsSchema := by decide +kernel
theorem versionsHeader_bang : versionsHeader.contains '!' = true := by decide +kernel
theorem versionsHeader_trimEnd : trimEnd versionsHeader = versionsHeader := by decide +kernel
theorem versionsHeader_nonl : '\n' ∉ versionsHeader := by decide +kernel
theorem parseSchema_cdns : parseSchema cdnsHeader = .ok cdnsSchema := by decide +kernel
theorem cdnsHeader_bang : cdnsHeader.contains '!' = true := by decide +kernel
theorem cdnsHeader_trimEnd : trimEnd cdnsHeader = cdnsHeader := by decide +kernel
theorem cdnsHeader_nonl : '\n' ∉ cdnsHeader := by decide +kernel
theorem parseSchema_summary : parseSchema summaryHeader = .ok summarySchema := by decide +kernel
theorem summaryHeader_bang : summaryHeader.contains '!' = true := by decide +kernel
theorem summaryHeader_trimEnd : trimEnd summaryHeader = summaryHeader := by decide +kernel
theorem summaryHeader_nonl : '\n' ∉ summaryHeader := by decide +kernel

theorem seqnLine_nonl (n : Nat) : '\n' ∉ seqnLine n := by
  unfold seqnLine
  simp only [List.mem_append, not_or]
  exact ⟨by decide, (all_digits_facts _ (natDigits_all n)).2⟩

theorem seqnLine_ne_nil (n : Nat) : seqnLine n ≠ [] := by simp [seqnLine]

/-- the generic shape: header, a run of rows, the seqn footer. -/
theorem parse_document {α : Type} (header : Str) (schema : List (Str × Ty)) (f : α → Str)
    (mk : α → Row) (xs : List α) (seqn : Nat) (hs : seqn < 2 ^ 32)
    (hbang : header.contains '!' = true) (hschema : parseSchema header = .ok schema)
    (htrimH : trimEnd header = header) (hnlH : '\n' ∉ header)
    (hnl : ∀ x ∈ xs, '\n' ∉ f x) (htrim : ∀ x ∈ xs, trimEnd (f x) = f x)
    (hrow : ∀ x ∈ xs, ∃ c cs, trim (f x) = c :: cs ∧ c ≠ '#' ∧
      parseRow (schema.map (·.2)) (splitOn '|' (c :: cs)) = .ok (mk x)) :
    parse (joinWith nl (header :: (xs.map f ++ [seqnLine seqn]))) = .ok ⟨schema, xs.map mk, some seqn⟩ := by
  have hlines := readLines_joinWith header (xs.map f) (seqnLine seqn) (seqnLine_ne_nil seqn)
    (by
      intro y hy
      simp only [List.mem_cons, List.mem_append, List.mem_map, List.mem_nil_iff, or_false] at hy
      rcases hy with rfl | ⟨x, hx, rfl⟩ | rfl
      · exact hnlH
      · exact hnl x hx
      · exact seqnLine_nonl seqn)
    (by
      intro y hy
      simp only [List.mem_cons, List.mem_append, List.mem_map, List.mem_nil_iff, or_false] at hy
      rcases hy with rfl | ⟨x, hx, rfl⟩ | rfl
      · exact htrimH
      · exact htrim x hx
      · exact trimEnd_seqnLine seqn)
  unfold parse
  rw [hlines]
  simp only [hbang, Bool.not_true, Bool.false_eq_true, ↓reduceIte, hschema]
  rw [processLines_map _ f mk xs _ _ _ hrow, processLines_seqn _ seqn hs]
  simp

end Cascette.Proofs.Ribbit
