import Cascette.Model.RibbitFmt
namespace Cascette.Proofs.Bpsv
open Cascette.Model.Bpsv Cascette.Model.Ribbit

theorem splitAux_nosep (sep : Char) (a : Str) (h : sep ∉ a) : splitAux sep a = (a, []) := by
  induction a with
  | nil => rfl
  | cons c cs ih =>
    have hc : c ≠ sep := fun e => h (by simp [e])
    have hcs : sep ∉ cs := fun m => h (by simp [m])
    simp [splitAux, ih hcs, hc]

theorem splitAux_append_sep (sep : Char) (a b : Str) (h : sep ∉ a) :
    splitAux sep (a ++ sep :: b) = (a, (splitAux sep b).1 :: (splitAux sep b).2) := by
  induction a with
  | nil => simp [splitAux]
  | cons c cs ih =>
    have hc : c ≠ sep := fun e => h (by simp [e])
    have hcs : sep ∉ cs := fun m => h (by simp [m])
    simp [splitAux, ih hcs, hc]

theorem splitOn_nosep (sep : Char) (a : Str) (h : sep ∉ a) : splitOn sep a = [a] := by
  simp [splitOn, splitAux_nosep sep a h]

theorem splitOn_append_sep (sep : Char) (a b : Str) (h : sep ∉ a) :
    splitOn sep (a ++ sep :: b) = a :: splitOn sep b := by
  simp [splitOn, splitAux_append_sep sep a b h]

open Cascette.Model.Ribbit in
theorem splitOn_joinWith (sep : Char) (x : Str) (xs : List Str) (h : ∀ y ∈ x :: xs, sep ∉ y) :
    splitOn sep (joinWith [sep] (x :: xs)) = x :: xs := by
  induction xs generalizing x with
  | nil => simpa [joinWith] using splitOn_nosep sep x (h x (by simp))
  | cons y ys ih =>
    have hx : sep ∉ x := h x (by simp)
    have := ih y (fun z hz => h z (by simp [hz]))
    simp only [joinWith, List.append_assoc, List.singleton_append]
    rw [splitOn_append_sep sep x _ hx, this]

theorem trimEnd_append (a b : Str) (hb : b ≠ []) (h : trimEnd b = b) : trimEnd (a ++ b) = a ++ b := by
  induction a with
  | nil => simpa using h
  | cons c cs ih =>
    simp only [List.cons_append, trimEnd, ih]
    cases hcs : cs ++ b with
    | nil => simp at hcs; exact absurd hcs.2 hb
    | cons d ds => rfl

theorem trimEnd_nows (s : Str) (h : ∀ c ∈ s, isWs c = false) : trimEnd s = s := by
  induction s with
  | nil => rfl
  | cons c cs ih =>
    have := ih (fun d hd => h d (by simp [hd]))
    simp only [trimEnd, this]
    cases cs with
    | nil => simp [h c (by simp)]
    | cons d ds => rfl

theorem trimStart_cons (c : Char) (cs : Str) (h : isWs c = false) : trimStart (c :: cs) = c :: cs := by
  simp [trimStart, h]

theorem digitChar_toNat (n : Nat) : (digitChar n).toNat = 48 + n % 10 := by
  unfold digitChar
  have : (48 + n % 10).isValidChar := by
    left; omega
  simp [Char.toNat, Char.ofNat, this, Char.ofNatAux]
  omega

theorem digitChar_isDigit (n : Nat) : isDigit (digitChar n) = true := by
  simp [isDigit, digitChar_toNat]; omega

theorem natDigits_all (n : Nat) : (natDigits n).all isDigit = true := by
  induction n using Nat.strongRecOn with
  | _ n ih =>
    rw [natDigits]
    split
    · simp [digitChar_isDigit]
    · simp only [List.all_append, List.all_cons, List.all_nil, Bool.and_true, Bool.and_eq_true]
      exact ⟨ih (n / 10) (by omega), digitChar_isDigit n⟩

theorem natDigits_ne_nil (n : Nat) : natDigits n ≠ [] := by
  rw [natDigits]; split <;> simp

theorem digitsVal_append (a : Str) (c : Char) : digitsVal (a ++ [c]) = digitsVal a * 10 + (c.toNat - 48) := by
  simp [digitsVal, List.foldl_append]

theorem digitsVal_natDigits (n : Nat) : digitsVal (natDigits n) = n := by
  induction n using Nat.strongRecOn with
  | _ n ih =>
    rw [natDigits]
    split
    · simp [digitsVal, digitChar_toNat]; omega
    · rw [digitsVal_append, ih (n / 10) (by omega), digitChar_toNat]; omega

theorem isDigit_not_ws (c : Char) (h : isDigit c = true) : isWs c = false := by
  simp [isDigit] at h
  simp [isWs]; omega

theorem isDigit_ne (c : Char) (h : isDigit c = true) (d : Char) (hd : isDigit d = false) : c ≠ d := by
  intro e; subst e; simp [h] at hd

theorem parseUnsigned_natDigits (bound n : Nat) (h : n < bound) :
    parseUnsigned bound (natDigits n) = some n := by
  have hall := natDigits_all n
  have hne := natDigits_ne_nil n
  have hplus : stripPlus (natDigits n) = natDigits n := by
    cases hd : natDigits n with
    | nil => rfl
    | cons c cs =>
      have : isDigit c = true := by
        have := hall; rw [hd] at this; simp at this; exact this.1
      have hc : c ≠ '+' := isDigit_ne c this '+' (by decide)
      unfold stripPlus
      split
      · rename_i r heq; cases heq; exact absurd rfl hc
      · rfl
  unfold parseUnsigned
  simp [hplus, hall, hne, digitsVal_natDigits, h]

end Cascette.Proofs.Bpsv
