/-
Proofs/LsmReload — the disk half of the refinement: what a restart (`reload`) sees at ANY
moment of a history is, per bucket, the map as of that bucket's last write (`save_all`, an
explicit flush with pending updates, or the flush a mutator performs on a full update section).
-/
import Cascette.Proofs.LsmDurable
namespace Cascette.Proofs.Lsm
open Cascette.Spec.IndexMap (Entry Op Out bucketOf stDelete nBuckets keyByte Map)
open Cascette.Model.Lsm

/-- the map the files denote: what `lookup` answers after `load_all` on a fresh manager. -/
def absD (d : Nat → Option Image) (k : Nat) : Option Entry :=
  match d (bucketOf k) with
  | some img => absB (loadB img) k
  | none => none

/-- every file is the image of a bucket that satisfies the in-memory invariants, and the files
together denote the map `D`. -/
structure DiskInv (d : Nat → Option Image) (D : Map) : Prop where
  img : ∀ b i, d b = some i → ∃ bk, i = saveB bk ∧ GoodB b bk ∧ WFB bk
  abs : ∀ k, absD d k = D k

/-- the durable map after the buckets `bs` were written through (`Spec.IndexMap.persist`). -/
def persistMap (M D : Map) (bs : List Nat) : Map := fun k => if bucketOf k ∈ bs then M k else D k

theorem persistMap_nil (M D : Map) : persistMap M D [] = D := by
  funext k
  simp [persistMap]

theorem persistMap_append (M D : Map) (g1 g2 : List Nat) :
    persistMap M (persistMap M D g1) g2 = persistMap M D (g2 ++ g1) := by
  funext k
  unfold persistMap
  by_cases h2 : bucketOf k ∈ g2
  · simp [h2]
  · by_cases h1 : bucketOf k ∈ g1 <;> simp [h1, h2]

theorem persist_disk (S : SState) (g : List Nat) :
    (Cascette.Spec.IndexMap.persist S g).disk = persistMap S.mem S.disk g := rfl

theorem absS_reload (s : State) (k : Nat) : absS (reload s) k = absD s.disk k := by
  unfold absS absD reload
  simp only
  cases s.disk (bucketOf k) <;> rfl

/-- `flush_updates_for_bucket` writes bucket `b` through exactly when it has pending updates. -/
theorem flushBucket_disk (s : State) (hg : Good s) (hx : Extra s) (M D : Map)
    (ha : ∀ k, absS s k = M k) (hd : DiskInv s.disk D) (b : Nat) :
    ∃ g, (g = [] ∨ g = [b]) ∧ DiskInv (flushBucket s b).disk (persistMap M D g) := by
  unfold flushBucket
  cases hm : s.mem b with
  | none => exact ⟨[], Or.inl rfl, by rw [persistMap_nil]; exact hd⟩
  | some bk =>
    simp only
    split
    · exact ⟨[], Or.inl rfl, by rw [persistMap_nil]; exact hd⟩
    · refine ⟨[b], Or.inr rfl, ?_, ?_⟩
      · intro i im hi
        have hi' : (if i = b then some (saveB (flushB bk)) else s.disk i) = some im := hi
        by_cases h : i = b
        · rw [if_pos h] at hi'
          cases hi'
          rw [h]
          exact ⟨flushB bk, rfl, goodB_flushB (hg b bk hm),
            wfb_flushB (hg b bk hm).sorted (hx.wf b bk hm)⟩
        · rw [if_neg h] at hi'
          exact hd.img i im hi'
      · intro k
        have hdk : absD ((s.setMem b (flushB bk)).setDisk b (saveB (flushB bk))).disk k =
            if bucketOf k = b then absB (loadB (saveB (flushB bk))) k else absD s.disk k := by
          unfold absD State.setDisk State.setMem
          simp only
          by_cases h : bucketOf k = b <;> simp [h]
        rw [hdk]
        unfold persistMap
        by_cases h : bucketOf k = b
        · have hb := hg b bk hm
          rw [if_pos h, if_pos (by rw [h]; exact List.mem_singleton.mpr rfl),
            load_save _ (goodB_flushB hb).sorted (wfb_flushB hb.sorted (hx.wf b bk hm)),
            (flushB_spec bk hb.sorted).2.2 k, ← ha k]
          unfold absS
          rw [h, hm]
        · rw [if_neg h, if_neg (by rw [List.mem_singleton]; exact h)]
          exact hd.abs k

/-- the flush-and-retry append touches the files only through `flush_updates_for_bucket`. -/
theorem appendWithFlush_disk (cfg : Cfg) (s : State) (b : Nat) (u : Upd) :
    (appendWithFlush cfg s b u).1.disk = s.disk ∨
      (appendWithFlush cfg s b u).1.disk = (flushBucket s b).disk := by
  unfold appendWithFlush
  cases s.mem b with
  | none => exact Or.inl rfl
  | some bk =>
    simp only
    cases appendPages cfg bk.pages u with
    | mk pg r =>
      cases r with
      | true => exact Or.inl rfl
      | false =>
        simp only
        cases (flushBucket s b).mem b with
        | none => exact Or.inr rfl
        | some bk1 =>
          simp only
          cases appendPages cfg bk1.pages u with
          | mk pg1 r1 => cases r1 <;> exact Or.inr rfl

theorem append_disk (cfg : Cfg) (s : State) (hg : Good s) (hx : Extra s) (M D : Map)
    (ha : ∀ k, absS s k = M k) (hd : DiskInv s.disk D) (b : Nat) (u : Upd) :
    ∃ g, (g = [] ∨ g = [b]) ∧ DiskInv (appendWithFlush cfg s b u).1.disk (persistMap M D g) := by
  rcases appendWithFlush_disk cfg s b u with h | h
  · rw [h]
    exact ⟨[], Or.inl rfl, by rw [persistMap_nil]; exact hd⟩
  · rw [h]
    exact flushBucket_disk s hg hx M D ha hd b

theorem foldl_flush_disk (bs : List Nat) : ∀ (s : State), Good s → Extra s → ∀ (M D : Map),
    (∀ k, absS s k = M k) → DiskInv s.disk D →
    ∃ g, DiskInv (bs.foldl flushBucket s).disk (persistMap M D g) := by
  induction bs with
  | nil =>
    intro s _ _ M D _ hd
    exact ⟨[], by rw [persistMap_nil]; exact hd⟩
  | cons b bs ih =>
    intro s hg hx M D ha hd
    obtain ⟨g1, _, h1⟩ := flushBucket_disk s hg hx M D ha hd b
    obtain ⟨hg1, ha1⟩ := flushBucket_spec s hg b
    obtain ⟨g2, h2⟩ := ih (flushBucket s b) hg1 (extra_flushBucket hg hx b) M (persistMap M D g1)
      (fun k => by rw [ha1 k, ha k]) h1
    rw [persistMap_append] at h2
    exact ⟨g2 ++ g1, h2⟩

theorem ensureBucket_props (s : State) (hg : Good s) (hx : Extra s) (b : Nat) :
    Good (ensureBucket s b) ∧ Extra (ensureBucket s b) ∧
      (∀ k, absS (ensureBucket s b) k = absS s k) ∧ (ensureBucket s b).disk = s.disk := by
  unfold ensureBucket
  cases hm : s.mem b with
  | some bk => exact ⟨hg, hx, fun _ => rfl, rfl⟩
  | none =>
    refine ⟨good_setMem hg _ _ (goodB_empty _), extra_setMem hx _ _ wfb_empty, ?_, rfl⟩
    intro k
    rw [absS_setMem]
    by_cases hk : bucketOf k = b
    · rw [if_pos hk, absB_empty]
      unfold absS
      rw [hk, hm]
    · rw [if_neg hk]

/-- `save_all` makes the files denote the live map. -/
theorem saveAll_disk (s : State) (M : Map) (h : RelMem s M) (hx : Extra s) :
    DiskInv (saveAll s).disk M := by
  obtain ⟨hg, ha⟩ := h
  refine ⟨?_, ?_⟩
  · intro b i hi
    unfold saveAll at hi
    simp only at hi
    cases hm : s.mem b with
    | none => rw [hm] at hi; simp only at hi; rw [hx.no b hm] at hi; cases hi
    | some bk =>
      rw [hm] at hi
      simp only [Option.some.injEq] at hi
      exact ⟨bk, hi.symm, hg b bk hm, hx.wf b bk hm⟩
  · intro k
    rw [← ha k]
    unfold absD absS saveAll
    simp only
    cases hm : s.mem (bucketOf k) with
    | none => simp only; rw [hx.no _ hm]
    | some bk =>
      simp only
      rw [load_save bk (hg _ bk hm).sorted (hx.wf _ bk hm)]

/-- a restart at any moment: the live map becomes the map the files denote; all invariants hold
for the reloaded manager. -/
theorem reload_spec (s : State) (D : Map) (hd : DiskInv s.disk D) :
    RelMem (reload s) D ∧ Extra (reload s) ∧ DiskInv (reload s).disk D := by
  have hmem : ∀ b bk, (reload s).mem b = some bk → GoodB b bk ∧ WFB bk := by
    intro b bk hb
    unfold reload at hb
    simp only at hb
    cases hi : s.disk b with
    | none => rw [hi] at hb; cases hb
    | some img =>
      rw [hi] at hb
      simp only [Option.map_some, Option.some.injEq] at hb
      obtain ⟨bk', rfl, h1, h2⟩ := hd.img b img hi
      rw [load_save bk' h1.sorted h2] at hb
      subst hb
      exact ⟨h1, h2⟩
  refine ⟨⟨fun b bk hb => (hmem b bk hb).1, fun k => by rw [absS_reload, hd.abs k]⟩,
    ⟨fun b bk hb => (hmem b bk hb).2, ?_⟩, hd⟩
  intro b hb
  unfold reload at hb
  simp only at hb
  cases hi : s.disk b with
  | none => exact hi
  | some img => rw [hi] at hb; cases hb

/-- which buckets an operation may write through (besides `save_all`'s own effect). -/
def ghostOk : Op → List Nat → Prop
  | .add k _ _ _, g => g = [] ∨ g = [bucketOf k]
  | .remove k, g => g = [] ∨ g = [bucketOf k]
  | .update k _ _ _, g => g = [] ∨ g = [bucketOf k]
  | .status k _, g => g = [] ∨ g = [bucketOf k]
  | .flush b, g => g = [] ∨ g = [b]
  | .flushAll, _ => True
  | _, g => g = []

/-- one operation (other than `reload`) keeps the disk half of the relation, for a suitable
list of written-through buckets. -/
theorem step_disk (cfg : Cfg) (s : State) (S : SState) (op : Op) (hop : notReload op)
    (h : RelMem s S.mem) (hx : Extra s) (hd : DiskInv s.disk S.disk) :
    ∃ g, ghostOk op g ∧ DiskInv (step cfg s op).1.disk (sstep S g op).1.disk := by
  obtain ⟨hg, ha⟩ := h
  have hlk : ∀ k, lookup s k = S.mem k := fun k => by rw [lookup_eq_absS s hg k, ha k]
  cases op with
  | add k id off size =>
    obtain ⟨h1, h2, h3, h4⟩ := ensureBucket_props s hg hx (bucketOf k)
    obtain ⟨g, hgo, hdi⟩ := append_disk cfg (ensureBucket s (bucketOf k)) h1 h2 S.mem S.disk
      (fun k' => by rw [h3 k', ha k']) (by rw [h4]; exact hd) (bucketOf k) ⟨k, id, off, size, 0⟩
    refine ⟨g, hgo, ?_⟩
    have hs : (sstep S g (.add k id off size)).1.disk = persistMap S.mem S.disk g := rfl
    rw [hs]
    simp only [step]
    cases hr : appendWithFlush cfg (ensureBucket s (bucketOf k)) (bucketOf k) ⟨k, id, off, size, 0⟩ with
    | mk s1 r =>
      rw [hr] at hdi
      cases r <;> exact hdi
  | remove k =>
    simp only [step]
    rw [hlk k]
    cases hm : S.mem k with
    | none =>
      refine ⟨[], Or.inl rfl, ?_⟩
      have hs : (sstep S [] (.remove k)).1.disk = S.disk := by
        simp only [sstep, Cascette.Spec.IndexMap.step, Cascette.Spec.IndexMap.persist, hm]
        exact persistMap_nil _ _
      rw [hs]; exact hd
    | some e =>
      simp only
      obtain ⟨g, hgo, hdi⟩ := append_disk cfg s hg hx S.mem S.disk ha hd (bucketOf k)
        ⟨k, e.id, e.off, e.size, stDelete⟩
      refine ⟨g, hgo, ?_⟩
      have hs : (sstep S g (.remove k)).1.disk = persistMap S.mem S.disk g := by
        simp only [sstep, Cascette.Spec.IndexMap.step, Cascette.Spec.IndexMap.persist, hm]
        rfl
      rw [hs]; exact hdi
  | update k id off size =>
    simp only [step]
    rw [hlk k]
    cases hm : S.mem k with
    | none =>
      refine ⟨[], Or.inl rfl, ?_⟩
      have hs : (sstep S [] (.update k id off size)).1.disk = S.disk := by
        simp only [sstep, Cascette.Spec.IndexMap.step, Cascette.Spec.IndexMap.persist, hm]
        exact persistMap_nil _ _
      rw [hs]; exact hd
    | some e =>
      simp only
      obtain ⟨g, hgo, hdi⟩ := append_disk cfg s hg hx S.mem S.disk ha hd (bucketOf k)
        ⟨k, id, off, size, 0⟩
      refine ⟨g, hgo, ?_⟩
      have hs : (sstep S g (.update k id off size)).1.disk = persistMap S.mem S.disk g := by
        simp only [sstep, Cascette.Spec.IndexMap.step, Cascette.Spec.IndexMap.persist, hm]
        rfl
      rw [hs]; exact hdi
  | status k st =>
    simp only [step]
    rw [hlk k]
    cases hm : S.mem k with
    | none =>
      refine ⟨[], Or.inl rfl, ?_⟩
      have hs : (sstep S [] (.status k st)).1.disk = S.disk := by
        simp only [sstep, Cascette.Spec.IndexMap.step, Cascette.Spec.IndexMap.persist, hm]
        exact persistMap_nil _ _
      rw [hs]; exact hd
    | some e =>
      simp only
      obtain ⟨g, hgo, hdi⟩ := append_disk cfg s hg hx S.mem S.disk ha hd (bucketOf k)
        ⟨k, e.id, e.off, e.size, st⟩
      refine ⟨g, hgo, ?_⟩
      have hs : (sstep S g (.status k st)).1.disk = persistMap S.mem S.disk g := by
        simp only [sstep, Cascette.Spec.IndexMap.step, Cascette.Spec.IndexMap.persist, hm]
        split <;> rfl
      rw [hs]; exact hdi
  | lookup k =>
    exact ⟨[], rfl, by
      have hs : (sstep S [] (.lookup k)).1.disk = persistMap S.mem S.disk [] := rfl
      rw [hs, persistMap_nil]; exact hd⟩
  | has k =>
    exact ⟨[], rfl, by
      have hs : (sstep S [] (.has k)).1.disk = persistMap S.mem S.disk [] := rfl
      rw [hs, persistMap_nil]; exact hd⟩
  | iter =>
    exact ⟨[], rfl, by
      have hs : (sstep S [] .iter).1.disk = persistMap S.mem S.disk [] := rfl
      rw [hs, persistMap_nil]; exact hd⟩
  | count =>
    exact ⟨[], rfl, by
      have hs : (sstep S [] .count).1.disk = persistMap S.mem S.disk [] := rfl
      rw [hs, persistMap_nil]; exact hd⟩
  | flush b =>
    obtain ⟨g, hgo, hdi⟩ := flushBucket_disk s hg hx S.mem S.disk ha hd b
    exact ⟨g, hgo, hdi⟩
  | flushAll =>
    obtain ⟨g, hdi⟩ := foldl_flush_disk (List.range nBuckets) s hg hx S.mem S.disk ha hd
    exact ⟨g, trivial, hdi⟩
  | saveAll =>
    refine ⟨[], rfl, ?_⟩
    have hs : (sstep S [] .saveAll).1.disk = S.mem := rfl
    rw [hs]
    exact saveAll_disk s S.mem ⟨hg, ha⟩ hx
  | clearBucket b =>
    refine ⟨[], rfl, ?_⟩
    have hs : (sstep S [] (.clearBucket b)).1.disk = persistMap S.mem S.disk [] := rfl
    rw [hs, persistMap_nil]
    simp only [step]
    cases s.mem b <;> exact hd
  | reload => exact absurd hop (by simp [notReload])

/-- the full relation between a manager with its directory and the specification state. -/
structure RelFull (s : State) (S : SState) : Prop where
  mem : RelMem s S.mem
  extra : Extra s
  disk : DiskInv s.disk S.disk

theorem relFull_init : RelFull State.init Cascette.Spec.IndexMap.State.init :=
  ⟨relMem_init, extra_init, ⟨(by intro b i h; cases h), fun _ => rfl⟩⟩

/-- every operation, `reload` included, keeps the full relation and answers as the map does. -/
theorem step_full (cfg : Cfg) (hcap : 1 ≤ cfg.capPages) (s : State) (S : SState) (op : Op)
    (hwf : opWF op) (h : RelFull s S) :
    ∃ g, ghostOk op g ∧ RelFull (step cfg s op).1 (sstep S g op).1 ∧
      outOk (step cfg s op).2 (sstep S g op).2 := by
  by_cases hop : notReload op
  · obtain ⟨g, hgo, hdi⟩ := step_disk cfg s S op hop h.mem h.extra h.disk
    obtain ⟨h1, h2⟩ := step_mem cfg hcap s S g op hop h.mem
    exact ⟨g, hgo, ⟨h1, step_extra cfg s op hop hwf h.mem.1 h.extra, hdi⟩, h2⟩
  · cases op with
    | reload =>
      obtain ⟨h1, h2, h3⟩ := reload_spec s S.disk h.disk
      refine ⟨[], rfl, ⟨?_, h2, ?_⟩, rfl⟩
      · have hs : (sstep S [] .reload).1.mem = persistMap S.mem S.disk [] := rfl
        rw [hs, persistMap_nil]; exact h1
      · have hs : (sstep S [] .reload).1.disk = persistMap S.mem S.disk [] := rfl
        rw [hs, persistMap_nil]; exact h3
    | _ => exact absurd trivial hop

/-- ghost lists fit the history operation by operation. -/
def ghostsOk : List Op → List (List Nat) → Prop
  | [], [] => True
  | op :: ops, g :: gs => ghostOk op g ∧ ghostsOk ops gs
  | _, _ => False

/-- **the refinement for arbitrary histories** (any number of restarts at any moment). -/
theorem run_full (cfg : Cfg) (hcap : 1 ≤ cfg.capPages) (ops : List Op) :
    ∀ (s : State) (S : SState), (∀ op ∈ ops, opWF op) → RelFull s S →
      ∃ gs, ghostsOk ops gs ∧ RelFull (run cfg s ops).1 (specRun S ops gs).1 ∧
        outsOk (run cfg s ops).2 (specRun S ops gs).2 := by
  induction ops with
  | nil => intro s S _ h; exact ⟨[], trivial, h, trivial⟩
  | cons op ops ih =>
    intro s S hw h
    obtain ⟨g, hgo, h1, h2⟩ := step_full cfg hcap s S op (hw op List.mem_cons_self) h
    obtain ⟨gs, hgs, h3, h4⟩ := ih (step cfg s op).1 (sstep S g op).1
      (fun o ho => hw o (List.mem_cons_of_mem _ ho)) h1
    exact ⟨g :: gs, ⟨hgo, hgs⟩, h3, h2, h4⟩

end Cascette.Proofs.Lsm
