/-
Proofs/Retry — lemmas about `Model.Retry.loop` (induction over the outcome script, with the two
loop variables generalised) used by Props/C14.
-/
import Cascette.Model.Retry
namespace Cascette.Proofs.Retry
open Cascette.Model.Retry Cascette.Spec.Retry

def jittered (p : Policy) (jit : Nat → Nat → Nat) (k base : Nat) : Nat :=
  if p.jitter then min (base + jit k base) durMax else base

/-- `o` is an error the loop retries -/
def Retryable (o : Outcome) : Prop := ∃ e, o = .err e ∧ e.shouldRetry = true

theorem loop_calls_le (A : Arith) (p : Policy) (jit : Nat → Nat → Nat) (a b : Nat) (outs : List Outcome) :
    (loop A p jit a b outs).calls ≤ p.maxAttempts - a + 1 := by
  fun_induction loop A p jit a b outs with
  | case1 => simp
  | case2 => simp
  | case3 => simp
  | case4 => simp
  | case5 => simp
  | case6 a b e rest hc base delay hd b' hb t ih =>
    simp only [Bool.or_eq_true, Bool.not_eq_eq_eq_not, Bool.not_true, decide_eq_true_eq, not_or] at hc
    simp only [t] at *
    omega

theorem loop_calls_le_length (A : Arith) (p : Policy) (jit : Nat → Nat → Nat) (a b : Nat) (outs : List Outcome) :
    (loop A p jit a b outs).calls ≤ outs.length := by
  fun_induction loop A p jit a b outs with
  | case1 => simp
  | case2 => simp
  | case3 => simp
  | case4 => simp
  | case5 => simp
  | case6 a b e rest hc base delay hd b' hb t ih =>
    simp only [t, List.length_cons] at *
    omega

/-- one unfolding of the loop of the current code on a retried error -/
theorem loop_fixed_retry (scale : Nat → Option Nat) (p : Policy) (jit : Nat → Nat → Nat) (a b : Nat)
    (e : Err) (rest : List Outcome) (hr : e.shouldRetry = true) (ha : a < p.maxAttempts) :
    loop (Arith.fixed scale) p jit a b (.err e :: rest) =
      ⟨(loop (Arith.fixed scale) p jit (a + 1) (nextBackoff scale p b) rest).calls + 1,
       jittered p jit (a + 1) (baseDelay e.retryAfterHint b) ::
         (loop (Arith.fixed scale) p jit (a + 1) (nextBackoff scale p b) rest).delays,
       (loop (Arith.fixed scale) p jit (a + 1) (nextBackoff scale p b) rest).result⟩ := by
  rw [loop]
  have hc : (!e.shouldRetry || decide (a ≥ p.maxAttempts)) = false := by
    simp [hr]; omega
  simp only [hc, Bool.false_eq_true, ↓reduceIte, Arith.fixed, jittered]
  cases p.jitter <;> simp

/-- one unfolding on an error that ends the loop -/
theorem loop_stop (A : Arith) (p : Policy) (jit : Nat → Nat → Nat) (a b : Nat)
    (e : Err) (rest : List Outcome) (h : e.shouldRetry = false ∨ p.maxAttempts ≤ a) :
    loop A p jit a b (.err e :: rest) = ⟨1, [], .err e⟩ := by
  rw [loop]
  have hc : (!e.shouldRetry || decide (a ≥ p.maxAttempts)) = true := by
    rcases h with h | h <;> simp [h]
  simp [hc]

theorem loop_fixed_no_panic (scale : Nat → Option Nat) (p : Policy) (jit : Nat → Nat → Nat) (a b : Nat)
    (outs : List Outcome) : (loop (Arith.fixed scale) p jit a b outs).result ≠ .panic := by
  fun_induction loop (Arith.fixed scale) p jit a b outs with
  | case1 => simp
  | case2 => simp
  | case3 => simp
  | case4 a b e rest hc base hd =>
    exfalso; revert hd; simp only [Arith.fixed]; split <;> simp
  | case5 a b e rest hc base delay hd hb => simp [Arith.fixed] at hb
  | case6 a b e rest hc base delay hd b' hb t ih => simpa [t] using ih

/-- number of attempts = what the specification counts on the outcome classes -/
theorem loop_fixed_calls_eq_attempts (scale : Nat → Option Nat) (p : Policy) (jit : Nat → Nat → Nat)
    (a b : Nat) (outs : List Outcome) :
    (loop (Arith.fixed scale) p jit a b outs).calls = attempts (p.maxAttempts - a) (outs.map Outcome.cls) := by
  fun_induction loop (Arith.fixed scale) p jit a b outs with
  | case1 => simp [attempts]
  | case2 a b v rest =>
    cases h : p.maxAttempts - a <;> simp [attempts, Outcome.cls]
  | case3 a b e rest hc =>
    simp only [Bool.or_eq_true, Bool.not_eq_eq_eq_not, Bool.not_true, decide_eq_true_eq] at hc
    cases h : p.maxAttempts - a with
    | zero => simp [attempts]
    | succ k =>
      have : e.shouldRetry = false := by rcases hc with hc | hc; exact hc; omega
      simp [attempts, Outcome.cls, this]
  | case4 a b e rest hc base hd =>
    exfalso; revert hd; simp only [Arith.fixed]; split <;> simp
  | case5 a b e rest hc base delay hd hb => simp [Arith.fixed] at hb
  | case6 a b e rest hc base delay hd b' hb t ih =>
    simp only [Bool.or_eq_true, Bool.not_eq_eq_eq_not, Bool.not_true, decide_eq_true_eq, not_or] at hc
    have hr : e.shouldRetry = true := by cases h' : e.shouldRetry <;> simp_all
    obtain ⟨k, hk⟩ : ∃ k, p.maxAttempts - a = k + 1 := ⟨p.maxAttempts - a - 1, by omega⟩
    have hk' : p.maxAttempts - (a + 1) = k := by omega
    simp only [t, List.map_cons, Outcome.cls, hr, ↓reduceIte, hk, attempts] at ih ⊢
    rw [ih, hk']; omega

/-- one sleep between consecutive attempts, none after the deciding one -/
theorem loop_fixed_delays_length (scale : Nat → Option Nat) (p : Policy) (jit : Nat → Nat → Nat)
    (a b : Nat) (outs : List Outcome) :
    (loop (Arith.fixed scale) p jit a b outs).delays.length +
        (if (loop (Arith.fixed scale) p jit a b outs).result = .starved then 0 else 1) =
      (loop (Arith.fixed scale) p jit a b outs).calls := by
  fun_induction loop (Arith.fixed scale) p jit a b outs with
  | case1 => simp
  | case2 => simp
  | case3 => simp
  | case4 a b e rest hc base hd =>
    exfalso; revert hd; simp only [Arith.fixed]; split <;> simp
  | case5 a b e rest hc base delay hd hb => simp [Arith.fixed] at hb
  | case6 a b e rest hc base delay hd b' hb t ih =>
    simp only [t, List.length_cons] at ih ⊢
    omega

/-- skipping a prefix of retried errors -/
theorem loop_fixed_prefix (scale : Nat → Option Nat) (p : Policy) (jit : Nat → Nat → Nat) :
    ∀ (pre : List Outcome) (a b : Nat) (rest : List Outcome),
      (∀ o ∈ pre, Retryable o) → a + pre.length ≤ p.maxAttempts →
      let t := loop (Arith.fixed scale) p jit (a + pre.length) (backoffAt (nextBackoff scale p) b pre.length) rest
      (loop (Arith.fixed scale) p jit a b (pre ++ rest)).calls = t.calls + pre.length ∧
      (loop (Arith.fixed scale) p jit a b (pre ++ rest)).result = t.result ∧
      (loop (Arith.fixed scale) p jit a b (pre ++ rest)).delays.length = t.delays.length + pre.length := by
  intro pre
  induction pre with
  | nil => intro a b rest _ _; simp [backoffAt]
  | cons o pre ih =>
    intro a b rest hall hlen
    obtain ⟨e, rfl, hr⟩ := hall o (by simp)
    simp only [List.length_cons] at hlen
    have := ih (a + 1) (nextBackoff scale p b) rest (fun o ho => hall o (by simp [ho])) (by omega)
    simp only [List.cons_append, List.length_cons]
    rw [loop_fixed_retry scale p jit a b e _ hr (by omega)]
    simp only [backoffAt, List.length_cons]
    have e1 : a + 1 + pre.length = a + (pre.length + 1) := by omega
    rw [e1] at this
    obtain ⟨h1, h2, h3⟩ := this
    refine ⟨by rw [h1]; omega, h2, by rw [h3]; omega⟩

/-- every sleep of the current code: which attempt failed, why it was retried, how long -/
theorem loop_fixed_delay (scale : Nat → Option Nat) (p : Policy) (jit : Nat → Nat → Nat) :
    ∀ (outs : List Outcome) (a b i d : Nat),
      (loop (Arith.fixed scale) p jit a b outs).delays[i]? = some d →
      ∃ e, outs[i]? = some (.err e) ∧ e.shouldRetry = true ∧ a + i < p.maxAttempts ∧
        d = jittered p jit (a + i + 1)
              (baseDelay e.retryAfterHint (backoffAt (nextBackoff scale p) b i)) := by
  intro outs
  induction outs with
  | nil => intro a b i d h; simp [loop] at h
  | cons o rest ih =>
    intro a b i d h
    cases o with
    | ok v => simp [loop] at h
    | err e =>
      by_cases hs : e.shouldRetry = false ∨ p.maxAttempts ≤ a
      · rw [loop_stop _ p jit a b e rest hs] at h; simp at h
      · have hr : e.shouldRetry = true := by
          cases h' : e.shouldRetry <;> simp_all
        have ha : a < p.maxAttempts := by omega
        rw [loop_fixed_retry scale p jit a b e rest hr ha] at h
        cases i with
        | zero =>
          simp only [List.getElem?_cons_zero, Option.some.injEq] at h
          exact ⟨e, by simp, hr, by omega, by simp [backoffAt, ← h]⟩
        | succ i =>
          simp only [List.getElem?_cons_succ] at h
          obtain ⟨e', h1, h2, h3, h4⟩ := ih (a + 1) (nextBackoff scale p b) i d h
          refine ⟨e', by simpa using h1, h2, by omega, ?_⟩
          rw [h4, backoffAt]
          congr 1
          omega

/-- a script at least as long as the attempt budget is never exhausted -/
theorem loop_not_starved (A : Arith) (p : Policy) (jit : Nat → Nat → Nat) (a b : Nat) (outs : List Outcome)
    (h : p.maxAttempts - a + 1 ≤ outs.length) : (loop A p jit a b outs).result ≠ .starved := by
  fun_induction loop A p jit a b outs with
  | case1 => simp at h
  | case2 => simp
  | case3 => simp
  | case4 => simp
  | case5 => simp
  | case6 a b e rest hc base delay hd b' hb t ih =>
    simp only [Bool.or_eq_true, Bool.not_eq_eq_eq_not, Bool.not_true, decide_eq_true_eq, not_or] at hc
    simp only [List.length_cons] at h
    simp only [t]
    exact ih (by omega)

/-- outcomes after the deciding attempt are never requested -/
theorem loop_append (A : Arith) (p : Policy) (jit : Nat → Nat → Nat) (a b : Nat) (outs extra : List Outcome)
    (h : (loop A p jit a b outs).result ≠ .starved) :
    loop A p jit a b (outs ++ extra) = loop A p jit a b outs := by
  fun_induction loop A p jit a b outs with
  | case1 => simp at h
  | case2 => simp [loop]
  | case3 a b e rest hc => simp [loop, hc]
  | case4 a b e rest hc base hd => simp only [List.cons_append]; rw [loop]; simp [hc, base, hd]
  | case5 a b e rest hc base delay hd hb => simp only [List.cons_append]; rw [loop]; simp [hc, base, hd, hb]
  | case6 a b e rest hc base delay hd b' hb t ih =>
    simp only [List.cons_append]; rw [loop]; simp only [hc, base, hd, hb]
    simp only [t] at h ih
    rw [ih h]
    simp only [Bool.false_eq_true, ↓reduceIte]
    rfl

theorem backoffAt_succ (next : Nat → Nat) : ∀ k b, backoffAt next b (k + 1) = next (backoffAt next b k) := by
  intro k
  induction k with
  | zero => intro b; simp [backoffAt]
  | succ k ih => intro b; rw [backoffAt, ih]; simp [backoffAt]

theorem nextBackoff_le (scale : Nat → Option Nat) (p : Policy) (b : Nat) :
    nextBackoff scale p b ≤ p.maxBackoff := by
  unfold nextBackoff
  split
  · exact Nat.le_refl _
  · exact Nat.min_le_right _ _

theorem backoffAt_le (next : Nat → Nat) (M : Nat) (hn : ∀ x, next x ≤ M) :
    ∀ k b, b ≤ M → backoffAt next b k ≤ M := by
  intro k
  induction k with
  | zero => intro b hb; simpa [backoffAt] using hb
  | succ k ih => intro b _; simp only [backoffAt]; exact ih _ (hn b)

/-- with a multiplier that does not shrink (`scale b ≥ b`), the backoff sequence never decreases -/
theorem backoffAt_mono (scale : Nat → Option Nat) (p : Policy) (hs : ∀ x, ∃ d, scale x = some d ∧ x ≤ d)
    (b : Nat) (hb : b ≤ p.maxBackoff) (k : Nat) :
    backoffAt (nextBackoff scale p) b k ≤ backoffAt (nextBackoff scale p) b (k + 1) := by
  rw [backoffAt_succ]
  have hle := backoffAt_le (nextBackoff scale p) p.maxBackoff (nextBackoff_le scale p) k b hb
  generalize backoffAt (nextBackoff scale p) b k = x at hle ⊢
  obtain ⟨d, hd, hxd⟩ := hs x
  simp only [nextBackoff, hd]
  exact Nat.le_min.mpr ⟨hxd, hle⟩

theorem parseUnsigned_lt (limit : Nat) (s : List Char) (v : Nat) (h : parseUnsigned limit s = some v) :
    v < limit := by
  unfold parseUnsigned parseBody at h
  generalize stripPlus s = body at h
  by_cases hb : body.isEmpty = true
  · simp [hb] at h
  · cases hp : parseDigits body 0 with
    | none => simp [hb, hp] at h
    | some w =>
      by_cases hw : w < limit
      · simp [hb, hp, hw] at h; omega
      · simp [hb, hp, hw] at h

def digitChar (d : Nat) : Char := Char.ofNat (48 + d)

theorem digitVal_digitChar (d : Nat) (h : d < 10) : digitVal (digitChar d) = some d := by
  rcases d with _|_|_|_|_|_|_|_|_|_|d
  all_goals first | rfl | omega

theorem parseDigits_append (s : List Char) (d acc : Nat) (h : d < 10) :
    parseDigits (s ++ [digitChar d]) acc = (parseDigits s acc).map (fun v => 10 * v + d) := by
  induction s generalizing acc with
  | nil => simp [parseDigits, digitVal_digitChar d h]
  | cons c cs ih =>
    simp only [List.cons_append, parseDigits]
    cases digitVal c with
    | none => rfl
    | some x => exact ih _

/-- every natural has a decimal spelling made of ASCII digits only -/
theorem exists_digits (n : Nat) :
    ∃ s : List Char, s ≠ [] ∧ (∀ c, s.head? = some c → digitVal c ≠ none) ∧ parseDigits s 0 = some n := by
  induction n using Nat.strongRecOn with
  | _ n ih =>
    by_cases hn : n < 10
    · refine ⟨[digitChar n], by simp, ?_, by simp [parseDigits, digitVal_digitChar n hn]⟩
      intro c hc
      simp only [List.head?_cons, Option.some.injEq] at hc
      subst hc
      simp [digitVal_digitChar n hn]
    · obtain ⟨s, hs1, hs2, hs3⟩ := ih (n / 10) (by omega)
      refine ⟨s ++ [digitChar (n % 10)], by simp, ?_, ?_⟩
      · intro c hc
        cases s with
        | nil => exact absurd rfl hs1
        | cons a t => simp only [List.cons_append, List.head?_cons, Option.some.injEq] at hc; exact hs2 c (by simp [hc])
      · rw [parseDigits_append _ _ _ (by omega), hs3]
        simp only [Option.map_some, Option.some.injEq]
        omega

/-- hostile values are reachable: every value of the unsigned type can be written in the variable -/
theorem parseUnsigned_surjective (limit n : Nat) (h : n < limit) : ∃ s, parseUnsigned limit s = some n := by
  obtain ⟨s, hs1, hs2, hs3⟩ := exists_digits n
  refine ⟨s, ?_⟩
  have hstrip : stripPlus s = s := by
    cases s with
    | nil => rfl
    | cons c t =>
      have := hs2 c rfl
      unfold stripPlus
      split
      · rename_i r heq
        cases heq
        exact absurd rfl this
      · rfl
  unfold parseUnsigned parseBody
  rw [hstrip]
  have : s.isEmpty = false := by cases s <;> simp_all
  simp [this, hs3, h]

theorem classify_retry_iff (status : Nat) (ra : Option (List Char)) (k : Nat)
    (h2 : ¬ (200 ≤ status ∧ status < 300)) :
    ∃ e, classifyStatus status ra k = .err e ∧
      (e.shouldRetry = true ↔ (status = 429 ∨ (500 ≤ status ∧ status < 600))) := by
  unfold classifyStatus
  rw [if_neg h2]
  by_cases h429 : status = 429
  · rw [if_pos h429]; exact ⟨_, rfl, by simp [Err.shouldRetry, h429]⟩
  · rw [if_neg h429]
    by_cases h5 : 500 ≤ status ∧ status < 600
    · rw [if_pos h5]; exact ⟨_, rfl, by simp [Err.shouldRetry, h5]⟩
    · rw [if_neg h5]
      refine ⟨_, rfl, ?_⟩
      simp only [Err.shouldRetry, Bool.or_eq_true, beq_iff_eq]
      omega

/-- the value returned is the outcome of the last attempt made -/
theorem loop_fixed_result (scale : Nat → Option Nat) (p : Policy) (jit : Nat → Nat → Nat)
    (a b : Nat) (outs : List Outcome)
    (h : (loop (Arith.fixed scale) p jit a b outs).result ≠ .starved) :
    ∃ o, outs[(loop (Arith.fixed scale) p jit a b outs).calls - 1]? = some o ∧
      o.toResult = (loop (Arith.fixed scale) p jit a b outs).result := by
  fun_induction loop (Arith.fixed scale) p jit a b outs with
  | case1 => simp at h
  | case2 a b v rest => exact ⟨.ok v, by simp, rfl⟩
  | case3 a b e rest hc => exact ⟨.err e, by simp, rfl⟩
  | case4 a b e rest hc base hd =>
    exfalso; revert hd; simp only [Arith.fixed]; split <;> simp
  | case5 a b e rest hc base delay hd hb => simp [Arith.fixed] at hb
  | case6 a b e rest hc base delay hd b' hb t ih =>
    simp only [t] at h ih ⊢
    obtain ⟨o, ho, hr⟩ := ih h
    have hlen := loop_fixed_delays_length scale p jit (a + 1) b' rest
    have hb'' : (Arith.fixed scale).next p b = some (nextBackoff scale p b) := rfl
    have hpos : 1 ≤ (loop (Arith.fixed scale) p jit (a + 1) b' rest).calls := by
      simp only [if_neg h] at hlen; omega
    refine ⟨o, ?_, hr⟩
    have : (loop (Arith.fixed scale) p jit (a + 1) b' rest).calls + 1 - 1 =
        ((loop (Arith.fixed scale) p jit (a + 1) b' rest).calls - 1) + 1 := by omega
    rw [this, List.getElem?_cons_succ]
    exact ho

/-- `execute` of the current code is the loop started at attempt 0 with the clamped initial backoff -/
theorem execute_fixed (scale : Nat → Option Nat) (p : Policy) (jit : Nat → Nat → Nat) (outs : List Outcome) :
    execute (Arith.fixed scale) p jit outs =
      loop (Arith.fixed scale) p jit 0 (min p.initialBackoff p.maxBackoff) outs := rfl

end Cascette.Proofs.Retry
