/-
Proofs/Residency — Model/Residency refines the resident-key set of Spec/ResidencySet.
The bucket fold and the MurmurHash3 finaliser are never unfolded: every lemma holds for any
`bucketHash`, `hashOf`.
-/
import Cascette.Model.Residency
namespace Cascette.Proofs.Residency
open Cascette.Spec.ResidencySet (Op Out padKey delKeys)
open Cascette.Model.Residency

abbrev SState := Cascette.Spec.ResidencySet.State
abbrev sstep := Cascette.Spec.ResidencySet.step

/-- an entry type that `is_resident` answers `true` for. -/
def residentTy (t : Nat) : Bool := isLive t && t != tyMarkNonResident

def Distinct (l : List REntry) : Prop := l.Pairwise (fun a b => a.key ≠ b.key)

def findK (k : Nat) (l : List REntry) : Option REntry := l.find? (fun e => e.key == k)

/-- resident according to a flat entry list. -/
def resIn (l : List REntry) (k : Nat) : Bool :=
  match findK k l with
  | some e => residentTy e.ty
  | none => false

/-- the set a bucket table denotes. -/
def absT (bk : Nat → Pages) (k : Nat) : Bool := resIn (bk (bucketHash k)).flatten k

structure TInv (bk : Nat → Pages) : Prop where
  distinct : ∀ b, Distinct (bk b).flatten
  home : ∀ b e, e ∈ (bk b).flatten → bucketHash e.key = b

structure Inv (s : State) : Prop where
  t : TInv s.buckets
  filter : ∀ b e, e ∈ (s.buckets b).flatten → isLive e.ty = true → hashOf e.key ∈ s.filter
  d : ∀ d, s.disk = some d → TInv d
  clean : s.dirty = false → ∀ k, absT s.buckets k = absT (match s.disk with | some d => d | none => fun _ => []) k

def absDisk (s : State) (k : Nat) : Bool :=
  absT (match s.disk with | some d => d | none => fun _ => []) k

/-! ### flat-list facts -/

theorem findK_cons (k : Nat) (x : REntry) (l : List REntry) :
    findK k (x :: l) = if x.key = k then some x else findK k l := by
  unfold findK
  by_cases h : x.key = k
  · rw [if_pos h, List.find?_cons_of_pos]; simp [h]
  · rw [if_neg h, List.find?_cons_of_neg]; simp [h]

theorem findK_none_iff {k : Nat} {l : List REntry} : findK k l = none ↔ ∀ e ∈ l, e.key ≠ k := by
  unfold findK
  rw [List.find?_eq_none]
  simp

theorem findK_some {k : Nat} {l : List REntry} {e : REntry} (h : findK k l = some e) :
    e ∈ l ∧ e.key = k := by
  unfold findK at h
  have h2 := List.find?_some h
  simp only [beq_iff_eq] at h2
  exact ⟨List.mem_of_find?_eq_some h, h2⟩

theorem findK_of_mem {l : List REntry} {e : REntry} (hd : Distinct l) (h : e ∈ l) :
    findK e.key l = some e := by
  induction l with
  | nil => cases h
  | cons x l ih =>
    unfold Distinct at hd
    rw [List.pairwise_cons] at hd
    rw [findK_cons]
    rcases List.mem_cons.mp h with rfl | h
    · simp
    · rw [if_neg (hd.1 e h), ih hd.2 h]

/-- the scan of `is_resident` (first live entry with the key) on a list with distinct keys. -/
theorem find_live (k : Nat) (l : List REntry) (hd : Distinct l) :
    l.find? (fun e => e.key == k && isLive e.ty) = (findK k l).filter (fun e => isLive e.ty) := by
  induction l with
  | nil => rfl
  | cons x l ih =>
    unfold Distinct at hd
    rw [List.pairwise_cons] at hd
    rw [findK_cons]
    by_cases h : x.key = k
    · rw [if_pos h]
      by_cases hl : isLive x.ty = true
      · rw [List.find?_cons_of_pos (by simp [h, hl])]
        simp [Option.filter, hl]
      · rw [List.find?_cons_of_neg (by simp [hl])]
        have : l.find? (fun e => e.key == k && isLive e.ty) = none := by
          rw [List.find?_eq_none]
          intro e he
          have := hd.1 e he
          simp only [Bool.and_eq_true, beq_iff_eq, not_and]
          intro hk; rw [← h] at hk; exact absurd hk.symm this
        rw [this]
        simp [Option.filter, hl]
    · rw [if_neg h, List.find?_cons_of_neg (by simp [h])]
      exact ih hd.2

theorem replaceInPage_none {e : REntry} {l : List REntry} :
    replaceInPage e l = none ↔ ∀ x ∈ l, x.key ≠ e.key := by
  induction l with
  | nil => simp [replaceInPage]
  | cons x l ih =>
    simp only [replaceInPage]
    by_cases h : x.key = e.key
    · simp [h]
    · simp only [h, if_false, Option.map_eq_none_iff, ih, List.mem_cons, forall_eq_or_imp]
      simp [h]

theorem replaceInPage_some {e : REntry} {l l' : List REntry} (h : replaceInPage e l = some l') :
    l'.map (·.key) = l.map (·.key) ∧ (∀ x ∈ l', x = e ∨ x ∈ l) ∧
      ∀ k, findK k l' = if e.key = k then some e else findK k l := by
  induction l generalizing l' with
  | nil => simp [replaceInPage] at h
  | cons x l ih =>
    simp only [replaceInPage] at h
    by_cases hx : x.key = e.key
    · rw [if_pos hx] at h
      simp only [Option.some.injEq] at h
      subst h
      refine ⟨by simp [hx], ?_, ?_⟩
      · intro y hy
        rcases List.mem_cons.mp hy with rfl | hy
        · exact Or.inl rfl
        · exact Or.inr (List.mem_cons_of_mem _ hy)
      · intro k
        rw [findK_cons, findK_cons]
        by_cases hk : e.key = k
        · simp [hk]
        · have : ¬ x.key = k := by rw [hx]; exact hk
          simp [hk, this]
    · rw [if_neg hx] at h
      cases hr : replaceInPage e l with
      | none => rw [hr] at h; cases h
      | some r =>
        rw [hr] at h
        simp only [Option.map_some, Option.some.injEq] at h
        subst h
        obtain ⟨h1, h2, h3⟩ := ih hr
        refine ⟨by simp [h1], ?_, ?_⟩
        · intro y hy
          rcases List.mem_cons.mp hy with rfl | hy
          · exact Or.inr List.mem_cons_self
          · rcases h2 y hy with h | h
            · exact Or.inl h
            · exact Or.inr (List.mem_cons_of_mem _ h)
        · intro k
          rw [findK_cons, findK_cons, h3 k]
          by_cases hk : e.key = k
          · have : ¬ x.key = k := by rw [← hk]; exact hx
            simp [hk, this]
          · simp [hk]

/-- the paged replace loop is the flat replace loop. -/
theorem replaceInPages_flat (e : REntry) (pages : Pages) :
    (replaceInPages e pages).map List.flatten = replaceInPage e pages.flatten := by
  induction pages with
  | nil => rfl
  | cons p ps ih =>
    simp only [replaceInPages, List.flatten_cons]
    have happ : ∀ (a b : List REntry), replaceInPage e (a ++ b) =
        match replaceInPage e a with
        | some a' => some (a' ++ b)
        | none => (replaceInPage e b).map (a ++ ·) := by
      intro a b
      induction a with
      | nil => simp [replaceInPage]
      | cons x a iha =>
        simp only [List.cons_append, replaceInPage]
        by_cases hx : x.key = e.key
        · simp [hx]
        · simp only [hx, if_false, iha]
          cases replaceInPage e a with
          | some a' => simp
          | none => cases replaceInPage e b <;> simp
    rw [happ]
    cases hp : replaceInPage e p with
    | some p' => simp
    | none =>
      simp only
      rw [← ih]
      cases replaceInPages e ps <;> simp

theorem pushEntry_flat (cfg : Cfg) (pages : Pages) (e : REntry) :
    (pushEntry cfg pages e).flatten = pages.flatten ++ [e] := by
  unfold pushEntry
  split
  · rename_i last hl
    obtain ⟨ys, rfl⟩ := List.getLast?_eq_some_iff.mp hl
    split <;> simp
  · rename_i hl
    have : pages = [] := by
      cases pages with
      | nil => rfl
      | cons a as => simp at hl
    subst this
    simp

theorem findK_append_one (k : Nat) (l : List REntry) (e : REntry) :
    findK k (l ++ [e]) = (findK k l).or (if e.key = k then some e else none) := by
  unfold findK
  rw [List.find?_append]
  by_cases h : e.key = k
  · rw [if_pos h, List.find?_cons_of_pos (by simp [h])]
  · rw [if_neg h, List.find?_cons_of_neg (by simp [h])]
    rfl

/-- `insert_entry` on the flattened bucket: keys stay distinct, the entry for `e.key` is `e`,
nothing else changes. -/
theorem insert_flat (cfg : Cfg) (pages : Pages) (e : REntry) (hd : Distinct pages.flatten) :
    let pages' := match replaceInPages e pages with
      | some p => p
      | none => pushEntry cfg pages e
    Distinct pages'.flatten ∧ (∀ x ∈ pages'.flatten, x = e ∨ x ∈ pages.flatten) ∧
      ∀ k, findK k pages'.flatten = if e.key = k then some e else findK k pages.flatten := by
  have hflat := replaceInPages_flat e pages
  cases hr : replaceInPages e pages with
  | some p' =>
    simp only
    rw [hr] at hflat
    simp only [Option.map_some] at hflat
    obtain ⟨h1, h2, h3⟩ := replaceInPage_some hflat.symm
    refine ⟨?_, h2, h3⟩
    unfold Distinct at hd ⊢
    have : List.Pairwise (fun a b => a ≠ b) (p'.flatten.map (·.key)) := by
      rw [h1, List.pairwise_map]; exact hd
    rw [List.pairwise_map] at this
    exact this
  | none =>
    simp only
    rw [hr] at hflat
    simp only [Option.map_none] at hflat
    have hno := replaceInPage_none.mp hflat.symm
    rw [pushEntry_flat]
    refine ⟨?_, ?_, ?_⟩
    · unfold Distinct
      rw [List.pairwise_append]
      refine ⟨hd, List.pairwise_singleton _ _, ?_⟩
      intro a ha b hb
      simp only [List.mem_singleton] at hb
      subst hb
      exact hno a ha
    · intro x hx
      rcases List.mem_append.mp hx with hx | hx
      · exact Or.inr hx
      · simp only [List.mem_singleton] at hx; exact Or.inl hx
    · intro k
      rw [findK_append_one]
      by_cases hk : e.key = k
      · have : findK k pages.flatten = none := by
          rw [findK_none_iff]; intro x hx; rw [← hk]; exact hno x hx
        simp [hk, this]
      · simp [hk]

/-! ### table-level facts -/

theorem bucketHash_lt (k : Nat) : bucketHash k < nBuckets := Nat.mod_lt _ (by decide)

theorem mem_allEntries {bk : Nat → Pages} {e : REntry} :
    e ∈ allEntries bk ↔ ∃ b, b < nBuckets ∧ e ∈ (bk b).flatten := by
  unfold allEntries
  rw [List.mem_flatMap]
  constructor
  · rintro ⟨b, hb, he⟩; exact ⟨b, List.mem_range.mp hb, he⟩
  · rintro ⟨b, hb, he⟩; exact ⟨b, List.mem_range.mpr hb, he⟩

theorem mem_rebuildFilter {bk : Nat → Pages} (ht : TInv bk) (b : Nat) (e : REntry)
    (he : e ∈ (bk b).flatten) (hl : isLive e.ty = true) : hashOf e.key ∈ rebuildFilter bk := by
  unfold rebuildFilter
  rw [List.mem_map]
  refine ⟨e, ?_, rfl⟩
  rw [List.mem_filter]
  refine ⟨mem_allEntries.mpr ⟨b, ?_, he⟩, hl⟩
  rw [← ht.home b e he]
  exact bucketHash_lt _

/-- `is_resident` (filter, then first live match) is membership in the denoted set. -/
theorem isResident_eq (s : State) (hi : Inv s) (k : Nat) : isResident s k = absT s.buckets k := by
  unfold isResident absT resIn
  rw [find_live k _ (hi.t.distinct _)]
  cases hf : findK k (s.buckets (bucketHash k)).flatten with
  | none => simp [Option.filter]
  | some e =>
    obtain ⟨hmem, hkey⟩ := findK_some hf
    by_cases hl : isLive e.ty = true
    · have hin := hi.filter _ e hmem hl
      rw [hkey] at hin
      simp [Option.filter, hl, residentTy, hin]
    · have hl' : isLive e.ty = false := by simpa using hl
      simp [Option.filter, hl', residentTy]

theorem absT_update (bk : Nat → Pages) (b : Nat) (pg : Pages) (k : Nat) :
    absT (fun i => if i = b then pg else bk i) k =
      if bucketHash k = b then resIn pg.flatten k else absT bk k := by
  unfold absT
  by_cases h : bucketHash k = b <;> simp [h]

theorem insertEntry_spec (cfg : Cfg) (s : State) (hi : Inv s) (e : REntry) :
    Inv (insertEntry cfg s e) ∧
      (∀ k, absT (insertEntry cfg s e).buckets k = if k = e.key then residentTy e.ty else absT s.buckets k) ∧
      (insertEntry cfg s e).disk = s.disk := by
  obtain ⟨h1, h2, h3⟩ := insert_flat cfg (s.buckets (bucketHash e.key)) e (hi.t.distinct _)
  refine ⟨⟨⟨?_, ?_⟩, ?_, hi.d, ?_⟩, ?_, rfl⟩
  · intro b
    unfold insertEntry
    simp only
    by_cases hb : b = bucketHash e.key
    · rw [if_pos hb]; exact h1
    · rw [if_neg hb]; exact hi.t.distinct b
  · intro b x hx
    unfold insertEntry at hx
    simp only at hx
    by_cases hb : b = bucketHash e.key
    · rw [if_pos hb] at hx
      rcases h2 x hx with rfl | hx
      · exact hb.symm
      · rw [hb]; exact hi.t.home _ x hx
    · rw [if_neg hb] at hx; exact hi.t.home b x hx
  · intro b x hx hl
    have hsub : ∀ h, h ∈ s.filter → h ∈ (insertEntry cfg s e).filter := by
      intro h hh
      unfold insertEntry
      simp only
      split
      · exact hh
      · exact List.mem_cons_of_mem _ hh
    have hself : hashOf e.key ∈ (insertEntry cfg s e).filter := by
      unfold insertEntry
      simp only
      split
      · rename_i hc; simpa using hc
      · exact List.mem_cons_self
    unfold insertEntry at hx
    simp only at hx
    by_cases hb : b = bucketHash e.key
    · rw [if_pos hb] at hx
      rcases h2 x hx with rfl | hx
      · exact hself
      · exact hsub _ (hi.filter _ x hx hl)
    · rw [if_neg hb] at hx; exact hsub _ (hi.filter b x hx hl)
  · intro hd
    have : (insertEntry cfg s e).dirty = true := rfl
    rw [this] at hd
    cases hd
  · intro k
    have : (insertEntry cfg s e).buckets = fun i => if i = bucketHash e.key then
        (match replaceInPages e (s.buckets (bucketHash e.key)) with
          | some p => p
          | none => pushEntry cfg (s.buckets (bucketHash e.key)) e) else s.buckets i := rfl
    rw [this, absT_update]
    by_cases hk : k = e.key
    · subst hk
      rw [if_pos rfl, if_pos rfl]
      unfold resIn
      rw [h3 e.key, if_pos rfl]
    · rw [if_neg hk]
      by_cases hb : bucketHash k = bucketHash e.key
      · rw [if_pos hb]
        unfold resIn absT resIn
        rw [h3 k, if_neg (fun h => hk h.symm), hb]
      · rw [if_neg hb]

/-! ### batch delete -/

theorem findK_map_ty (k : Nat) (f : REntry → REntry) (hf : ∀ e, (f e).key = e.key) (l : List REntry) :
    findK k (l.map f) = (findK k l).map f := by
  induction l with
  | nil => rfl
  | cons x l ih =>
    rw [List.map_cons, findK_cons, findK_cons, hf x]
    by_cases h : x.key = k
    · simp [h]
    · simp [h, ih]

theorem flatten_map_map (f : REntry → REntry) (pages : Pages) :
    (pages.map (·.map f)).flatten = pages.flatten.map f := by
  induction pages with
  | nil => rfl
  | cons p ps ih => simp only [List.map_cons, List.flatten_cons, List.map_append, ih]

def delFn (keys : List Nat) (e : REntry) : REntry :=
  if keys.contains e.key then { e with ty := tyDelete } else e

theorem delFn_key (keys : List Nat) (e : REntry) : (delFn keys e).key = e.key := by
  unfold delFn; split <;> rfl

theorem tinv_map (bk : Nat → Pages) (ht : TInv bk) (f : REntry → REntry) (hf : ∀ e, (f e).key = e.key) :
    TInv (fun b => (bk b).map (·.map f)) := by
  refine ⟨?_, ?_⟩
  · intro b
    show Distinct ((bk b).map (·.map f)).flatten
    rw [flatten_map_map]
    unfold Distinct
    rw [List.pairwise_map]
    simp only [hf]
    exact ht.distinct b
  · intro b e he
    have he : e ∈ ((bk b).map (·.map f)).flatten := he
    rw [flatten_map_map] at he
    obtain ⟨x, hx, rfl⟩ := List.mem_map.mp he
    rw [hf x]; exact ht.home b x hx

theorem batchDelete_spec (s : State) (hi : Inv s) (keys : List Nat) :
    Inv (batchDelete s keys) ∧
      (∀ k, absT (batchDelete s keys).buckets k = if keys.contains k then false else absT s.buckets k) ∧
      (batchDelete s keys).disk = s.disk := by
  have hbk : (batchDelete s keys).buckets = fun b => (s.buckets b).map (·.map (delFn keys)) := rfl
  have ht := tinv_map s.buckets hi.t (delFn keys) (delFn_key keys)
  refine ⟨⟨by rw [hbk]; exact ht, ?_, hi.d, ?_⟩, ?_, rfl⟩
  · intro b e he hl
    have : (batchDelete s keys).filter = rebuildFilter (batchDelete s keys).buckets := rfl
    rw [this]
    rw [hbk] at he ⊢
    exact mem_rebuildFilter ht b e he hl
  · intro hd
    have : (batchDelete s keys).dirty = true := rfl
    rw [this] at hd
    cases hd
  · intro k
    rw [hbk]
    unfold absT resIn
    simp only
    rw [flatten_map_map, findK_map_ty k _ (delFn_key keys)]
    cases hf : findK k (s.buckets (bucketHash k)).flatten with
    | none => simp
    | some e =>
      have hk := (findK_some hf).2
      show residentTy (delFn keys e).ty = if keys.contains k = true then false else residentTy e.ty
      subst hk
      unfold delFn
      by_cases hc : keys.contains e.key = true
      · rw [if_pos hc, if_pos hc]; rfl
      · rw [if_neg hc, if_neg hc]

theorem foldl_insert_spec (cfg : Cfg) (keys : List Nat) : ∀ (s : State), Inv s →
    Inv (keys.foldl (fun s k => insertEntry cfg s ⟨k, tyDelete⟩) s) ∧
      (∀ k, absT (keys.foldl (fun s k => insertEntry cfg s ⟨k, tyDelete⟩) s).buckets k =
        if keys.contains k then false else absT s.buckets k) ∧
      (keys.foldl (fun s k => insertEntry cfg s ⟨k, tyDelete⟩) s).disk = s.disk := by
  induction keys with
  | nil => intro s hi; exact ⟨hi, fun k => by simp, rfl⟩
  | cons x xs ih =>
    intro s hi
    obtain ⟨h1, h2, h3⟩ := insertEntry_spec cfg s hi ⟨x, tyDelete⟩
    obtain ⟨h4, h5, h6⟩ := ih _ h1
    refine ⟨h4, ?_, by rw [List.foldl_cons, h6, h3]⟩
    intro k
    rw [List.foldl_cons, h5 k, h2 k]
    simp only [List.contains_cons]
    by_cases hx : k = x
    · subst hx
      simp [residentTy, isLive, tyDelete, tyMarkNonResident]
    · have : (k == x) = false := by simpa using hx
      simp [this, hx]

theorem deleteKeys_spec (cfg : Cfg) (s : State) (hi : Inv s) (keys : List Nat) :
    Inv (deleteKeys cfg s keys) ∧
      (∀ k, absT (deleteKeys cfg s keys).buckets k = if keys.contains k then false else absT s.buckets k) ∧
      (deleteKeys cfg s keys).disk = s.disk := by
  unfold deleteKeys
  split
  · exact batchDelete_spec s hi keys
  · exact foldl_insert_spec cfg keys s hi

/-! ### the refinement -/

structure Rel (s : State) (S : SState) : Prop where
  inv : Inv s
  mem : ∀ k, absT s.buckets k = S.mem k
  disk : ∀ k, absDisk s k = S.disk k

def outOk (o : Out) : Option Out → Prop
  | some x => o = x
  | none => True

theorem tinv_empty : TInv (fun _ => ([] : Pages)) :=
  ⟨fun _ => List.Pairwise.nil, (by intro b e he; cases he)⟩

theorem rel_init : Rel State.init Cascette.Spec.ResidencySet.State.init :=
  ⟨⟨tinv_empty, (by intro b e he; cases he), (by intro d hd; cases hd), fun _ _ => rfl⟩,
    fun _ => rfl, fun _ => rfl⟩

theorem step_refines (cfg : Cfg) (s : State) (S : SState) (op : Op) (h : Rel s S) :
    Rel (step cfg s op).1 (sstep S op).1 ∧ outOk (step cfg s op).2 (sstep S op).2 := by
  obtain ⟨hi, hm, hd⟩ := h
  have ins : ∀ (e : REntry), Rel (insertEntry cfg s e)
      { S with mem := Cascette.Spec.ResidencySet.set S.mem e.key (residentTy e.ty) } := by
    intro e
    obtain ⟨h1, h2, h3⟩ := insertEntry_spec cfg s hi e
    refine ⟨h1, ?_, ?_⟩
    · intro k
      rw [h2 k]
      unfold Cascette.Spec.ResidencySet.set
      by_cases hk : k = e.key <;> simp [hk, hm k]
    · intro k
      unfold absDisk
      rw [h3]
      exact hd k
  cases op with
  | mark k => exact ⟨ins ⟨k, tySet⟩, rfl⟩
  | unmark k => exact ⟨ins ⟨k, tyDelete⟩, rfl⟩
  | span k => exact ⟨ins ⟨k, tyMarkNonResident⟩, rfl⟩
  | delete pad ks =>
    obtain ⟨h1, h2, h3⟩ := deleteKeys_spec cfg s hi (delKeys pad ks)
    refine ⟨⟨h1, ?_, ?_⟩, rfl⟩
    · intro k
      show absT (deleteKeys cfg s (delKeys pad ks)).buckets k = if (delKeys pad ks).contains k then false else S.mem k
      rw [h2 k, hm k]
    · intro k
      show absDisk (deleteKeys cfg s (delKeys pad ks)) k = S.disk k
      unfold absDisk
      rw [h3]
      exact hd k
  | isResident k =>
    refine ⟨⟨hi, hm, hd⟩, ?_⟩
    show Out.bool (isResident s k) = Out.bool (S.mem k)
    rw [isResident_eq s hi k, hm k]
  | scan => exact ⟨⟨hi, hm, hd⟩, trivial⟩
  | count => exact ⟨⟨hi, hm, hd⟩, trivial⟩
  | save =>
    refine ⟨?_, ?_⟩
    · show Rel (save s) { S with disk := S.mem }
      unfold save
      by_cases hdirty : s.dirty = true
      · rw [if_pos hdirty]
        refine ⟨⟨hi.t, hi.filter, ?_, fun _ _ => rfl⟩, hm, ?_⟩
        · intro d hd'
          simp only [Option.some.injEq] at hd'
          subst hd'
          exact hi.t
        · intro k
          exact hm k
      · rw [if_neg hdirty]
        have hclean : s.dirty = false := by simpa using hdirty
        refine ⟨hi, hm, ?_⟩
        intro k
        show absDisk s k = S.mem k
        unfold absDisk
        rw [← hi.clean hclean k, hm k]
    · show outOk (save s, Out.ok).2 (some Out.ok)
      rfl
  | load =>
    refine ⟨?_, rfl⟩
    show Rel (load s) { S with mem := S.disk }
    have htd : TInv (match s.disk with | some d => d | none => fun _ => []) := by
      cases hdk : s.disk with
      | none => exact tinv_empty
      | some d => exact hi.d d hdk
    refine ⟨⟨htd, ?_, hi.d, fun _ _ => rfl⟩, ?_, hd⟩
    · intro b e he hl
      exact mem_rebuildFilter htd b e he hl
    · intro k
      exact hd k

theorem run_refines (cfg : Cfg) (ops : List Op) : ∀ (s : State) (S : SState), Rel s S →
    Rel (run cfg s ops).1 (Cascette.Spec.ResidencySet.run S ops).1 ∧
      List.length (run cfg s ops).2 = List.length (Cascette.Spec.ResidencySet.run S ops).2 ∧
      ∀ (i : Nat) o x, (run cfg s ops).2[i]? = some o → (Cascette.Spec.ResidencySet.run S ops).2[i]? = some x →
        outOk o x := by
  induction ops with
  | nil =>
    intro s S h
    refine ⟨h, rfl, ?_⟩
    intro i o x ho
    simp [run] at ho
  | cons op ops ih =>
    intro s S h
    obtain ⟨h1, h2⟩ := step_refines cfg s S op h
    obtain ⟨h3, h4, h5⟩ := ih _ _ h1
    refine ⟨h3, by simp only [run, Cascette.Spec.ResidencySet.run, List.length_cons, h4], ?_⟩
    intro i o x ho hx
    cases i with
    | zero =>
      simp only [run, Cascette.Spec.ResidencySet.run, List.getElem?_cons_zero, Option.some.injEq] at ho hx
      subst ho; subst hx
      exact h2
    | succ i =>
      simp only [run, Cascette.Spec.ResidencySet.run, List.getElem?_cons_succ] at ho hx
      exact h5 i o x ho hx

/-- `scan_keys` lists exactly the resident keys. -/
theorem scan_iff (s : State) (hi : Inv s) (k : Nat) : k ∈ scanKeys s ↔ absT s.buckets k = true := by
  unfold scanKeys
  rw [List.mem_map]
  constructor
  · rintro ⟨e, he, rfl⟩
    rw [List.mem_filter] at he
    obtain ⟨b, _, hb⟩ := mem_allEntries.mp he.1
    have hhome := hi.t.home b e hb
    unfold absT resIn
    rw [hhome, findK_of_mem (hi.t.distinct b) hb]
    exact he.2
  · intro h
    unfold absT resIn at h
    cases hf : findK k (s.buckets (bucketHash k)).flatten with
    | none => rw [hf] at h; cases h
    | some e =>
      rw [hf] at h
      obtain ⟨hmem, hkey⟩ := findK_some hf
      refine ⟨e, ?_, hkey⟩
      rw [List.mem_filter]
      exact ⟨mem_allEntries.mpr ⟨_, bucketHash_lt k, hmem⟩, h⟩

/-- all stored entries have pairwise different keys (per bucket by replace-in-place, across
buckets because an entry sits in the bucket its key hashes to). -/
theorem allEntries_distinct {bk : Nat → Pages} (ht : TInv bk) : Distinct (allEntries bk) := by
  unfold Distinct allEntries
  rw [List.pairwise_flatMap]
  refine ⟨fun b _ => ht.distinct b, ?_⟩
  refine List.Pairwise.imp ?_ (List.pairwise_lt_range (n := nBuckets))
  intro b1 b2 hlt x hx y hy heq
  have h1 := ht.home b1 x hx
  have h2 := ht.home b2 y hy
  rw [heq] at h1
  omega

/-- `scan_keys` lists no key twice. -/
theorem scan_nodup (s : State) (hi : Inv s) : (scanKeys s).Nodup := by
  unfold scanKeys List.Nodup
  rw [List.pairwise_map]
  exact List.Pairwise.sublist List.filter_sublist (allEntries_distinct hi.t)

/-- `entry_count` is the number of distinct keys whose latest mark is live (so it over-counts the
resident keys by exactly the keys marked span-non-resident: the recorded finding). -/
theorem scan_length_le_count (s : State) : (scanKeys s).length ≤ entryCount s := by
  unfold scanKeys entryCount
  rw [List.length_map]
  have : (allEntries s.buckets).filter (fun e => isLive e.ty && e.ty != tyMarkNonResident) =
      ((allEntries s.buckets).filter (fun e => isLive e.ty)).filter (fun e => e.ty != tyMarkNonResident) := by
    rw [List.filter_filter]
    congr 1
    funext e
    exact Bool.and_comm _ _
  rw [this]
  exact List.length_filter_le _ _

end Cascette.Proofs.Residency
