/-
Proofs/ParseGuards — lemmas about the parser front ends of Model/ParseGuards (property C02).
Core Lean only (`omega`, `simp`, structural induction).
-/
import Cascette.Model.ParseGuards
namespace Cascette.Proofs.ParseGuards
open Cascette Cascette.Model.ParseGuards
open Cascette.Model.Integrity (slice beNat leNat byteAt)

theorem byteAt_lt (d : Bytes) (i : Nat) : byteAt d i < 256 := by
  unfold byteAt; exact (d.getD i 0).isLt
theorem u16be_lt (d : Bytes) (i : Nat) : u16be d i < 65536 := by
  unfold u16be; have := byteAt_lt d i; have := byteAt_lt d (i+1); omega
theorem u16le_lt (d : Bytes) (i : Nat) : u16le d i < 65536 := by
  unfold u16le; have := byteAt_lt d i; have := byteAt_lt d (i+1); omega

/-! generic splitting lemmas for `if` chains of fronts -/
theorem ite_np {c : Prop} [Decidable c] {x y : Front} (hx : x.verdict ≠ .panic) (hy : y.verdict ≠ .panic) :
    (if c then x else y).verdict ≠ .panic := by split <;> assumption
theorem err_np : Front.error.verdict ≠ .panic := by simp [Front.error]
theorem ite_allocs {c : Prop} [Decidable c] {x y : Front} {Q : Nat → Prop}
    (hx : c → ∀ a ∈ x.allocs, Q a) (hy : ¬c → ∀ a ∈ y.allocs, Q a) :
    ∀ a ∈ (if c then x else y).allocs, Q a := by
  split
  · exact hx ‹_›
  · exact hy ‹_›
theorem err_allocs {Q : Nat → Prop} : ∀ a ∈ Front.error.allocs, Q a := by simp [Front.error]

/-! ## BLTE -/
namespace Blte
open Cascette.Model.ParseGuards.Blte

theorem lz4Prefix_le (m : Nat) (p : Bytes) : ∀ a ∈ lz4Prefix m p, a ≤ maxDecomp := by
  intro a ha
  unfold lz4Prefix at ha
  split at ha
  · simp at ha; omega
  · simp at ha

/-- the chunk loop never panics; every `vec![0; cs-1]` it requests fits the unread input; every
LZ4 prefix it passes on is below the cap. -/
theorem chunks_spec (infos : List (Nat × Nat)) (rest : Bytes) :
    (chunks infos rest).1 ≠ .panic ∧ (∀ a ∈ (chunks infos rest).2.1, a ≤ rest.length) ∧
    (∀ a ∈ (chunks infos rest).2.2, a ≤ maxDecomp) := by
  induction infos generalizing rest with
  | nil => simp [chunks]
  | cons i infos ih =>
    obtain ⟨cs, ds⟩ := i
    unfold chunks
    split
    · simp
    · split
      · simp
      · rename_i m body
        split
        · simp
        · split
          · simp
          · rename_i h1 h2
            have := ih (body.drop (cs - 1))
            obtain ⟨p1, p2, p3⟩ := this
            refine ⟨p1, ?_, ?_⟩
            · intro a ha
              simp only [List.mem_cons] at ha
              rcases ha with rfl | ha
              · simp only [List.length_cons]; omega
              · have := p2 a ha
                simp only [List.length_drop, List.length_cons] at this ⊢; omega
            · intro a ha
              simp only [List.mem_append] at ha
              rcases ha with ha | ha
              · exact lz4Prefix_le _ _ a ha
              · exact p3 a ha

theorem table_rest_le (rec : Nat) (n : Nat) (rest : Bytes) (infos : List (Nat × Nat)) (r : Bytes)
    (h : table rec n rest = some (infos, r)) : r.length ≤ rest.length := by
  induction n generalizing rest infos r with
  | zero => simp [table] at h; obtain ⟨_, rfl⟩ := h; exact Nat.le_refl _
  | succ n ih =>
    unfold table at h
    split at h
    · cases h
    · split at h
      · cases h
      · rename_i infos' r' heq
        simp only [Option.some.injEq, Prod.mk.injEq] at h
        obtain ⟨_, rfl⟩ := h
        have := ih _ _ _ heq
        simp only [List.length_drop] at this; omega

/-- a table of `n` rows is only read from an input that holds `n·rec` bytes: the row count never
sizes anything by itself (binrw reads row by row). -/
theorem table_some_len (rec : Nat) (n : Nat) (rest : Bytes) (infos : List (Nat × Nat)) (r : Bytes)
    (h : table rec n rest = some (infos, r)) : n * rec ≤ rest.length ∧ infos.length = n := by
  induction n generalizing rest infos r with
  | zero => simp [table] at h; obtain ⟨rfl, _⟩ := h; simp
  | succ n ih =>
    unfold table at h
    split at h
    · cases h
    · rename_i hlen
      split at h
      · cases h
      · rename_i infos' r' heq
        simp only [Option.some.injEq, Prod.mk.injEq] at h
        obtain ⟨rfl, _⟩ := h
        have := ih _ _ _ heq
        simp only [List.length_drop, List.length_take] at this hlen
        refine ⟨?_, by simp [this.2]⟩
        rw [Nat.succ_mul]; omega

def Good (b : Bytes) (f : Front) : Prop :=
  f.verdict ≠ .panic ∧ (∀ a ∈ f.allocs, a ≤ b.length) ∧ (∀ a ∈ f.capped, a ≤ maxDecomp)

theorem good_err (b : Bytes) : Good b Front.error := by simp [Good, Front.error]
theorem good_ite {b : Bytes} {c : Prop} [Decidable c] {x y : Front} (hx : c → Good b x) (hy : ¬c → Good b y) :
    Good b (if c then x else y) := by
  split
  · exact hx ‹_›
  · exact hy ‹_›

theorem front_good (b : Bytes) : Good b (front b) := by
  unfold front
  refine good_ite (fun _ => good_err b) (fun h4 => ?_)
  refine good_ite (fun _ => good_err b) (fun _ => ?_)
  refine good_ite (fun _ => good_err b) (fun h8 => ?_)
  refine good_ite (fun _ => ?_) (fun _ => ?_)
  · -- single chunk
    split
    · simp [Good, maxDecomp]
    · rename_i m body hd
      refine good_ite (fun _ => good_err b) (fun _ => ?_)
      refine ⟨by simp, ?_, lz4Prefix_le _ _⟩
      intro a ha
      simp only [List.mem_cons, List.mem_nil_iff, or_false] at ha
      have : (b.drop 8).length = body.length + 1 := by rw [hd]; simp
      simp only [List.length_drop] at this
      omega
  · refine good_ite (fun _ => good_err b) (fun _ => ?_)
    split
    · exact good_err b
    · rename_i rec _
      refine good_ite (fun _ => good_err b) (fun _ => ?_)
      dsimp only
      split
      · exact good_err b
      · rename_i infos rest ht
        have hr := table_rest_le _ _ _ _ _ ht
        simp only [List.length_drop] at hr
        obtain ⟨p1, p2, p3⟩ := chunks_spec infos rest
        generalize chunks infos rest = r at *
        obtain ⟨v, a, c⟩ := r
        simp only at p1 p2 p3 ⊢
        split
        · refine ⟨by simp, fun x hx => by have := p2 x hx; omega, ?_⟩
          intro x hx
          simp only [List.mem_cons] at hx
          rcases hx with h | h
          · rw [h]; exact Nat.min_le_right _ _
          · exact p3 x h
        · refine ⟨by simpa using p1, fun x hx => by have := p2 x hx; omega, by simp⟩

/-! ### encrypted chunks -/

theorem v_ite {P : Verdict → Prop} {c : Prop} [Decidable c] {x y : Verdict} (hx : c → P x) (hy : ¬c → P y) :
    P (if c then x else y) := by
  split
  · exact hx ‹_›
  · exact hy ‹_›

/-- with the per-field guards in place no index / slice of the encrypted-chunk header is out of
range, whatever the key store answers. -/
theorem encFront_no_panic (known : Nat → Bool) (d : Bytes) : encFront known d ≠ .panic := by
  unfold encFront encFrontG
  simp only [true_and]
  refine v_ite (P := (· ≠ .panic)) (fun _ => by decide) (fun h16 => ?_)
  refine v_ite (P := (· ≠ .panic)) (fun h => by omega) (fun _ => ?_)
  refine v_ite (P := (· ≠ .panic)) (fun _ => by decide) (fun _ => ?_)
  refine v_ite (P := (· ≠ .panic)) (fun _ => by decide) (fun g1 => ?_)
  refine v_ite (P := (· ≠ .panic)) (fun h => absurd h g1) (fun _ => ?_)
  refine v_ite (P := (· ≠ .panic)) (fun _ => by decide) (fun _ => ?_)
  refine v_ite (P := (· ≠ .panic)) (fun _ => by decide) (fun g2 => ?_)
  refine v_ite (P := (· ≠ .panic)) (fun h => by omega) (fun _ => ?_)
  refine v_ite (P := (· ≠ .panic)) (fun _ => by decide) (fun _ => ?_)
  refine v_ite (P := (· ≠ .panic)) (fun _ => by decide) (fun g3 => ?_)
  refine v_ite (P := (· ≠ .panic)) (fun h => absurd h g3) (fun _ => ?_)
  refine v_ite (P := (· ≠ .panic)) (fun _ => by decide) (fun g4 => ?_)
  refine v_ite (P := (· ≠ .panic)) (fun h => by omega) (fun _ => ?_)
  exact v_ite (P := (· ≠ .panic)) (fun _ => by decide) (fun _ => by decide)

/-- the front end passes only on a complete header: key found, IV size 4 or 8, `11 + iv_size` bytes. -/
theorem encFront_pass (known : Nat → Bool) (d : Bytes) (h : encFront known d = .pass) :
    known (leNat (slice d 1 8)) = true ∧ (byteAt d 9 = 4 ∨ byteAt d 9 = 8) ∧ 11 + byteAt d 9 ≤ d.length := by
  revert h
  unfold encFront encFrontG
  simp only [true_and]
  refine v_ite (P := (· = .pass → _)) (fun _ h => by cases h) (fun h16 => ?_)
  refine v_ite (P := (· = .pass → _)) (fun _ h => by cases h) (fun _ => ?_)
  refine v_ite (P := (· = .pass → _)) (fun _ h => by cases h) (fun _ => ?_)
  refine v_ite (P := (· = .pass → _)) (fun _ h => by cases h) (fun g1 => ?_)
  refine v_ite (P := (· = .pass → _)) (fun _ h => by cases h) (fun _ => ?_)
  refine v_ite (P := (· = .pass → _)) (fun _ h => by cases h) (fun hk => ?_)
  refine v_ite (P := (· = .pass → _)) (fun _ h => by cases h) (fun g2 => ?_)
  refine v_ite (P := (· = .pass → _)) (fun _ h => by cases h) (fun _ => ?_)
  refine v_ite (P := (· = .pass → _)) (fun _ h => by cases h) (fun hiv => ?_)
  refine v_ite (P := (· = .pass → _)) (fun _ h => by cases h) (fun g3 => ?_)
  refine v_ite (P := (· = .pass → _)) (fun _ h => by cases h) (fun _ => ?_)
  refine v_ite (P := (· = .pass → _)) (fun _ h => by cases h) (fun g4 => ?_)
  refine v_ite (P := (· = .pass → _)) (fun _ h => by cases h) (fun _ => ?_)
  refine v_ite (P := (· = .pass → _)) (fun _ h => by cases h) (fun _ _ => ?_)
  refine ⟨by simpa using hk, by omega, by omega⟩

/-- with no matching key in the store, the same header code WITHOUT its per-field guards cannot
panic either: the missing guards are invisible to every input whose key name is not found. -/
theorem encFrontG_unknown_key_hides (g : Bool) (d : Bytes) : encFrontG g (fun _ => false) d ≠ .panic := by
  unfold encFrontG
  refine v_ite (P := (· ≠ .panic)) (fun _ => by decide) (fun h16 => ?_)
  refine v_ite (P := (· ≠ .panic)) (fun h => by omega) (fun _ => ?_)
  refine v_ite (P := (· ≠ .panic)) (fun _ => by decide) (fun _ => ?_)
  refine v_ite (P := (· ≠ .panic)) (fun _ => by decide) (fun _ => ?_)
  refine v_ite (P := (· ≠ .panic)) (fun h => by omega) (fun _ => ?_)
  exact v_ite (P := (· ≠ .panic)) (fun _ => by decide) (fun h => absurd rfl h)

theorem firstStop_mem (vs : List Verdict) : firstStop vs = .pass ∨ firstStop vs ∈ vs := by
  induction vs with
  | nil => left; rfl
  | cons v vs ih =>
    cases v
    · right; simp [firstStop]
    · right; simp [firstStop]
    · rcases ih with h | h
      · left; simpa [firstStop] using h
      · right; simp only [firstStop]; exact List.mem_cons_of_mem _ h

theorem frontKeys_spec (known : Nat → Bool) (b : Bytes) :
    (frontKeys known b).verdict ≠ .panic ∧ (frontKeys known b).allocs = (front b).allocs ∧
    (frontKeys known b).capped = (front b).capped := by
  have h0 := (front_good b).1
  unfold frontKeys
  dsimp only
  split
  · exact ⟨h0, rfl, rfl⟩
  · split
    · split
      · split
        · exact ⟨by simp, rfl, rfl⟩
        · exact ⟨h0, rfl, rfl⟩
      · exact ⟨h0, rfl, rfl⟩
    · split
      · exact ⟨h0, rfl, rfl⟩
      · split
        · exact ⟨h0, rfl, rfl⟩
        · rename_i infos rest _
          refine ⟨?_, rfl, rfl⟩
          dsimp only
          rcases firstStop_mem ((encChunks infos rest).map (encFront known)) with h | h
          · rw [h]; simp
          · intro hp
            rw [hp] at h
            simp only [List.mem_map] at h
            obtain ⟨p, _, hp2⟩ := h
            exact encFront_no_panic known p hp2

end Blte

/-! ## Encoding -/
namespace Enc
open Cascette.Model.ParseGuards.Enc

theorem front_no_panic (s1 s2 s3 : Nat) (b : Bytes) : (front s1 s2 s3 b).verdict ≠ .panic := by
  unfold front
  repeat' (first | exact err_np | apply ite_np)
  simp

theorem front_alloc (s1 s2 s3 : Nat) (h1 : s1 ≤ 64) (h2 : s2 ≤ 64) (h3 : s3 ≤ 64) (b : Bytes) :
    ∀ a ∈ (front s1 s2 s3 b).allocs, a ≤ 64 * b.length := by
  unfold front
  repeat' (first | exact err_allocs | refine ite_allocs (fun _ => ?_) (fun _ => ?_))
  intro a ha
  simp only [dataSize] at *
  generalize u16be b 5 = cps at *
  generalize u16be b 7 = eps at *
  generalize beNat (slice b 9 4) = cc at *
  generalize beNat (slice b 13 4) = ec at *
  generalize beNat (slice b 18 4) = es at *
  have e1 : cc * (32 + cps * 1024) = cc * 32 + cc * (cps * 1024) := Nat.mul_add _ _ _
  have e2 : ec * (32 + eps * 1024) = ec * 32 + ec * (eps * 1024) := Nat.mul_add _ _ _
  have g1 : cps * 1024 ≤ cc * (cps * 1024) := Nat.le_mul_of_pos_left _ (by omega)
  have g2 : eps * 1024 ≤ ec * (eps * 1024) := Nat.le_mul_of_pos_left _ (by omega)
  have k1 : cc * s1 ≤ cc * 64 := Nat.mul_le_mul_left _ h1
  have k2 : cc * s2 ≤ cc * 64 := Nat.mul_le_mul_left _ h2
  have k3 : ec * s1 ≤ ec * 64 := Nat.mul_le_mul_left _ h1
  have k4 : ec * s3 ≤ ec * 64 := Nat.mul_le_mul_left _ h3
  simp only [e1, e2] at *
  generalize cc * (cps * 1024) = t1 at *
  generalize ec * (eps * 1024) = t2 at *
  simp only [List.mem_cons, List.mem_nil_iff, or_false] at ha
  rcases ha with h | h | h | h | h | h | h <;> omega

end Enc

/-! ## Manifests -/
namespace Manifest
open Cascette.Model.ParseGuards.Manifest

theorem install_no_panic (s1 s2 : Nat) (b : Bytes) : (installFront s1 s2 b).verdict ≠ .panic := by
  unfold installFront
  repeat' (first | exact err_np | apply ite_np)
  simp

theorem install_alloc (s1 s2 : Nat) (h1 : s1 ≤ 64) (h2 : s2 ≤ 64) (b : Bytes) :
    ∀ a ∈ (installFront s1 s2 b).allocs, a ≤ 64 * b.length + 64 * 65536 := by
  unfold installFront
  repeat' (first | exact err_allocs | refine ite_allocs (fun _ => ?_) (fun _ => ?_))
  intro a ha
  have ht := u16be_lt b 4
  generalize u16be b 4 = tagc at *
  generalize beNat (slice b 6 4) = cnt at *
  generalize byteAt b 3 = ckl at *
  have k1 : tagc * s1 ≤ tagc * 64 := Nat.mul_le_mul_left _ h1
  have k2 : cnt * s2 ≤ cnt * 64 := Nat.mul_le_mul_left _ h2
  have e : cnt * (1 + ckl + 4) = cnt * 1 + cnt * ckl + cnt * 4 := by rw [Nat.mul_add, Nat.mul_add]
  simp only [e] at *
  generalize cnt * ckl = t at *
  simp only [List.mem_cons, List.mem_nil_iff, or_false] at ha
  rcases ha with h | h | h | h <;> omega

theorem download_no_panic (s1 s2 : Nat) (b : Bytes) : (downloadFront s1 s2 b).verdict ≠ .panic := by
  unfold downloadFront
  repeat' (first | exact err_np | apply ite_np)
  simp

theorem download_alloc (s1 s2 : Nat) (h1 : s1 ≤ 64) (h2 : s2 ≤ 64) (b : Bytes) :
    ∀ a ∈ (downloadFront s1 s2 b).allocs, a ≤ 64 * b.length + 64 * 65536 := by
  unfold downloadFront
  repeat' (first | exact err_allocs | refine ite_allocs (fun _ => ?_) (fun _ => ?_))
  intro a ha
  have ht := u16be_lt b 9
  generalize u16be b 9 = tagc at *
  generalize beNat (slice b 5 4) = cnt at *
  generalize byteAt b 3 = ekl at *
  have k1 : tagc * s2 ≤ tagc * 64 := Nat.mul_le_mul_left _ h2
  have k2 : cnt * s1 ≤ cnt * 64 := Nat.mul_le_mul_left _ h1
  have e : cnt * (ekl + 6) = cnt * ekl + cnt * 6 := Nat.mul_add _ _ _
  simp only [e] at *
  generalize cnt * ekl = t at *
  simp only [List.mem_cons, List.mem_nil_iff, or_false] at ha
  rcases ha with h | h | h <;> omega

theorem size_no_panic (s1 s2 : Nat) (b : Bytes) : (sizeFront s1 s2 b).verdict ≠ .panic := by
  unfold sizeFront
  repeat' (first | exact err_np | apply ite_np)
  simp

theorem size_alloc (s1 s2 : Nat) (h1 : s1 ≤ 64) (h2 : s2 ≤ 64) (b : Bytes) :
    ∀ a ∈ (sizeFront s1 s2 b).allocs, a ≤ 64 * b.length + 64 * 65536 := by
  unfold sizeFront
  repeat' (first | exact err_allocs | refine ite_allocs (fun _ => ?_) (fun _ => ?_))
  intro a ha
  dsimp only at *
  have ht := u16be_lt b 8
  have hb := byteAt_lt b 18
  generalize u16be b 8 = tagc at *
  generalize beNat (slice b 4 4) = cnt at *
  generalize byteAt b 3 = eks at *
  have hesz : (if byteAt b 2 = 1 then byteAt b 18 else 4) ≤ 255 := by split <;> omega
  generalize (if byteAt b 2 = 1 then byteAt b 18 else 4) = esz at *
  have k1 : tagc * s1 ≤ tagc * 64 := Nat.mul_le_mul_left _ h1
  have k2 : cnt * s2 ≤ cnt * 64 := Nat.mul_le_mul_left _ h2
  have e : cnt * (eks + esz) = cnt * eks + cnt * esz := Nat.mul_add _ _ _
  have g : cnt ≤ cnt * eks := Nat.le_mul_of_pos_right _ (by omega)
  simp only [e] at *
  generalize cnt * eks = t at *
  generalize cnt * esz = t' at *
  simp only [List.mem_cons, List.mem_nil_iff, or_false] at ha
  rcases ha with h | h | h | h | h <;> omega

end Manifest
/-! ## Patch index, ZBSDIFF -/
namespace PIndex
open Cascette.Model.ParseGuards.PIndex

theorem front_spec (b : Bytes) :
    (front b).verdict ≠ .panic ∧ ∀ a ∈ (front b).allocs, a ≤ b.length := by
  unfold front
  by_cases h0 : b.length < 14
  · simp [h0, Front.error]
  · simp only [h0, if_false]
    by_cases h1 : leNat (slice b 4 4) ≠ 1
    · simp [h1, Front.error]
    · simp only [h1, if_false]
      by_cases h2 : b.length < leNat (slice b 0 4)
      · simp [h2, Front.error]
      · simp only [h2, if_false]
        split
        · simp [Front.error]
        · rename_i pos a hstep
          have ha : ∀ x ∈ a, x ≤ b.length := by
            intro x hx
            split at hstep
            · simp only [Option.some.injEq, Prod.mk.injEq] at hstep; obtain ⟨_, rfl⟩ := hstep; simp at hx
            · split at hstep
              · cases hstep
              · try dsimp only at hstep
                split at hstep
                · cases hstep
                · split at hstep
                  · split at hstep
                    · cases hstep
                    · simp only [Option.some.injEq, Prod.mk.injEq] at hstep
                      obtain ⟨_, rfl⟩ := hstep
                      simp only [List.mem_cons, List.mem_nil_iff, or_false] at hx
                      omega
                  · simp only [Option.some.injEq, Prod.mk.injEq] at hstep; obtain ⟨_, rfl⟩ := hstep; simp at hx
          by_cases h3 : b.length < pos + 4
          · simp [h3, Front.error]
          · simp only [h3, if_false]
            try dsimp only
            by_cases h4 : b.length - (pos + 4) < leNat (slice b pos 4) * 8
            · simp [h4, Front.error]
            · simp only [h4, if_false]
              refine ⟨by simp, ?_⟩
              intro x hx
              simp only [List.mem_append, List.mem_cons, List.mem_nil_iff, or_false] at hx
              rcases hx with hx | hx
              · exact ha x hx
              · omega

end PIndex

namespace Zbs
open Cascette.Model.ParseGuards.Zbs

theorem front_no_panic (b : Bytes) : (front b).verdict ≠ .panic := by
  unfold front
  repeat' (first | exact err_np | apply ite_np)
  simp

theorem front_alloc (b : Bytes) : ∀ a ∈ (front b).allocs, a ≤ b.length := by
  unfold front
  repeat' (first | exact err_allocs | refine ite_allocs (fun _ => ?_) (fun _ => ?_))
  intro a ha
  dsimp only at *
  generalize i64 (slice b 8 8) = ctrl at *
  generalize i64 (slice b 16 8) = diff at *
  simp only [List.mem_cons, List.mem_nil_iff, or_false] at ha
  rcases ha with h | h <;> omega

end Zbs

/-! ## TVFS nesting -/
namespace Tvfs
open Cascette.Model.ParseGuards.Tvfs

mutual
theorem walk_le (d : Nat) (n : Node) : (walk d n).2 ≤ max (d + 1) 513 := by
  cases n with
  | file => simp only [walk]; omega
  | folder cs =>
    unfold walk
    simp only [maxPathDepth]
    by_cases h : 512 < d + 1
    · simp only [h, if_true]; omega
    · simp only [h, if_false]
      have := walkList_le (d + 1) cs
      omega
theorem walkList_le (d : Nat) (cs : List Node) : (walkList d cs).2 ≤ max (d + 1) 513 := by
  cases cs with
  | nil => simp only [walkList]; omega
  | cons c cs =>
    unfold walkList
    have h1 := walk_le d c
    have h2 := walkList_le d cs
    generalize walk d c = r1 at *
    generalize walkList d cs = r2 at *
    obtain ⟨o1, m1⟩ := r1
    obtain ⟨o2, m2⟩ := r2
    simp only at h1 h2 ⊢
    split
    · simp only; omega
    · simp only; omega
end

end Tvfs

/-! ## local storage -/
namespace Local
open Cascette.Model.ParseGuards.Local

theorem shmem_spec (b : Bytes) :
    (shmemPidFront b).verdict ≠ .panic ∧ ∀ a ∈ (shmemPidFront b).allocs, a ≤ b.length := by
  unfold shmemPidFront
  split
  · simp
  · dsimp only
    split
    · simp
    · refine ⟨by simp, ?_⟩
      intro a ha
      simp only [List.mem_cons, List.mem_nil_iff, or_false] at ha
      rcases ha with h | h <;> omega

theorem idx_spec (b : Bytes) :
    (idxFront b).1.verdict ≠ .panic ∧ (∀ a ∈ (idxFront b).1.allocs, a ≤ b.length) ∧
    ((idxFront b).1.verdict = .pass → 9 ≤ (idxFront b).2) := by
  unfold idxFront
  split
  · simp [Front.error]
  · dsimp only
    split
    · simp [Front.error]
    · split
      · simp [Front.error]
      · split
        · simp [Front.error]
        · refine ⟨by simp, ?_, ?_⟩
          · intro a ha
            simp only [List.mem_cons, List.mem_nil_iff, or_false] at ha
            omega
          · intro _; omega

end Local
end Cascette.Proofs.ParseGuards
