/-
Proofs/ManifestMut — `from_manifest` of the download and install builders (Model/ManifestMut):
loading a well-formed manifest and building again is the identity; the loaded builder satisfies
the program invariant (so every theorem about builder programs applies to programs that START
from a loaded manifest); no editing call changes a header field, so the rebuilt manifest has the
version / checksum switch / flag size / base priority (download) and the version / V2 extension
fields (install) of its source, and every priority selection of the rebuilt value uses the
source's effective priorities.
-/
import Cascette.Proofs.ManifestDownload
import Cascette.Proofs.ManifestSer
import Cascette.Model.ManifestMut
namespace Cascette.Proofs.Manifest
open Cascette Cascette.Model.Manifest Cascette.Model.ManifestMut Cascette.Spec.TagSets

/-! ### download: load, build -/

theorem dlEntryCheck_wf (hc : Bool) (fs : Nat) (e : DEntry) (h : DEntryWf hc fs e) :
    dlEntryCheck hc fs e = none := by
  obtain ⟨key, size, prio, cks, flags⟩ := e
  have h1 := h.cks
  have h2 := h.flags
  simp only at h1 h2
  unfold dlEntryCheck
  cases hc
  · simp only [Bool.false_eq_true, if_false] at h1
    subst h1
    by_cases hf : fs > 0
    · rw [if_pos hf] at h2
      obtain ⟨f, rfl, hl⟩ := h2
      have : fs ≠ 0 := by omega
      simp [hf, this, hl]
    · rw [if_neg hf] at h2
      subst h2
      simp [hf]
  · simp only [if_true] at h1
    obtain ⟨c, rfl, _⟩ := h1
    by_cases hf : fs > 0
    · rw [if_pos hf] at h2
      obtain ⟨f, rfl, hl⟩ := h2
      have : fs ≠ 0 := by omega
      simp [hf, this, hl]
    · rw [if_neg hf] at h2
      subst h2
      simp [hf]

theorem firstErr_none {α : Type} (f : α → Option Err) (l : List α) (h : ∀ x ∈ l, f x = none) :
    firstErr f l = none := by
  induction l with
  | nil => rfl
  | cons x xs ih =>
    simp only [firstErr, h x (List.mem_cons_self ..)]
    exact ih (fun y hy => h y (List.mem_cons_of_mem _ hy))

/-- what `DownloadManifestBuilder::build` returns when it succeeds -/
theorem dbuild_ok (b : DBuilder) (m : DManifest) (h : b.build = .ok m) :
    m.version = b.version ∧ m.hasCks = b.hasCks ∧
    m.flagSize = (if b.version ≥ 2 then b.flagSize else 0) ∧
    m.basePrio = (if b.version ≥ 3 then b.basePrio else 0) ∧
    m.entries = b.entries ∧ m.tags = b.tags := by
  unfold DBuilder.build at h
  split at h
  · cases h
  · split at h
    · cases h
    · split at h
      · cases h
      · split at h
        · cases h
        · split at h
          · cases h
          · simp only [Except.ok.injEq] at h
            subst h
            exact ⟨rfl, rfl, rfl, rfl, rfl, rfl⟩

/-- `from_manifest` then `build` gives back the manifest, for every well-formed manifest of
every version (1, 2, 3), with or without checksums, every flag size and base priority -/
theorem dFromManifest_build (m : DManifest) (h : DManifestWf m) : (dFromManifest m).build = .ok m := by
  obtain ⟨version, hasCks, flagSize, basePrio, entries, tags⟩ := m
  have hv := h.version
  have hf1 := h.flagsV1
  have hbv := h.baseV
  have hT := h.tags
  have hE := h.entries
  have htc := h.tagCount
  have hec := h.entryCount
  simp only at hv hf1 hbv hT hE htc hec
  unfold DBuilder.build dFromManifest
  simp only
  have c1 : ¬ (version < 2 ∧ flagSize > 0) := by
    rintro ⟨a, b⟩
    have : version = 1 := by omega
    have := hf1 this
    omega
  have c2 : ¬ (version < 3 ∧ basePrio ≠ 0) := by
    rintro ⟨a, b⟩
    exact b (hbv (by omega))
  rw [if_neg c1, if_neg c2, firstErr_none _ _ (fun e he => dlEntryCheck_wf _ _ e (hE e he))]
  simp only
  have c3 : (tags.all fun t => t.mask.length == maskSize entries.length) = true := by
    rw [List.all_eq_true]
    intro t ht
    simpa using (hT t ht).len
  rw [c3]
  simp only [Bool.not_true, Bool.false_eq_true, if_false]
  rw [if_neg (by omega)]
  have e1 : (if version ≥ 2 then flagSize else 0) = flagSize := by
    split
    · rfl
    · exact (hf1 (by omega)).symm
  have e2 : (if version ≥ 3 then basePrio else 0) = basePrio := by
    split
    · rfl
    · exact (hbv (by omega)).symm
  rw [e1, e2]

/-- the state a loaded manifest stands for: its files as (key, size, priority), per tag the name,
type and the membership vector read with `has_file` -/
def absDM (m : DManifest) : SState DF := ⟨m.entries.map dfOf, m.tags.map (absTag m.entries.length)⟩

/-- a builder loaded from a manifest whose masks are exact and whose tag names are distinct
satisfies the program invariant (the rebuilt name map resolves every name to its position), and
its abstraction is the manifest's -/
theorem dinv_fromManifest (m : DManifest) (hm : ∀ t ∈ m.tags, MaskOk m.entries.length t.mask)
    (hnd : (m.tags.map (·.name)).Nodup) :
    DInv (dFromManifest m) ∧ absD (dFromManifest m) = absDM m :=
  ⟨⟨hm, hnd, look_rebuild _ hnd⟩, rfl⟩

/-! ### download: no editing call changes a header field -/

/-- the three configuration setters (the only calls that are MEANT to change a header field) -/
def DOp.isConfig : DOp → Bool
  | .withChecksums _ => true
  | .withFlags _ => true
  | .withBase _ => true
  | _ => false

/-- same header configuration -/
def SameCfg (b b' : DBuilder) : Prop :=
  b'.version = b.version ∧ b'.hasCks = b.hasCks ∧ b'.flagSize = b.flagSize ∧ b'.basePrio = b.basePrio

theorem sameCfg_refl (b : DBuilder) : SameCfg b b := ⟨rfl, rfl, rfl, rfl⟩

theorem sameCfg_trans {a b c : DBuilder} (h1 : SameCfg a b) (h2 : SameCfg b c) : SameCfg a c :=
  ⟨h2.1.trans h1.1, h2.2.1.trans h1.2.1, h2.2.2.1.trans h1.2.2.1, h2.2.2.2.trans h1.2.2.2⟩

theorem sameCfg_orKeep (b : DBuilder) (r : Except Err DBuilder) (h : ∀ b', r = .ok b' → SameCfg b b') :
    SameCfg b (orKeepD b r) := by
  cases r with
  | error e => exact sameCfg_refl b
  | ok b' => exact h b' rfl

theorem dbitOp_cfg (b : DBuilder) (i : Nat) (name : Bytes) (f : Bytes → Bytes) (b' : DBuilder)
    (h : dbitOp b i name f = .ok b') : SameCfg b b' := by
  unfold dbitOp at h
  split at h
  · cases h
  · split at h
    · cases h
    · split at h
      · cases h
      · simp only [Except.ok.injEq] at h
        subst h
        exact ⟨rfl, rfl, rfl, rfl⟩

/-- one call that is not a configuration setter keeps version, checksum switch, flag size and
base priority -/
theorem dstep_cfg (b : DBuilder) (op : DOp) (h : DOp.isConfig op = false) : SameCfg b (dstep b op) := by
  cases op with
  | addTag n t => exact ⟨rfl, rfl, rfl, rfl⟩
  | addFile k s p =>
    apply sameCfg_orKeep
    intro b' hb
    unfold DBuilder.addFile at hb
    split at hb
    · cases hb
    · simp only [Except.ok.injEq] at hb
      subst hb
      exact ⟨rfl, rfl, rfl, rfl⟩
  | assoc i n =>
    apply sameCfg_orKeep
    intro b' hb
    rw [dassoc_eq] at hb
    exact dbitOp_cfg _ _ _ _ _ hb
  | dissoc i n =>
    apply sameCfg_orKeep
    intro b' hb
    rw [ddissoc_eq] at hb
    exact dbitOp_cfg _ _ _ _ _ hb
  | removeFile k =>
    simp only [dstep, DBuilder.removeFile]
    split
    · exact sameCfg_refl b
    · exact ⟨rfl, rfl, rfl, rfl⟩
  | removeTag n =>
    simp only [dstep, DBuilder.removeTag]
    cases nmLookup b.names n with
    | none => exact sameCfg_refl b
    | some ti =>
      simp only
      by_cases hti : ti ≥ b.tags.length
      · rw [if_pos hti]; exact sameCfg_refl b
      · rw [if_neg hti]; exact ⟨rfl, rfl, rfl, rfl⟩
  | withChecksums en => cases h
  | withFlags fs => cases h
  | withBase bp => cases h
  | setChecksum i c =>
    apply sameCfg_orKeep
    intro b' hb
    unfold DBuilder.setChecksum at hb
    split at hb
    · cases hb
    · split at hb
      · cases hb
      · simp only [Except.ok.injEq] at hb
        subst hb
        exact ⟨rfl, rfl, rfl, rfl⟩
  | setFlags i f =>
    apply sameCfg_orKeep
    intro b' hb
    unfold DBuilder.setFlags at hb
    split at hb
    · cases hb
    · split at hb
      · cases hb
      · split at hb
        · cases hb
        · simp only [Except.ok.injEq] at hb
          subst hb
          exact ⟨rfl, rfl, rfl, rfl⟩

/-- whole programs without configuration setters keep the header configuration -/
theorem drun_cfg (ops : List DOp) (b : DBuilder) (h : ∀ op ∈ ops, DOp.isConfig op = false) :
    SameCfg b (drun b ops) := by
  induction ops generalizing b with
  | nil => exact sameCfg_refl b
  | cons op ops ih =>
    simp only [drun, List.foldl_cons]
    exact sameCfg_trans (dstep_cfg b op (h op (List.mem_cons_self ..)))
      (ih (dstep b op) (fun o ho => h o (List.mem_cons_of_mem _ ho)))

/-- the effective priority depends on the manifest only through version and base priority -/
theorem effPrio_congr (m m' : DManifest) (hv : m'.version = m.version) (hb : m'.basePrio = m.basePrio)
    (e : DEntry) : effPrio m' e = effPrio m e := by
  unfold effPrio
  rw [hv, hb]

/-- load a well-formed manifest, run any program of editing calls (no configuration setter),
build: the rebuilt manifest has the source's version, checksum switch, flag size and base
priority, and therefore the source's effective priority for every entry -/
theorem dFromManifest_keeps_header (m m' : DManifest) (h : DManifestWf m) (ops : List DOp)
    (hops : ∀ op ∈ ops, DOp.isConfig op = false)
    (hb : (drun (dFromManifest m) ops).build = .ok m') :
    m'.version = m.version ∧ m'.hasCks = m.hasCks ∧ m'.flagSize = m.flagSize ∧
    m'.basePrio = m.basePrio ∧ ∀ e, effPrio m' e = effPrio m e := by
  obtain ⟨c1, c2, c3, c4⟩ := drun_cfg ops (dFromManifest m) hops
  obtain ⟨b1, b2, b3, b4, _, _⟩ := dbuild_ok _ _ hb
  have hv : m'.version = m.version := by rw [b1, c1]; rfl
  have hbp : m'.basePrio = m.basePrio := by
    rw [b4, c1, c4]
    show (if m.version ≥ 3 then m.basePrio else 0) = m.basePrio
    split
    · rfl
    · exact (h.baseV (by omega)).symm
  refine ⟨hv, by rw [b2, c2]; rfl, ?_, hbp, effPrio_congr m m' hv hbp⟩
  rw [b3, c1, c3]
  show (if m.version ≥ 2 then m.flagSize else 0) = m.flagSize
  split
  · rfl
  · have := h.version
    exact (h.flagsV1 (by omega)).symm

/-! ### install: load, build -/

theorem fillType_some (e : IEntry) (f : Nat) (h : e.ftype = some f) : fillType e = e := by
  unfold fillType
  rw [h]

theorem map_fillType_wf (es : List IEntry) (v : Nat) (hv : v ≥ 2) (h : ∀ e ∈ es, IEntryWf v e) :
    es.map fillType = es := by
  induction es with
  | nil => rfl
  | cons e es ih =>
    have he := (h e (List.mem_cons_self ..)).ft
    rw [if_pos hv] at he
    obtain ⟨f, hf, _⟩ := he
    rw [List.map_cons, fillType_some e f hf, ih (fun x hx => h x (List.mem_cons_of_mem _ hx))]

/-- install `from_manifest` then `build` gives back the manifest, V1 and V2 (with every value of
the V2 extension fields and of the per-entry file-type bytes) -/
theorem iFromManifest_build (m : IManifest) (h : IManifestWf m) : (IMut.fromManifest m).build = .ok m := by
  obtain ⟨version, v2, tags, entries⟩ := m
  have hv := h.version
  have h2 := h.v2
  have hT := h.tags
  have hE := h.entries
  have htc := h.tagCount
  have hec := h.entryCount
  simp only at hv h2 hT hE htc hec
  unfold IMut.build IMut.fromManifest
  simp only
  rw [if_neg (by omega), if_neg (by omega)]
  have c3 : (tags.all fun t => t.mask.length == maskSize entries.length) = true := by
    rw [List.all_eq_true]
    intro t ht
    simpa using (hT t ht).len
  rcases hv with hv | hv
  · subst hv
    simp only [show ¬ (1 ≥ 2) by omega, if_false, show (1 : Nat) ≠ 2 by omega] at h2 ⊢
    subst h2
    simp [c3]
  · subst hv
    simp only [if_true] at h2
    obtain ⟨c, e, u, rfl, _⟩ := h2
    simp only [show (2 : Nat) ≥ 2 by omega, if_true]
    rw [map_fillType_wf entries 2 (by omega) hE]
    simp [c3]

/-- the install builder loaded from a manifest with exact masks and distinct names satisfies the
install program invariant -/
theorem iinv_fromManifest (m : IManifest) (hm : ∀ t ∈ m.tags, MaskOk m.entries.length t.mask)
    (hnd : (m.tags.map (·.name)).Nodup) :
    IInv (IMut.fromManifest m).b ∧
    absI (IMut.fromManifest m).b = ⟨m.entries, m.tags.map (absTag m.entries.length)⟩ :=
  ⟨⟨hm, hnd, look_rebuild _ hnd⟩, rfl⟩

/-- what install `build` returns when it succeeds on a builder whose source header is that of a
well-formed manifest `m`: version and V2 extension fields of `m`; the builder's tags; the
builder's entries, each with a file-type byte iff the source is V2 (an entry that has one keeps
it, a new entry gets 0) -/
theorem ibuild_src (b : IBuilder) (m m' : IManifest) (h : IManifestWf m)
    (hb : (IMut.build ⟨b, some (m.version, m.v2)⟩) = .ok m') :
    m'.version = m.version ∧ m'.v2 = m.v2 ∧ m'.tags = b.tags ∧
    m'.entries = (if m.version = 2 then b.entries.map fillType else b.entries) := by
  have hv := h.version
  have h2 := h.v2
  unfold IMut.build at hb
  simp only at hb
  split at hb
  · cases hb
  · split at hb
    · cases hb
    · rcases hv with hv | hv
      · rw [hv] at hb h2 ⊢
        simp only [show ¬ (1 ≥ 2) by omega, if_false, show (1 : Nat) ≠ 2 by omega] at hb h2 ⊢
        split at hb
        · cases hb
        · split at hb
          · cases hb
          · split at hb
            · simp only [Except.ok.injEq] at hb
              subst hb
              exact ⟨rfl, h2.symm, rfl, rfl⟩
            · cases hb
      · rw [hv] at hb h2 ⊢
        simp only [show (2 : Nat) ≥ 2 by omega, if_true] at hb h2 ⊢
        split at hb
        · cases hb
        · split at hb
          · cases hb
          · split at hb
            · simp only [Except.ok.injEq] at hb
              subst hb
              exact ⟨rfl, rfl, rfl, rfl⟩
            · cases hb

end Cascette.Proofs.Manifest
