/-
Proofs/BlteLimits — the builder's documented chunk-size limits against the chunk table.

`BlteBuilder::with_chunk_size` accepts `MIN_CHUNK_SIZE ..= MAX_CHUNK_SIZE` (1 KiB ..= 16 MiB) bytes
of CONTENT per chunk. What is stored for a chunk (and recorded in the table's `compressed_size`) is
longer: one mode byte; for an encrypted chunk 15 header bytes and the inner mode byte on top; and
whatever the compressor returns for content it cannot shrink. These lemmas bound the stored length
of every chunk a program within the documented limits can make, so that the `as u32` table entry is
exact and `ChunkData::read_options` (whose only guards are "entry ≠ 0" and "entry ≤ what the
stream still holds") reads it back — and they show that the bound really exceeds `MAX_CHUNK_SIZE`
(a reader must not take that constant for a limit on table entries).
-/
import Cascette.Proofs.Blte
namespace Cascette.Proofs.BlteLimits
open Cascette Cascette.Model.Blte Cascette.Proofs.Blte

/-- what is assumed of zlib / LZ4 here: on content within the documented chunk size the compressed
stream is at most `B` bytes long (flate2 / lz4_flex: a few bytes per 16 KiB above the input). -/
def Bounded (cd : Codec) (B : Nat) : Prop :=
  ∀ m x c, x.length ≤ maxChunkSize → cd.compress m x = some c → c.length ≤ B

/-- longest chunk body (`data`, without the chunk's mode byte) a plain chunk can have. -/
def bodyBound (B : Nat) : Nat := max maxChunkSize B

/-- longest stored chunk (mode byte + data) of a program within the documented limits: content or
compressed stream, the chunk's mode byte, and for an encrypted chunk the 15 header bytes and the
inner mode byte. -/
def storedBound (B : Nat) : Nat := bodyBound B + 1 + encHeaderLen + 1

theorem storedBound_eq (B : Nat) : storedBound B = max maxChunkSize B + 17 := by
  simp [storedBound, bodyBound, encHeaderLen]

theorem compressChunk_len (cd : Codec) (B : Nat) (hB : Bounded cd B) (d c : Bytes) (m : Mode)
    (hd : d.length ≤ maxChunkSize) (h : compressChunk cd d m = .ok c) : c.length ≤ bodyBound B := by
  unfold bodyBound
  cases m with
  | none =>
    simp only [compressChunk, Except.ok.injEq] at h; subst h
    exact Nat.le_trans hd (Nat.le_max_left _ _)
  | zlib =>
    simp only [compressChunk] at h
    split at h
    · rename_i c' hc
      simp only [Except.ok.injEq] at h; subst h
      exact Nat.le_trans (hB _ _ _ hd hc) (Nat.le_max_right _ _)
    · cases h
  | lz4 =>
    simp only [compressChunk] at h
    split at h
    · rename_i c' hc
      simp only [Except.ok.injEq] at h; subst h
      exact Nat.le_trans (hB _ _ _ hd hc) (Nat.le_max_right _ _)
    · cases h
  | enc => cases h
  | frame => cases h

theorem chunkNew_len (cd : Codec) (B : Nat) (hB : Bounded cd B) (d : Bytes) (m : Mode) (c : Chunk)
    (hd : d.length ≤ maxChunkSize) (h : Chunk.new cd d m = .ok c) : c.data.length ≤ bodyBound B := by
  unfold Chunk.new at h
  split at h
  · simp only [Except.ok.injEq] at h; subst h
    exact Nat.le_trans hd (Nat.le_max_left _ _)
  · split at h
    · rename_i c' hc
      simp only [Except.ok.injEq] at h; subst h
      exact compressChunk_len cd B hB d c' m hd hc
    · cases h

theorem buildInner_len (cd : Codec) (B : Nat) (hB : Bounded cd B) (mode : Mode) (d inner : Bytes)
    (hd : d.length ≤ maxChunkSize) (h : buildInner cd mode d = .ok inner) :
    inner.length ≤ bodyBound B + 1 := by
  have hraw : (Mode.none.byte :: d).length ≤ bodyBound B + 1 := by
    have := Nat.le_max_left maxChunkSize B
    simp only [List.length_cons, bodyBound]; omega
  cases mode with
  | none => simp [buildInner] at h; subst h; exact hraw
  | enc => simp [buildInner] at h; subst h; exact hraw
  | zlib =>
    simp only [buildInner, ne_eq, reduceCtorEq, not_false_eq_true, and_self, if_true, if_false] at h
    split at h
    · rename_i c hc
      simp only [Except.ok.injEq] at h; subst h
      have := compressChunk_len cd B hB d c _ hd hc
      simp only [List.length_cons]; omega
    · cases h
  | lz4 =>
    simp only [buildInner, ne_eq, reduceCtorEq, not_false_eq_true, and_self, if_true, if_false] at h
    split at h
    · rename_i c hc
      simp only [Except.ok.injEq] at h; subst h
      have := compressChunk_len cd B hB d c _ hd hc
      simp only [List.length_cons]; omega
    · cases h
  | frame =>
    simp only [buildInner, ne_eq, reduceCtorEq, not_false_eq_true, and_self, if_true, if_false,
      compressChunk] at h

/-- `encrypt_chunk_with_key` adds exactly 15 bytes (`[u8; 16]` key, `[u8; 4]` IV). -/
theorem encryptChunk_len (inner ed : Bytes) (spec : EncSpec) (key : Bytes) (idx : Nat)
    (hk : key.length = 16) (hiv : spec.iv.length = 4)
    (h : encryptChunk inner spec key idx = .ok ed) : ed.length = inner.length + encHeaderLen := by
  unfold encryptChunk at h
  split at h
  · rename_i c hc
    simp only [Except.ok.injEq] at h; subst h
    have hl := (cipher_involutive _ _ _ _ _ _ hk hc).2
    simp [leBytes_length, hiv, hl, encHeaderLen]; omega
  · cases h

theorem encChunk_len (cd : Codec) (B : Nat) (hB : Bounded cd B) (mode : Mode) (d : Bytes)
    (spec : EncSpec) (key : Bytes) (idx : Nat) (c : Chunk) (hk : key.length = 16)
    (hiv : spec.iv.length = 4) (hd : d.length ≤ maxChunkSize)
    (h : encChunk cd mode d spec key idx = .ok c) : 1 + c.data.length ≤ storedBound B := by
  unfold encChunk at h
  split at h
  · cases h
  · rename_i inner hin
    split at h
    · cases h
    · rename_i ed hed
      simp only [Except.ok.injEq] at h; subst h
      have h1 := buildInner_len cd B hB mode d inner hd hin
      have h2 := encryptChunk_len inner ed spec key idx hk hiv hed
      simp only [storedBound]; omega

/-- the Rust type invariants of an encryption configuration that matter for lengths. -/
def EncWf (e : EncSpec × Bytes) : Prop := e.2.length = 16 ∧ e.1.iv.length = 4

theorem EncWf.of_ok {keys : Nat → Option Bytes} {e : EncSpec × Bytes} (h : EncOk keys e) : EncWf e :=
  ⟨h.2.1, h.2.2.1⟩

theorem makeChunk_len (cd : Codec) (B : Nat) (hB : Bounded cd B) (mode : Mode)
    (enc : Option (EncSpec × Bytes)) (henc : ∀ e, enc = some e → EncWf e) (p : Bytes) (idx : Nat)
    (c : Chunk) (hp : p.length ≤ maxChunkSize) (h : makeChunk cd mode enc p idx = .ok c) :
    1 + c.data.length ≤ storedBound B := by
  unfold makeChunk at h
  cases enc with
  | none =>
    have := chunkNew_len cd B hB p mode c hp h
    simp only [storedBound, encHeaderLen]; omega
  | some e =>
    obtain ⟨spec, key⟩ := e
    obtain ⟨hk, hiv⟩ := henc _ rfl
    exact encChunk_len cd B hB mode p spec key idx c hk hiv hp h

theorem makeChunks_len (cd : Codec) (B : Nat) (hB : Bounded cd B) (mode : Mode)
    (enc : Option (EncSpec × Bytes)) (henc : ∀ e, enc = some e → EncWf e) :
    ∀ (ps : List Bytes) (idx : Nat) (cs : List Chunk), (∀ p ∈ ps, p.length ≤ maxChunkSize) →
      makeChunks cd mode enc ps idx = .ok cs → ∀ c ∈ cs, 1 + c.data.length ≤ storedBound B
  | [], _, cs, _, h => by
    simp only [makeChunks, Except.ok.injEq] at h; subst h
    intro c hc; cases hc
  | p :: ps, idx, cs, hps, h => by
    simp only [makeChunks] at h
    split at h
    · cases h
    · rename_i c hc
      split at h
      · cases h
      · rename_i cs' hcs
        simp only [Except.ok.injEq] at h; subst h
        intro x hx
        rcases List.mem_cons.mp hx with rfl | hx
        · exact makeChunk_len cd B hB mode enc henc p idx x (hps p (by simp)) hc
        · exact makeChunks_len cd B hB mode enc henc ps (idx + 1) cs'
            (fun q hq => hps q (by simp [hq])) hcs x hx

/-- every slice of the chunking loop is at most one chunk size long. -/
theorem splitLoop_le (cs : Nat) :
    ∀ (fuel : Nat) (rest : Bytes), ∀ p ∈ splitLoop cs fuel rest, p.length ≤ cs
  | 0, _, p, hp => by simp [splitLoop] at hp
  | fuel + 1, rest, p, hp => by
    unfold splitLoop at hp
    split at hp
    · cases hp
    · rcases List.mem_cons.mp hp with rfl | hp
      · simp [List.length_take]; omega
      · exact splitLoop_le cs fuel _ p hp

theorem pieces_le (cs : Nat) (d : Bytes) (ps : List Bytes) (h : pieces cs d = .ok ps) :
    ∀ p ∈ ps, p.length ≤ cs := by
  unfold pieces at h
  split at h
  · rename_i hle
    simp only [Except.ok.injEq] at h; subst h
    intro p hp
    simp only [List.mem_singleton] at hp; subst hp; exact hle
  · split at h
    · cases h
    · simp only [Except.ok.injEq] at h; subst h
      exact splitLoop_le cs _ _

/-- calls within the documented limits: the chunk size is set through the validated
`with_chunk_size` only (`with_chunk_size_unchecked` is "for testing purposes"), and the calls that
take one piece "regardless of size" (`add_encrypted_data`, `add_chunk`) are given at most one
maximal chunk of content. -/
def Documented : Op → Prop
  | .withChunkSize _ => False
  | .addEncrypted d _ _ _ => d.length ≤ maxChunkSize
  | .addChunkNew d _ => d.length ≤ maxChunkSize
  | _ => True

/-- the invariant: the chunk size is within the documented maximum, the configured encryption is
well-formed, every chunk made so far is at most `storedBound B` long as stored. -/
def LimInv (B : Nat) (b : Builder) : Prop :=
  b.chunkSize ≤ maxChunkSize ∧ (∀ e, b.enc = some e → EncWf e) ∧
  ∀ c ∈ b.chunks, 1 + c.data.length ≤ storedBound B

theorem limInv_init (B : Nat) : LimInv B Builder.init :=
  ⟨by decide, (fun _ h => by cases h), (fun _ h => by cases h)⟩

theorem addWith_lim (cd : Codec) (B : Nat) (hB : Bounded cd B) (b b' : Builder)
    (enc : Option (EncSpec × Bytes)) (henc : ∀ e, enc = some e → EncWf e) (d : Bytes)
    (hinv : LimInv B b) (h : addWith cd b enc d = .ok b') : LimInv B b' := by
  unfold addWith at h
  split at h
  · cases h
  · rename_i ps hps
    split at h
    · cases h
    · rename_i cs hcs
      simp only [Except.ok.injEq] at h; subst h
      refine ⟨hinv.1, hinv.2.1, ?_⟩
      intro c hc
      rcases List.mem_append.mp hc with hc | hc
      · exact hinv.2.2 c hc
      · exact makeChunks_len cd B hB b.mode enc henc ps _ cs
          (fun p hp => Nat.le_trans (pieces_le _ _ _ hps p hp) hinv.1) hcs c hc

theorem step_lim (cd : Codec) (B : Nat) (hB : Bounded cd B) (keys : Nat → Option Bytes)
    (b b' : Builder) (op : Op) (hinv : LimInv B b) (hdoc : Documented op) (hk : KeyOk keys op)
    (h : step cd b op = .ok b') : LimInv B b' := by
  cases op with
  | withCompression m =>
    simp only [step, Except.ok.injEq] at h; subst h; exact hinv
  | withChunkSize n => exact absurd hdoc (by simp [Documented])
  | withChunkSizeChecked n =>
    simp only [step] at h
    split at h
    · cases h
    · rename_i hn
      simp only [Except.ok.injEq] at h; subst h
      exact ⟨by simp only; omega, hinv.2.1, hinv.2.2⟩
  | withEncryption s k =>
    simp only [step, Except.ok.injEq] at h; subst h
    refine ⟨hinv.1, ?_, hinv.2.2⟩
    intro e he
    simp only [Option.some.injEq] at he; subst he
    exact EncWf.of_ok hk
  | withoutEncryption =>
    simp only [step, Except.ok.injEq] at h; subst h
    exact ⟨hinv.1, (fun _ he => by cases he), hinv.2.2⟩
  | addData d => exact addWith_lim cd B hB b b' b.enc hinv.2.1 d hinv h
  | addMixed d e =>
    refine addWith_lim cd B hB b b' e ?_ d hinv h
    intro e' he'; subst he'
    exact EncWf.of_ok hk
  | addEncrypted d s k idx =>
    simp only [step] at h
    split at h
    · cases h
    · rename_i c hc
      simp only [Except.ok.injEq] at h; subst h
      refine ⟨hinv.1, hinv.2.1, ?_⟩
      intro x hx
      rcases List.mem_append.mp hx with hx | hx
      · exact hinv.2.2 x hx
      · simp only [List.mem_singleton] at hx; subst hx
        have hw : EncWf (s, k) := EncWf.of_ok hk
        exact encChunk_len cd B hB b.mode d s k idx x hw.1 hw.2 hdoc hc
  | addChunkNew d m =>
    simp only [step] at h
    split at h
    · cases h
    · rename_i c hc
      simp only [Except.ok.injEq] at h; subst h
      refine ⟨hinv.1, hinv.2.1, ?_⟩
      intro x hx
      rcases List.mem_append.mp hx with hx | hx
      · exact hinv.2.2 x hx
      · simp only [List.mem_singleton] at hx; subst hx
        have := chunkNew_len cd B hB d m x hdoc hc
        simp only [storedBound, encHeaderLen]; omega

theorem run_lim (cd : Codec) (B : Nat) (hB : Bounded cd B) (keys : Nat → Option Bytes) :
    ∀ (ops : List Op) (b b' : Builder), LimInv B b → ProgOk cd keys b ops →
      (∀ op ∈ ops, Documented op) → run cd b ops = .ok b' → LimInv B b'
  | [], b, b', hinv, _, _, h => by
    simp only [run, Except.ok.injEq] at h; subst h; exact hinv
  | op :: ops, b, b', hinv, hp, hdoc, h => by
    simp only [run] at h
    split at h
    · cases h
    · rename_i b1 hb1
      obtain ⟨hk, _, hrest⟩ := hp
      have h1 := step_lim cd B hB keys b b1 op hinv (hdoc op (by simp)) hk hb1
      exact run_lim cd B hB keys ops b1 b' h1 (hrest b1 hb1) (fun o ho => hdoc o (by simp [ho])) h

end Cascette.Proofs.BlteLimits
