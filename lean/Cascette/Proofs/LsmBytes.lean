/-
Proofs/LsmBytes — the byte-level `.idx` reader inverts the writer: `parseFile (serialise b) =
saveB b`, i.e. the entry-level image of Model/Lsm (masking of ids/offsets, dropped records) IS
what `load_index` reads from the bytes `save_index` wrote; with `load_save` this gives the
byte-level `save_load_id`.
-/
import Cascette.Model.LsmBytes
import Cascette.Proofs.LsmDurable
namespace Cascette.Proofs.LsmBytes
open Cascette.Spec.IndexMap (Entry)
open Cascette.Model.Lsm
open Cascette.Model.LsmBytes
open Cascette.Proofs.Lsm

/-- values that fit their Rust types: `[u8; 9]` key, `u32` size. -/
def fitE (e : Entry) : Prop := e.key < 4722366482869645213696 ∧ e.size < 4294967296

/-- `[u8; 9]` key, `u32` size, `UpdateStatus` one of the four enum values. -/
def fitU (u : Upd) : Prop :=
  u.key < 4722366482869645213696 ∧ u.size < 4294967296 ∧
    (u.status = 0 ∨ u.status = 3 ∨ u.status = 6 ∨ u.status = 7)

/-! ### sorted section -/

theorem packEntry_length (e : Entry) : (packEntry e).length = 18 := by
  unfold packEntry
  split
  · simp
  · simp [key9, packLoc, le32]

theorem keyOf_key9 (k : Nat) (hk : k < 4722366482869645213696) :
    keyOf (k / 18446744073709551616 % 256) (k / 72057594037927936 % 256)
      (k / 281474976710656 % 256) (k / 1099511627776 % 256) (k / 4294967296 % 256)
      (k / 16777216 % 256) (k / 65536 % 256) (k / 256 % 256) (k % 256) = k := by
  unfold keyOf
  omega

theorem key9_zero (k : Nat) (hk : k < 4722366482869645213696)
    (h : k / 18446744073709551616 % 256 = 0 ∧ k / 72057594037927936 % 256 = 0 ∧
      k / 281474976710656 % 256 = 0 ∧ k / 1099511627776 % 256 = 0 ∧ k / 4294967296 % 256 = 0 ∧
      k / 16777216 % 256 = 0 ∧ k / 65536 % 256 = 0 ∧ k / 256 % 256 = 0 ∧ k % 256 = 0) : k = 0 := by
  obtain ⟨h0, h1, h2, h3, h4, h5, h6, h7, h8⟩ := h
  have := keyOf_key9 k hk
  rw [h0, h1, h2, h3, h4, h5, h6, h7, h8] at this
  exact this.symm

theorem rd32le_le32 (v : Nat) (h : v < 4294967296) :
    rd32le (v % 256) (v / 256 % 256) (v / 65536 % 256) (v / 16777216 % 256) = v := by
  unfold rd32le
  omega

theorem parseEntry_pack (e : Entry) (h : fitE e) : parseEntry (packEntry e) = packSorted? e := by
  obtain ⟨hk, hs⟩ := h
  unfold packEntry packSorted?
  by_cases hid : e.id / 4 ≥ 256
  · rw [if_pos hid, if_pos hid]
    rfl
  · rw [if_neg hid, if_neg hid]
    unfold key9 packLoc le32
    simp only [List.cons_append, List.nil_append, parseEntry, unpackLoc]
    by_cases hz : e.key = 0
    · simp [hz]
    · rw [if_neg hz]
      split
      · rename_i h1
        exact absurd (key9_zero e.key hk h1) hz
      · rw [keyOf_key9 e.key hk, rd32le_le32 e.size hs]

theorem parseEntries_nil (n : Nat) : parseEntries n [] = [] := by
  rw [parseEntries]
  split
  · rfl
  · rename_i h
    simp only [List.length_nil, not_or] at h
    omega

theorem parseEntries_flatMap (l : List Entry) (h : ∀ e ∈ l, fitE e) :
    parseEntries 18 (l.flatMap packEntry) = l.filterMap packSorted? := by
  induction l with
  | nil => exact parseEntries_nil 18
  | cons e l ih =>
    rw [List.flatMap_cons, parseEntries]
    have hlen := packEntry_length e
    rw [dif_neg (by simp only [List.length_append, hlen]; omega),
      List.take_left' hlen, List.drop_left' hlen, parseEntry_pack e (h e List.mem_cons_self),
      ih (fun x hx => h x (List.mem_cons_of_mem _ hx)), List.filterMap_cons]
    cases packSorted? e <;> rfl

/-! ### update section -/

theorem updBytes_length (H : List Nat → Nat) (u : Upd) : (updBytes H u).length = 24 := by
  simp [updBytes, updBody, key9, packLoc, le32]

theorem statusOfByte_fit {s : Nat} (h : s = 0 ∨ s = 3 ∨ s = 6 ∨ s = 7) : statusOfByte s = s := by
  rcases h with rfl | rfl | rfl | rfl <;> rfl

/-- a slot written by `UpdateEntry::to_bytes` parses to the entry with the location masked to
its 10 + 30 bits; the guard has bit 31 set, so the slot never reads as empty. -/
theorem parseSlot_updBytes (H : List Nat → Nat) (u : Upd) (h : fitU u) (rest : List Nat) :
    parseSlot (updBytes H u ++ rest) = some (packUpd u) := by
  obtain ⟨hk, hs, hst⟩ := h
  unfold updBytes
  generalize H (updBody u) = hh
  unfold packUpd updBody key9 packLoc le32
  simp only [List.cons_append, List.nil_append, parseSlot, unpackLoc]
  rw [if_neg (by unfold rd32le guardOf; omega), keyOf_key9 u.key hk, rd32le_le32 u.size hs,
    statusOfByte_fit hst]

theorem parseSlot_zeros (l : List Nat) (h : ∀ x ∈ l, x = 0) : parseSlot l = none := by
  unfold parseSlot
  split
  · rename_i g0 g1 g2 g3 _ _ _ _ _ _ _ _ _ _ _ _ _ _ _ _ _ _ _ _ _
    have h0 := h g0 (by simp)
    have h1 := h g1 (by simp)
    have h2 := h g2 (by simp)
    have h3 := h g3 (by simp)
    rw [h0, h1, h2, h3]
    rfl
  · rfl

theorem parseSlots_page (H : List Nat → Nat) (p : List Upd) (hp : ∀ u ∈ p, fitU u) (m : Nat) :
    ∀ n, p.length ≤ n →
      parseSlots n (p.flatMap (updBytes H) ++ List.replicate m 0) = p.map packUpd := by
  induction p with
  | nil =>
    intro n _
    cases n with
    | zero => rfl
    | succ n =>
      simp only [List.flatMap_nil, List.nil_append, parseSlots, List.map_nil]
      rw [parseSlot_zeros _ (fun x hx => (List.mem_replicate.mp hx).2)]
  | cons u p ih =>
    intro n hn
    cases n with
    | zero => simp at hn
    | succ n =>
      simp only [List.length_cons] at hn
      rw [List.flatMap_cons, List.append_assoc, parseSlots,
        parseSlot_updBytes H u (hp u List.mem_cons_self)]
      simp only
      rw [show updEntrySize = 24 from rfl, List.drop_left' (updBytes_length H u),
        ih (fun x hx => hp x (List.mem_cons_of_mem _ hx)) n (by omega), List.map_cons]

theorem flatMap_updBytes_length (H : List Nat → Nat) (p : List Upd) :
    (p.flatMap (updBytes H)).length = 24 * p.length := by
  induction p with
  | nil => rfl
  | cons u p ih =>
    rw [List.flatMap_cons, List.length_append, updBytes_length, ih, List.length_cons]
    omega

theorem pageBytes_some (H : List Nat → Nat) (p : List Upd) (h : p.length ≤ 21) :
    pageBytes H p = some (p.flatMap (updBytes H) ++ List.replicate (512 - 24 * p.length) 0) := by
  unfold pageBytes
  rw [if_pos (by exact h)]
  rfl

theorem pageBytes_length (H : List Nat → Nat) (p : List Upd) (a : List Nat)
    (h : pageBytes H p = some a) : a.length = 512 ∧ p.length ≤ 21 := by
  unfold pageBytes at h
  split at h
  · rename_i hl
    have hl' : p.length ≤ 21 := hl
    simp only [Option.some.injEq] at h
    subst h
    rw [List.length_append, flatMap_updBytes_length, List.length_replicate]
    refine ⟨?_, hl'⟩
    show 24 * p.length + (512 - 24 * p.length) = 512
    omega
  · cases h

/-- a page written by `UpdatePage::to_bytes` is read back by `UpdatePage::from_bytes`. -/
theorem parsePage_pageBytes (H : List Nat → Nat) (p : List Upd) (a : List Nat)
    (hp : ∀ u ∈ p, fitU u) (hne : p ≠ []) (h : pageBytes H p = some a) :
    parsePage a = some (p.map packUpd) := by
  have hl := (pageBytes_length H p a h).2
  rw [pageBytes_some H p hl] at h
  simp only [Option.some.injEq] at h
  subst h
  have hslots := parseSlots_page H p hp (512 - 24 * p.length) 21 hl
  cases p with
  | nil => exact absurd rfl hne
  | cons u p =>
    unfold parsePage
    split
    · rename_i tl heq
      exfalso
      rw [List.flatMap_cons, List.append_assoc] at heq
      unfold updBytes at heq
      generalize H (updBody u) = hh at heq
      unfold le32 guardOf at heq
      simp only [List.cons_append, List.nil_append, List.cons.injEq] at heq
      omega
    · rw [show slotsPerPage = 21 from rfl, hslots]
      rfl

def pagesOk (pages : List (List Upd)) : Prop := ∀ p ∈ pages, p ≠ [] ∧ ∀ u ∈ p, fitU u

theorem parsePage_zeros (t : List Nat) : parsePage (0 :: 0 :: 0 :: 0 :: t) = none := rfl

/-- the pages written by `UpdateSection::to_bytes`, followed by `k` all-zero pages, are read back
by `UpdateSection::from_bytes`. -/
theorem parsePages_pagesBytes (H : List Nat → Nat) (k : Nat) (pages : List (List Upd)) :
    ∀ a, pagesOk pages → pagesBytes H pages = some a →
      parsePages (a ++ List.replicate (k * 512) 0) = pages.map (·.map packUpd) ∧
        a.length = 512 * pages.length := by
  induction pages with
  | nil =>
    intro a _ h
    simp only [pagesBytes, Option.some.injEq] at h
    subst h
    refine ⟨?_, rfl⟩
    rw [List.nil_append, parsePages]
    split
    · rfl
    · rename_i hlen
      simp only [List.length_replicate, pageSize, Nat.not_lt] at hlen
      have hk : k * 512 = (k * 512 - 4) + 4 := by omega
      rw [List.take_replicate, hk]
      have : min pageSize (k * 512 - 4 + 4) = (min pageSize (k * 512 - 4 + 4) - 4) + 4 := by
        simp only [pageSize]; omega
      rw [this]
      rfl
  | cons p ps ih =>
    intro a hok h
    simp only [pagesBytes] at h
    cases h1 : pageBytes H p with
    | none => rw [h1] at h; cases h
    | some a1 =>
      cases h2 : pagesBytes H ps with
      | none => rw [h1, h2] at h; cases h
      | some a2 =>
        rw [h1, h2] at h
        simp only [Option.some.injEq] at h
        subst h
        obtain ⟨hne, hfit⟩ := hok p List.mem_cons_self
        obtain ⟨hl1, _⟩ := pageBytes_length H p a1 h1
        obtain ⟨ih1, ih2⟩ := ih a2 (fun q hq => hok q (List.mem_cons_of_mem _ hq)) h2
        refine ⟨?_, by rw [List.length_append, hl1, ih2, List.length_cons]; omega⟩
        rw [List.append_assoc, parsePages, dif_neg (by simp only [List.length_append, hl1, pageSize]; omega),
          show pageSize = 512 from rfl, List.take_left' hl1, List.drop_left' hl1,
          parsePage_pageBytes H p a1 hfit hne h1]
        simp only
        rw [ih1, List.map_cons]

/-! ### the whole file -/

/-- every value of the bucket fits its Rust type; pages are non-empty (an invariant of
`UpdateSection::append`, part of `GoodB`). -/
structure FitB (bk : Bucket) : Prop where
  s : ∀ e ∈ bk.sorted, fitE e
  p : pagesOk bk.pages

theorem alignUp_ge (x : Nat) : x ≤ alignUp x := by
  unfold alignUp alignment
  omega

/-- the update section starts on a multiple of 64 KiB, less than 64 KiB after the sorted data. -/
theorem alignUp_spec (x : Nat) : alignUp x % 65536 = 0 ∧ alignUp x < x + 65536 := by
  unfold alignUp alignment
  omega

theorem parseFile_head (h1 h2 L bucket : Nat) (tail : List Nat) :
    parseFile ((le32 16 ++ (le32 h1 ++ (header16 bucket ++ (List.replicate 8 0 ++
      (le32 L ++ le32 h2))))) ++ tail) =
      parseBody 9 5 4 (rd32le (L % 256) (L / 256 % 256) (L / 65536 % 256) (L / 16777216 % 256))
        (tail.length + 40) tail := by
  unfold header16 le16 le64 le32
  simp only [List.replicate, List.cons_append, List.nil_append, parseFile, List.length_cons]

theorem pages_nil_of_log {bk : Bucket} (hp : pagesOk bk.pages) (h : bk.log.length = 0) :
    bk.pages = [] := by
  unfold Bucket.log at h
  cases hpg : bk.pages with
  | nil => rfl
  | cons p ps =>
    exfalso
    have := (hp p (by rw [hpg]; exact List.mem_cons_self)).1
    rw [hpg] at h
    cases p with
    | nil => exact this rfl
    | cons u us => simp at h

/-- **parse_serialise.** What `load_index` parses from the bytes `save_index` wrote is exactly
the entry-level image `saveB` of Model/Lsm — for EVERY bucket whose values fit their Rust types
(also ids > 1023, offsets ≥ 2^30 and the all-zero key: the masking and the dropped records of
`saveB` are what the bytes do), for every hash function, every capacity and any number of pages. -/
theorem parse_serialise (H : List Nat → Nat) (cap bucket : Nat) (bk : Bucket) (hf : FitB bk)
    (bytes : List Nat) (h : serialise H cap bucket bk = some bytes) :
    parseFile bytes = some (saveB bk) := by
  unfold serialise at h
  simp only at h
  generalize hed : bk.sorted.flatMap packEntry = ed at h
  have hpe : parseEntries 18 ed = bk.sorted.filterMap packSorted? := by
    rw [← hed]; exact parseEntries_flatMap _ hf.s
  split at h
  · cases h
  · rename_i hL
    have hL' : ed.length < 4294967296 := by omega
    split at h
    · rename_i hlog
      simp only [Option.some.injEq] at h
      subst h
      rw [parseFile_head, rd32le_le32 _ hL']
      unfold parseBody
      rw [if_neg (by decide), if_neg (by omega), if_neg (by omega)]
      simp only
      rw [List.take_length, show 9 + 5 + 4 = 18 from rfl, hpe,
        if_neg (by have := alignUp_ge (40 + ed.length); omega)]
      unfold saveB
      rw [pages_nil_of_log hf.p hlog]
      rfl
    · rename_i hlog
      unfold sectionBytes at h
      cases hpb : pagesBytes H bk.pages with
      | none => rw [hpb] at h; cases h
      | some a =>
        rw [hpb] at h
        simp only [Option.some.injEq] at h
        subst h
        obtain ⟨hpp, hal⟩ := parsePages_pagesBytes H (max cap bk.pages.length - bk.pages.length)
          bk.pages a hf.p hpb
        have hpne : 1 ≤ bk.pages.length := by
          cases hpg : bk.pages with
          | nil => unfold Bucket.log at hlog; rw [hpg] at hlog; exact absurd rfl hlog
          | cons p ps => simp
        have hge := alignUp_ge (40 + ed.length)
        rw [parseFile_head, rd32le_le32 _ hL']
        unfold parseBody
        rw [if_neg (by decide),
          if_neg (by simp only [List.length_append]; omega),
          if_neg (by simp only [List.length_append]; omega)]
        simp only
        rw [List.take_left' rfl, show 9 + 5 + 4 = 18 from rfl, hpe,
          if_pos (by simp only [List.length_append, List.length_replicate]; omega),
          ← List.append_assoc ed,
          List.drop_left' (by simp only [List.length_append, List.length_replicate]; omega),
          show pageSize = 512 from rfl, hpp]
        rfl

/-- **save_load_id at byte level.** For a bucket whose sorted run is sorted by distinct keys and
whose entries are inside the field limits (non-zero 9-byte key, id ≤ 1023, offset < 2^30) and fit
their types: parsing the bytes `save_index` wrote and sorting (`load_index`) gives back the
bucket. -/
theorem load_parse_serialise (H : List Nat → Nat) (cap bucket : Nat) (bk : Bucket)
    (hs : Sorted bk.sorted) (hw : WFB bk) (hf : FitB bk) (bytes : List Nat)
    (h : serialise H cap bucket bk = some bytes) :
    (parseFile bytes).map loadB = some bk := by
  rw [parse_serialise H cap bucket bk hf bytes h, Option.map_some, load_save bk hs hw]

/-- the writer succeeds (no `Err`, no panic) when the entry data fits `u32` and no page holds
more than 21 entries — true of every reachable bucket with `perPage = 21`. -/
theorem serialise_isSome (H : List Nat → Nat) (cap bucket : Nat) (bk : Bucket)
    (hn : 18 * bk.sorted.length < 4294967296) (hp : ∀ p ∈ bk.pages, p.length ≤ 21) :
    (serialise H cap bucket bk).isSome = true := by
  have hlen : ∀ l : List Entry, (l.flatMap packEntry).length = 18 * l.length := by
    intro l
    induction l with
    | nil => rfl
    | cons e l ih => rw [List.flatMap_cons, List.length_append, packEntry_length, ih, List.length_cons]; omega
  have hpb : ∀ ps : List (List Upd), (∀ p ∈ ps, p.length ≤ 21) → (pagesBytes H ps).isSome = true := by
    intro ps
    induction ps with
    | nil => intro _; rfl
    | cons p ps ih =>
      intro hps
      simp only [pagesBytes]
      rw [pageBytes_some H p (hps p List.mem_cons_self)]
      have := ih (fun q hq => hps q (List.mem_cons_of_mem _ hq))
      cases hq : pagesBytes H ps with
      | none => rw [hq] at this; cases this
      | some b => rfl
  unfold serialise
  simp only
  rw [if_neg (by rw [hlen]; omega)]
  split
  · rfl
  · unfold sectionBytes
    have := hpb bk.pages hp
    cases hq : pagesBytes H bk.pages with
    | none => rw [hq] at this; cases this
    | some a => rfl

theorem pagesBytes_length (H : List Nat → Nat) (ps : List (List Upd)) :
    ∀ a, pagesBytes H ps = some a → a.length = 512 * ps.length := by
  induction ps with
  | nil => intro a h; simp only [pagesBytes, Option.some.injEq] at h; subst h; rfl
  | cons p ps ih =>
    intro a h
    simp only [pagesBytes] at h
    cases h1 : pageBytes H p with
    | none => rw [h1] at h; cases h
    | some a1 =>
      cases h2 : pagesBytes H ps with
      | none => rw [h1, h2] at h; cases h
      | some a2 =>
        rw [h1, h2] at h
        simp only [Option.some.injEq] at h
        subst h
        rw [List.length_append, (pageBytes_length H p a1 h1).1, ih a2 h2, List.length_cons]
        omega

theorem flatMap_packEntry_length (l : List Entry) : (l.flatMap packEntry).length = 18 * l.length := by
  induction l with
  | nil => rfl
  | cons e l ih => rw [List.flatMap_cons, List.length_append, packEntry_length, ih, List.length_cons]; omega

/-- file size: 40 header bytes + 18 per sorted entry; with pending updates the update section
starts at the next multiple of 64 KiB and holds max(capacity, pages) pages of 512 bytes. -/
theorem serialise_length (H : List Nat → Nat) (cap bucket : Nat) (bk : Bucket) (bytes : List Nat)
    (h : serialise H cap bucket bk = some bytes) :
    bytes.length = if bk.log.length = 0 then 40 + 18 * bk.sorted.length
      else alignUp (40 + 18 * bk.sorted.length) + 512 * max cap bk.pages.length := by
  unfold serialise at h
  simp only at h
  have hhead : ∀ h1 h2 L : Nat, (le32 16 ++ (le32 h1 ++ (header16 bucket ++ (List.replicate 8 0 ++
      (le32 L ++ le32 h2))))).length = 40 := by
    intro h1 h2 L
    simp [le32, header16, le16, le64]
  split at h
  · cases h
  · split at h
    · rename_i hlog
      simp only [Option.some.injEq] at h
      subst h
      rw [if_pos hlog, List.length_append, hhead, flatMap_packEntry_length]
    · rename_i hlog
      unfold sectionBytes at h
      cases hpb : pagesBytes H bk.pages with
      | none => rw [hpb] at h; cases h
      | some a =>
        rw [hpb] at h
        simp only [Option.some.injEq] at h
        subst h
        have hge := alignUp_ge (40 + 18 * bk.sorted.length)
        rw [if_neg hlog]
        simp only [List.length_append, hhead, flatMap_packEntry_length, List.length_replicate,
          pagesBytes_length H bk.pages a hpb, pageSize]
        have : (max cap bk.pages.length - bk.pages.length) * 512 + 512 * bk.pages.length =
            512 * max cap bk.pages.length := by
          have := Nat.le_max_right cap bk.pages.length
          omega
        omega

end Cascette.Proofs.LsmBytes
