/-
Proofs/TvfsPath — `PathTable::parse (PathTable::build tree)` lists exactly the files of the tree,
for every tree whose names are 1..254 bytes, any depth, any fan-out.
-/
import Cascette.Model.TvfsPath

namespace Cascette.Proofs.TvfsPath
open Cascette.Model.TvfsPath

/-- a representable path component: 1..254 bytes (0 bytes is "no name", 255 is the marker) -/
def GoodName (name : Bytes) : Prop := 1 ≤ name.length ∧ name.length ≤ 254

theorem frags_good (name : Bytes) (h : GoodName name) : frags name = name.length :: name := by
  unfold frags
  have : name.length ≤ 255 := by unfold GoodName at h; omega
  simp [this]

theorem parseFrags_name (name rest : Bytes) (h : GoodName name) (fuel : Nat) (hf : 0 < fuel) :
    parseFrags fuel (name.length :: (name ++ 0xFF :: rest)) [] = .ok (name, 0xFF :: rest) := by
  unfold GoodName at h
  cases fuel with
  | zero => omega
  | succ f =>
    unfold parseFrags
    have h1 : ¬ name.length = 0xFF := by omega
    have h2 : ¬ name.length > (name ++ 0xFF :: rest).length := by simp
    simp only [h1, ↓reduceIte, h2, List.nil_append]
    rw [List.drop_left' rfl, List.take_left' rfl]
    simp

theorem be32_val (v : Nat) (h : v < 4294967296) (rest : Bytes) :
    ∃ a b c d, be32 v ++ rest = a :: b :: c :: d :: rest ∧ 16777216 * a + 65536 * b + 256 * c + d = v := by
  refine ⟨_, _, _, _, rfl, ?_⟩
  omega

mutual
/-- well-formed tree: names 1..254 bytes, file offsets below 2^31, folder payloads below 2^31 -/
def Good : Node → Prop
  | .mk name children off =>
    GoodName name ∧
    (match off with
     | some o => o < 2147483648
     | none => (buildDir children).length + 4 < 2147483648 ∧ GoodL children)
def GoodL : List Node → Prop
  | [] => True
  | n :: ns => Good n ∧ GoodL ns
end

mutual
/-- the files of a tree with their full paths, depth first -/
def files : Bytes → Node → List (Bytes × Nat)
  | cur, .mk name children off =>
    match off with
    | some o => [(joinPath cur name, o)]
    | none => filesL (joinPath cur name) children
def filesL : Bytes → List Node → List (Bytes × Nat)
  | _, [] => []
  | cur, n :: ns => files cur n ++ filesL cur ns
end

theorem parse_build : ∀ (ns : List Node) (cur : Bytes) (fuel : Nat), GoodL ns → (buildDir ns).length < fuel →
    parseDir fuel (buildDir ns) cur = .ok (filesL cur ns)
  | [], cur, fuel, _, hf => by
    cases fuel with
    | zero => simp [buildDir] at hf
    | succ f => simp [buildDir, parseDir, filesL]
  | (.mk name ch off) :: rest, cur, fuel, hg, hf => by
    cases fuel with
    | zero => omega
    | succ f =>
      simp only [GoodL, Good] at hg
      obtain ⟨⟨hname, hoff⟩, hrest⟩ := hg
      have hne : name.isEmpty = false := by
        unfold GoodName at hname
        cases name with
        | nil => simp at hname
        | cons a b => rfl
      cases off with
      | some o =>
        simp only at hoff
        obtain ⟨a, b, c, d, hb, hv⟩ := be32_val o (by omega) (buildDir rest)
        have hbuild : buildDir (.mk name ch (some o) :: rest) =
            0 :: name.length :: (name ++ 0xFF :: a :: b :: c :: d :: buildDir rest) := by
          simp only [buildDir, buildEntry, hne, Bool.false_eq_true, ↓reduceIte, frags_good name hname,
            List.cons_append, List.append_assoc, List.nil_append, hb]
        rw [hbuild] at hf ⊢
        unfold parseDir
        simp only [↓reduceIte]
        rw [parseFrags_name name _ hname _ (by omega)]
        simp only
        have hlt : ¬ (16777216 * a + 65536 * b + 256 * c + d ≥ 2147483648) := by omega
        simp only [hlt, ↓reduceIte]
        rw [parse_build rest cur f hrest (by simp at hf; omega)]
        simp [filesL, files, hv]
      | none =>
        simp only at hoff
        obtain ⟨hsz, hch⟩ := hoff
        have hfv : folderValue (buildDir ch).length = 2147483648 + ((buildDir ch).length + 4) := by
          unfold folderValue; omega
        obtain ⟨a, b, c, d, hb, hv⟩ := be32_val (folderValue (buildDir ch).length) (by rw [hfv]; omega)
          (buildDir ch ++ buildDir rest)
        have hbuild : buildDir (.mk name ch none :: rest) =
            0 :: name.length :: (name ++ 0xFF :: a :: b :: c :: d :: (buildDir ch ++ buildDir rest)) := by
          simp only [buildDir, buildEntry, hne, Bool.false_eq_true, ↓reduceIte, frags_good name hname,
            List.cons_append, List.append_assoc, List.nil_append]
          rw [← hb]
        rw [hbuild] at hf ⊢
        unfold parseDir
        simp only [↓reduceIte]
        rw [parseFrags_name name _ hname _ (by omega)]
        simp only
        rw [hv, hfv]
        have hge : 2147483648 + ((buildDir ch).length + 4) ≥ 2147483648 := by omega
        have hmod : (2147483648 + ((buildDir ch).length + 4)) % 2147483648 = (buildDir ch).length + 4 := by omega
        simp only [hge, ↓reduceIte, hmod]
        have h4 : ¬ ((buildDir ch).length + 4 < 4) := by omega
        have hfit : ¬ ((buildDir ch).length + 4 - 4 > (buildDir ch ++ buildDir rest).length) := by simp
        simp only [h4, ↓reduceIte, Nat.add_sub_cancel]
        rw [List.take_left' rfl, List.drop_left' rfl]
        simp only [List.length_cons, List.length_append] at hf
        rw [parse_build ch (joinPath cur name) f hch (by omega), parse_build rest cur f hrest (by omega)]
        simp [filesL, files]
termination_by ns => sizeOf ns

end Cascette.Proofs.TvfsPath
