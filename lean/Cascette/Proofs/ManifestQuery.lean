/-
Proofs/ManifestQuery — the query functions of the manifest models select exactly the indices
whose bits are set: per tag, all-of (intersection), any-of (union), and size sums.
-/
import Cascette.Proofs.ManifestBits
namespace Cascette.Proofs.Manifest
open Cascette Cascette.Model.Manifest

/-- `enumerate().filter(p on index)` is the filtered canonical enumeration -/
theorem selectIdx_eq {α : Type} (p : Nat → Bool) (s : Nat) (l : List α) :
    selectIdx p s l = ((List.range' s l.length).zip l).filter fun q => p q.1 := by
  induction l generalizing s with
  | nil => simp [selectIdx]
  | cons e es ih =>
    simp only [selectIdx, List.length_cons, List.range'_succ, List.zip_cons_cons, List.filter_cons, ih (s + 1)]

theorem selectIdx_fst {α : Type} (p : Nat → Bool) (s : Nat) (l : List α) :
    (selectIdx p s l).map (·.1) = (List.range' s l.length).filter p := by
  induction l generalizing s with
  | nil => simp [selectIdx]
  | cons e es ih =>
    simp only [selectIdx, List.length_cons, List.range'_succ, List.filter_cons]
    split
    · simp only [List.map_cons, ih (s + 1)]
    · exact ih (s + 1)

theorem selectIdx_fst0 {α : Type} (p : Nat → Bool) (l : List α) :
    (selectIdx p 0 l).map (·.1) = (List.range l.length).filter p := by
  rw [selectIdx_fst, List.range_eq_range']

theorem selectEnt_eq {α : Type} (q : α → Bool) (s : Nat) (l : List α) :
    selectEnt q s l = ((List.range' s l.length).zip l).filter fun r => q r.2 := by
  induction l generalizing s with
  | nil => simp [selectEnt]
  | cons e es ih =>
    simp only [selectEnt, List.length_cons, List.range'_succ, List.zip_cons_cons, List.filter_cons, ih (s + 1)]

end Cascette.Proofs.Manifest
