/-
Proofs/BlteTie — the hand-written BLTE model computes with exactly the header arithmetic and wire
constants that lib/rs2lean_blte.py extracts from the CURRENT Rust source
(lean/Cascette/Generated/BlteSrc.lean, regenerated on every `./check C01`).

If someone changes `12 +`, `24`, `40`, `0xFF_FFFF`, the table-format bytes, the shifts of the
24-bit count, a mode byte, `DEFAULT_CHUNK_SIZE`, the 16-byte floor or the `8`/`4` size bytes in
/repo, the generated file changes and one of these theorems stops checking.
-/
import Cascette.Generated.BlteSrc
import Cascette.Proofs.BlteEntry
namespace Cascette.Proofs.BlteTie
open Cascette Cascette.Model.Blte Cascette.Proofs.Blte
open Cascette.Generated

/-- `BLTE_MAGIC` -/
theorem magic_tie : magic = BlteSrc.magic.map (BitVec.ofNat 8) := by decide

/-- `CompressionMode as u8` -/
theorem mode_byte_tie :
    Mode.none.byte = BitVec.ofNat 8 BlteSrc.mode_none ∧ Mode.zlib.byte = BitVec.ofNat 8 BlteSrc.mode_zlib ∧
    Mode.lz4.byte = BitVec.ofNat 8 BlteSrc.mode_lz4 ∧ Mode.enc.byte = BitVec.ofNat 8 BlteSrc.mode_encrypted ∧
    Mode.frame.byte = BitVec.ofNat 8 BlteSrc.mode_frame := by decide

/-- header size and chunk-count limit of `BlteFile::multi_chunk` (standard table): `12 + 24·n`. -/
theorem header_size_tie (H : Bytes → Bytes) (chunks : List Chunk) (f : File)
    (h : multiChunk H chunks = .ok f) :
    f.headerSize = BlteSrc.header_size chunks.length false ∧
    1 ≤ chunks.length ∧ chunks.length ≤ BlteSrc.max_chunk_count := by
  unfold multiChunk at h
  split at h
  · cases h
  · rename_i hne
    split at h
    · cases h
    · rename_i hn
      simp only [Except.ok.injEq] at h; subst h
      refine ⟨by simp [BlteSrc.header_size, BlteSrc.chunk_info_size], ?_, by
        simp only [BlteSrc.max_chunk_count]; omega⟩
      cases chunks with
      | nil => simp at hne
      | cons _ _ => simp

/-- the same for `BlteBuilder::build` when it writes a table. -/
theorem build_header_size_tie (H : Bytes → Bytes) (b : Builder) (f : File) (h : build H b = .ok f) :
    (f.table = none ∧ f.headerSize = 0) ∨
    (f.table ≠ none ∧ f.headerSize = BlteSrc.header_size b.chunks.length false ∧
      b.chunks.length ≤ BlteSrc.max_chunk_count) := by
  rcases build_cases H b f h with ⟨c, _, _, rfl⟩ | ⟨_, hn, rfl⟩
  · exact Or.inl ⟨rfl, rfl⟩
  · exact Or.inr ⟨by simp, by simp [BlteSrc.header_size, BlteSrc.chunk_info_size],
      by simp only [BlteSrc.max_chunk_count]; omega⟩

/-- header size and limit of `BlteHeader::multi_chunk_extended`: `12 + 40·n`. -/
theorem header_size_ext_tie (cd : Codec) (H : Bytes → Bytes) (chunks : List Chunk) (xf : XFile)
    (h : multiChunkExt cd H chunks = .ok xf) :
    xf.headerSize = BlteSrc.header_size chunks.length true ∧
    chunks.length ≤ BlteSrc.max_chunk_count := by
  unfold multiChunkExt at h
  split at h
  · cases h
  · split at h
    · cases h
    · rename_i hn
      simp only [Except.ok.injEq] at h; subst h
      exact ⟨by simp [BlteSrc.header_size, BlteSrc.chunk_info_size], by
        simp only [BlteSrc.max_chunk_count]; omega⟩

/-- one more chunk than the limit is refused by both header constructors. -/
theorem chunk_count_limit_tie (cd : Codec) (H : Bytes → Bytes) (chunks : List Chunk)
    (h : BlteSrc.max_chunk_count < chunks.length) :
    multiChunk H chunks = .error .chunkCount ∧ multiChunkExt cd H chunks = .error .chunkCount := by
  simp only [BlteSrc.max_chunk_count] at h
  have hne : chunks.isEmpty = false := by
    cases chunks with
    | nil => simp at h
    | cons _ _ => rfl
  have hgt : chunks.length > 0xFFFFFF := h
  simp [multiChunk, multiChunkExt, hne, hgt]

/-- the 24-bit count as `ExtendedHeader::write_options` writes it (`>> 16`, `>> 8`, `as u8`). -/
theorem count_bytes_tie (n : Nat) : beBytes 3 n = (BlteSrc.count_bytes n).map (BitVec.ofNat 8) := by
  have hm : ∀ m : Nat, BitVec.ofNat 8 (m % 256) = BitVec.ofNat 8 m := fun m => by
    apply BitVec.eq_of_toNat_eq; simp
  have e16 : n / 256 / 256 = n / 2 ^ 16 := by rw [Nat.div_div_eq_div_mul]
  simp only [beBytes, leBytes, List.reverse_cons, List.reverse_nil, List.nil_append,
    List.cons_append, BlteSrc.count_bytes, List.map_cons, List.map_nil, Nat.shiftRight_eq_div_pow,
    Nat.pow_zero, Nat.div_one, hm, e16]

/-- the 24-bit count as the reader assembles it (`u32::from_be_bytes([0, x[0], x[1], x[2]])`). -/
theorem count_read_tie (a b c : Byte) :
    beNat [a, b, c] = BlteSrc.count_of_bytes a.toNat b.toNat c.toNat := by
  simp only [beNat, List.reverse_cons, List.reverse_nil, List.nil_append, List.cons_append, leNat,
    BlteSrc.count_of_bytes]
  omega

/-- the table-format byte the two serialisers write. -/
theorem table_flag_tie (hs : Nat) (rows : List Row) (chunks : List Chunk) (xf : XFile) :
    serialize ⟨hs, some rows, chunks⟩ =
      magic ++ beBytes 4 hs ++ ([BitVec.ofNat 8 BlteSrc.flag_standard] ++ beBytes 3 rows.length ++
        rows.flatMap Row.bytes) ++ chunks.flatMap Chunk.bytes ∧
    serializeX xf =
      magic ++ beBytes 4 xf.headerSize ++ ([BitVec.ofNat 8 BlteSrc.flag_extended] ++
        beBytes 3 xf.rows.length ++ xf.rows.flatMap XRow.bytes) ++ xf.chunks.flatMap Chunk.bytes :=
  ⟨rfl, rfl⟩

/-- the reader accepts exactly the bytes `HeaderFlags::from_byte` accepts: any other table-format
byte under a non-zero header size is a parse error. -/
theorem table_flag_read_tie (h0 h1 h2 h3 fl c0 c1 c2 : Byte) (rest : Bytes)
    (hnz : beNat [h0, h1, h2, h3] ≠ 0) (hfl : fl.toNat ∉ BlteSrc.from_byte_accepts) :
    parse (magic ++ [h0, h1, h2, h3] ++ fl :: c0 :: c1 :: c2 :: rest) = .error .parse := by
  have h1' : fl ≠ 0x0F := by
    intro he; subst he; simp [BlteSrc.from_byte_accepts] at hfl
  have h2' : fl ≠ 0x10 := by
    intro he; subst he; simp [BlteSrc.from_byte_accepts] at hfl
  simp only [magic, List.cons_append, List.nil_append, parse, ne_eq, not_true_eq_false, if_false,
    hnz, h1', h2', not_false_eq_true, and_self, if_true]

/-- rows are `chunk_info_size` bytes long on the wire. -/
theorem row_size_tie (r : Row) (x : XRow) (h : r.checksum.length = 16)
    (hx : x.row.checksum.length = 16 ∧ x.dsum.length = 16) :
    r.bytes.length = BlteSrc.chunk_info_size false ∧ x.bytes.length = BlteSrc.chunk_info_size true := by
  simp [Row.bytes, XRow.bytes, beBytes_length, h, hx.1, hx.2, BlteSrc.chunk_info_size]

/-- `DEFAULT_CHUNK_SIZE` -/
theorem default_chunk_size_tie : Builder.init.chunkSize = BlteSrc.default_chunk_size := by decide

/-- `MIN_CHUNK_SIZE` / `MAX_CHUNK_SIZE` -/
theorem chunk_size_limits_tie :
    minChunkSize = BlteSrc.min_chunk_size ∧ maxChunkSize = BlteSrc.max_chunk_size := by decide

/-- `with_chunk_size` succeeds exactly on `(MIN_CHUNK_SIZE..=MAX_CHUNK_SIZE).contains(&size)`. -/
theorem with_chunk_size_tie (cd : Codec) (b : Builder) (n : Nat) :
    (∃ b', step cd b (.withChunkSizeChecked n) = .ok b') ↔
      BlteSrc.min_chunk_size ≤ n ∧ n ≤ BlteSrc.max_chunk_size := by
  rw [← chunk_size_limits_tie.1, ← chunk_size_limits_tie.2]
  simp only [step]
  constructor
  · rintro ⟨b', h⟩
    split at h
    · cases h
    · omega
  · intro h
    have : ¬ (n < minChunkSize ∨ maxChunkSize < n) := by omega
    exact ⟨{ b with chunkSize := n }, by simp only [this, if_false]⟩

/-- the two constants bound the content of a chunk in the builder and are used nowhere else under
blte/: no reader derives a limit on table entries from them (a stored chunk is up to 17 bytes
longer than its content, more when the content does not compress:
`Props.C01.full_chunk_table_entry_exceeds_max`). -/
theorem chunk_size_limit_builder_only_tie : BlteSrc.chunk_size_limit_used_outside_builder = [] := by
  decide

/-- the bytes an encrypted chunk carries in front of its ciphertext. -/
theorem enc_header_len_tie :
    encHeaderLen = 1 + BlteSrc.enc_key_name_size + 1 + BlteSrc.enc_iv_size + 1 := by decide

/-- the length floor of `decrypt_chunk_with_keys`. -/
theorem enc_floor_tie (cd : Codec) (keys : Nat → Option Bytes) (data : Bytes) (idx : Nat)
    (h : data.length < BlteSrc.enc_floor) : decryptChunk cd keys data idx = .error .compression := by
  simp only [BlteSrc.enc_floor] at h
  simp [decryptChunk, h]

/-- the size bytes and cipher types of `encrypt_chunk_with_key`; the decoder demands the same. -/
theorem enc_header_tie (data : Bytes) (spec : EncSpec) (key : Bytes) (idx : Nat) (ed : Bytes)
    (h : encryptChunk data spec key idx = .ok ed) :
    (∃ c, ed = [BitVec.ofNat 8 BlteSrc.enc_key_name_size] ++ leBytes BlteSrc.enc_key_name_size spec.keyName ++
      [BitVec.ofNat 8 BlteSrc.enc_iv_size] ++ spec.iv ++ [spec.etype] ++ c) ∧
    spec.etype.toNat ∈ BlteSrc.enc_cipher_types ∧
    BlteSrc.dec_key_name_size = BlteSrc.enc_key_name_size ∧
    BlteSrc.enc_iv_size ∈ BlteSrc.dec_iv_sizes ∧ BlteSrc.dec_cipher_types = BlteSrc.enc_cipher_types := by
  unfold encryptChunk at h
  split at h
  · rename_i c hc
    simp only [Except.ok.injEq] at h
    refine ⟨⟨c, h.symm⟩, ?_, by decide, by decide, by decide⟩
    unfold cipher at hc
    by_cases h1 : spec.etype = 0x53
    · rw [h1]; decide
    · by_cases h2 : spec.etype = 0x41
      · rw [h2]; decide
      · simp only [h1, h2, if_false] at hc
        cases hc
  · cases h

end Cascette.Proofs.BlteTie
