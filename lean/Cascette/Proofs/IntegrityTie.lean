/-
Proofs/IntegrityTie — the hand-written acceptor models of Model/Integrity (property C07) compute
with exactly the byte ranges, compared lengths and constants that lib/rs2lean_integrity.py extracts
from the CURRENT Rust source (lean/Cascette/Generated/IntegritySrc.lean, regenerated on every
`./check C07`).

If someone changes a hashed range (`check_data[4..20]`, `entry_bytes[4..23]`, `[..0x16]`, `[..0x1A]`,
the footer field list of `calculate_footer_hash`), a compared length (16 / 8 / 64, the `| 0x8000_0000`
mask), a field offset, the `End(-13)` position, the `Checksum: ` literal, the 100 MiB exemption or
the order "check, then use" in /repo, the generated file changes (or the extractor stops with a
translation error) and one of these theorems stops checking — whether or not a generated artifact
of the differential run happens to expose the change.
-/
import Cascette.Generated.IntegritySrc
import Cascette.Proofs.IntegrityExt
namespace Cascette.Proofs.IntegrityTie
open Cascette Cascette.Model.Integrity
open Cascette.Generated

/-! ### `.lru` checkpoint file -/

/-- `LRU_HEADER_SIZE`, `LRU_ENTRY_SIZE`, `LRU_MAX_VERSION`. -/
theorem lru_const_tie :
    Lru.headerSize = IntegritySrc.lru_header_size ∧ Lru.entrySize = IntegritySrc.lru_entry_size ∧
    Lru.maxVersion = IntegritySrc.lru_max_version := by decide

/-- the hashed bytes: the whole input with `check_data[lo..hi].fill(0)`. -/
theorem lru_region_tie (d : Bytes) :
    Lru.region d = d.take IntegritySrc.lru_zeroed.1 ++
      List.replicate (IntegritySrc.lru_zeroed.2 - IntegritySrc.lru_zeroed.1) 0 ++ d.drop IntegritySrc.lru_zeroed.2 := rfl

/-- the stored digest: `data[lo..hi]` of `LruFileHeader::from_bytes`, a `[u8; n]` compared in full
with `computed.0`; the zeroed range is exactly the stored field, in `deserialize` and `serialize`. -/
theorem lru_stored_tie (d : Bytes) :
    Lru.stored d = slice d IntegritySrc.lru_hash_field.1 IntegritySrc.lru_hash_len ∧
    IntegritySrc.lru_hash_field.2 - IntegritySrc.lru_hash_field.1 = IntegritySrc.lru_hash_len ∧
    IntegritySrc.lru_zeroed = IntegritySrc.lru_hash_field ∧
    IntegritySrc.lru_ser_zeroed = IntegritySrc.lru_zeroed ∧ IntegritySrc.lru_ser_stored = IntegritySrc.lru_hash_field :=
  ⟨rfl, by decide, by decide, by decide, by decide⟩

/-- field byte indexes of the header and of an entry (the model reads `take 2`, `slice d 20 4`,
`slice d 24 4`; `take 4`, `slice e 4 4`, `slice e 8 9`, `byteAt e 17`). -/
theorem lru_fields_tie :
    IntegritySrc.lru_version_bytes = List.range' 0 2 ∧ IntegritySrc.lru_head_bytes = List.range' 20 4 ∧
    IntegritySrc.lru_tail_bytes = List.range' 24 4 ∧ IntegritySrc.lru_entry_prev_bytes = List.range' 0 4 ∧
    IntegritySrc.lru_entry_next_bytes = List.range' 4 4 ∧ IntegritySrc.lru_entry_ekey = (8, 8 + 9) ∧
    IntegritySrc.lru_entry_flags = 17 ∧
    (∀ d, Lru.version d = leNat (d.take 2)) ∧
    (∀ e, Lru.parseEntry e = { prev := leNat (e.take 4), next := leNat (slice e 4 4), ekey := slice e 8 9, flags := byteAt e 17 }) :=
  ⟨by decide, by decide, by decide, by decide, by decide, by decide, by decide, fun _ => rfl, fun _ => rfl⟩

/-- order of `deserialize` (size guard, version, MD5 comparison, entry loop) as the extractor found
it, and as the model has it: a hash mismatch is `None` whatever the entries are. -/
theorem lru_order_tie (H : Hash) (d : Bytes) (hne : H (Lru.region d) ≠ Lru.stored d) :
    IntegritySrc.lru_check_before_entries = true ∧ Lru.deserialize H d = none := by
  refine ⟨rfl, ?_⟩
  unfold Lru.deserialize
  split
  · rfl
  · split
    · rfl
    · first | rfl | rw [if_pos hne]

/-! ### archive-index footer -/

/-- `SeekFrom::End(-13)`, the required size byte, the fixed footer size. -/
theorem aidx_size_byte_tie (H : Hash) (cs : Bool) (d : Bytes) :
    (d.length < IntegritySrc.aidx_size_byte_from_end → Aidx.footerCheck H cs d = .io) ∧
    (IntegritySrc.aidx_size_byte_from_end ≤ d.length →
      byteAt d (d.length - IntegritySrc.aidx_size_byte_from_end) ≠ IntegritySrc.aidx_required_hash_bytes →
      Aidx.footerCheck H cs d = .format) ∧
    Integrity.Aidx.hbOf d = byteAt d (d.length - IntegritySrc.aidx_size_byte_from_end) ∧
    Integrity.Aidx.footerOf d = slice d (d.length - (IntegritySrc.aidx_fixed_footer + Integrity.Aidx.hbOf d)) IntegritySrc.aidx_fixed_read ∧
    IntegritySrc.aidx_min_footer_size = IntegritySrc.aidx_fixed_footer := by
  refine ⟨?_, ?_, rfl, rfl, by decide⟩
  · intro h
    simp only [IntegritySrc.aidx_size_byte_from_end] at h
    unfold Aidx.footerCheck; simp only []; rw [if_pos h]
  · intro h1 h2
    simp only [IntegritySrc.aidx_size_byte_from_end, IntegritySrc.aidx_required_hash_bytes] at h1 h2
    unfold Aidx.footerCheck; simp only []
    rw [if_neg (by omega), if_pos h2]

/-- `calculate_footer_hash`: the footer bytes pushed (in order), the padding and the kept bytes are
the model's `f.drop 8 ++ 0⁸` and `take 8`; the TOC hash `[0,8)` is not among them. -/
theorem aidx_hashed_tie (f : Bytes) :
    IntegritySrc.aidx_hashed_bytes = List.range' IntegritySrc.aidx_toc_hash.2 (IntegritySrc.aidx_fixed_read - IntegritySrc.aidx_toc_hash.2) ∧
    Aidx.hashedOf f = f.drop IntegritySrc.aidx_toc_hash.2 ++
      List.replicate (IntegritySrc.aidx_hash_padded_to - IntegritySrc.aidx_hashed_bytes.length) 0 ∧
    IntegritySrc.aidx_hash_kept = 8 ∧ IntegritySrc.aidx_is_valid_min_len = true ∧
    IntegritySrc.aidx_hashed_bytes = IntegritySrc.aidx_f_version ++ IntegritySrc.aidx_f_reserved ++
      IntegritySrc.aidx_f_page_size_kb ++ IntegritySrc.aidx_f_offset_bytes ++ IntegritySrc.aidx_f_size_bytes ++
      IntegritySrc.aidx_f_ekey_length ++ IntegritySrc.aidx_f_footer_hash_bytes ++ IntegritySrc.aidx_f_element_count :=
  ⟨by decide, rfl, rfl, rfl, by decide⟩

/-- the number of digest bytes an ACCEPTED footer had compared is the extracted `[..n]` of
`calculate_footer_hash` = the extracted required size byte (both entry points, every input). -/
theorem aidx_compared_len_tie (H : Hash) (cs : Bool) (d : Bytes) (v ob ekl cnt : Nat)
    (hp : Aidx.footerCheck H cs d = .pass v ob ekl cnt) :
    (Integrity.Aidx.storedOf d).length = IntegritySrc.aidx_hash_kept ∧
    Integrity.Aidx.storedOf d = (H (Aidx.hashedOf (Integrity.Aidx.footerOf d))).take IntegritySrc.aidx_hash_kept ∧
    Integrity.Aidx.hbOf d = IntegritySrc.aidx_required_hash_bytes := by
  obtain ⟨a, b, c⟩ := Integrity.Aidx.pass_full_compare' H cs d v ob ekl cnt hp
  exact ⟨c, b, a⟩

/-- `validate_format` constants and the footer byte each one is applied to. -/
theorem aidx_format_tie (f : Bytes) :
    Aidx.formatOk f =
      (decide (byteAt f 8 ≤ IntegritySrc.aidx_max_version) && byteAt f 9 == 0 && byteAt f 10 == 0 &&
       byteAt f 11 == IntegritySrc.aidx_page_size_kb &&
       (byteAt f 12 == 4 || byteAt f 12 == 5 || byteAt f 12 == 6) && byteAt f 13 == IntegritySrc.aidx_size_bytes &&
       decide (1 ≤ byteAt f 14 ∧ byteAt f 14 ≤ IntegritySrc.aidx_max_ekey_length) &&
       byteAt f 15 == IntegritySrc.aidx_footer_hash_bytes) ∧
    IntegritySrc.aidx_offset_bytes = [4, 5, 6] ∧
    [IntegritySrc.aidx_f_version, IntegritySrc.aidx_f_reserved, IntegritySrc.aidx_f_page_size_kb,
     IntegritySrc.aidx_f_offset_bytes, IntegritySrc.aidx_f_size_bytes, IntegritySrc.aidx_f_ekey_length,
     IntegritySrc.aidx_f_footer_hash_bytes, IntegritySrc.aidx_f_element_count] =
      [[8], [9, 10], [11], [12], [13], [14], [15], [16, 17, 18, 19]] :=
  ⟨rfl, by decide, by decide⟩

/-- `validate_file_size`: the model's expected size is the transliterated expression on the footer
fields (`div_ceil` written as `(a + b - 1) / b`). -/
theorem aidx_expected_size_tie (f : Bytes) :
    Aidx.expectedSize f = IntegritySrc.aidx_expected_size (byteAt f 11) (byteAt f 14) (byteAt f 13) (byteAt f 12)
      (byteAt f 15) (leNat (slice f 16 4)) := rfl

/-! ### local header -/

/-- `LOCAL_HEADER_SIZE`, `[..0x16]`, `[..0x1A]`, `& 3`, the stored checksum positions; both
checksums compared in full (`u32 == u32`). -/
theorem lhdr_tie (HA : Bytes → Nat) (base : Nat) (h : Bytes) :
    Lhdr.size = IntegritySrc.lhdr_size ∧
    Lhdr.validate HA base h =
      (leNat (slice h IntegritySrc.lhdr_a_hashed_end 4) == HA (h.take IntegritySrc.lhdr_a_hashed_end) % 2 ^ 32 &&
       slice h IntegritySrc.lhdr_b_xored_end 4 == Lhdr.checksumB base h) ∧
    Lhdr.checksumB base h =
      (let f := Lhdr.lanes base (h.take IntegritySrc.lhdr_b_xored_end) (fun _ => 0); [f 0, f 1, f 2, f 3]) ∧
    IntegritySrc.lhdr_b_lane_mask + 1 = 4 ∧
    IntegritySrc.lhdr_checksum_a_bytes = List.range' IntegritySrc.lhdr_a_hashed_end 4 ∧
    IntegritySrc.lhdr_checksum_b_bytes = List.range' IntegritySrc.lhdr_b_xored_end 4 ∧
    IntegritySrc.lhdr_b_xored_end + 4 = IntegritySrc.lhdr_size :=
  ⟨rfl, rfl, rfl, rfl, by decide, by decide, rfl⟩

/-- the lane of byte `i` is `(base + i) & mask` = the model's `(base + i) % 4`. -/
theorem lhdr_lane_tie (n : Nat) : n &&& IntegritySrc.lhdr_b_lane_mask = n % 4 := by
  have : IntegritySrc.lhdr_b_lane_mask = 2 ^ 2 - 1 := rfl
  rw [this, Nat.and_two_pow_sub_one_eq_mod]

/-- the segment-header block: `SEGMENT_HEADER_SIZE` = `BUCKET_COUNT` headers; the loader does not
validate (the extractor looked for a `validate_checksums` call in `SegmentHeader::from_bytes`). -/
theorem seg_tie (d : Bytes) :
    IntegritySrc.seg_header_size = IntegritySrc.seg_bucket_count * IntegritySrc.lhdr_size ∧
    Lhdr.segmentLoad d = (if d.length < IntegritySrc.seg_header_size then none
      else some (Lhdr.segmentHeaders IntegritySrc.seg_bucket_count d)) ∧
    IntegritySrc.seg_load_validates = false :=
  ⟨by decide, rfl, rfl⟩

/-! ### update-section entries -/

/-- `UPDATE_ENTRY_SIZE`, `UPDATE_PAGE_SIZE`; the hashed range `entry_bytes[4..23]` is the model's
region (`[4,22)` verbatim + the status byte at 22); the loader does not validate. -/
theorem upd_region_tie (e : Bytes) :
    Upd.entrySize = IntegritySrc.upd_entry_size ∧ Upd.pageSize = IntegritySrc.upd_page_size ∧
    Upd.region e = slice e IntegritySrc.upd_hashed.1 (IntegritySrc.upd_status_pos - IntegritySrc.upd_hashed.1) ++
      [BitVec.ofNat 8 (Upd.canonStatus (byteAt e IntegritySrc.upd_status_pos))] ∧
    IntegritySrc.upd_status_pos + 1 = IntegritySrc.upd_hashed.2 ∧ IntegritySrc.upd_r_status = IntegritySrc.upd_status_pos ∧
    IntegritySrc.upd_guard = (0, IntegritySrc.upd_hashed.1) ∧ IntegritySrc.upd_pad_pos = IntegritySrc.upd_hashed.2 ∧
    IntegritySrc.upd_load_validates = false :=
  ⟨rfl, rfl, rfl, rfl, rfl, rfl, rfl, rfl⟩

/-- `| 0x8000_0000` and seed 0: the guard the model compares with is the Rust expression. -/
theorem upd_guard_tie (hl : Bytes → BitVec 32) (r : Bytes) :
    Upd.guardOf (fun b => (hl b).toNat) r = ((hl r) ||| BitVec.ofNat 32 IntegritySrc.upd_or_mask).toNat ∧
    IntegritySrc.upd_seed = 0 := ⟨IntegrityExt.Upd.guardOf_eq_or hl r, rfl⟩

/-- `UpdateStatus::from_byte` then `as u8`. -/
theorem upd_status_tie (b : Nat) :
    Upd.canonStatus b = if b ∈ IntegritySrc.upd_status_fixed then b else IntegritySrc.upd_status_default := by
  unfold Upd.canonStatus
  simp only [IntegritySrc.upd_status_fixed, IntegritySrc.upd_status_default, List.mem_cons, List.not_mem_nil, or_false]

/-- field ranges of `to_bytes` / `from_bytes` and the location packing constants (`>> 2`, `& 3`,
`<< 30`, `& 0x3FFF_FFFF`) = the model's `slice e 4 9`, `byteAt e 13`, `slice e 14 4`, `slice e 18 4`,
`* 4`, `/ 2^30`, `% 2^30`. -/
theorem upd_fields_tie :
    IntegritySrc.upd_ekey = (4, 4 + 9) ∧ IntegritySrc.upd_r_ekey = IntegritySrc.upd_ekey ∧
    IntegritySrc.upd_index_high = 13 ∧ IntegritySrc.upd_r_index_high = 13 ∧
    IntegritySrc.upd_packed = (14, 14 + 4) ∧ IntegritySrc.upd_r_packed_bytes = List.range' 14 4 ∧
    IntegritySrc.upd_size = (18, 18 + 4) ∧ IntegritySrc.upd_r_size_bytes = List.range' 18 4 ∧
    IntegritySrc.upd_r_guard_bytes = List.range' 0 4 ∧
    2 ^ IntegritySrc.upd_id_shift = 4 ∧ IntegritySrc.upd_id_low_mask + 1 = 4 ∧ IntegritySrc.upd_r_id_shift = IntegritySrc.upd_id_shift ∧
    IntegritySrc.upd_low_shift = 30 ∧ IntegritySrc.upd_r_low_shift = 30 ∧
    IntegritySrc.upd_offset_mask + 1 = 2 ^ 30 ∧ IntegritySrc.upd_r_offset_mask = IntegritySrc.upd_offset_mask := by
  decide

/-! ### V1 `Checksum:` epilogue -/

/-- the literal, the line end, the stripped byte. -/
theorem v1_literal_tie :
    V1.pfx = IntegritySrc.v1_prefix.map (BitVec.ofNat 8) ∧ IntegritySrc.v1_line_end = 0x0a ∧
    IntegritySrc.v1_stripped = 0x0d ∧ IntegritySrc.v1_renders_lower_hex = true ∧
    IntegritySrc.v1_check_before_mime = true := by decide

/-- a checksum that `extract_checksum` returns has exactly the extracted number of digits, all of
which are compared (`!=` on the whole strings). -/
theorem v1_len_tie (H : Hash) (raw m c : Bytes) (h : V1.extract raw = (m, some c)) :
    c.length = IntegritySrc.v1_hex_len ∧
    (V1.check H raw = .pass m (some c) ↔ V1.hexLower (H m) = c) := by
  obtain ⟨p, _, _, _, hl, _⟩ := Integrity.V1.extract_some raw m c h
  refine ⟨hl, ?_⟩
  unfold V1.check; rw [h]
  by_cases hc : V1.hexLower (H m) = c <;> simp [hc]

/-! ### validating caches -/

/-- `data_size > MAX_VALIDATION_SIZE` ⇒ not validated, with the extracted constant: up to and
including 100 MiB a value is returned only if it hashes to the key. -/
theorem cache_exemption_tie (H : Hash) (hooks : Bool) (c v : Bytes) :
    IntegritySrc.max_validation_size = 100 * 1024 * 1024 ∧
    (Cache.hooksValid H ⟨hooks, IntegritySrc.max_validation_size⟩ c v = true ↔
      IntegritySrc.max_validation_size < v.length ∨ H v = c) := by
  refine ⟨rfl, ?_⟩
  unfold Cache.hooksValid Cache.hooksValidLen
  simp

/-! ### encoding table -/

/-- `IndexEntry` = 16-byte first key + 16-byte checksum (compared in full with the MD5 of the page),
`EncodingHeader::data_size`, verify-before-entries. -/
theorem enc_tie (h : Enc.Header) (d : Bytes) (off i : Nat) :
    Enc.dataSize h = IntegritySrc.enc_data_size h.ckCount h.ckKb h.ekCount h.ekKb h.especSize ∧
    Enc.sumAt d off i = slice d (off + ((IntegritySrc.enc_index_key_len + IntegritySrc.enc_index_sum_len) * i +
      IntegritySrc.enc_index_key_len)) IntegritySrc.enc_index_sum_len ∧
    (Enc.layout h).ckIndex = IntegritySrc.enc_header_size + h.especSize ∧
    IntegritySrc.enc_verify_before_entries = true :=
  ⟨rfl, rfl, rfl, rfl⟩

/-- index entries are read as `key_len` + `sum_len` bytes each. -/
theorem enc_index_tie (n : Nat) (b : Bytes) :
    Enc.readIndex (n + 1) b =
      (b.take IntegritySrc.enc_index_key_len, slice b IntegritySrc.enc_index_key_len IntegritySrc.enc_index_sum_len) ::
        Enc.readIndex n (b.drop (IntegritySrc.enc_index_key_len + IntegritySrc.enc_index_sum_len)) := rfl

end Cascette.Proofs.IntegrityTie
