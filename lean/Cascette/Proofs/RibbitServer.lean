/-
Proofs/RibbitServer — newest-by-build_time and the V1 checksum epilogue (helpers for Props/C15).
-/
import Cascette.Proofs.RibbitParse
namespace Cascette.Proofs.Ribbit
open Cascette.Model.Bpsv Cascette.Model.Ribbit Cascette.Proofs.Bpsv

/-! ### `String::cmp` is a strict order -/

theorem ltStr_irrefl (a : Str) : ltStr a a = false := by
  induction a with
  | nil => rfl
  | cons c cs ih => simp [ltStr, ih]

theorem ltStr_trans (a b c : Str) (h1 : ltStr a b = true) (h2 : ltStr b c = true) : ltStr a c = true := by
  induction a generalizing b c with
  | nil =>
    cases b with
    | nil => simp [ltStr] at h1
    | cons y ys =>
      cases c with
      | nil => simp [ltStr] at h2
      | cons z zs => rfl
  | cons x xs ih =>
    cases b with
    | nil => simp [ltStr] at h1
    | cons y ys =>
      cases c with
      | nil => simp [ltStr] at h2
      | cons z zs =>
        simp only [ltStr, Bool.or_eq_true, decide_eq_true_eq, Bool.and_eq_true, beq_iff_eq] at h1 h2 ⊢
        rcases h1 with h1 | ⟨e1, h1⟩ <;> rcases h2 with h2 | ⟨e2, h2⟩
        · left; omega
        · left; omega
        · left; omega
        · right; exact ⟨by omega, ih ys zs h1 h2⟩

/-! ### the head of the stable descending sort -/

/-- one step of "keep the best so far": a later record wins only if strictly newer. -/
def pick (best : Option Record) (x : Record) : Option Record :=
  match best with
  | none => some x
  | some b => if ltStr b.buildTime x.buildTime then some x else some b

theorem head_insertDesc (x : Record) (l : List Record) : (insertDesc x l).head? = pick l.head? x := by
  cases l with
  | nil => rfl
  | cons y ys =>
    simp only [insertDesc, List.head?_cons, pick]
    split <;> rfl

theorem head_foldl_insert (l acc : List Record) :
    (l.foldl (fun acc x => insertDesc x acc) acc).head? = l.foldl pick acc.head? := by
  induction l generalizing acc with
  | nil => rfl
  | cons x xs ih => simp only [List.foldl_cons]; rw [ih, head_insertDesc]

theorem head_sortDesc (l : List Record) : (sortDesc l).head? = l.foldl pick none :=
  head_foldl_insert l []

/-- invariant of the fold: the best so far is one of the records seen, no record seen is newer,
and every record seen *before* it is strictly older (first among equals). -/
theorem foldl_pick_spec (l seen : List Record) (b : Record) (hb : b ∈ seen)
    (hmax : ∀ y ∈ seen, ltStr b.buildTime y.buildTime = false) :
    ∃ m, l.foldl pick (some b) = some m ∧ m ∈ seen ++ l ∧
      ∀ y ∈ seen ++ l, ltStr m.buildTime y.buildTime = false := by
  induction l generalizing seen b with
  | nil => exact ⟨b, rfl, by simpa using hb, by simpa using hmax⟩
  | cons x xs ih =>
    simp only [List.foldl_cons, pick]
    by_cases hlt : ltStr b.buildTime x.buildTime = true
    · simp only [hlt, ↓reduceIte]
      obtain ⟨m, h1, h2, h3⟩ := ih (seen ++ [x]) x (by simp) (by
        intro y hy
        simp only [List.mem_append, List.mem_singleton] at hy
        rcases hy with hy | rfl
        · cases hxy : ltStr x.buildTime y.buildTime with
          | false => rfl
          | true =>
            have := ltStr_trans _ _ _ hlt hxy
            rw [hmax y hy] at this; cases this
        · exact ltStr_irrefl _)
      exact ⟨m, h1, by simpa using h2, by simpa using h3⟩
    · simp only [hlt]
      obtain ⟨m, h1, h2, h3⟩ := ih (seen ++ [x]) b (by simp [hb]) (by
        intro y hy
        simp only [List.mem_append, List.mem_singleton] at hy
        rcases hy with hy | rfl
        · exact hmax y hy
        · simpa using hlt)
      exact ⟨m, h1, by simpa using h2, by simpa using h3⟩

theorem sortDesc_head_spec (l : List Record) :
    (l = [] ∧ (sortDesc l).head? = none) ∨
    ∃ m, (sortDesc l).head? = some m ∧ m ∈ l ∧ ∀ y ∈ l, ltStr m.buildTime y.buildTime = false := by
  rw [head_sortDesc]
  cases l with
  | nil => exact .inl ⟨rfl, rfl⟩
  | cons x xs =>
    right
    obtain ⟨m, h1, h2, h3⟩ := foldl_pick_spec xs [x] x (by simp) (by
      intro y hy; simp only [List.mem_singleton] at hy; subst hy; exact ltStr_irrefl _)
    exact ⟨m, by simpa [pick] using h1, by simpa using h2, by simpa using h3⟩

/-! ### the checksum epilogue -/

def isLowerHex (c : Char) : Bool := isDigit c || (97 ≤ c.toNat && c.toNat ≤ 102)

/-- what the theorems need of the hash: 64 lower-case hex digits (`format!("{:x}", sha256)`). -/
def GoodHash (H : Str → Str) : Prop := ∀ x, (H x).length = 64 ∧ ∀ c ∈ H x, isLowerHex c = true

theorem isLowerHex_hex (c : Char) (h : isLowerHex c = true) : isHexDigit c = true := by
  simp only [isLowerHex, Bool.or_eq_true] at h
  simp only [isHexDigit, Bool.or_eq_true]
  rcases h with h | h
  · exact .inl (.inl h)
  · exact .inl (.inr h)

theorem rfind_none_of_head_notin (p0 : Char) (ps s : Str) (h : p0 ∉ s) : rfind (p0 :: ps) s = none := by
  induction s with
  | nil => simp [rfind]
  | cons c cs ih =>
    have hc : p0 ≠ c := fun e => h (by simp [e])
    have := ih (fun m => h (by simp [m]))
    simp [rfind, this, startsWith, hc]

theorem startsWith_append (p t : Str) : startsWith p (p ++ t) = true := by
  induction p with
  | nil => simp [startsWith]
  | cons c cs ih => simp [startsWith, ih]

theorem rfind_at (pat a rest : Str) (c : Char) (cs : Str) (hr : rest = c :: cs)
    (h0 : startsWith pat rest = true) (hnone : rfind pat cs = none) :
    rfind pat (a ++ rest) = some a.length := by
  induction a with
  | nil => subst hr; simp [rfind, hnone]; simpa using h0
  | cons x xs ih => simp [rfind, ih]

theorem takeLine_append (a b : Str) (h : '\n' ∉ a) : takeLine (a ++ '\n' :: b) = a := by
  induction a with
  | nil => simp [takeLine]
  | cons c cs ih =>
    have hc : c ≠ '\n' := fun e => h (by simp [e])
    simp [takeLine, hc, ih (fun m => h (by simp [m]))]

/-- the client's `extract_checksum` finds the epilogue the server's `wrap_in_mime` wrote — for
every body (also one that itself contains `Checksum: ` lines) and every hash. -/
theorem extractChecksum_wrap (H : Str → Str) (hH : GoodHash H) (body : Str) :
    extractChecksum (wrapInMime H body) =
      (mimePrelude ++ body ++ mimeClose, some (H (mimePrelude ++ body ++ mimeClose))) := by
  show extractChecksum (mimePrelude ++ body ++ mimeClose ++ checksumPrefix ++
    H (mimePrelude ++ body ++ mimeClose) ++ ['\r', '\n']) = _
  generalize mimePrelude ++ body ++ mimeClose = before
  obtain ⟨hlen, hlow⟩ := hH before
  generalize H before = h at hlen hlow ⊢
  have hhex : h.all isHexDigit = true :=
    List.all_eq_true.mpr (fun c hc => isLowerHex_hex c (hlow c hc))
  have hC : 'C' ∉ h := by
    intro hm; have := hlow _ hm; simp [isLowerHex, isDigit] at this
  have hnl : '\n' ∉ h := by
    intro hm; have := hlow _ hm; simp [isLowerHex, isDigit] at this
  have hfind : rfind checksumPrefix (before ++ checksumPrefix ++ h ++ ['\r', '\n']) = some before.length := by
    have : before ++ checksumPrefix ++ h ++ ['\r', '\n'] = before ++ (checksumPrefix ++ (h ++ ['\r', '\n'])) := by
      simp
    rw [this]
    refine rfind_at checksumPrefix before _ 'C' (['h','e','c','k','s','u','m',':',' '] ++ (h ++ ['\r', '\n'])) rfl
      (startsWith_append _ _) ?_
    apply rfind_none_of_head_notin
    simp only [List.mem_append, List.mem_cons, List.mem_nil_iff, or_false, not_or]
    exact ⟨by decide, hC, by decide⟩
  have hdrop : (before ++ checksumPrefix ++ h ++ ['\r', '\n']).drop (before.length + 10) = h ++ ['\r', '\n'] := by
    have : before ++ checksumPrefix ++ h ++ ['\r', '\n'] = (before ++ checksumPrefix) ++ (h ++ ['\r', '\n']) := by
      simp
    rw [this]
    exact List.drop_left' (by simp [checksumPrefix])
  have htake : (before ++ checksumPrefix ++ h ++ ['\r', '\n']).take before.length = before := by
    have : before ++ checksumPrefix ++ h ++ ['\r', '\n'] = before ++ (checksumPrefix ++ h ++ ['\r', '\n']) := by
      simp
    rw [this]
    exact List.take_left' rfl
  have hline : takeLine (h ++ ['\r', '\n']) = h ++ ['\r'] := by
    have : h ++ ['\r', '\n'] = (h ++ ['\r']) ++ '\n' :: [] := by simp
    rw [this]
    apply takeLine_append
    simp only [List.mem_append, List.mem_singleton, not_or]
    exact ⟨hnl, by decide⟩
  have hstrip : stripCr (h ++ ['\r']) = h := by
    simp [stripCr]
  unfold extractChecksum
  simp only [hfind, hdrop, hline, hstrip, htake, utf8Len_hex h hhex, hlen, hhex, and_self, ↓reduceIte]

end Cascette.Proofs.Ribbit
