/-
Proofs/ParseFronts — lemmas for the second batch of parser front ends (Model/ParseFronts).
-/
import Cascette.Model.ParseFronts
namespace Cascette.Proofs.ParseFronts
open Cascette Cascette.Model.ParseFronts
open Cascette.Model.ParseGuards (Verdict Front)

/-! ## TVFS on bytes -/
namespace TvfsB
open Cascette.Model.ParseFronts.TvfsB

/-- a call entered at depth ≤ 513 never sees a deeper one. -/
theorem dir_le : ∀ (fuel d : Nat) (bs : List Nat), d ≤ 513 → (dir fuel d bs).2 ≤ 513 := by
  intro fuel
  induction fuel with
  | zero => intro d bs h; simp only [dir]; exact h
  | succ f ih =>
    intro d bs h
    unfold dir
    split
    · exact h
    · rename_i hd
      have hd' : d + 1 ≤ 513 := by unfold maxPathDepth at hd; omega
      split
      · exact h
      · split
        · exact h
        · rename_i value bs3 _
          split
          · dsimp only
            split
            · exact h
            · have h1 := ih (d + 1) (bs3.take (value % 0x80000000 - 4)) hd'
              have h2 := ih d (bs3.drop (value % 0x80000000 - 4)) h
              split
              · exact h1
              · simp only; omega
          · exact ih d _ h

theorem walk_le (p : List Nat) : (walk p).2 ≤ 513 := dir_le _ 0 _ (by omega)

attribute [local irreducible] walk

theorem mk_depth (ps : Nat) (r : Bool × Nat) : (mk ps r).depth = r.2 := rfl
theorem mk_verdict (ps : Nat) (r : Bool × Nat) : (mk ps r).verdict ≠ .panic := by
  unfold mk; dsimp only; split <;> (intro h; cases h)
theorem mk_allocs (ps : Nat) (r : Bool × Nat) : ∀ a ∈ (mk ps r).allocs, a = ps := by
  unfold mk; dsimp only; split
  · intro a ha; simpa using ha
  · intro a ha; cases ha

theorem front_depth (b : List Nat) : (front b).depth ≤ 513 := by
  unfold front
  split
  · exact Nat.zero_le _
  · split
    · exact Nat.zero_le _
    · split
      · exact Nat.zero_le _
      · rw [mk_depth]; exact walk_le _

theorem front_no_panic (b : List Nat) : (front b).verdict ≠ .panic := by
  unfold front
  split
  · intro h; cases h
  · split
    · intro h; cases h
    · split
      · intro h; cases h
      · exact mk_verdict _ _

theorem front_alloc (b : List Nat) : ∀ a ∈ (front b).allocs, a ≤ b.length := by
  unfold front
  split
  · intro a ha; cases ha
  · split
    · intro a ha; cases ha
    · rename_i hps
      split
      · intro a ha; cases ha
      · intro a ha
        rw [mk_allocs _ _ a ha]
        exact Nat.le_trans (Nat.le_add_left _ _) (Nat.le_of_not_lt hps)

end TvfsB
/-! ## Patch archive -/
namespace PArch
open Cascette.Model.ParseFronts.PArch

theorem blockTable_no_panic (fks : Nat) (h : fks ≤ 16) : ∀ (n : Nat) (bs : List Nat), blockTable fks n bs ≠ .panic := by
  intro n
  induction n with
  | zero => intro bs h'; simp only [blockTable] at h'; cases h'
  | succ n ih =>
    intro bs
    unfold blockTable readKey
    split
    · rename_i hk; split at hk
      · omega
      · split at hk <;> cases hk
    · intro h'; cases h'
    · split
      · intro h'; cases h'
      · exact ih _

theorem encInfo_spec (fks : Nat) (h : fks ≤ 16) (rest : List Nat) :
    (encInfo fks rest).1 ≠ .panic ∧ ∀ a ∈ (encInfo fks rest).2.1, a ≤ 255 := by
  unfold encInfo readKey
  have h16 : ¬ 16 < fks := by omega
  simp only [h16, if_false]
  split
  · rename_i hk; split at hk <;> cases hk
  · exact ⟨(by intro h'; cases h'), (by intro a ha; cases ha)⟩
  · split
    · rename_i hk; split at hk <;> cases hk
    · exact ⟨(by intro h'; cases h'), (by intro a ha; cases ha)⟩
    · split
      · exact ⟨(by intro h'; cases h'), (by intro a ha; cases ha)⟩
      · split
        · refine ⟨(by intro h'; cases h'), ?_⟩
          intro a ha; simp only [List.mem_singleton] at ha; subst ha; omega
        · refine ⟨(by intro h'; cases h'), ?_⟩
          intro a ha; simp only [List.mem_singleton] at ha; subst ha; omega

theorem front_spec (szBlock : Nat) (hs : szBlock ≤ 64) (b : List Nat) :
    (front szBlock b).verdict ≠ .panic ∧ ∀ a ∈ (front szBlock b).allocs, a ≤ 64 * 65536 := by
  unfold front
  split
  · exact ⟨(by simp only [Front.error]; intro h; cases h), (by simp only [Front.error]; intro a ha; cases ha)⟩
  · split
    · exact ⟨(by simp only [Front.error]; intro h; cases h), (by simp only [Front.error]; intro a ha; cases ha)⟩
    · rename_i hk
      have hf : b.getD 3 0 ≤ 16 := by omega
      dsimp only
      have he : ((if b.getD 9 0 / 2 % 2 = 1 then encInfo (b.getD 3 0) (b.drop 10) else (Verdict.pass, [], b.drop 10)).1 ≠ .panic) ∧
          ∀ a ∈ (if b.getD 9 0 / 2 % 2 = 1 then encInfo (b.getD 3 0) (b.drop 10) else (Verdict.pass, [], b.drop 10)).2.1, a ≤ 255 := by
        split
        · exact encInfo_spec _ hf _
        · exact ⟨(by intro h; cases h), (by intro a ha; cases ha)⟩
      generalize (if b.getD 9 0 / 2 % 2 = 1 then encInfo (b.getD 3 0) (b.drop 10) else (Verdict.pass, [], b.drop 10)) = e at he ⊢
      obtain ⟨he1, he2⟩ := he
      split
      · refine ⟨blockTable_no_panic _ hf _ _, ?_⟩
        intro a ha
        simp only [List.mem_append, List.mem_singleton] at ha
        rcases ha with ha | ha
        · have := he2 a ha; omega
        · subst ha
          have : (b.getD 7 0 * 256 + b.getD 8 0) % 65536 < 65536 := Nat.mod_lt _ (by omega)
          calc (b.getD 7 0 * 256 + b.getD 8 0) % 65536 * szBlock
              ≤ 65536 * 64 := Nat.mul_le_mul (by omega) hs
            _ = 64 * 65536 := by omega
      · rename_i v hv
        refine ⟨?_, ?_⟩
        · dsimp only; exact he1
        · intro a ha; have := he2 a ha; omega

end PArch

/-! ## Root -/
namespace Root
open Cascette.Model.ParseFronts.Root
open Cascette.Model.RootFile (Version)

theorem blockStep_spec (szHash szRec : Nat) (h1 : szHash ≤ 64) (h2 : szRec ≤ 64) (v : Version) (bs : List Nat) :
    (∀ a ∈ (blockStep szHash szRec v bs).1, a ≤ 16 * bs.length + 4000000) ∧
    (∀ r, (blockStep szHash szRec v bs).2 = some r → r.length ≤ bs.length) := by
  unfold blockStep
  split
  · exact ⟨(by intro a ha; cases ha), (by intro r hr; cases hr)⟩
  · split
    · exact ⟨(by intro a ha; cases ha), (by intro r hr; cases hr)⟩
    · rename_i n _ _
      have e1 : szHash * n ≤ 64 * n := Nat.mul_le_mul_right n h1
      have e2 : szRec * n ≤ 64 * n := Nat.mul_le_mul_right n h2
      dsimp only
      split
      · refine ⟨(by intro a ha; cases ha), ?_⟩
        intro r hr; cases hr; simp only [List.length_drop]; omega
      · rename_i hn
        unfold maxRecords at hn
        split
        · refine ⟨?_, (by intro r hr; cases hr)⟩
          intro a ha; simp only [List.mem_singleton] at ha; subst ha; omega
        · rename_i hb
          simp only [List.length_drop] at hb
          split
          · split
            · refine ⟨?_, (by intro r hr; cases hr)⟩
              intro a ha
              simp only [List.mem_cons, List.not_mem_nil, or_false] at ha
              rcases ha with rfl | rfl | rfl <;> omega
            · refine ⟨?_, ?_⟩
              · intro a ha
                simp only [List.mem_cons, List.not_mem_nil, or_false] at ha
                rcases ha with rfl | rfl | rfl <;> omega
              · intro r hr; cases hr; simp only [List.length_drop]; omega
          · split
            · refine ⟨?_, (by intro r hr; cases hr)⟩
              intro a ha
              simp only [List.mem_cons, List.not_mem_nil, or_false] at ha
              rcases ha with rfl | rfl | rfl <;> omega
            · split
              all_goals (try split)
              all_goals (
                refine ⟨?_, ?_⟩
                · intro a ha
                  simp only [List.mem_cons, List.not_mem_nil, or_false] at ha
                  first
                    | (rcases ha with rfl | rfl | rfl | rfl | rfl <;> omega)
                    | (rcases ha with rfl | rfl | rfl | rfl <;> omega)
                · intro r hr
                  first
                    | (cases hr; done)
                    | (cases hr; simp only [List.length_drop]; omega))

theorem blocks_alloc (szHash szRec : Nat) (h1 : szHash ≤ 64) (h2 : szRec ≤ 64) (v : Version) :
    ∀ (fuel : Nat) (bs : List Nat), ∀ a ∈ blocks szHash szRec v fuel bs, a ≤ 16 * bs.length + 4000000 := by
  intro fuel
  induction fuel with
  | zero => intro bs a ha; simp only [blocks] at ha; cases ha
  | succ f ih =>
    intro bs a ha
    unfold blocks at ha
    split at ha
    · cases ha
    · have hs := blockStep_spec szHash szRec h1 h2 v bs
      split at ha
      · rename_i al hq
        rw [hq] at hs
        exact hs.1 a ha
      · rename_i al rest hq
        rw [hq] at hs
        simp only [List.mem_append] at ha
        rcases ha with ha | ha
        · exact hs.1 a ha
        · have := ih rest a ha
          have := hs.2 rest rfl
          omega

end Root

/-! ## ESpec -/
namespace ESpec
open Cascette.Model.ParseFronts.ESpec

/-- entered with `self.depth ≤ 64`, no `parse_espec` frame beyond the 65th is ever entered. -/
theorem go_le : ∀ (fuel : Nat) (m : Mode) (d : Nat) (s : Str), d ≤ 64 → (go fuel m d s).2 ≤ 65 := by
  intro fuel
  induction fuel with
  | zero => intro m d s h; simp only [go]; omega
  | succ f ih =>
    intro m d s h
    cases m with
    | spec =>
      unfold go
      split
      · dsimp only; omega
      · rename_i hd
        have hd' : d + 1 ≤ 64 := by unfold maxNesting at hd; omega
        have := ih .inner (d + 1) s hd'
        dsimp only; omega
    | inner =>
      unfold go
      split
      · dsimp only; omega
      · dsimp only; omega
      · dsimp only; omega
      · dsimp only; omega
      · split
        · dsimp only; omega
        · rename_i r1 _
          have := ih .spec d r1 h
          dsimp only; omega
      · split
        · dsimp only; omega
        · split
          · dsimp only; omega
          · rename_i r2 _
            have := ih .spec d r2 h
            dsimp only; omega
          · rename_i r2 _
            have := ih .spec d r2 h
            dsimp only; omega
          · rename_i r2 _
            have := ih (.loop 0) d r2 h
            dsimp only; omega
      · dsimp only; omega
    | loop vc =>
      unfold go
      split
      · dsimp only; omega
      · rename_i vc' r _
        have h1 := ih .spec d r h
        dsimp only
        split
        · rename_i r2 _
          have h2 := ih (.loop vc') d r2 h
          dsimp only; omega
        · dsimp only; omega

theorem andThen_deep (o : Out) (f : Str → Option Str) (r : Str) :
    o.andThen f = .deep r ↔ o = .deep r := by
  cases o with
  | ok x => simp only [Out.andThen]; cases f x <;> simp [Out.ofOpt]
  | deep x => simp [Out.andThen]
  | err => simp [Out.andThen]

theorem ofOpt_not_deep (o : Option Str) (r : Str) : Out.ofOpt o ≠ .deep r := by
  cases o <;> simp [Out.ofOpt]

/-- `NestingTooDeep` is reported exactly when a 65th `parse_espec` frame is asked for: entered
with `self.depth ≤ 64`, in every mode, the deepest frame is 65 iff the outcome is `deep`. -/
theorem go_deep_iff : ∀ (fuel : Nat) (m : Mode) (d : Nat) (s : Str), d ≤ 64 →
    ((go fuel m d s).2 = 65 ↔ ∃ r, (go fuel m d s).1 = .deep r) := by
  intro fuel
  induction fuel with
  | zero =>
    intro m d s h; simp only [go]; constructor
    · intro h'; omega
    · intro ⟨r, h'⟩; cases h'
  | succ f ih =>
    intro m d s h
    cases m with
    | spec =>
      unfold go
      split
      · rename_i hd
        unfold maxNesting at hd
        dsimp only
        constructor
        · intro _; exact ⟨s, rfl⟩
        · intro _; omega
      · rename_i hd
        have hd' : d + 1 ≤ 64 := by unfold maxNesting at hd; omega
        have h1 := ih .inner (d + 1) s hd'
        have h2 := go_le f .inner (d + 1) s hd'
        dsimp only
        rw [← h1]; omega
    | inner =>
      unfold go
      split
      · dsimp only; constructor
        · intro h'; omega
        · intro ⟨r, h'⟩; cases h'
      · dsimp only; constructor
        · intro h'; omega
        · intro ⟨r, h'⟩; exact absurd h' (ofOpt_not_deep _ _)
      · dsimp only; constructor
        · intro h'; omega
        · intro ⟨r, h'⟩; exact absurd h' (ofOpt_not_deep _ _)
      · dsimp only; constructor
        · intro h'; omega
        · intro ⟨r, h'⟩; exact absurd h' (ofOpt_not_deep _ _)
      · split
        · dsimp only; constructor
          · intro h'; omega
          · intro ⟨r, h'⟩; cases h'
        · rename_i r1 _
          have h1 := ih .spec d r1 h
          have h2 := go_le f .spec d r1 h
          dsimp only
          simp only [andThen_deep]
          rw [← h1]; omega
      · split
        · dsimp only; constructor
          · intro h'; omega
          · intro ⟨r, h'⟩; cases h'
        · split
          · dsimp only; constructor
            · intro h'; omega
            · intro ⟨r, h'⟩; cases h'
          · rename_i r2 _
            have h1 := ih .spec d r2 h
            have h2 := go_le f .spec d r2 h
            dsimp only
            rw [← h1]; omega
          · rename_i r2 _
            have h1 := ih .spec d r2 h
            have h2 := go_le f .spec d r2 h
            dsimp only
            rw [← h1]; omega
          · rename_i r2 _
            have h1 := ih (.loop 0) d r2 h
            have h2 := go_le f (.loop 0) d r2 h
            dsimp only
            simp only [andThen_deep]
            rw [← h1]; omega
      · dsimp only; constructor
        · intro h'; omega
        · intro ⟨r, h'⟩; cases h'
    | loop vc =>
      unfold go
      split
      · dsimp only; constructor
        · intro h'; omega
        · intro ⟨r, h'⟩; cases h'
      · rename_i vc' r _
        have h1 := ih .spec d r h
        have hl1 := go_le f .spec d r h
        dsimp only
        split
        · rename_i r2 hx
          have h2 := ih (.loop vc') d r2 h
          have hl2 := go_le f (.loop vc') d r2 h
          dsimp only
          have hx1 : (go f .spec d r).2 ≠ 65 := by
            intro h65
            obtain ⟨q, hq⟩ := h1.mp h65
            rw [hq] at hx; cases hx
          rw [← h2]; omega
        · dsimp only; exact h1

/-- `Parser::parse` spelled out on the outcome of the top-level `parse_espec`. -/
theorem parseX_eq (s : Str) : parseX s =
    if s.isEmpty then (.other, 0)
    else ((match (top s).1 with
      | .ok [] => Res.ok
      | .ok _ => .other
      | .deep r => .deep (s.length - r.length)
      | .err => .other), (top s).2) := by
  unfold parseX
  split
  · rfl
  · generalize top s = t
    obtain ⟨o, m⟩ := t
    cases o with
    | ok r => cases r <;> rfl
    | deep r => rfl
    | err => rfl

theorem parse_snd (s : Str) : (parse s).2 = (parseX s).2 := by
  unfold parse
  split <;> rename_i h <;> rw [h]

theorem parse_depth (s : Str) : (parse s).2 ≤ 65 := by
  have := go_le (2 * s.length + 2) .spec 0 s (by omega)
  rw [parse_snd, parseX_eq]
  split
  · dsimp only; omega
  · exact this

/-- `Parser::parse` answers `NestingTooDeep` exactly when the string asks for a 65th frame. -/
theorem parse_deep_iff (s : Str) : (parse s).2 = 65 ↔ ∃ p, (parseX s).1 = .deep p := by
  have h := go_deep_iff (2 * s.length + 2) .spec 0 s (by omega)
  rw [parse_snd, parseX_eq]
  split
  · dsimp only; constructor
    · intro h'; omega
    · intro ⟨p, h'⟩; cases h'
  · dsimp only
    unfold top
    rw [h]
    generalize (go (2 * s.length + 2) .spec 0 s).1 = o
    cases o with
    | ok r =>
      cases r <;> (constructor <;> (intro ⟨_, h'⟩; cases h'))
    | deep r => constructor <;> intro _ <;> exact ⟨_, rfl⟩
    | err => constructor <;> (intro ⟨_, h'⟩; cases h')

/-- a brace-less recursive production: a prefix `p` after which `parse_espec`, entered below the
limit, does nothing but enter `parse_espec` ONE LEVEL DEEPER on what follows (so the level is
counted: a production that went through `parse_espec_inner` instead would hand on `d`). -/
def Transparent (p : Str) : Prop :=
  ∀ (f d : Nat) (s : Str), d < 64 →
    go (f + 2) .spec d (p ++ s) = ((go f .spec (d + 1) s).1, max (d + 1) (go f .spec (d + 1) s).2)

/-- `p` repeated `n` times in front of `core`. -/
def nest (p : Str) : Nat → Str → Str
  | 0, core => core
  | n + 1, core => p ++ nest p n core

theorem nest_length (p : Str) (n : Nat) (c : Str) : (nest p n c).length = n * p.length + c.length := by
  induction n with
  | zero => simp [nest]
  | succ n ih => simp only [nest, List.length_append, ih, Nat.add_mul]; omega

theorem nest_ok (p : Str) (hp : Transparent p) : ∀ (n d f : Nat), d + n ≤ 63 → 2 * n + 2 ≤ f →
    go f .spec d (nest p n ['n']) = (.ok [], d + n + 1) := by
  intro n
  induction n with
  | zero =>
    intro d f hd hf
    obtain ⟨f', rfl⟩ : ∃ f', f = f' + 2 := ⟨f - 2, by omega⟩
    have h64 : ¬ maxNesting ≤ d := by unfold maxNesting; omega
    simp [nest, go, h64]
  | succ n ih =>
    intro d f hd hf
    obtain ⟨f', rfl⟩ : ∃ f', f = f' + 2 := ⟨f - 2, by omega⟩
    rw [nest, hp f' d _ (by omega), ih (d + 1) f' (by omega) (by omega)]
    simp only [Prod.mk.injEq, true_and]
    omega

theorem nest_deep (p : Str) (hp : Transparent p) (core : Str) : ∀ (n d f : Nat), d ≤ 64 → 64 ≤ d + n →
    2 * (64 - d) + 1 ≤ f →
    go f .spec d (nest p n core) = (.deep (nest p (n - (64 - d)) core), 65) := by
  intro n
  induction n with
  | zero =>
    intro d f hd hn hf
    obtain ⟨f', rfl⟩ : ∃ f', f = f' + 1 := ⟨f - 1, by omega⟩
    have : d = 64 := by omega
    subst this
    simp [nest, go, maxNesting]
  | succ n ih =>
    intro d f hd hn hf
    by_cases h : d = 64
    · subst h
      obtain ⟨f', rfl⟩ : ∃ f', f = f' + 1 := ⟨f - 1, by omega⟩
      simp [go, maxNesting]
    · obtain ⟨f', rfl⟩ : ∃ f', f = f' + 2 := ⟨f - 2, by omega⟩
      rw [nest, hp f' d _ (by omega), ih (d + 1) f' (by omega) (by omega) (by omega)]
      have e : n + 1 - (64 - d) = n - (64 - (d + 1)) := by omega
      rw [e]
      simp only [Prod.mk.injEq, true_and]
      omega

theorem nest_parse (p : Str) (hp : Transparent p) (hne : p ≠ []) (n : Nat) :
    parseX (nest p n ['n']) = if n ≤ 63 then (.ok, n + 1) else (.deep (64 * p.length), 65) := by
  have hl : (nest p n ['n']).length = n * p.length + 1 := nest_length p n ['n']
  have hpl : 1 ≤ p.length := by cases p with | nil => exact absurd rfl hne | cons _ _ => simp
  have hnl : n ≤ n * p.length := Nat.le_mul_of_pos_right n hpl
  have hnonempty : (nest p n ['n']).isEmpty = false := by
    cases h : nest p n ['n'] with
    | nil => rw [h] at hl; simp at hl
    | cons _ _ => rfl
  rw [parseX_eq, hnonempty]
  simp only [Bool.false_eq_true, if_false]
  unfold top
  by_cases h : n ≤ 63
  · rw [if_pos h, nest_ok p hp n 0 _ (by omega) (by omega)]
    simp
  · rw [if_neg h, nest_deep p hp ['n'] n 0 _ (by omega) (by omega) (by omega)]
    obtain ⟨k, rfl⟩ : ∃ k, n = 64 + k := ⟨n - 64, by omega⟩
    have e : 64 + k - (64 - 0) = k := by omega
    simp only [e, hl, nest_length, Nat.add_mul, List.length_cons, List.length_nil]
    congr 2
    omega

theorem transparent_b1 : Transparent "b:1=".toList := by
  intro f d s hd
  have h64 : ¬ maxNesting ≤ d := by unfold maxNesting; omega
  simp [go, h64, consume, blockHead, headIs, headDigit, isDigit, sizeSpec, number, List.takeWhile, List.dropWhile]
  omega

theorem transparent_bstar : Transparent "b:*=".toList := by
  intro f d s hd
  have h64 : ¬ maxNesting ≤ d := by unfold maxNesting; omega
  simp [go, h64, consume, blockHead, headIs, headDigit, isDigit]
  omega

theorem transparent_b256K4 : Transparent "b:256K*4=".toList := by
  intro f d s hd
  have h64 : ¬ maxNesting ≤ d := by unfold maxNesting; omega
  simp [go, h64, consume, blockHead, headIs, headDigit, isDigit, sizeSpec, number, numberIn, List.takeWhile, List.dropWhile]
  omega

theorem transparent_b16Kstar : Transparent "b:16K*=".toList := by
  intro f d s hd
  have h64 : ¬ maxNesting ≤ d := by unfold maxNesting; omega
  simp [go, h64, consume, blockHead, headIs, headDigit, isDigit, sizeSpec, number, List.takeWhile, List.dropWhile]
  omega

theorem transparent_b1M : Transparent "b:1M=".toList := by
  intro f d s hd
  have h64 : ¬ maxNesting ≤ d := by unfold maxNesting; omega
  simp [go, h64, consume, blockHead, headIs, headDigit, isDigit, sizeSpec, number, List.takeWhile, List.dropWhile]
  omega

end ESpec

/-! ## LocalHeader -/
namespace LHdr
open Cascette.Model.ParseFronts.LHdr

theorem blteSize_le (b : Bytes) : blteSize b ≤ (sizeWithHeader b).toNat := by
  unfold blteSize; omega

theorem wrapping_eq (b : Bytes) (h : 30 ≤ (sizeWithHeader b).toNat) :
    (blteSizeWrapping b).toNat = blteSize b := by
  unfold blteSizeWrapping blteSize
  generalize sizeWithHeader b = w at *
  bv_omega

theorem wrapping_wraps (b : Bytes) (h : (sizeWithHeader b).toNat < 30) :
    (blteSizeWrapping b).toNat = (sizeWithHeader b).toNat + 4294967266 ∧ blteSize b = 0 := by
  unfold blteSizeWrapping blteSize
  generalize sizeWithHeader b = w at *
  constructor
  · bv_omega
  · omega

end LHdr

/-! ## Residency DB, LRU -/
namespace Resid
open Cascette.Model.ParseFronts.Resid

theorem pages_fit : ∀ (n : Nat) (bs : List Nat),
    (pages n bs).1 * pageSize + (pages n bs).2.length ≤ bs.length := by
  intro n
  induction n with
  | zero => intro bs; simp only [pages]; omega
  | succ n ih =>
    intro bs
    unfold pages
    split
    · dsimp only; omega
    · rename_i hl
      have := ih (bs.drop pageSize)
      simp only [List.length_drop] at this
      dsimp only
      rw [Nat.add_mul, Nat.one_mul]
      omega

/-- the pages `ResidencyDb::load` keeps fit the file, whatever the page-count fields say. -/
theorem load_fit : ∀ (fuel : Nat) (bs : List Nat), load fuel bs * pageSize ≤ bs.length := by
  intro fuel
  induction fuel with
  | zero => intro bs; simp only [load]; omega
  | succ f ih =>
    intro bs
    unfold load
    split
    · rename_i id c0 c1 c2 c3 rest
      split
      · omega
      · have h1 := pages_fit (c0 + 256 * c1 + 65536 * c2 + 16777216 * c3) rest
        have h2 := ih (pages (c0 + 256 * c1 + 65536 * c2 + 16777216 * c3) rest).2
        dsimp only
        simp only [List.length_cons]
        rw [Nat.add_mul]
        omega
    · omega

end Resid

namespace Lru
open Cascette.Model.ParseFronts.Lru
open Cascette.Model.Integrity (Hash)

theorem parseEntries_length : ∀ (n : Nat) (b : Bytes), (Model.Integrity.Lru.parseEntries n b).length = n := by
  intro n
  induction n with
  | zero => intro b; rfl
  | succ n ih => intro b; simp only [Model.Integrity.Lru.parseEntries, List.length_cons, ih]

theorem front_spec (H : Hash) (szEntry : Nat) (hs : szEntry ≤ 64) (d : Bytes) :
    (front H szEntry d).verdict ≠ .panic ∧ ∀ a ∈ (front H szEntry d).allocs, a ≤ 4 * d.length := by
  unfold front
  split
  · exact ⟨(by intro h; cases h), (by intro a ha; cases ha)⟩
  · rename_i f hf
    refine ⟨(by intro h; cases h), ?_⟩
    intro a ha
    simp only [List.mem_singleton] at ha
    subst ha
    unfold Model.Integrity.Lru.deserialize at hf
    split at hf
    · cases hf
    · split at hf
      · cases hf
      · split at hf
        · cases hf
        · cases hf
          simp only [parseEntries_length]
          unfold Model.Integrity.Lru.headerSize Model.Integrity.Lru.entrySize
          have e : (d.length - 28) / 20 * szEntry ≤ (d.length - 28) / 20 * 64 := Nat.mul_le_mul_left _ hs
          omega

/-! ### `LruManager::load_from_disk` link check (fix b5d4e35 / 1b8e830) -/
open Cascette.Model.ParseFronts.Lru in
/-- where the validating walk reaches the sentinel, so does the plain `next` walk of
`for_each_entry` with the same fuel — and it never indexes outside the table. -/
theorem walk_chain (es : List Model.Integrity.Lru.Entry) :
    ∀ (k prev idx : Nat) (seen : List Nat) (r : Nat × List Nat),
      walk es k prev idx seen = some r → chain es k idx = some true := by
  intro k
  induction k with
  | zero => intro prev idx seen r h; simp [walk] at h
  | succ k ih =>
    intro prev idx seen r h
    unfold walk at h
    unfold chain
    split
    · rfl
    · rename_i hs
      rw [if_neg hs] at h
      split at h
      · cases h
      · rename_i e he
        split at h
        · cases h
        · exact ih _ _ _ _ h

end Lru

end Cascette.Proofs.ParseFronts
