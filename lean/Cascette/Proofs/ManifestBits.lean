/-
Proofs/ManifestBits — bit-level lemmas for Model/Manifest: `has_file` is the MSB-first bit,
`add_file` / `remove_file` change exactly one bit, resizing keeps bits, and the two
`remove_file` loops of the builders (install: byte-by-byte rebuild; download: running output
position) both compute "delete position k and renumber".
-/
import Cascette.Model.Manifest
import Cascette.Spec.TagSets
namespace Cascette.Proofs.Manifest
open Cascette Cascette.Model.Manifest

/-! ### one byte -/

/-- finite table (2048 cases): `b & (0x80 >> k) != 0` is bit `7-k`. -/
theorem and_mask_table : ∀ (b : Fin 256) (k : Fin 8),
    (((BitVec.ofFin b : Byte) &&& bitMask k.val) != 0) = (BitVec.ofFin b : Byte).getLsbD (7 - k.val) := by
  decide +kernel

theorem and_mask (b : Byte) (k : Nat) (hk : k < 8) :
    ((b &&& bitMask k) != 0) = b.getLsbD (7 - k) := by
  have := and_mask_table b.toFin ⟨k, hk⟩
  simpa using this

/-- finite table (64 cases): `0x80 >> k` has exactly bit `7-k`. -/
theorem mask_bit_table : ∀ (k j : Fin 8), (bitMask k.val).getLsbD j.val = decide (j.val + k.val = 7) := by
  decide +kernel

theorem or_mask (b : Byte) (k j : Nat) (hk : k < 8) (hj : j < 8) :
    (b ||| bitMask k).getLsbD (7 - j) = (b.getLsbD (7 - j) || j == k) := by
  rw [BitVec.getLsbD_or]
  have := mask_bit_table ⟨k, hk⟩ ⟨7 - j, by omega⟩
  simp only at this
  rw [this]
  congr 1
  apply Bool.eq_iff_iff.mpr
  simp only [decide_eq_true_eq, beq_iff_eq]
  omega

theorem andnot_mask (b : Byte) (k j : Nat) (hk : k < 8) (hj : j < 8) :
    (b &&& ~~~ bitMask k).getLsbD (7 - j) = (b.getLsbD (7 - j) && j != k) := by
  rw [BitVec.getLsbD_and, BitVec.getLsbD_not]
  have := mask_bit_table ⟨k, hk⟩ ⟨7 - j, by omega⟩
  simp only at this
  rw [this]
  congr 1
  have h7 : 7 - j < 8 := by omega
  simp only [h7, decide_true, Bool.true_and]
  apply Bool.eq_iff_iff.mpr
  simp only [Bool.not_eq_true', decide_eq_false_iff_not, bne_iff_ne, ne_eq]
  omega

theorem getLsbD_arith (b : Byte) (i : Nat) : b.getLsbD i = (b.toNat / 2 ^ i % 2 == 1) := by
  rw [BitVec.getLsbD, Nat.testBit_eq_decide_div_mod_eq]
  apply Bool.eq_iff_iff.mpr
  simp

/-- the bit the model tests is the bit other tools read (`Spec.TagSets.msbBit`) -/
theorem and_mask_msb (b : Byte) (k : Nat) (hk : k < 8) :
    ((b &&& bitMask k) != 0) = Spec.TagSets.msbBit b k := by
  rw [and_mask b k hk, getLsbD_arith]; rfl

/-- bit `k` (0 = most significant) of a byte -/
def bitOf (b : Byte) (k : Nat) : Bool := b.getLsbD (7 - k)

/-! ### masks -/

/-- `has_file` as a lookup of the MSB-first bit; out of range is `false` (as in the Rust). -/
theorem hasFile_eq (m : Bytes) (i : Nat) :
    hasFile m i = match m[i / 8]? with | none => false | some b => bitOf b (i % 8) := by
  unfold hasFile bitOf
  cases m[i / 8]? with
  | none => rfl
  | some b => exact and_mask b (i % 8) (Nat.mod_lt _ (by omega))

theorem hasFile_of_length_le (m : Bytes) (i : Nat) (h : m.length ≤ i / 8) : hasFile m i = false := by
  unfold hasFile
  rw [List.getElem?_eq_none h]

theorem hasFile_true_lt (m : Bytes) (i : Nat) (h : hasFile m i = true) : i < m.length * 8 := by
  by_cases hl : m.length ≤ i / 8
  · rw [hasFile_of_length_le m i hl] at h; cases h
  · have : i / 8 < m.length := by omega
    omega

theorem bitOf_zero (k : Nat) : bitOf 0 k = false := by
  unfold bitOf; simp

theorem hasFile_replicate_zero (n i : Nat) : hasFile (List.replicate n (0 : Byte)) i = false := by
  rw [hasFile_eq, List.getElem?_replicate]
  split
  · rfl
  · rename_i b h
    split at h
    · cases h; exact bitOf_zero _
    · cases h

theorem length_resizeZ (m : Bytes) (n : Nat) : (resizeZ m n).length = n := by
  unfold resizeZ
  simp only [List.length_append, List.length_take, List.length_replicate]
  omega

theorem getElem?_resizeZ (m : Bytes) (n j : Nat) :
    (resizeZ m n)[j]? = if j < n then some (m[j]?.getD 0) else none := by
  unfold resizeZ
  rw [List.getElem?_append, List.length_take]
  by_cases h1 : j < min n m.length
  · rw [if_pos h1, List.getElem?_take, if_pos (by omega), if_pos (by omega)]
    have : j < m.length := by omega
    rw [List.getElem?_eq_getElem this]; rfl
  · rw [if_neg h1, List.getElem?_replicate]
    by_cases h2 : j < n
    · rw [if_pos h2, if_pos (by omega), List.getElem?_eq_none (by omega)]; rfl
    · rw [if_neg h2, if_neg (by omega)]

/-- `Vec::resize(sz, 0)` keeps every bit that still fits and adds only zero bits -/
theorem hasFile_resizeZ (m : Bytes) (sz i : Nat) :
    hasFile (resizeZ m sz) i = (decide (i / 8 < sz) && hasFile m i) := by
  rw [hasFile_eq, hasFile_eq, getElem?_resizeZ]
  by_cases h : i / 8 < sz
  · simp only [h, if_true, decide_true, Bool.true_and]
    cases m[i / 8]? with
    | none => exact bitOf_zero _
    | some b => rfl
  · simp only [h, if_false, decide_false, Bool.false_and]

theorem length_addFile (m : Bytes) (i : Nat) :
    (addFile m i).length = max m.length (i / 8 + 1) := by
  unfold addFile
  simp only [List.length_modify]
  split
  · rw [length_resizeZ]; omega
  · omega

/-- `add_file i` sets bit `i` and no other -/
theorem hasFile_addFile (m : Bytes) (i j : Nat) :
    hasFile (addFile m i) j = (hasFile m j || j == i) := by
  have key : ∀ m' : Bytes, i / 8 < m'.length →
      hasFile (m'.modify (i / 8) (· ||| bitMask (i % 8))) j = (hasFile m' j || j == i) := by
    intro m' hlen
    rw [hasFile_eq, hasFile_eq, List.getElem?_modify]
    by_cases hb : i / 8 = j / 8
    · rw [← hb, List.getElem?_eq_getElem hlen]
      simp only [Option.map_eq_map, Option.map_some, if_true]
      unfold bitOf
      rw [or_mask _ _ _ (Nat.mod_lt _ (by omega)) (Nat.mod_lt _ (by omega))]
      congr 1
      apply Bool.eq_iff_iff.mpr
      simp only [beq_iff_eq]
      omega
    · have hne : (j == i) = false := by
        apply Bool.eq_false_iff.mpr
        simp only [ne_eq, beq_iff_eq]
        intro h; subst h; exact hb rfl
      rw [hne, Bool.or_false]
      cases m'[j / 8]? with
      | none => rfl
      | some b => simp only [Option.map_eq_map, Option.map_some, if_neg hb]
  unfold addFile
  by_cases h : i / 8 ≥ m.length
  · simp only [h, if_true]
    rw [key _ (by rw [length_resizeZ]; omega), hasFile_resizeZ]
    by_cases hj : j / 8 < i / 8 + 1
    · simp only [hj, decide_true, Bool.true_and]
    · simp only [hj, decide_false, Bool.false_and]
      rw [hasFile_of_length_le m j (by omega)]
  · simp only [h, if_false]
    exact key m (by omega)

theorem length_removeFile (m : Bytes) (i : Nat) : (removeFile m i).length = m.length := by
  unfold removeFile
  split
  · rfl
  · simp only [List.length_modify]

/-- `remove_file i` clears bit `i` and no other -/
theorem hasFile_removeFile (m : Bytes) (i j : Nat) :
    hasFile (removeFile m i) j = (hasFile m j && j != i) := by
  unfold removeFile
  by_cases h : i / 8 ≥ m.length
  · simp only [h, if_true]
    by_cases hji : j = i
    · subst hji
      rw [hasFile_of_length_le m j h]; rfl
    · have : (j != i) = true := by simp [hji]
      rw [this, Bool.and_true]
  · simp only [h, if_false]
    have hlen : i / 8 < m.length := by omega
    rw [hasFile_eq, hasFile_eq, List.getElem?_modify]
    by_cases hb : i / 8 = j / 8
    · rw [← hb, List.getElem?_eq_getElem hlen]
      simp only [Option.map_eq_map, Option.map_some, if_true]
      unfold bitOf
      rw [andnot_mask _ _ _ (Nat.mod_lt _ (by omega)) (Nat.mod_lt _ (by omega))]
      congr 1
      apply Bool.eq_iff_iff.mpr
      simp only [bne_iff_ne, ne_eq]
      omega
    · have hne : (j != i) = true := by
        simp only [bne_iff_ne, ne_eq]
        intro h; subst h; exact hb rfl
      rw [hne, Bool.and_true]
      cases m[j / 8]? with
      | none => rfl
      | some b => simp only [Option.map_eq_map, Option.map_some, if_neg hb]

/-! ### intersect / union are pointwise on bits -/

theorem getElem?_intersect (a b : Bytes) (j : Nat) :
    (intersect a b)[j]? = match a[j]?, b[j]? with
      | some x, some y => some (x &&& y) | _, _ => none := by
  induction a generalizing b j with
  | nil => cases b <;> simp [intersect]
  | cons x xs ih =>
    cases b with
    | nil => simp [intersect]
    | cons y ys =>
      cases j with
      | zero => simp [intersect]
      | succ j => simp only [intersect, List.getElem?_cons_succ]; exact ih ys j

theorem hasFile_intersect (a b : Bytes) (i : Nat) :
    hasFile (intersect a b) i = (hasFile a i && hasFile b i) := by
  rw [hasFile_eq, hasFile_eq, hasFile_eq, getElem?_intersect]
  cases a[i / 8]? with
  | none => simp
  | some x =>
    cases b[i / 8]? with
    | none => simp
    | some y => simp only [bitOf, BitVec.getLsbD_and]

theorem getElem?_union (a b : Bytes) (j : Nat) :
    (union a b)[j]? = match a[j]?, b[j]? with
      | some x, some y => some (x ||| y) | some x, none => some (x ||| 0)
      | none, some y => some (0 ||| y) | none, none => none := by
  induction a generalizing b j with
  | nil =>
    cases b with
    | nil => simp [union]
    | cons y ys =>
      simp only [union, List.getElem?_map, List.getElem?_nil]
      cases (y :: ys)[j]? <;> rfl
  | cons x xs ih =>
    cases b with
    | nil =>
      simp only [union, List.getElem?_map, List.getElem?_nil]
      cases (x :: xs)[j]? <;> rfl
    | cons y ys =>
      cases j with
      | zero => simp [union]
      | succ j => simp only [union, List.getElem?_cons_succ]; exact ih ys j

theorem hasFile_union (a b : Bytes) (i : Nat) :
    hasFile (union a b) i = (hasFile a i || hasFile b i) := by
  rw [hasFile_eq, hasFile_eq, hasFile_eq, getElem?_union]
  cases a[i / 8]? with
  | none =>
    cases b[i / 8]? with
    | none => simp
    | some y => simp [bitOf]
  | some x =>
    cases b[i / 8]? with
    | none => simp [bitOf]
    | some y => simp only [bitOf, BitVec.getLsbD_or]


/-! ### install `remove_file`: byte-by-byte rebuild -/

theorem bitOf_foldl_or (P : Nat → Bool) (l : List Nat) (hl : ∀ i ∈ l, i < 8) (acc : Byte)
    (j : Nat) (hj : j < 8) :
    bitOf (l.foldl (fun acc b => if P b = true then acc ||| bitMask b else acc) acc) j
      = (bitOf acc j || (decide (j ∈ l) && P j)) := by
  induction l generalizing acc with
  | nil => simp
  | cons b bs ih =>
    rw [List.foldl_cons, ih (fun i hi => hl i (List.mem_cons_of_mem _ hi))]
    have hb : b < 8 := hl b List.mem_cons_self
    by_cases hP : P b = true
    · rw [if_pos hP]
      unfold bitOf
      rw [or_mask _ _ _ hb hj]
      by_cases hjb : j = b
      · subst hjb; simp [hP]
      · have : (j == b) = false := by simp [hjb]
        simp [this, hjb]
    · rw [if_neg hP]
      by_cases hjb : j = b
      · subst hjb
        have : P j = false := by simpa using hP
        simp [this]
      · simp [hjb]

/-- the predicate deciding output bit `b` of byte `byteIdx` in install `remove_file` -/
def instP (old : Bytes) (k total byteIdx : Nat) (b : Nat) : Bool :=
  decide (byteIdx * 8 + b < total) &&
    (decide ((if byteIdx * 8 + b < k then byteIdx * 8 + b else byteIdx * 8 + b + 1) < old.length * 8) &&
      hasFile old (if byteIdx * 8 + b < k then byteIdx * 8 + b else byteIdx * 8 + b + 1))

theorem instNewByte_eq (old : Bytes) (k total byteIdx : Nat) :
    instNewByte old k total byteIdx =
      (List.range 8).foldl (fun acc b => if instP old k total byteIdx b = true then acc ||| bitMask b else acc) 0 := by
  unfold instNewByte
  congr 1
  funext acc b
  unfold instP
  by_cases h1 : byteIdx * 8 + b ≥ total
  · have : ¬ (byteIdx * 8 + b < total) := by omega
    simp [h1, this]
  · have h1' : byteIdx * 8 + b < total := by omega
    simp only [h1, if_false, h1', decide_true, Bool.true_and, Bool.and_eq_true, decide_eq_true_eq]

theorem length_instRemoveMask (old : Bytes) (k total : Nat) :
    (instRemoveMask old k total).length = maskSize total := by
  unfold instRemoveMask; simp

/-- install `remove_file(k)`: new bit `j` is old bit `j` (before `k`) or `j+1` (from `k` on), and
nothing at or beyond the new entry count. -/
theorem hasFile_instRemoveMask (old : Bytes) (k total j : Nat) :
    hasFile (instRemoveMask old k total) j =
      (decide (j < total) && hasFile old (if j < k then j else j + 1)) := by
  rw [hasFile_eq]
  unfold instRemoveMask
  rw [List.getElem?_map]
  by_cases hb : j / 8 < maskSize total
  · rw [List.getElem?_range hb]
    simp only [Option.map_some]
    rw [instNewByte_eq, bitOf_foldl_or _ _ (fun i hi => by simpa using hi) _ _ (Nat.mod_lt _ (by omega))]
    have hmem : decide (j % 8 ∈ List.range 8) = true := by
      simp only [List.mem_range, decide_eq_true_eq]; exact Nat.mod_lt _ (by omega)
    have hj : j / 8 * 8 + j % 8 = j := by omega
    rw [hmem, bitOf_zero, Bool.false_or, Bool.true_and]
    unfold instP
    rw [hj]
    congr 1
    generalize (if j < k then j else j + 1) = o
    by_cases ho : hasFile old o = true
    · have := hasFile_true_lt old o ho
      simp [ho, this]
    · have : hasFile old o = false := by simpa using ho
      simp [this]
  · rw [List.getElem?_eq_none (by simpa using hb)]
    have : ¬ j < total := by unfold maskSize at hb; omega
    simp [this]

/-! ### download `remove_file`: running output position -/

theorem setBitGrow_eq_addFile (m : Bytes) (j : Nat) : setBitGrow m j = addFile m j := rfl

/-- loop invariant of the download `remove_file` pass after the first `m` original positions -/
theorem dlRemove_inv (old : Bytes) (k m : Nat) :
    let st := (List.range m).foldl (dlRemoveStep old k) ([], 0)
    st.2 = (if m ≤ k then m else m - 1) ∧
    ∀ j, hasFile st.1 j = (decide (j < st.2) && hasFile old (if j < k then j else j + 1)) := by
  induction m with
  | zero =>
    refine ⟨rfl, fun j => ?_⟩
    simp [hasFile_of_length_le]
  | succ m ih =>
    simp only [List.range_succ, List.foldl_append, List.foldl_cons, List.foldl_nil]
    generalize (List.range m).foldl (dlRemoveStep old k) ([], 0) = st at ih
    obtain ⟨M, p⟩ := st
    simp only at ih
    obtain ⟨hp, hbits⟩ := ih
    unfold dlRemoveStep
    by_cases hmk : m = k
    · subst hmk
      simp only [if_true]
      refine ⟨by rw [hp, if_pos (Nat.le_refl m), if_neg (by omega)]; omega, ?_⟩
      intro j; exact hbits j
    · simp only [hmk, if_false]
      have hshift : (if p < k then p else p + 1) = m := by
        rw [hp]; split <;> split <;> omega
      by_cases hb : hasFile old m = true
      · simp only [hb, if_true]
        refine ⟨by rw [hp]; split <;> split <;> omega, fun j => ?_⟩
        rw [setBitGrow_eq_addFile, hasFile_addFile, hbits j]
        by_cases hjp : j = p
        · subst hjp
          rw [hshift, hb]; simp
        · have : (j == p) = false := by simp [hjp]
          rw [this, Bool.or_false]
          congr 1
          apply Bool.eq_iff_iff.mpr
          simp only [decide_eq_true_eq]
          constructor
          · omega
          · intro h
            by_cases hlt : j < p
            · exact hlt
            · exfalso; omega
      · have hb' : hasFile old m = false := by simpa using hb
        simp only [hb', Bool.false_eq_true, if_false]
        refine ⟨by rw [hp]; split <;> split <;> omega, fun j => ?_⟩
        rw [hbits j]
        by_cases hjp : j = p
        · subst hjp
          rw [hshift, hb']; simp
        · congr 1
          apply Bool.eq_iff_iff.mpr
          simp only [decide_eq_true_eq]
          omega

theorem length_dlRemoveMask (old : Bytes) (k total : Nat) :
    (dlRemoveMask old k total).length = maskSize total := by
  unfold dlRemoveMask; rw [length_resizeZ]

/-- download `remove_file(k)`, every position: the resized result keeps bit `shift j` of the old
mask for every `j` below the number of positions copied. -/
theorem hasFile_dlRemoveMask_all (old : Bytes) (k total j : Nat) :
    hasFile (dlRemoveMask old k total) j =
      (decide (j / 8 < maskSize total) &&
        (decide (j < (if old.length * 8 ≤ k then old.length * 8 else old.length * 8 - 1)) &&
          hasFile old (if j < k then j else j + 1))) := by
  unfold dlRemoveMask
  rw [hasFile_resizeZ]
  have := dlRemove_inv old k (old.length * 8)
  simp only at this
  obtain ⟨hp, hbits⟩ := this
  rw [hbits j, hp]

/-- download `remove_file(k)`: for every surviving file `j` the new bit is the old bit `j`
(before `k`) or `j+1` (from `k` on). `total` = entry count after the removal; the old mask holds
at least `total + 1` bits. -/
theorem hasFile_dlRemoveMask (old : Bytes) (k total j : Nat) (hj : j < total)
    (hlen : total < old.length * 8) :
    hasFile (dlRemoveMask old k total) j = hasFile old (if j < k then j else j + 1) := by
  rw [hasFile_dlRemoveMask_all]
  have h1 : j / 8 < maskSize total := by unfold maskSize; omega
  have h2 : j < (if old.length * 8 ≤ k then old.length * 8 else old.length * 8 - 1) := by
    split <;> omega
  simp [h1, h2]

end Cascette.Proofs.Manifest
