/-
Proofs/CompactionExec — executing a merge plan with `move_data` in plan order: every move reads
its source's ORIGINAL bytes, no byte a segment used before is overwritten, and every moved
segment ends up verbatim at its destination range. Core Lean only.
-/
import Cascette.Proofs.Compaction
import Cascette.Proofs.CompactionPlan
namespace Cascette.Proofs.CompactionExec
open Cascette Cascette.Spec.Compaction Cascette.Model.Compaction Cascette.Proofs.Compaction
open Cascette.Proofs.CompactionPlan

theorem writeAt_take_le (d x : Bytes) (p k : Nat) (hk : k ≤ p) (hk2 : k ≤ d.length) :
    (writeAt d p x).take k = d.take k := by
  unfold writeAt
  have hA : k ≤ (d.take p).length := by rw [List.length_take]; omega
  rw [List.append_assoc, List.append_assoc, List.take_append_of_le_length hA, List.take_take]
  congr 1; omega

theorem slice_eq_drop_take (f : Bytes) (o n : Nat) : slice f o n = (f.take (o + n)).drop o := by
  unfold slice
  rw [List.drop_take]
  congr 1; omega

theorem slice_writeAt_below (d x : Bytes) (p o n : Nat) (y : Bytes) (h : o + n ≤ p)
    (hy : slice d o n = y) (hl : y.length = n) : slice (writeAt d p x) o n = y := by
  by_cases hn : n = 0
  · subst hn
    have : y = [] := List.eq_nil_of_length_eq_zero hl
    subst this
    simp [slice]
  · have hlen : o + n ≤ d.length := by
      have := congrArg List.length hy
      rw [hl] at this
      unfold slice at this
      simp only [List.length_take, List.length_drop] at this
      omega
    rw [slice_eq_drop_take, writeAt_take_le d x p (o + n) h hlen, ← slice_eq_drop_take, hy]

theorem slice_writeAt_self (d x : Bytes) (p : Nat) : slice (writeAt d p x) p x.length = x := by
  unfold writeAt slice
  have hP : (d.take p ++ List.replicate (p - d.length) (0 : Byte)).length = p := by
    simp only [List.length_append, List.length_take, List.length_replicate]; omega
  generalize d.take p ++ List.replicate (p - d.length) (0 : Byte) = P at hP
  rw [List.append_assoc, ← hP, List.drop_left, List.take_left]

theorem slice_zero (f : Bytes) (n : Nat) : slice f 0 n = f.take n := by
  unfold slice; rfl

/-- what the planner guarantees about one move, stated on the ORIGINAL segment files. -/
structure ExecOk (orig : List Bytes) (mv : Move) : Prop where
  src : ∃ o, orig[mv.src]? = some o ∧ mv.len = o.length ∧ 0 < o.length
  dst : ∃ o, orig[mv.dst]? = some o ∧ o.length ≤ mv.dstOff
  off : mv.srcOff = 0

/-- invariant of the execution: every segment still starts with its original bytes, and every
move done so far has its source's original bytes at its destination range. -/
structure Inv (orig cur : List Bytes) (done : List Move) : Prop where
  len : cur.length = orig.length
  prefix_kept : ∀ (i : Nat) (o : Bytes), orig[i]? = some o →
    ∃ c : Bytes, cur[i]? = some c ∧ c.take o.length = o
  moved : ∀ a ∈ done, ∃ c o : Bytes, cur[a.dst]? = some c ∧ orig[a.src]? = some o ∧
    slice c a.dstOff a.len = o ∧ a.len = o.length

theorem exec_inv (orig : List Bytes) : ∀ (rest done : List Move) (cur : List Bytes) (m : Mover),
    Inv orig cur done → (∀ mv ∈ rest, ExecOk orig mv) →
    (∀ a ∈ done, ∀ b ∈ rest, a.dst = b.dst → a.dstOff + a.len ≤ b.dstOff) →
    rest.Pairwise (fun a b => a.dst = b.dst → a.dstOff + a.len ≤ b.dstOff) →
    ∃ final m', execPlan m cur rest = some (final, m') ∧ Inv orig final (done ++ rest) := by
  intro rest
  induction rest with
  | nil =>
    intro done cur m hinv _ _ _
    exact ⟨cur, m, rfl, by simpa using hinv⟩
  | cons mv rest ih =>
    intro done cur m hinv hok hdr hpw
    rw [List.pairwise_cons] at hpw
    have hmv := hok mv List.mem_cons_self
    obtain ⟨os, hos, hlen, hpos⟩ := hmv.src
    obtain ⟨od, hod, hoff⟩ := hmv.dst
    obtain ⟨cs, hcs, hcst⟩ := hinv.prefix_kept _ _ hos
    obtain ⟨cd, hcd, hcdt⟩ := hinv.prefix_kept _ _ hod
    have hcsl : os.length ≤ cs.length := by
      have := congrArg List.length hcst
      rw [List.length_take] at this; omega
    have hcdl : od.length ≤ cd.length := by
      have := congrArg List.length hcdt
      rw [List.length_take] at this; omega
    have hmove : moveData m cs mv.srcOff cd mv.dstOff mv.len =
        (writeAt cd mv.dstOff os, { m with moved := m.moved + mv.len }, true) := by
      unfold moveData
      rw [hmv.off, moveLoop_spec m.bufSize m.pos cs cd 0 mv.dstOff mv.len m.moved (by omega)
        (by omega), slice_zero, hlen, hcst]
    have hstep : execMove m cur mv =
        some (cur.set mv.dst (writeAt cd mv.dstOff os), { m with moved := m.moved + mv.len }) := by
      unfold execMove
      rw [hcs, hcd]
      simp only [hmove]
    have hdlt : mv.dst < cur.length := (List.getElem?_eq_some_iff.1 hcd).1
    have hinv' : Inv orig (cur.set mv.dst (writeAt cd mv.dstOff os)) (done ++ [mv]) := by
      constructor
      · rw [List.length_set]; exact hinv.len
      · intro i o hio
        by_cases hi : i = mv.dst
        · subst hi
          rw [hod] at hio; cases hio
          refine ⟨_, by rw [List.getElem?_set_self hdlt], ?_⟩
          rw [writeAt_take_le cd os mv.dstOff _ hoff hcdl, hcdt]
        · obtain ⟨c, hc, hct⟩ := hinv.prefix_kept i o hio
          exact ⟨c, by rw [List.getElem?_set_ne (Ne.symm hi)]; exact hc, hct⟩
      · intro a ha
        rcases List.mem_append.1 ha with ha | ha
        · obtain ⟨c, o, hc, ho, hsl, hl⟩ := hinv.moved a ha
          by_cases hd : a.dst = mv.dst
          · rw [hd] at hc
            rw [hcd] at hc; cases hc
            refine ⟨_, o, by rw [hd, List.getElem?_set_self hdlt], ho, ?_, hl⟩
            exact slice_writeAt_below _ os mv.dstOff a.dstOff a.len o
              (hdr a ha mv List.mem_cons_self hd) hsl hl.symm
          · exact ⟨c, o, by rw [List.getElem?_set_ne (Ne.symm hd)]; exact hc, ho, hsl, hl⟩
        · rw [List.mem_singleton] at ha
          subst ha
          refine ⟨_, os, by rw [List.getElem?_set_self hdlt], hos, ?_, hlen⟩
          rw [hlen]; exact slice_writeAt_self cd os a.dstOff
    obtain ⟨final, m', he, hfin⟩ := ih (done ++ [mv]) _ _ hinv'
      (fun b hb => hok b (List.mem_cons_of_mem _ hb))
      (by
        intro a ha b hb hab
        rcases List.mem_append.1 ha with ha | ha
        · exact hdr a ha b (List.mem_cons_of_mem _ hb) hab
        · rw [List.mem_singleton] at ha; subst ha; exact hpw.1 b hb hab)
      hpw.2
    refine ⟨final, m', ?_, by simpa using hfin⟩
    rw [execPlan, hstep]
    exact he

theorem files_of_segs {files : List Bytes} {segs : List Seg}
    (hf : files.map List.length = segs.map Seg.used) {i : Nat} {s : Seg} (hs : segs[i]? = some s) :
    ∃ o, files[i]? = some o ∧ o.length = s.used := by
  have h1 : (files.map List.length)[i]? = some s.used := by rw [hf, List.getElem?_map, hs]; rfl
  rw [List.getElem?_map] at h1
  cases hfi : files[i]? with
  | none => rw [hfi] at h1; cases h1
  | some o =>
    rw [hfi] at h1
    exact ⟨o, rfl, by simpa using h1⟩

/-- the planner's guarantee (`planMerge_spec`) is what the executor needs. -/
theorem moveSafe_execOk {p : Nat → Bool} {segSize : Nat} {segs : List Seg} {files : List Bytes}
    (hf : files.map List.length = segs.map Seg.used) {mv : Move}
    (h : MoveSafe p segSize segs mv) : ExecOk files mv := by
  obtain ⟨sd, ss, h1, h2, h3, _, _, h6, h7, h8, _⟩ := h
  obtain ⟨od, hod, hodl⟩ := files_of_segs hf h1
  obtain ⟨os, hos, hosl⟩ := files_of_segs hf h2
  exact ⟨⟨os, hos, by omega, by omega⟩, ⟨od, hod, by omega⟩, h6⟩

end Cascette.Proofs.CompactionExec
