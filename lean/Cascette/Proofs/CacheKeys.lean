/-
Proofs/CacheKeys — lemmas about the key / URL string builders (C20).
-/
import Cascette.Model.CacheKeys
import Cascette.Proofs.Path
namespace Cascette.Proofs.CacheKeys
open Cascette.Model.Path Cascette.Model.CacheKeys Cascette.Proofs.Path

/-! ### decimal rendering -/

theorem dec_inj (a b : Nat) (h : dec a = dec b) : a = b := by
  have ha := @Nat.ofDigitChars_ten_toDigits a
  have hb := @Nat.ofDigitChars_ten_toDigits b
  unfold dec at h
  rw [h] at ha
  omega

theorem dec_isDigit (n : Nat) : ∀ c ∈ dec n, c.isDigit = true := by
  intro c hc
  exact Nat.isDigit_of_mem_toDigits (by decide) (by decide) hc

theorem not_mem_dec (n : Nat) (c : Char) (hc : c.isDigit = false) : c ∉ dec n := by
  intro h
  have := dec_isDigit n c h
  rw [hc] at this
  cases this

theorem plus_inj (a b c d : Nat) (h : dec a ++ '+' :: dec b = dec c ++ '+' :: dec d) :
    a = c ∧ b = d := by
  have h1 := segsBy_append_sep '+' (dec a) (dec b)
  have h2 := segsBy_append_sep '+' (dec c) (dec d)
  rw [h] at h1
  rw [h1] at h2
  rw [segsBy_of_not_mem '+' _ (not_mem_dec a '+' (by decide)),
      segsBy_of_not_mem '+' _ (not_mem_dec b '+' (by decide)),
      segsBy_of_not_mem '+' _ (not_mem_dec c '+' (by decide)),
      segsBy_of_not_mem '+' _ (not_mem_dec d '+' (by decide))] at h2
  simp at h2
  exact ⟨dec_inj _ _ h2.1, dec_inj _ _ h2.2⟩

@[simp] theorem dec_inj_iff (a b : Nat) : dec a = dec b ↔ a = b :=
  ⟨dec_inj a b, fun h => by rw [h]⟩
@[simp] theorem plus_inj_iff (a b c d : Nat) :
    dec a ++ '+' :: dec b = dec c ++ '+' :: dec d ↔ a = c ∧ b = d :=
  ⟨plus_inj a b c d, fun h => by rw [h.1, h.2]⟩
@[simp] theorem colon_not_mem_dec (n : Nat) : ':' ∉ dec n := not_mem_dec n ':' (by decide)
@[simp] theorem slash_not_mem_dec (n : Nat) : '/' ∉ dec n := not_mem_dec n '/' (by decide)

/-! ### typed keys -/

/-- the field list determines the key. -/
theorem fields_inj (k1 k2 : Key) (h : fields k1 = fields k2) : k1 = k2 := by
  cases k1 <;> cases k2 <;> simp only [fields, optMap] at h <;>
    (repeat' split at h) <;>
    simp_all [sRibbit, sConfig, sBlte, sContent, sIndex, sManifest, sRoot, sEncoding, sArchive,
      sRaw, sParsed, sDecompressed]

theorem fields_ne_nil (k : Key) : fields k ≠ [] := by
  cases k <;> simp [fields]

theorem fields_colon_free (k : Key) (h : colonFree k) : ∀ f ∈ fields k, ':' ∉ f := by
  unfold colonFree at h
  cases k <;> simp only [fields, strFields, optMap] at h ⊢ <;>
    (repeat' split) <;>
    simp_all [sRibbit, sConfig, sBlte, sContent, sIndex, sManifest, sRoot, sEncoding, sArchive,
      sRaw, sParsed, sDecompressed]

/-- `as_cache_key` is injective on keys whose text fields are ':'-free — per key type and
across key types. -/
theorem cacheKey_inj (k1 k2 : Key) (h1 : colonFree k1) (h2 : colonFree k2)
    (h : cacheKey k1 = cacheKey k2) : k1 = k2 :=
  fields_inj k1 k2
    (joinSep_inj ':' _ _ (fields_ne_nil k1) (fields_ne_nil k2)
      (fields_colon_free k1 h1) (fields_colon_free k2 h2) h)

/-! ### well-formed fields -/

theorem not_mem_of_all (p : Char → Bool) (s : Str) (c : Char) (hs : s.all p = true)
    (hc : p c = false) : c ∉ s := by
  intro h
  have := List.all_eq_true.mp hs c h
  rw [hc] at this
  cases this

theorem wfName_not_mem (s : Str) (c : Char) (h : wfName s = true) (hc : isNameChar c = false) :
    c ∉ s := by
  unfold wfName at h
  simp only [Bool.and_eq_true] at h
  exact not_mem_of_all _ s c h.2 hc

theorem wfName_ne_nil (s : Str) (h : wfName s = true) : s ≠ [] := by
  unfold wfName at h
  intro e
  subst e
  simp at h

theorem isLowerHex_isNameChar (c : Char) (h : isLowerHex c = true) : isNameChar c = true := by
  unfold isLowerHex at h
  unfold isNameChar isAsciiAlnum
  simp only [Bool.or_eq_true, Bool.and_eq_true, decide_eq_true_eq] at h ⊢
  rcases h with h | h
  · exact Or.inl (Or.inl (Or.inl (Or.inl h)))
  · refine Or.inl (Or.inl (Or.inl (Or.inr ⟨h.1, ?_⟩)))
    exact Char.le_trans h.2 (by decide)

theorem wfHash_not_mem (s : Str) (c : Char) (h : wfHash s = true) (hc : isNameChar c = false) :
    c ∉ s := by
  unfold wfHash at h
  simp only [Bool.and_eq_true] at h
  intro hm
  have h1 := List.all_eq_true.mp h.2 c hm
  have := isLowerHex_isNameChar c h1
  rw [hc] at this
  cases this

theorem wfDotted_not_mem (s : Str) (c : Char) (h : wfDotted s = true) (hc : isNameChar c = false)
    (hd : c ≠ '.') : c ∉ s := by
  unfold wfDotted at h
  simp only [Bool.and_eq_true] at h
  intro hm
  have h1 := List.all_eq_true.mp h.2 c hm
  simp only [Bool.or_eq_true, beq_iff_eq] at h1
  rcases h1 with h1 | h1
  · rw [hc] at h1; cases h1
  · exact hd h1

/-- a character of a string is the separator or lies in one of its segments. -/
theorem mem_segsBy_of_mem (sep : Char) (s : Str) (c : Char) (hc : c ∈ s) (hs : c ≠ sep) :
    ∃ g ∈ segsBy sep s, c ∈ g := by
  induction s with
  | nil => cases hc
  | cons d r ih =>
    by_cases hd : d = sep
    · rw [segsBy, if_pos hd]
      rcases List.mem_cons.mp hc with rfl | hc
      · exact absurd hd hs
      · obtain ⟨g, hg, hcg⟩ := ih hc
        exact ⟨g, by simp [hg], hcg⟩
    · rw [segsBy, if_neg hd]
      cases hseg : segsBy sep r with
      | nil => exact absurd hseg (segsBy_ne_nil sep r)
      | cons s0 ss =>
        rcases List.mem_cons.mp hc with rfl | hc
        · exact ⟨c :: s0, by simp, by simp⟩
        · obtain ⟨g, hg, hcg⟩ := ih hc
          rw [hseg] at hg
          rcases List.mem_cons.mp hg with rfl | hg
          · exact ⟨d :: g, by simp, by simp [hcg]⟩
          · exact ⟨g, by simp [hg], hcg⟩

theorem wfEndpoint_not_mem (s : Str) (c : Char) (h : wfEndpoint s = true)
    (hc : isNameChar c = false) (hs : c ≠ '/') : c ∉ s := by
  intro hm
  obtain ⟨g, hg, hcg⟩ := mem_segsBy_of_mem '/' s c hm hs
  unfold wfEndpoint at h
  have := List.all_eq_true.mp h g hg
  exact wfName_not_mem g c this hc hcg

/-- is this the one key type whose last field (the endpoint) may contain '/'? -/
def isRibbit : Key → Bool
  | .ribbit _ _ _ => true
  | _ => false

/-- well-formed text fields contain no character outside `[A-Za-z0-9_-]` and '.', and '/' only
in a Ribbit endpoint. -/
theorem wfKey_strFields_not_mem (k : Key) (h : wfKey k = true) (c : Char)
    (hn : isNameChar c = false) (hd : c ≠ '.') (hr : c = '/' → isRibbit k = false) :
    ∀ f ∈ strFields k, c ∉ f := by
  cases k <;> simp only [wfKey, Bool.and_eq_true] at h <;>
    simp only [strFields, optMap]
  case ribbit e r p =>
    have hs : c ≠ '/' := fun e' => by simpa [isRibbit] using hr e'
    cases p with
    | none =>
      simp only [List.append_nil, List.mem_cons, List.not_mem_nil, or_false, forall_eq_or_imp,
        forall_eq]
      exact ⟨wfEndpoint_not_mem e c h.1.1 hn hs, wfName_not_mem r c h.1.2 hn⟩
    | some p =>
      simp only [id, List.cons_append, List.nil_append, List.mem_cons, List.not_mem_nil, or_false,
        forall_eq_or_imp, forall_eq]
      exact ⟨wfEndpoint_not_mem e c h.1.1 hn hs, wfName_not_mem r c h.1.2 hn,
        wfName_not_mem p c h.2 hn⟩
  case config t hh =>
    simp only [List.mem_cons, List.not_mem_nil, or_false, forall_eq_or_imp, forall_eq]
    exact ⟨wfName_not_mem t c h.1 hn, wfName_not_mem hh c h.2 hn⟩
  case blte e b => simpa using wfHash_not_mem e c h hn
  case content ck => simpa using wfHash_not_mem ck c h hn
  case archiveIndex n hh =>
    simp only [List.mem_cons, List.not_mem_nil, or_false, forall_eq_or_imp, forall_eq]
    exact ⟨wfDotted_not_mem n c h.1 hn hd, wfName_not_mem hh c h.2 hn⟩
  case manifest t ck v =>
    cases v with
    | none =>
      simp only [List.append_nil, List.mem_cons, List.not_mem_nil, or_false, forall_eq_or_imp,
        forall_eq]
      exact ⟨wfName_not_mem t c h.1.1 hn, wfHash_not_mem ck c h.1.2 hn⟩
    | some v =>
      simp only [id, List.cons_append, List.nil_append, List.mem_cons, List.not_mem_nil, or_false,
        forall_eq_or_imp, forall_eq]
      exact ⟨wfName_not_mem t c h.1.1 hn, wfHash_not_mem ck c h.1.2 hn,
        wfDotted_not_mem v c h.2 hn hd⟩
  case rootFile ck p v => simpa using wfHash_not_mem ck c h hn
  case encodingFile e pg p => simpa using wfHash_not_mem e c h hn
  case archiveRange id st l => simpa using wfDotted_not_mem id c h hn hd
  case blteBlock ck b d => simpa using wfHash_not_mem ck c h hn

theorem wfKey_colonFree (k : Key) (h : wfKey k = true) : colonFree k :=
  wfKey_strFields_not_mem k h ':' (by decide) (by decide) (fun e => by cases e)

/-! ### the segments of a well-formed key -/

theorem mem_joinSep (sep : Char) (fs : List Str) (c : Char) (h : c ∈ joinSep sep fs) :
    c = sep ∨ ∃ f ∈ fs, c ∈ f := by
  induction fs with
  | nil => cases h
  | cons a r ih =>
    cases r with
    | nil => exact Or.inr ⟨a, by simp, by simpa [joinSep] using h⟩
    | cons b r' =>
      simp only [joinSep, List.mem_append, List.mem_cons] at h
      rcases h with h | h | h
      · exact Or.inr ⟨a, by simp, h⟩
      · exact Or.inl h
      · rcases ih h with h | ⟨f, hf, hc⟩
        · exact Or.inl h
        · exact Or.inr ⟨f, by simp [hf], hc⟩

theorem joinSep_append_singleton (sep : Char) (fs : List Str) (e : Str) (h : fs ≠ []) :
    joinSep sep (fs ++ [e]) = joinSep sep fs ++ sep :: e := by
  induction fs with
  | nil => exact absurd rfl h
  | cons a r ih =>
    cases r with
    | nil => simp [joinSep]
    | cons b r' =>
      have := ih (by simp)
      simp only [List.cons_append, joinSep] at this ⊢
      rw [this]
      simp

theorem fields_slash_free (k : Key) (h : ∀ f ∈ strFields k, '/' ∉ f) :
    ∀ f ∈ fields k, '/' ∉ f := by
  cases k <;> simp only [fields, strFields, optMap] at h ⊢ <;>
    (repeat' split) <;>
    simp_all [sRibbit, sConfig, sBlte, sContent, sIndex, sManifest, sRoot, sEncoding, sArchive,
      sRaw, sParsed, sDecompressed]

/-- a key text starts with its type tag: a letter. -/
theorem cacheKey_head (k : Key) : ∃ c r, cacheKey k = c :: r ∧ c ≠ '.' ∧ c ≠ '/' := by
  cases k <;> simp [cacheKey, fields, joinSep, sRibbit, sConfig, sBlte, sContent, sIndex,
    sManifest, sRoot, sEncoding, sArchive]

/-- canonical segment: kept by `components()` and not "..". -/
def canonSeg (g : Str) : Prop := g ≠ [] ∧ g ≠ dot ∧ g ≠ dotdot

theorem canonSeg_of_head (c : Char) (r : Str) (h : c ≠ '.') : canonSeg (c :: r) := by
  refine ⟨by simp, ?_, ?_⟩
  · intro e; unfold dot at e; injection e with e1 _; exact h e1
  · intro e; unfold dotdot at e; injection e with e1 _; exact h e1

theorem canonSeg_of_wfName (g : Str) (h : wfName g = true) : canonSeg g := by
  have hne := wfName_ne_nil g h
  cases g with
  | nil => exact absurd rfl hne
  | cons c r =>
    apply canonSeg_of_head
    intro e
    subst e
    exact wfName_not_mem _ '.' h (by decide) (by simp)

/-- every '/'-segment of a well-formed key's text is a canonical path component. -/
theorem wfKey_segs_canon (k : Key) (h : wfKey k = true) : ∀ g ∈ segs (cacheKey k), canonSeg g := by
  obtain ⟨c0, r0, hhead, hc0, _⟩ := cacheKey_head k
  by_cases hr : isRibbit k = true
  · -- "ribbit:region[:product]:" ++ endpoint
    cases k <;> (first | (simp [isRibbit] at hr; done) | skip)
    case ribbit e r p =>
      simp only [wfKey, Bool.and_eq_true] at h
      have hsplit : cacheKey (.ribbit e r p) =
          (joinSep ':' ([sRibbit, r] ++ optMap id p) ++ [':']) ++ e := by
        unfold cacheKey fields
        rw [joinSep_append_singleton ':' _ e (by simp)]
        simp
      have hpre : '/' ∉ joinSep ':' ([sRibbit, r] ++ optMap id p) ++ [':'] := by
        intro hm
        simp only [List.mem_append, List.mem_cons, List.not_mem_nil, or_false] at hm
        rcases hm with hm | hm
        · rcases mem_joinSep ':' _ '/' hm with hm | ⟨f, hf, hcf⟩
          · cases hm
          · have hnr := wfName_not_mem r '/' h.1.2 (by decide)
            cases p with
            | none =>
              simp only [optMap, List.append_nil, List.mem_cons, List.not_mem_nil, or_false] at hf
              rcases hf with rfl | rfl
              · revert hcf; decide
              · exact hnr hcf
            | some p =>
              have hnp := wfName_not_mem p '/' h.2 (by decide)
              simp only [optMap, id, List.cons_append, List.nil_append, List.mem_cons,
                List.not_mem_nil, or_false] at hf
              rcases hf with rfl | rfl | rfl
              · revert hcf; decide
              · exact hnr hcf
              · exact hnp hcf
        · cases hm
      intro g hg
      rw [hsplit] at hg hhead
      unfold segs at hg
      rw [segsBy_append_of_not_mem '/' _ e hpre] at hg
      have hwe : ∀ x ∈ segsBy '/' e, wfName x = true := by
        have := h.1.1
        unfold wfEndpoint segs at this
        exact List.all_eq_true.mp this
      cases hs : segsBy '/' e with
      | nil => exact absurd hs (segsBy_ne_nil '/' e)
      | cons s ss =>
        rw [hs] at hg hwe
        simp only at hg
        rcases List.mem_cons.mp hg with rfl | hg
        · -- first segment starts with the tag
          cases hpe : joinSep ':' ([sRibbit, r] ++ optMap id p) ++ [':'] with
          | nil => simp at hpe
          | cons c1 r1 =>
            rw [hpe] at hhead
            simp only [List.cons_append, List.cons.injEq] at hhead
            rw [List.cons_append]
            exact canonSeg_of_head c1 _ (hhead.1 ▸ hc0)
        · exact canonSeg_of_wfName g (hwe g (by simp [hg]))
  · -- no '/' at all: a single segment starting with the tag
    have hr' : isRibbit k = false := by simpa using hr
    have hsf : '/' ∉ cacheKey k := by
      intro hm
      unfold cacheKey at hm
      rcases mem_joinSep ':' _ '/' hm with hm | ⟨f, hf, hcf⟩
      · cases hm
      · exact fields_slash_free k
          (wfKey_strFields_not_mem k h '/' (by decide) (by decide) (fun _ => hr')) f hf hcf
    intro g hg
    unfold segs at hg
    rw [segsBy_of_not_mem '/' _ hsf] at hg
    simp only [List.mem_cons, List.not_mem_nil, or_false] at hg
    subst hg
    rw [hhead]
    exact canonSeg_of_head c0 r0 hc0

/-! ### canonical key texts: confinement and injectivity of the path -/

theorem no_dotdot_of_canon (s : Str) (h : ∀ g ∈ segs s, canonSeg g) : dotdot ∉ segs s :=
  fun hm => (h dotdot hm).2.2 rfl

theorem not_abs_of_canon (s : Str) (h : ∀ g ∈ segs s, canonSeg g) : isAbs s = false := by
  cases hb : isAbs s with
  | false => rfl
  | true => exact absurd rfl (h [] (nil_mem_segs_of_isAbs s hb)).1

theorem comps_of_canon (s : Str) (h : ∀ g ∈ segs s, canonSeg g) : comps s = segs s :=
  comps_eq_segs s fun g hg => ⟨(h g hg).1, (h g hg).2.1⟩

/-- two canonical key texts joined below the same root, under sub-directory lists of the same
length, give the same (normalised) file only if they are the same text. -/
theorem path_inj_of_canon (root sub1 sub2 : APath) (s1 s2 : Str)
    (hr : dotdot ∉ root) (hs1 : dotdot ∉ sub1) (hs2 : dotdot ∉ sub2)
    (hlen : sub1.length = sub2.length)
    (h1 : ∀ g ∈ segs s1, canonSeg g) (h2 : ∀ g ∈ segs s2, canonSeg g)
    (h : normalize (join (root ++ sub1) s1) = normalize (join (root ++ sub2) s2)) : s1 = s2 := by
  unfold join at h
  rw [not_abs_of_canon s1 h1, not_abs_of_canon s2 h2, comps_of_canon s1 h1,
    comps_of_canon s2 h2] at h
  simp only [Bool.false_eq_true, if_false] at h
  rw [normalize_of_no_dotdot, normalize_of_no_dotdot] at h
  · rw [List.append_assoc, List.append_assoc] at h
    have h' := List.append_cancel_left h
    have := List.append_inj h' hlen
    exact segsBy_inj '/' s1 s2 this.2
  · simp only [List.mem_append, not_or]
    exact ⟨⟨hr, hs2⟩, no_dotdot_of_canon s2 h2⟩
  · simp only [List.mem_append, not_or]
    exact ⟨⟨hr, hs1⟩, no_dotdot_of_canon s1 h1⟩

/-! ### validate_endpoint -/

theorem segs_ribbitCacheKey (e : Str) :
    segs (ribbitCacheKey e) = ['a', 'p', 'i'] :: ['r', 'i', 'b', 'b', 'i', 't'] :: segs e := by
  have : ribbitCacheKey e = ['a', 'p', 'i'] ++ '/' :: (['r', 'i', 'b', 'b', 'i', 't'] ++ '/' :: e) := rfl
  unfold segs
  rw [this, segsBy_append_sep, segsBy_append_sep]
  rfl

theorem validate_ok (alnum : Char → Bool) (e : Str) (h : validateEndpoint alnum e = .ok) :
    isAbs e = false ∧ (∀ g ∈ segs e, g ≠ dot ∧ g ≠ dotdot) ∧ e ≠ [] ∧ utf8Len e ≤ 1000 ∧
      ∀ c ∈ e, endpointCharOk alnum c = true := by
  unfold validateEndpoint at h
  split at h
  · cases h
  rename_i hne
  split at h
  · cases h
  rename_i hlen
  split at h
  · cases h
  rename_i hch
  split at h
  · cases h
  rename_i hrel
  simp only [Bool.or_eq_true, not_or, Bool.not_eq_true] at hrel
  refine ⟨hrel.1, ?_, hne, by omega, ?_⟩
  · intro g hg
    have := hrel.2
    rw [List.any_eq_false] at this
    have := this g hg
    simpa using this
  · simp only [Bool.not_eq_true', Bool.not_eq_false] at hch
    exact fun c hc => List.all_eq_true.mp hch c hc

/-! ### CDN keys -/

theorem hexDigit_facts : ∀ n, n < 16 →
    (hexDigit n).utf8Size = 1 ∧ hexDigit n ≠ '.' ∧ hexDigit n ≠ '/' := by decide

theorem hexEncode_chars (l : List Nat) :
    ∀ c ∈ hexEncode l, c.utf8Size = 1 ∧ c ≠ '.' ∧ c ≠ '/' := by
  induction l with
  | nil => simp [hexEncode]
  | cons b r ih =>
    intro c hc
    simp only [hexEncode, List.mem_cons] at hc
    rcases hc with rfl | rfl | hc
    · exact hexDigit_facts _ (Nat.mod_lt _ (by decide))
    · exact hexDigit_facts _ (Nat.mod_lt _ (by decide))
    · exact ih c hc

theorem hexEncode_length (l : List Nat) : (hexEncode l).length = 2 * l.length := by
  induction l with
  | nil => rfl
  | cons b r ih => simp [hexEncode, ih]; omega

theorem hexDigit_injective : ∀ a, a < 16 → ∀ b, b < 16 → hexDigit a = hexDigit b → a = b := by
  decide

/-- `hex::encode` is injective on byte strings (two digits per byte, zero-padded). -/
theorem hexEncode_injective : ∀ (l1 l2 : List Nat), (∀ b ∈ l1, b < 256) → (∀ b ∈ l2, b < 256) →
    hexEncode l1 = hexEncode l2 → l1 = l2
  | [], [], _, _, _ => rfl
  | [], _ :: _, _, _, h => by simp [hexEncode] at h
  | _ :: _, [], _, _, h => by simp [hexEncode] at h
  | a :: r1, b :: r2, h1, h2, h => by
    simp only [hexEncode, List.cons.injEq] at h
    obtain ⟨hh, hl, hr⟩ := h
    have ha := h1 a (by simp)
    have hb := h2 b (by simp)
    have e1 := hexDigit_injective _ (Nat.mod_lt _ (by decide)) _ (Nat.mod_lt _ (by decide)) hh
    have e2 := hexDigit_injective _ (Nat.mod_lt _ (by decide)) _ (Nat.mod_lt _ (by decide)) hl
    have : a = b := by omega
    subst this
    rw [hexEncode_injective r1 r2 (fun x hx => h1 x (by simp [hx])) (fun x hx => h2 x (by simp [hx])) hr]

/-- the eight big-endian bytes determine a `u64`. -/
theorem be64_injective (g1 g2 : Nat) (h1 : g1 < 2 ^ 64) (h2 : g2 < 2 ^ 64) (h : be64 g1 = be64 g2) :
    g1 = g2 := by
  simp [be64, List.range, List.range.loop] at h
  omega

theorem be64_bytes (g : Nat) : ∀ b ∈ be64 g, b < 256 := by
  intro b hb
  simp only [be64, List.mem_map] at hb
  obtain ⟨i, _, rfl⟩ := hb
  exact Nat.mod_lt _ (by decide)

/-- on a string of single-byte characters that is long enough, the byte split succeeds and
returns `take`/`drop`. -/
theorem splitBytes_ascii (n : Nat) (s : Str) (h1 : ∀ c ∈ s, c.utf8Size = 1) (hl : n ≤ s.length) :
    splitBytes n s = some (s.take n, s.drop n) := by
  induction n generalizing s with
  | zero => simp [splitBytes]
  | succ n ih =>
    cases s with
    | nil => simp at hl
    | cons c r =>
      have hc : c.utf8Size = 1 := h1 c (by simp)
      rw [splitBytes, hc]
      simp only [Nat.le_add_left, if_true, Nat.add_sub_cancel]
      rw [ih r (fun d hd => h1 d (by simp [hd])) (by simpa using hl)]
      simp

theorem slice24_ascii (s : Str) (h1 : ∀ c ∈ s, c.utf8Size = 1) (hl : 4 ≤ s.length) :
    slice24 s = some (s.take 2, (s.drop 2).take 2) := by
  unfold slice24
  rw [splitBytes_ascii 2 s h1 (by omega)]
  simp only
  rw [splitBytes_ascii 2 (s.drop 2) (fun c hc => h1 c (List.mem_of_mem_drop hc))
    (by simp; omega)]

theorem isAsciiHexDigit_facts (c : Char) (h : isAsciiHexDigit c = true) :
    c.utf8Size = 1 ∧ c ≠ '.' ∧ c ≠ '/' := by
  have hle : c ≤ 'f' := by
    unfold isAsciiHexDigit at h
    simp only [Bool.or_eq_true, Bool.and_eq_true, decide_eq_true_eq] at h
    rcases h with (h | h) | h
    · exact Char.le_trans h.2 (by decide)
    · exact h.2
    · exact Char.le_trans h.2 (by decide)
  have hv : c.val.toNat ≤ 102 := by
    have : c.val ≤ 'f'.val := hle
    exact UInt32.le_iff_toNat_le.mp this
  refine ⟨?_, ?_, ?_⟩
  · unfold Char.utf8Size
    have : c.val ≤ 127 := UInt32.le_iff_toNat_le.mpr (by simpa using Nat.le_trans hv (by decide))
    simp [this]
  · intro e; subst e; revert h; decide
  · intro e; subst e; revert h; decide

theorem utf8Len_ascii (s : Str) (h1 : ∀ c ∈ s, c.utf8Size = 1) : utf8Len s = s.length := by
  induction s with
  | nil => rfl
  | cons c r ih =>
    have := ih (fun d hd => h1 d (by simp [hd]))
    unfold utf8Len at this ⊢
    simp [h1 c (by simp), this]
    omega

/-- a single path component made of characters other than '.' and '/'. -/
theorem single_seg (g : Str) (h : ∀ c ∈ g, c ≠ '.' ∧ c ≠ '/') (hne : g ≠ []) :
    segs g = [g] ∧ canonSeg g := by
  refine ⟨segsBy_of_not_mem '/' g (fun hm => (h '/' hm).2 rfl), ?_⟩
  cases g with
  | nil => exact absurd rfl hne
  | cons c r => exact canonSeg_of_head c r (h c (by simp)).1

/-! ### download_range -/

theorem rangeEnd_exact (offset length : Nat) (h1 : 1 ≤ length) (h2 : offset + length ≤ 2 ^ 64) :
    rangeEnd offset length = offset + length - 1 ∧ offset ≤ rangeEnd offset length := by
  unfold rangeEnd
  have e : (2 : Nat) ^ 64 = 18446744073709551616 := by decide
  rw [e] at h2 ⊢
  omega

/-! ### CDN cache keys: shape behind the checks (for the injectivity theorems of Props/C20) -/

/-- the text after the last '/' and the text in front of it are determined by the whole. -/
theorem last_seg_inj (p1 p2 l1 l2 : Str) (h1 : '/' ∉ l1) (h2 : '/' ∉ l2)
    (h : p1 ++ '/' :: l1 = p2 ++ '/' :: l2) : p1 = p2 ∧ l1 = l2 := by
  have hs := congrArg (segsBy '/') h
  rw [segsBy_append_sep, segsBy_append_sep, segsBy_of_not_mem '/' l1 h1,
    segsBy_of_not_mem '/' l2 h2] at hs
  have := List.append_inj' hs rfl
  exact ⟨segsBy_inj '/' _ _ this.1, by simpa using this.2⟩

/-- what `download` stores under: after unfolding, for a key of at least two bytes. -/
theorem downloadCacheKey_eq (basePath : Str) (ct : ContentType) (key : List Nat) (s : Str)
    (h : downloadCacheKey basePath ct key = .ok s) :
    s = (((sCdn ++ '/' :: trimSlashes basePath) ++ '/' :: ct.text) ++ '/' :: (hexEncode key).take 2 ++
      '/' :: ((hexEncode key).drop 2).take 2) ++ '/' :: hexEncode key := by
  unfold downloadCacheKey at h
  split at h
  · cases h
  rename_i hlen
  have hs : slice24 (hexEncode key) = some ((hexEncode key).take 2, ((hexEncode key).drop 2).take 2) :=
    slice24_ascii _ (fun c hc => (hexEncode_chars key c hc).1) (by rw [hexEncode_length]; omega)
  simp only [cdnTail, hs, Option.map_some, joinSep] at h
  injection h with h
  subst h
  simp [List.append_assoc]

theorem archiveIndexCacheKey_eq (basePath ak s : Str)
    (h : archiveIndexCacheKey basePath ak = .ok s) :
    ('/' ∉ ak) ∧ s = (((sCdn ++ '/' :: trimSlashes basePath) ++ '/' :: sData) ++ '/' :: ak.take 2 ++
      '/' :: (ak.drop 2).take 2) ++ '/' :: (ak ++ sIndexExt) := by
  unfold archiveIndexCacheKey at h
  by_cases hok : archiveKeyOk ak = true
  case neg => simp [hok] at h
  simp only [hok, Bool.not_true, Bool.false_eq_true, if_false] at h
  have hok' := hok
  unfold archiveKeyOk at hok'
  simp only [Bool.and_eq_true, decide_eq_true_eq] at hok'
  have hfacts : ∀ c ∈ ak, c.utf8Size = 1 ∧ c ≠ '.' ∧ c ≠ '/' := fun c hc =>
    isAsciiHexDigit_facts c (List.all_eq_true.mp hok'.2 c hc)
  have hlen : 4 ≤ ak.length := by
    rw [← utf8Len_ascii ak (fun c hc => (hfacts c hc).1)]; exact hok'.1
  have hs := slice24_ascii ak (fun c hc => (hfacts c hc).1) hlen
  simp only [cdnTail, hs, Option.map_some, joinSep] at h
  injection h with h
  subst h
  exact ⟨fun hm => (hfacts '/' hm).2.2 rfl, by simp [List.append_assoc]⟩

end Cascette.Proofs.CacheKeys
