/-
Proofs/Resolver — the resolver chain (FileDataID / name hash → content key → encoding key) over a
built-then-parsed root manifest and a built-then-parsed encoding table equals the composition of the
inserted maps.
-/
import Cascette.Proofs.RootFile
import Cascette.Proofs.Encoding
import Cascette.Model.Resolver
namespace Cascette.Proofs.Resolver
open Cascette.Model Cascette.Model.Paged Cascette.Model.Encoding Cascette.Model.Resolver
open Cascette.Proofs.Paged Cascette.Proofs.Encoding Cascette.Proofs.RootFile
open Cascette.Spec.Lookup

theorem find?_unique_map {α β : Type} (q : α → Bool) (g : α → β) (l : List α) (r : α) (hr : r ∈ l) (hq : q r = true)
    (hu : ∀ r' ∈ l, q r' = true → g r' = g r) : (l.find? q).map g = some (g r) := by
  cases h : l.find? q with
  | none =>
    have := List.find?_eq_none.1 h r hr
    rw [hq] at this; exact absurd rfl this
  | some x =>
    simp only [Option.map_some, Option.some.injEq]
    exact hu x (List.mem_of_find?_eq_some h) (List.find?_some h)

theorem find?_congr_mem {α : Type} (p q : α → Bool) : ∀ (l : List α), (∀ x ∈ l, p x = q x) →
    l.find? p = l.find? q := by
  intro l
  induction l with
  | nil => intro _; rfl
  | cons a t ih =>
    intro h
    rw [List.find?_cons, List.find?_cons, h a (List.mem_cons_self ..),
      ih (fun x hx => h x (List.mem_cons_of_mem _ hx))]

theorem find?_absent {α : Type} (q : α → Bool) (l : List α) (h : ∀ r ∈ l, q r = false) : l.find? q = none :=
  List.find?_eq_none.2 (fun r hr => by rw [h r hr]; decide)

/-- the records the resolver sees are exactly the inserted ones -/
theorem mem_all_recs (blocks : List (Nat × Nat × List RootFile.Rec)) (r : RootFile.Rec) :
    r ∈ ((builtBlocks blocks).map fun b => mkBlock b.1 b.2.1 b.2.2).flatMap (·.recs) ↔
      ∃ b ∈ blocks, r ∈ b.2.2 := by
  simp only [List.mem_flatMap]
  constructor
  · rintro ⟨b, hb, hr⟩
    obtain ⟨b0, hb0, rfl⟩ := (mem_built blocks b).1 hb
    exact ⟨b0, hb0, (mem_sortRecs _ r).1 hr⟩
  · rintro ⟨b0, hb0, hr⟩
    exact ⟨_, (mem_built blocks _).2 ⟨b0, hb0, rfl⟩, (mem_sortRecs _ r).2 hr⟩

/-- the resolver's content-key cache = the inserted CKey map (first encoding key) -/
theorem resCkey_eq (b : Builder) (f : File) (hb : b.buildParse = some f)
    (hd : Distinct CEntry.ckey b.centries)
    (hk : ∀ e ∈ b.centries, 1 ≤ e.ekeys.length ∧ e.ekeys.length ≤ 255) (ck : Key) :
    resCkey f ck = (lookup CEntry.ckey b.centries ck).bind (·.ekeys.head?) := by
  have hpad : ∀ e ∈ b.centries, e.isPad = false := by
    intro e he
    have := hk e he
    simp only [CEntry.isPad, beq_eq_false_iff_ne, ne_eq]
    omega
  obtain ⟨hc, _, _⟩ := buildParse_some b f hb
  have hflat : f.ctable.flatMap (·.2) = sortBy CEntry.ckey b.centries := by
    rw [hc, parse_pages_id, mkTable_flat, paginate_flatten, List.nil_append]
    intro e he
    rw [paginate_flatten] at he
    simp only [List.nil_append] at he
    exact hpad e ((sortBy_perm _ _).mem_iff.1 he)
  unfold resCkey
  rw [hflat]
  have hperm : (sortBy CEntry.ckey b.centries).reverse.Perm b.centries :=
    (List.reverse_perm _).trans (sortBy_perm _ _)
  have hq : (sortBy CEntry.ckey b.centries).reverse.find? (fun e => e.ckey == ck && !e.ekeys.isEmpty) =
      (sortBy CEntry.ckey b.centries).reverse.find? (fun e => e.ckey == ck) := by
    apply find?_congr_mem
    intro e he
    have h1 := (hk e (hperm.mem_iff.1 he)).1
    have : e.ekeys.isEmpty = false := by
      cases h : e.ekeys with
      | nil => rw [h] at h1; simp at h1
      | cons _ _ => rfl
    simp [this]
  rw [hq]
  have hd' : Distinct CEntry.ckey (sortBy CEntry.ckey b.centries).reverse :=
    (List.Perm.pairwise_iff (fun {x y} (h : CEntry.ckey x ≠ CEntry.ckey y) => Ne.symm h) hperm).2 hd
  rw [scan_perm CEntry.ckey hperm hd' ck]
  rfl

end Cascette.Proofs.Resolver
