/-
Proofs/CompactionU64 — the `u64` layer of `Model/Compaction.lean` (wrapping additions behind the
`checked_add` guard of `validate_spans`) agrees with the `Nat` layer on every input: behind the
guard no addition the code performs ever wraps. Core Lean only.
-/
import Cascette.Proofs.Compaction
namespace Cascette.Proofs.CompactionU64
open Cascette Cascette.Spec.Compaction Cascette.Model.Compaction Cascette.Proofs.Compaction

/-- no span's end leaves `u64` (what the `checked_add` guard tests). -/
def NoOverflow (l : List Span) : Prop := ∀ s ∈ l, s.off + s.len < 2 ^ 64

theorem addW_eq {a b : Nat} (h : a + b < 2 ^ 64) : addW a b = a + b := Nat.mod_eq_of_lt h

theorem any_overflows_false_iff (l : List Span) :
    l.any Span.overflows = false ↔ NoOverflow l := by
  unfold NoOverflow
  rw [List.any_eq_false]
  constructor
  · intro h s hs
    have := h s hs
    simp only [Span.overflows, decide_eq_true_eq] at this
    omega
  · intro h s hs
    have := h s hs
    simp only [Span.overflows, decide_eq_true_eq]
    omega

theorem NoOverflow.perm {a b : List Span} (hp : a.Perm b) (h : NoOverflow b) : NoOverflow a :=
  fun s hs => h s (hp.subset hs)

theorem adjacentOkW_eq (l : List Span) (h : NoOverflow l) : adjacentOkW l = adjacentOk l := by
  induction l with
  | nil => rfl
  | cons a t ih =>
    cases t with
    | nil => rfl
    | cons b r =>
      simp only [adjacentOkW, adjacentOk]
      rw [ih (fun s hs => h s (List.mem_cons_of_mem _ hs))]
      have := h a List.mem_cons_self
      simp only [Span.stopW, Span.stop, addW_eq this]
      rfl

/-- behind the guard, `validate_spans` as compiled is the `Nat` model. -/
theorem validateSpansU64_eq (l : List Span) (h : NoOverflow l) :
    validateSpansU64 l = validateSpans l := by
  unfold validateSpansU64 validateSpans
  rw [(any_overflows_false_iff l).2 h]
  simp only [Bool.false_eq_true, if_false]
  split
  · rfl
  · rw [adjacentOkW_eq _ (NoOverflow.perm (sortSpans_perm l) h)]

/-- the guard: one overflowing span and the call fails with the slice untouched. -/
theorem validateSpansU64_overflow (l : List Span) (h : ¬ NoOverflow l) :
    validateSpansU64 l = (l, false) := by
  unfold validateSpansU64
  have : l.any Span.overflows = true := by
    cases hh : l.any Span.overflows with
    | true => rfl
    | false => exact absurd ((any_overflows_false_iff l).1 hh) h
  rw [this]
  rfl

theorem copyLoopW_eq (buf : Nat) (hbuf : 0 < buf) (f : Bytes) (src dst rem moved : Nat)
    (h : src + rem < 2 ^ 64) (hd : dst ≤ src) :
    copyLoopW buf hbuf f src dst rem moved = copyLoop buf hbuf f src dst rem moved := by
  induction rem using Nat.strongRecOn generalizing f src dst moved with
  | _ rem ih =>
    rw [copyLoopW, copyLoop]
    by_cases h0 : rem = 0
    · rw [dif_pos h0, dif_pos h0]
    · rw [dif_neg h0, dif_neg h0]
      simp only
      cases readExact f src (min rem buf) with
      | none => rfl
      | some d =>
        simp only
        rw [addW_eq (by omega : src + min rem buf < 2 ^ 64),
          addW_eq (by omega : dst + min rem buf < 2 ^ 64)]
        exact ih (rem - min rem buf) (by omega) _ _ _ _ (by omega) (by omega)

theorem compactInPlaceW_eq (m : Mover) (f : Bytes) (src dst len : Nat)
    (h : src + len < 2 ^ 64) (hd : dst ≤ src) :
    compactInPlaceW m f src dst len = compactInPlace m f src dst len := by
  unfold compactInPlaceW compactInPlace
  rw [copyLoopW_eq _ _ _ _ _ _ _ h hd]

/-- the span loop: on a chain (each span ends before the next starts) of non-overflowing spans,
started at a write position not beyond the first span, `write_pos` never wraps and every
`compact_in_place` call copies forward inside `u64`. -/
theorem compactLoopW_eq (l : List Span) : ∀ (m : Mover) (f : Bytes) (w : Nat),
    l.Pairwise (fun a b => a.stop ≤ b.off) → NoOverflow l → (∀ s ∈ l, w ≤ s.off) →
    compactLoopW m f l w = compactLoop m f l w := by
  induction l with
  | nil => intro m f w _ _ _; rfl
  | cons s r ih =>
    intro m f w hp hn hw
    rw [List.pairwise_cons] at hp
    have hs := hn s List.mem_cons_self
    have hws := hw s List.mem_cons_self
    have hnr : NoOverflow r := fun t ht => hn t (List.mem_cons_of_mem _ ht)
    have hwr : ∀ t ∈ r, w + s.len ≤ t.off := by
      intro t ht
      have := hp.1 t ht
      unfold Span.stop at this
      omega
    rw [compactLoopW, compactLoop, addW_eq (by omega : w + s.len < 2 ^ 64)]
    split
    · rw [compactInPlaceW_eq m f s.off w s.len hs hws]
      rcases hc : compactInPlace m f s.off w s.len with ⟨f', m', ok⟩
      cases ok
      · rfl
      · exact ih m' f' (w + s.len) hp.2 hnr hwr
    · exact ih m f (w + s.len) hp.2 hnr hwr

/-- behind the guard, `extract_compact_segment` as compiled is the `Nat` model: none of its
`u64` additions wraps (release) or panics (debug, overflow checks). -/
theorem extractCompactU64_eq (m : Mover) (f : Bytes) (spans : List Span) (h : NoOverflow spans) :
    extractCompactU64 m f spans = extractCompact m f spans := by
  unfold extractCompactU64 extractCompact
  rw [validateSpansU64_eq spans h]
  have hperm := validate_perm spans
  have hchain := validate_chain spans
  generalize validateSpans spans = vs at hperm hchain
  obtain ⟨sorted, ok⟩ := vs
  cases ok
  · rfl
  · simp only at hperm hchain ⊢
    rw [compactLoopW_eq sorted m f 0 (hchain trivial) (NoOverflow.perm hperm h)
      (fun _ _ => Nat.zero_le _)]

theorem extractCompactU64_overflow (m : Mover) (f : Bytes) (spans : List Span)
    (h : ¬ NoOverflow spans) : extractCompactU64 m f spans = ⟨f, none⟩ := by
  unfold extractCompactU64
  rw [validateSpansU64_overflow spans h]

end Cascette.Proofs.CompactionU64
