/-
Proofs/Lsm — lemmas about Model/Lsm: the bucket abstraction `absB` (DESIGN.md App. A.1), search,
append, dedupe, merge walk, flush, iteration, entry-level save/load.
-/
import Cascette.Model.Lsm
namespace Cascette.Proofs.Lsm
open Cascette.Spec.IndexMap (Entry Op Out bucketOf stDelete nBuckets keyByte)
open Cascette.Model.Lsm

/-- strictly ascending keys (sorted and distinct). -/
def Sorted (l : List Entry) : Prop := l.Pairwise (fun a b => a.key < b.key)

/-- the entry with key `k` in a run. -/
def findE (k : Nat) (l : List Entry) : Option Entry := l.find? (fun e => e.key == k)

/-- the newest log entry for key `k`. -/
def findU (k : Nat) (log : List Upd) : Option Upd := log.reverse.find? (fun u => u.key == k)

/-- what a log entry means for its key. -/
def updVal (u : Upd) : Option Entry := if u.status = stDelete then none else some u.toEntry

/-- A.1: the map a bucket denotes. -/
def absB (b : Bucket) (k : Nat) : Option Entry :=
  match findU k b.log with
  | some u => updVal u
  | none => findE k b.sorted

/-! ### halving search -/

theorem findE_none_of_lt {k : Nat} {l : List Entry} (h : ∀ e ∈ l, e.key < k) : findE k l = none := by
  unfold findE
  rw [List.find?_eq_none]
  intro e he
  have := h e he
  simp only [beq_iff_eq]
  omega

theorem findE_none_of_gt {k : Nat} {l : List Entry} (h : ∀ e ∈ l, k < e.key) : findE k l = none := by
  unfold findE
  rw [List.find?_eq_none]
  intro e he
  have := h e he
  simp only [beq_iff_eq]
  omega

theorem bsearch_eq_find_aux (k : Nat) : ∀ (n : Nat) (l : List Entry), l.length = n → Sorted l →
    bsearch k l = findE k l := by
  intro n
  induction n using Nat.strongRecOn with
  | _ n ih =>
    intro l hlen hs
    rw [bsearch]
    split
    · rename_i hd
      have hl : l = [] := by
        have h1 : (l.drop (l.length / 2)).length = 0 := by rw [hd]; rfl
        simp only [List.length_drop] at h1
        have : l.length = 0 := by omega
        exact List.eq_nil_of_length_eq_zero this
      subst hl
      rfl
    · rename_i e rest hd
      have hsplit : l = l.take (l.length / 2) ++ e :: rest := by
        rw [← hd, List.take_append_drop]
      have hs' : Sorted (l.take (l.length / 2) ++ e :: rest) := by rw [← hsplit]; exact hs
      unfold Sorted at hs'
      rw [List.pairwise_append] at hs'
      obtain ⟨hst, hsr, hcross⟩ := hs'
      rw [List.pairwise_cons] at hsr
      obtain ⟨her, hsr'⟩ := hsr
      have hfind : findE k l = (findE k (l.take (l.length / 2))).or (findE k (e :: rest)) := by
        conv => lhs; rw [hsplit]
        unfold findE
        rw [List.find?_append]
      have hlen1 : (l.drop (l.length / 2)).length = (e :: rest).length := by rw [hd]
      simp only [List.length_drop, List.length_cons] at hlen1
      by_cases h1 : e.key = k
      · rw [if_pos h1, hfind]
        have : findE k (l.take (l.length / 2)) = none := by
          apply findE_none_of_lt
          intro x hx
          have := hcross x hx e (List.mem_cons_self)
          omega
        rw [this]
        simp [findE, h1]
      · rw [if_neg h1]
        by_cases h2 : e.key < k
        · rw [if_pos h2, hfind]
          have : findE k (l.take (l.length / 2)) = none := by
            apply findE_none_of_lt
            intro x hx
            have := hcross x hx e (List.mem_cons_self)
            omega
          rw [this]
          have h3 : findE k (e :: rest) = findE k rest := by
            unfold findE
            rw [List.find?_cons_of_neg]
            simp [h1]
          rw [h3]
          simp only [Option.none_or]
          exact ih rest.length (by omega) rest rfl hsr'
        · rw [if_neg h2, hfind]
          have : findE k (e :: rest) = none := by
            apply findE_none_of_gt
            intro x hx
            rcases List.mem_cons.mp hx with rfl | hx
            · omega
            · have := her x hx
              omega
          rw [this]
          simp only [Option.or_none]
          exact ih (l.take (l.length / 2)).length (by simp only [List.length_take]; omega) _ rfl hst

/-- on a run sorted by distinct keys the halving search returns the entry with that key. -/
theorem bsearch_eq_find (k : Nat) (l : List Entry) (hs : Sorted l) : bsearch k l = findE k l :=
  bsearch_eq_find_aux k l.length l rfl hs

/-! ### newest-first search of the paged log -/

theorem searchPages_eq (k : Nat) (ps : List (List Upd)) :
    searchPages k ps = (ps.map List.reverse).flatten.find? (fun u => u.key == k) := by
  induction ps with
  | nil => rfl
  | cons p ps ih =>
    simp only [searchPages, searchPage, List.map_cons, List.flatten_cons, List.find?_append]
    cases h : p.reverse.find? (fun u => u.key == k) with
    | some u => simp
    | none => simp [ih]

theorem searchLog_eq (pages : List (List Upd)) (k : Nat) :
    searchLog pages k = findU k pages.flatten := by
  unfold searchLog findU
  rw [searchPages_eq, List.reverse_flatten, List.map_reverse]

theorem searchBoth_eq_absB (b : Bucket) (k : Nat) (hs : Sorted b.sorted) :
    searchBoth b k = absB b k := by
  unfold searchBoth absB
  rw [searchLog_eq, bsearch_eq_find k _ hs]
  rfl

/-! ### `UpdateSection::append` -/

theorem appendPages_ok {cfg : Cfg} {pages pg : List (List Upd)} {u : Upd}
    (h : appendPages cfg pages u = (pg, true)) : pg.flatten = pages.flatten ++ [u] := by
  unfold appendPages at h
  split at h
  · rename_i last hl
    obtain ⟨ys, rfl⟩ := List.getLast?_eq_some_iff.mp hl
    split at h
    · simp only [Prod.mk.injEq, and_true] at h
      subst h
      simp
    · split at h
      · simp at h
      · simp only [Prod.mk.injEq, and_true] at h
        subst h
        simp
  · split at h
    · simp at h
    · simp only [Prod.mk.injEq, and_true] at h
      subst h
      simp

theorem appendPages_fail {cfg : Cfg} {pages pg : List (List Upd)} {u : Upd}
    (h : appendPages cfg pages u = (pg, false)) : pg = pages := by
  unfold appendPages at h
  split at h
  · split at h
    · simp at h
    · split at h
      · simp only [Prod.mk.injEq, and_true] at h; exact h.symm
      · simp at h
  · split at h
    · simp only [Prod.mk.injEq, and_true] at h; exact h.symm
    · simp at h

theorem appendPages_nil (cfg : Cfg) (u : Upd) (h : 1 ≤ cfg.capPages) :
    appendPages cfg [] u = ([[u]], true) := by
  unfold appendPages
  simp only [List.getLast?_nil, List.length_nil, ge_iff_le, Nat.le_zero_eq, List.nil_append]
  rw [if_neg (by omega)]

/-- the update section refuses an entry exactly when every allowed page exists and the last
one is full. -/
theorem appendPages_full_iff (cfg : Cfg) (pages : List (List Upd)) (u : Upd) :
    (appendPages cfg pages u).2 = false ↔
      cfg.capPages ≤ pages.length ∧ ∀ last, pages.getLast? = some last → cfg.perPage ≤ last.length := by
  unfold appendPages
  split
  · rename_i last hl
    split
    · simp only [Bool.true_eq_false, false_iff, not_and]
      intro _ h
      have := h last hl
      omega
    · split
      · simp only [true_iff]
        refine ⟨by omega, ?_⟩
        intro l hl'
        rw [hl] at hl'
        cases hl'
        omega
      · simp only [Bool.true_eq_false, false_iff, not_and]
        intro h; omega
  · rename_i hl
    split
    · simp only [true_iff]
      refine ⟨by omega, ?_⟩
      intro l hl'
      rw [hl] at hl'
      cases hl'
    · simp only [Bool.true_eq_false, false_iff, not_and]
      intro h; omega

theorem findU_append_one (k : Nat) (log : List Upd) (u : Upd) :
    findU k (log ++ [u]) = if u.key = k then some u else findU k log := by
  unfold findU
  simp only [List.reverse_append, List.reverse_cons, List.reverse_nil, List.nil_append,
    List.singleton_append]
  by_cases h : u.key = k
  · rw [if_pos h, List.find?_cons_of_pos]; simp [h]
  · rw [if_neg h, List.find?_cons_of_neg]; simp [h]

/-- A.1, append case: the denoted map changes at the appended key only. -/
theorem absB_append (b : Bucket) (pg : List (List Upd)) (u : Upd) (k : Nat)
    (h : pg.flatten = b.log ++ [u]) :
    absB { b with pages := pg } k = if u.key = k then updVal u else absB b k := by
  unfold absB Bucket.log
  simp only
  rw [h, findU_append_one]
  by_cases hk : u.key = k
  · simp [hk]
  · simp only [hk, if_false]
    rfl

/-! ### `BTreeMap` as a key-sorted association list -/

def SortedKV {α : Type} (l : List (Nat × α)) : Prop := l.Pairwise (fun a b => a.1 < b.1)

def lookupKV {α : Type} (k : Nat) (l : List (Nat × α)) : Option α :=
  (l.find? (fun p => p.1 == k)).map (·.2)

theorem mem_insertKV {α : Type} {k : Nat} {v : α} {l : List (Nat × α)} {x : Nat × α}
    (h : x ∈ insertKV k v l) : x = (k, v) ∨ x ∈ l := by
  induction l with
  | nil => simp only [insertKV, List.mem_singleton] at h; exact Or.inl h
  | cons p rest ih =>
    obtain ⟨k', v'⟩ := p
    simp only [insertKV] at h
    split at h
    · rcases List.mem_cons.mp h with h | h
      · exact Or.inl h
      · exact Or.inr h
    · split at h
      · rcases List.mem_cons.mp h with h | h
        · exact Or.inl h
        · exact Or.inr (List.mem_cons_of_mem _ h)
      · rcases List.mem_cons.mp h with h | h
        · exact Or.inr (h ▸ List.mem_cons_self)
        · rcases ih h with h | h
          · exact Or.inl h
          · exact Or.inr (List.mem_cons_of_mem _ h)

theorem sortedKV_insertKV {α : Type} (k : Nat) (v : α) (l : List (Nat × α)) (hs : SortedKV l) :
    SortedKV (insertKV k v l) := by
  induction l with
  | nil => simp [insertKV, SortedKV]
  | cons p rest ih =>
    obtain ⟨k', v'⟩ := p
    unfold SortedKV at hs
    rw [List.pairwise_cons] at hs
    obtain ⟨h1, h2⟩ := hs
    simp only [insertKV]
    split
    · rename_i hlt
      unfold SortedKV
      rw [List.pairwise_cons]
      refine ⟨?_, List.pairwise_cons.mpr ⟨h1, h2⟩⟩
      intro x hx
      rcases List.mem_cons.mp hx with rfl | hx
      · exact hlt
      · have := h1 x hx
        simp only at this ⊢
        omega
    · split
      · rename_i _ heq
        subst heq
        unfold SortedKV
        rw [List.pairwise_cons]
        exact ⟨h1, h2⟩
      · rename_i hnlt hne
        unfold SortedKV
        rw [List.pairwise_cons]
        refine ⟨?_, ih h2⟩
        intro x hx
        rcases mem_insertKV hx with rfl | hx
        · simp only; omega
        · exact h1 x hx

theorem lookupKV_nil {α : Type} (k' : Nat) : lookupKV k' ([] : List (Nat × α)) = none := rfl

theorem lookupKV_cons {α : Type} (k' a : Nat) (v : α) (l : List (Nat × α)) :
    lookupKV k' ((a, v) :: l) = if a = k' then some v else lookupKV k' l := by
  unfold lookupKV
  by_cases h : a = k'
  · rw [if_pos h, List.find?_cons_of_pos]
    · rfl
    · simp [h]
  · rw [if_neg h, List.find?_cons_of_neg]
    simp [h]

theorem lookupKV_insertKV {α : Type} (k : Nat) (v : α) (l : List (Nat × α)) (k' : Nat) :
    lookupKV k' (insertKV k v l) = if k = k' then some v else lookupKV k' l := by
  induction l with
  | nil => simp only [insertKV, lookupKV_cons, lookupKV_nil]
  | cons p rest ih =>
    obtain ⟨k2, v2⟩ := p
    simp only [insertKV]
    split
    · simp only [lookupKV_cons]
    · split
      · rename_i _ heq
        subst heq
        simp only [lookupKV_cons]
        by_cases h : k = k' <;> simp [h]
      · rename_i hnlt hne
        simp only [lookupKV_cons, ih]
        by_cases h2 : k2 = k'
        · subst h2
          simp [hne]
        · simp [h2]

/-- folding `insert` over a sequence: the last element with a key wins. -/
theorem lookupKV_foldl {α β : Type} (kf : β → Nat) (vf : β → α) (xs : List β)
    (m0 : List (Nat × α)) (k : Nat) :
    lookupKV k (xs.foldl (fun m x => insertKV (kf x) (vf x) m) m0) =
      match xs.reverse.find? (fun x => kf x == k) with
      | some x => some (vf x)
      | none => lookupKV k m0 := by
  induction xs generalizing m0 with
  | nil => rfl
  | cons x rest ih =>
    simp only [List.foldl_cons, List.reverse_cons, List.find?_append]
    rw [ih]
    cases h : rest.reverse.find? (fun x => kf x == k) with
    | some y => simp
    | none =>
      simp only [Option.none_or]
      rw [lookupKV_insertKV]
      by_cases hk : kf x = k
      · rw [if_pos hk, List.find?_cons_of_pos]
        simp [hk]
      · rw [if_neg hk, List.find?_cons_of_neg]
        · rfl
        · simp [hk]

theorem sortedKV_foldl {α β : Type} (kf : β → Nat) (vf : β → α) (xs : List β)
    (m0 : List (Nat × α)) (h0 : SortedKV m0) :
    SortedKV (xs.foldl (fun m x => insertKV (kf x) (vf x) m) m0) := by
  induction xs generalizing m0 with
  | nil => exact h0
  | cons x rest ih => exact ih _ (sortedKV_insertKV _ _ _ h0)

theorem mem_foldl_insertKV {α β : Type} (kf : β → Nat) (vf : β → α) (xs : List β)
    (m0 : List (Nat × α)) (p : Nat × α)
    (h : p ∈ xs.foldl (fun m x => insertKV (kf x) (vf x) m) m0) :
    p ∈ m0 ∨ ∃ x ∈ xs, p = (kf x, vf x) := by
  induction xs generalizing m0 with
  | nil => exact Or.inl h
  | cons x rest ih =>
    rcases ih _ h with h | ⟨y, hy, rfl⟩
    · rcases mem_insertKV h with rfl | h
      · exact Or.inr ⟨x, List.mem_cons_self, rfl⟩
      · exact Or.inl h
    · exact Or.inr ⟨y, List.mem_cons_of_mem _ hy, rfl⟩

/-! ### merge walk of `flush_updates_for_bucket` -/

def SortedU (l : List Upd) : Prop := l.Pairwise (fun a b => a.key < b.key)

theorem findE_cons (k : Nat) (e : Entry) (l : List Entry) :
    findE k (e :: l) = if e.key = k then some e else findE k l := by
  unfold findE
  by_cases h : e.key = k
  · rw [if_pos h, List.find?_cons_of_pos]; simp [h]
  · rw [if_neg h, List.find?_cons_of_neg]; simp [h]

theorem findE_append (k : Nat) (a b : List Entry) :
    findE k (a ++ b) = (findE k a).or (findE k b) := by
  unfold findE; rw [List.find?_append]

theorem findE_some {k : Nat} {l : List Entry} {e : Entry} (h : findE k l = some e) :
    e ∈ l ∧ e.key = k := by
  unfold findE at h
  have h1 := List.mem_of_find?_eq_some h
  have h2 := List.find?_some h
  simp only [beq_iff_eq] at h2
  exact ⟨h1, h2⟩

theorem findE_of_mem {l : List Entry} {e : Entry} (hs : Sorted l) (h : e ∈ l) :
    findE e.key l = some e := by
  induction l with
  | nil => cases h
  | cons x l ih =>
    unfold Sorted at hs
    rw [List.pairwise_cons] at hs
    rw [findE_cons]
    rcases List.mem_cons.mp h with rfl | h
    · simp
    · have := hs.1 e h
      rw [if_neg (by omega)]
      exact ih hs.2 h

theorem split_sorted (x : Nat) (s : List Entry) (hs : Sorted s) :
    (∀ e ∈ s.takeWhile (fun e => e.key < x), e.key < x) ∧
    (∀ e ∈ s.dropWhile (fun e => e.key < x), x ≤ e.key) := by
  induction s with
  | nil => simp
  | cons e s ih =>
    unfold Sorted at hs
    rw [List.pairwise_cons] at hs
    by_cases h : e.key < x
    · simp only [List.takeWhile_cons, List.dropWhile_cons, h, decide_true, if_true]
      obtain ⟨a, b⟩ := ih hs.2
      refine ⟨?_, b⟩
      intro y hy
      rcases List.mem_cons.mp hy with rfl | hy
      · exact h
      · exact a y hy
    · simp only [List.takeWhile_cons, List.dropWhile_cons, h, decide_false, Bool.false_eq_true, if_false]
      refine ⟨by simp, ?_⟩
      intro y hy
      rcases List.mem_cons.mp hy with rfl | hy
      · omega
      · have := hs.1 y hy
        omega

theorem skipEq_props (x : Nat) (rest : List Entry) (hs : Sorted rest) (hge : ∀ e ∈ rest, x ≤ e.key) :
    Sorted (skipEq x rest) ∧ (∀ e ∈ skipEq x rest, x < e.key) ∧ (∀ e ∈ skipEq x rest, e ∈ rest) ∧
      ∀ k, k ≠ x → findE k (skipEq x rest) = findE k rest := by
  cases rest with
  | nil => simp [skipEq, Sorted]
  | cons e r =>
    unfold Sorted at hs
    rw [List.pairwise_cons] at hs
    simp only [skipEq]
    by_cases h : e.key = x
    · rw [if_pos h]
      refine ⟨hs.2, ?_, ?_, ?_⟩
      · intro y hy; have := hs.1 y hy; omega
      · intro y hy; exact List.mem_cons_of_mem _ hy
      · intro k hk; rw [findE_cons, if_neg (by omega)]
    · rw [if_neg h]
      refine ⟨List.pairwise_cons.mpr hs, ?_, fun _ h => h, fun _ _ => rfl⟩
      intro y hy
      rcases List.mem_cons.mp hy with rfl | hy
      · have := hge y List.mem_cons_self; omega
      · have := hs.1 y hy
        have := hge e List.mem_cons_self
        omega

theorem mem_mergeWalk {s : List Entry} {ups : List Upd} {e : Entry} (hs : Sorted s)
    (h : e ∈ mergeWalk s ups) : e ∈ s ∨ ∃ u ∈ ups, u.status ≠ stDelete ∧ e = u.toEntry := by
  induction ups generalizing s with
  | nil => exact Or.inl h
  | cons u us ih =>
    simp only [mergeWalk, List.mem_append] at h
    have hsp := split_sorted u.key s hs
    have hdrop : Sorted (s.dropWhile fun e => e.key < u.key) :=
      List.Pairwise.sublist (List.dropWhile_sublist _) hs
    obtain ⟨hk1, _, hk3, _⟩ := skipEq_props u.key _ hdrop hsp.2
    rcases h with h | h | h
    · exact Or.inl ((List.takeWhile_sublist _).subset h)
    · by_cases hd : u.status = stDelete
      · rw [if_pos hd] at h; cases h
      · rw [if_neg hd] at h
        simp only [List.mem_singleton] at h
        exact Or.inr ⟨u, List.mem_cons_self, hd, h⟩
    · rcases ih hk1 h with h | ⟨u', hu', hd, rfl⟩
      · exact Or.inl ((List.dropWhile_sublist _).subset (hk3 _ h))
      · exact Or.inr ⟨u', List.mem_cons_of_mem _ hu', hd, rfl⟩

theorem findE_none_iff {k : Nat} {l : List Entry} : findE k l = none ↔ ∀ e ∈ l, e.key ≠ k := by
  unfold findE
  rw [List.find?_eq_none]
  simp

/-- `merge_walk` of A.1: two runs sorted by distinct keys, updates win, tombstones drop. -/
theorem mergeWalk_spec (ups : List Upd) : ∀ (s : List Entry), Sorted s → SortedU ups →
    Sorted (mergeWalk s ups) ∧
    ∀ k, findE k (mergeWalk s ups) =
      match ups.find? (fun u => u.key == k) with
      | some u => updVal u
      | none => findE k s := by
  induction ups with
  | nil => intro s hs _; exact ⟨hs, fun k => rfl⟩
  | cons u us ih =>
    intro s hs hu
    unfold SortedU at hu
    rw [List.pairwise_cons] at hu
    obtain ⟨hu1, hu2⟩ := hu
    have hsp := split_sorted u.key s hs
    have htake : Sorted (s.takeWhile fun e => e.key < u.key) :=
      List.Pairwise.sublist (List.takeWhile_sublist _) hs
    have hdrop : Sorted (s.dropWhile fun e => e.key < u.key) :=
      List.Pairwise.sublist (List.dropWhile_sublist _) hs
    obtain ⟨hk1, hk2, hk3, hk4⟩ := skipEq_props u.key _ hdrop hsp.2
    obtain ⟨ihS, ihF⟩ := ih _ hk1 hu2
    have hmergedKeys : ∀ e ∈ mergeWalk (skipEq u.key (s.dropWhile fun e => e.key < u.key)) us,
        u.key < e.key := by
      intro e he
      rcases mem_mergeWalk hk1 he with h | ⟨u', hu', _, rfl⟩
      · exact hk2 e h
      · exact hu1 u' hu'
    have hs_split : s = (s.takeWhile fun e => e.key < u.key) ++ (s.dropWhile fun e => e.key < u.key) :=
      List.takeWhile_append_dropWhile.symm
    refine ⟨?_, ?_⟩
    · simp only [mergeWalk]
      unfold Sorted
      rw [List.pairwise_append]
      refine ⟨htake, ?_, ?_⟩
      · rw [List.pairwise_append]
        refine ⟨?_, ihS, ?_⟩
        · by_cases hd : u.status = stDelete
          · rw [if_pos hd]; exact List.Pairwise.nil
          · rw [if_neg hd]; exact List.pairwise_singleton _ _
        · intro a ha b hb
          by_cases hd : u.status = stDelete
          · rw [if_pos hd] at ha; cases ha
          · rw [if_neg hd] at ha
            simp only [List.mem_singleton] at ha
            subst ha
            exact hmergedKeys b hb
      · intro a ha b hb
        have h1 := hsp.1 a ha
        rcases List.mem_append.mp hb with hb | hb
        · by_cases hd : u.status = stDelete
          · rw [if_pos hd] at hb; cases hb
          · rw [if_neg hd] at hb
            simp only [List.mem_singleton] at hb
            subst hb
            exact h1
        · have := hmergedKeys b hb
          omega
    · intro k
      simp only [mergeWalk, findE_append]
      have hval : findE k (if u.status = stDelete then [] else [u.toEntry]) =
          if u.key = k then updVal u else none := by
        unfold updVal
        by_cases hd : u.status = stDelete
        · simp only [hd, if_true]
          by_cases hk : u.key = k <;> simp [hk, findE]
        · simp only [hd, if_false, findE_cons]
          by_cases hk : u.key = k
          · simp [hk, Upd.toEntry]
          · simp [hk, Upd.toEntry, findE]
      rw [hval]
      by_cases hk : u.key = k
      · -- the update's own key
        have h1 : findE k (s.takeWhile fun e => e.key < u.key) = none := by
          rw [findE_none_iff]; intro e he; have := hsp.1 e he; omega
        have h2 : findE k (mergeWalk (skipEq u.key (s.dropWhile fun e => e.key < u.key)) us) = none := by
          rw [findE_none_iff]; intro e he; have := hmergedKeys e he; omega
        rw [h1, h2, if_pos hk, List.find?_cons_of_pos (by simp [hk])]
        simp
      · rw [if_neg hk, List.find?_cons_of_neg (by simp [hk])]
        simp only [Option.none_or]
        by_cases hlt : k < u.key
        · have h2 : findE k (mergeWalk (skipEq u.key (s.dropWhile fun e => e.key < u.key)) us) = none := by
            rw [findE_none_iff]; intro e he; have := hmergedKeys e he; omega
          have h3 : us.find? (fun u => u.key == k) = none := by
            rw [List.find?_eq_none]
            intro u' hu'
            have := hu1 u' hu'
            simp only [beq_iff_eq]; omega
          have h4 : findE k (s.dropWhile fun e => e.key < u.key) = none := by
            rw [findE_none_iff]; intro e he; have := hsp.2 e he; omega
          rw [h2, h3]
          simp only [Option.or_none]
          conv => rhs; rw [hs_split, findE_append, h4]
          simp
        · have h1 : findE k (s.takeWhile fun e => e.key < u.key) = none := by
            rw [findE_none_iff]; intro e he; have := hsp.1 e he; omega
          rw [h1]
          simp only [Option.none_or]
          rw [ihF k, hk4 k (by omega)]
          conv => rhs; rw [hs_split, findE_append, h1]
          simp

/-! ### dedupe, flush, iteration -/

theorem find_map_snd {α : Type} (kf : α → Nat) (m : List (Nat × α)) (h : ∀ p ∈ m, kf p.2 = p.1)
    (k : Nat) : (m.map (·.2)).find? (fun v => kf v == k) = lookupKV k m := by
  induction m with
  | nil => rfl
  | cons p rest ih =>
    obtain ⟨a, v⟩ := p
    have ha : kf v = a := h (a, v) List.mem_cons_self
    rw [lookupKV_cons, List.map_cons]
    by_cases hk : a = k
    · rw [if_pos hk, List.find?_cons_of_pos]
      simp [ha, hk]
    · rw [if_neg hk, List.find?_cons_of_neg]
      · exact ih (fun p hp => h p (List.mem_cons_of_mem _ hp))
      · simp [ha, hk]

/-- `dedupe_latest` of A.1. -/
theorem dedupe_spec (log : List Upd) :
    SortedU (dedupe log) ∧ (∀ u ∈ dedupe log, u ∈ log) ∧
      ∀ k, (dedupe log).find? (fun u => u.key == k) = findU k log := by
  have hmem := mem_foldl_insertKV (fun u : Upd => u.key) (fun u => u) log []
  have hkey : ∀ p ∈ log.foldl (fun m u => insertKV u.key u m) [], p.2.key = p.1 ∧ p.2 ∈ log := by
    intro p hp
    rcases hmem p hp with h | ⟨u, hu, rfl⟩
    · cases h
    · exact ⟨rfl, hu⟩
  have hsorted := sortedKV_foldl (fun u : Upd => u.key) (fun u => u) log [] List.Pairwise.nil
  refine ⟨?_, ?_, ?_⟩
  · unfold SortedU dedupe
    rw [List.pairwise_map]
    refine List.Pairwise.imp_of_mem ?_ hsorted
    intro a b ha hb hab
    rw [(hkey a ha).1, (hkey b hb).1]
    exact hab
  · intro u hu
    unfold dedupe at hu
    obtain ⟨p, hp, rfl⟩ := List.mem_map.mp hu
    exact (hkey p hp).2
  · intro k
    unfold dedupe
    rw [find_map_snd (fun u : Upd => u.key) _ (fun p hp => (hkey p hp).1)]
    rw [lookupKV_foldl (fun u : Upd => u.key) (fun u => u)]
    unfold findU
    cases log.reverse.find? (fun x => x.key == k) <;> rfl

theorem absB_nil_log (s : List Entry) (k : Nat) : absB ⟨s, []⟩ k = findE k s := rfl

/-- `flush_preserves_abs` of A.1 (bucket level). -/
theorem flushB_spec (b : Bucket) (hs : Sorted b.sorted) :
    Sorted (flushB b).sorted ∧ (flushB b).pages = [] ∧ ∀ k, absB (flushB b) k = absB b k := by
  obtain ⟨hd1, _, hd3⟩ := dedupe_spec b.log
  obtain ⟨hm1, hm2⟩ := mergeWalk_spec (dedupe b.log) b.sorted hs hd1
  refine ⟨hm1, rfl, ?_⟩
  intro k
  unfold flushB
  rw [absB_nil_log, hm2 k, hd3 k]
  rfl

theorem mem_flushB {b : Bucket} {e : Entry} (hs : Sorted b.sorted) (h : e ∈ (flushB b).sorted) :
    e ∈ b.sorted ∨ ∃ u ∈ b.log, e = u.toEntry := by
  rcases mem_mergeWalk hs h with h | ⟨u, hu, _, rfl⟩
  · exact Or.inl h
  · exact Or.inr ⟨u, (dedupe_spec b.log).2.1 u hu, rfl⟩

theorem findE_filterMap_snd (m : List (Nat × Option Entry)) (hs : SortedKV m)
    (hk : ∀ p ∈ m, ∀ e, p.2 = some e → e.key = p.1) (k : Nat) :
    findE k (m.filterMap (·.2)) = (lookupKV k m).join := by
  induction m with
  | nil => rfl
  | cons p rest ih =>
    obtain ⟨a, v⟩ := p
    unfold SortedKV at hs
    rw [List.pairwise_cons] at hs
    have ih' := ih hs.2 (fun p hp => hk p (List.mem_cons_of_mem _ hp))
    rw [lookupKV_cons]
    cases v with
    | some e =>
      have he : e.key = a := hk (a, some e) List.mem_cons_self e rfl
      simp only [List.filterMap_cons]
      rw [findE_cons, he]
      by_cases h : a = k
      · simp [h]
      · simp only [h, if_false]; exact ih'
    | none =>
      simp only [List.filterMap_cons]
      by_cases h : a = k
      · simp only [h, if_true, Option.join_some]
        rw [findE_none_iff]
        intro e he
        obtain ⟨p, hp, hpe⟩ := List.mem_filterMap.mp he
        have h1 := hk p (List.mem_cons_of_mem _ hp) e hpe
        have h2 := hs.1 p hp
        simp only at h2
        omega
      · simp only [h, if_false]; exact ih'

theorem sorted_filterMap_snd (m : List (Nat × Option Entry)) (hs : SortedKV m)
    (hk : ∀ p ∈ m, ∀ e, p.2 = some e → e.key = p.1) : Sorted (m.filterMap (·.2)) := by
  unfold Sorted
  rw [List.pairwise_filterMap]
  refine List.Pairwise.imp_of_mem ?_ hs
  intro a b ha hb hab e he e' he'
  rw [hk a ha e he, hk b hb e' he']
  exact hab

theorem reverse_find_sorted (k : Nat) (l : List Entry) (hs : Sorted l) :
    l.reverse.find? (fun e => e.key == k) = findE k l := by
  induction l with
  | nil => rfl
  | cons e l ih =>
    unfold Sorted at hs
    rw [List.pairwise_cons] at hs
    rw [List.reverse_cons, List.find?_append, ih hs.2, findE_cons]
    by_cases h : e.key = k
    · have : findE k l = none := by
        rw [findE_none_iff]; intro x hx; have := hs.1 x hx; omega
      rw [this, if_pos h, List.find?_cons_of_pos (by simp [h])]
      rfl
    · rw [if_neg h, List.find?_cons_of_neg (by simp [h])]
      simp

/-- `iter_entries` of one bucket enumerates exactly the denoted map, in ascending key order. -/
theorem iterBucket_spec (b : Bucket) (hs : Sorted b.sorted) :
    Sorted (iterBucket b) ∧ ∀ k, findE k (iterBucket b) = absB b k := by
  have hk : ∀ p ∈ (b.log.foldl (fun m u => insertKV u.key (if u.status = stDelete then none else some u.toEntry) m)
      (b.sorted.foldl (fun m e => insertKV e.key (some e) m) [])), ∀ e, p.2 = some e → e.key = p.1 := by
    intro p hp e he
    rcases mem_foldl_insertKV (fun u : Upd => u.key)
      (fun u => if u.status = stDelete then none else some u.toEntry) _ _ p hp with h | ⟨u, _, rfl⟩
    · rcases mem_foldl_insertKV (fun e : Entry => e.key) (fun e => some e) _ _ p h with h | ⟨x, _, rfl⟩
      · cases h
      · simp only [Option.some.injEq] at he; subst he; rfl
    · simp only at he
      split at he
      · cases he
      · simp only [Option.some.injEq] at he; subst he; rfl
  have hsorted := sortedKV_foldl (fun u : Upd => u.key)
    (fun u => if u.status = stDelete then none else some u.toEntry) b.log _
    (sortedKV_foldl (fun e : Entry => e.key) (fun e => some e) b.sorted [] List.Pairwise.nil)
  refine ⟨sorted_filterMap_snd _ hsorted hk, ?_⟩
  intro k
  unfold iterBucket
  simp only
  rw [findE_filterMap_snd _ hsorted hk]
  rw [lookupKV_foldl (fun u : Upd => u.key) (fun u => if u.status = stDelete then none else some u.toEntry)]
  rw [lookupKV_foldl (fun e : Entry => e.key) (fun e => some e)]
  rw [reverse_find_sorted k _ hs]
  unfold absB findU updVal
  cases b.log.reverse.find? (fun x => x.key == k) with
  | some u => simp
  | none =>
    simp only
    cases findE k b.sorted <;> rfl

/-! ### manager level -/

/-- per-bucket invariant (A.1 `Inv`, plus: entries sit in the bucket their key hashes to, pages
are non-empty). -/
structure GoodB (b : Nat) (bk : Bucket) : Prop where
  sorted : Sorted bk.sorted
  bs : ∀ e ∈ bk.sorted, bucketOf e.key = b
  bl : ∀ u ∈ bk.log, bucketOf u.key = b
  ne : ∀ p ∈ bk.pages, p ≠ []

def Good (s : State) : Prop := ∀ b bk, s.mem b = some bk → GoodB b bk

/-- the map the manager denotes. -/
def absS (s : State) (k : Nat) : Option Entry :=
  match s.mem (bucketOf k) with
  | some bk => absB bk k
  | none => none

theorem lookup_eq_absS (s : State) (hg : Good s) (k : Nat) : lookup s k = absS s k := by
  unfold lookup absS
  cases h : s.mem (bucketOf k) with
  | none => rfl
  | some bk => exact searchBoth_eq_absB bk k (hg _ _ h).sorted

theorem absB_some_key {bk : Bucket} {k : Nat} {e : Entry} (h : absB bk k = some e) : e.key = k := by
  unfold absB at h
  split at h
  · rename_i u hu
    unfold findU at hu
    have := List.find?_some hu
    simp only [beq_iff_eq] at this
    unfold updVal at h
    split at h
    · cases h
    · simp only [Option.some.injEq] at h
      subst h
      exact this
  · exact (findE_some h).2

theorem absB_some_bucket {b : Nat} {bk : Bucket} (hg : GoodB b bk) {k : Nat} {e : Entry}
    (h : absB bk k = some e) : bucketOf k = b := by
  have hk := absB_some_key h
  unfold absB at h
  split at h
  · rename_i u hu
    unfold findU at hu
    have hm := List.mem_of_find?_eq_some hu
    have hkk := List.find?_some hu
    simp only [beq_iff_eq] at hkk
    rw [List.mem_reverse] at hm
    rw [← hkk]
    exact hg.bl u hm
  · have := findE_some h
    rw [← this.2]
    exact hg.bs e this.1

theorem goodB_empty (b : Nat) : GoodB b Bucket.empty :=
  ⟨List.Pairwise.nil, (by intro e he; cases he), (by intro e he; cases he), (by intro e he; cases he)⟩

theorem absB_empty (k : Nat) : absB Bucket.empty k = none := rfl

theorem absS_setMem (s : State) (b : Nat) (bk : Bucket) (k : Nat) :
    absS (s.setMem b bk) k = if bucketOf k = b then absB bk k else absS s k := by
  unfold absS State.setMem
  simp only
  by_cases h : bucketOf k = b <;> simp [h]

theorem good_setMem {s : State} (hg : Good s) (b : Nat) (bk : Bucket) (hb : GoodB b bk) :
    Good (s.setMem b bk) := by
  intro i x hx
  unfold State.setMem at hx
  simp only at hx
  by_cases h : i = b
  · rw [if_pos h] at hx
    cases hx
    rw [h]; exact hb
  · rw [if_neg h] at hx
    exact hg i x hx

theorem goodB_flushB {b : Nat} {bk : Bucket} (hg : GoodB b bk) : GoodB b (flushB bk) := by
  refine ⟨(flushB_spec bk hg.sorted).1, ?_, (by intro e he; cases he), (by intro e he; cases he)⟩
  intro e he
  rcases mem_flushB hg.sorted he with h | ⟨u, hu, rfl⟩
  · exact hg.bs e h
  · exact hg.bl u hu

theorem mem_setDisk (s : State) (b : Nat) (img : Image) : (s.setDisk b img).mem = s.mem := rfl

/-- `flush_preserves_abs` of A.1 (manager level). -/
theorem flushBucket_spec (s : State) (hg : Good s) (b : Nat) :
    Good (flushBucket s b) ∧ ∀ k, absS (flushBucket s b) k = absS s k := by
  unfold flushBucket
  cases h : s.mem b with
  | none => exact ⟨hg, fun _ => rfl⟩
  | some bk =>
    simp only
    split
    · exact ⟨hg, fun _ => rfl⟩
    · have hb := hg b bk h
      refine ⟨?_, ?_⟩
      · intro i x hx
        rw [mem_setDisk] at hx
        exact good_setMem hg b _ (goodB_flushB hb) i x hx
      · intro k
        have : absS ((s.setMem b (flushB bk)).setDisk b (saveB (flushB bk))) k =
            absS (s.setMem b (flushB bk)) k := rfl
        rw [this, absS_setMem]
        by_cases hk : bucketOf k = b
        · rw [if_pos hk, (flushB_spec bk hb.sorted).2.2 k]
          unfold absS
          rw [hk, h]
        · rw [if_neg hk]

theorem goodB_append {b : Nat} {bk : Bucket} (hg : GoodB b bk) {cfg : Cfg} {pg : List (List Upd)}
    {u : Upd} (hu : bucketOf u.key = b) (h : appendPages cfg bk.pages u = (pg, true)) :
    GoodB b { bk with pages := pg } := by
  have hf := appendPages_ok h
  refine ⟨hg.sorted, hg.bs, ?_, ?_⟩
  · intro x hx
    unfold Bucket.log at hx
    simp only at hx
    rw [hf] at hx
    rcases List.mem_append.mp hx with hx | hx
    · exact hg.bl x hx
    · simp only [List.mem_singleton] at hx
      subst hx; exact hu
  · intro p hp
    simp only at hp
    unfold appendPages at h
    split at h
    · rename_i last hl
      obtain ⟨ys, hys⟩ := List.getLast?_eq_some_iff.mp hl
      split at h
      · simp only [Prod.mk.injEq, and_true] at h
        subst h
        rcases List.mem_append.mp hp with hp | hp
        · exact hg.ne p ((List.dropLast_sublist _).subset hp)
        · simp only [List.mem_singleton] at hp
          subst hp
          simp
      · split at h
        · simp at h
        · simp only [Prod.mk.injEq, and_true] at h
          subst h
          rcases List.mem_append.mp hp with hp | hp
          · exact hg.ne p hp
          · simp only [List.mem_singleton] at hp
            subst hp
            simp
    · split at h
      · simp at h
      · simp only [Prod.mk.injEq, and_true] at h
        subst h
        rcases List.mem_append.mp hp with hp | hp
        · exact hg.ne p hp
        · simp only [List.mem_singleton] at hp
          subst hp
          simp

theorem log_ne_nil_of_pages {bk : Bucket} (hne : ∀ p ∈ bk.pages, p ≠ []) (h : bk.pages ≠ []) :
    bk.log.length ≠ 0 := by
  unfold Bucket.log
  cases hp : bk.pages with
  | nil => exact absurd hp h
  | cons p ps =>
    have : p ≠ [] := hne p (by rw [hp]; exact List.mem_cons_self)
    cases p with
    | nil => exact absurd rfl this
    | cons x xs => simp

/-- the flush-and-retry append always succeeds (capacity ≥ 1 page) and changes the denoted map
at the appended key only. -/
theorem appendWithFlush_spec (cfg : Cfg) (hcap : 1 ≤ cfg.capPages) (s : State) (hg : Good s)
    (b : Nat) (bk : Bucket) (hb : s.mem b = some bk) (u : Upd) (hu : bucketOf u.key = b) :
    ∃ s', appendWithFlush cfg s b u = (s', true) ∧ Good s' ∧
      ∀ k, absS s' k = if u.key = k then updVal u else absS s k := by
  have hgb := hg b bk hb
  unfold appendWithFlush
  rw [hb]
  simp only
  cases hap : appendPages cfg bk.pages u with
  | mk pg r =>
    cases r with
    | true =>
      simp only
      refine ⟨_, rfl, good_setMem hg b _ (goodB_append hgb hu hap), ?_⟩
      intro k
      rw [absS_setMem]
      by_cases hk : bucketOf k = b
      · rw [if_pos hk, absB_append bk pg u k (appendPages_ok hap)]
        unfold absS
        rw [hk, hb]
      · rw [if_neg hk]
        have : u.key ≠ k := by intro h; rw [h] at hu; exact hk hu
        rw [if_neg this]
    | false =>
      simp only
      have hfull := (appendPages_full_iff cfg bk.pages u).mp (by rw [hap])
      have hpne : bk.pages ≠ [] := by
        intro h
        rw [h] at hfull
        simp only [List.length_nil] at hfull
        omega
      have hlog := log_ne_nil_of_pages hgb.ne hpne
      obtain ⟨hg1, habs1⟩ := flushBucket_spec s hg b
      have hmem1 : (flushBucket s b).mem b = some (flushB bk) := by
        unfold flushBucket
        rw [hb]
        simp only
        rw [if_neg hlog]
        simp [State.setDisk, State.setMem]
      rw [hmem1]
      simp only
      have hnil : (flushB bk).pages = [] := rfl
      rw [hnil, appendPages_nil cfg u hcap]
      simp only
      have hgb1 := hg1 b _ hmem1
      have hap1 : appendPages cfg (flushB bk).pages u = ([[u]], true) := by
        rw [hnil]; exact appendPages_nil cfg u hcap
      refine ⟨_, rfl, good_setMem hg1 b _ (goodB_append hgb1 hu hap1), ?_⟩
      intro k
      rw [absS_setMem]
      by_cases hk : bucketOf k = b
      · rw [if_pos hk, absB_append (flushB bk) [[u]] u k (appendPages_ok hap1)]
        rw [← habs1 k]
        unfold absS
        rw [hk, hmem1]
      · rw [if_neg hk]
        have : u.key ≠ k := by intro h; rw [h] at hu; exact hk hu
        rw [if_neg this, habs1 k]

end Cascette.Proofs.Lsm
