/-
Proofs/Simd — for every lane width and every buffer, the lane loops return what the portable
fallbacks return.
-/
import Cascette.Model.Simd
namespace Cascette.Proofs.Simd
open Cascette.Model.Simd

theorem memEqLanes_iff (w : Nat) : ∀ (fuel : Nat) (a b : List Nat),
    memEqLanes w fuel a b = true ↔ a = b := by
  intro fuel
  induction fuel with
  | zero => intro a b; simp [memEqLanes]
  | succ n ih =>
    intro a b
    unfold memEqLanes
    split
    · split
      · rename_i h
        rw [ih]
        have h' : a.take w = b.take w := by simpa using h
        constructor
        · intro hd
          rw [← List.take_append_drop w a, ← List.take_append_drop w b, h', hd]
        · intro hab; rw [hab]
      · rename_i h
        have h' : a.take w ≠ b.take w := by simpa using h
        constructor
        · intro hf; cases hf
        · intro hab; exact absurd (by rw [hab]) h'
    · simp

theorem memEqLanes_eq (w fuel : Nat) (a b : List Nat) : memEqLanes w fuel a b = (a == b) := by
  have := memEqLanes_iff w fuel a b
  cases h : memEqLanes w fuel a b <;> cases h2 : (a == b) <;> simp_all

theorem memsetLanes_eq (w value : Nat) : ∀ (fuel : Nat) (d : List Nat),
    memsetLanes w value fuel d = List.replicate d.length value := by
  intro fuel
  induction fuel with
  | zero => intro d; simp [memsetLanes, List.map_const']
  | succ n ih =>
    intro d
    unfold memsetLanes
    split
    · rename_i h
      rw [ih, List.length_drop, List.replicate_append_replicate]
      congr 1; omega
    · simp [List.map_const']

theorem memcpyLanes_eq (w : Nat) : ∀ (fuel : Nat) (s : List Nat), memcpyLanes w fuel s = s := by
  intro fuel
  induction fuel with
  | zero => intro s; rfl
  | succ n ih =>
    intro s
    unfold memcpyLanes
    split
    · rw [ih, List.take_append_drop]
    · rfl

/-! ### memcmp -/

theorem cmpLex_append_left (p : List Nat) : ∀ (x y : List Nat), cmpLex (p ++ x) (p ++ y) = cmpLex x y := by
  induction p with
  | nil => intro x y; rfl
  | cons a p ih => intro x y; simp [cmpLex, ih]

/-- `firstDiff` on equal-length chunks: `none` iff equal; `some d` gives the first differing index
and the lexicographic order is decided there. -/
theorem firstDiff_none : ∀ (a b : List Nat), a.length = b.length → firstDiff a b = none → a = b := by
  intro a
  induction a with
  | nil => intro b h _; cases b <;> simp_all
  | cons x xs ih =>
    intro b h hd
    cases b with
    | nil => simp at h
    | cons y ys =>
      simp only [firstDiff] at hd
      split at hd
      · rename_i hxy
        simp only [Option.map_eq_none_iff] at hd
        simp only [List.length_cons, Nat.add_right_cancel_iff] at h
        rw [hxy, ih ys h hd]
      · cases hd

theorem firstDiff_some : ∀ (a b ra rb : List Nat) (d : Nat), a.length = b.length →
    firstDiff a b = some d →
    cmpLex (a ++ ra) (b ++ rb) = cmpNat ((a ++ ra).getD d 0) ((b ++ rb).getD d 0) := by
  intro a
  induction a with
  | nil => intro b ra rb d h hd; cases b <;> simp [firstDiff] at hd
  | cons x xs ih =>
    intro b ra rb d h hd
    cases b with
    | nil => simp at h
    | cons y ys =>
      simp only [firstDiff] at hd
      split at hd
      · rename_i hxy
        simp only [Option.map_eq_some_iff] at hd
        obtain ⟨d', hd', rfl⟩ := hd
        simp only [List.length_cons, Nat.add_right_cancel_iff] at h
        subst hxy
        simp only [List.cons_append, cmpLex, Nat.lt_irrefl, ↓reduceIte, List.getD_cons_succ]
        exact ih ys ra rb d' h hd'
      · rename_i hxy
        simp only [Option.some.injEq] at hd
        subst hd
        simp only [List.cons_append, cmpLex, List.getD_cons_zero, cmpNat]
        by_cases h1 : x < y
        · simp [h1]
        · by_cases h2 : y < x
          · simp [h1, h2]
          · exact absurd (by omega) hxy

theorem memcmpLanes_eq (w : Nat) : ∀ (fuel : Nat) (a b : List Nat), a.length = b.length →
    memcmpLanes w fuel a b = cmpLex a b := by
  intro fuel
  induction fuel with
  | zero => intro a b _; rfl
  | succ n ih =>
    intro a b hlen
    unfold memcmpLanes
    split
    · rename_i hw
      have hla : (a.take w).length = (b.take w).length := by
        simp only [List.length_take]; omega
      split
      · rename_i d hd
        have := firstDiff_some (a.take w) (b.take w) (a.drop w) (b.drop w) d hla hd
        rw [List.take_append_drop, List.take_append_drop] at this
        exact this.symm
      · rename_i hd
        have heq := firstDiff_none _ _ hla hd
        rw [ih _ _ (by simp only [List.length_drop]; omega)]
        conv => rhs; rw [← List.take_append_drop w a, ← List.take_append_drop w b, heq]
        rw [cmpLex_append_left]
    · rfl

/-! ### memmem -/

theorem findFrom_short (needle : List Nat) : ∀ (rest : List Nat) (pos : Nat),
    rest.length < needle.length → findFrom needle pos rest = none := by
  intro rest
  induction rest with
  | nil => intro pos h; cases needle <;> simp_all [findFrom]
  | cons h hs ih =>
    intro pos hl
    rw [findFrom]
    have h1 : ¬ (needle.length ≤ (h :: hs).length ∧ (h :: hs).take needle.length == needle) := by
      intro hx; omega
    rw [if_neg h1, if_pos hl]

theorem scanLane_none_findFrom (needle : List Nat) (first : Nat) (tl : List Nat)
    (hn : needle = first :: tl) :
    ∀ (k pos : Nat) (rest : List Nat), k ≤ rest.length → scanLane needle first k pos rest = none →
      findFrom needle pos rest = findFrom needle (pos + k) (rest.drop k) := by
  intro k
  induction k with
  | zero => intro pos rest _ _; simp
  | succ k ih =>
    intro pos rest hk hs
    cases rest with
    | nil => simp at hk
    | cons h hs' =>
      simp only [scanLane] at hs
      split at hs
      · cases hs
      · rename_i hc
        simp only [List.length_cons, Nat.add_le_add_iff_right] at hk
        have := ih (pos + 1) hs' hk hs
        simp only [List.drop_succ_cons]
        rw [show pos + (k + 1) = pos + 1 + k by omega, ← this]
        -- one step of the scalar scan at a position the lane rejected
        rw [findFrom]
        by_cases hm : needle.length ≤ (h :: hs').length ∧ (h :: hs').take needle.length == needle
        · -- a match here would start with `first`, which the lane would have accepted
          exfalso
          apply hc
          refine ⟨?_, hm.1, hm.2⟩
          have h2 := hm.2
          rw [hn] at h2
          simp only [List.length_cons, List.take_succ_cons, beq_iff_eq, List.cons.injEq] at h2
          exact h2.1
        · rw [if_neg hm]
          by_cases hl : (h :: hs').length < needle.length
          · rw [if_pos hl]
            -- too short here: the rest is shorter still
            cases hs' with
            | nil => rw [findFrom]; simp [hn]
            | cons g gs =>
              rw [findFrom]
              have h1 : ¬ (needle.length ≤ (g :: gs).length ∧ (g :: gs).take needle.length == needle) := by
                intro hx; simp only [List.length_cons] at hl hx; omega
              rw [if_neg h1, if_pos (by simp only [List.length_cons] at hl ⊢; omega)]
          · rw [if_neg hl]

theorem scanLane_some_findFrom (needle : List Nat) (first : Nat) (tl : List Nat)
    (hn : needle = first :: tl) :
    ∀ (k pos : Nat) (rest : List Nat) (p : Nat), scanLane needle first k pos rest = some p →
      findFrom needle pos rest = some p := by
  intro k
  induction k with
  | zero => intro pos rest p h; simp [scanLane] at h
  | succ k ih =>
    intro pos rest p hs
    cases rest with
    | nil => simp [scanLane] at hs
    | cons h hs' =>
      simp only [scanLane] at hs
      split at hs
      · rename_i hc
        simp only [Option.some.injEq] at hs
        subst hs
        rw [findFrom, if_pos ⟨hc.2.1, hc.2.2⟩]
      · rename_i hc
        have hrec := ih (pos + 1) hs' p hs
        rw [findFrom]
        by_cases hm : needle.length ≤ (h :: hs').length ∧ (h :: hs').take needle.length == needle
        · -- a match at this position: the lane accepts it only if it starts with `first`;
          -- it does, because `needle` starts with `first` (hypothesis `hn`)
          exfalso
          apply hc
          refine ⟨?_, hm.1, hm.2⟩
          have h2 := hm.2
          rw [hn] at h2
          simp only [List.length_cons, List.take_succ_cons, beq_iff_eq, List.cons.injEq] at h2
          exact h2.1
        · rw [if_neg hm]
          by_cases hl : (h :: hs').length < needle.length
          · rw [findFrom_short needle hs' (pos + 1) (by simp only [List.length_cons] at hl; omega)] at hrec
            cases hrec
          · rw [if_neg hl, hrec]

theorem memmemLanes_eq (w : Nat) (needle : List Nat) (first : Nat) (tl : List Nat)
    (hn : needle = first :: tl) :
    ∀ (fuel pos : Nat) (rest : List Nat),
      memmemLanes w needle first fuel pos rest = findFrom needle pos rest := by
  intro fuel
  induction fuel with
  | zero => intro pos rest; rfl
  | succ n ih =>
    intro pos rest
    unfold memmemLanes
    split
    · rename_i hw
      split
      · rename_i p hp
        exact (scanLane_some_findFrom needle first tl hn w pos rest p hp).symm
      · rename_i hp
        rw [ih, ← scanLane_none_findFrom needle first tl hn w pos rest hw.1 hp]
    · rfl

end Cascette.Proofs.Simd
