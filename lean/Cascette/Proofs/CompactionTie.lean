/-
Proofs/CompactionTie — the hand-written model (Model/Compaction.lean) computes with exactly the
constants and expressions that lib/rs2lean_compaction.py extracts from the current Rust text
(lean/Cascette/Generated/CompactionSrc.lean, regenerated on every `./check C18`).
If the Rust text changes one of them, the generated file changes and a theorem here fails.
-/
import Cascette.Model.Compaction
import Cascette.Generated.CompactionSrc
namespace Cascette.Proofs.CompactionTie
open Cascette Cascette.Spec.Compaction Cascette.Model.Compaction
open Cascette.Generated

/-! ### buffer sizing -/

theorem buffer_constants_tie :
    MIN_BUFFER_SIZE = CompactionSrc.min_buffer_size ∧ MAX_BUFFERS = CompactionSrc.max_buffers ∧
    CompactionSrc.buffer_size_shift = 17 ∧ CompactionSrc.min_buffer_size = 2 ^ 17 := by decide

theorem bufCountOf_tie (total : Nat) : bufCountOf total = CompactionSrc.mover_count total := rfl

theorem moverNew_tie (budget : Nat) :
    (moverNew budget).bufSize = CompactionSrc.mover_per_buf (CompactionSrc.mover_total budget) ∧
    (moverNew budget).bufCount = CompactionSrc.mover_count (CompactionSrc.mover_total budget) ∧
    (moverNew budget).moved = 0 := ⟨rfl, rfl, rfl⟩

/-! ### spans -/

theorem span_exprs_tie (a b : Span) :
    Span.stopW a = CompactionSrc.span_end a.off a.len ∧
    Span.overflows a = CompactionSrc.span_overflows a.off a.len ∧
    a.overlaps b = CompactionSrc.span_overlaps a.off a.len b.off b.len := ⟨rfl, rfl, rfl⟩

/-- the model's order is the lexicographic order of the extracted key tuple
(`sort_by_key(|s| (s.offset, s.length))`). -/
theorem sort_key_tie (a b : Span) :
    Span.le a b = true ↔
      (CompactionSrc.span_sort_key a.off a.len).1 < (CompactionSrc.span_sort_key b.off b.len).1 ∨
      ((CompactionSrc.span_sort_key a.off a.len).1 = (CompactionSrc.span_sort_key b.off b.len).1 ∧
       (CompactionSrc.span_sort_key a.off a.len).2 ≤ (CompactionSrc.span_sort_key b.off b.len).2) := by
  simp only [Span.le, CompactionSrc.span_sort_key, Bool.or_eq_true, Bool.and_eq_true,
    decide_eq_true_eq]

theorem adjacent_scan_tie (a b : Span) (rest : List Span) :
    adjacentOkW (a :: b :: rest) =
      (!CompactionSrc.adjacent_bad a.off a.len b.off && adjacentOkW (b :: rest)) := by
  simp only [adjacentOkW, CompactionSrc.adjacent_bad, Span.stopW, addW, CompactionSrc.span_end]
  congr 1
  by_cases h : (a.off + a.len) % 2 ^ 64 ≤ b.off
  · have : ¬ ((a.off + a.len) % 2 ^ 64 > b.off) := by omega
    simp [h, this]
  · have : (a.off + a.len) % 2 ^ 64 > b.off := by omega
    simp [h, this]

/-- guard first (slice untouched), then the `len() <= 1` shortcut, then sort + scan. -/
theorem validate_shape_tie (spans : List Span) :
    validateSpansU64 spans =
      if spans.any (fun s => CompactionSrc.span_overflows s.off s.len) then (spans, false)
      else if spans.length ≤ CompactionSrc.validate_shortcut_len then (spans, true)
      else (sortSpans spans, adjacentOkW (sortSpans spans)) := rfl

/-! ### extract-compact -/

theorem chunk_tie (buf : Nat) (hbuf : 0 < buf) (f : Bytes) (src dst rem moved : Nat) (h : rem ≠ 0) :
    copyLoopW buf hbuf f src dst rem moved =
      match readExact f src (CompactionSrc.chunk rem buf) with
      | none => (f, moved, false)
      | some d =>
        copyLoopW buf hbuf (writeAt f dst d) (addW src (CompactionSrc.chunk rem buf))
          (addW dst (CompactionSrc.chunk rem buf)) (rem - CompactionSrc.chunk rem buf)
          (moved + CompactionSrc.chunk rem buf) := by
  rw [copyLoopW, dif_neg h]
  rfl

theorem span_loop_tie (m : Mover) (f : Bytes) (s : Span) (rest : List Span) (w : Nat) :
    compactLoopW m f (s :: rest) w =
      if CompactionSrc.gap_test s.off w = true then
        match compactInPlaceW m f s.off w s.len with
        | (f', m', true) => compactLoopW m' f' rest (CompactionSrc.write_pos_next w s.len)
        | (f', m', false) => (f', m', w, false)
      else compactLoopW m f rest (CompactionSrc.write_pos_next w s.len) := by
  simp only [compactLoopW, CompactionSrc.gap_test, CompactionSrc.write_pos_next, addW,
    decide_eq_true_eq]
  split <;> rfl

/-- no early return: the empty list goes through validation and truncation like any other
(the extractor fails if `spans.is_empty()` reappears in `extract_compact_segment`). -/
theorem extract_tail_tie (m : Mover) (f : Bytes) (spans : List Span) :
    extractCompactU64 m f spans =
      match validateSpansU64 spans with
      | (_, false) => ⟨f, none⟩
      | (sorted, true) =>
        match compactLoopW m f sorted 0 with
        | (f', _, _, false) => ⟨f', none⟩
        | (f', _, w, true) =>
          if CompactionSrc.bytes_saved f.length w > 0 then
            ⟨setLen f' w, some (CompactionSrc.bytes_saved f.length w)⟩
          else ⟨f', some (CompactionSrc.bytes_saved f.length w)⟩ := rfl

/-! ### planner -/

theorem collect_tie (p : Nat → Bool) (s : Seg) (r : List Seg) (i : Nat) :
    collectSources p (s :: r) i =
      if CompactionSrc.is_source s.frozen (p s.used) s.used = true then
        (u16idx i, s.used) :: collectSources p r (i + 1)
      else collectSources p r (i + 1) := rfl

theorem source_sort_tie (l : List (Nat × Nat)) :
    sortSources l = l.mergeSort (fun a b =>
      decide (CompactionSrc.source_sort_key a.1 a.2 ≤ CompactionSrc.source_sort_key b.1 b.2)) := rfl

theorem plan_shape_tie (p : Nat → Bool) (segSize : Nat) (segs : List Seg) :
    planMerge p segSize segs =
      (let sources := collectSources p segs 0
       if sources.length < CompactionSrc.min_sources then some {}
       else
         match sortSources sources with
         | [] => some {}
         | first :: rest =>
           greedy (first :: rest) segSize rest 0 (CompactionSrc.dest_cursor_init first.2) {}) := by
  unfold planMerge
  simp only [CompactionSrc.min_sources, CompactionSrc.dest_cursor_init]
  by_cases h : (collectSources p segs 0).length < 2
  · simp only [h, if_true]
  · simp only [h, if_false]
    cases sortSources (collectSources p segs 0) <;> rfl

theorem greedy_step_tie (srcs : List (Nat × Nat)) (segSize sseg sused : Nat)
    (rest : List (Nat × Nat)) (di du : Nat) (p : Plan) :
    greedy srcs segSize ((sseg, sused) :: rest) di du p =
      match srcs[di]? with
      | none => none
      | some (dseg, _) =>
        if CompactionSrc.fits du sused segSize = true then
          greedy srcs segSize rest di (du + sused)
            { moves := p.moves ++ [⟨sseg, CompactionSrc.move_source_offset, dseg, du, sused⟩]
              total := p.total + sused
              srcs := pushIfAbsent p.srcs sseg
              tgts := pushIfAbsent p.tgts dseg }
        else
          match srcs[di + 1]? with
          | none => some p
          | some (_, u) => greedy srcs segSize rest (di + 1) (CompactionSrc.dest_cursor_init u) p := by
  simp only [greedy, CompactionSrc.fits, CompactionSrc.move_source_offset,
    CompactionSrc.dest_cursor_init, decide_eq_true_eq]
  cases srcs[di]? with
  | none => rfl
  | some e =>
    obtain ⟨dseg, _⟩ := e
    simp only
    split <;> rfl

/-- the real limits lie inside the ranges the planner theorems are proved for. -/
theorem segment_limits_tie :
    CompactionSrc.max_segments ≤ 65536 ∧ CompactionSrc.segment_size = 2 ^ 30 ∧
    CompactionSrc.max_segments * CompactionSrc.segment_size < 2 ^ 62 := by decide

/-! ### `ArchiveManager::compact` -/

theorem arch_should_tie (utilLow : Nat → Nat → Bool) (a : Arch) :
    archCompact utilLow a =
      if CompactionSrc.arch_should a.used a.mapped (utilLow a.used a.mapped) = true then
        if a.used < a.mapped then
          ({ file := setLen a.file a.used, mapped := a.used, used := a.used }, 1, a.mapped - a.used)
        else (a, 1, 0)
      else (a, 0, 0) := rfl

end Cascette.Proofs.CompactionTie
