/-
Proofs/CryptoTie — every definition that lib/rs2lean.py generates from the CURRENT Rust text of
salsa20.rs / jenkins.rs equals the hand-written model definition the C09 theorems are about.
If the Rust source changes, Generated/CryptoSrc.lean changes, and these proofs are re-checked
against what the code says now.
-/
import Cascette.Generated.CryptoSrc
namespace Cascette.Proofs.CryptoTie
open Cascette
open Cascette.Spec.Salsa20 (S)

def iterN {α : Type} (f : α → α) : Nat → α → α
  | 0, x => x
  | n + 1, x => iterN f n (f x)

theorem quarter_round_tie (s : S) (a b c d : Nat) :
    Generated.quarter_round s a b c d = Model.Salsa20.quarterRound s a b c d := rfl

theorem round_body_tie (w : S) : Generated.round_body w = Model.Salsa20.roundPair w := by
  unfold Generated.round_body Model.Salsa20.roundPair
  simp only [quarter_round_tie]

theorem rounds_tie (w : S) :
    iterN Generated.round_body Generated.round_count w = Model.Salsa20.rounds 10 w := by
  have h : ∀ n w, iterN Generated.round_body n w = Model.Salsa20.rounds n w := by
    intro n
    induction n with
    | zero => intro w; rfl
    | succ n ih => intro w; simp only [iterN, Model.Salsa20.rounds, round_body_tie, ih]
  exact h 10 w

/-- `generate_keystream`, assembled from the generated fragments, is the model's `generate`. -/
theorem generate_tie (c : Model.Salsa20.Cipher) :
    Model.Salsa20.generate c =
      { state := Generated.counter_update c.state,
        keystream := Spec.Salsa20.serialize
          (Spec.Salsa20.add (iterN Generated.round_body Generated.round_count c.state) c.state),
        pos := Generated.pos_after_generate } := by
  rw [rounds_tie]
  obtain ⟨⟨x0,x1,x2,x3,x4,x5,x6,x7,x8,x9,x10,x11,x12,x13,x14,x15⟩, ks, pos⟩ := c
  simp only [Model.Salsa20.generate, Generated.counter_update, Generated.pos_after_generate,
    Model.Salsa20.get, Model.Salsa20.set]
  split <;> rfl

theorem generate_idioms_tie :
    Generated.feed_forward_is_wrapping_add = true ∧ Generated.serialise_is_le_words = true ∧
    Generated.generate_order_ok = true := ⟨rfl, rfl, rfl⟩

theorem refill_tie : Generated.refill_threshold = 64 := rfl

/-- the `state[i] = …` assignments of `Salsa20Cipher::new` build the matrix the model builds. -/
theorem init_state_tie (key eiv : Nat → Byte) :
    Generated.init_state key eiv =
      ⟨0x61707865, le32 (key 0) (key 1) (key 2) (key 3), le32 (key 4) (key 5) (key 6) (key 7),
       le32 (key 8) (key 9) (key 10) (key 11), le32 (key 12) (key 13) (key 14) (key 15), 0x3120646e,
       le32 (eiv 0) (eiv 1) (eiv 2) (eiv 3), le32 (eiv 4) (eiv 5) (eiv 6) (eiv 7), 0, 0,
       0x79622d36, le32 (key 0) (key 1) (key 2) (key 3), le32 (key 4) (key 5) (key 6) (key 7),
       le32 (key 8) (key 9) (key 10) (key 11), le32 (key 12) (key 13) (key 14) (key 15),
       0x6b206574⟩ := rfl

theorem mix_tie (a b c : W32) : Generated.mix a b c = Spec.Lookup3.mix a b c := rfl
theorem final_mix_tie (a b c : W32) : Generated.final_mix a b c = Spec.Lookup3.final a b c := rfl

theorem hashlittle_block_tie (a b c : W32) (k0 k1 k2 k3 k4 k5 k6 k7 k8 k9 k10 k11 : Byte) :
    Generated.hashlittle_block a b c k0 k1 k2 k3 k4 k5 k6 k7 k8 k9 k10 k11 =
      Spec.Lookup3.mix (a + le32 k0 k1 k2 k3) (b + le32 k4 k5 k6 k7) (c + le32 k8 k9 k10 k11) ∧
    Generated.hashlittle_block_threshold = 12 ∧ Generated.hashlittle_block_advance = 12 :=
  ⟨rfl, rfl, rfl⟩

theorem hashlittle2_block_tie (a b c : W32) (k0 k1 k2 k3 k4 k5 k6 k7 k8 k9 k10 k11 : Byte) :
    Generated.hashlittle2_block a b c k0 k1 k2 k3 k4 k5 k6 k7 k8 k9 k10 k11 =
      Spec.Lookup3.mix (a + le32 k0 k1 k2 k3) (b + le32 k4 k5 k6 k7) (c + le32 k8 k9 k10 k11) ∧
    Generated.hashlittle2_block_threshold = 12 ∧ Generated.hashlittle2_block_advance = 12 :=
  ⟨rfl, rfl, rfl⟩

/-- both hand-written copies of the 12-arm tail in the Rust are the model's `tailAdd`. -/
theorem hashlittle_tail_tie (a b c : W32) (k : Bytes) :
    Generated.hashlittle_tail a b c k = Model.Jenkins.tailAdd a b c k := by
  match k with
  | [] | [_] | [_,_] | [_,_,_] | [_,_,_,_] | [_,_,_,_,_] | [_,_,_,_,_,_] | [_,_,_,_,_,_,_]
  | [_,_,_,_,_,_,_,_] | [_,_,_,_,_,_,_,_,_] | [_,_,_,_,_,_,_,_,_,_] | [_,_,_,_,_,_,_,_,_,_,_]
  | [_,_,_,_,_,_,_,_,_,_,_,_] | _ :: _ :: _ :: _ :: _ :: _ :: _ :: _ :: _ :: _ :: _ :: _ :: _ :: _ => rfl

theorem hashlittle2_tail_tie (a b c : W32) (k : Bytes) :
    Generated.hashlittle2_tail a b c k = Model.Jenkins.tailAdd a b c k := by
  match k with
  | [] | [_] | [_,_] | [_,_,_] | [_,_,_,_] | [_,_,_,_,_] | [_,_,_,_,_,_] | [_,_,_,_,_,_,_]
  | [_,_,_,_,_,_,_,_] | [_,_,_,_,_,_,_,_,_] | [_,_,_,_,_,_,_,_,_,_] | [_,_,_,_,_,_,_,_,_,_,_]
  | [_,_,_,_,_,_,_,_,_,_,_,_] | _ :: _ :: _ :: _ :: _ :: _ :: _ :: _ :: _ :: _ :: _ :: _ :: _ :: _ => rfl

theorem hashlittle_init_tie (len initval : W32) :
    Generated.hashlittle_init len initval =
      (0xdeadbeef + len + initval, 0xdeadbeef + len + initval, 0xdeadbeef + len + initval) ∧
    Generated.hashlittle_returns_c = true := ⟨rfl, rfl⟩

theorem hashlittle2_init_tie (len pc pb : W32) :
    Generated.hashlittle2_init len pc pb =
      (0xdeadbeef + len + pc, 0xdeadbeef + len + pc, 0xdeadbeef + len + pc + pb) ∧
    Generated.hashlittle2_outputs_pc_c_pb_b = true := ⟨rfl, rfl⟩

end Cascette.Proofs.CryptoTie
