/-
Proofs/CryptoTie — every definition that lib/rs2lean.py generates from the CURRENT Rust text of
salsa20.rs / jenkins.rs equals the hand-written model definition the C09 theorems are about.
If the Rust source changes, Generated/CryptoSrc.lean changes, and these proofs are re-checked
against what the code says now.
-/
import Cascette.Generated.CryptoSrc
namespace Cascette.Proofs.CryptoTie
open Cascette
open Cascette.Spec.Salsa20 (S)

def iterN {α : Type} (f : α → α) : Nat → α → α
  | 0, x => x
  | n + 1, x => iterN f n (f x)

theorem quarter_round_tie (s : S) (a b c d : Nat) :
    Generated.quarter_round s a b c d = Model.Salsa20.quarterRound s a b c d := rfl

theorem round_body_tie (w : S) : Generated.round_body w = Model.Salsa20.roundPair w := by
  unfold Generated.round_body Model.Salsa20.roundPair
  simp only [quarter_round_tie]

theorem rounds_tie (w : S) :
    iterN Generated.round_body Generated.round_count w = Model.Salsa20.rounds 10 w := by
  have h : ∀ n w, iterN Generated.round_body n w = Model.Salsa20.rounds n w := by
    intro n
    induction n with
    | zero => intro w; rfl
    | succ n ih => intro w; simp only [iterN, Model.Salsa20.rounds, round_body_tie, ih]
  exact h 10 w

/-- `generate_keystream`, assembled from the generated fragments, is the model's `generate`. -/
theorem generate_tie (c : Model.Salsa20.Cipher) :
    Model.Salsa20.generate c =
      { state := Generated.counter_update c.state,
        keystream := Spec.Salsa20.serialize
          (Spec.Salsa20.add (iterN Generated.round_body Generated.round_count c.state) c.state),
        pos := Generated.pos_after_generate } := by
  rw [rounds_tie]
  obtain ⟨⟨x0,x1,x2,x3,x4,x5,x6,x7,x8,x9,x10,x11,x12,x13,x14,x15⟩, ks, pos⟩ := c
  simp only [Model.Salsa20.generate, Generated.counter_update, Generated.pos_after_generate,
    Model.Salsa20.get, Model.Salsa20.set]
  split <;> rfl

theorem generate_idioms_tie :
    Generated.feed_forward_is_wrapping_add = true ∧ Generated.serialise_is_le_words = true ∧
    Generated.generate_order_ok = true := ⟨rfl, rfl, rfl⟩

theorem refill_tie : Generated.refill_threshold = 64 := rfl

/-- the `state[i] = …` assignments of `Salsa20Cipher::new` build the matrix the model builds. -/
theorem init_state_tie (key eiv : Nat → Byte) :
    Generated.init_state key eiv =
      ⟨0x61707865, le32 (key 0) (key 1) (key 2) (key 3), le32 (key 4) (key 5) (key 6) (key 7),
       le32 (key 8) (key 9) (key 10) (key 11), le32 (key 12) (key 13) (key 14) (key 15), 0x3120646e,
       le32 (eiv 0) (eiv 1) (eiv 2) (eiv 3), le32 (eiv 4) (eiv 5) (eiv 6) (eiv 7), 0, 0,
       0x79622d36, le32 (key 0) (key 1) (key 2) (key 3), le32 (key 4) (key 5) (key 6) (key 7),
       le32 (key 8) (key 9) (key 10) (key 11), le32 (key 12) (key 13) (key 14) (key 15),
       0x6b206574⟩ := rfl

theorem mix_tie (a b c : W32) : Generated.mix a b c = Spec.Lookup3.mix a b c := rfl
theorem final_mix_tie (a b c : W32) : Generated.final_mix a b c = Spec.Lookup3.final a b c := rfl

theorem hashlittle_block_tie (a b c : W32) (k0 k1 k2 k3 k4 k5 k6 k7 k8 k9 k10 k11 : Byte) :
    Generated.hashlittle_block a b c k0 k1 k2 k3 k4 k5 k6 k7 k8 k9 k10 k11 =
      Spec.Lookup3.mix (a + le32 k0 k1 k2 k3) (b + le32 k4 k5 k6 k7) (c + le32 k8 k9 k10 k11) ∧
    Generated.hashlittle_block_threshold = 12 ∧ Generated.hashlittle_block_advance = 12 :=
  ⟨rfl, rfl, rfl⟩

theorem hashlittle2_block_tie (a b c : W32) (k0 k1 k2 k3 k4 k5 k6 k7 k8 k9 k10 k11 : Byte) :
    Generated.hashlittle2_block a b c k0 k1 k2 k3 k4 k5 k6 k7 k8 k9 k10 k11 =
      Spec.Lookup3.mix (a + le32 k0 k1 k2 k3) (b + le32 k4 k5 k6 k7) (c + le32 k8 k9 k10 k11) ∧
    Generated.hashlittle2_block_threshold = 12 ∧ Generated.hashlittle2_block_advance = 12 :=
  ⟨rfl, rfl, rfl⟩

/-- both hand-written copies of the 12-arm tail in the Rust are the model's `tailAdd`. -/
theorem hashlittle_tail_tie (a b c : W32) (k : Bytes) :
    Generated.hashlittle_tail a b c k = Model.Jenkins.tailAdd a b c k := by
  match k with
  | [] | [_] | [_,_] | [_,_,_] | [_,_,_,_] | [_,_,_,_,_] | [_,_,_,_,_,_] | [_,_,_,_,_,_,_]
  | [_,_,_,_,_,_,_,_] | [_,_,_,_,_,_,_,_,_] | [_,_,_,_,_,_,_,_,_,_] | [_,_,_,_,_,_,_,_,_,_,_]
  | [_,_,_,_,_,_,_,_,_,_,_,_] | _ :: _ :: _ :: _ :: _ :: _ :: _ :: _ :: _ :: _ :: _ :: _ :: _ :: _ => rfl

theorem hashlittle2_tail_tie (a b c : W32) (k : Bytes) :
    Generated.hashlittle2_tail a b c k = Model.Jenkins.tailAdd a b c k := by
  match k with
  | [] | [_] | [_,_] | [_,_,_] | [_,_,_,_] | [_,_,_,_,_] | [_,_,_,_,_,_] | [_,_,_,_,_,_,_]
  | [_,_,_,_,_,_,_,_] | [_,_,_,_,_,_,_,_,_] | [_,_,_,_,_,_,_,_,_,_] | [_,_,_,_,_,_,_,_,_,_,_]
  | [_,_,_,_,_,_,_,_,_,_,_,_] | _ :: _ :: _ :: _ :: _ :: _ :: _ :: _ :: _ :: _ :: _ :: _ :: _ :: _ => rfl

theorem hashlittle_init_tie (len initval : W32) :
    Generated.hashlittle_init len initval =
      (0xdeadbeef + len + initval, 0xdeadbeef + len + initval, 0xdeadbeef + len + initval) ∧
    Generated.hashlittle_returns_c = true := ⟨rfl, rfl⟩

theorem hashlittle2_init_tie (len pc pb : W32) :
    Generated.hashlittle2_init len pc pb =
      (0xdeadbeef + len + pc, 0xdeadbeef + len + pc, 0xdeadbeef + len + pc + pb) ∧
    Generated.hashlittle2_outputs_pc_c_pb_b = true := ⟨rfl, rfl⟩

/-! ## extension: ARC4 (KSA, PRGA, apply_keystream), per-byte loops, hashlittle control flow -/

/-- `for i in lo..hi { body }` with loop-carried state `σ`. -/
def forRange {σ : Type} (body : σ → Nat → σ) : Nat → Nat → σ → σ
  | 0, _, x => x
  | n + 1, i, x => forRange body n (i + 1) (body x i)

/-- `for byte in data { body }` with loop-carried state `σ`, collecting the rewritten bytes. -/
def forBytes {σ : Type} (body : σ → Byte → σ × Byte) : σ → Bytes → σ × Bytes
  | x, [] => (x, [])
  | x, b :: bs =>
    let (x1, o) := body x b
    let (x2, os) := forBytes body x1 bs
    (x2, o :: os)

theorem slice_swap_tie (s : Array Byte) (a b : Nat) :
    Generated.slice_swap s a b = Model.Arc4.swap s a b := rfl

/-- `next_keystream_byte` as translated = the model's `next`. -/
theorem arc4_next_tie (c : Model.Arc4.Cipher) :
    Generated.arc4_next c.s c.i c.j =
      (((Model.Arc4.next c).1.s, (Model.Arc4.next c).1.i, (Model.Arc4.next c).1.j),
        (Model.Arc4.next c).2) := rfl

theorem init_get (n : Nat) : ∀ (i : Nat) (s : Array Byte) (x : Nat) (_ : x < s.size),
    (forRange Generated.arc4_init_body n i s).size = s.size ∧
    (forRange Generated.arc4_init_body n i s)[x]? =
      if i ≤ x ∧ x < i + n then some (BitVec.ofNat 8 x) else s[x]? := by
  induction n with
  | zero => intro i s x hx; refine ⟨rfl, ?_⟩; simp only [forRange]; rw [if_neg (by omega)]
  | succ n ih =>
    intro i s x hx
    simp only [forRange, Generated.arc4_init_body]
    have h := ih (i + 1) (s.setIfInBounds i (BitVec.ofNat 8 i)) x (by simp only [Array.size_setIfInBounds]; exact hx)
    refine ⟨by rw [h.1, Array.size_setIfInBounds], ?_⟩
    rw [h.2, Array.getElem?_setIfInBounds]
    by_cases h1 : i = x
    · subst h1
      simp only [hx, ↓reduceIte]
      rw [if_neg (by omega), if_pos (by omega)]
    · by_cases h2 : i + 1 ≤ x ∧ x < i + 1 + n
      · rw [if_pos h2, if_pos (by omega)]
      · rw [if_neg h2, if_neg h1, if_neg (by omega)]

/-- the S-box initialisation loop, run from `[fill; len]`, builds the identity permutation the
model starts from. -/
theorem arc4_init_tie :
    forRange Generated.arc4_init_body (Generated.arc4_init_hi - Generated.arc4_init_lo)
        Generated.arc4_init_lo (Array.replicate Generated.arc4_s_len Generated.arc4_s_fill) =
      (Array.range 256).map (BitVec.ofNat 8) := by
  have e1 : Generated.arc4_init_hi - Generated.arc4_init_lo = 256 := rfl
  have e2 : Generated.arc4_init_lo = 0 := rfl
  have e3 : Generated.arc4_s_len = 256 := rfl
  rw [e1, e2, e3]
  apply Array.ext_getElem?
  intro x
  by_cases hx : x < 256
  · rw [(init_get 256 0 _ x (by simp only [Array.size_replicate]; exact hx)).2, if_pos (by omega)]
    simp [hx]
  · have hs := (init_get 256 0 (Array.replicate 256 Generated.arc4_s_fill) 0 (by simp)).1
    rw [Array.getElem?_eq_none (by rw [hs]; simp; omega), Array.getElem?_eq_none (by simp; omega)]

/-- the key-scheduling loop as translated = the model's `ksa` (any number of iterations, any
starting point). -/
theorem arc4_ksa_tie (key : Array Byte) : ∀ (n i : Nat) (j : Byte) (s : Array Byte),
    (forRange (fun (x : Array Byte × Byte) i => Generated.arc4_ksa_body key x.1 i x.2) n i (s, j)).1 =
      Model.Arc4.ksa key n i j s := by
  intro n
  induction n with
  | zero => intro i j s; rfl
  | succ n ih =>
    intro i j s
    simp only [forRange, Model.Arc4.ksa, Generated.arc4_ksa_body, slice_swap_tie]
    exact ih _ _ _

/-- `Arc4Cipher::new`, assembled from the translated guard, struct literal, both loops and the
initial `j`, is the model's `new`. -/
theorem arc4_new_tie (key : Bytes) :
    Model.Arc4.new key =
      (if Generated.arc4_key_rejected key.length then none else
      some { s := (forRange (fun (x : Array Byte × Byte) i => Generated.arc4_ksa_body key.toArray x.1 i x.2)
                    (Generated.arc4_ksa_hi - Generated.arc4_ksa_lo) Generated.arc4_ksa_lo
                    (forRange Generated.arc4_init_body (Generated.arc4_init_hi - Generated.arc4_init_lo)
                        Generated.arc4_init_lo
                        (Array.replicate Generated.arc4_s_len Generated.arc4_s_fill),
                      Generated.arc4_ksa_j0)).1,
             i := Generated.arc4_i0, j := Generated.arc4_j0 }) ∧
    Generated.arc4_new_flow_ok = true := by
  refine ⟨?_, rfl⟩
  rw [arc4_init_tie, arc4_ksa_tie]
  unfold Model.Arc4.new Generated.arc4_key_rejected
  cases key with
  | nil => rfl
  | cons x xs =>
    simp only [List.isEmpty_cons, Bool.false_or, List.length_cons, decide_eq_true_eq]
    have e : ¬ (xs.length + 1 = 0) := by omega
    simp only [e, false_or]
    rfl

/-- the translated loop body on the tuple of fields. -/
def arc4Body (x : Array Byte × Byte × Byte) (b : Byte) : (Array Byte × Byte × Byte) × Byte :=
  Generated.arc4_apply_body x.1 x.2.1 x.2.2 b

theorem arc4_apply_body_tie (c : Model.Arc4.Cipher) (b : Byte) :
    arc4Body (c.s, c.i, c.j) b =
      (((Model.Arc4.next c).1.s, (Model.Arc4.next c).1.i, (Model.Arc4.next c).1.j),
        b ^^^ (Model.Arc4.next c).2) := rfl

/-- the per-byte loop of `Arc4Cipher::apply_keystream` as translated = the model's `apply`;
`encrypt` is the same XOR map and `decrypt` calls `encrypt`. -/
theorem arc4_apply_tie (m : Bytes) : ∀ (c : Model.Arc4.Cipher),
    forBytes arc4Body (c.s, c.i, c.j) m =
      (((Model.Arc4.apply c m).1.s, (Model.Arc4.apply c m).1.i, (Model.Arc4.apply c m).1.j),
        (Model.Arc4.apply c m).2) := by
  induction m with
  | nil => intro c; rfl
  | cons b bs ih =>
    intro c
    simp only [forBytes, Model.Arc4.apply, arc4_apply_body_tie, ih (Model.Arc4.next c).1]

theorem arc4_idioms_tie :
    Generated.arc4_encrypt_is_xor_map = true ∧ Generated.arc4_decrypt_is_encrypt = true := ⟨rfl, rfl⟩

/-- `generate_keystream` on the three fields. -/
def genFields (state : S) (keystream : Bytes) (pos : Nat) : S × Bytes × Nat :=
  let c := Model.Salsa20.generate { state := state, keystream := keystream, pos := pos }
  (c.state, c.keystream, c.pos)

/-- the translated loop body on the tuple of fields. -/
def salsaBody (x : S × Bytes × Nat) (b : Byte) : (S × Bytes × Nat) × Byte :=
  Generated.salsa_apply_body genFields x.1 x.2.1 x.2.2 b

/-- the body of the per-byte loop of `Salsa20Cipher::apply_keystream` as translated (refill test,
XOR with `keystream[keystream_pos]`, position increment) = the model's `stepByte`. -/
theorem salsa_apply_body_tie (c : Model.Salsa20.Cipher) (b : Byte) :
    salsaBody (c.state, c.keystream, c.pos) b =
      (((Model.Salsa20.stepByte c b).1.state, (Model.Salsa20.stepByte c b).1.keystream,
        (Model.Salsa20.stepByte c b).1.pos), (Model.Salsa20.stepByte c b).2) := by
  unfold salsaBody Generated.salsa_apply_body Model.Salsa20.stepByte genFields
  by_cases h : c.pos ≥ 64
  · simp only [h, ↓reduceIte]
  · simp only [h, ↓reduceIte]

/-- … and the whole loop = the model's `apply`. -/
theorem salsa_apply_tie (m : Bytes) : ∀ (c : Model.Salsa20.Cipher),
    forBytes salsaBody (c.state, c.keystream, c.pos) m =
      (((Model.Salsa20.apply c m).1.state, (Model.Salsa20.apply c m).1.keystream,
        (Model.Salsa20.apply c m).1.pos), (Model.Salsa20.apply c m).2) := by
  induction m with
  | nil => intro c; rfl
  | cons b bs ih =>
    intro c
    simp only [forBytes, Model.Salsa20.apply, salsa_apply_body_tie, ih (Model.Salsa20.stepByte c b).1]

/-- `u32::try_from(len).unwrap_or(u32::MAX)` as translated = the model's saturating `len32`. -/
theorem hashlittle_len_tie (n : Nat) :
    Generated.hashlittle_len n = Model.Jenkins.len32 n ∧
    Generated.hashlittle2_len n = Model.Jenkins.len32 n := by
  unfold Generated.hashlittle_len Generated.hashlittle2_len Generated.u32_try_from Model.Jenkins.len32
  by_cases h : n < 2 ^ 32 <;> simp [h]

/-- the `while k.len() > thr` loop over a generated block function. -/
def whileBlocks (block : W32 → W32 → W32 → Byte → Byte → Byte → Byte → Byte → Byte → Byte → Byte →
      Byte → Byte → Byte → Byte → W32 × W32 × W32) (thr adv : Nat) :
    Nat → W32 → W32 → W32 → Bytes → (W32 × W32 × W32) × Bytes
  | 0, a, b, c, k => ((a, b, c), k)
  | fuel + 1, a, b, c, k =>
    if k.length > thr then
      match k with
      | k0 :: k1 :: k2 :: k3 :: k4 :: k5 :: k6 :: k7 :: k8 :: k9 :: k10 :: k11 :: _ =>
        let (a, b, c) := block a b c k0 k1 k2 k3 k4 k5 k6 k7 k8 k9 k10 k11
        whileBlocks block thr adv fuel a b c (k.drop adv)
      | _ => ((a, b, c), k)
    else ((a, b, c), k)

theorem whileBlocks_tie (block) (hb : ∀ a b c k0 k1 k2 k3 k4 k5 k6 k7 k8 k9 k10 k11,
      block a b c k0 k1 k2 k3 k4 k5 k6 k7 k8 k9 k10 k11 =
        Spec.Lookup3.mix (a + le32 k0 k1 k2 k3) (b + le32 k4 k5 k6 k7) (c + le32 k8 k9 k10 k11)) :
    ∀ (fuel : Nat) (a b c : W32) (k : Bytes), k.length ≤ fuel →
      whileBlocks block 12 12 fuel a b c k = Model.Jenkins.blocks a b c k := by
  intro fuel
  induction fuel with
  | zero =>
    intro a b c k hk
    have : k = [] := List.eq_nil_of_length_eq_zero (by omega)
    subst this; rfl
  | succ fuel ih =>
    intro a b c k hk
    match k with
    | [] | [_] | [_,_] | [_,_,_] | [_,_,_,_] | [_,_,_,_,_] | [_,_,_,_,_,_] | [_,_,_,_,_,_,_]
    | [_,_,_,_,_,_,_,_] | [_,_,_,_,_,_,_,_,_] | [_,_,_,_,_,_,_,_,_,_] | [_,_,_,_,_,_,_,_,_,_,_]
    | [_,_,_,_,_,_,_,_,_,_,_,_] => rfl
    | k0 :: k1 :: k2 :: k3 :: k4 :: k5 :: k6 :: k7 :: k8 :: k9 :: k10 :: k11 :: k12 :: rest =>
      have hl : (k0 :: k1 :: k2 :: k3 :: k4 :: k5 :: k6 :: k7 :: k8 :: k9 :: k10 :: k11 :: k12 :: rest).length > 12 := by
        simp only [List.length_cons]; omega
      simp only [whileBlocks, if_pos hl, hb, Model.Jenkins.blocks, List.drop_succ_cons, List.drop_zero]
      exact ih _ _ _ _ (by simp only [List.length_cons] at hk ⊢; omega)

/-- `hashlittle`, assembled from the translated fragments in the order the translator checked
(initial registers from the translated length word, empty-input return, block loop, tail match,
`final_mix`, result `c`), is the model's `hashlittle`. -/
theorem hashlittle_assembly_tie (data : Bytes) (initval : W32) :
    Model.Jenkins.hashlittle data initval =
      (let (a, b, c) := Generated.hashlittle_init (Generated.hashlittle_len data.length) initval
       if data.isEmpty then Generated.hashlittle_empty_return a b c else
       let ((a, b, c), k) := whileBlocks Generated.hashlittle_block
         Generated.hashlittle_block_threshold Generated.hashlittle_block_advance data.length a b c data
       match Generated.hashlittle_tail a b c k with
       | some (a, b, c) => (Generated.final_mix a b c).2.2
       | none => c) ∧
    Generated.hashlittle_flow_ok = true := by
  refine ⟨?_, rfl⟩
  have hb := fun a b c k0 k1 k2 k3 k4 k5 k6 k7 k8 k9 k10 k11 =>
    (hashlittle_block_tie a b c k0 k1 k2 k3 k4 k5 k6 k7 k8 k9 k10 k11).1
  have e1 : Generated.hashlittle_block_threshold = 12 := rfl
  have e2 : Generated.hashlittle_block_advance = 12 := rfl
  simp only [e1, e2, whileBlocks_tie _ hb data.length _ _ _ data (Nat.le_refl _),
    (hashlittle_len_tie data.length).1, (hashlittle_init_tie _ _).1, hashlittle_tail_tie, final_mix_tie]
  rfl

/-- the same for `hashlittle2_impl` (results `*pc = c; *pb = b`). -/
theorem hashlittle2_assembly_tie (key : Bytes) (pc pb : W32) :
    Model.Jenkins.hashlittle2 key pc pb =
      (let (a, b, c) := Generated.hashlittle2_init (Generated.hashlittle2_len key.length) pc pb
       if key.isEmpty then Generated.hashlittle2_empty_return a b c pc pb else
       let ((a, b, c), k) := whileBlocks Generated.hashlittle2_block
         Generated.hashlittle2_block_threshold Generated.hashlittle2_block_advance key.length a b c key
       match Generated.hashlittle2_tail a b c k with
       | some (a, b, c) => ((Generated.final_mix a b c).2.2, (Generated.final_mix a b c).2.1)
       | none => (c, b)) ∧
    Generated.hashlittle2_flow_ok = true := by
  refine ⟨?_, rfl⟩
  have hb := fun a b c k0 k1 k2 k3 k4 k5 k6 k7 k8 k9 k10 k11 =>
    (hashlittle2_block_tie a b c k0 k1 k2 k3 k4 k5 k6 k7 k8 k9 k10 k11).1
  have e1 : Generated.hashlittle2_block_threshold = 12 := rfl
  have e2 : Generated.hashlittle2_block_advance = 12 := rfl
  simp only [e1, e2, whileBlocks_tie _ hb key.length _ _ _ key (Nat.le_refl _),
    (hashlittle_len_tie key.length).2, (hashlittle2_init_tie _ _ _).1, hashlittle2_tail_tie, final_mix_tie]
  rfl

end Cascette.Proofs.CryptoTie
