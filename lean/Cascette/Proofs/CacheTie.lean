/-
Proofs/CacheTie — the hand-written cache models compute with exactly the expressions
lib/rs2lean_cache.py extracts from the current Rust text (Generated/CacheSrc.lean, regenerated on
every `./check C10`).  A changed comparison / constant / subtraction order / counter update in
memory_cache.rs, disk_cache.rs or config.rs changes the generated side and one of these
theorems stops compiling.
-/
import Cascette.Generated.CacheSrc
import Cascette.Model.CacheExt
namespace Cascette.Proofs.CacheTie
open Cascette.Spec.CacheMap (Key Val)
open Cascette.Model Cascette.Model.CacheAssoc Cascette.Model.CacheExt
open Cascette.Generated

section Mem
open Cascette.Model.MemCache

/-- `needs_eviction`: both comparisons (`>=`) and the `||` -/
theorem needs_eviction_tie (cfg : Config) (s : State) :
    needsEviction cfg s = CacheSrc.needs_eviction s.count cfg.maxEntries s.bytes cfg.maxBytes := by
  unfold needsEviction CacheSrc.needs_eviction
  cases cfg.maxBytes <;> rfl

/-- the eviction target `max_entries * 90 / 100` -/
theorem target_tie (cfg : Config) : target cfg = CacheSrc.target_entries cfg.maxEntries := rfl

/-- `perform_eviction`: guard, early return (`<=`), dispatch on the policy -/
theorem perform_eviction_tie (cfg : Config) (s : State) (vs : List Key) :
    performEviction cfg s vs =
      if !CacheSrc.needs_eviction s.count cfg.maxEntries s.bytes cfg.maxBytes then s
      else if CacheSrc.eviction_returns_early s.count (CacheSrc.target_entries cfg.maxEntries) = true then s
      else match cfg.policy with
        | .ttl => evictKeys s (expiredKeys s.store)
        | _ => evictKeys s vs := by
  unfold performEviction
  rw [needs_eviction_tie, target_tie]
  unfold CacheSrc.eviction_returns_early
  by_cases h1 : (!CacheSrc.needs_eviction s.count cfg.maxEntries s.bytes cfg.maxBytes) = true
  · rw [if_pos h1, if_pos h1]
  · rw [if_neg h1, if_neg h1]
    by_cases h2 : s.count ≤ (CacheSrc.target_entries cfg.maxEntries : Int)
    · rw [if_pos h2, if_pos (by simpa using h2)]
    · rw [if_neg h2, if_neg (by simpa using h2)]
      cases cfg.policy <;> rfl

/-- `evict_count = current_entries - target_entries` (no wrap: reached only past the early return) -/
theorem evict_count_tie (cfg : Config) (s : State)
    (h : CacheSrc.eviction_returns_early s.count (CacheSrc.target_entries cfg.maxEntries) = false) :
    (evictN cfg s : Int) = CacheSrc.evict_count s.count (CacheSrc.target_entries cfg.maxEntries) := by
  unfold CacheSrc.eviction_returns_early at h
  simp only [decide_eq_false_iff_not] at h
  unfold evictN CacheSrc.evict_count
  rw [target_tie]
  omega

/-- which function each policy runs, and with which argument (Ttl: no count) -/
theorem dispatch_tie : CacheSrc.dispatch =
    [("Lru", "evict_lru", "evict_count"), ("Lfu", "evict_lfu", "evict_count"), ("Fifo", "evict_fifo", "evict_count"),
     ("Random", "evict_random", "evict_count"), ("Ttl", "evict_expired", "")] := rfl

/-- the sort key per policy (`metric`: Lru last access, Lfu access count, Fifo creation), ascending
`sort_by_key`, the first `count` taken, and per removed entry the updates of `removeCounted` -/
theorem sorting_evictions_tie : CacheSrc.sorting_evictions =
    [("evict_lru", "get_last_accessed", "sort_by_key", "count", "-1", "-size"),
     ("evict_lfu", "get_access_count", "sort_by_key", "count", "-1", "-size"),
     ("evict_fifo", "created_at", "sort_by_key", "count", "-1", "-size")] ∧
    CacheSrc.evict_random_updates = ("-1", "-size") ∧ CacheSrc.evict_expired_updates = ("-1", "-size") ∧
    (∀ e : Entry, metric .lru e = e.last ∧ metric .lfu e = e.hits ∧ metric .fifo e = e.created) :=
  ⟨rfl, rfl, rfl, fun _ => ⟨rfl, rfl, rfl⟩⟩

/-- what `remove` and every eviction loop do to the counters for a stored key -/
theorem remove_tie (s : State) (k : Key) (e : Entry) (h : lookup k s.store = some e) :
    ((removeCounted s k).count, (removeCounted s k).bytes) = CacheSrc.mem_remove s.count s.bytes e.size := by
  unfold removeCounted CacheSrc.mem_remove; rw [h]

/-- a fresh entry starts with access count 1; a hit adds 1 -/
theorem access_count_tie (s : State) (v : Val) (short : Bool) (k : Key) (e : Entry)
    (hl : lookup k s.store = some e) (hs : e.short = false) :
    (newEntry s v short).hits = CacheSrc.new_entry_access_count ∧
    lookup k (Model.MemCache.get s k).1.store = some { e with last := s.clock, hits := e.hits + CacheSrc.access_count_step } := by
  refine ⟨rfl, ?_⟩
  unfold Model.MemCache.get
  rw [hl]
  simp only [hs, Bool.false_eq_true, if_false]
  unfold lookup
  simp only [if_true]
  rfl

/-- `put_with_ttl`: evict first, then insert; counter updates of the replace and new-entry branches -/
theorem put_tie (cfg : Config) (s : State) (k : Key) (v : Val) (short : Bool) (vs : List Key) :
    CacheSrc.mem_put_evicts_before_insert = true ∧
    putCore cfg s k v short vs = insertCounted (preEvict cfg s vs) k (newEntry (preEvict cfg s vs) v short) ∧
    preEvict cfg s vs = (if CacheSrc.needs_eviction s.count cfg.maxEntries s.bytes cfg.maxBytes then performEviction cfg s vs else s) := by
  refine ⟨rfl, rfl, ?_⟩
  unfold preEvict; rw [needs_eviction_tie]

theorem insert_tie (s : State) (k : Key) (e : Entry) :
    match lookup k s.store with
    | some old => (insertCounted s k e).count = s.count ∧
                  (insertCounted s k e).bytes = CacheSrc.mem_replace_bytes s.bytes old.size e.size
    | none => ((insertCounted s k e).count, (insertCounted s k e).bytes) = CacheSrc.mem_insert_new s.count s.bytes e.size := by
  unfold insertCounted
  cases h : lookup k s.store with
  | some old => exact ⟨rfl, rfl⟩
  | none => rfl

/-- the expired path of `get` and `contains` -/
theorem sweep_tie (s : State) (k : Key) (e e' : Entry) (h : lookup k s.store = some e') :
    ((sweep s k e).count, (sweep s k e).bytes) = CacheSrc.mem_get_expired s.count s.bytes e.size ∧
    ((sweep s k e).count, (sweep s k e).bytes) = CacheSrc.mem_contains_expired s.count s.bytes e.size := by
  unfold sweep CacheSrc.mem_get_expired CacheSrc.mem_contains_expired; rw [h]; exact ⟨rfl, rfl⟩

theorem clear_size_tie (cfg : Config) (s : State) :
    ((step cfg s .clear).1.count, (step cfg s .clear).1.bytes) = CacheSrc.mem_clear ∧
    (step cfg s .size).2 = .num (CacheSrc.mem_size s.count) := ⟨rfl, rfl⟩

/-- hit / miss bookkeeping: `get` records a hit exactly on the path that returns a value;
`miss_count = get_count - hit_count` -/
theorem metrics_tie (m : Metrics) :
    CacheSrc.mem_get_records = [(false, "none"), (true, "some"), (false, "none")] ∧
    m.misses = CacheSrc.mem_miss_count m.gets m.hits ∧ m.misses = CacheSrc.disk_miss_count m.gets m.hits :=
  ⟨rfl, rfl, rfl⟩

/-- the cleanup task shares the map and both counters with the cache and updates them per removed
entry as `removeCounted` does (so `cleanupTick` = `evictKeys` over the expired keys) -/
theorem cleanup_tie (s : State) (k : Key) (e : Entry) (h : lookup k s.store = some e) :
    CacheSrc.cleanup_shares = [true, true, true] ∧
    ((removeCounted s k).count, (removeCounted s k).bytes) = CacheSrc.cleanup_removed s.count s.bytes e.size := by
  refine ⟨rfl, ?_⟩
  unfold removeCounted CacheSrc.cleanup_removed; rw [h]

/-- the TTL classes against `is_expired` (`now >= expires`, `expires = created + ttl`): a TTL not
above the elapsed time has ended (also a TTL of 0 with no elapsed time), one above it has not -/
theorem ttl_class_tie (created ttl now : Nat) :
    (ttl ≤ now - created → created ≤ now → CacheSrc.mem_is_expired now (some (created + ttl)) = true ∧
                                           CacheSrc.disk_is_expired now (some (created + ttl)) = true) ∧
    (now - created < ttl → CacheSrc.mem_is_expired now (some (created + ttl)) = false ∧
                          CacheSrc.disk_is_expired now (some (created + ttl)) = false) := by
  unfold CacheSrc.mem_is_expired CacheSrc.disk_is_expired
  simp only [decide_eq_true_eq, decide_eq_false_iff_not]
  omega

/-- `MemoryCacheConfig::validate` -/
theorem mem_validate_tie (mx : Nat) (mb : Option Nat) (cz : Bool) :
    Mem.validate mx mb cz = CacheSrc.mem_validate mx mb cz ∧ CacheSrc.mem_new_validates = true := by
  refine ⟨?_, rfl⟩
  unfold Mem.validate CacheSrc.mem_validate
  by_cases h1 : mx = 0
  · simp [h1]
  · cases mb with
    | none => cases cz <;> simp [h1]
    | some b =>
      by_cases h2 : b = 0
      · simp [h1, h2]
      · cases cz <;> simp [h1, h2]

/-- an accepted configuration has `max_entries ≥ 1` and a byte limit ≥ 1 — the hypotheses of the
count-bound theorems -/
theorem mem_validate_bounds (mx : Nat) (mb : Option Nat) (cz : Bool) (h : Mem.validate mx mb cz = true) :
    1 ≤ mx ∧ (∀ b, mb = some b → 1 ≤ b) ∧ cz = false := by
  unfold Mem.validate at h
  by_cases h1 : mx = 0
  · simp [h1] at h
  · by_cases h2 : mb = some 0
    · simp [h1, h2] at h
    · cases cz
      · refine ⟨by omega, ?_, rfl⟩
        intro b hb; subst hb
        have : b ≠ 0 := fun h0 => h2 (by rw [h0])
        omega
      · simp [h1, h2] at h

end Mem

section Disk
open Cascette.Model.DiskCache

theorem disk_put_tie (s : State) (k : Key) (v : Val) (short : Bool) :
    match lookup k s.index with
    | some old => (putCore s k v short).count = s.count ∧
                  (putCore s k v short).bytes = CacheSrc.disk_replace_bytes s.bytes old.size v.length
    | none => ((putCore s k v short).count, (putCore s k v short).bytes) = CacheSrc.disk_insert_new s.count s.bytes v.length := by
  unfold putCore
  cases h : lookup k s.index with
  | some old => exact ⟨rfl, rfl⟩
  | none => rfl

/-- the disk cleanup task adjusts the cache's own counters, per expired entry as `dropIfExpired` does -/
theorem disk_cleanup_tie (s : State) (k : Key) (e : DEntry) (h : lookup k s.index = some e) (hs : e.short = true) :
    CacheSrc.disk_cleanup_shares = [true, true] ∧
    ((Disk.dropIfExpired s k).count, (Disk.dropIfExpired s k).bytes) = CacheSrc.disk_cleanup_removed s.count s.bytes 1 e.size := by
  refine ⟨rfl, ?_⟩
  unfold Disk.dropIfExpired CacheSrc.disk_cleanup_removed
  rw [h]; dsimp only; rw [if_pos hs]
  rfl

theorem disk_size_tie (s : State) : size s = CacheSrc.disk_size s.count s.files.length := rfl

theorem disk_validate_tie (mf : Nat) (mb : Option Nat) (cz sz sub : Bool) (lv : Nat) :
    Disk.validate mf mb cz sz sub lv = CacheSrc.disk_validate mf mb cz sz sub lv ∧ CacheSrc.disk_new_validates = true := by
  refine ⟨?_, rfl⟩
  unfold Disk.validate CacheSrc.disk_validate
  by_cases h1 : mf = 0
  · simp [h1]
  · by_cases h3 : lv = 0
    · cases mb with
      | none => cases cz <;> cases sz <;> cases sub <;> simp [h1, h3]
      | some b =>
        by_cases h2 : b = 0
        · simp [h1, h2]
        · cases cz <;> cases sz <;> cases sub <;> simp [h1, h2, h3]
    · cases mb with
      | none => cases cz <;> cases sz <;> cases sub <;> simp [h1, h3]
      | some b =>
        by_cases h2 : b = 0
        · simp [h1, h2]
        · cases cz <;> cases sz <;> cases sub <;> simp [h1, h2, h3]

end Disk

end Cascette.Proofs.CacheTie
