/-
Proofs/ZbsdiffTie — the hand-written ZBSDIFF models (Model/Bspatch, Model/Zbsdiff) compute with
exactly the wire constants, limits and guards that lib/rs2lean_zbsdiff.py extracts from the CURRENT
Rust source (lean/Cascette/Generated/ZbsdiffSrc.lean, regenerated on every `./check C16`).

If someone changes the signature, the endianness attributes, a header field (type / order), the
1 GB or 10 MB limits, a comparison of either `validate`, the 24-byte record, a sign mask, the
minimum match 4, the 256-byte extra chunk, the seek written into an extra-only entry, the order of
the blocks, the 1024-byte buffer clamp, the 8192 default or the 32-byte floor in /repo, the
generated file changes and one of these theorems stops checking.
-/
import Cascette.Generated.ZbsdiffSrc
import Cascette.Proofs.Zbsdiff
namespace Cascette.Proofs.ZbsdiffTie
open Cascette
open Cascette.Spec.Bspatch
open Cascette.Model.Bspatch
open Cascette.Model.Zbsdiff
open Cascette.Generated

/-- byte offset of a header field = sum of the widths declared before it. -/
def offsetOf (name : String) : List (String × Nat) → Nat
  | [] => 0
  | (n, w) :: rest => if n = name then 0 else w + offsetOf name rest

def widthOf (name : String) (fs : List (String × Nat)) : Nat :=
  ((fs.find? (·.1 = name)).map (·.2)).getD 0

/-- `ZBSDIFF1_SIGNATURE` -/
theorem signature_tie : magic = ZbsdiffSrc.signature.map (BitVec.ofNat 8) := by decide

/-- the header is read and written little-endian and its sizes are `i64` (what `i64OfLe` / `i64Le`
model). -/
theorem endianness_tie :
    ZbsdiffSrc.read_little_endian = true ∧ ZbsdiffSrc.write_little_endian = true ∧
    ZbsdiffSrc.size_fields_signed = true := by decide

/-- header offsets: every offset / width the model's `readHeader` uses is the one implied by the
struct's field list; 32 bytes in total (= `minimum_patch_size`'s constant = `parse_from_patch`'s floor). -/
theorem layout_tie :
    offsetOf "signature" ZbsdiffSrc.fields = 0 ∧
    ctlSizeOff = offsetOf "control_size" ZbsdiffSrc.fields ∧
    diffSizeOff = offsetOf "diff_size" ZbsdiffSrc.fields ∧
    outSizeOff = offsetOf "output_size" ZbsdiffSrc.fields ∧
    (∀ n ∈ ["signature", "control_size", "diff_size", "output_size"], widthOf n ZbsdiffSrc.fields = fieldLen) ∧
    headerLen = (ZbsdiffSrc.fields.map (·.2)).sum ∧
    headerLen = ZbsdiffSrc.header_bytes ∧ headerLen = ZbsdiffSrc.parse_floor := by decide

/-- `MAX_SIZE`, `MAX_OP_SIZE` -/
theorem limits_tie : maxSize = ZbsdiffSrc.max_size ∧ maxOp = ZbsdiffSrc.max_op_size := ⟨rfl, rfl⟩

/-- `ZbsdiffHeader::validate`: the model accepts exactly the headers none of the extracted
comparisons rejects. -/
theorem header_valid_tie (h : Header) : h.valid = !ZbsdiffSrc.validate_rejects h.ctl h.diff h.out := rfl

/-- `ControlEntry::validate`: the guard of the model's record loop is the extracted one. -/
theorem entry_guard_tie (d e : Int) :
    (d < 0 ∨ e < 0 ∨ d > (maxOp : Nat) ∨ e > (maxOp : Nat)) ↔ ZbsdiffSrc.entry_rejects d e = true := by
  have e1 : ((maxOp : Nat) : Int) = 10000000 := rfl
  have e2 : ((ZbsdiffSrc.max_op_size : Nat) : Int) = 10000000 := rfl
  simp only [ZbsdiffSrc.entry_rejects, Bool.or_eq_true, decide_eq_true_eq, e1, e2]
  omega

/-- one round of the record loop of `from_compressed` with the extracted record size and guard. -/
theorem record_loop_tie (l : Bytes) (h0 : l.length ≠ 0) :
    parseRecords l =
      if l.length < ZbsdiffSrc.record_bytes then .error .ctlTrunc else
      if ZbsdiffSrc.entry_rejects (offtin (l.take 8)) (offtin ((l.drop 8).take 8)) then .error .badEntry else
      match parseRecords (l.drop ZbsdiffSrc.record_bytes) with
      | .error x => .error x
      | .ok cs => .ok (⟨(offtin (l.take 8)).toNat, (offtin ((l.drop 8).take 8)).toNat, offtin ((l.drop 16).take 8)⟩ :: cs) := by
  rw [parseRecords]
  simp only [h0, if_false, ZbsdiffSrc.record_bytes]
  by_cases hl : l.length < 24
  · simp only [hl, if_true]
  · simp only [hl, if_false]
    by_cases hg : ZbsdiffSrc.entry_rejects (offtin (l.take 8)) (offtin ((l.drop 8).take 8)) = true
    · rw [if_pos hg, if_pos ((entry_guard_tie _ _).mpr hg)]
    · rw [if_neg hg, if_neg (fun hh => hg ((entry_guard_tie _ _).mp hh))]
      rfl

/-- a record is `diff_size ‖ extra_size ‖ seek_offset`, 8 bytes each, read and written in that order. -/
theorem record_tie (c : Ctl) :
    encodeCtl [c] = offtout c.diff ++ offtout c.extra ++ offtout c.seek ∧
    (encodeCtl [c]).length = ZbsdiffSrc.record_bytes ∧
    ZbsdiffSrc.record_fields = ["diff_size", "extra_size", "seek_offset"] ∧
    ZbsdiffSrc.record_fields_written = ZbsdiffSrc.record_fields := by
  refine ⟨by simp [encodeCtl], ?_, by decide, by decide⟩
  simp [encodeCtl, Proofs.Bspatch.offtout_length, ZbsdiffSrc.record_bytes]

/-- the model's `% 128` / `≥ 128` / `+ 128` on byte 7 are the extracted masks `& 0x7F`, `& 0x80`, `|= 0x80`. -/
theorem sign_mask_tie :
    ∀ n < 256, n &&& ZbsdiffSrc.offtin_magnitude_mask = n % 128 ∧
      (n &&& ZbsdiffSrc.offtin_sign_mask ≠ 0 ↔ n ≥ 128) ∧
      n ||| ZbsdiffSrc.offtout_sign_bit = n % 128 + 128 := by decide +kernel

/-- `build_chunked_patch`: the model's loop is run with the extracted extra-chunk cap and the seek
the current source writes into an extra-only entry. -/
theorem chunked_params_tie (maxBlk : Nat) (old new : Bytes) :
    chunkedBlocks maxBlk old new =
      chunkedLoop maxBlk ZbsdiffSrc.extra_chunk (fun _ => ZbsdiffSrc.chunked_extra_entry_seek) new.length 0 old new := rfl

/-- one round of the chunked loop with the extracted minimum match and entry literals. -/
theorem chunked_step_tie (maxBlk xcap : Nat) (seekOf : Nat → Int) (f p : Nat) (o n : Bytes) (hn : n ≠ []) :
    chunkedLoop maxBlk xcap seekOf (f + 1) p o n =
      if matchLen maxBlk o n ≥ ZbsdiffSrc.min_match then
        let k := matchLen maxBlk o n
        let r := chunkedLoop maxBlk xcap seekOf f (p + k) (o.drop k) (n.drop k)
        ⟨⟨k, ZbsdiffSrc.chunked_diff_entry_extra, ZbsdiffSrc.chunked_diff_entry_seek⟩ :: r.ctl,
         subBytes (n.take k) (padTake k o) ++ r.diff, r.extra⟩
      else
        let e := min n.length xcap
        let r := chunkedLoop maxBlk xcap seekOf f p o (n.drop e)
        ⟨⟨ZbsdiffSrc.chunked_extra_entry_diff, e, seekOf p⟩ :: r.ctl, r.diff, n.take e ++ r.extra⟩ := by
  rw [chunkedLoop]
  simp only [hn, if_false]
  rfl

/-- the default `max_diff_block_size` is within the per-operation limit, so with it the chunked
builder cannot refuse content within the 1 GB header limit (`chunked_total`). -/
theorem default_block_tie : ZbsdiffSrc.default_max_diff_block ≤ maxOp := by decide

/-- `build_optimized_patch` as extracted: the control entries of `compute_diff` go to
`ControlBlock::with_entries` as they are, the diff / extra streams to `build_patch_internal` as they
are, and `max_diff_block_size` is not read — so the model's suffix builder is the same function for
every configured block size. -/
theorem optimized_builder_tie :
    ZbsdiffSrc.optimized_entries_arg = "result.control" ∧
    ZbsdiffSrc.optimized_internal_args = ["control_block", "result.diff_data", "result.extra_data"] ∧
    ZbsdiffSrc.optimized_block_size_reads = 0 ∧
    ∀ (maxBlk : Nat) (sa : Array Nat) (old new : Bytes), suffixBlk maxBlk sa old new = suffix sa old new :=
  ⟨by decide, by decide, by decide, fun _ _ _ _ => rfl⟩

/-- `with_buffer_size` clamp and `ZbsdiffPatcher::new` default. -/
theorem buffer_tie : (∀ b, clampBuf b = max b ZbsdiffSrc.min_buffer) ∧ defaultBuf = ZbsdiffSrc.default_buffer :=
  ⟨fun _ => rfl, rfl⟩

/-- layout after the header: control, diff, extra (`containerBuild`), all three readers carry the
block-size guard, and both apply entry points run the decode steps in the order of `decodePatch`. -/
theorem block_order_tie :
    ZbsdiffSrc.block_order = ["control", "diff", "extra"] ∧ ZbsdiffSrc.block_size_guards = 3 ∧
    ZbsdiffSrc.decode_steps_in_order = true := by decide

end Cascette.Proofs.ZbsdiffTie
