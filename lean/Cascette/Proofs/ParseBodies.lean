/-
Proofs/ParseBodies — lemmas for the complete parser models of Model/ParseBodies (property C02).
-/
import Cascette.Model.ParseBodies
namespace Cascette.Proofs.ParseBodies
open Cascette Cascette.Model.ParseBodies
open Cascette.Model.Integrity (slice leNat byteAt)

/-! ## Patch index -/
namespace PIdx
open Cascette.Model.ParseBodies.PIdx

/-- behind the guard of the entry parser every source slice is inside the input. -/
theorem slices_in_range (ks len : Nat) (h : ¬ len < esize ks) :
    (entrySlices ks).any (fun s => decide (len < s.1 + s.2)) = false := by
  unfold esize at h
  simp only [entrySlices, List.any_cons, List.any_nil, Bool.or_false, Bool.or_eq_false_iff,
    decide_eq_false_iff_not]
  omega

/-- `PatchIndexEntry::parse` as written: no slice out of range, for every key size and length. -/
theorem entry_no_panic (ks len : Nat) : entryG true ks len ≠ .panic := by
  unfold entryG
  by_cases h16 : 16 < ks
  · simp [h16]
  · by_cases hl : len < esize ks
    · simp [hl]
    · simp [h16, hl, slices_in_range ks len hl]

/-- the result of the entry parser as written, in closed form. -/
theorem entry_eq (ks len : Nat) :
    entryG true ks len = if 16 < ks ∨ len < esize ks then .err else .ok := by
  unfold entryG
  by_cases h16 : 16 < ks
  · simp [h16]
  · by_cases hl : len < esize ks
    · simp [hl]
    · simp [h16, hl, slices_in_range ks len hl]

/-- WITHOUT the key-size clause a key size above 16 with enough input reaches `key[..ks]` of a
16-byte array. -/
theorem entry_unguarded_panics (ks len : Nat) (h16 : 16 < ks) (hl : esize ks ≤ len) :
    entryG false ks len = .panic := by
  unfold entryG
  have : ¬ len < esize ks := by omega
  simp [h16, this]

/-- the entry loop stays inside the block when the block parser's size guard holds. -/
theorem entries_no_panic (ks len : Nat) : ∀ (n pos : Nat), pos + n * esize ks ≤ len →
    entries true ks len n pos ≠ .panic := by
  intro n
  induction n with
  | zero => intro pos _; simp [entries]
  | succ k ih =>
    intro pos h
    have hpos : ¬ len < pos := by
      have : pos ≤ pos + (k + 1) * esize ks := Nat.le_add_right _ _
      omega
    unfold entries
    rw [if_neg hpos]
    have hstep : pos + esize ks + k * esize ks ≤ len := by
      have : (k + 1) * esize ks = k * esize ks + esize ks := Nat.succ_mul k (esize ks)
      omega
    cases hE : entryG true ks (len - pos) with
    | ok => simp only []; exact ih (pos + esize ks) hstep
    | err => simp
    | panic => exact absurd hE (entry_no_panic ks (len - pos))

theorem block2_no_panic (sz : Nat) (d : Bytes) : (block2G true sz d).1 ≠ .panic := by
  unfold block2G
  split
  · simp
  · simp only []
    split
    · simp
    · rename_i h
      exact entries_no_panic _ _ _ _ (by omega)

theorem block8_no_panic (sz : Nat) (d : Bytes) : (block8G true sz d).1 ≠ .panic := by
  unfold block8G
  split
  · simp
  · split
    · simp
    · simp only []
      split
      · simp
      · rename_i h
        exact entries_no_panic _ _ _ _ (by omega)

/-- the entry loop only runs `n` times when `n` entries fit: `n ≤ len`. -/
theorem block2_alloc (sz : Nat) (d : Bytes) : ∀ a ∈ (block2G true sz d).2, a ≤ sz * d.length := by
  unfold block2G
  split
  · simp
  · simp only []
    split
    · simp
    · rename_i h
      intro a ha
      simp only [List.mem_singleton] at ha
      subst ha
      have h13 : leNat (slice d 0 4) ≤ leNat (slice d 0 4) * esize (byteAt d 4) :=
        Nat.le_mul_of_pos_right _ (by unfold esize; omega)
      have : leNat (slice d 0 4) ≤ d.length := by omega
      rw [Nat.mul_comm]
      exact Nat.mul_le_mul_left sz this

theorem block8_alloc (sz : Nat) (d : Bytes) : ∀ a ∈ (block8G true sz d).2, a ≤ sz * d.length := by
  unfold block8G
  split
  · simp
  · split
    · simp
    · simp only []
      split
      · simp
      · rename_i h
        intro a ha
        simp only [List.mem_singleton] at ha
        subst ha
        have h13 : leNat (slice d 4 4) ≤ leNat (slice d 4 4) * esize (byteAt d 1) :=
          Nat.le_mul_of_pos_right _ (by unfold esize; omega)
        have : leNat (slice d 4 4) ≤ d.length := by omega
        rw [Nat.mul_comm]
        exact Nat.mul_le_mul_left sz this

theorem slice_length_le (b : Bytes) (off n : Nat) : (slice b off n).length ≤ b.length := by
  unfold slice
  simp only [List.length_take, List.length_drop]
  omega

/-- the block loop: every block slice is inside the file when the descriptors' total fits behind
`off` (the header's "Validate total size" check), so neither the slice nor a block parser panics,
and every `with_capacity` request is bounded by the file length. -/
theorem blocks_ok (sz : Nat) (b : Bytes) : ∀ (bl : List (Nat × Nat)) (off : Nat) (f2 : Bool),
    off + total bl ≤ b.length →
    (blocks true sz b bl off f2).1 ≠ .panic ∧ ∀ a ∈ (blocks true sz b bl off f2).2, a ≤ sz * b.length := by
  intro bl
  induction bl with
  | nil => intro off f2 _; simp [blocks]
  | cons x rest ih =>
    intro off f2 h
    obtain ⟨ty, size⟩ := x
    have ht : total ((ty, size) :: rest) = size + total rest := by simp [total]
    rw [ht] at h
    have hfit : ¬ b.length < off + size := by omega
    have hrest : off + size + total rest ≤ b.length := by omega
    unfold blocks
    rw [if_neg hfit]
    have hsl : sz * (slice b off size).length ≤ sz * b.length :=
      Nat.mul_le_mul_left sz (slice_length_le b off size)
    split
    · -- type 2
      have hp := block2_no_panic sz (slice b off size)
      have ha := block2_alloc sz (slice b off size)
      cases hB : block2G true sz (slice b off size) with
      | mk r a =>
        rw [hB] at hp ha
        cases r with
        | ok =>
          simp only []
          have := ih (off + size) true hrest
          refine ⟨this.1, ?_⟩
          intro x hx
          rcases List.mem_append.mp hx with hx | hx
          · exact Nat.le_trans (ha x hx) hsl
          · exact this.2 x hx
        | err => exact ⟨by simp, fun x hx => Nat.le_trans (ha x hx) hsl⟩
        | panic => exact absurd rfl hp
    · split
      · -- type 8 while no block 2 was seen
        have hp := block8_no_panic sz (slice b off size)
        have ha := block8_alloc sz (slice b off size)
        cases hB : block8G true sz (slice b off size) with
        | mk r a =>
          rw [hB] at hp ha
          cases r with
          | ok =>
            simp only []
            have := ih (off + size) f2 hrest
            refine ⟨this.1, ?_⟩
            intro x hx
            rcases List.mem_append.mp hx with hx | hx
            · exact Nat.le_trans (ha x hx) hsl
            · exact this.2 x hx
          | err => exact ⟨by simp, fun x hx => Nat.le_trans (ha x hx) hsl⟩
          | panic => exact absurd rfl hp
      · exact ih (off + size) f2 hrest

theorem header_total {b : Bytes} {hs ds : Nat} {bl : List (Nat × Nat)} (h : header b = some (hs, ds, bl)) :
    hs + total bl ≤ b.length := by
  unfold header at h
  split at h
  · simp at h
  · simp only [] at h
    split at h
    · simp at h
    · split at h
      · simp at h
      · split at h
        · simp at h
        · split at h
          · simp at h
          · split at h
            · simp at h
            · split at h
              · simp at h
              · rename_i hfit
                simp only [Option.some.injEq, Prod.mk.injEq] at h
                obtain ⟨h1, _, h3⟩ := h
                subst h1 h3
                omega

theorem parse_ok (sz : Nat) (b : Bytes) :
    (parse sz b).1 ≠ .panic ∧ ∀ a ∈ (parse sz b).2, a ≤ sz * b.length := by
  unfold parse parseG
  cases hh : header b with
  | none => simp
  | some x =>
    obtain ⟨hs, ds, bl⟩ := x
    simp only []
    split
    · simp
    · exact blocks_ok sz b bl hs false (header_total hh)

end PIdx

/-! ## ZBSDIFF positions -/
namespace Zbs
open Cascette.Model.ParseBodies.Zbs
open Cascette.Spec.Bspatch (Ctl usizeMax seekPos)

theorem seekPos_le (p : Nat) (s : Int) (h : p ≤ usizeMax) : seekPos p s ≤ usizeMax := by
  unfold seekPos
  split
  · omega
  · exact Nat.min_le_right _ _

/-- with the saturating advance every old-file position the entry loop computes fits `usize`. -/
theorem positions_le : ∀ (cs : List Ctl) (p : Nat), ∀ x ∈ positions true cs p, x ≤ usizeMax := by
  intro cs
  induction cs with
  | nil => intro p x hx; simp [positions] at hx
  | cons c cs ih =>
    intro p x hx
    simp only [positions, List.mem_cons] at hx
    have hq : adv true p c.diff ≤ usizeMax := by simp only [adv, if_true]; exact Nat.min_le_right _ _
    rcases hx with hx | hx | hx
    · rw [hx]; exact hq
    · rw [hx]; exact seekPos_le _ _ hq
    · exact ih _ x hx

end Zbs

end Cascette.Proofs.ParseBodies
