/-
Model/Simd — the lane loops of `crates/cascette-cache/src/simd.rs` (memcmp, mem_equal, memset,
memcpy and the memmem candidate scan) with the vector width `w` as a parameter (32 = AVX2,
16 = SSE2), and the dispatch on `CpuFeatures` as written. A vector compare + movemask +
`trailing_zeros` is modelled as "first index at which the two `w`-byte chunks differ".
Bytes are naturals here (only equality and order of bytes matter).
-/
namespace Cascette.Model.Simd

/-- `<[u8]>::cmp` : lexicographic order on slices. -/
def cmpLex : List Nat → List Nat → Ordering
  | [], [] => .eq
  | [], _ :: _ => .lt
  | _ :: _, [] => .gt
  | a :: as, b :: bs => if a < b then .lt else if b < a then .gt else cmpLex as bs

/-- index of the first differing position of two chunks (`(!mask).trailing_zeros()`), if any. -/
def firstDiff : List Nat → List Nat → Option Nat
  | a :: as, b :: bs => if a = b then (firstDiff as bs).map (· + 1) else some 0
  | _, _ => none

def cmpNat (a b : Nat) : Ordering := if a < b then .lt else if b < a then .gt else .eq

/-- `simd_memcmp_{avx2,sse2}` for `w`-byte lanes: `while i + w <= len`, compare a lane, on a
difference compare the first differing bytes; finally `a[i..].cmp(&b[i..])`. `fuel` bounds the
number of lanes (callers pass `a.length + 1`). -/
def memcmpLanes (w : Nat) : Nat → List Nat → List Nat → Ordering
  | 0, a, b => cmpLex a b
  | fuel + 1, a, b =>
    if w ≤ min a.length b.length ∧ 0 < w then
      match firstDiff (a.take w) (b.take w) with
      | some d => cmpNat (a.getD d 0) (b.getD d 0)
      | none => memcmpLanes w fuel (a.drop w) (b.drop w)
    else cmpLex a b

structure Features where
  sse2 : Bool
  avx2 : Bool

/-- `vectorized_memcmp`: length mismatch is decided by the lengths alone, before any dispatch. -/
def vectorizedMemcmp (f : Features) (a b : List Nat) : Ordering :=
  if a.length ≠ b.length then cmpNat a.length b.length
  else if f.avx2 then memcmpLanes 32 (a.length + 1) a b
  else if f.sse2 then memcmpLanes 16 (a.length + 1) a b
  else cmpLex a b

/-- `batch_mem_equal_{avx2,sse2}` inner loop for one pair of equal length. -/
def memEqLanes (w : Nat) : Nat → List Nat → List Nat → Bool
  | 0, a, b => a == b
  | fuel + 1, a, b =>
    if w ≤ a.length ∧ 0 < w then
      if a.take w == b.take w then memEqLanes w fuel (a.drop w) (b.drop w) else false
    else a == b

def memEqual (f : Features) (a b : List Nat) : Bool :=
  if a.length ≠ b.length then false
  else if f.avx2 then memEqLanes 32 (a.length + 1) a b
  else if f.sse2 then memEqLanes 16 (a.length + 1) a b
  else a == b

/-- `simd_memset_*`: full lanes of `value`, then the remaining bytes one by one. -/
def memsetLanes (w : Nat) (value : Nat) : Nat → List Nat → List Nat
  | 0, d => d.map fun _ => value
  | fuel + 1, d =>
    if w ≤ d.length ∧ 0 < w then List.replicate w value ++ memsetLanes w value fuel (d.drop w)
    else d.map fun _ => value

def memset (f : Features) (d : List Nat) (value : Nat) : List Nat :=
  if f.avx2 ∧ 32 ≤ d.length then memsetLanes 32 value (d.length + 1) d
  else if f.sse2 ∧ 16 ≤ d.length then memsetLanes 16 value (d.length + 1) d
  else d.map fun _ => value

/-- `simd_memcpy_*` on `dest[..len]`, `src[..len]` (equal lengths): lanes then the tail. -/
def memcpyLanes (w : Nat) : Nat → List Nat → List Nat
  | 0, s => s
  | fuel + 1, s =>
    if w ≤ s.length ∧ 0 < w then s.take w ++ memcpyLanes w fuel (s.drop w) else s

/-- `simd_memcpy`: copies `min(dest.len, src.len)` bytes, the rest of `dest` is untouched. -/
def memcpy (f : Features) (dest src : List Nat) : List Nat :=
  let len := min dest.length src.length
  let copied :=
    if f.avx2 ∧ 32 ≤ len then memcpyLanes 32 (len + 1) (src.take len)
    else if f.sse2 ∧ 16 ≤ len then memcpyLanes 16 (len + 1) (src.take len)
    else src.take len
  copied ++ dest.drop len

/-- scalar `haystack.windows(n).position(|w| w == needle)` starting at offset `i`. -/
def findFrom (needle : List Nat) : Nat → List Nat → Option Nat
  | _, [] => if needle.isEmpty then some 0 else none
  | i, h :: hs =>
    if needle.length ≤ (h :: hs).length ∧ (h :: hs).take needle.length == needle then some i
    else if (h :: hs).length < needle.length then none
    else findFrom needle (i + 1) hs

/-- candidate scan of one `w`-byte lane starting at absolute position `pos`: the first lane
index whose byte equals `needle[0]` and where the whole needle matches. `rest` is the haystack
from `pos` on. -/
def scanLane (needle : List Nat) (first : Nat) : Nat → Nat → List Nat → Option Nat
  | 0, _, _ => none
  | _ + 1, _, [] => none
  | k + 1, pos, h :: hs =>
    if h = first ∧ needle.length ≤ (h :: hs).length ∧ (h :: hs).take needle.length == needle
    then some pos else scanLane needle first k (pos + 1) hs

/-- `simd_memmem_{avx2,sse2}`: lanes of `w` first bytes, then the scalar tail from `pos`. -/
def memmemLanes (w : Nat) (needle : List Nat) (first : Nat) : Nat → Nat → List Nat → Option Nat
  | 0, pos, rest => findFrom needle pos rest
  | fuel + 1, pos, rest =>
    if w ≤ rest.length ∧ 0 < w then
      match scanLane needle first w pos rest with
      | some p => some p
      | none => memmemLanes w needle first fuel (pos + w) (rest.drop w)
    else findFrom needle pos rest

/-- `vectorized_memmem` -/
def vectorizedMemmem (f : Features) (hay needle : List Nat) : Option Nat :=
  match needle with
  | [] => some 0
  | first :: _ =>
    if hay.length < needle.length then none
    else if f.avx2 ∧ 4 ≤ needle.length then memmemLanes 32 needle first (hay.length + 1) 0 hay
    else if f.sse2 ∧ 4 ≤ needle.length then memmemLanes 16 needle first (hay.length + 1) 0 hay
    else findFrom needle 0 hay

end Cascette.Model.Simd
