/-
Model/Fallback — `RibbitTactClient::query` as written (crates/cascette-protocol/src/client/mod.rs):
endpoint validation, cache lookup, TCP-only rule, the three-step fallback chain
(`query_with_fallback`), `ProtocolError::should_retry` (src/error.rs, after fix 71d9709),
`TactClient::query`'s status table (src/client/tact.rs), `determine_ttl`, and the two cache
back ends `ProtocolCache` selects (src/cache.rs): `DiskCache` when `cache_dir` is set
(files shared by every client on the directory + a per-client in-memory index that alone
carries the expiry) and `MemoryCache` otherwise (per client).

Transports are parameters: `o : Tr → Except Err α` is the outcome each transport would give if
contacted (α = parsed document). What the code does with them — whom it contacts, in which
order, what it returns, what it stores — is the model. Time is a `Nat` (milliseconds); one
query reads the clock once (lookup and store happen at the same `now`).
-/
namespace Cascette.Model.Fallback

/-- `ProtocolError`, by variant. `Http(reqwest::Error)` is split by the predicates the code
asks: timeout, connect, dropped (request/body/decode: the peer closed before or inside the
response), other (builder, redirect, …). -/
inductive Err where
  | network | httpTimeout | httpConnect | httpDropped | httpOther | parse | cache | allHostsFailed
  | rateLimited (hint : Bool) | serviceUnavailable
  | httpStatus (code : Nat) | serverError (code : Nat)
  | invalidKey | invalidEndpoint | rangeNotSupported | timeout | other | utf8 | unsupportedOnWasm
  deriving DecidableEq, Repr

/-- `ProtocolError::should_retry` (native target). -/
def shouldRetry : Err → Bool
  | .network | .serverError _ | .rateLimited _ | .serviceUnavailable | .timeout => true
  | .httpTimeout | .httpConnect | .httpDropped => true
  | .httpOther => false
  | .httpStatus c => c == 429 || c == 500 || c == 502 || c == 503 || c == 504
  | _ => false

/-- `TactClient::query` after `send()` succeeded: status code and, for 200, whether the body
parsed as a BPSV table (`some d`) or not (`none`). -/
def tactClassify {α : Type} (status : Nat) (body : Option α) : Except Err α :=
  if status = 200 then
    match body with
    | some d => .ok d
    | none => .error .parse
  else if status = 429 then .error (.rateLimited false)
  else if status = 503 then .error .serviceUnavailable
  else if 500 ≤ status ∧ status ≤ 599 then .error (.serverError status)
  else .error (.httpStatus status)

inductive Tr where
  | https | http | tcp
  deriving DecidableEq, Repr

/-- which TACT clients exist (`tact_https_url` / `tact_http_url` non-empty). -/
structure Config where
  httpsOn : Bool
  httpOn : Bool
  deriving DecidableEq, Repr

/-- `query_with_fallback`, statement by statement. Returns the transports contacted, in order,
and the result. -/
def queryWithFallback {α : Type} (c : Config) (o : Tr → Except Err α) : List Tr × Except Err α :=
  -- Try TACT HTTPS
  let step3 (trace : List Tr) (last : Option Err) : List Tr × Except Err α :=
    match o .tcp with
    | .ok d => (trace ++ [.tcp], .ok d)
    | .error e => (trace ++ [.tcp], .error (last.getD e))      -- `last_error.unwrap_or(e)`
  let step2 (trace : List Tr) (last : Option Err) : List Tr × Except Err α :=
    if c.httpOn then
      match o .http with
      | .ok d => (trace ++ [.http], .ok d)
      | .error e =>
        if !shouldRetry e then (trace ++ [.http], .error e)
        else step3 (trace ++ [.http]) (some e)
    else step3 trace last
  if c.httpsOn then
    match o .https with
    | .ok d => ([.https], .ok d)
    | .error e =>
      if !shouldRetry e then ([.https], .error e)
      else step2 [.https] (some e)
  else step2 [] none

/-! ### cache back ends -/

section assoc
variable {κ β : Type} [DecidableEq κ]

def alookup (l : List (κ × β)) (k : κ) : Option β :=
  match l with
  | [] => none
  | (k', v) :: t => if k' = k then some v else alookup t k

def aerase (l : List (κ × β)) (k : κ) : List (κ × β) :=
  match l with
  | [] => []
  | (k', v) :: t => if k' = k then aerase t k else (k', v) :: aerase t k

def ainsert (l : List (κ × β)) (k : κ) (v : β) : List (κ × β) := (k, v) :: aerase l k
end assoc

/-- cached bytes: the serialisation of a document (`parse (build d) = d` is the assumed BPSV
round-trip law) or bytes that do not parse. -/
inductive Blob (α : Type) where
  | doc (d : α)
  | junk
  deriving DecidableEq, Repr

/-- State of the caches of all clients created on one configuration.
`disk = true`: `files` are the files of the cache directory, `idx` the per-client index
`(client, key) ↦ expires_at` (`none` = entry adopted from a file, "Can't determine TTL").
`disk = false`: `mem` is `(client, key) ↦ (bytes, expires_at)`. -/
structure CState (κ α : Type) where
  disk : Bool
  files : List (κ × Blob α)
  idx : List ((Nat × κ) × Option Nat)
  mem : List ((Nat × κ) × (Blob α × Nat))

def CState.empty {κ α : Type} (disk : Bool) : CState κ α := ⟨disk, [], [], []⟩

/-- `is_expired`: `now >= expires_at`. -/
def expired (e : Option Nat) (now : Nat) : Bool :=
  match e with
  | some t => decide (t ≤ now)
  | none => false

variable {κ α : Type} [DecidableEq κ]

/-- `ProtocolCache::get` (→ `DiskCache::get` / `MemoryCache::get`). -/
def cacheGet (st : CState κ α) (c : Nat) (k : κ) (now : Nat) :
    CState κ α × Except Err (Option (Blob α)) :=
  if st.disk then
    match alookup st.idx (c, k) with
    | some exp =>
      if expired exp now then
        -- expired: drop the index entry and delete the file
        ({ st with idx := aerase st.idx (c, k), files := aerase st.files k }, .ok none)
      else
        match alookup st.files k with
        | some b => (st, .ok (some b))
        | none =>
          -- "File read failed - remove from index", the error is returned
          ({ st with idx := aerase st.idx (c, k) }, .error .cache)
    | none =>
      match alookup st.files k with
      | some b =>
        -- "Not in index - try to find file on disk as fallback": adopted without expiry
        ({ st with idx := ainsert st.idx (c, k) none }, .ok (some b))
      | none => (st, .ok none)
  else
    match alookup st.mem (c, k) with
    | some (b, exp) =>
      if exp ≤ now then ({ st with mem := aerase st.mem (c, k) }, .ok none)
      else (st, .ok (some b))
    | none => (st, .ok none)

/-- `ProtocolCache::store_with_ttl` at time `now` (expiry = `now + ttl`). -/
def cachePut (st : CState κ α) (c : Nat) (k : κ) (b : Blob α) (expires : Nat) : CState κ α :=
  if st.disk then
    { st with files := ainsert st.files k b, idx := ainsert st.idx (c, k) (some expires) }
  else
    { st with mem := ainsert st.mem (c, k) (b, expires) }

/-- What `query` derives from the endpoint string. -/
structure Ep (κ : Type) where
  key : κ
  valid : Bool
  tcpOnly : Bool
  ttl : Nat

/-- `RibbitTactClient::query`: new cache state, transports contacted in order, result. -/
def query (cfg : Config) (st : CState κ α) (c : Nat) (now : Nat) (ep : Ep κ)
    (o : Tr → Except Err α) : CState κ α × List Tr × Except Err α :=
  if !ep.valid then (st, [], .error .invalidEndpoint) else
  match cacheGet st c ep.key now with
  | (st1, .error e) => (st1, [], .error e)                    -- `self.cache.get(&cache_key)?`
  | (st1, .ok (some (.doc d))) => (st1, [], .ok d)            -- cache hit that parses
  | (st1, .ok _) =>                                           -- miss, or cached bytes do not parse
    let (tr, r) := if ep.tcpOnly then ([Tr.tcp], o .tcp) else queryWithFallback cfg o
    match r with
    | .error e => (st1, tr, .error e)
    | .ok d => (cachePut st1 c ep.key (.doc d) (now + ep.ttl), tr, .ok d)

/-- the harness's `corrupt`: somebody overwrites the cache file with bytes that do not parse. -/
def corrupt (st : CState κ α) (k : κ) : CState κ α × Bool :=
  if st.disk then
    match alookup st.files k with
    | some _ => ({ st with files := ainsert st.files k .junk }, true)
    | none => (st, false)
  else (st, false)

/-! ### histories -/

inductive Op (κ α : Type) where
  | query (c : Nat) (now : Nat) (ep : Ep κ) (o : Tr → Except Err α)
  | corrupt (k : κ)

def step (cfg : Config) (st : CState κ α) : Op κ α → CState κ α
  | .query c now ep o => (query cfg st c now ep o).1
  | .corrupt k => (corrupt st k).1

def run (cfg : Config) (st : CState κ α) (ops : List (Op κ α)) : CState κ α :=
  ops.foldl (step cfg) st

/-! ### what `query` derives from the endpoint string (ASCII) -/

def startsWith (p s : List Nat) : Bool := p.isPrefixOf s

def containsSub (needle : List Nat) : List Nat → Bool
  | [] => needle.isEmpty
  | h :: t => needle.isPrefixOf (h :: t) || containsSub needle t

/-- split at '/' -/
def segments : List Nat → List (List Nat)
  | [] => [[]]
  | c :: t =>
    match segments t with
    | [] => [[c]]      -- unreachable
    | s :: ss => if c = 47 then [] :: s :: ss else (c :: s) :: ss

def isAlnum (c : Nat) : Bool := (48 ≤ c && c ≤ 57) || (65 ≤ c && c ≤ 90) || (97 ≤ c && c ≤ 122)

/-- `validate_endpoint` on ASCII endpoints (after fix 3929448). -/
def validEndpoint (s : List Nat) : Bool :=
  !s.isEmpty && decide (s.length ≤ 1000)
    && s.all (fun c => isAlnum c || c = 47 || c = 95 || c = 45 || c = 46)
    && !startsWith [47] s
    && !(segments s).any (fun g => g = [46] || g = [46, 46])

def sV1Summary : List Nat := [118,49,47,115,117,109,109,97,114,121]      -- "v1/summary"
def sV1Certs : List Nat := [118,49,47,99,101,114,116,115,47]              -- "v1/certs/"
def sV1Ocsp : List Nat := [118,49,47,111,99,115,112,47]                   -- "v1/ocsp/"
def sVersions : List Nat := [118,101,114,115,105,111,110,115]             -- "versions"
def sBgdl : List Nat := [98,103,100,108]                                  -- "bgdl"
def sCdns : List Nat := [99,100,110,115]                                  -- "cdns"

structure Ttls where
  ribbit : Nat
  cdn : Nat
  config : Nat

/-- `determine_ttl`. -/
def determineTtl (t : Ttls) (s : List Nat) : Nat :=
  if containsSub sVersions s || containsSub sBgdl s then t.ribbit
  else if containsSub sCdns s then t.cdn
  else t.config

def isTcpOnly (s : List Nat) : Bool :=
  startsWith sV1Summary s || startsWith sV1Certs s || startsWith sV1Ocsp s

/-- the cache key is `"api/ribbit/" ++ endpoint`: injective, so the endpoint itself is the key. -/
def classifyEp (t : Ttls) (s : List Nat) : Ep (List Nat) :=
  { key := s, valid := validEndpoint s, tcpOnly := isTcpOnly s, ttl := determineTtl t s }

end Cascette.Model.Fallback
