/-
Model/Zbsdiff — the whole-patch layer of crates/cascette-formats/src/zbsdiff AS WRITTEN
(after /repo 175a039), on top of the block-level model of Model/Bspatch:

  header.rs   ZbsdiffHeader (binrw, `#[br(little)]`: signature u64 with assert, three i64),
              ZbsdiffHeader::validate (negative / 1 GB / sum guards)         → `readHeader`, `Header.write`, `Header.valid`
  patcher.rs  apply_patch_memory / apply_patch_from_data: header, block-size guard, the three
              slices, from_compressed + 2 × decompress_zlib, patcher          → `splitPatch`, `decodePatch`,
                                                                                 `applyPatchMemory`, `applyPatchFromData`
              ZbsdiffHeader::parse_from_patch (+ the documented streaming use)  → `parseFromPatch`, `applyPatchStream`
              read_old_chunk / get_old_file_size over a `Read + Seek` source whose `read` may
              return fewer bytes than asked (`Read::read_exact` loop)        → `Source`, `readExact`, `srcApply`
  builder.rs  build_patch_internal (to_compressed, 2 × compress_zlib, header, validate, layout) → `serialize`, `buildBytes`
  mod.rs      ZbsDiff::parse / ZbsDiff::build                                 → `splitPatch`, `containerBuild`
  utils.rs    offtout on the full i64 range (release arithmetic: `-i64::MIN` wraps) → `offtoutI64`

zlib (flate2) is a PARAMETER: `Zlib.compress : Bytes → Bytes`, `Zlib.decompress : Bytes → Option Bytes`
with the one law `decompress (compress b) = some b` where a theorem needs it. Nothing else is
assumed of it (the real `decompress_zlib` accepts truncated streams and trailing garbage; the
model's `decompress` is an arbitrary partial function).
-/
import Cascette.Model.Bspatch
namespace Cascette.Model.Zbsdiff
open Cascette
open Cascette.Spec.Bspatch (Ctl padTake addBytes usizeMax)
open Cascette.Model.Bspatch

/-! ### zlib as a parameter -/

structure Zlib where
  compress : Bytes → Bytes
  decompress : Bytes → Option Bytes

/-- the only law used: inflating what `compress_zlib` wrote gives the input back. -/
def Zlib.Lawful (z : Zlib) : Prop := ∀ b, z.decompress (z.compress b) = some b

/-! ### errors of the whole-patch layer -/

inductive PErr where
  | hdrShort          -- binrw ran out of bytes inside the 32-byte header (BinaryFormatError)
  | sig               -- binrw assert on the signature (→ CorruptPatch "Invalid header signature …")
  | header            -- ZbsdiffHeader::validate (InvalidSize / SizeTooLarge)
  | eof               -- control_size + diff_size exceed the bytes after the header (io UnexpectedEof)
  | zlib              -- DecompressionError
  | need32            -- parse_from_patch on fewer than 32 bytes (InsufficientData)
  | seek              -- the old source cannot seek (get_old_file_size fails)
  | oldRead           -- read_exact on the old source failed (OldFileReadError)
  | zmiss             -- driver only: the zlib table of the request has no entry (never in theorems)
  | inner (e : Err)   -- an error of the block-level layer
deriving DecidableEq, Repr

def PErr.text : PErr → String
  | .hdrShort => "err:hdr-short" | .sig => "err:sig" | .header => "err:header" | .eof => "err:short"
  | .zlib => "err:zlib" | .need32 => "err:short" | .seek => "err:seek" | .oldRead => "err:old-read"
  | .zmiss => "err:z-miss" | .inner e => e.text

def liftE {α : Type} : Except Err α → Except PErr α
  | .ok a => .ok a
  | .error e => .error (.inner e)

/-! ### header.rs -/

/-- `ZBSDIFF1_SIGNATURE.to_le_bytes()` = b"ZBSDIFF1". -/
def magic : Bytes := [0x5a, 0x42, 0x53, 0x44, 0x49, 0x46, 0x46, 0x31]

/-- the header is four 8-byte little-endian fields. -/
def fieldLen : Nat := 8
def headerLen : Nat := 32
def ctlSizeOff : Nat := 8
def diffSizeOff : Nat := 16
def outSizeOff : Nat := 24

/-- `i64::from_le_bytes` (two's complement). -/
def i64OfLe (b : Bytes) : Int :=
  let n := leNat b
  if n < 2 ^ 63 then (n : Int) else (n : Int) - 2 ^ 64

/-- `i64::to_le_bytes` (two's complement; any `Int` is reduced mod 2^64 first). -/
def i64Le (v : Int) : Bytes := natLe 8 (v % 2 ^ 64).toNat

/-- the three `i64` fields after the signature. -/
structure Header where
  ctl : Int
  diff : Int
  out : Int
deriving DecidableEq, Repr

/-- `BinWrite` of the header: signature, control_size, diff_size, output_size, little-endian. -/
def Header.write (h : Header) : Bytes := magic ++ i64Le h.ctl ++ i64Le h.diff ++ i64Le h.out

/-- `ZbsdiffHeader::read_options`: binrw reads the fields in order and evaluates the signature
assert right after the signature, so a wrong signature wins over a truncated rest. -/
def readHeader (p : Bytes) : Except PErr Header :=
  if p.length < fieldLen then .error .hdrShort else
  if p.take fieldLen ≠ magic then .error .sig else
  if p.length < headerLen then .error .hdrShort else
  .ok ⟨i64OfLe ((p.drop ctlSizeOff).take fieldLen), i64OfLe ((p.drop diffSizeOff).take fieldLen),
       i64OfLe ((p.drop outSizeOff).take fieldLen)⟩

/-- `ZbsdiffHeader::validate` (the signature was checked by the reader / is the constant in the
builder): no negative size, none above MAX_SIZE, control + diff not above MAX_SIZE (the
`checked_add` cannot overflow once both are ≤ 1 GB). -/
def Header.valid (h : Header) : Bool :=
  !(decide (h.ctl < 0) || decide (h.diff < 0) || decide (h.out < 0) ||
    decide (h.ctl > (maxSize : Int)) || decide (h.diff > (maxSize : Int)) || decide (h.out > (maxSize : Int)) ||
    decide (h.ctl + h.diff > (maxSize : Int)))

/-- `ZbsdiffHeader::parse_from_patch`. -/
def parseFromPatch (p : Bytes) : Except PErr Header :=
  if p.length < headerLen then .error .need32 else
  match readHeader p with
  | .error e => .error e
  | .ok h => if h.valid then .ok h else .error .header

/-! ### mod.rs / patcher.rs — container split (ZbsDiff::parse; the first half of both apply entry points) -/

/-- header, validate, "the two block sizes describe data that must follow the header", then the
control slice, the diff slice and everything else as the extra slice. -/
def splitPatch (p : Bytes) : Except PErr (Header × Bytes × Bytes × Bytes) :=
  match readHeader p with
  | .error e => .error e
  | .ok h =>
    if !h.valid then .error .header else
    if h.ctl.toNat + h.diff.toNat > p.length - headerLen then .error .eof else
    let body := p.drop headerLen
    .ok (h, body.take h.ctl.toNat, (body.drop h.ctl.toNat).take h.diff.toNat,
         body.drop (h.ctl.toNat + h.diff.toNat))

/-- `ZbsDiff::build`: header then the three stored (compressed) blocks. -/
def containerBuild (h : Header) (c d e : Bytes) : Bytes := h.write ++ c ++ d ++ e

/-! ### patcher.rs — from the patch bytes -/

structure Decoded where
  ctl : List Ctl
  diff : Bytes
  extra : Bytes
  out : Nat
deriving DecidableEq, Repr

/-- the common prefix of `apply_patch_memory` and `apply_patch_from_data`:
`ControlBlock::from_compressed` (inflate, record loop), then the diff and extra blocks. -/
def decodePatch (z : Zlib) (p : Bytes) : Except PErr Decoded :=
  match splitPatch p with
  | .error e => .error e
  | .ok (h, cz, dz, ez) =>
    match z.decompress cz with
    | none => .error .zlib
    | some craw =>
      match parseCtl craw with
      | .error e => .error (.inner e)
      | .ok ctl =>
        match z.decompress dz with
        | none => .error .zlib
        | some diff =>
          match z.decompress ez with
          | none => .error .zlib
          | some extra => .ok ⟨ctl, diff, extra, h.out.toNat⟩

/-- `apply_patch_memory(old, patch)`. -/
def applyPatchMemory (z : Zlib) (old p : Bytes) : Except PErr Bytes :=
  match decodePatch z p with
  | .error e => .error e
  | .ok d => liftE (memApply old d.ctl d.diff d.extra d.out)

/-- `ZbsdiffPatcher::new(old, caller).with_buffer_size(buf).apply_patch_from_data(patch)`. -/
def applyPatchFromData (z : Zlib) (caller buf : Nat) (old p : Bytes) : Except PErr Bytes :=
  match decodePatch z p with
  | .error e => .error e
  | .ok d => liftE (streamApply buf old d.ctl d.diff d.extra caller)

/-- the documented streaming use: `parse_from_patch`, then `new(old, header.output_size)`. -/
def applyPatchStream (z : Zlib) (buf : Nat) (old p : Bytes) : Except PErr Bytes :=
  match parseFromPatch p with
  | .error e => .error e
  | .ok h => applyPatchFromData z h.out.toNat buf old p

/-- either patcher on the patch bytes (`none` = memory). -/
def applyPatchBytes (z : Zlib) (buf : Option Nat) (old p : Bytes) : Except PErr Bytes :=
  match buf with
  | none => applyPatchMemory z old p
  | some b => applyPatchStream z b old p

/-- `ZbsdiffPatcher::new`: the buffer size when `with_buffer_size` is not called. -/
def defaultBuf : Nat := 8192

/-! ### builder.rs — build_patch_internal -/

/-- `to_compressed`, 2 × `compress_zlib`, header from the compressed lengths (`len() as i64` is
exact: a `Vec` is at most `isize::MAX` long), `validate`, then header ‖ control ‖ diff ‖ extra. -/
def serialize (z : Zlib) (p : Patch) : Except PErr Bytes :=
  let c := z.compress (encodeCtl p.ctl)
  let d := z.compress p.diff
  let e := z.compress p.extra
  let h : Header := ⟨c.length, d.length, p.outSize⟩
  if !h.valid then .error .header else .ok (containerBuild h c d e)

/-- a builder of Model/Bspatch followed by `build_patch_internal`: the patch BYTES. -/
def buildBytes (z : Zlib) (r : Except Err Patch) : Except PErr Bytes :=
  match r with
  | .error e => .error (.inner e)
  | .ok p => serialize z p

/-! ### utils.rs — offtout on the whole i64 range -/

/-- i64 wrap-around (release profile). -/
def wrapI64 (x : Int) : Int := (x + 2 ^ 63) % 2 ^ 64 - 2 ^ 63

/-- `buf[7] |= 0x80` on an 8-byte buffer. -/
def setSign : Bytes → Bytes
  | [b0, b1, b2, b3, b4, b5, b6, b7] => [b0, b1, b2, b3, b4, b5, b6, BitVec.ofNat 8 (b7.toNat % 128 + 128)]
  | l => l

/-- `offtout(value: i64)` as compiled in release: `-value` wraps at `i64::MIN` (a debug build
panics there), the magnitude is written little-endian, bit 63 is set for negative values. -/
def offtoutI64 (v : Int) : Bytes :=
  if v < 0 then setSign (i64Le (wrapI64 (-v))) else i64Le v

/-! ### patcher.rs — the old file as a `Read + Seek` source with short reads -/

/-- the old file behind `R: Read + Seek`. `read(buf)` on its `i`-th call returns at most
`max 1 (sched i)` bytes (and never more than asked or available): any legal `Read`
implementation that makes progress. `seekable = false`: every `seek` fails. -/
structure Source where
  data : Bytes
  sched : Nat → Nat
  seekable : Bool

/-- `Read::read_exact` (default implementation) after `seek(Start(pos))`: call `read` until the
buffer of `n` bytes is full; `Ok(0)` is `UnexpectedEof`. Fuel `n` suffices (every call returns at
least one byte). Returns the bytes and the number of `read` calls made so far. -/
def readExact (s : Source) : Nat → Nat → Nat → Nat → Option (Bytes × Nat)
  | 0, _, calls, n => if n = 0 then some ([], calls) else none
  | f + 1, pos, calls, n =>
    if n = 0 then some ([], calls) else
    let k := min (min n (max 1 (s.sched calls))) (s.data.length - pos)
    if k = 0 then none else
    match readExact s f (pos + k) (calls + 1) (n - k) with
    | none => none
    | some (r, c) => some ((s.data.drop pos).take k ++ r, c)

/-- `read_old_chunk(pos, size, old_file_size)` with `old_file_size = seek(End(0))`. -/
def readOldChunk (s : Source) (calls pos size : Nat) : Option (Bytes × Nat) :=
  if pos < s.data.length then
    let avail := min (s.data.length - pos) size
    match readExact s avail pos calls avail with
    | none => none
    | some (b, c) => some (b ++ List.replicate (size - avail) 0, c)
  else some (List.replicate size 0, calls)

/-- `apply_diff_block` over a source. -/
def srcDiff (s : Source) (buf : Nat) : Nat → Nat → Nat → Nat → Bytes → Except PErr (Bytes × Bytes × Nat)
  | 0, _, _, calls, d => .ok ([], d, calls)
  | f + 1, rem, p, calls, d =>
    if rem = 0 then .ok ([], d, calls) else
    let c := min rem buf
    if d.length < c then .error (.inner .short) else
    match readOldChunk s calls p c with
    | none => .error .oldRead
    | some (oc, calls') =>
      match srcDiff s buf f (rem - c) (p + c) calls' (d.drop c) with
      | .error e => .error e
      | .ok (o, d', cl) => .ok (addBytes oc (d.take c) ++ o, d', cl)

def srcEntries (s : Source) (buf : Nat) : List Ctl → Nat → Nat → Bytes → Bytes → Except PErr Bytes
  | [], _, _, _, _ => .ok []
  | c :: cs, p, calls, d, e =>
    match srcDiff s buf c.diff c.diff p calls d with
    | .error x => .error x
    | .ok (o1, d', calls') =>
      match streamExtra buf c.extra c.extra e with
      | none => .error (.inner .short)
      | some (o2, e') =>
        match srcEntries s buf cs (seekStep (p + c.diff) c.seek) calls' d' e' with
        | .error x => .error x
        | .ok rest => .ok (o1 ++ (o2 ++ rest))

/-- `ZbsdiffPatcher::new(source, outSize).with_buffer_size(buf).apply_patch(ctl, diff, extra)`. -/
def srcApply (s : Source) (buf : Nat) (ctl : List Ctl) (diff extra : Bytes) (outSize : Nat) : Except PErr Bytes :=
  if !s.seekable then .error .seek else
  match srcEntries s (clampBuf buf) ctl 0 0 diff extra with
  | .error e => .error e
  | .ok out => if out.length = outSize then .ok out else .error (.inner .size)

/-- `apply_patch_from_data` over a source, from the header's size and the inflated blocks (the
shape of `applyBytes`). -/
def applyBytesSrc (s : Source) (buf : Nat) (ctlBytes diff extra : Bytes) (outSize : Nat) : Except PErr Bytes :=
  if outSize > maxSize then .error (.inner .header) else
  match parseCtl ctlBytes with
  | .error x => .error (.inner x)
  | .ok ctl => srcApply s buf ctl diff extra outSize

end Cascette.Model.Zbsdiff
