/-
Model/MultiLayer — executable model of `cascette_cache::multi_layer::MultiLayerCacheImpl`
(crates/cascette-cache/src/multi_layer.rs) AS WRITTEN after the `fix:` commit that evaluates
`should_promote` on the tracker guard already held, sequential use, over a list of layer models
taken from property C10 (`Model/MemCache`, `Model/DiskCache`; imported, not edited).

* `layers: Vec<CacheLayer<K>>` + `layer_hits` / `layer_misses`  → `State.slots : List Slot`
* `promotion_tracker: Arc<RwLock<HashMap<K, PromotionTracker>>>` → `State.tracker` (hit count and
  `current_layer`; the two `Instant`s only feed `should_promote`, whose result the code throws
  away — promotion on hit is deferred — so they are a Boolean supplied by the environment for
  the two time-based strategies) and the LOCK TRACE of every call: which guards of that one
  `RwLock` the call takes and releases, in order (`LockEv`).  `std::sync::RwLock` is not
  re-entrant: taking it again on the same thread while a guard is alive never returns.
* `validation_hooks: Option<Arc<dyn ValidationHooks>>` → `Env.hooks : Option Hooks`
  (`should_skip_validation`, `validate_content` as arbitrary functions; `md5Hooks H n` is
  `Md5ValidationHooks`/`NgdpValidationHooks` for an ARBITRARY hash `H`).
* the eviction victims a memory layer picks (DashMap iteration order, ties) → `Env.victims`, an
  arbitrary function of the layer state (the theorems hold for every such function, hence for
  all five eviction policies; the driver uses C10's `detVictims`, valid for Lru/Fifo with distinct
  time stamps and irrelevant for the Ttl policy, which evicts exactly the expired entries; for
  Lfu ties / Random it follows the victims observed on the real layer after checking them with
  C10's `victimsOk`, see `hintOk`).
* faults in the backing store of a disk layer: `fdel` (the key's file disappears), `fset` (the
  key's file is created or overwritten by someone else).

`Pinned.getTrace` keeps the lock trace of `get` as it was in the pinned tree (the read lock is
requested inside the write guard) for the recorded counter-witness.
-/
import Cascette.Model.MemCache
import Cascette.Model.DiskCache
namespace Cascette.Model.MultiLayer
open Cascette.Spec.CacheMap (Key Val)
open Cascette.Model.CacheAssoc
open Cascette.Model

/-- a content key (the 16 hash bytes) -/
abbrev CK := List Nat

/-! ### one layer -/

inductive Layer where
  | mem (cfg : MemCache.Config) (s : MemCache.State)
  | disk (cfg : DiskCache.Config) (s : DiskCache.State)
  deriving Repr

/-- `CacheResult<Option<Bytes>>` of a layer -/
inductive LGet where
  | miss
  | hit (v : Val)
  | err
  deriving Repr, DecidableEq

abbrev Victims := MemCache.Config → MemCache.State → List Key

namespace Layer

/-- `CacheLayer::get` -/
def get (l : Layer) (k : Key) : Layer × LGet :=
  match l with
  | .mem cfg s =>
    let r := MemCache.get (MemCache.tick s) k
    (.mem cfg r.1, match r.2 with | some v => .hit v | none => .miss)
  | .disk cfg s =>
    let r := DiskCache.get s k
    (.disk cfg r.1, match r.2 with | .miss => .miss | .hit v => .hit v | .ioErr => .err)

/-- `CacheLayer::put_with_ttl` (TTL class `short`) -/
def putTtl (vc : Victims) (l : Layer) (k : Key) (v : Val) (short : Bool) : Layer :=
  match l with
  | .mem cfg s =>
    let s1 := MemCache.tick s
    .mem cfg (MemCache.putCore cfg s1 k v short (vc cfg s1))
  | .disk cfg s => .disk cfg (DiskCache.putCore s k v short)

def defaultShort : Layer → Bool
  | .mem cfg _ => cfg.defaultShort
  | .disk cfg _ => cfg.defaultShort

/-- `CacheLayer::put` (the layer's default TTL) -/
def put (vc : Victims) (l : Layer) (k : Key) (v : Val) : Layer := putTtl vc l k v l.defaultShort

/-- `CacheLayer::remove` -/
def remove (l : Layer) (k : Key) : Layer × Bool :=
  match l with
  | .mem cfg s => let r := MemCache.remove (MemCache.tick s) k; (.mem cfg r.1, r.2)
  | .disk cfg s => let r := DiskCache.remove s k; (.disk cfg r.1, r.2)

/-- `CacheLayer::clear` -/
def clear : Layer → Layer
  | .mem cfg s => .mem cfg { MemCache.tick s with store := [], count := 0, bytes := 0 }
  | .disk cfg _ => .disk cfg { index := [], files := [], count := 0, bytes := 0 }

/-- fault: the file of `k` in a disk layer's directory disappears -/
def fdel (l : Layer) (k : Key) : Layer :=
  match l with
  | .mem cfg s => .mem cfg s
  | .disk cfg s => .disk cfg { s with files := erase k s.files }

/-- fault: the file of `k` in a disk layer's directory is created / overwritten from outside -/
def fset (l : Layer) (k : Key) (v : Val) : Layer :=
  match l with
  | .mem cfg s => .mem cfg s
  | .disk cfg s => .disk cfg { s with files := (k, v) :: erase k s.files }

/-- what a `get` of `k` would answer now -/
def peek (l : Layer) (k : Key) : LGet := (l.get k).2

end Layer

/-! ### validation hooks -/

inductive Check where
  | valid | invalid | error
  deriving Repr, DecidableEq

structure Hooks where
  /-- `should_skip_validation(content_key, data.len())` -/
  skip : CK → Nat → Bool
  /-- `validate_content`: `Ok(valid)`, `Ok(invalid)`, `Err(_)` -/
  check : CK → Val → Check

/-- `Md5ValidationHooks` (and `NgdpValidationHooks`, which delegates): skip above `skipAbove`
bytes, else compare the hash with the content key. `H` is any function. -/
def md5Hooks (H : Val → CK) (skipAbove : Nat) : Hooks :=
  { skip := fun _ n => decide (n > skipAbove),
    check := fun ck v => if H v = ck then .valid else .invalid }

/-- `NoOpValidationHooks` -/
def noopHooks : Hooks := { skip := fun _ _ => true, check := fun _ _ => .valid }

/-- hooks whose `validate_content` fails with a `CacheError` -/
def errHooks : Hooks := { skip := fun _ _ => false, check := fun _ _ => .error }

inductive VRes where
  | ok | failed | hookErr
  deriving Repr, DecidableEq

/-- `NgdpBytes::new_with_key(..).validate_with_hooks(hooks)` -/
def validate (h : Hooks) (ck : CK) (v : Val) : VRes :=
  if h.skip ck v.length then .ok else
  match h.check ck v with
  | .valid => .ok
  | .invalid => .failed
  | .error => .hookErr

/-! ### promotion tracker and its lock -/

structure TEntry where
  hits : Nat
  layer : Nat
  deriving Repr, DecidableEq

inductive Strategy where
  | onHit
  | afterN (n : Nat)
  | manual
  /-- `FrequencyBased` / `AgeBased`: the verdict depends on wall-clock time only -/
  | timed (verdict : Bool)
  deriving Repr, DecidableEq

/-- `should_promote`, evaluated on the tracker entry the caller already has -/
def shouldPromote (st : Strategy) (e : TEntry) (layer : Nat) : Bool :=
  if layer = 0 then false else
  match st with
  | .onHit => true
  | .afterN n => decide (e.hits ≥ n)
  | .manual => false
  | .timed b => b

/-- events on the one `promotion_tracker` lock -/
inductive LockEv where
  | acqW | relW | acqR | relR
  deriving Repr, DecidableEq

abbrev Trace := List LockEv

/-- guards alive on the calling thread -/
structure Held where
  w : Nat
  r : Nat
  deriving Repr, DecidableEq

/-- replay a trace from a thread that holds `h`; `none` = the thread requests the lock while it
still holds a guard on it (blocks forever on a non-re-entrant lock) or releases what it does not
hold. -/
def replay : Held → Trace → Option Held
  | h, [] => some h
  | h, .acqW :: t => if h.w = 0 ∧ h.r = 0 then replay { h with w := 1 } t else none
  | h, .acqR :: t => if h.w = 0 ∧ h.r = 0 then replay { h with r := 1 } t else none
  | h, .relW :: t => if h.w = 1 then replay { h with w := 0 } t else none
  | h, .relR :: t => if h.r = 1 then replay { h with r := 0 } t else none

/-- the call never requests the lock while holding it, and returns holding nothing -/
def lockOk (t : Trace) : Bool := replay ⟨0, 0⟩ t == some ⟨0, 0⟩

/-! ### the multi-layer cache -/

structure Slot where
  layer : Layer
  hits : Nat
  misses : Nat
  deriving Repr

structure Env where
  strategy : Strategy
  hooks : Option Hooks
  victims : Victims

structure State where
  slots : List Slot
  tracker : List (Key × TEntry)
  promotions : Nat

def init (layers : List Layer) : State :=
  { slots := layers.map (fun l => { layer := l, hits := 0, misses := 0 }), tracker := [], promotions := 0 }

inductive Err where
  | config | io | validation | corruption | backend
  deriving Repr, DecidableEq

inductive Out where
  | unit
  | val (o : Option Val)
  | bool (b : Bool)
  | vals (l : List (Option Val))
  | err (e : Err)
  deriving Repr, DecidableEq

structure Res where
  st : State
  out : Out
  trace : Trace

/-- the loop `for (layer_index, layer) in self.layers.iter().enumerate()` of `get` /
`get_with_validation`: layers in order; a miss or an error of a layer counts as a miss of that
layer and the next one is tried. -/
def scan (k : Key) : List Slot → Nat → List Slot × Option (Nat × Val)
  | [], _ => ([], none)
  | sl :: rest, i =>
    let r := sl.layer.get k
    match r.2 with
    | .hit v => ({ layer := r.1, hits := sl.hits + 1, misses := sl.misses } :: rest, some (i, v))
    | _ =>
      let q := scan k rest (i + 1)
      ({ layer := r.1, hits := sl.hits, misses := sl.misses + 1 } :: q.1, q.2)

/-- tracker update of a hit at layer `i` -/
def touch (tr : List (Key × TEntry)) (k : Key) (i : Nat) : List (Key × TEntry) :=
  match lookup k tr with
  | some e => (k, { e with hits := e.hits + 1 }) :: erase k tr
  | none => (k, { hits := 1, layer := i }) :: erase k tr

/-- `AsyncCache::get` -/
def get (env : Env) (s : State) (k : Key) : Res :=
  let q := scan k s.slots 0
  match q.2 with
  | some (i, v) =>
    -- write guard; entry updated; `should_promote(entry, i)` on the guard held (result unused)
    let _p := match lookup k s.tracker with
      | some e => shouldPromote env.strategy { e with hits := e.hits + 1 } i
      | none => false
    ⟨{ s with slots := q.1, tracker := touch s.tracker k i }, .val (some v), [.acqW, .relW]⟩
  | none => ⟨{ s with slots := q.1 }, .val none, []⟩

def mapSlots (s : State) (f : Layer → Layer) : State :=
  { s with slots := s.slots.map (fun sl => { sl with layer := f sl.layer }) }

/-- `AsyncCache::remove`: every layer, then the tracker -/
def remove (s : State) (k : Key) : Res :=
  let found := s.slots.any (fun sl => (sl.layer.remove k).2)
  let s1 := mapSlots s (fun l => (l.remove k).1)
  ⟨{ s1 with tracker := erase k s.tracker }, .bool found, [.acqW, .relW]⟩

/-- `AsyncCache::clear` -/
def clear (s : State) : Res :=
  ⟨{ slots := s.slots.map (fun sl => { layer := sl.layer.clear, hits := 0, misses := 0 }),
     tracker := [], promotions := 0 }, .unit, [.acqW, .relW]⟩

def modifyHead (f : Layer → Layer) : List Slot → List Slot
  | [] => []
  | sl :: rest => { sl with layer := f sl.layer } :: rest

def modifyAt (f : Layer → Layer) : List Slot → Nat → List Slot
  | [], _ => []
  | sl :: rest, 0 => { sl with layer := f sl.layer } :: rest
  | sl :: rest, i + 1 => sl :: modifyAt f rest i

/-- `put` / `put_with_ttl` (`short = none`: the layer's default TTL): first layer only, then a
fresh tracker entry. The layer models never fail a put. -/
def putWith (env : Env) (s : State) (k : Key) (v : Val) (short : Option Bool) : Res :=
  let f : Layer → Layer := fun l => match short with
    | some c => l.putTtl env.victims k v c
    | none => l.put env.victims k v
  ⟨{ s with slots := modifyAt f s.slots 0, tracker := (k, { hits := 1, layer := 0 }) :: erase k s.tracker },
   .unit, [.acqW, .relW]⟩

def put (env : Env) (s : State) (k : Key) (v : Val) : Res := putWith env s k v none

def putTtl (env : Env) (s : State) (k : Key) (v : Val) (short : Bool) : Res := putWith env s k v (some short)

/-- `MultiLayerCache::put_to_layer` -/
def putToLayer (env : Env) (s : State) (k : Key) (v : Val) (i : Nat) : Res :=
  if i ≥ s.slots.length then ⟨s, .err .config, []⟩
  else ⟨{ s with slots := modifyAt (fun l => l.put env.victims k v) s.slots i }, .unit, []⟩

def layerAt (s : State) (i : Nat) : Option Layer := (s.slots[i]?).map (·.layer)

def outOfLGet : LGet → Out
  | .miss => .val none
  | .hit v => .val (some v)
  | .err => .err .io

/-- `MultiLayerCache::get_from_layer` -/
def getFromLayer (s : State) (k : Key) (i : Nat) : Res :=
  match layerAt s i with
  | none => ⟨s, .err .config, []⟩
  | some l =>
    ⟨{ s with slots := modifyAt (fun l => (l.get k).1) s.slots i }, outOfLGet (l.get k).2, []⟩

/-- `MultiLayerCache::promote` → `promote_entry` -/
def promote (env : Env) (s : State) (k : Key) (src dst : Nat) : Res :=
  match layerAt s src, layerAt s dst with
  | some l, some _ =>
    if src ≤ dst then ⟨s, .bool false, []⟩ else
    let s1 := { s with slots := modifyAt (fun l => (l.get k).1) s.slots src }
    match (l.get k).2 with
    | .hit v =>
      let tr := match lookup k s.tracker with
        | some e => (k, { e with layer := dst }) :: erase k s.tracker
        | none => s.tracker
      ⟨{ s1 with slots := modifyAt (fun l => l.put env.victims k v) s1.slots dst, tracker := tr,
                 promotions := s.promotions + 1 }, .bool true, [.acqW, .relW]⟩
    | .miss => ⟨s1, .bool false, []⟩
    | .err => ⟨s1, .err .io, []⟩
  | _, _ => ⟨s, .err .config, []⟩

/-- `put_with_validation` -/
def putv (env : Env) (s : State) (k : Key) (ck : CK) (v : Val) : Res :=
  match env.hooks with
  | none => put env s k v
  | some h =>
    match validate h ck v with
    | .ok => put env s k v
    | .failed => ⟨s, .err .validation, []⟩
    | .hookErr => ⟨s, .err .backend, []⟩

/-- `get_with_validation` -/
def getv (env : Env) (s : State) (k : Key) (ock : Option CK) : Res :=
  let q := scan k s.slots 0
  match q.2 with
  | some (i, v) =>
    let s1 : State := { s with slots := q.1, tracker := touch s.tracker k i }
    match env.hooks, ock with
    | some h, some ck =>
      match validate h ck v with
      | .ok => ⟨s1, .val (some v), [.acqW, .relW]⟩
      | .failed => let r := remove s1 k; ⟨r.st, .err .corruption, [.acqW, .relW] ++ r.trace⟩
      | .hookErr => let r := remove s1 k; ⟨r.st, .err .backend, [.acqW, .relW] ++ r.trace⟩
    | _, _ => ⟨s1, .val (some v), [.acqW, .relW]⟩
  | none => ⟨{ s with slots := q.1 }, .val none, []⟩

/-- `batch_get`: `get_with_validation(key, None)` key by key -/
def batchGet (env : Env) : State → List Key → State × List (Option Val) × Trace
  | s, [] => (s, [], [])
  | s, k :: ks =>
    let r := getv env s k none
    let q := batchGet env r.st ks
    (q.1, (match r.out with | .val o => o | _ => none) :: q.2.1, r.trace ++ q.2.2)

/-- `batch_put`: `put` item by item -/
def batchPut (env : Env) : State → List (Key × Val) → State × Trace
  | s, [] => (s, [])
  | s, (k, v) :: kvs =>
    let r := put env s k v
    let q := batchPut env r.st kvs
    (q.1, r.trace ++ q.2)

inductive Op where
  | put (k : Key) (v : Val)
  | putTtl (k : Key) (v : Val) (short : Bool)
  | putToLayer (k : Key) (v : Val) (i : Nat)
  | get (k : Key)
  | getFromLayer (k : Key) (i : Nat)
  | promote (k : Key) (src dst : Nat)
  | remove (k : Key)
  | clear
  | batchGet (ks : List Key)
  | batchPut (kvs : List (Key × Val))
  | putv (k : Key) (ck : CK) (v : Val)
  | getv (k : Key) (ock : Option CK)
  /-- fault in the backing store of layer `i` -/
  | fdel (i : Nat) (k : Key)
  | fset (i : Nat) (k : Key) (v : Val)
  deriving Repr

def step (env : Env) (s : State) : Op → Res
  | .put k v => put env s k v
  | .putTtl k v short => putTtl env s k v short
  | .putToLayer k v i => putToLayer env s k v i
  | .get k => get env s k
  | .getFromLayer k i => getFromLayer s k i
  | .promote k a b => promote env s k a b
  | .remove k => remove s k
  | .clear => clear s
  | .batchGet ks => let q := batchGet env s ks; ⟨q.1, .vals q.2.1, q.2.2⟩
  | .batchPut kvs => let q := batchPut env s kvs; ⟨q.1, .unit, q.2⟩
  | .putv k ck v => putv env s k ck v
  | .getv k ock => getv env s k ock
  | .fdel i k => ⟨{ s with slots := modifyAt (fun l => l.fdel k) s.slots i }, .unit, []⟩
  | .fset i k v => ⟨{ s with slots := modifyAt (fun l => l.fset k v) s.slots i }, .unit, []⟩

def run (env : Env) (s : State) (ops : List Op) : State := ops.foldl (fun s op => (step env s op).st) s

/-! ### observed victims (Lfu ties, Random)

Where the policy does not determine the victims of a memory layer, the correspondence run hands
the victims it SAW the layer evict to the model; the model follows them only if the policy
allows the choice (C10's `victimsOk`). -/

/-- the layer a call puts into, for the calls that perform exactly one layer put -/
def writeLayer : Op → Option Nat
  | .put _ _ => some 0
  | .putTtl _ _ _ => some 0
  | .putv _ _ _ => some 0
  | .batchPut [_] => some 0
  | .putToLayer _ _ i => some i
  | .promote _ src dst => if src > dst then some dst else none
  | _ => none

/-- is `vs` a victim list the policy of layer `i` allows for a put into it in state `s`?
(`MemCache.opOk`: irrelevant when the put does not reach a policy-chosen eviction) -/
def hintOk (s : State) (i : Nat) (vs : List Key) : Bool :=
  match layerAt s i with
  | some (.mem cfg ms) => MemCache.opOk cfg ms (.putTtl 0 [] false vs)
  | _ => true

/-- the victims function of a call that carries observed victims -/
def hintVictims (det : Victims) : Option (List Key) → Victims
  | some vs => fun _ _ => vs
  | none => det

/-- the answers `get k` of the individual layers, in layer order -/
def peeks (s : State) (k : Key) : List LGet := s.slots.map (fun sl => sl.layer.peek k)

/-- first layer, in order, that answers with a value -/
def firstHit : List LGet → Option Val
  | [] => none
  | .hit v :: _ => some v
  | _ :: t => firstHit t

namespace Pinned
/-- lock trace of `get` in the PINNED tree: inside the write guard, for an already tracked key
found below the first layer, `should_promote` asks for the read lock of the same `RwLock`. -/
def getTrace (s : State) (k : Key) : Trace :=
  match (scan k s.slots 0).2 with
  | some (i, _) =>
    match lookup k s.tracker with
    | some _ => if i = 0 then [.acqW, .relW] else [.acqW, .acqR, .relR, .relW]
    | none => [.acqW, .relW]
  | none => []
end Pinned

end Cascette.Model.MultiLayer
