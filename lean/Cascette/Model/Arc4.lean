/-
Model/Arc4 — executable model of `crates/cascette-crypto/src/arc4.rs`: 256-byte S-box as an
array, `u8` wrapping index arithmetic, KSA over `key[i % key.len()]`, PRGA.
-/
import Cascette.Base.Bytes
namespace Cascette.Model.Arc4
open Cascette

structure Cipher where
  s : Array Byte
  i : Byte
  j : Byte

def swap (s : Array Byte) (i j : Nat) : Array Byte :=
  let a := s.getD i 0
  let b := s.getD j 0
  (s.setIfInBounds i b).setIfInBounds j a

/-- KSA loop `for i in 0..256`, as recursion on the number of remaining iterations. -/
def ksa (key : Array Byte) : Nat → Nat → Byte → Array Byte → Array Byte
  | 0, _, _, s => s
  | n + 1, i, j, s =>
    let j := j + s.getD i 0 + key.getD (i % key.size) 0
    ksa key n (i + 1) j (swap s i j.toNat)

/-- `Arc4Cipher::new`; `none` = `Err(InvalidKeyLength)`. -/
def new (key : Bytes) : Option Cipher :=
  if key.isEmpty || key.length > 256 then none else
  let s0 : Array Byte := (Array.range 256).map (BitVec.ofNat 8)
  some { s := ksa key.toArray 256 0 0 s0, i := 0, j := 0 }

/-- `next_keystream_byte` -/
def next (c : Cipher) : Cipher × Byte :=
  let i := c.i + 1
  let j := c.j + c.s.getD i.toNat 0
  let s := swap c.s i.toNat j.toNat
  let k := s.getD i.toNat 0 + s.getD j.toNat 0
  ({ s := s, i := i, j := j }, s.getD k.toNat 0)

/-- `apply_keystream` / `encrypt` / `decrypt` -/
def apply (c : Cipher) : Bytes → Cipher × Bytes
  | [] => (c, [])
  | b :: bs =>
    let (c1, k) := next c
    let (c2, os) := apply c1 bs
    (c2, (b ^^^ k) :: os)

def crypt (key msg : Bytes) : Option Bytes :=
  (new key).map fun c => (apply c msg).2

/-! ### The same code with every index CHECKED

Rust's `s[i]` panics when `i` is out of bounds and `i % key.len()` panics on an empty key; the
definitions above read with `getD … 0` and write with `setIfInBounds`, which would silently
default.  `Checked.*` is the same code with `s[i]?`: `none` = the Rust would panic.
`Proofs.Rc4.checked_crypt_eq` shows `Checked.crypt = crypt` for every key and message, i.e. no
read ever defaults and no write is ever dropped. -/
namespace Checked

def swap (s : Array Byte) (i j : Nat) : Option (Array Byte) :=
  match s[i]?, s[j]? with
  | some a, some b => some ((s.setIfInBounds i b).setIfInBounds j a)
  | _, _ => none

def ksa (key : Array Byte) : Nat → Nat → Byte → Array Byte → Option (Array Byte)
  | 0, _, _, s => some s
  | n + 1, i, j, s =>
    if key.size = 0 then none else
    match s[i]?, key[i % key.size]? with
    | some si, some ki =>
      let j := j + si + ki
      match swap s i j.toNat with
      | some s' => ksa key n (i + 1) j s'
      | none => none
    | _, _ => none

def new (key : Bytes) : Option Cipher :=
  if key.isEmpty || key.length > 256 then none else
  let s0 : Array Byte := (Array.range 256).map (BitVec.ofNat 8)
  (ksa key.toArray 256 0 0 s0).map fun s => { s := s, i := 0, j := 0 }

def next (c : Cipher) : Option (Cipher × Byte) :=
  let i := c.i + 1
  match c.s[i.toNat]? with
  | none => none
  | some si =>
    let j := c.j + si
    match swap c.s i.toNat j.toNat with
    | none => none
    | some s =>
      match s[i.toNat]?, s[j.toNat]? with
      | some a, some b =>
        match s[(a + b).toNat]? with
        | some o => some ({ s := s, i := i, j := j }, o)
        | none => none
      | _, _ => none

def apply (c : Cipher) : Bytes → Option (Cipher × Bytes)
  | [] => some (c, [])
  | b :: bs =>
    match next c with
    | none => none
    | some (c1, k) =>
      match apply c1 bs with
      | none => none
      | some (c2, os) => some (c2, (b ^^^ k) :: os)

def crypt (key msg : Bytes) : Option Bytes :=
  match new key with
  | none => none
  | some c => (apply c msg).map (·.2)

end Checked

end Cascette.Model.Arc4
