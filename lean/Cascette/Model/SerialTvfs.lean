/-
Model/SerialTvfs — the part of `TvfsFile::{parse, build}` behind the C08 TVFS findings
(crates/cascette-formats/src/tvfs/{mod,vfs_table,container_table,header}.rs), on C03's
`Model/TvfsPath` conventions (bytes are naturals < 256, `offsSize` = `offset_field_size`).

* `VfsTable::parse(data, header)`: the sequential entry loop. The width of every `cft_offset`
  field is `offsSize header.cft_table_size` — a function of the container-table SIZE stated by the
  header, not of anything in the VFS table.
* `ContainerFileTable::parse` reads `size / entry_size` whole entries and ignores the remaining
  slack bytes; `ContainerFileTable::build` writes the entries only.
* `TvfsFile::build` keeps the VFS table bytes as read (`vfs_table.data.clone()`), rebuilds the
  container table from its entries and writes `cft_table_size = entries × entry_size` into the
  header (`rebuiltCftSize`). Flags 0 / INCLUDE_CKEY: `entry_size = ekey_size + 4 (+ pkey_size)`.
-/
import Cascette.Model.TvfsPath
namespace Cascette.Model.SerialTvfs
open Cascette.Model.TvfsPath

/-- `read_be_uint` / `u32::from_be_bytes` -/
def rdBeN (bs : Bytes) : Nat := bs.foldl (fun a b => a * 256 + b) 0

/-- `VfsEntry`: offset of the entry in the table, spans `(file_offset, span_length, cft_offset)` -/
structure VEntry where
  off : Nat
  spans : List (Nat × Nat × Nat)
deriving DecidableEq, Repr

/-- the `for _ in 0..span_count` loop (the caller has checked that the bytes are there) -/
def readSpans (w : Nat) : Nat → Bytes → List (Nat × Nat × Nat)
  | 0, _ => []
  | c + 1, bs =>
    (rdBeN (bs.take 4), rdBeN ((bs.drop 4).take 4), rdBeN ((bs.drop 8).take w)) ::
      readSpans w c (bs.drop (8 + w))

/-- `VfsTable::parse`: `while pos < data.len()`; `none` = `VfsTableTruncated`. Span counts above
224 are skipped (or end the table when their spans overrun it), a zero count is an empty entry. -/
def vfsLoop (w : Nat) : Nat → Nat → Bytes → Option (List VEntry)
  | 0, _, _ => some []
  | _ + 1, _, [] => some []
  | fuel + 1, pos, c :: r =>
    let need := c * (8 + w)
    if c > 224 then
      if r.length < need then some [] else vfsLoop w fuel (pos + 1 + need) (r.drop need)
    else if c = 0 then (vfsLoop w fuel (pos + 1) r).map (⟨pos, []⟩ :: ·)
    else if r.length < need then none
    else (vfsLoop w fuel (pos + 1 + need) (r.drop need)).map (⟨pos, readSpans w c r⟩ :: ·)

/-- `VfsTable::parse(data, header)` with `header.cft_table_size = cftSize` -/
def vfsParse (cftSize : Nat) (data : Bytes) : Option (List VEntry) :=
  vfsLoop (offsSize cftSize) (data.length + 1) 0 data

/-- `header.cft_entry_size()` for flags 0 / INCLUDE_CKEY (bit 0), key sizes from the header -/
def cftEntrySize (ekeySize pkeySize flags : Nat) : Nat :=
  ekeySize + 4 + (if flags % 2 = 1 then pkeySize else 0)

/-- number of entries `ContainerFileTable::parse` reads from `size` bytes:
`while offset + entry_size <= data.len()` -/
def cftCount (es size : Nat) : Nat := size / es

/-- the `cft_table_size` that `TvfsFile::build` writes: entries only, slack dropped -/
def rebuiltCftSize (es size : Nat) : Nat := cftCount es size * es

/-- first and second parse of the VFS table across one `TvfsFile::build`: the table bytes are the
same, the header's container-table size is the rebuilt one -/
def vfsAcrossRebuild (es cftSize : Nat) (vfs : Bytes) : Option (List VEntry) × Option (List VEntry) :=
  (vfsParse cftSize vfs, vfsParse (rebuiltCftSize es cftSize) vfs)

end Cascette.Model.SerialTvfs
