/-
Model/RetryOps — the vocabulary in which lib/rs2lean_retry.py writes down what it reads in
`crates/cascette-protocol/src/retry.rs` (lean/Cascette/Generated/RetrySrc.lean), and the
interpreter that gives that text a meaning:

  * `Ops F`     the f64 / `Duration` primitives the translated expressions call. The theorems
                hold for EVERY `Ops F` (so for IEEE doubles, for exact rationals, for an
                arithmetic that rejects every value); Driver/C14 instantiates it with `Float`.
  * `Arm`       the arms of `match f().await { … }` in source order, `selectArm` = Rust's
                first-match rule.
  * `Stmt`      the statements of the retry arm in source order, `runArm` = executing them one
                after the other on the loop variables.
  * `genLoop`   `RetryPolicy::execute` assembled from those pieces only.

Proofs/RetryTie proves `genLoop` over the GENERATED pieces equal to the hand-written
`Model.Retry.loop` the C14 theorems are about.
-/
import Cascette.Model.Retry
namespace Cascette.Model.RetryOps
open Cascette.Model.Retry

/-- f64 and `Duration` primitives used by `execute` (durations are ns). -/
structure Ops (F : Type) where
  /-- `Duration::as_secs_f64` -/
  asSecsF64 : Nat → F
  /-- `u128 as f64` / `u64 as f64` -/
  ofNat : Nat → F
  /-- `f64 as u64` (saturating, NaN → 0) -/
  toU64 : F → Nat
  /-- `*` on f64 -/
  mul : F → F → F
  /-- `f64::min` -/
  fmin : F → F → F
  /-- `f64::max` -/
  fmax : F → F → F
  /-- a decimal literal `num / den` (`0.0` = `lit 0 10`, `0.3` = `lit 3 10`) -/
  lit : Nat → Nat → F
  /-- `Duration::try_from_secs_f64(..).ok()` -/
  tryFromSecsF64 : F → Option Nat

/-- arms of `match f().await` -/
inductive Arm
  /-- `Ok(result) => return Ok(result)` -/
  | ok_return
  /-- `Err(e) if <guard> => return Err(e)` -/
  | err_guard_return
  /-- `Err(e) => { …retry… }` -/
  | err_retry
  deriving DecidableEq, Repr

/-- does this arm take an outcome (`isOk`) under this value of the guard expression? -/
def Arm.takes (isOk guard : Bool) : Arm → Bool
  | .ok_return => isOk
  | .err_guard_return => !isOk && guard
  | .err_retry => !isOk

/-- Rust `match`: the first arm, in source order, that takes the value. -/
def selectArm (arms : List Arm) (isOk guard : Bool) : Option Arm :=
  arms.find? (Arm.takes isOk guard)

/-- statements of the retry arm -/
inductive Stmt
  /-- `attempt += n;` -/
  | inc_attempt (n : Nat)
  /-- `let mut delay = if let Some(retry_after) = e.retry_after_hint() { … } else { … };` -/
  | set_delay
  /-- `if self.jitter { … delay = …; }` -/
  | jitter_if
  /-- `sleep(delay).await;` -/
  | sleep_delay
  /-- `let scaled = …; backoff = …;` -/
  | update_backoff
  deriving DecidableEq, Repr

/-- the `let mut` variables of the loop plus the sleeps made so far in this arm -/
structure Vars where
  attempt : Nat
  backoff : Nat
  delay : Nat
  slept : List Nat
  deriving DecidableEq, Repr

/-- what the statements compute with (all taken from the generated file) -/
structure Pieces where
  /-- value of the `if let … else …` expression: hint → backoff → delay -/
  baseDelay : Option Nat → Nat → Nat
  /-- condition of the jitter `if` -/
  jitterOn : Bool
  /-- new value of `delay` inside the jitter block, given `attempt` and the old `delay` -/
  jittered : Nat → Nat → Nat
  /-- new value of `backoff` -/
  nextBackoff : Nat → Nat

def runStmt (P : Pieces) (hint : Option Nat) (v : Vars) : Stmt → Vars
  | .inc_attempt n => { v with attempt := v.attempt + n }
  | .set_delay => { v with delay := P.baseDelay hint v.backoff }
  | .jitter_if => if P.jitterOn then { v with delay := P.jittered v.attempt v.delay } else v
  | .sleep_delay => { v with slept := v.slept ++ [v.delay] }
  | .update_backoff => { v with backoff := P.nextBackoff v.backoff }

def runArm (P : Pieces) (hint : Option Nat) : List Stmt → Vars → Vars
  | [], v => v
  | s :: r, v => runArm P hint r (runStmt P hint v s)

/-- The shape of `execute` as the translator found it. -/
structure Shape where
  attemptInit : Nat
  arms : List Arm
  /-- guard of the `Err(e) if …` arm: should_retry → attempt → max_attempts → Bool -/
  stopGuard : Bool → Nat → Nat → Bool
  retryArm : List Stmt

/-- `loop { match f().await { … } }` assembled from the translated pieces. A `match` in which no
arm takes the value does not compile; the model answers `panic` there so that such a shape can
never be proved equal to the hand-written loop. -/
def genLoop (S : Shape) (P : Pieces) (maxAttempts : Nat) : Nat → Nat → List Outcome → Trace
  | _, _, [] => ⟨0, [], .starved⟩
  | attempt, backoff, o :: rest =>
    let isOk := match o with | .ok _ => true | .err _ => false
    let retry := match o with | .ok _ => false | .err e => e.shouldRetry
    let hint := match o with | .ok _ => none | .err e => e.retryAfterHint
    match selectArm S.arms isOk (S.stopGuard retry attempt maxAttempts) with
    | none => ⟨1, [], .panic⟩
    | some .ok_return => ⟨1, [], o.toResult⟩
    | some .err_guard_return => ⟨1, [], o.toResult⟩
    | some .err_retry =>
      let v := runArm P hint S.retryArm ⟨attempt, backoff, 0, []⟩
      let t := genLoop S P maxAttempts v.attempt v.backoff rest
      ⟨t.calls + 1, v.slept ++ t.delays, t.result⟩

end Cascette.Model.RetryOps
