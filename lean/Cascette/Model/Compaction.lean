/-
Model/Compaction — executable model of `cascette-client-storage/src/storage/compaction.rs`
(`DataSpan`, `validate_spans`, `CompactionFileMover::{new, compact_in_place}`,
`extract_compact_segment`, `plan_archive_merge`) and of the truncation step of
`ArchiveManager::compact` (`archive_file.rs`), as the code is written after the four `fix:`
commits recorded in KNOWN_FINDINGS.txt (first destination cursor; equal-offset sort key; empty
span list; `checked_add` guard in `validate_spans`).

A file is its byte list. `read_exact` fails when the range reaches past the end; `write_all` at a
position past the end zero-fills the hole (POSIX).

Two layers for the span code. The `Nat` layer (`validateSpans`, `copyLoop`, `compactLoop`,
`extractCompact`) computes with unbounded naturals. The `u64` layer (`validateSpansU64`,
`copyLoopW`, `compactLoopW`, `extractCompactU64`) is the code as compiled: every `u64` addition
the Rust performs (`DataSpan::end`, `write_pos += length`, `src_pos += chunk`,
`dest_pos += chunk`) is `addW` (wrapping, what a release build does; a debug build panics exactly
where `addW` differs from `+`), preceded by the `checked_add` guard. `Proofs/CompactionU64.lean`
proves that behind the guard no addition ever wraps, i.e. the two layers agree on every input;
the driver runs the `u64` layer. The planner is on `Nat` with the range hypotheses listed in the
C18 cfg (assumptions).
The `f64` utilisation tests are parameters (`isSource`, `utilLow`, `grewALot`): every theorem
holds for every such function; the driver instantiates them with IEEE doubles.
-/
import Cascette.Base.Bytes
import Cascette.Spec.Compaction
namespace Cascette.Model.Compaction
open Cascette
open Cascette.Spec.Compaction (Span)

/-! ## spans -/

/-- the key order of `spans.sort_by_key(|s| (s.offset, s.length))` (lexicographic on the tuple). -/
def Span.le (a b : Span) : Bool :=
  decide (a.off < b.off) || (decide (a.off = b.off) && decide (a.len ≤ b.len))

/-- `sort_by_key` is a stable merge sort; so is `List.mergeSort`. -/
def sortSpans (spans : List Span) : List Span := spans.mergeSort Span.le

/-- the `for i in 0..spans.len()-1 { if spans[i].end() > spans[i+1].offset { return Err } }` scan. -/
def adjacentOk : List Span → Bool
  | a :: b :: rest => decide (a.stop ≤ b.off) && adjacentOk (b :: rest)
  | _ => true

/-- `validate_spans(&mut spans)`: the slice after the call and `is_ok()`. -/
def validateSpans (spans : List Span) : List Span × Bool :=
  if spans.length ≤ 1 then (spans, true)
  else
    let s := sortSpans spans
    (s, adjacentOk s)

/-! ## files -/

/-- `seek(pos); read_exact(buf[..n])`. -/
def readExact (f : Bytes) (pos n : Nat) : Option Bytes :=
  if pos + n ≤ f.length then some ((f.drop pos).take n) else none

/-- `seek(pos); write_all(d)`. -/
def writeAt (f : Bytes) (pos : Nat) (d : Bytes) : Bytes :=
  f.take pos ++ List.replicate (pos - f.length) 0 ++ d ++ f.drop (pos + d.length)

/-- `File::set_len`. -/
def setLen (f : Bytes) (n : Nat) : Bytes :=
  f.take n ++ List.replicate (n - f.length) 0

/-! ## the buffered mover -/

/-- `CompactionFileMover` (the buffer contents are not observable between calls). The positivity
of the buffer size is what makes the chunk loops terminate; `moverNew` establishes it. -/
structure Mover where
  bufSize : Nat
  bufCount : Nat
  moved : Nat
  pos : 0 < bufSize

def MIN_BUFFER_SIZE : Nat := 128 * 1024
def MAX_BUFFERS : Nat := 16

/-- `(total >> 17).clamp(1, 16)`. -/
def bufCountOf (total : Nat) : Nat := min (max (total >>> 17) 1) MAX_BUFFERS

theorem bufSize_pos (budget : Nat) :
    0 < max budget MIN_BUFFER_SIZE / bufCountOf (max budget MIN_BUFFER_SIZE) := by
  have h : MIN_BUFFER_SIZE ≤ max budget MIN_BUFFER_SIZE := Nat.le_max_right _ _
  generalize max budget MIN_BUFFER_SIZE = total at h
  unfold MIN_BUFFER_SIZE at h
  unfold bufCountOf MAX_BUFFERS
  rw [Nat.shiftRight_eq_div_pow]
  apply Nat.div_pos
  · omega
  · omega

/-- `CompactionFileMover::new(total_budget)`. -/
def moverNew (budget : Nat) : Mover :=
  let total := max budget MIN_BUFFER_SIZE
  { bufSize := total / bufCountOf total, bufCount := bufCountOf total, moved := 0,
    pos := bufSize_pos budget }

/-- the `while remaining > 0` loop of `compact_in_place`: read a chunk at `src`, write it at
`dst`, advance. Returns the file, `bytes_moved`, and whether every I/O call succeeded. -/
def copyLoop (buf : Nat) (hbuf : 0 < buf) (f : Bytes) (src dst remaining moved : Nat) :
    Bytes × Nat × Bool :=
  if _h : remaining = 0 then (f, moved, true)
  else
    let chunk := min remaining buf
    match readExact f src chunk with
    | none => (f, moved, false)
    | some d =>
      copyLoop buf hbuf (writeAt f dst d) (src + chunk) (dst + chunk) (remaining - chunk)
        (moved + chunk)
termination_by remaining
decreasing_by omega

/-- `CompactionFileMover::compact_in_place(file, src_offset, dest_offset, length)`. -/
def compactInPlace (m : Mover) (f : Bytes) (src dst len : Nat) : Bytes × Mover × Bool :=
  if src = dst then (f, m, true)
  else
    match copyLoop m.bufSize m.pos f src dst len m.moved with
    | (f', mv, ok) => (f', { m with moved := mv }, ok)

/-- the `while remaining > 0` loop of `move_data` (two different files, both positioned once by
`seek` and then advanced by the sequential reads/writes). Returns the destination file,
`bytes_moved`, and whether every I/O call succeeded. -/
def moveLoop (buf : Nat) (hbuf : 0 < buf) (s d : Bytes) (sp dp remaining moved : Nat) :
    Bytes × Nat × Bool :=
  if _h : remaining = 0 then (d, moved, true)
  else
    let chunk := min remaining buf
    match readExact s sp chunk with
    | none => (d, moved, false)
    | some x =>
      moveLoop buf hbuf s (writeAt d dp x) (sp + chunk) (dp + chunk) (remaining - chunk)
        (moved + chunk)
termination_by remaining
decreasing_by omega

/-- `CompactionFileMover::move_data(source, src_offset, dest, dest_offset, length)`. -/
def moveData (m : Mover) (s : Bytes) (so : Nat) (d : Bytes) (dof len : Nat) : Bytes × Mover × Bool :=
  match moveLoop m.bufSize m.pos s d so dof len m.moved with
  | (d', mv, ok) => (d', { m with moved := mv }, ok)
/-- the `for span in spans.iter()` loop of `extract_compact_segment`:
file, mover, `write_pos`, and whether all moves succeeded (`?` leaves the loop on the first error). -/
def compactLoop (m : Mover) (f : Bytes) : List Span → Nat → Bytes × Mover × Nat × Bool
  | [], w => (f, m, w, true)
  | s :: rest, w =>
    if s.off > w then
      match compactInPlace m f s.off w s.len with
      | (f', m', true) => compactLoop m' f' rest (w + s.len)
      | (f', m', false) => (f', m', w, false)
    else compactLoop m f rest (w + s.len)

/-- result of `extract_compact_segment`: the file afterwards and `Ok(bytes_saved)` / `Err`. -/
structure XcOut where
  file : Bytes
  saved : Option Nat
deriving DecidableEq

/-- `extract_compact_segment(file, spans, mover)`. -/
def extractCompact (m : Mover) (f : Bytes) (spans : List Span) : XcOut :=
  match validateSpans spans with
  | (_, false) => ⟨f, none⟩
  | (sorted, true) =>
    let orig := f.length
    match compactLoop m f sorted 0 with
    | (f', _, _, false) => ⟨f', none⟩
    | (f', _, w, true) =>
      let saved := orig - w
      if saved > 0 then ⟨setLen f' w, some saved⟩ else ⟨f', some saved⟩

/-! ## the same code with `u64` arithmetic as compiled -/

/-- wrapping `u64` addition. -/
def addW (a b : Nat) : Nat := (a + b) % 2 ^ 64

/-- `DataSpan::end` as compiled (`self.offset + self.length`, wrapping). -/
def Span.stopW (s : Span) : Nat := addW s.off s.len

/-- `s.offset.checked_add(s.length).is_none()`. -/
def Span.overflows (s : Span) : Bool := decide (2 ^ 64 ≤ s.off + s.len)

/-- the adjacent-pair scan with the wrapping `end()`. -/
def adjacentOkW : List Span → Bool
  | a :: b :: rest => decide (Span.stopW a ≤ b.off) && adjacentOkW (b :: rest)
  | _ => true

/-- `validate_spans(&mut spans)` as written: the `checked_add` guard (before the `len() <= 1`
shortcut and before the sort, so the slice is untouched when it fires), then sort and scan. -/
def validateSpansU64 (spans : List Span) : List Span × Bool :=
  if spans.any Span.overflows then (spans, false)
  else if spans.length ≤ 1 then (spans, true)
  else
    let s := sortSpans spans
    (s, adjacentOkW s)

/-- the chunk loop of `compact_in_place` with wrapping `src_pos += chunk; dest_pos += chunk`. -/
def copyLoopW (buf : Nat) (hbuf : 0 < buf) (f : Bytes) (src dst remaining moved : Nat) :
    Bytes × Nat × Bool :=
  if _h : remaining = 0 then (f, moved, true)
  else
    let chunk := min remaining buf
    match readExact f src chunk with
    | none => (f, moved, false)
    | some d =>
      copyLoopW buf hbuf (writeAt f dst d) (addW src chunk) (addW dst chunk) (remaining - chunk)
        (moved + chunk)
termination_by remaining
decreasing_by omega

def compactInPlaceW (m : Mover) (f : Bytes) (src dst len : Nat) : Bytes × Mover × Bool :=
  if src = dst then (f, m, true)
  else
    match copyLoopW m.bufSize m.pos f src dst len m.moved with
    | (f', mv, ok) => (f', { m with moved := mv }, ok)

/-- the span loop with wrapping `write_pos += span.length`. -/
def compactLoopW (m : Mover) (f : Bytes) : List Span → Nat → Bytes × Mover × Nat × Bool
  | [], w => (f, m, w, true)
  | s :: rest, w =>
    if s.off > w then
      match compactInPlaceW m f s.off w s.len with
      | (f', m', true) => compactLoopW m' f' rest (addW w s.len)
      | (f', m', false) => (f', m', w, false)
    else compactLoopW m f rest (addW w s.len)

/-- `extract_compact_segment(file, spans, mover)` as compiled. -/
def extractCompactU64 (m : Mover) (f : Bytes) (spans : List Span) : XcOut :=
  match validateSpansU64 spans with
  | (_, false) => ⟨f, none⟩
  | (sorted, true) =>
    let orig := f.length
    match compactLoopW m f sorted 0 with
    | (f', _, _, false) => ⟨f', none⟩
    | (f', _, w, true) =>
      let saved := orig - w
      if saved > 0 then ⟨setLen f' w, some saved⟩ else ⟨f', some saved⟩

/-! ## the merge planner -/

/-- the two fields of `SegmentInfo` the planner reads. -/
structure Seg where
  frozen : Bool
  used : Nat
deriving DecidableEq, Repr

/-- `MoveItem` without the placeholder `ekey`. -/
structure Move where
  src : Nat
  srcOff : Nat
  dst : Nat
  dstOff : Nat
  len : Nat
deriving DecidableEq, Repr

/-- `CompactionPlan`. -/
structure Plan where
  moves : List Move := []
  total : Nat := 0
  srcs : List Nat := []
  tgts : List Nat := []
deriving DecidableEq, Repr

/-- `u16::try_from(i).unwrap_or(u16::MAX)`. -/
def u16idx (i : Nat) : Nat := if i ≤ 65535 then i else 65535

/-- the source scan: frozen, utilisation below the threshold (`isSource used`), non-empty. -/
def collectSources (isSource : Nat → Bool) : List Seg → Nat → List (Nat × Nat)
  | [], _ => []
  | s :: r, i =>
    if s.frozen && (isSource s.used && decide (s.used > 0)) then
      (u16idx i, s.used) :: collectSources isSource r (i + 1)
    else collectSources isSource r (i + 1)

/-- `sources.sort_by_key(|&(_, used)| used)` (stable). -/
def sortSources (l : List (Nat × Nat)) : List (Nat × Nat) :=
  l.mergeSort (fun a b => decide (a.2 ≤ b.2))

def pushIfAbsent (l : List Nat) (x : Nat) : List Nat := if l.contains x then l else l ++ [x]

/-- the greedy loop over `sources[1..]`. `none` = the index expression `sources[dest_idx]`
panicked (never, see `Props.C18.plan_total`). -/
def greedy (srcs : List (Nat × Nat)) (segSize : Nat) :
    List (Nat × Nat) → Nat → Nat → Plan → Option Plan
  | [], _, _, p => some p
  | (sseg, sused) :: rest, di, du, p =>
    match srcs[di]? with
    | none => none
    | some (dseg, _) =>
      if du + sused ≤ segSize then
        greedy srcs segSize rest di (du + sused)
          { moves := p.moves ++ [⟨sseg, 0, dseg, du, sused⟩]
            total := p.total + sused
            srcs := pushIfAbsent p.srcs sseg
            tgts := pushIfAbsent p.tgts dseg }
      else
        match srcs[di + 1]? with
        | none => some p
        | some (_, u) => greedy srcs segSize rest (di + 1) u p

/-- `plan_archive_merge(segments, threshold, segment_size)` with
`isSource used = (used as f64 / segment_size as f64 < threshold)`. -/
def planMerge (isSource : Nat → Bool) (segSize : Nat) (segs : List Seg) : Option Plan :=
  let sources := collectSources isSource segs 0
  if sources.length < 2 then some {}
  else
    let sorted := sortSources sources
    match sorted with
    | [] => some {}
    | first :: rest => greedy sorted segSize rest 0 first.2 {}

/-! ## executing a plan

The crate has no executor for `CompactionPlan` (`MoveItem::ekey` is "filled per-entry during
execution", which does not exist yet). `execPlan` is the obvious one: perform the moves with
`CompactionFileMover::move_data`, one after the other IN PLAN ORDER, on the segment files. The
harness runs exactly this loop with the real `move_data` on real files (`exec` request). -/

/-- one `move_data(files[src], src_offset, files[dst], dest_offset, length)`. -/
def execMove (m : Mover) (files : List Bytes) (mv : Move) : Option (List Bytes × Mover) :=
  match files[mv.src]?, files[mv.dst]? with
  | some s, some d =>
    match moveData m s mv.srcOff d mv.dstOff mv.len with
    | (d', m', true) => some (files.set mv.dst d', m')
    | (_, _, false) => none
  | _, _ => none

/-- all moves, in the order listed. `none` = a segment index outside the population or a failed
I/O call. -/
def execPlan (m : Mover) (files : List Bytes) : List Move → Option (List Bytes × Mover)
  | [] => some (files, m)
  | mv :: rest =>
    match execMove m files mv with
    | some (files', m') => execPlan m' files' rest
    | none => none

/-! ## `ArchiveManager::compact` (archive_file.rs): truncation to the write position -/

/-- one archive of the manager: the file, the size recorded at the last (re)map, the write
position. -/
structure Arch where
  file : Bytes
  mapped : Nat
  used : Nat

/-- `open_archive`: map the file, write position = its size. -/
def archOpen (f : Bytes) : Arch := ⟨f, f.length, f.length⟩

/-- `write_content` of one record `rec` at the write position; `grewALot new old` is the remap
test (`new_size != current_size` since /repo 6172e03; the theorems hold for every such test). -/
def archWrite (grewALot : Nat → Nat → Bool) (a : Arch) (rec : Bytes) : Arch :=
  let f' := writeAt a.file a.used rec
  { file := f'
    mapped := if grewALot f'.length a.mapped then f'.length else a.mapped
    used := a.used + rec.length }

/-- `compact()` on one archive: `should_compact_archive` then `compact_single_archive`.
Returns the archive, `archives_compacted`, `bytes_reclaimed`. -/
def archCompact (utilLow : Nat → Nat → Bool) (a : Arch) : Arch × Nat × Nat :=
  let should := decide (a.used ≠ 0) && (utilLow a.used a.mapped && decide (a.mapped > 1024 * 1024))
  if should then
    if a.used < a.mapped then
      ({ file := setLen a.file a.used, mapped := a.used, used := a.used }, 1, a.mapped - a.used)
    else (a, 1, 0)
  else (a, 0, 0)

end Cascette.Model.Compaction
