/-
Model/RetryClock — how a sleep of `RetryPolicy::execute` is OBSERVED by the check.

`tokio::time::sleep(d)` computes `Instant::now().checked_add(d)`; when that overflows the
platform's `Instant` the deadline becomes `Instant::far_future()` = now + 30 years. The timer
wheel works in whole milliseconds and rounds a deadline UP. Under the paused clock the virtual
time lands exactly on the tick, so the gap the harness measures between two closure calls is
`tick (sleepFor room d)`. Harness and driver both print `view` of a delay: whole milliseconds,
rounded up, of the delay capped at the 30-year clamp.
-/
namespace Cascette.Model.RetryClock

/-- `Sleep::far_future()`: 30 years, in ns (`86400 * 365 * 30` s) -/
def farFuture : Nat := 86400 * 365 * 30 * 1000000000

/-- `tokio::time::sleep(d)` when `Instant::now()` can still be advanced by `room` ns: the time the
timer is armed for -/
def sleepFor (room d : Nat) : Nat := if d ≤ room then d else farFuture

/-- the timer wheel: deadlines are rounded up to whole milliseconds (result in ns) -/
def tick (d : Nat) : Nat := (d + 999999) / 1000000 * 1000000

/-- what the harness measures for a sleep of `d` under the paused clock -/
def observed (room d : Nat) : Nat := tick (sleepFor room d)

/-- what both sides print for a delay: capped at the clamp, whole ms rounded up -/
def view (d : Nat) : Nat := (min d farFuture + 999999) / 1000000

end Cascette.Model.RetryClock
