/-
Model/LruPersist — `LruManager::shutdown` and `LruManager::find_latest_lru_file` on the two
model layers of C17 (crates/cascette-client-storage/src/lru/mod.rs):

    pub async fn shutdown(&mut self) -> crate::Result<()> {
        self.bump_generation();
        self.checkpoint_to_disk().await?;
        self.scan_directory();
        Ok(())
    }

`scan_directory` removes every `.lru` file whose generation is neither the current nor the
previous one (`Files.scan`, the same function `run_cycle` uses in `Model/LruPtr.runCycle` and
`Model/LruSeq.step`).  I/O errors are outside the model (cfg assumptions), so `shutdown` is `Ok`.
Kept in a file of its own: `Spec/Lru`, `Model/LruPtr` and `Model/LruSeq` are imported by other
properties' models.
-/
import Cascette.Spec.LruPersist
import Cascette.Model.LruPtr
import Cascette.Model.LruSeq
namespace Cascette.Model.LruPersist
open Cascette.Spec.Lru

/-! ### sequence layer -/
section
variable {κ : Type} [DecidableEq κ]

def seqScanDir (s : LruSeq.Seq κ) : LruSeq.Seq κ := { s with files := Files.scan s.files s.gen s.prev }

def seqShutdown (zero : κ) (s : LruSeq.Seq κ) : LruSeq.Seq κ :=
  seqScanDir (LruSeq.step zero (LruSeq.step zero s .bump).1 .checkpoint).1

def seqXStep (zero : κ) (s : LruSeq.Seq κ) : XOp κ → LruSeq.Seq κ × Out
  | .op o => LruSeq.step zero s o
  | .shutdown => (seqShutdown zero s, .ok)

def seqXRun (zero : κ) (s : LruSeq.Seq κ) : List (XOp κ) → LruSeq.Seq κ × List Out
  | [] => (s, [])
  | op :: ops =>
    let r := seqXStep zero s op
    let rest := seqXRun zero r.1 ops
    (rest.1, r.2 :: rest.2)

end

/-! ### pointer layer -/

def ptrScanDir (s : LruPtr.Ptr) : LruPtr.Ptr := { s with files := Files.scan s.files s.gen s.prev }

def ptrShutdown (md5 : Bytes → Bytes) (s : LruPtr.Ptr) : LruPtr.Ptr :=
  ptrScanDir (LruPtr.checkpoint md5 (LruPtr.bump s))

def ptrXStep (md5 : Bytes → Bytes) (s : LruPtr.Ptr) : XOp LruPtr.Key → Option (LruPtr.Ptr × Out)
  | .op o => LruPtr.step md5 s o
  | .shutdown => some (ptrShutdown md5 s, .ok)

def ptrXRun (md5 : Bytes → Bytes) (s : LruPtr.Ptr) : List (XOp LruPtr.Key) → Option (LruPtr.Ptr × List Out)
  | [] => some (s, [])
  | op :: ops =>
    match ptrXStep md5 s op with
    | none => none
    | some (s1, o) =>
      match ptrXRun md5 s1 ops with
      | none => none
      | some (s2, os) => some (s2, o :: os)

/-- `find_latest_lru_file(dir)`: the generation of the file a restart would load. -/
def ptrLatest (s : LruPtr.Ptr) : Option Nat := Files.latest s.files

end Cascette.Model.LruPersist
