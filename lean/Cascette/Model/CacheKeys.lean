/-
Model/CacheKeys — the string builders that feed file paths and URLs (C20), as written in
  crates/cascette-cache/src/key.rs            (typed keys' `as_cache_key`)
  crates/cascette-protocol/src/client/mod.rs  (`validate_endpoint`, cache key "api/ribbit/{endpoint}")
  crates/cascette-protocol/src/cdn/mod.rs     (`check_key`, `check_archive_key`, `build_url`, cache keys,
                                               `download_range` header arithmetic)
  crates/cascette-client-storage/src/storage_manager.rs (`open_installation` name check)
  crates/cascette-client-storage/src/{container/hardlink,lru/lru_file,index/mod}.rs (fixed-width names)
Hashes held as `[u8;16]` in Rust are carried as their `Display` text (32 lower-case hex digits) —
well-formedness of that text is a hypothesis of the theorems, produced by `hex::encode` in the run.
-/
import Cascette.Model.Path
namespace Cascette.Model.CacheKeys
open Cascette.Model.Path

/-- Rust `u8/u32/u64` `Display`. -/
def dec (n : Nat) : Str := Nat.toDigits 10 n

/-! ### typed cache keys (key.rs) -/

inductive Key where
  | ribbit (endpoint region : Str) (product : Option Str)
  | config (configType hash : Str)
  | blte (ekey : Str) (block : Option Nat)
  | content (ckey : Str)
  | archiveIndex (archiveName indexHash : Str)
  | manifest (manifestType ckey : Str) (version : Option Str)
  | rootFile (ckey : Str) (parsed : Bool) (version : Option Nat)
  | encodingFile (ekey : Str) (page : Option Nat) (parsed : Bool)
  | archiveRange (archiveId : Str) (start length : Nat)
  | blteBlock (ckey : Str) (block : Nat) (decompressed : Bool)
  deriving DecidableEq, Repr

def sRibbit : Str := ['r','i','b','b','i','t']
def sConfig : Str := ['c','o','n','f','i','g']
def sBlte : Str := ['b','l','t','e']
def sContent : Str := ['c','o','n','t','e','n','t']
def sIndex : Str := ['i','n','d','e','x']
def sManifest : Str := ['m','a','n','i','f','e','s','t']
def sRoot : Str := ['r','o','o','t']
def sEncoding : Str := ['e','n','c','o','d','i','n','g']
def sArchive : Str := ['a','r','c','h','i','v','e']
def sRaw : Str := ['r','a','w']
def sParsed : Str := ['p','a','r','s','e','d']
def sDecompressed : Str := ['d','e','c','o','m','p','r','e','s','s','e','d']

/-- an optional trailing field. -/
def optMap {α : Type} (f : α → Str) (o : Option α) : List Str :=
  match o with
  | none => []
  | some a => [f a]

/-- the ':'-separated fields of `as_cache_key`, in order (the first one is the type tag). -/
def fields : Key → List Str
  | .ribbit endpoint region product => [sRibbit, region] ++ optMap id product ++ [endpoint]
  | .config t h => [sConfig, t, h]
  | .blte ekey block => [sBlte, ekey] ++ optMap dec block
  | .content ckey => [sContent, ckey]
  | .archiveIndex n h => [sIndex, n, h]
  | .manifest t ckey version => [sManifest, t, ckey] ++ optMap id version
  | .rootFile ckey parsed version =>
      [sRoot, if parsed then sParsed else sRaw, ckey] ++ optMap (fun v => 'v' :: dec v) version
  | .encodingFile ekey page parsed =>
      [sEncoding, if parsed then sParsed else sRaw, ekey] ++ optMap (fun p => 'p' :: dec p) page
  | .archiveRange id start len => [sArchive, id, dec start ++ '+' :: dec len]
  | .blteBlock ckey block decompressed =>
      [sBlte, if decompressed then sDecompressed else sRaw, ckey, 'b' :: dec block]

/-- the caller-supplied text fields of a key. -/
def strFields : Key → List Str
  | .ribbit endpoint region product => [endpoint, region] ++ optMap id product
  | .config t h => [t, h]
  | .blte ekey _ => [ekey]
  | .content ckey => [ckey]
  | .archiveIndex n h => [n, h]
  | .manifest t ckey version => [t, ckey] ++ optMap id version
  | .rootFile ckey _ _ => [ckey]
  | .encodingFile ekey _ _ => [ekey]
  | .archiveRange id _ _ => [id]
  | .blteBlock ckey _ _ => [ckey]

/-- no caller-supplied field contains the field separator ':'. -/
def colonFree (k : Key) : Prop := ∀ f ∈ strFields k, ':' ∉ f

/-- `as_cache_key()`. -/
def cacheKey (k : Key) : Str := joinSep ':' (fields k)

/-! ### well-formed field values (the property's "hex hashes, product, region and endpoint names") -/

def isLowerHex (c : Char) : Bool := ('0' ≤ c && c ≤ '9') || ('a' ≤ c && c ≤ 'f')
def isAsciiAlnum (c : Char) : Bool :=
  ('0' ≤ c && c ≤ '9') || ('a' ≤ c && c ≤ 'z') || ('A' ≤ c && c ≤ 'Z')
def isNameChar (c : Char) : Bool := isAsciiAlnum c || c == '_' || c == '-'

/-- product, region, config/manifest type, archive id, hash text: non-empty, `[A-Za-z0-9_-]`. -/
def wfName (s : Str) : Bool := !s.isEmpty && s.all isNameChar
/-- the `Display` text of a 16-byte hash. -/
def wfHash (s : Str) : Bool := s.length == 32 && s.all isLowerHex
/-- archive names ("data.000") and version strings ("1.15.7"): names with dots. -/
def wfDotted (s : Str) : Bool := !s.isEmpty && s.all (fun c => isNameChar c || c == '.')
/-- endpoint names ("v1/products/wow/versions"): '/'-separated non-empty names. -/
def wfEndpoint (s : Str) : Bool := (segs s).all wfName

def wfOpt (p : Str → Bool) : Option Str → Bool
  | none => true
  | some s => p s

def wfKey : Key → Bool
  | .ribbit endpoint region product => wfEndpoint endpoint && wfName region && wfOpt wfName product
  | .config t h => wfName t && wfName h
  | .blte ekey _ => wfHash ekey
  | .content ckey => wfHash ckey
  | .archiveIndex n h => wfDotted n && wfName h
  | .manifest t ckey version => wfName t && wfHash ckey && wfOpt wfDotted version
  | .rootFile ckey _ _ => wfHash ckey
  | .encodingFile ekey _ _ => wfHash ekey
  | .archiveRange id _ _ => wfDotted id
  | .blteBlock ckey _ _ => wfHash ckey

/-! ### validate_endpoint (client/mod.rs), with the `fix:` that rejects absolute endpoints and
"." / ".." segments.  `alnum` stands for `char::is_alphanumeric` (Unicode tables are not
transcribed; the theorems hold for every such predicate). -/

inductive EndpointVerdict where
  | ok | empty | tooLong | badChar | notRelative
  deriving DecidableEq, Repr

def endpointCharOk (alnum : Char → Bool) (c : Char) : Bool :=
  alnum c || c == '/' || c == '_' || c == '-' || c == '.'

def validateEndpoint (alnum : Char → Bool) (e : Str) : EndpointVerdict :=
  if e = [] then .empty
  else if utf8Len e > 1000 then .tooLong
  else if !e.all (endpointCharOk alnum) then .badChar
  else if isAbs e || (segs e).any (fun s => s == dot || s == dotdot) then .notRelative
  else .ok

/-- the pinned code before the fix (kept for the counter-witness). -/
def validateEndpointPinned (alnum : Char → Bool) (e : Str) : EndpointVerdict :=
  if e = [] then .empty
  else if utf8Len e > 1000 then .tooLong
  else if !e.all (endpointCharOk alnum) then .badChar
  else .ok

def sApiRibbit : Str := ['a','p','i','/','r','i','b','b','i','t','/']

/-- `format!("api/ribbit/{endpoint}")`. -/
def ribbitCacheKey (e : Str) : Str := sApiRibbit ++ e

/-! ### CDN client (cdn/mod.rs) -/

inductive Outcome (α : Type) where
  | ok (v : α)
  | invalidKey
  | panic
  deriving DecidableEq, Repr

/-- `hex::encode`. -/
def hexEncode : List Nat → Str
  | [] => []
  | b :: r => hexDigit (b / 16 % 16) :: hexDigit (b % 16) :: hexEncode r

/-- `normalize_cdn_path`: `trim_end_matches('/')`. -/
def trimSlashes (s : Str) : Str := (s.reverse.dropWhile (· == '/')).reverse

inductive ContentType where | config | data | patch deriving DecidableEq, Repr
def ContentType.text : ContentType → Str
  | .config => sConfig
  | .data => ['d','a','t','a']
  | .patch => ['p','a','t','c','h']

def sCdn : Str := ['c','d','n']
def sData : Str := ['d','a','t','a']
def sIndexExt : Str := ['.','i','n','d','e','x']
def sHttps : Str := ['h','t','t','p','s']

/-- `&s[..2]`, `&s[2..4]` on a `str`: byte offsets 2 and 4 must exist and be character
boundaries, otherwise the slice expression panics. -/
def splitBytes : Nat → Str → Option (Str × Str)
  | 0, s => some ([], s)
  | _ + 1, [] => none
  | n + 1, c :: r =>
    if c.utf8Size ≤ n + 1 then
      (splitBytes (n + 1 - c.utf8Size) r).map fun (a, b) => (c :: a, b)
    else none

def slice24 (s : Str) : Option (Str × Str) :=
  match splitBytes 2 s with
  | none => none
  | some (a, rest) =>
    match splitBytes 2 rest with
    | none => none
    | some (b, _) => some (a, b)

/-- the path part shared by URL and cache key: `{base}/{kind}/{h[..2]}/{h[2..4]}/{h}{suffix}`. -/
def cdnTail (basePath kind h suffix : Str) : Option Str :=
  (slice24 h).map fun (a, b) => joinSep '/' [trimSlashes basePath, kind, a, b, h ++ suffix]

/-- cache key of `CdnClient::download` for a binary key (after `check_key`). -/
def downloadCacheKey (basePath : Str) (ct : ContentType) (key : List Nat) : Outcome Str :=
  if key.length < 2 then .invalidKey
  else match cdnTail basePath ct.text (hexEncode key) [] with
    | some t => .ok (sCdn ++ '/' :: t)
    | none => .panic

/-- the pinned code before the fix: no length check in front of the slicing. -/
def downloadCacheKeyPinned (basePath : Str) (ct : ContentType) (key : List Nat) : Outcome Str :=
  match cdnTail basePath ct.text (hexEncode key) [] with
  | some t => .ok (sCdn ++ '/' :: t)
  | none => .panic

/-- `build_url` behind `check_key`: `{scheme}://{host}/{tail}`. -/
def buildUrl (scheme : Option Str) (host basePath : Str) (ct : ContentType) (key : List Nat) :
    Outcome Str :=
  if key.length < 2 then .invalidKey
  else match cdnTail basePath ct.text (hexEncode key) [] with
    | some t => .ok (scheme.getD sHttps ++ [':', '/', '/'] ++ host ++ '/' :: t)
    | none => .panic

def isAsciiHexDigit (c : Char) : Bool :=
  ('0' ≤ c && c ≤ '9') || ('a' ≤ c && c ≤ 'f') || ('A' ≤ c && c ≤ 'F')

/-- `check_archive_key`: at least four bytes, ASCII hex digits only. -/
def archiveKeyOk (k : Str) : Bool := decide (4 ≤ utf8Len k) && k.all isAsciiHexDigit

/-- cache key of `download_archive_index`. -/
def archiveIndexCacheKey (basePath archiveKey : Str) : Outcome Str :=
  if !archiveKeyOk archiveKey then .invalidKey
  else match cdnTail basePath sData archiveKey sIndexExt with
    | some t => .ok (sCdn ++ '/' :: t)
    | none => .panic

def archiveIndexCacheKeyPinned (basePath archiveKey : Str) : Outcome Str :=
  match cdnTail basePath sData archiveKey sIndexExt with
  | some t => .ok (sCdn ++ '/' :: t)
  | none => .panic

def archiveIndexUrl (scheme : Option Str) (host basePath archiveKey : Str) : Outcome Str :=
  if !archiveKeyOk archiveKey then .invalidKey
  else match cdnTail basePath sData archiveKey sIndexExt with
    | some t => .ok (scheme.getD sHttps ++ [':', '/', '/'] ++ host ++ '/' :: t)
    | none => .panic

/-- `download_range`: `offset + length - 1` in `u64` (release build: wrapping). -/
def rangeEnd (offset length : Nat) : Nat := ((offset + length) % 2 ^ 64 + 2 ^ 64 - 1) % 2 ^ 64

/-! ### Storage::open_installation (storage_manager.rs, with the `fix:` name check) -/

/-- components of a relative name as `Path::new(name).components()` yields them: a leading "."
is kept as `CurDir`, later ones vanish. `none` stands for a component that is not `Normal`. -/
def installNameOk (name : Str) : Bool :=
  !name.isEmpty && !isAbs name &&
    (match segs name with
     | first :: _ => first != dot
     | [] => true) &&
    (comps name).all (· != dotdot)

/-- directory the installation is opened in, or `none` when the name is rejected. -/
def installDir (base : APath) (name : Str) : Option APath :=
  if installNameOk name then some (join base name) else none

/-- the pinned code before the fix. -/
def installDirPinned (base : APath) (name : Str) : APath := join base name

/-! ### fixed-width binary names (hardlink.rs, lru_file.rs, index/mod.rs) -/

/-- `format_content_key_path(base, ekey9)`: XX/YY/ZZZZZZZZZZZZZZ. -/
def contentKeyPath (base : APath) (ekey : List Nat) : APath :=
  let h := hexEncode ekey
  base ++ [h.take 2, (h.drop 2).take 2, h.drop 4]

/-- big-endian bytes of a `u64`. -/
def be64 (g : Nat) : List Nat := (List.range 8).reverse.map fun i => g / 256 ^ i % 256

/-- `lru_file_path(dir, generation)`. -/
def lruFilePath (dir : APath) (generation : Nat) : APath :=
  dir ++ [hexEncode (be64 generation) ++ ['.', 'l', 'r', 'u']]

/-- `get_bucket_index`: XOR of the first nine key bytes, folded to a nibble. -/
def bucketIndex (key : List Nat) : Nat :=
  if key.length < 9 then 0 else
  let h := (key.take 9).foldl Nat.xor 0
  Nat.xor (h % 16) (h / 16)

/-- `generate_index_filename(bucket, version)`: `{bucket:02x}{version:08x}.idx`. -/
def indexFileName (bucket version : Nat) : Str :=
  hexEncode [bucket % 256] ++
    hexEncode ((List.range 4).reverse.map fun i => version / 256 ^ i % 256) ++ ['.', 'i', 'd', 'x']

end Cascette.Model.CacheKeys
