/-
Model/ManifestMut — the builder-as-mutator entry points of the install and download manifest
builders AS WRITTEN (property C19): loading a builder from an existing manifest value
(`from_manifest`), and the install builder's `build` with the `source_header` field that
`from_manifest` fills.

* `DownloadManifestBuilder::from_manifest` (download/builder.rs): version, entries, tags,
  `has_checksum`, `flag_size`, `base_priority` are taken from the manifest (the header accessors
  give 0 for a field the version does not have — the parsed `DManifest` already holds those
  zeros), `tag_name_to_index` is rebuilt by inserting every `(name, index)` in order (a later tag
  of the same name replaces the earlier index) = `Model.Manifest.rebuildNames tags 0 []`.
* `InstallManifestBuilder { tags, entries, tag_name_to_index, source_header }`
  (install/builder.rs): `new` (no source header), `from_manifest` (tags, entries, the collected
  name map, `Some(header)`), the editing calls are those of `Model.Manifest.IBuilder` (none of
  them touches `source_header`), and `build`: `InstallHeader::new(tags, entries)` (V1, counts
  through `u16/u32::try_from`), overridden by the source header when its version is `>= 2`
  (version, `content_key_size`, `entry_count_v2`, `v2_unknown` kept AS THEY WERE — also when
  entries were added or removed — and `entry.file_type.get_or_insert(0)` on every entry), then
  `InstallManifest::validate` (header version 1..2, a V2 header has its extension fields, mask
  sizes).
-/
import Cascette.Model.Manifest
namespace Cascette.Model.ManifestMut
open Cascette Cascette.Model.Manifest

/-! ### download -/

/-- `DownloadManifestBuilder::from_manifest` -/
def dFromManifest (m : DManifest) : DBuilder :=
  { version := m.version, entries := m.entries, tags := m.tags, hasCks := m.hasCks,
    flagSize := m.flagSize, basePrio := m.basePrio, names := rebuildNames m.tags 0 [] }

/-- `entries.iter().map(|e| e.effective_priority(&header))` — the effective priority of every
entry, in order -/
def effList (m : DManifest) : List Int := m.entries.map (effPrio m)

/-! ### install -/

/-- the part of `source_header` that `build` reads: (version, V2 extension fields) -/
abbrev ISrc := Option (Nat × Option (Nat × Nat × Nat))

/-- `InstallManifestBuilder` with its `source_header` -/
structure IMut where
  b : IBuilder
  src : ISrc
deriving Repr

/-- `InstallManifestBuilder::new` -/
def IMut.new : IMut := ⟨IBuilder.empty, none⟩

/-- `InstallManifestBuilder::from_manifest` -/
def IMut.fromManifest (m : IManifest) : IMut :=
  ⟨⟨m.tags, m.entries, rebuildNames m.tags 0 []⟩, some (m.version, m.v2)⟩

/-- `entry.file_type.get_or_insert(0)` -/
def fillType (e : IEntry) : IEntry :=
  match e.ftype with
  | some _ => e
  | none => { e with ftype := some 0 }

/-- `InstallManifestBuilder::build` -/
def IMut.build (s : IMut) : Except Err IManifest :=
  if s.b.tags.length ≥ 65536 then .error .tooMany else
  if s.b.entries.length ≥ 4294967296 then .error .tooMany else
  let hdr : Nat × Option (Nat × Nat × Nat) × List IEntry :=
    match s.src with
    | some (v, v2) => if v ≥ 2 then (v, v2, s.b.entries.map fillType) else (1, none, s.b.entries)
    | none => (1, none, s.b.entries)
  if hdr.1 = 0 ∨ hdr.1 > 2 then .error .version else
  if hdr.1 ≥ 2 ∧ hdr.2.1.isNone then .error .version else
  if s.b.tags.all (fun t => t.mask.length == maskSize s.b.entries.length) then
    .ok ⟨hdr.1, hdr.2.1, s.b.tags, hdr.2.2⟩
  else .error .maskSize

end Cascette.Model.ManifestMut
