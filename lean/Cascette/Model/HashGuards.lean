/-
Model/HashGuards — the two in-tree users of seeded `hashlittle` named in C09's anchors, as written:
* `LocalHeader::compute_checksum_a` (crates/cascette-client-storage/src/storage/local_header.rs):
  `hashlittle(&header_bytes[..0x16], 0x3D6BE971)`
* `UpdateEntry::compute_hash_guard` (crates/cascette-client-storage/src/index/update.rs):
  `hashlittle(&entry_bytes[4..23], 0) | 0x8000_0000`
The acceptors built on them (`validate_checksums`, `validate_hash_guard`) are C07's
`Model.Integrity.{Lhdr,Upd}` over an arbitrary hash; here the hash is C09's `Model.Jenkins.hashlittle`.
-/
import Cascette.Model.Jenkins
import Cascette.Model.Integrity
namespace Cascette.Model.HashGuards
open Cascette

/-- `CHECKSUM_A_SEED`. -/
def checksumASeed : W32 := 0x3D6BE971

/-- `LocalHeader::compute_checksum_a(&[u8; 30])`. -/
def checksumA (h : Bytes) : W32 := Model.Jenkins.hashlittle (h.take 0x16) checksumASeed

/-- `UpdateEntry::compute_hash_guard(&[u8; 24])`. -/
def hashGuard (e : Bytes) : W32 :=
  Model.Jenkins.hashlittle (Model.Integrity.slice e 4 19) 0 ||| 0x80000000

/-- `LocalHeader::validate_checksums(base)` on the 30 raw bytes: C07's acceptor with the hash
parameter instantiated by `hashlittle(·, 0x3D6BE971)`. -/
def lhdrValidate (base : Nat) (h : Bytes) : Bool :=
  Model.Integrity.Lhdr.validate (fun r => (Model.Jenkins.hashlittle r checksumASeed).toNat) base h

/-- `UpdateEntry::from_bytes(e).validate_hash_guard()`: C07's acceptor with `hashlittle(·, 0)`. -/
def updValidate (e : Bytes) : Bool :=
  Model.Integrity.Upd.validate (fun r => (Model.Jenkins.hashlittle r 0).toNat) e

end Cascette.Model.HashGuards
