/-
Model/VersionWire — what a version-service transport DELIVERS and how the two clients turn it
into the outcome `Tr → Except Err Doc` that Model/Fallback.query consumes.

* `TactClient::query` (src/client/tact.rs): `send()` / `bytes()` fail with a `reqwest::Error`
  (seen through the five predicates `ProtocolError::should_retry` asks, `HttpFlags`), or a
  response arrives: status + body; for 200 the body goes through `BpsvDocument::parse`
  (`from_utf8`, then the BPSV reader = Model/Bpsv.parse, imported from C15).
* `RibbitClient::query` (src/client/ribbit.rs): connect / read fail (`Network`, `Timeout`), or the
  read loop returns bytes; `is_v1_mime_response` selects `parse_v1_mime_to_bpsv` or the BPSV
  reader (= Model/RibbitFmt.clientTcp, imported from C15); every parser error is
  `ProtocolError::Parse`.

So "malformed" is no longer a flag of the case: it is the real parser model rejecting the bytes.
`H` = lower-case hex SHA-256 of a text (Spec/Sha256Fips in the driver).
-/
import Cascette.Model.Fallback
import Cascette.Model.RibbitFmt
namespace Cascette.Model.VersionWire
open Cascette.Model.Fallback
open Cascette.Model.Bpsv (Str Doc)

/-- the predicates of a `reqwest::Error` the code asks (`should_retry`). -/
structure HttpFlags where
  timeout : Bool
  connect : Bool
  request : Bool
  body : Bool
  decode : Bool
  deriving DecidableEq, Repr

/-- `Self::Http(e) => e.is_timeout() || e.is_connect() || e.is_request() || e.is_body() || e.is_decode()`. -/
def HttpFlags.shouldRetry (f : HttpFlags) : Bool :=
  f.timeout || f.connect || f.request || f.body || f.decode

/-- the class Model/Fallback.Err keeps of a `reqwest::Error` (same order of tests as the
harness's canonical error name). -/
def HttpFlags.toErr (f : HttpFlags) : Err :=
  if f.timeout then .httpTimeout
  else if f.connect then .httpConnect
  else if f.request || f.body || f.decode then .httpDropped
  else .httpOther

/-- what an HTTP endpoint delivers to `TactClient::query`. `body = none`: not valid UTF-8. -/
inductive HttpWire where
  | fail (f : HttpFlags)
  | resp (status : Nat) (body : Option Str)

/-- what the Ribbit endpoint delivers to `RibbitClient::query`: a failure (`stalled` = a timeout
fired, otherwise an I/O error) or the bytes the read loop returned (valid UTF-8). -/
inductive TcpWire where
  | fail (stalled : Bool)
  | bytes (raw : Str)

/-- `<BpsvDocument as CascFormat>::parse(&body)`. -/
def parseBody : Option Str → Option Doc
  | none => none
  | some t =>
    match Bpsv.parse t with
    | .ok d => some d
    | .error _ => none

/-- `TactClient::query` on what the endpoint delivered. -/
def httpAnswer : HttpWire → Except Err Doc
  | .fail f => .error f.toErr
  | .resp s b => tactClassify s (parseBody b)

/-- `RibbitClient::query` on what the endpoint delivered. -/
def tcpAnswer (H : Str → Str) : TcpWire → Except Err Doc
  | .fail stalled => .error (if stalled then .timeout else .network)
  | .bytes raw =>
    match Ribbit.clientTcp H raw with
    | .ok d => .ok d
    | .error _ => .error .parse

structure Wires where
  https : HttpWire
  http : HttpWire
  tcp : TcpWire

def Wires.outcome (H : Str → Str) (w : Wires) : Tr → Except Err Doc
  | .https => httpAnswer w.https
  | .http => httpAnswer w.http
  | .tcp => tcpAnswer H w.tcp

/-- `RibbitTactClient::query` over what the three endpoints deliver. -/
def queryW {κ : Type} [DecidableEq κ] (H : Str → Str) (cfg : Config) (st : CState κ Doc) (c now : Nat)
    (ep : Ep κ) (w : Wires) : CState κ Doc × List Tr × Except Err Doc :=
  query cfg st c now ep (w.outcome H)

/-- the endpoint delivered a complete answer and the parser rejects it. -/
def MalformedHttp : HttpWire → Prop
  | .resp s b => s = 200 ∧ parseBody b = none
  | .fail _ => False

def MalformedTcp (H : Str → Str) : TcpWire → Prop
  | .bytes raw => ∃ e, Ribbit.clientTcp H raw = .error e
  | .fail _ => False

def Malformed (H : Str → Str) (w : Wires) : Tr → Prop
  | .https => MalformedHttp w.https
  | .http => MalformedHttp w.http
  | .tcp => MalformedTcp H w.tcp

/-- the endpoint delivered an answer the parser reads as the document `d`. -/
def WellFormed (H : Str → Str) (w : Wires) (t : Tr) (d : Doc) : Prop :=
  match t with
  | .https => ∃ text, w.https = .resp 200 (some text) ∧ Bpsv.parse text = .ok d
  | .http => ∃ text, w.http = .resp 200 (some text) ∧ Bpsv.parse text = .ok d
  | .tcp => ∃ raw, w.tcp = .bytes raw ∧ Ribbit.clientTcp H raw = .ok d

end Cascette.Model.VersionWire
