/-
Model/RibbitFmt — the Ribbit server as written (`crates/cascette-ribbit/src/{database,config,
responses/bpsv,tcp/handlers,tcp/v1,tcp/v2,tcp/mod,http/handlers}.rs`) and the client-side
framing (`crates/cascette-protocol/src/{client/ribbit,client/tact,mime_parser}.rs`).

* `validate`   = `BuildRecord::validate` (returns the name of the first offending field);
* `load`       = `BuildDatabase::from_file` after JSON decoding (empty → error, first invalid
                 record in file order → error);
* `latest`     = `latest_build`: the product's records stably sorted by `build_time` descending
                 (`sort_by(|a,b| b.build_time.cmp(&a.build_time))`), first element;
* `versionsText`/`cdnsText`/`summaryText` = `BpsvResponse::{versions,cdns,bgdl,summary}` joined
                 with '\n';
* `wrapInMime H` = `wrap_in_mime` with `H` = lower-case hex SHA-256 of the UTF-8 bytes;
* `handleCommand` = `tcp::handlers::handle_command` (`none` = `Err`, the connection is closed
                 without a reply);
* `extractChecksum`, `clientV1`, `clientV2`, `isV1Mime` = the client's reading path; the MIME
                 body extraction done by the `mail_parser` crate is the function `mimeBody`
                 (cut at the fixed prelude the server writes and at the first boundary marker) and
                 is compared with the crate by the run only.
-/
import Cascette.Model.Bpsv
namespace Cascette.Model.Ribbit
open Cascette.Model.Bpsv

structure Record where
  id : Nat
  product : Str
  version : Str
  build : Str
  buildConfig : Str
  cdnConfig : Str
  keyring : Option Str
  productConfig : Option Str
  buildTime : Str
  encodingEkey : Str
  rootEkey : Str
  installEkey : Str
  downloadEkey : Str
  cdnPath : Option Str
  deriving DecidableEq, Repr

/-- `validate_hash`: 32 hex characters. (Rust compares the *byte* length first; a string that
passes the digit test is ASCII, so the verdict is the same.) -/
def validHash (v : Str) : Bool := v.length == 32 && v.all isHexDigit

/-- `if let Some(ref config) = self.product_config { validate_hash(..)? }`. -/
def optValidHash : Option Str → Bool
  | some c => validHash c
  | none => true

/-- `BuildRecord::validate`: `none` = Ok, `some f` = `InvalidField{field: f}`. -/
def validate (r : Record) : Option String :=
  if r.product = [] then some "product"
  else if r.version = [] then some "version"
  else if r.build = [] then some "build"
  else if !validHash r.buildConfig then some "build_config"
  else if !validHash r.cdnConfig then some "cdn_config"
  else if !optValidHash r.productConfig then some "product_config"
  else if !validHash r.encodingEkey then some "encoding_ekey"
  else if !validHash r.rootEkey then some "root_ekey"
  else if !validHash r.installEkey then some "install_ekey"
  else if !validHash r.downloadEkey then some "download_ekey"
  else if !(r.buildTime.contains 'T' && r.buildTime.contains ':') then some "build_time"
  else none

def firstInvalid : List Record → Option String
  | [] => none
  | r :: rs => match validate r with
    | some f => some f
    | none => firstInvalid rs

/-- `BuildDatabase::from_file` on a decoded record list. -/
def load (recs : List Record) : Except String (List Record) :=
  if recs = [] then .error "empty" else
  match firstInvalid recs with
  | some f => .error f
  | none => .ok recs

/-- `String::cmp` = lexicographic order of Unicode scalar values (= of the UTF-8 bytes). -/
def ltStr : Str → Str → Bool
  | _, [] => false
  | [], _ :: _ => true
  | a :: as, b :: bs => a.toNat < b.toNat || (a.toNat == b.toNat && ltStr as bs)

/-- insert keeping `build_time` descending and earlier records first among equals. -/
def insertDesc (x : Record) : List Record → List Record
  | [] => [x]
  | y :: ys => if ltStr y.buildTime x.buildTime then x :: y :: ys else y :: insertDesc x ys

/-- the stable `sort_by` of `from_file`. -/
def sortDesc (l : List Record) : List Record := l.foldl (fun acc x => insertDesc x acc) []

def ofProduct (db : List Record) (p : Str) : List Record := db.filter (fun r => r.product = p)

/-- `BuildDatabase::latest_build`. -/
def latest (db : List Record) (p : Str) : Option Record := (sortDesc (ofProduct db p)).head?

/-- distinct product names in order of first appearance (the real order is the hash map's). -/
def products : List Record → List Str
  | [] => []
  | r :: rs => r.product :: (products rs).filter (· ≠ r.product)

structure Cdn where
  hosts : Str
  path : Str
  servers : Str
  configPath : Str
  deriving DecidableEq, Repr

def dropWs : Str → Str
  | [] => []
  | c :: cs => if isWs c then dropWs cs else c :: cs

def takeNonWs : Str → Str
  | [] => []
  | c :: cs => if isWs c then [] else c :: takeNonWs cs

/-- `ServerConfig::default_cdn_config`. -/
def defaultCdn (hosts path : Str) : Cdn :=
  let tok := takeNonWs (dropWs hosts)
  let first := if tok = [] then "cdn.arctium.tools".toList else tok
  { hosts := hosts, path := path,
    servers := "https://".toList ++ first ++ "/?fallbackProtocol=http".toList,
    configPath := path }

/-- `CdnConfig::resolve_for_build`. -/
def resolve (r : Record) (d : Cdn) : Cdn :=
  { hosts := d.hosts, path := r.cdnPath.getD d.path, servers := d.servers,
    configPath := r.cdnPath.getD d.configPath }

def digitChar (n : Nat) : Char := Char.ofNat (48 + n % 10)

/-- `format!("{n}")` for an unsigned integer. -/
def natDigits (n : Nat) : Str :=
  if _h : n < 10 then [digitChar n] else natDigits (n / 10) ++ [digitChar n]
termination_by n
decreasing_by omega

def bar : Str := ['|']

def versionsHeader : Str :=
  "Region!STRING:0|BuildConfig!HEX:16|CDNConfig!HEX:16|KeyRing!HEX:16|BuildId!DEC:4|VersionsName!STRING:0|ProductConfig!HEX:16".toList

def cdnsHeader : Str :=
  "Name!STRING:0|Path!STRING:0|Hosts!STRING:0|Servers!STRING:0|ConfigPath!STRING:0".toList

def summaryHeader : Str := "Product!STRING:0|Seqn!DEC:4".toList

def versionsRegions : List Str :=
  [['u','s'], ['e','u'], ['c','n'], ['k','r'], ['t','w'], ['s','g'], ['x','x']]

def cdnsRegions : List Str := [['u','s'], ['e','u'], ['k','r'], ['t','w'], ['c','n']]

def seqnLine (seqn : Nat) : Str := ['#','#',' ','s','e','q','n',' ','=',' '] ++ natDigits seqn

def joinWith (sep : Str) : List Str → Str
  | [] => []
  | [x] => x
  | x :: y :: r => x ++ sep ++ joinWith sep (y :: r)

def versionsFields (r : Record) (region : Str) : List Str :=
  [region, r.buildConfig, r.cdnConfig, r.keyring.getD [], r.build, r.version, r.productConfig.getD []]

def cdnsFields (c : Cdn) (region : Str) : List Str := [region, c.path, c.hosts, c.servers, c.configPath]

def versionsLines (r : Record) (seqn : Nat) : List Str :=
  versionsHeader :: (versionsRegions.map fun reg => joinWith bar (versionsFields r reg)) ++ [seqnLine seqn]

def cdnsLines (c : Cdn) (seqn : Nat) : List Str :=
  cdnsHeader :: (cdnsRegions.map fun reg => joinWith bar (cdnsFields c reg)) ++ [seqnLine seqn]

def summaryLines (prods : List Str) (seqn : Nat) : List Str :=
  summaryHeader :: (prods.map fun p => p ++ bar ++ natDigits seqn) ++ [seqnLine seqn]

def nl : Str := ['\n']

/-- `BpsvResponse::versions(..).to_string()` (also `bgdl`). -/
def versionsText (r : Record) (seqn : Nat) : Str := joinWith nl (versionsLines r seqn)
def cdnsText (c : Cdn) (seqn : Nat) : Str := joinWith nl (cdnsLines c seqn)
def summaryText (prods : List Str) (seqn : Nat) : Str := joinWith nl (summaryLines prods seqn)

def mimePrelude : Str :=
  "MIME-Version: 1.0\r\nContent-Type: multipart/alternative; boundary=\"RibbitBoundary\"\r\n\r\n--RibbitBoundary\r\nContent-Type: text/plain\r\nContent-Disposition: data\r\n\r\n".toList

def mimeClose : Str := "\r\n--RibbitBoundary--\r\n".toList

def checksumPrefix : Str := ['C','h','e','c','k','s','u','m',':',' ']

/-- `wrap_in_mime`; `H` = lower-case hex SHA-256 of the text's UTF-8 bytes. -/
def wrapInMime (H : Str → Str) (body : Str) : Str :=
  let before := mimePrelude ++ body ++ mimeClose
  before ++ checksumPrefix ++ H before ++ ['\r', '\n']

inductive Endpoint | versions | cdns | bgdl
  deriving DecidableEq, Repr

def parseEndpoint (s : Str) : Option Endpoint :=
  if s = "versions".toList then some .versions
  else if s = "cdns".toList then some .cdns
  else if s = "bgdl".toList then some .bgdl
  else none

structure Server where
  db : List Record
  cdn : Cdn
  /-- iteration order of the product hash map (observed, any permutation of `products db`) -/
  order : List Str

def respondBpsv (s : Server) (seqn : Nat) (r : Record) : Endpoint → Str
  | .versions => versionsText r seqn
  | .bgdl => versionsText r seqn
  | .cdns => cdnsText (resolve r s.cdn) seqn

/-- the part of `handle_v1_command`/`handle_v2_command` after the prefix test:
`{ver}/products/{product}/{endpoint}`. -/
def routeProduct (s : Server) (seqn : Nat) (ver : Str) (cmd : Str) : Option Str :=
  match splitOn '/' cmd with
  | [a, b, product, ep] =>
    if a ≠ ver ∨ b ≠ "products".toList then none else
    match latest s.db product with
    | none => none
    | some r =>
      match parseEndpoint ep with
      | none => none
      | some e => some (respondBpsv s seqn r e)
  | _ => none

/-- `handle_command` on the already trimmed command; `none` = `Err(InvalidCommand)`. -/
def handleCommand (H : Str → Str) (s : Server) (seqn : Nat) (cmd : Str) : Option Str :=
  if startsWith ['v','1','/'] cmd then
    if cmd = "v1/summary".toList then some (wrapInMime H (summaryText s.order seqn))
    else (routeProduct s seqn ['v','1'] cmd).map (wrapInMime H)
  else if startsWith ['v','2','/'] cmd then routeProduct s seqn ['v','2'] cmd
  else none

/-- what `read_line` hands to the handler: the bytes up to and including the first LF. -/
def firstLine : List Nat → List Nat
  | [] => []
  | b :: bs => if b = 10 then [b] else b :: firstLine bs

/-- `handle_connection` given the decoded first line (`none` = not UTF-8 → `Err`, closed):
`none` = closed without reply, `some reply`. -/
def handleConnection (H : Str → Str) (s : Server) (seqn : Nat) (line : Option Str) : Option Str :=
  match line with
  | none => none
  | some [] => none
  | some l => handleCommand H s seqn (trim l)

/-- the first line of what the client writes (`{endpoint}\r\n`), as `read_line` returns it. -/
def requestLine : Str → Str
  | [] => ['\r', '\n']
  | c :: cs => if c = '\n' then [c] else c :: requestLine cs

/-- the reply bytes a TCP client receives for `endpoint` (empty = closed without reply). -/
def tcpExchange (H : Str → Str) (s : Server) (seqn : Nat) (endpoint : Str) : Str :=
  (handleConnection H s seqn (some (requestLine endpoint))).getD []

/-- axum routes `/{product}/{versions|cdns|bgdl}` (no percent-decoding modelled): `none` = 404. -/
def handleHttp (s : Server) (seqn : Nat) (path : Str) : Option Str :=
  match splitOn '/' path with
  | [[], product, ep] =>
    if product = [] then none else
    match parseEndpoint ep with
    | none => none
    | some e =>
      match latest s.db product with
      | none => none
      | some r => some (respondBpsv s seqn r e)
  | _ => none

/-! ### client side -/

/-- position of the last occurrence of `pat` (`windows(..).rposition`). -/
def rfind (pat : Str) : Str → Option Nat
  | [] => if pat = [] then some 0 else none
  | c :: cs =>
    match rfind pat cs with
    | some p => some (p + 1)
    | none => if startsWith pat (c :: cs) then some 0 else none

def takeLine : Str → Str
  | [] => []
  | c :: cs => if c = '\n' then [] else c :: takeLine cs

def stripCr (s : Str) : Str :=
  match s.reverse with
  | '\r' :: r => r.reverse
  | _ => s

/-- `extract_checksum`: message without the epilogue and the checksum, when the last
`Checksum: ` line carries 64 hex digits. -/
def extractChecksum (raw : Str) : Str × Option Str :=
  match rfind checksumPrefix raw with
  | none => (raw, none)
  | some p =>
    let hex := stripCr (takeLine (raw.drop (p + 10)))
    if utf8Len hex = 64 ∧ hex.all isHexDigit then (raw.take p, some hex) else (raw, none)

def lowerAscii (c : Char) : Char :=
  if 65 ≤ c.toNat ∧ c.toNat ≤ 90 then Char.ofNat (c.toNat + 32) else c

def containsSub (pat : Str) : Str → Bool
  | [] => pat = []
  | c :: cs => startsWith pat (c :: cs) || containsSub pat cs

/-- the whole characters inside the first 512 *bytes* of the text (the Rust code slices the raw
bytes and decodes lossily; a cut character becomes U+FFFD, which no pattern below contains). -/
def take512 : Nat → Str → Str
  | _, [] => []
  | used, c :: cs => if used + c.utf8Size > 512 then [] else c :: take512 (used + c.utf8Size) cs

/-- `is_v1_mime_response`. -/
def isV1Mime (raw : Str) : Bool :=
  let l := (take512 0 raw).map lowerAscii
  containsSub "content-type:".toList l &&
    (containsSub "multipart/alternative".toList l || containsSub "multipart/mixed".toList l)

def dropPrefix : Str → Str → Option Str
  | [], s => some s
  | _ :: _, [] => none
  | p :: ps, c :: cs => if p = c then dropPrefix ps cs else none

def boundaryMark : Str := "--RibbitBoundary".toList

/-- text up to the first occurrence of the boundary marker — `mail_parser` 0.11 looks for
`--boundary` anywhere in the part, not only at a line start (observed; see finding
`dirty-boundary`). -/
def untilBoundary : Str → Str
  | [] => []
  | c :: cs => if startsWith boundaryMark (c :: cs) then [] else c :: untilBoundary cs

def stripLf (s : Str) : Str :=
  match s.reverse with
  | '\n' :: r => r.reverse
  | _ => s

/-- stand-in for `mail_parser`: the single text part the server writes (fixed prelude, cut at the
boundary marker, one line end before the marker removed). -/
def mimeBody (msg : Str) : Option Str :=
  (dropPrefix mimePrelude msg).map fun rest => stripCr (stripLf (untilBoundary rest))

inductive ClientErr
  | bpsv (e : Bpsv.Err) | checksum | mime | http404
  deriving DecidableEq, Repr

def liftParse (t : Str) : Except ClientErr Doc :=
  match parse t with
  | .ok d => .ok d
  | .error e => .error (.bpsv e)

/-- MIME layer + BPSV reader on a message whose checksum epilogue has been removed. -/
def readMime (msg : Str) : Except ClientErr Doc :=
  match mimeBody msg with
  | none => .error .mime
  | some b => liftParse b

/-- `parse_v1_mime_to_bpsv`. -/
def clientV1 (H : Str → Str) (raw : Str) : Except ClientErr Doc :=
  match extractChecksum raw with
  | (msg, some c) => if H msg ≠ c then .error .checksum else readMime msg
  | (msg, none) => readMime msg

/-- `RibbitClient::query` on the bytes received (valid UTF-8; an empty reply = closed). -/
def clientTcp (H : Str → Str) (raw : Str) : Except ClientErr Doc :=
  if isV1Mime raw then clientV1 H raw else liftParse raw

/-- `TactClient::query` on a 200 body / a 404. -/
def clientHttp (resp : Option Str) : Except ClientErr Doc :=
  match resp with
  | none => .error .http404
  | some b => liftParse b

/-! ### end to end: the request a client sends, the server's reply, what the client returns -/

inductive Transport | v1 | v2 | http
  deriving DecidableEq, Repr

def Endpoint.name : Endpoint → Str
  | .versions => "versions".toList
  | .cdns => "cdns".toList
  | .bgdl => "bgdl".toList

/-- a product request of the property: transport, product, endpoint. -/
structure Req where
  t : Transport
  product : Str
  ep : Endpoint
  deriving DecidableEq, Repr

def Transport.ver : Transport → Str
  | .v2 => ['v', '2']
  | _ => ['v', '1']

/-- the endpoint string `RibbitClient::query` / `TactClient::query` is called with:
`{v1|v2}/products/{product}/{endpoint}` (the HTTP client is given the `v1/…` form). -/
def Req.endpoint (q : Req) : Str :=
  q.t.ver ++ "/products/".toList ++ q.product ++ '/' :: q.ep.name

/-- `TactClient::query`: `v1/products/{x}` → `/{x}`, anything else gets a leading '/' unless it
has one; the result is appended to the base URL (URL parsing by `reqwest` not modelled). -/
def tactPath (endpoint : Str) : Str :=
  let t := if startsWith "v1/products/".toList endpoint then endpoint.drop 11 else endpoint
  if startsWith ['/'] t then t else '/' :: t

/-- what comes back: the bytes of a TCP connection (empty = closed without a reply) or an HTTP
status 200 with a body / 404. -/
inductive Reply
  | tcp (bytes : Str)
  | http (resp : Option Str)
  deriving DecidableEq, Repr

/-- the server's side of one exchange, given the endpoint string the client was called with. -/
def respondTo (H : Str → Str) (s : Server) (seqn : Nat) (t : Transport) (endpoint : Str) : Reply :=
  match t with
  | .http => .http (handleHttp s seqn (tactPath endpoint))
  | _ => .tcp (tcpExchange H s seqn endpoint)

/-- the server's reply to a product request. -/
def respond (H : Str → Str) (s : Server) (seqn : Nat) (q : Req) : Reply :=
  respondTo H s seqn q.t q.endpoint

/-- the server's reply to `v1/summary` (TCP v1 only). -/
def respondSummary (H : Str → Str) (s : Server) (seqn : Nat) : Reply :=
  respondTo H s seqn .v1 "v1/summary".toList

/-- the client's side: `RibbitClient::query` on the received bytes, `TactClient::query` on the
HTTP response. -/
def query (H : Str → Str) : Reply → Except ClientErr Doc
  | .tcp raw => clientTcp H raw
  | .http r => clientHttp r

end Cascette.Model.Ribbit
