/-
Model/RetryEnv — the string parsers behind `RetryPolicy::from_env`, one level closer to the Rust
than `Model.Retry.parseUnsigned`:

  * `parseUnsignedChecked`  `<uN as FromStr>::from_str` as `core::num` writes it: an empty string
    is an error, a lone sign is an error, one leading `+` is dropped (a `-` is not: for an
    unsigned type it then fails as a digit), then per character `result.checked_mul(10)`,
    `to_digit(10)`, `checked_add(digit)` — overflow is detected step by step, not on the final
    value. Proofs/RetryExt shows it equal to `parseUnsigned` (value computed first, compared with
    the limit afterwards), which is what `fromEnv` and the C14 theorems use.
  * `f64Accepts`  the language `<f64 as FromStr>::from_str` accepts (`core::num::dec2flt`):
    optional sign, then either digits with an optional fraction (at least one digit in all) and an
    optional exponent `e|E [+|-] digit+`, or `inf` / `infinity` / `nan` in any letter case.
    Which VALUE an accepted string denotes (correct rounding) stays a parameter of `fromEnv`.
  * `fromEnvG`  `from_env` with the acceptance decided by `f64Accepts` and only the value of an
    accepted string left to the parameter.
-/
import Cascette.Model.Retry
namespace Cascette.Model.RetryEnv
open Cascette.Model.Retry

/-- the digit loop of `from_str_radix` for an unsigned type with `limit = 2^N`:
`checked_mul(10)` then `checked_add(digit)`, any failure is an error -/
def checkedLoop (limit : Nat) : List Char → Nat → Option Nat
  | [], acc => some acc
  | c :: cs, acc =>
    match digitVal c with
    | none => none
    | some d =>
      if 10 * acc < limit then
        if 10 * acc + d < limit then checkedLoop limit cs (10 * acc + d) else none
      else none

/-- `from_str_radix(src, 10)` for an unsigned type: empty → `Empty`; a lone `+` or `-` →
`InvalidDigit`; one leading `+` dropped (a leading `-` stays and then fails as a digit) -/
def parseUnsignedChecked (limit : Nat) (s : List Char) : Option Nat :=
  if s.isEmpty then none
  else if s = ['+'] ∨ s = ['-'] then none
  else checkedLoop limit (stripPlus s) 0

def isDigit (c : Char) : Bool := decide ('0' ≤ c ∧ c ≤ '9')

/-- ASCII letters to lower case, everything else unchanged (`& 0xDF` of `parse_inf_nan`, read the
other way round) -/
def lowerAscii (c : Char) : Char :=
  if 'A' ≤ c ∧ c ≤ 'Z' then Char.ofNat (c.toNat + 32) else c

/-- `parse_inf_nan`: exactly these three words, any letter case -/
def isInfNan (s : List Char) : Bool :=
  let l := s.map lowerAscii
  l == ['n', 'a', 'n'] || l == ['i', 'n', 'f'] || l == ['i', 'n', 'f', 'i', 'n', 'i', 't', 'y']

/-- `parse_scientific` after the `e`: optional sign, at least one digit, nothing else -/
def isExponent (s : List Char) : Bool :=
  let t := match s with
    | '+' :: u => u
    | '-' :: u => u
    | u => u
  !t.isEmpty && t.all isDigit

/-- `parse_number` on the whole string: digits, optional `.` digits, at least one digit in all,
optional exponent -/
def isNumber (s : List Char) : Bool :=
  let intPart := s.takeWhile isDigit
  let r1 := s.dropWhile isDigit
  let (fracLen, r2) := match r1 with
    | '.' :: t => ((t.takeWhile isDigit).length, t.dropWhile isDigit)
    | _ => (0, r1)
  if intPart.length + fracLen = 0 then false
  else match r2 with
    | [] => true
    | c :: t => (c == 'e' || c == 'E') && isExponent t

/-- does `s.parse::<f64>()` succeed? -/
def f64Accepts (s : List Char) : Bool :=
  match s with
  | [] => false
  | c :: rest =>
    let body := if c = '-' ∨ c = '+' then rest else s
    !body.isEmpty && (isNumber body || isInfNan body)

/-- `from_env` with the f64 grammar inside the model: `valueOf` gives the double an ACCEPTED string
denotes; a rejected string (and an unset / non-Unicode variable) gives the default. -/
def fromEnvG {μ : Type} (valueOf : List Char → μ) (two : μ) (e : EnvIn) : Policy × μ :=
  fromEnv (fun s => if f64Accepts s then some (valueOf s) else none) two e

/-- `from_env` with both parsers as the Rust library writes them (`parseUnsignedChecked`,
`f64Accepts`). -/
def fromEnvC {μ : Type} (valueOf : List Char → μ) (two : μ) (e : EnvIn) : Policy × μ :=
  ({ maxAttempts := ((e.retries.bind (parseUnsignedChecked (2 ^ 32))).getD 3)
     initialBackoff := ((e.backoff.bind (parseUnsignedChecked (2 ^ 64))).getD 100) * 1000000
     maxBackoff := ((e.maxBackoff.bind (parseUnsignedChecked (2 ^ 64))).getD 10) * 1000000000
     jitter := ((e.jitter.bind parseBool).getD true) },
   (e.multiplier.bind fun s => if f64Accepts s then some (valueOf s) else none).getD two)

end Cascette.Model.RetryEnv
