/-
Model/SaveProtocols — the save routines of C06 as trace-producing functions over Spec/Fs, and the
loaders that reopen the store, as written in /repo:

* `IndexManager::save_index` / `write_index_to_file` / `save_all`  (index/mod.rs)
* `ResidencyDb::save`                                              (kmt/key_state.rs)
* `LruManager::checkpoint_to_disk`, `find_latest_lru_file`, `load_from_disk` (lru/mod.rs) — the
  code after `fix:` commit 1b2b74f (temp + sync_all + rename); `lruCheckpointPinned` keeps the
  pinned code (in-place `tokio::fs::write`) for the counter-witness
* `DiskCache::write_file`, cold `get`                              (disk_cache.rs)
* `ExtractorCompactorBackup::record_segment` / `load`              (storage/compaction.rs)

File contents (the serialisations) are parameters: C05/C07/C17 own the formats. What is modelled
here is the protocol — which names, which calls, in which order, what is synced — and what a
loader looks at. Names are abstract (`N`) in the protocol functions; the concrete file names the
Rust code derives are given as functions on character lists (`idxName`, `withExtTmp`, `lruName` …).
-/
import Cascette.Spec.Fs
namespace Cascette.Model.SaveProtocols
open Cascette Cascette.Spec.Fs

/-! ## protocols -/

/-- temp file → write → fsync → rename: `write_index_to_file`+rename, `ResidencyDb::save`,
`DiskCache::write_file`, fixed `checkpoint_to_disk`. `tmp` may equal `fin` (DiskCache key that ends
in ".tmp"); the theorems say what that does. -/
def atomicReplace {N : Type} (tmp fin : N) (bs : Bytes) : List (Op N) :=
  [.create tmp, .write tmp bs, .fsync tmp, .rename tmp fin]

/-- how one of the (at most three) attempts of `save_index` ends. -/
inductive Attempt where
  | ok
  /-- `File::create` failed: nothing happened -/
  | failCreate
  /-- a write (or the flush) failed after `k` bytes had been written -/
  | failWrite (k : Nat)
  /-- `sync_all` failed: everything written, nothing known to be durable -/
  | failSync
  /-- `rename` failed: the directory is unchanged -/
  | failRename
  deriving Repr, DecidableEq

/-- the calls of one failing attempt (before `remove_file(temp)`). -/
def failedAttemptOps {N : Type} (tmp : N) (bs : Bytes) : Attempt → List (Op N)
  | .ok => []
  | .failCreate => []
  | .failWrite k => [.create tmp, .write tmp (bs.take k)]
  | .failSync => [.create tmp, .write tmp bs]
  | .failRename => [.create tmp, .write tmp bs, .fsync tmp]

/-- `save_index`: up to `fuel` attempts; an attempt with no recorded outcome succeeds. -/
def saveIndexOps {N : Type} (tmp fin : N) (bs : Bytes) : Nat → List Attempt → List (Op N)
  | 0, _ => []
  | _ + 1, [] => atomicReplace tmp fin bs
  | _ + 1, .ok :: _ => atomicReplace tmp fin bs
  | fuel + 1, a :: rest => failedAttemptOps tmp bs a ++ [.unlink tmp] ++ saveIndexOps tmp fin bs fuel rest

/-- does `save_index` return `Ok`? -/
def saveIndexOk : Nat → List Attempt → Bool
  | 0, _ => false
  | _ + 1, [] => true
  | _ + 1, .ok :: _ => true
  | fuel + 1, _ :: rest => saveIndexOk fuel rest

def saveIndex {N : Type} (tmp fin : N) (bs : Bytes) (outcomes : List Attempt) : List (Op N) :=
  saveIndexOps tmp fin bs 3 outcomes

/-! ### the same routine as the list of CALLS a tracer sees (failed calls included)

`saveIndexOps` keeps only what changes the file system (the crash theorems are about it); the
correspondence run observes every call, also the one that fails and ends the attempt.
`saveIndexCalls_eff` (Proofs) says the two agree. -/

/-- one call: performed, or failed without any effect. -/
inductive Call (N : Type) where
  | did (o : Op N)
  | failed (o : Op N)
  deriving Repr, DecidableEq

def Call.eff {N : Type} : Call N → List (Op N)
  | .did o => [o]
  | .failed _ => []

/-- the calls that had an effect. -/
def effOps {N : Type} (cs : List (Call N)) : List (Op N) := cs.flatMap Call.eff

/-- the calls of one attempt of `save_index` (`write_index_to_file` + `rename`), up to and
including the failing one. `failWrite k`: `k` counts everything that reached the file in that
attempt — `BufWriter`'s `Drop` writes what is still buffered after the error. -/
def attemptCalls {N : Type} (tmp fin : N) (bs : Bytes) : Attempt → List (Call N)
  | .ok => (atomicReplace tmp fin bs).map .did
  | .failCreate => [.failed (.create tmp)]
  | .failWrite k => [.did (.create tmp), .did (.write tmp (bs.take k)), .failed (.write tmp (bs.drop k))]
  | .failSync => [.did (.create tmp), .did (.write tmp bs), .failed (.fsync tmp)]
  | .failRename => [.did (.create tmp), .did (.write tmp bs), .did (.fsync tmp), .failed (.rename tmp fin)]

/-- `save_index` as calls: after every failed attempt `remove_file(temp)` (its own result is
ignored by the code; in Spec/Fs removing a missing name changes nothing). -/
def saveIndexCalls {N : Type} (tmp fin : N) (bs : Bytes) : Nat → List Attempt → List (Call N)
  | 0, _ => []
  | _ + 1, [] => attemptCalls tmp fin bs .ok
  | _ + 1, .ok :: _ => attemptCalls tmp fin bs .ok
  | fuel + 1, a :: rest => attemptCalls tmp fin bs a ++ [.did (.unlink tmp)] ++ saveIndexCalls tmp fin bs fuel rest

structure BucketSave (N : Type) where
  tmp : N
  fin : N
  bytes : Bytes
  outcomes : List Attempt

/-- `save_all`: buckets in `BTreeMap` order, `?` stops at the first bucket whose save fails. -/
def saveAll {N : Type} : List (BucketSave N) → List (Op N)
  | [] => []
  | b :: rest => saveIndex b.tmp b.fin b.bytes b.outcomes ++ (if saveIndexOk 3 b.outcomes then saveAll rest else [])

/-- `save_all` as calls. -/
def saveAllCalls {N : Type} : List (BucketSave N) → List (Call N)
  | [] => []
  | b :: rest => saveIndexCalls b.tmp b.fin b.bytes 3 b.outcomes ++ (if saveIndexOk 3 b.outcomes then saveAllCalls rest else [])

/-- the executed prefix of a call list: the effect of the first `i` calls and the first `k` bytes
of call `i` when that is a performed write (mirror of `Spec.Fs.cutAt`; used by the driver, the
harness enumerates the same `(i, k)`). -/
def cutAtCalls {N : Type} (cs : List (Call N)) (i k : Nat) : List (Op N) :=
  effOps (cs.take i) ++
    (match cs.drop i with
     | .did (.write n bs) :: _ => if k = 0 then [] else [.write n (bs.take k)]
     | _ => [])

/-- `ResidencyDb::save`: nothing when not dirty. -/
def residencySave {N : Type} (dirty : Bool) (tmp fin : N) (bs : Bytes) : List (Op N) :=
  if dirty then atomicReplace tmp fin bs else []

/-- the deletion of the previous generation in `checkpoint_to_disk`. -/
def lruDeletePrev {N : Type} (genName : Nat → N) (gen prev : Nat) : List (Op N) :=
  if prev ≠ 0 ∧ prev ≠ gen then [.unlink (genName prev)] else []

/-- `checkpoint_to_disk` after commit 1b2b74f. -/
def lruCheckpoint {N : Type} (genName tmpName : Nat → N) (gen prev : Nat) (bs : Bytes) : List (Op N) :=
  atomicReplace (tmpName gen) (genName gen) bs ++ lruDeletePrev genName gen prev

/-- `checkpoint_to_disk` of the pinned tree: `tokio::fs::write` straight onto the generation file. -/
def lruCheckpointPinned {N : Type} (genName : Nat → N) (gen prev : Nat) (bs : Bytes) : List (Op N) :=
  [.create (genName gen), .write (genName gen) bs] ++ lruDeletePrev genName gen prev

/-- `DiskCache::write_file`. -/
def diskCacheWrite {N : Type} (tmp fin : N) (bs : Bytes) : List (Op N) := atomicReplace tmp fin bs

/-- header of the compaction backup: version byte + max entries (u32 LE). -/
def journalHeader (version : Byte) (maxEntries : Nat) : List Bytes := [[version], toLe32 (BitVec.ofNat 32 maxEntries)]

/-- `record_segment`: open for append (creating), header only when the file is empty, the entry;
no sync. `isEmpty` is `metadata.len() == 0` after the open. -/
def journalRecord {N : Type} (name : N) (isEmpty : Bool) (version : Byte) (maxEntries seg : Nat) : List (Op N) :=
  [.openAppend name] ++
  (if isEmpty then (journalHeader version maxEntries).map (Op.write name) else []) ++
  [.write name (toLe32 (BitVec.ofNat 32 seg))]

def journalIsEmpty {N : Type} (d : Dir N) (name : N) : Bool :=
  match d name with
  | some f => f.data.length == 0
  | none => true

/-! ## loaders -/

/-- the largest element (`file_gen > best_gen` keeps the first maximum; generations are distinct). -/
def maxGen : List Nat → Option Nat
  | [] => none
  | g :: rest =>
    match maxGen rest with
    | none => some g
    | some b => some (if b < g then g else b)

/-- `find_latest_lru_file` over the generations `gens` that may have a file. -/
def lruLatest {N : Type} (genName : Nat → N) (gens : List Nat) (img : N → Option Bytes) : Option Nat :=
  maxGen (gens.filter fun g => (img (genName g)).isSome)

inductive LruLoad (S : Type) where
  /-- no checkpoint: a fresh manager -/
  | fresh
  | loaded (gen : Nat) (s : S)
  /-- `load_from_disk` failed: `run_cycle` returns `Err` -/
  | err
  deriving Repr, DecidableEq

/-- `run_cycle`'s load step: the highest generation, `deserialize` (MD5-checked; a parameter), no
fallback to an older generation. -/
def lruLoad {N S : Type} (genName : Nat → N) (deser : Bytes → Option S) (gens : List Nat)
    (img : N → Option Bytes) : LruLoad S :=
  match lruLatest genName gens img with
  | none => .fresh
  | some g =>
    match img (genName g) with
    | none => .err
    | some b =>
      match deser b with
      | some s => .loaded g s
      | none => .err

/-- cold `DiskCache::get`: the file at the key's path, whatever it holds. -/
def diskCacheGet {N : Type} (img : N → Option Bytes) (path : N) : Option Bytes := img path

/-- entries of the backup file: `count = min(len/4, max)` little-endian u32, values above
`u16::MAX` skipped. -/
def journalEntries : Nat → Bytes → List Nat
  | 0, _ => []
  | fuel + 1, a :: b :: c :: d :: rest =>
    let v := (le32 a b c d).toNat
    (if v < 65536 then [v] else []) ++ journalEntries fuel rest
  | _ + 1, _ => []

/-- `ExtractorCompactorBackup::load` on the file content: `none` = ignored (too small / other
version). -/
def journalParse (version : Byte) : Bytes → Option (List Nat)
  | v :: m0 :: m1 :: m2 :: m3 :: rest =>
    if v = version then some (journalEntries (le32 m0 m1 m2 m3).toNat rest) else none
  | _ => none

/-- the recovery state: "no backup" and "backup without segments" are the same. -/
def journalLoad (version : Byte) (c : Option Bytes) : List Nat :=
  match c with
  | none => []
  | some b => (journalParse version b).getD []

/-! ## concrete file names -/

abbrev Str := List Char

def hexDigit (n : Nat) : Char :=
  if n < 10 then Char.ofNat (48 + n) else Char.ofNat (87 + n)

/-- `{:0width x}` -/
def hexPad (width n : Nat) : Str := (List.range width).reverse.map fun i => hexDigit (n / 16 ^ i % 16)

def dotIdx : Str := ['.', 'i', 'd', 'x']
def dotTmp : Str := ['.', 't', 'm', 'p']
def dotLru : Str := ['.', 'l', 'r', 'u']

/-- `generate_index_filename`: `{bucket:02x}{version:08x}.idx`. -/
def idxName (bucket version : Nat) : Str := hexPad 2 bucket ++ hexPad 8 version ++ dotIdx
/-- `path.with_extension("tmp")` of it. -/
def idxTmp (bucket version : Nat) : Str := hexPad 2 bucket ++ hexPad 8 version ++ dotTmp

def isHexChar (c : Char) : Bool :=
  ('0' ≤ c && c ≤ '9') || ('a' ≤ c && c ≤ 'f') || ('A' ≤ c && c ≤ 'F')

def lowerAscii (c : Char) : Char := if 'A' ≤ c && c ≤ 'Z' then Char.ofNat (c.toNat + 32) else c

/-- `parse_index_filename(..).is_some()`: 14 characters, extension "idx" (any case), ten hex
digits (`from_str_radix` would also take a leading '+': not modelled). -/
def isIdxName (n : Str) : Bool :=
  n.length == 14 && (n.drop 10).map lowerAscii == dotIdx && (n.take 10).all isHexChar

/-- `generation_to_filename`. -/
def lruName (gen : Nat) : Str := hexPad 16 gen ++ dotLru
def lruTmp (gen : Nat) : Str := hexPad 16 gen ++ dotTmp

/-- `filename_to_generation(..).is_some()`: 20 characters, ends with ".lru", 16 hex digits. -/
def isLruName (n : Str) : Bool :=
  n.length == 20 && n.drop 16 == dotLru && (n.take 16).all isHexChar

/-- position of the last '.' of a name. -/
def lastDot (n : Str) : Option Nat :=
  let idxs := (List.range n.length).filter fun i => n[i]? == some '.'
  idxs.getLast?

/-- `Path::with_extension("tmp")` on a file name (not "..", no '/'): the part before the last
'.', unless that dot is the first character or there is none. -/
def withExtTmp (n : Str) : Str :=
  match lastDot n with
  | none => n ++ dotTmp
  | some 0 => n ++ dotTmp
  | some i => n.take i ++ dotTmp

/-- `get_file_path`'s directory hash: `acc * 31 + byte` in `u64`. -/
def keyHash (bytes : List Nat) : Nat := bytes.foldl (fun acc b => (acc * 31 + b) % 2 ^ 64) 0

/-- the hashed sub-directories, `levels` of them. -/
def subDirs (levels hash : Nat) : Str :=
  ((List.range levels).map fun l => hexPad 2 (hash / 256 ^ l % 256) ++ ['/']).flatten

end Cascette.Model.SaveProtocols
