/-
Model/Residency — executable model of `kmt/key_state.rs` `ResidencyDb` (used through
`container/residency.rs`): 16 buckets of pages of 40-byte entries, replace-in-place insert,
a hash set used as a negative filter in `is_resident`, batch delete, save/load.

A 16-byte key is the natural number with those bytes as big-endian digits.  The residency span
of an entry is never read back by any query the property constrains, so an entry is (key, type).
`Cfg.perPage` = `RESIDENCY_ENTRIES_PER_PAGE` (25), `Cfg.batch` = `BATCH_DELETE_THRESHOLD`
(10000), printed by the harness from the compiled crate.
-/
import Cascette.Spec.ResidencySet
namespace Cascette.Model.Residency
open Cascette.Spec.ResidencySet (Op Out padKey delKeys)

/-- `ResidencyUpdateType as u8`. -/
def tySet : Nat := 1
def tyDelete : Nat := 3
def tyMarkNonResident : Nat := 7

structure REntry where
  key : Nat
  ty : Nat
deriving DecidableEq, Repr, Inhabited

/-- `ResidencyUpdateType::is_live`. -/
def isLive (t : Nat) : Bool := t == 1 || t == 2 || t == 6 || t == 7

structure Cfg where
  perPage : Nat
  batch : Nat
deriving Repr

def nBuckets : Nat := 16

/-- byte `i` (0 = first) of a 16-byte key. -/
def keyByte (k : Nat) (i : Nat) : Nat := k / 256 ^ (15 - i) % 256

/-- `ResidencyEntry::bucket_hash`: XOR of the 16 bytes, nibbles folded. -/
def bucketHash (k : Nat) : Nat :=
  let x := (List.range 16).foldl (fun a i => a ^^^ keyByte k i) 0
  ((x / 16 % 16) ^^^ x) % 16

/-- `murmurhash3_finalize(u64::from_le_bytes(ekey[0..8]))`. -/
def hashOf (k : Nat) : Nat :=
  let m := 2 ^ 64
  let k0 := (List.range 8).foldl (fun a i => a + keyByte k i * 256 ^ i) 0
  let k1 := k0 ^^^ (k0 / 2 ^ 33)
  let k2 := k1 * 0xff51afd7ed558ccd % m
  let k3 := k2 ^^^ (k2 / 2 ^ 33)
  let k4 := k3 * 0xc4ceb9fe1a85ec53 % m
  k4 ^^^ (k4 / 2 ^ 33)

abbrev Pages := List (List REntry)

structure State where
  /-- `buckets` -/
  buckets : Nat → Pages
  /-- key set of `hash_index` -/
  filter : List Nat
  dirty : Bool
  /-- the saved file (`none` = no file): non-empty buckets with their pages -/
  disk : Option (Nat → Pages)

def State.init : State := ⟨fun _ => [], [], false, none⟩

/-- first loop of `insert_entry` inside one page: overwrite the first entry with the same key. -/
def replaceInPage (e : REntry) : List REntry → Option (List REntry)
  | [] => none
  | x :: xs => if x.key = e.key then some (e :: xs) else (replaceInPage e xs).map (x :: ·)

/-- first loop of `insert_entry` over the pages of the bucket. -/
def replaceInPages (e : REntry) : Pages → Option Pages
  | [] => none
  | p :: ps =>
    match replaceInPage e p with
    | some p' => some (p' :: ps)
    | none => (replaceInPages e ps).map (p :: ·)

/-- second part of `insert_entry`: push to the last page if it has room, else a new page. -/
def pushEntry (cfg : Cfg) (pages : Pages) (e : REntry) : Pages :=
  match pages.getLast? with
  | some last => if last.length < cfg.perPage then pages.dropLast ++ [last ++ [e]] else pages ++ [[e]]
  | none => [[e]]

/-- `insert_entry` + `update_hash_index_for_key`, then `dirty = true` (all three callers). -/
def insertEntry (cfg : Cfg) (s : State) (e : REntry) : State :=
  let b := bucketHash e.key
  let pages := s.buckets b
  let pages' := match replaceInPages e pages with
    | some p => p
    | none => pushEntry cfg pages e
  let h := hashOf e.key
  { s with
    buckets := fun i => if i = b then pages' else s.buckets i
    filter := if s.filter.contains h then s.filter else h :: s.filter
    dirty := true }

/-- `is_resident`. -/
def isResident (s : State) (k : Nat) : Bool :=
  if s.filter.contains (hashOf k) then
    match (s.buckets (bucketHash k)).flatten.find? (fun e => e.key == k && isLive e.ty) with
    | some e => e.ty != tyMarkNonResident
    | none => false
  else false

def allEntries (bk : Nat → Pages) : List REntry :=
  (List.range nBuckets).flatMap fun b => (bk b).flatten

/-- `rebuild_hash_index` (key set only). -/
def rebuildFilter (bk : Nat → Pages) : List Nat :=
  ((allEntries bk).filter (fun e => isLive e.ty)).map (fun e => hashOf e.key)

/-- `batch_delete`. -/
def batchDelete (s : State) (keys : List Nat) : State :=
  let bk : Nat → Pages := fun b =>
    (s.buckets b).map (·.map fun e => if keys.contains e.key then { e with ty := tyDelete } else e)
  { s with buckets := bk, dirty := true, filter := rebuildFilter bk }

/-- `delete_keys`. -/
def deleteKeys (cfg : Cfg) (s : State) (keys : List Nat) : State :=
  if keys.length > cfg.batch then batchDelete s keys
  else keys.foldl (fun s k => insertEntry cfg s ⟨k, tyDelete⟩) s

/-- `scan_keys`. -/
def scanKeys (s : State) : List Nat :=
  ((allEntries s.buckets).filter (fun e => isLive e.ty && e.ty != tyMarkNonResident)).map (·.key)

/-- `entry_count` (what `ResidencyContainer::resident_count` returns). -/
def entryCount (s : State) : Nat :=
  ((allEntries s.buckets).filter (fun e => isLive e.ty)).length

/-- `save`: nothing unless dirty; buckets without pages are not written. -/
def save (s : State) : State :=
  if s.dirty then { s with disk := some s.buckets, dirty := false } else s

/-- `ResidencyDb::load(path)`: a fresh database read from the file (empty when there is none). -/
def load (s : State) : State :=
  let bk : Nat → Pages := match s.disk with
    | some d => d
    | none => fun _ => []
  { s with buckets := bk, filter := rebuildFilter bk, dirty := false }

def step (cfg : Cfg) (s : State) : Op → State × Out
  | .mark k => (insertEntry cfg s ⟨k, tySet⟩, .ok)
  | .unmark k => (insertEntry cfg s ⟨k, tyDelete⟩, .ok)
  | .span k => (insertEntry cfg s ⟨k, tyMarkNonResident⟩, .ok)
  | .delete pad ks => (deleteKeys cfg s (delKeys pad ks), .ok)
  | .isResident k => (s, .bool (isResident s k))
  | .scan => (s, .keys (scanKeys s))
  | .count => (s, .num (entryCount s))
  | .save => (save s, .ok)
  | .load => (load s, .ok)

def run (cfg : Cfg) : State → List Op → State × List Out
  | s, [] => (s, [])
  | s, op :: ops =>
    let (s1, o) := step cfg s op
    let (s2, os) := run cfg s1 ops
    (s2, o :: os)

end Cascette.Model.Residency
