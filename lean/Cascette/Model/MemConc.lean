/-
Model/MemConc — executable model of `cascette_cache::memory_cache::MemoryCache` AS WRITTEN under
concurrent use (crates/cascette-cache/src/memory_cache.rs), at the granularity of its accesses
to shared state.  Every operation is cut into atomic steps exactly where the `sched_point`
hooks of the `verif-hooks` feature sit (the site names are in `Pc.site`):

  get / contains   [storage.get + is_expired (+ update_access, value clone) under the shard guard]
                   expired → guard dropped, size kept in a local →  ‖ storage.remove(key)
                   ‖ entry_count -= 1 ‖ memory_usage -= size SEEN EARLIER
  put_with_ttl     [needs_eviction] (‖ perform_eviction …) ‖ [Entry::new + storage.insert]
                   ‖ replaced: memory_usage ± diff | new: entry_count += 1 ‖ memory_usage += size
  perform_eviction [needs_eviction] ‖ [entry_count.load] ‖ [iterate + sort = snapshot]
                   ‖ per victim: [storage.remove] ‖ entry_count -= 1 ‖ memory_usage -= size
  remove           [storage.remove] ‖ entry_count -= 1 ‖ memory_usage -= size
  clear            [storage.clear] ‖ entry_count = 0 ‖ memory_usage = 0
  sweep            one tick of the background cleanup task (`start_cleanup_task`, started by
                   `new_with_cleanup`): [iterate the map, collect the keys of expired entries]
                   ‖ per collected key: [storage.remove_if(key, |_, e| e.is_expired()) — the entry
                   stored NOW is tested, and its size is the one booked]
                   ‖ entry_count -= 1 ‖ memory_usage -= size of the entry removed
                   (sites `mem.cleanup.before_remove / before_count / before_bytes`)

Shared state = `MemCache.State` of the sequential model (store, the two counters as unbounded
integers, a logical clock that ticks once per step and provides the LRU / FIFO time stamps).
The Rust counters are `AtomicUsize` / `AtomicU64` with wrapping `fetch_sub`; a read of a counter
(`needs_eviction`, `perform_eviction`) therefore sees the integer modulo 2^64 (`wrap`) — a
decrement that overtakes the matching increment makes the next `put` see a huge entry count.

The victim choice of an eviction snapshot is a parameter `vic` (every theorem holds for every
choice); the driver uses `MemCache.detVictims` (stable sort by the policy's time stamp, all
stamps distinct).  The order in which the map iteration of a sweep hands out the keys (DashMap:
shard / bucket order under a per-map random hasher) is a parameter of the operation as well
(`Op.sweep ord`: `ord` only ORDERS the expired keys the model itself finds, `sweepKeys`); every
theorem holds for every `ord`.  Metrics (`record_get`, …) are not modelled.  Assumed atomic: each DashMap
call (including the whole-map `iter` and `clear`, which the real map performs shard by shard),
each atomic counter access; `Ordering::Relaxed` effects are outside the model.
-/
import Cascette.Spec.Interleave
import Cascette.Model.MemCache
namespace Cascette.Model.MemConc
open Cascette.Spec.CacheMap (Key Val)
open Cascette.Spec.Interleave (Ev Machine Sys)
open Cascette.Model.CacheAssoc
open Cascette.Model.MemCache (Config Entry Store State Policy)

/-- counters are 64-bit words in the Rust -/
def W : Nat := 2 ^ 64
/-- what a `load` of a wrapping counter returns -/
def wrap (x : Int) : Nat := (x % (W : Int)).toNat

inductive Op where
  | get (k : Key)
  | contains (k : Key)
  /-- `put_with_ttl`; `short` = the TTL is over at the next access (expiring entry) -/
  | put (k : Key) (v : Val) (short : Bool)
  | remove (k : Key)
  | clear
  /-- one tick of the background cleanup task; `ord` = the order in which the map iteration
  hands out keys (keys it does not list come last, in store order) -/
  | sweep (ord : List Key)
  deriving Repr, DecidableEq

inductive Out where
  | val (o : Option Val)
  | bool (b : Bool)
  | unit
  deriving Repr, DecidableEq

structure PutArgs where
  k : Key
  v : Val
  short : Bool
  deriving Repr, DecidableEq

/-- where a thread stands inside its current operation (= the schedule point it is parked at)
together with the locals the rest of the operation uses -/
inductive Pc where
  /-- between operations -/
  | idle
  /-- expired entry seen by get (`isGet`) / contains, size `sz` read, guard dropped -/
  | xRemove (isGet : Bool) (k : Key) (sz : Nat)
  | xCount (isGet : Bool) (sz : Nat)
  | xBytes (isGet : Bool) (sz : Nat)
  /-- put: `needs_eviction()` was true, about to enter `perform_eviction` -/
  | pEvict (a : PutArgs)
  | eLoad (a : PutArgs)
  /-- about to take the snapshot; `n` = evict_count -/
  | eSnap (a : PutArgs) (n : Nat)
  /-- about to `storage.remove(k)`; `vs` = victims after it -/
  | eRemove (a : PutArgs) (k : Key) (vs : List Key)
  | eCount (a : PutArgs) (sz : Nat) (vs : List Key)
  | eBytes (a : PutArgs) (sz : Nat) (vs : List Key)
  | pInsert (a : PutArgs)
  | pReplBytes (new old : Nat)
  | pNewCount (sz : Nat)
  | pNewBytes (sz : Nat)
  | rCount (sz : Nat)
  | rBytes (sz : Nat)
  | cCount
  | cBytes
  /-- cleanup task: about to `remove_if(k, is_expired)`; `ks` = collected keys after it -/
  | wRemove (k : Key) (ks : List Key)
  /-- cleanup task: removed an entry of `sz` bytes (the entry that WAS stored), counters next -/
  | wCount (sz : Nat) (ks : List Key)
  | wBytes (sz : Nat) (ks : List Key)
  deriving Repr, DecidableEq

structure Thread where
  pc : Pc
  todo : List Op
  /-- answers given so far, oldest first (an answer is recorded at the step that fixes it) -/
  results : List (Op × Out)
  deriving Repr, DecidableEq

def Thread.new (ops : List Op) : Thread := { pc := .idle, todo := ops, results := [] }

def Thread.done (t : Thread) : Bool := t.pc = .idle && t.todo.isEmpty

/-- `needs_eviction` on the wrapped counter values -/
def needsEv (cfg : Config) (s : State) : Bool :=
  decide (wrap s.count ≥ cfg.maxEntries) ||
    (match cfg.maxBytes with
     | some m => decide (wrap s.bytes ≥ m)
     | none => false)

/-- continue the eviction loop with the remaining victims, or go on to the insert -/
def afterVictim (a : PutArgs) : List Key → Pc
  | [] => .pInsert a
  | k :: vs => .eRemove a k vs

/-- continue the cleanup loop with the remaining collected keys, or finish the tick -/
def afterSweep : List Key → Pc
  | [] => .idle
  | k :: ks => .wRemove k ks

/-- is the entry stored under `k` one whose TTL has ended? -/
def isShortAt (st : Store) (k : Key) : Bool :=
  match lookup k st with
  | some e => e.short
  | none => false

/-- the collection pass of the cleanup task: the keys of the expired entries, in the order the
iteration hands them out (`ord` first, keys `ord` does not mention after them in store order) -/
def sweepKeys (ord : List Key) (st : Store) : List Key :=
  ord.filter (isShortAt st) ++ (MemCache.expiredKeys st).filter (fun k => !ord.contains k)

/-- first step of an operation -/
def startOp (cfg : Config) (s : State) (op : Op) : State × Pc × List Out × List Ev :=
  match op with
  | .get k =>
    match lookup k s.store with
    | none => (s, .idle, [.val none], [.get k none])
    | some e =>
      if e.short then (s, .xRemove true k e.size, [.val none], [.get k none])
      else ({ s with store := (k, { e with last := s.clock, hits := e.hits + 1 }) :: erase k s.store },
            .idle, [.val (some e.val)], [.get k (some e.val)])
  | .contains k =>
    match lookup k s.store with
    | none => (s, .idle, [.bool false], [.contains k false])
    | some e =>
      if e.short then (s, .xRemove false k e.size, [.bool false], [.contains k false])
      else (s, .idle, [.bool true], [.contains k true])
  | .put k v short =>
    if needsEv cfg s then (s, .pEvict ⟨k, v, short⟩, [], []) else (s, .pInsert ⟨k, v, short⟩, [], [])
  | .remove k =>
    match lookup k s.store with
    | some e => ({ s with store := erase k s.store }, .rCount e.size, [.bool true], [.remove k true])
    | none => (s, .idle, [.bool false], [.remove k false])
  | .clear => ({ s with store := [] }, .cCount, [.unit], [.clear])
  | .sweep ord => (s, afterSweep (sweepKeys ord s.store), [.unit], [])

/-- a later step of an operation: `(state, pc, answer, events)` -/
def contOp (cfg : Config) (vic : Store → Nat → List Key) (s : State) :
    Pc → State × Pc × List Out × List Ev
  | .idle => (s, .idle, [], [])
  | .xRemove g k sz =>
    match lookup k s.store with
    | some _ => ({ s with store := erase k s.store }, .xCount g sz, [], [.drop k])
    | none => (s, .idle, [], [])
  | .xCount g sz => ({ s with count := s.count - 1 }, .xBytes g sz, [], [])
  | .xBytes _ sz => ({ s with bytes := s.bytes - (sz : Int) }, .idle, [], [])
  | .pEvict a => if needsEv cfg s then (s, .eLoad a, [], []) else (s, .pInsert a, [], [])
  | .eLoad a =>
    if wrap s.count ≤ MemCache.target cfg then (s, .pInsert a, [], [])
    else (s, .eSnap a (wrap s.count - MemCache.target cfg), [], [])
  | .eSnap a n =>
    (s, afterVictim a (match cfg.policy with
                       | .ttl => MemCache.expiredKeys s.store
                       | _ => vic s.store n), [], [])
  | .eRemove a k vs =>
    match lookup k s.store with
    | some e => ({ s with store := erase k s.store }, .eCount a e.size vs, [], [.drop k])
    | none => (s, afterVictim a vs, [], [])
  | .eCount a sz vs => ({ s with count := s.count - 1 }, .eBytes a sz vs, [], [])
  | .eBytes a sz vs => ({ s with bytes := s.bytes - (sz : Int) }, afterVictim a vs, [], [])
  | .pInsert a =>
    let e := MemCache.newEntry s a.v a.short
    match lookup a.k s.store with
    | some old => ({ s with store := (a.k, e) :: erase a.k s.store }, .pReplBytes e.size old.size,
                   [.unit], [.put a.k a.v])
    | none => ({ s with store := (a.k, e) :: erase a.k s.store }, .pNewCount e.size,
               [.unit], [.put a.k a.v])
  | .pReplBytes new old => ({ s with bytes := s.bytes + ((new : Int) - (old : Int)) }, .idle, [], [])
  | .pNewCount sz => ({ s with count := s.count + 1 }, .pNewBytes sz, [], [])
  | .pNewBytes sz => ({ s with bytes := s.bytes + (sz : Int) }, .idle, [], [])
  | .rCount sz => ({ s with count := s.count - 1 }, .rBytes sz, [], [])
  | .rBytes sz => ({ s with bytes := s.bytes - (sz : Int) }, .idle, [], [])
  | .cCount => ({ s with count := 0 }, .cBytes, [], [])
  | .cBytes => ({ s with bytes := 0 }, .idle, [], [])
  | .wRemove k ks =>
    -- `storage.remove_if(&key, |_, e| e.is_expired())`: the entry stored now decides
    match lookup k s.store with
    | some e =>
      if e.short then ({ s with store := erase k s.store }, .wCount e.size ks, [], [.drop k])
      else (s, afterSweep ks, [], [])
    | none => (s, afterSweep ks, [], [])
  | .wCount sz ks => ({ s with count := s.count - 1 }, .wBytes sz ks, [], [])
  | .wBytes sz ks => ({ s with bytes := s.bytes - (sz : Int) }, afterSweep ks, [], [])

/-- the operation an answer recorded by a continuation step belongs to: only `put` answers
late (at its insert step) -/
def pcOp : Pc → Option Op
  | .pInsert a => some (.put a.k a.v a.short)
  | _ => none

/-- one atomic step of a thread -/
def step (cfg : Config) (vic : Store → Nat → List Key) (s0 : State) (t : Thread) :
    State × Thread × List Ev :=
  let s := MemCache.tick s0
  if t.pc = .idle then
    match t.todo with
    | [] => (s0, t, [])
    | op :: rest =>
      let r := startOp cfg s op
      (r.1, { pc := r.2.1, todo := rest, results := t.results ++ r.2.2.1.map (fun o => (op, o)) }, r.2.2.2)
  else
    let r := contOp cfg vic s t.pc
    (r.1, { pc := r.2.1, todo := t.todo,
            results := t.results ++ (match pcOp t.pc with
                                     | some op => r.2.2.1.map (fun o => (op, o))
                                     | none => []) }, r.2.2.2)

def machine (cfg : Config) (vic : Store → Nat → List Key) : Machine State Thread Ev :=
  { step := step cfg vic, done := Thread.done }

/-- the victims the Rust picks when all time stamps differ (Lru, Fifo) -/
def detVic (cfg : Config) : Store → Nat → List Key := fun st n => MemCache.detVictims cfg.policy st n

/-- a fresh system: the given shared state, one thread per operation list -/
def sys (s : State) (progs : List (List Op)) : Sys State Thread Ev :=
  { shared := s, threads := progs.map Thread.new, log := [] }

/-- one-letter name of the schedule point a thread is parked at (`S` = before its next
operation, `D` = finished); the correspondence run compares it after every step -/
def Pc.site : Pc → Char
  | .idle => 'S'
  | .xRemove true _ _ => 'a' | .xCount true _ => 'b' | .xBytes true _ => 'c'
  | .xRemove false _ _ => 'd' | .xCount false _ => 'e' | .xBytes false _ => 'f'
  | .pEvict _ => 'g' | .pInsert _ => 'h' | .pReplBytes _ _ => 'i' | .pNewCount _ => 'j' | .pNewBytes _ => 'k'
  | .rCount _ => 'l' | .rBytes _ => 'm' | .cCount => 'n' | .cBytes => 'o'
  | .eLoad _ => 'p' | .eSnap _ _ => 'q' | .eRemove _ _ _ => 'r' | .eCount _ _ _ => 's' | .eBytes _ _ _ => 't'
  | .wRemove _ _ => 'u' | .wCount _ _ => 'v' | .wBytes _ _ => 'w'

def Thread.site (t : Thread) : Char := if t.done then 'D' else t.pc.site

end Cascette.Model.MemConc
