/-
Model/ArchiveChunked — what the correspondence driver RUNS for the `dyn` / `inst` streams: the
models of Model/Archive and Model/Container with the data file kept as the list of the pieces it
was written in (newest first) together with its length, instead of one flat byte list.

Why: `Archive.write` appends to the file with `writeAt file file.length piece`, and on a flat
`List` an append copies the whole file, so a history of n writes costs n²/2 file bytes.  The fill
cases that take ONE index bucket's sorted section past the 64 KiB alignment boundary of its `.idx`
file need some 3 700 (thorough: 7 400) writes in one case; kept in pieces a write is O(piece) and a
read walks the pieces up to its offset.

Nothing here is a second model: `CState.abs` flattens the pieces, and
`Proofs/ArchiveChunked` + `Props.C04.chunked_steps_are_the_model` prove that for EVERY state with
a correct length field and EVERY operation the chunked step, flattened, is `Container.step` /
`istep` of the flattened state with the same output (and keeps the length field correct), hence
for every history from the initial state the outputs the driver prints (`runTC` / `irunTC`) are
those of `Container.run` / `irun`.
A write at any other offset than the end (never issued by `write`, whose write position is the
file length in every reachable state) falls back to `Archive.writeAt` on the flattened file.
-/
import Cascette.Model.Container
namespace Cascette.Model.Archive
open Cascette
open Cascette.Model.Blte (Mode Codec)

/-- the data file as the pieces it was written in, NEWEST FIRST, and its length. -/
structure CFile where
  pieces : List Bytes
  len : Nat
deriving Repr

namespace CFile

/-- the file content. -/
def bytes (f : CFile) : Bytes := f.pieces.reverse.flatten

def empty : CFile := ⟨[], 0⟩

def ofBytes (b : Bytes) : CFile := ⟨[b], b.length⟩

/-- the length field is the length of the content. -/
def Wf (f : CFile) : Prop := f.len = f.bytes.length

/-- `Archive.writeAt`: at the end of the file one more piece, anywhere else the definition. -/
def writeAt (f : CFile) (off : Nat) (data : Bytes) : CFile :=
  if off = f.len then ⟨data :: f.pieces, f.len + data.length⟩
  else ofBytes (Archive.writeAt f.bytes off data)

/-- drop `n` bytes from a sequence of pieces (oldest first). -/
def dropP : Nat → List Bytes → List Bytes
  | _, [] => []
  | n, p :: ps => if p.length ≤ n then dropP (n - p.length) ps else p.drop n :: ps

/-- the first `n` bytes of a sequence of pieces (oldest first). -/
def takeP : Nat → List Bytes → Bytes
  | _, [] => []
  | n, p :: ps => if n ≤ p.length then p.take n else p ++ takeP (n - p.length) ps

/-- `(file.drop off).take size` without flattening the file. -/
def slice (f : CFile) (off size : Nat) : Bytes := takeP size (dropP off f.pieces.reverse)

end CFile

/-- `Archive.State` with the chunked file. -/
structure CState where
  disk : Option CFile
  opn : Option Open
deriving Repr

namespace CState
def init : CState := ⟨none, none⟩
/-- the state of Model/Archive this one stands for. -/
def abs (s : CState) : State := ⟨s.disk.map CFile.bytes, s.opn⟩
def Wf (s : CState) : Prop := ∀ f, s.disk = some f → f.Wf
end CState

/-- `createArchive`. -/
def createArchiveC (keep : Bool) (s : CState) : CState :=
  let f : CFile := if keep then s.disk.getD CFile.empty else CFile.empty
  ⟨some f, some ⟨f.len, f.len⟩⟩

/-- `write`, line by line, on the chunked file. -/
def writeC (P : Params) (s : CState) (data : Bytes) (mode : Mode) :
    CState × Except Err (Nat × Nat × Nat × Bytes) :=
  match blteOf P.cd data mode with
  | .error e => (s, .error e)
  | .ok blte =>
    let key := P.H blte
    if blte.length ≥ 2 ^ 32 then (s, .error .tooLarge)
    else if headerSize + blte.length ≥ 2 ^ 32 then (s, .error .tooLarge)
    else
      let total := headerSize + blte.length
      let cur := match s.opn with
        | some o => o.pos
        | none => 0
      if cur ≥ maxArchive - writeReserve then (s, .error .rollover)
      else if cur + total > maxArchive then (s, .error .tooLarge)
      else
        let s1 : CState := match s.opn with
          | some _ => s
          | none => createArchiveC P.keepOnCreate s
        match s1.opn, s1.disk with
        | some o, some file =>
          let offset := o.pos
          let file' := file.writeAt offset (P.hdr key blte.length offset ++ blte)
          let mapped' := if P.remap o.mapped file'.len then file'.len else o.mapped
          let s2 : CState := ⟨some file', some ⟨mapped', offset + total⟩⟩
          if offset ≥ 2 ^ 32 then (s2, .error .tooLarge)
          else (s2, .ok (0, offset, total, key))
        | _, _ => (s1, .error .noArchive)

/-- `readRaw`. -/
def readRawC (s : CState) (id off size : Nat) : Except Err Bytes :=
  if id ≠ 0 then .error .noArchive
  else match s.opn, s.disk with
    | some o, some file =>
      if off + size > o.mapped then .error .bounds
      else .ok (file.slice off size)
    | _, _ => .error .noArchive

/-- `readContent`. -/
def readContentC (P : Params) (s : CState) (id off size : Nat) : Except Err Bytes :=
  match readRawC s id off size with
  | .error e => .error e
  | .ok data =>
    if data.length ≥ headerSize + 4 ∧ (data.drop headerSize).take 4 = Blte.magic then
      decompressBlte P.cd (data.drop headerSize)
    else if data.length ≥ 4 ∧ data.take 4 = Blte.magic then decompressBlte P.cd data
    else .ok data

/-- `dropOpen`. -/
def dropOpenC (s : CState) : CState := ⟨s.disk, none⟩

/-- `reopen`. -/
def reopenC (s : CState) : CState := ⟨s.disk, s.disk.map fun f => ⟨f.len, f.len⟩⟩

end Cascette.Model.Archive

namespace Cascette.Model.Container
open Cascette

/-- `Container.State` with the chunked data file. -/
structure CState where
  ar : Archive.CState
  ix : Lsm.State
  marked : List Bytes

namespace CState
def init : CState := ⟨Archive.CState.init, Lsm.State.init, []⟩
def abs (s : CState) : State := ⟨s.ar.abs, s.ix, s.marked⟩
end CState

/-- `handleTruncated`. -/
def handleTruncatedC (cfg : Lsm.Cfg) (s : CState) (key : Bytes) : CState :=
  { s with
    marked := if s.marked.contains key then s.marked else key :: s.marked
    ix := (Lsm.step cfg s.ix (.status (key9 key) stDataNonResident)).1 }

/-- `step`, line by line, on the chunked file. -/
def stepC (P : Archive.Params) (cfg : Lsm.Cfg) (s : CState) : Op → CState × Out
  | .write d =>
    match Archive.writeC P s.ar d .none with
    | (ar', .error e) => ({ s with ar := ar' }, .err e)
    | (ar', .ok (id, off, total, key)) =>
      match Lsm.step cfg s.ix (.add (key9 key) id off total) with
      | (ix', .ok) => ({ s with ar := ar', ix := Lsm.saveAll ix' }, .ok)
      | (ix', _) => ({ s with ar := ar', ix := ix' }, .indexErr)
  | .read key buf =>
    match Lsm.lookup s.ix (key9 key) with
    | none => (s, .notFound)
    | some e =>
      match Archive.readContentC P s.ar e.id e.off e.size with
      | .ok d => (s, .bytes (d.take buf))
      | .error .bounds => (handleTruncatedC cfg s key, .truncated)
      | .error e => (s, .err e)
  | .query key => (s, .bool (Lsm.lookup s.ix (key9 key)).isSome)
  | .remove key =>
    match Lsm.step cfg s.ix (.remove (key9 key)) with
    | (ix', .bool true) => ({ s with ix := Lsm.saveAll ix' }, .ok)
    | (ix', _) => ({ s with ix := ix' }, .ok)
  | .flush b => ({ s with ix := Lsm.flushBucket s.ix b }, .ok)
  | .flushAll => ({ s with ix := (Lsm.step cfg s.ix .flushAll).1 }, .ok)
  | .reopen => ({ s with ar := Archive.reopenC s.ar, ix := Lsm.reload s.ix }, .ok)

/-- `IState` with the chunked data file. -/
structure CIState where
  ar : Archive.CState
  ix : Lsm.State
  cache : List (Bytes × Bytes)

namespace CIState
def init : CIState := ⟨Archive.CState.init, Lsm.State.init, []⟩
def abs (s : CIState) : IState := ⟨s.ar.abs, s.ix, s.cache⟩
end CIState

/-- `istep` (= `istepWith true`), line by line, on the chunked file. -/
def istepC (P : Archive.Params) (cfg : Lsm.Cfg) (s : CIState) : IOp → CIState × IOut
  | .write d compress =>
    let mode : Blte.Mode := if compress then .none else .none
    match Archive.writeC P s.ar d mode with
    | (ar', .error e) => ({ s with ar := ar' }, .err e)
    | (ar', .ok (id, off, total, key)) =>
      match Lsm.step cfg s.ix (.add (key9 key) id off total) with
      | (ix', .ok) => ({ s with ar := ar', ix := Lsm.saveAll ix' }, .key (P.H d))
      | (ix', _) => ({ s with ar := ar', ix := ix' }, .indexErr)
  | .read key =>
    match s.cache.find? (fun p => p.1 == key) with
    | some p => (s, .bytes p.2)
    | none =>
      match Lsm.lookup s.ix (key9 key) with
      | none => (s, .notFound)
      | some e =>
        match Archive.readContentC P s.ar e.id e.off e.size with
        | .ok d => ({ s with cache := (key, d) :: s.cache }, .bytes d)
        | .error e => (s, .err e)
  | .has key => (s, .bool (Lsm.lookup s.ix (key9 key)).isSome)
  | .reopen => (⟨Archive.reopenC s.ar, Lsm.reload s.ix, []⟩, .ok)
  | .openOnly => (⟨Archive.dropOpenC s.ar, { s.ix with mem := fun _ => none }, []⟩, .ok)
  | .init => ({ s with ar := Archive.reopenC s.ar, ix := loadAll s.ix }, .ok)

/-- `stepC`, then the index tables stored (as `stepT`). -/
def stepTC (P : Archive.Params) (cfg : Lsm.Cfg) (s : CState) (op : Op) : CState × Out :=
  let r := stepC P cfg s op
  match op with
  | .query _ => r
  | .reopen => ({ r.1 with ix := tabDisk (tabMem r.1.ix) }, r.2)
  | _ => ({ r.1 with ix := tabMem r.1.ix }, r.2)

/-- `istepC`, then the index tables stored (as `istepT`). -/
def istepTC (P : Archive.Params) (cfg : Lsm.Cfg) (s : CIState) (op : IOp) : CIState × IOut :=
  let r := istepC P cfg s op
  match op with
  | .read _ => r
  | .has _ => r
  | .write _ _ => ({ r.1 with ix := tabMem r.1.ix }, r.2)
  | _ => ({ r.1 with ix := tabDisk (tabMem r.1.ix) }, r.2)

/-- what the driver computes on a `dyn` case: `stepTC` along the request lines. -/
def runTC (P : Archive.Params) (cfg : Lsm.Cfg) : CState → List Op → CState × List Out
  | s, [] => (s, [])
  | s, op :: ops =>
    let r := stepTC P cfg s op
    let rest := runTC P cfg r.1 ops
    (rest.1, r.2 :: rest.2)

/-- what the driver computes on an `inst` case: `istepTC` along the request lines. -/
def irunTC (P : Archive.Params) (cfg : Lsm.Cfg) : CIState → List IOp → CIState × List IOut
  | s, [] => (s, [])
  | s, op :: ops =>
    let r := istepTC P cfg s op
    let rest := irunTC P cfg r.1 ops
    (rest.1, r.2 :: rest.2)

end Cascette.Model.Container
