/-
Model/Jenkins — executable model of `crates/cascette-crypto/src/jenkins.rs` as written:
`hashlittle`, `hashlittle2_impl` (the 12-case tail `match` is written out byte by byte, as in the
Rust; the Rust has the same twelve cases twice — both copies are tied to `tailAdd` by the
correspondence run), the saturating length conversion, and `Jenkins96::hash`.
-/
import Cascette.Base.Bytes
import Cascette.Spec.Lookup3
namespace Cascette.Model.Jenkins
open Cascette
open Cascette.Spec.Lookup3 (mix final)

/-- `u32::try_from(len).unwrap_or(u32::MAX)` -/
def len32 (n : Nat) : W32 := if n < 2 ^ 32 then BitVec.ofNat 32 n else 0xFFFFFFFF

/-- the `while k.len() > 12` loop; returns the registers and the unconsumed tail. -/
def blocks (a b c : W32) : Bytes → (W32 × W32 × W32) × Bytes
  | k0 :: k1 :: k2 :: k3 :: k4 :: k5 :: k6 :: k7 :: k8 :: k9 :: k10 :: k11 :: k12 :: rest =>
      let a := a + le32 k0 k1 k2 k3
      let b := b + le32 k4 k5 k6 k7
      let c := c + le32 k8 k9 k10 k11
      let (a, b, c) := mix a b c
      blocks a b c (k12 :: rest)
  | k => ((a, b, c), k)

/-- the `match k.len()` tail for 1..12 remaining bytes; `none` for 0 (early return) and for the
`unreachable!` arm. -/
def tailAdd (a b c : W32) : Bytes → Option (W32 × W32 × W32)
  | [k0, k1, k2, k3, k4, k5, k6, k7, k8, k9, k10, k11] =>
      let c := c + ((k11.setWidth 32) <<< 24)
      let c := c + ((k10.setWidth 32) <<< 16)
      let c := c + ((k9.setWidth 32) <<< 8)
      let c := c + ((k8.setWidth 32))
      let b := b + ((k7.setWidth 32) <<< 24)
      let b := b + ((k6.setWidth 32) <<< 16)
      let b := b + ((k5.setWidth 32) <<< 8)
      let b := b + ((k4.setWidth 32))
      let a := a + ((k3.setWidth 32) <<< 24)
      let a := a + ((k2.setWidth 32) <<< 16)
      let a := a + ((k1.setWidth 32) <<< 8)
      let a := a + ((k0.setWidth 32))
      some (a, b, c)
  | [k0, k1, k2, k3, k4, k5, k6, k7, k8, k9, k10] =>
      let c := c + ((k10.setWidth 32) <<< 16)
      let c := c + ((k9.setWidth 32) <<< 8)
      let c := c + ((k8.setWidth 32))
      let b := b + ((k7.setWidth 32) <<< 24)
      let b := b + ((k6.setWidth 32) <<< 16)
      let b := b + ((k5.setWidth 32) <<< 8)
      let b := b + ((k4.setWidth 32))
      let a := a + ((k3.setWidth 32) <<< 24)
      let a := a + ((k2.setWidth 32) <<< 16)
      let a := a + ((k1.setWidth 32) <<< 8)
      let a := a + ((k0.setWidth 32))
      some (a, b, c)
  | [k0, k1, k2, k3, k4, k5, k6, k7, k8, k9] =>
      let c := c + ((k9.setWidth 32) <<< 8)
      let c := c + ((k8.setWidth 32))
      let b := b + ((k7.setWidth 32) <<< 24)
      let b := b + ((k6.setWidth 32) <<< 16)
      let b := b + ((k5.setWidth 32) <<< 8)
      let b := b + ((k4.setWidth 32))
      let a := a + ((k3.setWidth 32) <<< 24)
      let a := a + ((k2.setWidth 32) <<< 16)
      let a := a + ((k1.setWidth 32) <<< 8)
      let a := a + ((k0.setWidth 32))
      some (a, b, c)
  | [k0, k1, k2, k3, k4, k5, k6, k7, k8] =>
      let c := c + ((k8.setWidth 32))
      let b := b + ((k7.setWidth 32) <<< 24)
      let b := b + ((k6.setWidth 32) <<< 16)
      let b := b + ((k5.setWidth 32) <<< 8)
      let b := b + ((k4.setWidth 32))
      let a := a + ((k3.setWidth 32) <<< 24)
      let a := a + ((k2.setWidth 32) <<< 16)
      let a := a + ((k1.setWidth 32) <<< 8)
      let a := a + ((k0.setWidth 32))
      some (a, b, c)
  | [k0, k1, k2, k3, k4, k5, k6, k7] =>
      let b := b + ((k7.setWidth 32) <<< 24)
      let b := b + ((k6.setWidth 32) <<< 16)
      let b := b + ((k5.setWidth 32) <<< 8)
      let b := b + ((k4.setWidth 32))
      let a := a + ((k3.setWidth 32) <<< 24)
      let a := a + ((k2.setWidth 32) <<< 16)
      let a := a + ((k1.setWidth 32) <<< 8)
      let a := a + ((k0.setWidth 32))
      some (a, b, c)
  | [k0, k1, k2, k3, k4, k5, k6] =>
      let b := b + ((k6.setWidth 32) <<< 16)
      let b := b + ((k5.setWidth 32) <<< 8)
      let b := b + ((k4.setWidth 32))
      let a := a + ((k3.setWidth 32) <<< 24)
      let a := a + ((k2.setWidth 32) <<< 16)
      let a := a + ((k1.setWidth 32) <<< 8)
      let a := a + ((k0.setWidth 32))
      some (a, b, c)
  | [k0, k1, k2, k3, k4, k5] =>
      let b := b + ((k5.setWidth 32) <<< 8)
      let b := b + ((k4.setWidth 32))
      let a := a + ((k3.setWidth 32) <<< 24)
      let a := a + ((k2.setWidth 32) <<< 16)
      let a := a + ((k1.setWidth 32) <<< 8)
      let a := a + ((k0.setWidth 32))
      some (a, b, c)
  | [k0, k1, k2, k3, k4] =>
      let b := b + ((k4.setWidth 32))
      let a := a + ((k3.setWidth 32) <<< 24)
      let a := a + ((k2.setWidth 32) <<< 16)
      let a := a + ((k1.setWidth 32) <<< 8)
      let a := a + ((k0.setWidth 32))
      some (a, b, c)
  | [k0, k1, k2, k3] =>
      let a := a + ((k3.setWidth 32) <<< 24)
      let a := a + ((k2.setWidth 32) <<< 16)
      let a := a + ((k1.setWidth 32) <<< 8)
      let a := a + ((k0.setWidth 32))
      some (a, b, c)
  | [k0, k1, k2] =>
      let a := a + ((k2.setWidth 32) <<< 16)
      let a := a + ((k1.setWidth 32) <<< 8)
      let a := a + ((k0.setWidth 32))
      some (a, b, c)
  | [k0, k1] =>
      let a := a + ((k1.setWidth 32) <<< 8)
      let a := a + ((k0.setWidth 32))
      some (a, b, c)
  | [k0] =>
      let a := a + ((k0.setWidth 32))
      some (a, b, c)
  | _ => none

/-- `hashlittle2_impl(key, &mut pc, &mut pb)`; returns the new `(pc, pb)`. -/
def hashlittle2 (key : Bytes) (pc pb : W32) : W32 × W32 :=
  let a := (0xdeadbeef : W32) + len32 key.length + pc
  let b := a
  let c := a + pb
  if key.isEmpty then (c, b) else
  let ((a, b, c), k) := blocks a b c key
  match tailAdd a b c k with
  | some (a, b, c) =>
      let (_, b, c) := final a b c
      (c, b)
  | none => (c, b)   -- only reachable with an empty tail, which `blocks` never leaves for non-empty input

/-- `hashlittle(data, initval)`. -/
def hashlittle (data : Bytes) (initval : W32) : W32 :=
  let a := (0xdeadbeef : W32) + len32 data.length + initval
  let b := a
  let c := a
  if data.isEmpty then c else
  let ((a, b, c), k) := blocks a b c data
  match tailAdd a b c k with
  | some (a, b, c) => (final a b c).2.2
  | none => c

/-- `Jenkins96::hash`: `(hash64, hash32)` with `pc` high, `pb` low. -/
def jenkins96 (data : Bytes) : BitVec 64 × W32 :=
  let (pc, pb) := hashlittle2 data 0 0
  (((pc.setWidth 64) <<< 32) ||| pb.setWidth 64, pc)

end Cascette.Model.Jenkins
