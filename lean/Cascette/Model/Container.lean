/-
Model/Container — executable models of
* `container/dynamic.rs`: `DynamicContainer::{write, read, remove, query, flush_bucket,
  flush_all_updates, handle_truncated_read}` and drop + `new` + `open()` (`reopen`),
* `installation.rs`: `Installation::{write_file, read_file_by_encoding_key, has_encoding_key}`
  and drop + `open` (+ `initialize()`); as written after the `fix:` commits that dropped the
  second BLTE decode (`decodeBlteSecond` keeps the pinned function for the counter-witness) and
  that made `write_file` save the index (`istepWith false` keeps the pinned `write_file`).
Both are an `ArchiveManager` (Model/Archive) plus an `IndexManager` (Model/Lsm, C05).

A 16-byte key is a byte list; the index sees its first nine bytes as a big-endian number (`key9`).
The residency container of a `DynamicContainer` is reduced to the list of keys handed to
`mark_span_non_resident` (`marked`, without repetition: the database replaces in place).
The LRU manager (optional, touched on read/write) is not part of any observable here.
-/
import Cascette.Model.Archive
import Cascette.Model.Lsm
namespace Cascette.Model.Container
open Cascette
open Cascette.Spec.IndexMap (Entry)

/-- first nine key bytes as the index key (`truncated_key`). -/
def key9 (k : Bytes) : Nat := Blte.beNat (k.take 9)

/-- `UpdateStatus::DataNonResident as u8` -/
def stDataNonResident : Nat := 7

structure State where
  ar : Archive.State
  ix : Lsm.State
  marked : List Bytes

def State.init : State := ⟨Archive.State.init, Lsm.State.init, []⟩

inductive Op
  /-- `Container::write(_, data)` (the key argument is ignored by the code) -/
  | write (d : Bytes)
  /-- `Container::read(key, _, _, buf)` with `buf.len() = buf` -/
  | read (key : Bytes) (buf : Nat)
  | query (key : Bytes)
  | remove (key : Bytes)
  | flush (b : Nat)
  | flushAll
  /-- drop, `DynamicContainer::new` on the same directory, `open()` -/
  | reopen
deriving Repr

inductive Out
  | ok
  | bytes (b : Bytes)
  | bool (b : Bool)
  | notFound
  | truncated
  | err (e : Archive.Err)
  | indexErr
deriving DecidableEq, Repr

/-- `handle_truncated_read`: residency mark (when configured), KMT status 7 (not saved). -/
def handleTruncated (cfg : Lsm.Cfg) (s : State) (key : Bytes) : State :=
  { s with
    marked := if s.marked.contains key then s.marked else key :: s.marked
    ix := (Lsm.step cfg s.ix (.status (key9 key) stDataNonResident)).1 }

def step (P : Archive.Params) (cfg : Lsm.Cfg) (s : State) : Op → State × Out
  | .write d =>
    match Archive.write P s.ar d .none with
    | (ar', .error e) => ({ s with ar := ar' }, .err e)
    | (ar', .ok (id, off, total, key)) =>
      match Lsm.step cfg s.ix (.add (key9 key) id off total) with
      | (ix', .ok) => ({ s with ar := ar', ix := Lsm.saveAll ix' }, .ok)
      | (ix', _) => ({ s with ar := ar', ix := ix' }, .indexErr)
  | .read key buf =>
    match Lsm.lookup s.ix (key9 key) with
    | none => (s, .notFound)
    | some e =>
      match Archive.readContent P s.ar e.id e.off e.size with
      | .ok d => (s, .bytes (d.take buf))
      | .error .bounds => (handleTruncated cfg s key, .truncated)
      | .error e => (s, .err e)
  | .query key => (s, .bool (Lsm.lookup s.ix (key9 key)).isSome)
  | .remove key =>
    match Lsm.step cfg s.ix (.remove (key9 key)) with
    | (ix', .bool true) => ({ s with ix := Lsm.saveAll ix' }, .ok)
    | (ix', _) => ({ s with ix := ix' }, .ok)
  | .flush b => ({ s with ix := Lsm.flushBucket s.ix b }, .ok)
  | .flushAll => ({ s with ix := (Lsm.step cfg s.ix .flushAll).1 }, .ok)
  | .reopen => ({ s with ar := Archive.reopen s.ar, ix := Lsm.reload s.ix }, .ok)

def run (P : Archive.Params) (cfg : Lsm.Cfg) : State → List Op → State × List Out
  | s, [] => (s, [])
  | s, op :: ops =>
    let r := step P cfg s op
    let rest := run P cfg r.1 ops
    (rest.1, r.2 :: rest.2)

/-! ### Installation -/

structure IState where
  ar : Archive.State
  ix : Lsm.State
  /-- `cache` (`"ekey:" + hex(key)` ↦ content), newest first -/
  cache : List (Bytes × Bytes)

def IState.init : IState := ⟨Archive.State.init, Lsm.State.init, []⟩

inductive IOp
  /-- `write_file(data, compress)`; the installation's `ArchiveManager` is created with
  `CompressionMode::None` as default, so both values of `compress` select mode `None` -/
  | write (d : Bytes) (compress : Bool)
  | read (key : Bytes)
  | has (key : Bytes)
  /-- drop, `Installation::open` on the same directory, `initialize()` -/
  | reopen
  /-- drop, `Installation::open` on the same directory and NO `initialize()`: fresh managers,
  nothing loaded, nothing open (what `Storage::open_installation` hands out) -/
  | openOnly
  /-- `initialize()` on the current instance: `load_all` + `open_all` -/
  | init
deriving Repr

inductive IOut
  | ok
  /-- `write_file` returns the content key `MD5(data)` -/
  | key (k : Bytes)
  | bytes (b : Bytes)
  | bool (b : Bool)
  | notFound
  | err (e : Archive.Err)
  | indexErr
deriving DecidableEq, Repr

/-- `IndexManager::load_all` on a manager that may already hold buckets: every bucket that has a
file is (re)loaded from it (`indices.insert`), the others stay as they are. -/
def loadAll (s : Lsm.State) : Lsm.State :=
  { s with mem := fun b => match s.disk b with
      | some img => some (Lsm.loadB img)
      | none => s.mem b }

/-- `persist = true`: `write_file` as it is now (after `fix:` 947b84f: `save_all` after
`add_entry`, as `DynamicContainer::write`); `false`: the pinned `write_file`, which never saved
the index (kept for the counter-witness). -/
def istepWith (persist : Bool) (P : Archive.Params) (cfg : Lsm.Cfg) (s : IState) :
    IOp → IState × IOut
  | .write d compress =>
    let mode : Blte.Mode := if compress then .none else .none
    match Archive.write P s.ar d mode with
    | (ar', .error e) => ({ s with ar := ar' }, .err e)
    | (ar', .ok (id, off, total, key)) =>
      match Lsm.step cfg s.ix (.add (key9 key) id off total) with
      | (ix', .ok) =>
        ({ s with ar := ar', ix := if persist then Lsm.saveAll ix' else ix' }, .key (P.H d))
      | (ix', _) => ({ s with ar := ar', ix := ix' }, .indexErr)
  | .read key =>
    match s.cache.find? (fun p => p.1 == key) with
    | some p => (s, .bytes p.2)
    | none =>
      match Lsm.lookup s.ix (key9 key) with
      | none => (s, .notFound)
      | some e =>
        match Archive.readContent P s.ar e.id e.off e.size with
        | .ok d => ({ s with cache := (key, d) :: s.cache }, .bytes d)
        | .error e => (s, .err e)
  | .has key => (s, .bool (Lsm.lookup s.ix (key9 key)).isSome)
  | .reopen => (⟨Archive.reopen s.ar, Lsm.reload s.ix, []⟩, .ok)
  | .openOnly => (⟨Archive.dropOpen s.ar, { s.ix with mem := fun _ => none }, []⟩, .ok)
  | .init => ({ s with ar := Archive.reopen s.ar, ix := loadAll s.ix }, .ok)

/-- the installation as the code has it now. -/
def istep (P : Archive.Params) (cfg : Lsm.Cfg) (s : IState) (op : IOp) : IState × IOut :=
  istepWith true P cfg s op

def irunWith (persist : Bool) (P : Archive.Params) (cfg : Lsm.Cfg) :
    IState → List IOp → IState × List IOut
  | s, [] => (s, [])
  | s, op :: ops =>
    let r := istepWith persist P cfg s op
    let rest := irunWith persist P cfg r.1 ops
    (rest.1, r.2 :: rest.2)

def irun (P : Archive.Params) (cfg : Lsm.Cfg) : IState → List IOp → IState × List IOut
  | s, [] => (s, [])
  | s, op :: ops =>
    let r := istep P cfg s op
    let rest := irun P cfg r.1 ops
    (rest.1, r.2 :: rest.2)

/-! ### tabulated steps (what the driver runs)

`Lsm.State` is a pair of FUNCTIONS bucket ↦ content; every `setMem` / `saveAll` / `reload` wraps
the previous function in a new closure, so after a history of n operations an access re-runs a
chain of n closures, and a `reload` (whose new `mem` calls `disk`, whose `saveAll` closures call
the older `mem` and `disk` again) doubles that work with every reopen.  For histories of a few
thousand operations (a bucket's update section filled through the container) the driver therefore
stores the tables after each step.  `tabMem` / `tabDisk` are the identity
(`Props.C04.tabulated_steps_are_the_model`), so the driver still runs exactly `step` / `istep`. -/

/-- the bucket table of the manager evaluated on the 16 bucket numbers and stored -/
def tabMem (s : Lsm.State) : Lsm.State :=
  let m := ((List.range Spec.IndexMap.nBuckets).map s.mem).toArray
  { s with mem := fun b => if h : b < m.size then m[b] else s.mem b }

/-- the same for the directory (evaluates `save_index` of what was last saved) -/
def tabDisk (s : Lsm.State) : Lsm.State :=
  let d := ((List.range Spec.IndexMap.nBuckets).map s.disk).toArray
  { s with disk := fun b => if h : b < d.size then d[b] else s.disk b }

/-- `step`, then store the tables it changed (`disk` only where it is read: at a reopen). -/
def stepT (P : Archive.Params) (cfg : Lsm.Cfg) (s : State) (op : Op) : State × Out :=
  let r := step P cfg s op
  match op with
  | .query _ => r
  | .reopen => ({ r.1 with ix := tabDisk (tabMem r.1.ix) }, r.2)
  | _ => ({ r.1 with ix := tabMem r.1.ix }, r.2)

/-- `istep`, then store the tables it changed. -/
def istepT (P : Archive.Params) (cfg : Lsm.Cfg) (s : IState) (op : IOp) : IState × IOut :=
  let r := istep P cfg s op
  match op with
  | .read _ => r
  | .has _ => r
  | .write _ _ => ({ r.1 with ix := tabMem r.1.ix }, r.2)
  | _ => ({ r.1 with ix := tabDisk (tabMem r.1.ix) }, r.2)

/-- `Installation::decode_blte` of the pinned tree, applied there to what `read_content` had
already decoded (removed by the `fix:` commit; kept for the counter-witness). -/
def decodeBlteSecond (cd : Blte.Codec) (raw : Bytes) : Except Archive.Err Bytes :=
  if raw.length < Archive.headerSize + 4 then .ok raw
  else if (raw.drop Archive.headerSize).take 4 = Blte.magic then
    Archive.decompressBlte cd (raw.drop Archive.headerSize)
  else if raw.take 4 = Blte.magic then Archive.decompressBlte cd raw
  else .ok raw

end Cascette.Model.Container
