/-
Model/TcpRead — `RibbitClient::query_host_raw`'s read loop and `mime_parser::is_v1_mime_response`
(crates/cascette-protocol/src/client/ribbit.rs, src/mime_parser.rs), as written.

The loop appends what each `stream.read` returns to `buffer`; a read of 0 bytes ends it; after a
non-empty read it ends when the buffer *now* ends with "\n\n" and is not detected as V1 MIME; then
it fails with `Parse("Response too large")` when the buffer is longer than 50 MiB. A transport
history is the list of byte strings the successive `read` calls return (`[]` = the peer closed).

Bytes are `Nat` (0..255). `is_v1_mime_response` is modelled for ASCII input (every byte < 128):
the Rust code decodes lossily, cuts the *string* at 512 bytes and uses Unicode lower-casing; on
ASCII that is: first 512 bytes, A–Z lowered, substring tests. Non-ASCII input is outside the
model (and `&s[..512]` can panic there: property C02's ground).
-/
namespace Cascette.Model.TcpRead

/-- ASCII `to_lowercase` of one byte. -/
def lower (b : Nat) : Nat := if 65 ≤ b ∧ b ≤ 90 then b + 32 else b

/-- `needle` occurs in `hay` (Rust `str::contains`). -/
def containsSub (needle : List Nat) : List Nat → Bool
  | [] => needle.isEmpty
  | h :: t => needle.isPrefixOf (h :: t) || containsSub needle t

/-- "content-type:" -/
def mContentType : List Nat := [99,111,110,116,101,110,116,45,116,121,112,101,58]
/-- "multipart/alternative" -/
def mAlternative : List Nat :=
  [109,117,108,116,105,112,97,114,116,47,97,108,116,101,114,110,97,116,105,118,101]
/-- "multipart/mixed" -/
def mMixed : List Nat := [109,117,108,116,105,112,97,114,116,47,109,105,120,101,100]

/-- `is_v1_mime_response` on ASCII input. -/
def isV1Mime (raw : List Nat) : Bool :=
  let w := (raw.take 512).map lower
  containsSub mContentType w && (containsSub mAlternative w || containsSub mMixed w)

/-- `buffer.ends_with(b"\n\n")`. -/
def endsNN (buf : List Nat) : Bool :=
  match buf.reverse with
  | 10 :: 10 :: _ => true
  | _ => false

/-- result of the loop: the accumulated buffer, or the size-limit error. -/
inductive Out where
  | ok (buf : List Nat)
  | tooLarge
  deriving DecidableEq, Repr

/-- The read loop for an arbitrary end-of-response test `stop` and size limit; `buf` is the
buffer so far, the list is what the remaining `read` calls return. Structural recursion on the
history: the Rust loop makes one `read` per element. -/
def readLoopG (stop : List Nat → Bool) (limit : Nat) : List Nat → List (List Nat) → Out
  | buf, [] => .ok buf                      -- nothing more arrives: `Ok(0)`
  | buf, [] :: _ => .ok buf                 -- `Ok(0) => break`
  | buf, (b :: s) :: rest =>
    let buf' := buf ++ (b :: s)
    if stop buf' then .ok buf'
    else if buf'.length > limit then .tooLarge
    else readLoopG stop limit buf' rest

/-- the end-of-response test of the code: ends with two newlines and is not (yet) MIME. -/
def stopV2 (buf : List Nat) : Bool := endsNN buf && !isV1Mime buf

/-- 50 MiB -/
def limitBytes : Nat := 50 * 1024 * 1024

/-- `query_host_raw` after connect/send: the bytes handed to the parser. -/
def readLoop (segs : List (List Nat)) : Out := readLoopG stopV2 limitBytes [] segs

end Cascette.Model.TcpRead
