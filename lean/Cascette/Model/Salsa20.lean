/-
Model/Salsa20 — executable model of `crates/cascette-crypto/src/salsa20.rs` as written:
a 16-slot state updated in place by index, "column round" then "diagonal round" ten times,
feed-forward add, little-endian serialisation into a 64-byte keystream buffer, a 32-bit counter
in slot 8 carrying into slot 9, and a lazily refilled position counter.
-/
import Cascette.Base.Bytes
import Cascette.Spec.Salsa20
namespace Cascette.Model.Salsa20
open Cascette
open Cascette.Spec.Salsa20 (S)

/-- `state[i]` -/
def get (s : S) : Nat → W32
  | 0 => s.x0 | 1 => s.x1 | 2 => s.x2 | 3 => s.x3 | 4 => s.x4 | 5 => s.x5 | 6 => s.x6 | 7 => s.x7
  | 8 => s.x8 | 9 => s.x9 | 10 => s.x10 | 11 => s.x11 | 12 => s.x12 | 13 => s.x13 | 14 => s.x14
  | 15 => s.x15 | _ => 0

/-- `state[i] = v` -/
def set (s : S) (i : Nat) (v : W32) : S :=
  match i with
  | 0 => { s with x0 := v } | 1 => { s with x1 := v } | 2 => { s with x2 := v }
  | 3 => { s with x3 := v } | 4 => { s with x4 := v } | 5 => { s with x5 := v }
  | 6 => { s with x6 := v } | 7 => { s with x7 := v } | 8 => { s with x8 := v }
  | 9 => { s with x9 := v } | 10 => { s with x10 := v } | 11 => { s with x11 := v }
  | 12 => { s with x12 := v } | 13 => { s with x13 := v } | 14 => { s with x14 := v }
  | 15 => { s with x15 := v } | _ => s

/-- `Salsa20Cipher::quarter_round(state, a, b, c, d)` -/
def quarterRound (s : S) (a b c d : Nat) : S :=
  let s := set s b (get s b ^^^ (get s a + get s d).rotateLeft 7)
  let s := set s c (get s c ^^^ (get s b + get s a).rotateLeft 9)
  let s := set s d (get s d ^^^ (get s c + get s b).rotateLeft 13)
  let s := set s a (get s a ^^^ (get s d + get s c).rotateLeft 18)
  s

/-- body of the `for _ in 0..10` loop in `generate_keystream`. -/
def roundPair (w : S) : S :=
  let w := quarterRound w 0 4 8 12
  let w := quarterRound w 5 9 13 1
  let w := quarterRound w 10 14 2 6
  let w := quarterRound w 15 3 7 11
  let w := quarterRound w 0 1 2 3
  let w := quarterRound w 5 6 7 4
  let w := quarterRound w 10 11 8 9
  let w := quarterRound w 15 12 13 14
  w

def rounds : Nat → S → S
  | 0, w => w
  | n + 1, w => rounds n (roundPair w)

structure Cipher where
  state : S
  keystream : Bytes
  pos : Nat

/-- `generate_keystream` -/
def generate (c : Cipher) : Cipher :=
  let working := rounds 10 c.state
  let working := Spec.Salsa20.add working c.state
  let ks := Spec.Salsa20.serialize working
  let s8 := c.state.x8 + 1
  let s9 := if s8 = 0 then c.state.x9 + 1 else c.state.x9
  let st := { c.state with x8 := s8, x9 := s9 }
  { state := st, keystream := ks, pos := 0 }

/-- `Salsa20Cipher::new`; `none` is `Err(InvalidIvSize)`. The key is a `&[u8; 16]` in Rust, so a
wrong key length is a type error there; here it is `none` as well. -/
def new (key iv : Bytes) (blockIndex : Nat) : Option Cipher :=
  match key with
  | [a0,a1,a2,a3,b0,b1,b2,b3,c0,c1,c2,c3,d0,d1,d2,d3] =>
    let ext : Option (List Byte) :=
      match iv with
      | [a,b,c,d] => some [a,b,c,d,0,0,0,0]
      | [a,b,c,d,e,f,g,h] => some [a,b,c,d,e,f,g,h]
      | _ => none
    match ext with
    | some [e0,e1,e2,e3,e4,e5,e6,e7] =>
      let bi : W32 := BitVec.ofNat 32 blockIndex   -- `block_index as u32`
      let bb := toLe32 bi
      match bb with
      | [q0,q1,q2,q3] =>
        let k1 := le32 a0 a1 a2 a3
        let k2 := le32 b0 b1 b2 b3
        let k3 := le32 c0 c1 c2 c3
        let k4 := le32 d0 d1 d2 d3
        let st : S :=
          ⟨0x61707865, k1, k2, k3, k4, 0x3120646e,
           le32 (e0 ^^^ q0) (e1 ^^^ q1) (e2 ^^^ q2) (e3 ^^^ q3), le32 e4 e5 e6 e7, 0, 0,
           0x79622d36, k1, k2, k3, k4, 0x6b206574⟩
        some (generate { state := st, keystream := List.replicate 64 0, pos := 64 })
      | _ => none
    | _ => none
  | _ => none

/-- one iteration of the loop in `apply_keystream`. -/
def stepByte (c : Cipher) (b : Byte) : Cipher × Byte :=
  let c := if c.pos ≥ 64 then generate c else c
  ({ c with pos := c.pos + 1 }, b ^^^ c.keystream.getD c.pos 0)

/-- `apply_keystream` (returns the new cipher state and the transformed data). -/
def apply (c : Cipher) : Bytes → Cipher × Bytes
  | [] => (c, [])
  | b :: bs =>
    let (c1, o) := stepByte c b
    let (c2, os) := apply c1 bs
    (c2, o :: os)

/-- `encrypt_salsa20` = `decrypt_salsa20`. -/
def crypt (key iv : Bytes) (blockIndex : Nat) (msg : Bytes) : Option Bytes :=
  (new key iv blockIndex).map fun c => (apply c msg).2

end Cascette.Model.Salsa20
