/-
Model/ParseBodies — third batch for property C02: parser parts that are SELECTED by a type / version
byte or only run behind an accepted load, modelled completely (result class ok | err | panic), so
that the correspondence run predicts them exactly when the harness reaches them directly.

  PIdx    patch index AS WRITTEN (patch_index/{entry,parser,header}.rs): `PatchIndexEntry::parse`
          (the key-size / length guard of fix c6c1747, then every source slice `data[pos..pos+n]` and
          every destination slice `key[..ks]` of a 16-byte array as an explicit panic branch),
          `parse_block2`, `parse_block8` (version byte, data offset, `&data[pos..]`), the descriptor
          walk of `PatchIndexHeader::parse` with the total-size validation, and `parse_patch_index`
          (data_size check, `&data[offset..offset+size]`, block 2 always, block 8 only while no block
          2 was seen, every other type skipped). `keyGuard = false` is the same code with the
          `key_size > 16` clause of the entry parser left out (for the counter-witness).
  LruOps  the list operations of `LruManager` behind an accepted `load_from_disk`: C17's pointer-level
          model (Model/LruPtr: touch / remove / evict_tail / evict_to_target / for_each_entry on the
          flat table) started from the loaded table (`rebuild` of key map and free list).
  Zbs     structured ZBSDIFF apply on the inflated blocks: the control-block codec is C16's
          (Model/Bspatch.parseCtl); the entry loop is restated here with the old-file position as the
          code computes it since fix 7c888f9 (`saturating_add` for the diff advance as for the seeks),
          one function for `apply_patch_memory`, `ZbsDiff::apply` and `ZbsdiffPatcher` (byte-wise and
          chunk-wise reading give the same bytes: positions beyond the old file read as zero).
-/
import Cascette.Base.Bytes
import Cascette.Model.ParseGuards
import Cascette.Model.ParseFronts
import Cascette.Model.LruPtr
import Cascette.Model.Bspatch
namespace Cascette.Model.ParseBodies
open Cascette
open Cascette.Model.Integrity (slice leNat byteAt)
open Cascette.Model.ParseGuards (u16le)

/-- result class of a complete parser model. -/
inductive Res where
  | ok | err | panic
deriving DecidableEq, Repr

/-! ## Patch index -/
namespace PIdx

/-- `entry_size(key_size)`. -/
def esize (ks : Nat) : Nat := 3 * ks + 13

/-- the (offset, length) source reads of `PatchIndexEntry::parse` in source order: source key, source
size, target key, target size, encoded size, suffix offset, patch key. The three key reads are also
the lengths `[..ks]` taken of the 16-byte destination arrays. -/
def entrySlices (ks : Nat) : List (Nat × Nat) :=
  [(0, ks), (ks, 4), (ks + 4, ks), (2 * ks + 4, 4), (2 * ks + 8, 4), (2 * ks + 12, 1), (2 * ks + 13, ks)]

/-- `PatchIndexEntry::parse(data, key_size)` on `len` input bytes (the result class depends on the
length only): `None` (→ `err`) from the guard `key_size > 16 || data.len() < size`; behind it the
destination slices `key[..ks]` (`[u8; 16]`) and the source slices, each a panic when out of range. -/
def entryG (keyGuard : Bool) (ks len : Nat) : Res :=
  if (keyGuard && decide (16 < ks)) || decide (len < esize ks) then .err
  else if 16 < ks then .panic
  else if (entrySlices ks).any (fun s => decide (len < s.1 + s.2)) then .panic
  else .ok

/-- the entry loop of `parse_block2` / `parse_block8`: `n` more entries from `pos` in a block of `len`
bytes: `&data[pos..]` (a panic when `pos > len`), the entry parser (`None` → `EntryOverflow`). -/
def entries (kg : Bool) (ks len : Nat) : Nat → Nat → Res
  | 0, _ => .ok
  | n + 1, pos =>
    if len < pos then .panic
    else
      match entryG kg ks (len - pos) with
      | .ok => entries kg ks len n (pos + esize ks)
      | r => r

/-- `parse_block2`: result and the `Vec::with_capacity(entry_count)` request (bytes). -/
def block2G (kg : Bool) (szEntry : Nat) (d : Bytes) : Res × List Nat :=
  if d.length < 5 then (.err, [])
  else
    let cnt := leNat (slice d 0 4)
    let ks := byteAt d 4
    if d.length < 5 + cnt * esize ks then (.err, [])
    else (entries kg ks d.length cnt 5, [cnt * szEntry])

/-- `parse_block8`: 14-byte header (version 3, key size, data offset, entry count), then the entries
from the data offset. -/
def block8G (kg : Bool) (szEntry : Nat) (d : Bytes) : Res × List Nat :=
  if d.length < 14 then (.err, [])
  else if byteAt d 0 ≠ 3 then (.err, [])
  else
    let ks := byteAt d 1
    let off := u16le d 2
    let cnt := leNat (slice d 4 4)
    if d.length < off + cnt * esize ks then (.err, [])
    else (entries kg ks d.length cnt off, [cnt * szEntry])

/-- `PatchIndexHeader::parse`, the extra-header walk: position of the block-count word
(`none` = TruncatedHeader). -/
def countPos (b : Bytes) : Option Nat :=
  let extraLen := u16le b 12
  if extraLen = 0 then some 14
  else if b.length ≤ 14 then none
  else
    let ks := byteAt b 14
    if b.length < 15 + min ks 16 then none
    else
      let pos := 15 + ks
      if ks + 1 < extraLen then
        let remaining := extraLen - (ks + 1)
        if b.length < pos + remaining then none else some (pos + remaining)
      else some pos

/-- `n` block descriptors (type, size) from `pos`. -/
def descs (b : Bytes) : Nat → Nat → List (Nat × Nat)
  | 0, _ => []
  | n + 1, pos => (leNat (slice b pos 4), leNat (slice b (pos + 4) 4)) :: descs b n (pos + 8)

def total (bl : List (Nat × Nat)) : Nat := (bl.map (·.2)).sum

/-- `PatchIndexHeader::parse`: (header_size, data_size, descriptors); the last guard is the
"Validate total size" check (`u64` arithmetic: `header_size + Σ block_size`). -/
def header (b : Bytes) : Option (Nat × Nat × List (Nat × Nat)) :=
  if b.length < 14 then none
  else
    let hs := leNat (slice b 0 4)
    let version := leNat (slice b 4 4)
    let ds := leNat (slice b 8 4)
    if version ≠ 1 then none
    else if b.length < hs then none
    else
      match countPos b with
      | none => none
      | some pos =>
        if b.length < pos + 4 then none
        else
          let bc := leNat (slice b pos 4)
          if b.length - (pos + 4) < bc * 8 then none
          else
            let bl := descs b bc (pos + 4)
            if b.length < hs + total bl then none else some (hs, ds, bl)

/-- the block loop of `parse_patch_index` from offset `off` (= `block_offset(i)`): the block slice
`&data[offset..offset + size]`, type 2 → `parse_block2` (always), type 8 → `parse_block8` unless a
type-2 block came before, anything else skipped; `?` ends the loop at the first error. -/
def blocks (kg : Bool) (szEntry : Nat) (b : Bytes) : List (Nat × Nat) → Nat → Bool → Res × List Nat
  | [], _, _ => (.ok, [])
  | (ty, size) :: rest, off, found2 =>
    if b.length < off + size then (.panic, [])
    else if ty = 2 then
      match block2G kg szEntry (slice b off size) with
      | (.ok, a) => let r := blocks kg szEntry b rest (off + size) true; (r.1, a ++ r.2)
      | r => r
    else if ty = 8 ∧ found2 = false then
      match block8G kg szEntry (slice b off size) with
      | (.ok, a) => let r := blocks kg szEntry b rest (off + size) found2; (r.1, a ++ r.2)
      | r => r
    else blocks kg szEntry b rest (off + size) found2

/-- `parse_patch_index` (= `<PatchIndex as CascFormat>::parse`). -/
def parseG (kg : Bool) (szEntry : Nat) (b : Bytes) : Res × List Nat :=
  match header b with
  | none => (.err, [])
  | some (hs, ds, bl) => if ds ≠ b.length then (.err, []) else blocks kg szEntry b bl hs false

/-- the code as written. -/
def parse (szEntry : Nat) (b : Bytes) : Res × List Nat := parseG true szEntry b
def block2 (szEntry : Nat) (d : Bytes) : Res × List Nat := block2G true szEntry d
def block8 (szEntry : Nat) (d : Bytes) : Res × List Nat := block8G true szEntry d
/-- the harness' `pentry` input: first byte = key size, the rest = the entry parser's input. -/
def entryBytes (d : Bytes) : Res :=
  match d with
  | [] => .err
  | ks :: rest => entryG true ks.toNat rest.length

end PIdx

/-! ## LRU list operations behind an accepted load -/
namespace LruOps
open Cascette.Model.LruPtr

/-- the manager state `load_from_disk` leaves behind: header and table from the file, key map and
free list rebuilt from `is_active` (generation / capacity are not used by the list operations). -/
def ptrOf (h : Header) (es : List Entry) : Ptr :=
  let r := rebuild es 0 [] []
  { header := h, entries := es, keyMap := r.1, freeList := r.2, gen := 7, prev := 0, cap := 4, files := [] }

/-- the distinct keyed entries in slot order, at most 8 (the keys the harness scripts use). -/
def tableKeys : List Entry → List Key → List Key
  | [], acc => acc.reverse
  | e :: es, acc =>
    if e.isActive && !acc.contains e.ekey && decide (acc.length < 8) then tableKeys es (e.ekey :: acc)
    else tableKeys es acc

/-- one scripted operation. -/
inductive Op where
  | touch (k : Key) | remove (k : Key) | evictTail | evictAll
deriving Repr

/-- result number of an operation (bool as 0/1, number of evicted entries) and the new state;
`none` = an index panic or a loop that does not end. -/
def apply (s : Ptr) : Op → Option (Ptr × Nat)
  | .touch k => (touch s k).map (fun r => (r.1, if r.2 then 1 else 0))
  | .remove k => (remove s k).map (fun r => (r.1, if r.2 then 1 else 0))
  | .evictTail => (evictTail s).map (fun r => (r.1, if r.2.isSome then 1 else 0))
  | .evictAll => (evictToTarget s (2 ^ 64 - 1) 1).map (fun r => (r.1, r.2.1))

def newKey : Key := List.replicate 9 0xEE

/-- the four scripts of the harness (`lrutouch`, `lruremove`, `lruevict`, anything else = `lrumix`). -/
def script (name : String) (keys : List Key) : List Op :=
  if name == "lrutouch" then keys.map .touch ++ [.touch newKey]
  else if name == "lruremove" then keys.map .remove ++ [.touch newKey]
  else if name == "lruevict" then
    [.evictTail] ++ (match keys with | k :: _ => [.touch k] | [] => []) ++ [.evictAll, .touch newKey]
  else
    (keys.zipIdx.map (fun (k, i) => if i % 2 = 0 then Op.touch k else Op.remove k)) ++ keys.reverse.map .touch

/-- run a script: after the load and after every operation a complete `for_each_entry` walk;
`(result, keys reported)` per step, `none` as soon as an operation or a walk panics / does not end. -/
def runScript (s : Ptr) : List Op → Option (List (Nat × List Key))
  | [] => some []
  | op :: ops =>
    match apply s op with
    | none => none
    | some (s1, r) =>
      match iter s1 with
      | none => none
      | some w =>
        match runScript s1 ops with
        | none => none
        | some rest => some ((r, w) :: rest)

end LruOps

/-! ## ZBSDIFF apply with adversarial control entries -/
namespace Zbs
open Cascette.Spec.Bspatch (Ctl padTake addBytes usizeMax seekPos)

/-- the old-file position behind a diff window of `n` bytes: `saturating_add` (fix 7c888f9).
`sat = false` is the `+=` as written before: a value above `usize::MAX` stands for the overflow
(panic with overflow checks, wrap to 0 without). -/
def adv (sat : Bool) (p n : Nat) : Nat := if sat then min (p + n) usizeMax else p + n

/-- every old-file position the entry loop computes: behind each diff window, behind each seek. -/
def positions (sat : Bool) : List Ctl → Nat → List Nat
  | [], _ => []
  | c :: cs, p =>
    let q := adv sat p c.diff
    let r := seekPos q c.seek
    q :: r :: positions sat cs r

/-- the entry loop of `apply_patch_with_data` / `ZbsdiffPatcher::apply_patch` from position `p` with
the unread diff / extra bytes: `none` = a block ran out (`Err`). A diff window reads the old file
from `p`, zero beyond its end — also when `p` is far beyond it. -/
def applyFrom (old : Bytes) : List Ctl → Nat → Bytes → Bytes → Option Bytes
  | [], _, _, _ => some []
  | c :: cs, p, d, e =>
    if d.length < c.diff ∨ e.length < c.extra then none
    else
      match applyFrom old cs (seekPos (adv true p c.diff) c.seek) (d.drop c.diff) (e.drop c.extra) with
      | none => none
      | some rest => some (addBytes (padTake c.diff (old.drop p)) (d.take c.diff) ++ (e.take c.extra ++ rest))

/-- a structurally valid patch (header with `outSize`, inflated control / diff / extra blocks) applied
to `old`: header validation, control-block parse (`ControlEntry::validate` per record, not empty),
the entry loop, the final length check. `none` = `Err`. -/
def applyBytes (old ctlBytes diff extra : Bytes) (outSize : Nat) : Option Bytes :=
  if outSize > Cascette.Model.Bspatch.maxSize then none
  else
    match Cascette.Model.Bspatch.parseCtl ctlBytes with
    | .error _ => none
    | .ok ctl =>
      match applyFrom old ctl 0 diff extra with
      | none => none
      | some out => if out.length = outSize then some out else none

end Zbs

end Cascette.Model.ParseBodies
