/-
Model/Lsm — executable model of `cascette-client-storage/src/index/{mod.rs,update.rs}`:
the local key index (`IndexManager`) as 16 LSM buckets, each a sorted run (`IndexFile.entries`)
plus a bounded append-only page log (`UpdateSection`), with the on-disk images written by
`save_index` and read back by `load_index`.

Conventions
* A 9-byte truncated key `[u8; 9]` is the natural number with those bytes as big-endian digits:
  Rust's lexicographic array order on equal-length arrays is the numeric order of that number.
* `archive_id : u16`, `archive_offset : u32`, `size : u32`, `status : u8` are naturals; in memory
  the code keeps them unmasked, the 10+30-bit packing happens only when an entry is serialised
  (`packSorted?` / `packUpd` below, bytes in `packLoc`/`unpackLoc`).
* `Cfg.capPages` = `MIN_UPDATE_SECTION_SIZE / UPDATE_PAGE_SIZE` (60), `Cfg.perPage` =
  `ENTRIES_PER_PAGE` (21): printed by the harness from the compiled crate, parameters here.
* The model is of the code AFTER the `fix:` commit that makes `remove_entry`, `update_entry`
  and `update_entry_status` flush-and-retry on a full update section like `add_entry`
  (`appendWithFlush`).  The pre-fix behaviour is kept as `removePinned` for the counter-witness.
* File I/O is assumed to succeed (C06 covers crashes); the disk is a map bucket ↦ image.
-/
import Cascette.Spec.IndexMap
namespace Cascette.Model.Lsm
open Cascette.Spec.IndexMap (Entry Op Out keyByte bucketOf stDelete nBuckets)

/-- `UpdateEntry` (update section); `status` 0 normal, 3 delete tombstone, 6/7 non-resident. -/
structure Upd where
  key : Nat
  id : Nat
  off : Nat
  size : Nat
  status : Nat
deriving DecidableEq, Repr, Inhabited

/-- `UpdateEntry::to_index_entry`. -/
def Upd.toEntry (u : Upd) : Entry := ⟨u.key, u.id, u.off, u.size⟩

structure Cfg where
  capPages : Nat
  perPage : Nat
deriving Repr

/-- `IndexFile`: sorted L1 run + L0 pages (oldest page first, oldest entry first in a page). -/
structure Bucket where
  sorted : List Entry
  pages : List (List Upd)
deriving Repr, Inhabited

def Bucket.empty : Bucket := ⟨[], []⟩

/-- `UpdateSection::all_entries` (oldest first). -/
def Bucket.log (b : Bucket) : List Upd := b.pages.flatten

/-! ### update section -/

/-- `UpdateSection::append`: push to the last page while it has room (`len < ENTRIES_PER_PAGE`),
otherwise open a new page unless `pages.len() >= capacity_pages`. -/
def appendPages (cfg : Cfg) (pages : List (List Upd)) (u : Upd) : List (List Upd) × Bool :=
  match pages.getLast? with
  | some last =>
    if last.length < cfg.perPage then (pages.dropLast ++ [last ++ [u]], true)
    else if pages.length ≥ cfg.capPages then (pages, false)
    else (pages ++ [[u]], true)
  | none =>
    if pages.length ≥ cfg.capPages then (pages, false) else (pages ++ [[u]], true)

/-- inner loop of `UpdateSection::search`: entries of one page, newest first. -/
def searchPage (k : Nat) (p : List Upd) : Option Upd := p.reverse.find? (fun u => u.key == k)

/-- outer loop of `UpdateSection::search` over the pages, already reversed (newest first). -/
def searchPages (k : Nat) : List (List Upd) → Option Upd
  | [] => none
  | p :: ps =>
    match searchPage k p with
    | some u => some u
    | none => searchPages k ps

/-- `UpdateSection::search`. -/
def searchLog (pages : List (List Upd)) (k : Nat) : Option Upd := searchPages k pages.reverse

/-! ### sorted section -/

/-- `entries.binary_search_by_key(k, |e| e.key).ok().map(|i| entries[i])`: a halving search.
(`std`'s loop differs in how it keeps the bounds; on a run sorted by distinct keys every
halving search returns the same entry — `Proofs.Lsm.bsearch_eq_find`.) -/
def bsearch (k : Nat) (l : List Entry) : Option Entry :=
  match hd : l.drop (l.length / 2) with
  | [] => none
  | e :: rest =>
    if e.key = k then some e
    else if e.key < k then bsearch k rest
    else bsearch k (l.take (l.length / 2))
termination_by l.length
decreasing_by
  · have h1 : (l.drop (l.length / 2)).length = (e :: rest).length := by rw [hd]
    simp only [List.length_drop, List.length_cons] at h1
    omega
  · have h1 : (l.drop (l.length / 2)).length = (e :: rest).length := by rw [hd]
    simp only [List.length_drop, List.length_cons] at h1
    simp only [List.length_take]
    omega

/-- `IndexManager::search_both_sections`. -/
def searchBoth (b : Bucket) (k : Nat) : Option Entry :=
  match searchLog b.pages k with
  | some u => if u.status = stDelete then none else some u.toEntry
  | none => bsearch k b.sorted

/-! ### BTreeMap as a key-sorted association list -/

/-- `BTreeMap::insert` on a list kept sorted by key (replace on equal key). -/
def insertKV {α : Type} (k : Nat) (v : α) : List (Nat × α) → List (Nat × α)
  | [] => [(k, v)]
  | (k', v') :: rest =>
    if k < k' then (k, v) :: (k', v') :: rest
    else if k = k' then (k, v) :: rest
    else (k', v') :: insertKV k v rest

/-- `for entry in all_entries() { updates.insert(entry.ekey, entry) }` then iteration order. -/
def dedupe (log : List Upd) : List Upd :=
  (log.foldl (fun m u => insertKV u.key u m) []).map (·.2)

/-- `if sorted_idx < len && entries[sorted_idx].key == *update_key { sorted_idx += 1 }`. -/
def skipEq (x : Nat) : List Entry → List Entry
  | e :: r => if e.key = x then r else e :: r
  | [] => []

/-- the merge walk of `flush_updates_for_bucket`: for every update key in ascending order copy
the sorted entries with smaller key, skip an equal one, emit the update unless it is a
tombstone; finally copy the remaining sorted entries. -/
def mergeWalk : List Entry → List Upd → List Entry
  | s, [] => s
  | s, u :: us =>
    s.takeWhile (fun e => e.key < u.key)
      ++ ((if u.status = stDelete then [] else [u.toEntry])
      ++ mergeWalk (skipEq u.key (s.dropWhile (fun e => e.key < u.key))) us)

/-- in-memory part of `flush_updates_for_bucket` (merge, then `update_section.clear()`). -/
def flushB (b : Bucket) : Bucket := ⟨mergeWalk b.sorted (dedupe b.log), []⟩

/-- per-bucket body of `iter_entries`: BTreeMap of `Option<IndexEntry>`, sorted entries first,
then the log in order (tombstone ↦ `None`), then `into_values().flatten()`. -/
def iterBucket (b : Bucket) : List Entry :=
  let m0 := b.sorted.foldl (fun m e => insertKV e.key (some e) m) []
  let m1 := b.log.foldl
    (fun m u => insertKV u.key (if u.status = stDelete then none else some u.toEntry) m) m0
  m1.filterMap (·.2)

/-! ### serialisation (entry level) and the 5-byte location codec -/

/-- `write_archive_location` / `UpdateEntry::to_bytes` location bytes:
`[id >> 2, BE32((id & 3) << 30 | (off & 0x3FFF_FFFF))]` (the `u8` of the first byte is the
caller's concern: checked in `packSorted?`, truncated in `packUpd`). -/
def packLoc (id off : Nat) : List Nat :=
  let hi := id / 4 % 256
  let w := (id % 4) * 2 ^ 30 + off % 2 ^ 30
  [hi, w / 2 ^ 24 % 256, w / 2 ^ 16 % 256, w / 2 ^ 8 % 256, w % 256]

/-- `parse_archive_location` / `UpdateEntry::from_bytes`. -/
def unpackLoc : List Nat → Option (Nat × Nat)
  | [hi, b3, b2, b1, b0] =>
    let w := b3 * 2 ^ 24 + b2 * 2 ^ 16 + b1 * 2 ^ 8 + b0
    some (hi * 4 + w / 2 ^ 30, w % 2 ^ 30)
  | _ => none

/-- what `save_index` + `parse_entries` make of one sorted entry: `to_packed` falls back to 18
zero bytes when `archive_id >> 2` does not fit `u8`, and `parse_entries` drops every record whose
9 key bytes are zero; the offset keeps its low 30 bits. -/
def packSorted? (e : Entry) : Option Entry :=
  if e.id / 4 ≥ 256 then none
  else if e.key = 0 then none
  else match unpackLoc (packLoc e.id e.off) with
    | some (id, off) => some ⟨e.key, id, off, e.size⟩
    | none => none

/-- what `UpdateEntry::to_bytes` + `from_bytes` make of an update entry (`as u8` truncation of the
high id byte, low 30 offset bits; the hash guard always has bit 31 set, so no slot reads as
empty; `UpdateStatus::from_byte(status as u8)` is the identity on the four enum values). -/
def packUpd (u : Upd) : Upd :=
  match unpackLoc (packLoc u.id u.off) with
  | some (id, off) => ⟨u.key, id, off, u.size, u.status⟩
  | none => u

/-- on-disk image of one bucket, as `load_index` will parse it. -/
structure Image where
  sorted : List Entry
  pages : List (List Upd)
deriving Repr, Inhabited

/-- `save_index`. -/
def saveB (b : Bucket) : Image := ⟨b.sorted.filterMap packSorted?, b.pages.map (·.map packUpd)⟩

/-- stable insertion by key (for `entries.sort_by_key(|e| e.key)`, a stable sort): `e` precedes
the elements of the already sorted tail, so it goes before every element with an equal key. -/
def insertByKey (e : Entry) : List Entry → List Entry
  | [] => [e]
  | x :: xs => if e.key ≤ x.key then e :: x :: xs else x :: insertByKey e xs

def sortByKey : List Entry → List Entry
  | [] => []
  | e :: es => insertByKey e (sortByKey es)

/-- `load_index`: parse, sort, parse the update pages. -/
def loadB (img : Image) : Bucket := ⟨sortByKey img.sorted, img.pages⟩

/-! ### the manager -/

/-- `IndexManager` (`indices`) and the directory it saves to (bucket ↦ file `{b:02x}00000001.idx`). -/
structure State where
  mem : Nat → Option Bucket
  disk : Nat → Option Image

def State.init : State := ⟨fun _ => none, fun _ => none⟩

def State.setMem (s : State) (b : Nat) (bk : Bucket) : State :=
  { s with mem := fun i => if i = b then some bk else s.mem i }

def State.setDisk (s : State) (b : Nat) (img : Image) : State :=
  { s with disk := fun i => if i = b then some img else s.disk i }

/-- `lookup`. -/
def lookup (s : State) (k : Nat) : Option Entry :=
  match s.mem (bucketOf k) with
  | some b => searchBoth b k
  | none => none

/-- `flush_updates_for_bucket`: nothing when the bucket is absent or its log is empty;
otherwise merge, clear the log and save the bucket's file. -/
def flushBucket (s : State) (b : Nat) : State :=
  match s.mem b with
  | none => s
  | some bk =>
    if bk.log.length = 0 then s
    else
      let bk' := flushB bk
      (s.setMem b bk').setDisk b (saveB bk')

/-- append to bucket `b`'s update section; when it is full flush the bucket and retry once
(`add_entry`, and after the fix the helper shared by the three other mutators). -/
def appendWithFlush (cfg : Cfg) (s : State) (b : Nat) (u : Upd) : State × Bool :=
  match s.mem b with
  | none => (s, false)
  | some bk =>
    match appendPages cfg bk.pages u with
    | (pg, true) => (s.setMem b { bk with pages := pg }, true)
    | (_, false) =>
      let s1 := flushBucket s b
      match s1.mem b with
      | none => (s1, false)
      | some bk1 =>
        match appendPages cfg bk1.pages u with
        | (pg, true) => (s1.setMem b { bk1 with pages := pg }, true)
        | (_, false) => (s1, false)

/-- `self.indices.entry(index_id).or_insert_with(|| IndexFile { .. empty .. })`. -/
def ensureBucket (s : State) (b : Nat) : State :=
  match s.mem b with
  | some _ => s
  | none => s.setMem b Bucket.empty

/-- `iter_entries`: buckets in `BTreeMap` order. -/
def iter (s : State) : List (Nat × Entry) :=
  (List.range nBuckets).flatMap fun b =>
    match s.mem b with
    | some bk => (iterBucket bk).map fun e => (b, e)
    | none => []

/-- `save_all`. -/
def saveAll (s : State) : State :=
  { s with disk := fun b => match s.mem b with
      | some bk => some (saveB bk)
      | none => s.disk b }

/-- drop the manager, `IndexManager::new(dir)`, `load_all()`. -/
def reload (s : State) : State :=
  { s with mem := fun b => (s.disk b).map loadB }

def step (cfg : Cfg) (s : State) : Op → State × Out
  | .add k id off size =>
    match appendWithFlush cfg (ensureBucket s (bucketOf k)) (bucketOf k) ⟨k, id, off, size, 0⟩ with
    | (s1, true) => (s1, .ok)
    | (s1, false) => (s1, .err)
  | .remove k =>
    match lookup s k with
    | none => (s, .bool false)
    | some e =>
      let (s1, r) := appendWithFlush cfg s (bucketOf k) ⟨k, e.id, e.off, e.size, stDelete⟩
      (s1, .bool r)
  | .update k id off size =>
    match lookup s k with
    | none => (s, .bool false)
    | some _ =>
      let (s1, r) := appendWithFlush cfg s (bucketOf k) ⟨k, id, off, size, 0⟩
      (s1, .bool r)
  | .status k st =>
    match lookup s k with
    | none => (s, .bool false)
    | some e =>
      let (s1, r) := appendWithFlush cfg s (bucketOf k) ⟨k, e.id, e.off, e.size, st⟩
      (s1, .bool r)
  | .lookup k => (s, .entry (lookup s k))
  | .has k => (s, .bool (lookup s k).isSome)
  | .iter => (s, .entries (iter s))
  | .count => (s, .num (iter s).length)
  | .flush b => (flushBucket s b, .ok)
  | .flushAll => ((List.range nBuckets).foldl flushBucket s, .ok)
  | .saveAll => (saveAll s, .ok)
  | .clearBucket b =>
    match s.mem b with
    | some bk => (s.setMem b Bucket.empty, .num (bk.sorted.length + bk.log.length))
    | none => (s, .num 0)
  | .reload => (reload s, .ok)

/-- run a history, collecting the outputs. -/
def run (cfg : Cfg) : State → List Op → State × List Out
  | s, [] => (s, [])
  | s, op :: ops =>
    let (s1, o) := step cfg s op
    let (s2, os) := run cfg s1 ops
    (s2, o :: os)

/-- `remove_entry` as pinned (before the fix): the result of `append` is ignored. -/
def removePinned (cfg : Cfg) (s : State) (k : Nat) : State × Out :=
  match lookup s k with
  | none => (s, .bool false)
  | some e =>
    match s.mem (bucketOf k) with
    | some bk =>
      let (pg, _) := appendPages cfg bk.pages ⟨k, e.id, e.off, e.size, stDelete⟩
      (s.setMem (bucketOf k) { bk with pages := pg }, .bool true)
    | none => (s, .bool false)

end Cascette.Model.Lsm
