/-
Model/DiskFs — `DiskCache::{get_file_path, write_file, put_with_ttl, get}` (disk_cache.rs) on a
small file-system state: which file a `put` leaves behind and which file a cold `get` reads.

The file system is a list of existing directories and files (normalised absolute paths); the
kernel laws used are: `mkdir -p` creates every prefix, `open(O_CREAT)` of a directory fails,
`rename` onto a directory or onto a name with a trailing "/" or "/." fails and leaves the source,
a NUL byte or a component longer than 255 bytes fails before anything is created, ".." is
resolved physically (every directory in front of it has to exist).
-/
import Cascette.Model.Path
namespace Cascette.Model.DiskFs
open Cascette.Model.Path

/-- `get_file_path`: `cache_dir[/hh/hh…].push(key_str)`. `sub` are the hashed sub-directories
(empty for the flat layout). -/
def diskPath (root : APath) (sub : List Comp) (key : Str) : APath := join (root ++ sub) key

/-- the directory hash of `get_file_path`: `acc * 31 + byte` over the key's UTF-8 bytes in `u64`. -/
def keyHash (bytes : List Nat) : Nat := bytes.foldl (fun acc b => (acc * 31 + b) % 2 ^ 64) 0

def hex2 (n : Nat) : Comp := [hexDigit (n / 16 % 16), hexDigit (n % 16)]

/-- `levels` directory names `{:02x}` of the successive hash bytes. -/
def subDirs (levels : Nat) (hash : Nat) : List Comp :=
  (List.range levels).map fun l => hex2 (hash / 256 ^ l % 256)

structure Fs where
  dirs : List APath
  files : List APath
  deriving Repr

/-- every prefix of `p`, normalised: what `create_dir_all(p)` makes sure exists. -/
def mkdirAll (fs : Fs) (p : APath) : Fs :=
  { fs with dirs := fs.dirs ++ (List.range (p.length + 1)).map fun i => normalize (p.take i) }

def nameTooLong (p : APath) : Bool := p.any fun c => decide (255 < utf8Len c)

inductive PutOut where
  /-- the value is in `file`. -/
  | ok (file : APath)
  /-- `Err`; `left` is a temporary file that stays behind. -/
  | err (left : Option APath)
  deriving Repr, DecidableEq

/-- last raw segment of the key ("" after a trailing '/'). -/
def lastSeg (key : Str) : Str := (segs key).getLast?.getD []

/-- `put_with_ttl(key, value)` on file system `fs` (no regular files in the way). -/
def put (fs : Fs) (root : APath) (sub : List Comp) (key : Str) : PutOut :=
  let p := diskPath root sub key
  match fileName p with
  | none => .err none                       -- temp = path itself = a directory: open fails
  | some _ =>
    let t := withExtTmpRaw (lastSeg key == [] || lastSeg key == dot) p
    -- a NUL byte or an over-long name in the temporary path: nothing is created
    if t.any (·.contains '\x00') || nameTooLong t then .err none else
    let fs1 := mkdirAll (mkdirAll fs (root ++ sub)) (parent t)
    if fs1.dirs.contains (normalize t) then .err none else
    -- the temporary file exists now; the rename onto the final name may still fail
    if key.contains '\x00' || nameTooLong p || lastSeg key == [] || lastSeg key == dot
        || fs1.dirs.contains (normalize p)
    then .err (some (normalize t))
    else .ok (normalize p)

/-- physical resolution of a path for reading: every component in front of the last one has to
be an existing directory at the moment it is crossed. -/
def walk (fs : Fs) : APath → List Comp → Option APath
  | cur, [] => some cur
  | cur, c :: r =>
    if !fs.dirs.contains cur then none
    else if c = dotdot then walk fs cur.dropLast r
    else walk fs (cur ++ [c]) r

/-- cold `get(key)` (nothing in the index): the file that is opened and returned, if any. -/
def getCold (fs : Fs) (root : APath) (sub : List Comp) (key : Str) : Option APath :=
  if key.contains '\x00' then none
  else if lastSeg key == [] || lastSeg key == dot then none   -- "f/" , "f/." name a directory
  else match walk fs [] (diskPath root sub key) with
  | some loc => if fs.files.contains loc then some loc else none
  | none => none

end Cascette.Model.DiskFs
