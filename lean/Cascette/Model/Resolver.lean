/-
Model/Resolver — `ContentResolver` (crates/cascette-client-storage/src/resolver.rs) over a parsed
root manifest and a parsed encoding table:

* `load_root_file` fills `file_data_id_map` from every record in block order, record order
  (`HashMap::insert`: a later record of the same FileDataID replaces the earlier one);
  `resolve_file_data_id` is a lookup in that map (no locale/content filter);
* `resolve_path` hashes the path (`calculate_name_hash`; the hash is a parameter here, the Jenkins
  model lives in the driver) and returns the first record, in block and record order, with that hash;
* `load_encoding_file` fills `content_cache` from every parsed CKey page entry that has at least one
  encoding key (first encoding key; later entry wins); `resolve_content_key` reads the cache (its
  fallback scan over the pages finds nothing the cache does not already hold);
* `resolve_fdid_to_encoding` / `resolve_path_to_encoding` = `and_then` of the two steps.
-/
import Cascette.Model.RootFile
import Cascette.Model.Encoding
namespace Cascette.Model.Resolver
open Cascette.Model

/-- `resolve_file_data_id` -/
def resFdid (p : RootFile.Parsed) (fdid : Nat) : Option (List Nat) :=
  ((p.blocks.flatMap (·.recs)).reverse.find? (·.fdid == fdid)).map (·.ckey)

/-- `resolve_path`, given the path's name hash -/
def resHash (p : RootFile.Parsed) (hash : Nat) : Option (List Nat) :=
  ((p.blocks.flatMap (·.recs)).find? (·.nameHash == some hash)).map (·.ckey)

/-- `resolve_content_key` -/
def resCkey (f : Encoding.File) (ck : List Nat) : Option (List Nat) :=
  ((f.ctable.flatMap (·.2)).reverse.find? (fun e => e.ckey == ck && !e.ekeys.isEmpty)).bind (·.ekeys.head?)

/-- `resolve_fdid_to_encoding` -/
def fdidToEkey (p : RootFile.Parsed) (f : Encoding.File) (fdid : Nat) : Option (List Nat) :=
  (resFdid p fdid).bind (resCkey f)

/-- `resolve_path_to_encoding`, given the path's name hash -/
def hashToEkey (p : RootFile.Parsed) (f : Encoding.File) (hash : Nat) : Option (List Nat) :=
  (resHash p hash).bind (resCkey f)

end Cascette.Model.Resolver
