/-
Model/ArchiveIndex — `ArchiveIndexBuilder::build` → bytes → `ArchiveIndex::parse` (+ `validate`,
`validate_toc_consistency`) → `binary_search_key` / `find_all_key_matches`; and the archive group
(`ArchiveGroupBuilder::build` → `ArchiveGroup::parse` → `find_entry`), at record granularity.

Kept from the bytes: records per 4 KiB block, the truncation of size/offset to their field widths,
the 6-byte offset split (archive index : offset), the zero-record = padding rule of the block
parser, the TOC of last keys and its consistency check.
-/
import Cascette.Model.Paged
namespace Cascette.Model.ArchiveIndex
open Cascette.Model.Paged

structure Entry where
  key : Key
  size : Nat
  offset : Nat
  archive : Option Nat
deriving Repr, DecidableEq

/-- what `to_bytes` + `IndexEntry::parse` make of an entry for offset width `ob` -/
def stored (ob : Nat) (e : Entry) : Entry :=
  let size := e.size % 2 ^ 32
  match ob with
  | 4 => { e with size := size, offset := e.offset % 2 ^ 32, archive := none }
  | 5 => { e with size := size, offset := e.offset % 2 ^ 40, archive := none }
  | _ => -- 6
    match e.archive with
    | some a => { e with size := size, offset := e.offset % 2 ^ 32, archive := some (a % 2 ^ 16) }
    | none => { e with size := size, offset := e.offset % 2 ^ 32, archive := some (e.offset / 2 ^ 32 % 2 ^ 16) }

def Entry.isZero (e : Entry) : Bool := e.key.all (· == 0) && e.size == 0 && e.offset == 0

def sortEntries (l : List Entry) : List Entry := l.mergeSort (fun a b => kle a.key b.key)

def divCeil (a b : Nat) : Nat := (a + b - 1) / b

/-- `is_sorted`: windows(2) all `<=` -/
def isSorted : List Entry → Bool
  | a :: b :: rest => kle a.key b.key && isSorted (b :: rest)
  | _ => true

/-- `validate_toc_consistency` -/
def tocConsistent (entries : List Entry) (toc : List Key) (rpb : Nat) : Bool :=
  toc.length == divCeil entries.length rpb &&
  (toc.zipIdx.all fun (t, ci) =>
    let start := ci * rpb
    let stop := min (start + rpb) entries.length
    if stop > start then
      match entries[stop - 1]? with
      | some e => e.key == t
      | none => false
    else true)

/-- builder → bytes → parser; `none` = parse error. `ks` key size, `ob` offset width (4/5/6),
`rpb` = 4096 / (ks + 4 + ob) records per block (≥ 1). All keys are `ks` bytes long. -/
def buildParse (ks ob rpb : Nat) (input : List Entry) : Option (Chunked Entry) :=
  let sorted := sortEntries input
  let blocks := chunksOf rpb sorted.length sorted
  let toc := blocks.filterMap fun b => b.getLast?.map fun e => (e.key.take ks) ++ List.replicate (ks - e.key.length) 0
  -- parse: element_count = sorted.length gives the chunk count; every block is read up to the
  -- first zero record
  let parsed := (blocks.map fun b => (b.map (stored ob)).takeWhile (fun e => !e.isZero)).flatten
  if !isSorted parsed then none
  else if !tocConsistent parsed toc rpb then none
  else some { entries := parsed, toc := toc, rpb := rpb }

def find (c : Chunked Entry) (k : Key) : Option (Option Entry) := c.find Entry.key k

/-- `find_all_key_matches`: from the binary-search hit, walk back and forward over equal keys. -/
def findAll (c : Chunked Entry) (k : Key) : Option (List Entry) :=
  (find c k).map fun r => match r with
    | none => []
    | some _ => c.entries.filter (fun e => e.key == k)

/-! ### archive group -/

structure GEntry where
  key : Key
  archive : Nat
  offset : Nat
  size : Nat
deriving Repr, DecidableEq

/-- `HashMap::entry(key).or_insert`: first insertion of a key wins -/
def dedupFirst (l : List GEntry) : List GEntry :=
  l.foldl (fun acc e => if acc.any (fun x => x.key == e.key) then acc else acc ++ [e]) []

/-- `ArchiveGroupBuilder::build` (chunk count = ⌈n / 157⌉ after the repair) → `ArchiveGroup::parse`
(through `ArchiveIndex::parse` with 16-byte keys and 6-byte offsets). -/
def groupBuildParse (rpb : Nat) (input : List GEntry) : Option (List GEntry) :=
  let es := (dedupFirst input).map fun g =>
    ({ key := g.key, size := g.size, offset := g.offset, archive := some g.archive } : Entry)
  (buildParse 16 6 rpb es).map fun c =>
    c.entries.map fun e => { key := e.key, archive := e.archive.getD 0, offset := e.offset % 2 ^ 32, size := e.size }

/-- `ArchiveGroup::find_entry`: plain binary search over all entries -/
def groupFind (g : List GEntry) (k : Key) : Option GEntry :=
  match binarySearchBy (fun e => kcmp e.key k) g with
  | .ok i => g[i]?
  | .error _ => none

end Cascette.Model.ArchiveIndex
