/-
Model/ArchiveIndex — `ArchiveIndexBuilder::build` → bytes → `ArchiveIndex::parse` (+ `validate`,
`validate_toc_consistency`) → `binary_search_key` / `find_all_key_matches`; and the archive group
(`ArchiveGroupBuilder::build` / `add_archive`, the k-way heap merge `build_merged` →
`ArchiveGroup::parse` → `find_entry`), at record granularity.

Kept from the bytes: records per 4 KiB block, the truncation of size/offset to their field widths,
the 6-byte offset split (archive index : offset), the zero-record = padding rule of the block
parser, the TOC of last keys and its consistency check.
-/
import Cascette.Model.Paged
namespace Cascette.Model.ArchiveIndex
open Cascette.Model.Paged

structure Entry where
  key : Key
  size : Nat
  offset : Nat
  archive : Option Nat
deriving Repr, DecidableEq

/-- what `to_bytes` + `IndexEntry::parse` make of an entry for offset width `ob` -/
def stored (ob : Nat) (e : Entry) : Entry :=
  let size := e.size % 2 ^ 32
  match ob with
  | 4 => { e with size := size, offset := e.offset % 2 ^ 32, archive := none }
  | 5 => { e with size := size, offset := e.offset % 2 ^ 40, archive := none }
  | _ => -- 6
    match e.archive with
    | some a => { e with size := size, offset := e.offset % 2 ^ 32, archive := some (a % 2 ^ 16) }
    | none => { e with size := size, offset := e.offset % 2 ^ 32, archive := some (e.offset / 2 ^ 32 % 2 ^ 16) }

def Entry.isZero (e : Entry) : Bool := e.key.all (· == 0) && e.size == 0 && e.offset == 0

def sortEntries (l : List Entry) : List Entry := l.mergeSort (fun a b => kle a.key b.key)

def divCeil (a b : Nat) : Nat := (a + b - 1) / b

/-- `is_sorted`: windows(2) all `<=` -/
def isSorted : List Entry → Bool
  | a :: b :: rest => kle a.key b.key && isSorted (b :: rest)
  | _ => true

/-- `validate_toc_consistency` -/
def tocConsistent (entries : List Entry) (toc : List Key) (rpb : Nat) : Bool :=
  toc.length == divCeil entries.length rpb &&
  (toc.zipIdx.all fun (t, ci) =>
    let start := ci * rpb
    let stop := min (start + rpb) entries.length
    if stop > start then
      match entries[stop - 1]? with
      | some e => e.key == t
      | none => false
    else true)

/-- builder → bytes → parser; `none` = parse error. `ks` key size, `ob` offset width (4/5/6),
`rpb` = 4096 / (ks + 4 + ob) records per block (≥ 1). All keys are `ks` bytes long. -/
def buildParse (ks ob rpb : Nat) (input : List Entry) : Option (Chunked Entry) :=
  let sorted := sortEntries input
  let blocks := chunksOf rpb sorted.length sorted
  let toc := blocks.filterMap fun b => b.getLast?.map fun e => (e.key.take ks) ++ List.replicate (ks - e.key.length) 0
  -- parse: element_count = sorted.length gives the chunk count; every block is read up to the
  -- first zero record
  let parsed := (blocks.map fun b => (b.map (stored ob)).takeWhile (fun e => !e.isZero)).flatten
  if !isSorted parsed then none
  else if !tocConsistent parsed toc rpb then none
  else some { entries := parsed, toc := toc, rpb := rpb }

def find (c : Chunked Entry) (k : Key) : Option (Option Entry) := c.find Entry.key k

/-- `find_all_key_matches`: from the binary-search hit, walk back and forward over equal keys. -/
def findAll (c : Chunked Entry) (k : Key) : Option (List Entry) :=
  (find c k).map fun r => match r with
    | none => []
    | some _ => c.entries.filter (fun e => e.key == k)

/-! ### archive group -/

structure GEntry where
  key : Key
  archive : Nat
  offset : Nat
  size : Nat
deriving Repr, DecidableEq

/-- `HashMap::entry(key).or_insert`: first insertion of a key wins -/
def dedupFirst (l : List GEntry) : List GEntry :=
  l.foldl (fun acc e => if acc.any (fun x => x.key == e.key) then acc else acc ++ [e]) []

/-- `ArchiveGroupBuilder::build` (chunk count = ⌈n / 157⌉ after the repair) → `ArchiveGroup::parse`
(through `ArchiveIndex::parse` with 16-byte keys and 6-byte offsets). -/
def groupBuildParse (rpb : Nat) (input : List GEntry) : Option (List GEntry) :=
  let es := (dedupFirst input).map fun g =>
    ({ key := g.key, size := g.size, offset := g.offset, archive := some g.archive } : Entry)
  (buildParse 16 6 rpb es).map fun c =>
    c.entries.map fun e => { key := e.key, archive := e.archive.getD 0, offset := e.offset % 2 ^ 32, size := e.size }

/-- `ArchiveGroup::find_entry`: plain binary search over all entries -/
def groupFind (g : List GEntry) (k : Key) : Option GEntry :=
  match binarySearchBy (fun e => kcmp e.key k) g with
  | .ok i => g[i]?
  | .error _ => none

/-! ### k-way merge of archive indices into a group (`build_merged`) -/

/-- what `build_merged` writes into 4 KiB chunks (157 records each, TOC of last keys, element count)
and `ArchiveIndex::parse` reads back: the part of `buildParse` after the sort. The merge emits its
records in heap order and never sorts them. -/
def serializeParse (ks ob rpb : Nat) (written : List Entry) : Option (Chunked Entry) :=
  let blocks := chunksOf rpb written.length written
  let toc := blocks.filterMap fun b => b.getLast?.map fun e => (e.key.take ks) ++ List.replicate (ks - e.key.length) 0
  let parsed := (blocks.map fun b => (b.map (stored ob)).takeWhile (fun e => !e.isZero)).flatten
  if !isSorted parsed then none
  else if !tocConsistent parsed toc rpb then none
  else some { entries := parsed, toc := toc, rpb := rpb }

/-- one source of the merge: the archive number written into the 6-byte offset and the entries the
cursor has not passed yet (the heap holds the head of every non-exhausted source) -/
abbrev Src := Nat × List Entry

/-- `BinaryHeap::pop` under `HeapEntry::cmp` (key, then `source_idx`, reversed for a min-heap): the
head with the smallest key; among equal keys the lowest source index. Returns (source index,
archive number, entry). -/
def pickMin : List Src → Nat → Option (Nat × Nat × Entry) → Option (Nat × Nat × Entry)
  | [], _, best => best
  | (_, []) :: rest, i, best => pickMin rest (i + 1) best
  | (a, e :: _) :: rest, i, best =>
    match best with
    | none => pickMin rest (i + 1) (some (i, a, e))
    | some (_, _, b) => if klt e.key b.key then pickMin rest (i + 1) (some (i, a, e)) else pickMin rest (i + 1) best

/-- the heap loop of `build_merged`: pop the smallest head, advance that source's cursor (always —
before the duplicate test), skip the record when its key equals the previous OUTPUT key, else emit it
with its source's archive number and `offset as u32`. -/
def kmerge : Nat → List Src → Option Key → List GEntry
  | 0, _, _ => []
  | fuel + 1, srcs, prev =>
    match pickMin srcs 0 none with
    | none => []
    | some (i, a, e) =>
      let srcs' := srcs.modify i fun s => (s.1, s.2.tail)
      if prev == some e.key then kmerge fuel srcs' prev
      else { key := e.key, archive := a, offset := e.offset % 2 ^ 32, size := e.size } :: kmerge fuel srcs' (some e.key)

def totalLen (srcs : List Src) : Nat := (srcs.map (·.2.length)).sum

/-- `build_merged` over parsed source indices → bytes → `ArchiveGroup::parse` -/
def mergedBuildParse (rpb : Nat) (srcs : List Src) : Option (List GEntry) :=
  let es := (kmerge (totalLen srcs + 1) srcs none).map fun g =>
    ({ key := g.key, size := g.size, offset := g.offset, archive := some g.archive } : Entry)
  (serializeParse 16 6 rpb es).map fun c =>
    c.entries.map fun e => { key := e.key, archive := e.archive.getD 0, offset := e.offset % 2 ^ 32, size := e.size }

/-- `ArchiveGroupBuilder::add_archive` for every source in order (first occurrence of a key stays),
then `build` → `ArchiveGroup::parse` -/
def addArchivesBuildParse (rpb : Nat) (srcs : List Src) : Option (List GEntry) :=
  groupBuildParse rpb (srcs.flatMap fun (a, es) =>
    es.map fun e => { key := e.key, archive := a, offset := e.offset % 2 ^ 32, size := e.size })

end Cascette.Model.ArchiveIndex
