/-
Model/Path — Unix paths the way Rust's `std::path` and the kernel treat them (C20).

Strings are `List Char` (UTF-8 keeps '/' , '.' and NUL single bytes that never occur inside a
multi-byte sequence, so splitting on characters is splitting on bytes).  An absolute path is the
list of its components below "/" exactly as `Path::components()` yields them: empty segments and
"." segments are dropped, ".." is kept.  What `PathBuf::join/push`, `Path::file_name`,
`Path::with_extension`, `Path::parent` do on such lists is transcribed below, together with the
lexical normalisation that says where the kernel ends up once every intermediate directory
exists (`create_dir_all` creates them, see Model/DiskFs).
-/
namespace Cascette.Model.Path

abbrev Str := List Char
abbrev Comp := List Char
/-- an absolute path: components below "/". -/
abbrev APath := List Comp

def dot : Comp := ['.']
def dotdot : Comp := ['.', '.']
def tmpExt : Str := ['.', 't', 'm', 'p']

/-- the `sep`-separated segments of a string, empty ones included (`str::split(sep)`);
never the empty list. -/
def segsBy (sep : Char) : Str → List Str
  | [] => [[]]
  | c :: r =>
    if c = sep then [] :: segsBy sep r
    else match segsBy sep r with
      | [] => [[c]]
      | s :: ss => (c :: s) :: ss

/-- raw '/'-separated segments of a string (`str::split('/')`). -/
def segs (s : Str) : List Str := segsBy '/' s

/-- `parts.join(sep)`. -/
def joinSep (sep : Char) : List Str → Str
  | [] => []
  | [a] => a
  | a :: b :: r => a ++ sep :: joinSep sep (b :: r)

/-- a segment that `Path::components()` keeps when it is not the first one of a relative path:
non-empty and not ".". -/
def keeps (s : Str) : Bool := !(s == [] || s == dot)

/-- components a string contributes when it is pushed onto a non-empty base (or follows the
root): empty segments and "." disappear, ".." stays. -/
def comps (s : Str) : List Comp := (segs s).filter keeps

/-- `Path::is_absolute` on Unix. -/
def isAbs : Str → Bool
  | '/' :: _ => true
  | _ => false

/-- `base.join(s)` / `base.push(s)` for an absolute `base`: an absolute right operand replaces the
base, a relative one is appended. -/
def join (base : APath) (s : Str) : APath :=
  if isAbs s then comps s else base ++ comps s

/-- lexical normalisation: ".." removes the component before it; at "/" it stays at "/"
(as the kernel does). `st` is the reversed stack of components so far. -/
def normAux : List Comp → List Comp → APath
  | st, [] => st.reverse
  | st, c :: r => if c = dotdot then normAux st.tail r else normAux (c :: st) r

def normalize (p : APath) : APath := normAux [] p

/-- the path lies (lexically, after normalisation) inside `root`. -/
def confined (root p : APath) : Prop := root <+: normalize p

instance (root p : APath) : Decidable (confined root p) := by unfold confined; infer_instance

/-- `Path::file_name`: the last component unless it is "..". -/
def fileName (p : APath) : Option Comp :=
  match p.getLast? with
  | none => none
  | some c => if c = dotdot then none else some c

/-- what is left of a name before its last '.', and what follows it
(`none` when the name has no '.'). -/
def splitLastDot : Comp → Option (Comp × Comp)
  | [] => none
  | c :: r =>
    match splitLastDot r with
    | some (before, after) => some (c :: before, after)
    | none => if c = '.' then some ([], r) else none

/-- `path.with_extension("tmp")` (std 1.95): unchanged when there is no file name; otherwise
`extension().len()` bytes are cut from the END of the path text and `set_extension` runs on what
is left.  For a name "..x" the cut leaves "..", which has no file name any more, so the result is
the path ending in the ".." component (the parent directory) — unless the path text carries a
trailing "/" or "/." (`trailing`), in which case the cut eats that instead and the result is
"..tmp".  Every other name becomes `stem ++ ".tmp"` either way. -/
def withExtTmpRaw (trailing : Bool) (p : APath) : APath :=
  match fileName p with
  | none => p
  | some n =>
    match splitLastDot n with
    | some (before, _) =>
      if before = [] then p.dropLast ++ [n ++ tmpExt]
      else if before = dot then p.dropLast ++ [if trailing then dot ++ tmpExt else dotdot]
      else p.dropLast ++ [before ++ tmpExt]
    | none => p.dropLast ++ [n ++ tmpExt]

/-- `with_extension("tmp")` of a path whose text ends in its file name. -/
def withExtTmp (p : APath) : APath := withExtTmpRaw false p

/-- the candidate repair discussed in the report: append ".tmp" to the file name. -/
def appendTmp (p : APath) : APath :=
  match fileName p with
  | none => p
  | some n => p.dropLast ++ [n ++ tmpExt]

/-- `Path::parent` of a non-root absolute path. -/
def parent (p : APath) : APath := p.dropLast

/-- lower-case hex digit of a nibble (`{:x}`, `hex::encode`). -/
def hexDigit (n : Nat) : Char :=
  if n < 10 then Char.ofNat (48 + n) else Char.ofNat (87 + n)

/-- number of UTF-8 bytes of a string. -/
def utf8Len (s : Str) : Nat := (s.map Char.utf8Size).sum

/-- re-assemble a path for printing. -/
def render (p : APath) : Str :=
  if p = [] then ['/'] else (p.map (fun c => '/' :: c)).flatten

end Cascette.Model.Path
