/-
Model/Integrity — the integrity acceptors of cascette-rs, each as a function of the bytes and an
ARBITRARY hash `H` (MD5 / SHA-256 / lookup3 are the instances the driver plugs in):
which byte range is hashed, which stored field it is compared with, over how many bytes, and
whether the comparison happens before anything is returned.  Models are of the code AS WRITTEN:

* `Enc`  — `EncodingFile::parse` (crates/cascette-formats/src/encoding/file.rs): header, ESpec block,
           page index, `IndexEntry::verify` per page *before* the page's entries are parsed,
           the two end-of-page heuristics of the entry loops.
* `Aidx` — `ArchiveIndex::parse` up to and including `validate_file_size`
           (crates/cascette-formats/src/archive/index.rs): byte at End(-13) decides the footer size
           and must be 8 (fix 6b0ee35; the two slicing panics are kept as written, now unreachable),
           `is_valid` compares `min(len, footer_hash_bytes)` bytes, the two slicing panics,
           `validate_format`, `validate_file_size`.  `checkSize = false` is `ChunkedArchiveIndex::open`.
* `Lru`  — `lru_file::deserialize` (crates/cascette-client-storage/src/lru/lru_file.rs).
* `Upd`  — `UpdateEntry::{from_bytes,to_bytes,validate_hash_guard}`, `UpdatePage::from_bytes`,
           `UpdateSection::from_bytes` (crates/cascette-client-storage/src/index/update.rs).
* `Lhdr` — `LocalHeader::{from_bytes,validate_checksums}` and `SegmentHeader::from_bytes`
           (crates/cascette-client-storage/src/storage/{local_header,segment}.rs).
* `V1`   — `extract_checksum` / `validate_checksum` (crates/cascette-protocol/src/mime_parser.rs).
* `Cache`— `ContentAddressedCache::{get_validated,put_validated}` (ngdp.rs),
           `NgdpBytes::validate_with_hooks` with `Md5ValidationHooks::should_skip_validation`
           (validation.rs), `MultiLayerCacheImpl::{put_with_validation,get_with_validation,
           put_to_layer,remove}` (multi_layer.rs); the backing stores are association lists that an
           adversary may rewrite between calls.
-/
import Cascette.Base.Bytes
namespace Cascette.Model.Integrity
open Cascette

/-- a hash function: bytes → digest bytes. Nothing is assumed about it. -/
abbrev Hash := Bytes → Bytes

/-- Rust `&d[off .. off+n]` (shorter when `d` is). -/
def slice (d : Bytes) (off n : Nat) : Bytes := (d.drop off).take n

/-- big-endian natural. -/
def beNat (b : Bytes) : Nat := b.foldl (fun a x => a * 256 + x.toNat) 0
/-- little-endian natural. -/
def leNat : Bytes → Nat
  | [] => 0
  | x :: xs => x.toNat + 256 * leNat xs

/-- byte `i` as a natural (0 when out of range — only used behind a length guard). -/
def byteAt (d : Bytes) (i : Nat) : Nat := (d.getD i 0).toNat

/-- a collision of `H`: two different inputs with the same digest on the compared bytes. -/
def Collision (H : Hash) (n : Nat) (x y : Bytes) : Prop := x ≠ y ∧ (H x).take n = (H y).take n

/-! ## LRU checkpoint file -/
namespace Lru

def headerSize : Nat := 28
def entrySize : Nat := 20
def maxVersion : Nat := 1

/-- `validate_file_size`. -/
def validSize (n : Nat) : Bool := decide (headerSize ≤ n) && (n - headerSize) % entrySize == 0

/-- the hashed bytes: the whole file with the hash field `[4,20)` zeroed. -/
def region (d : Bytes) : Bytes := d.take 4 ++ List.replicate 16 (0 : Byte) ++ d.drop 20
/-- the stored MD5: bytes `[4,20)`. -/
def stored (d : Bytes) : Bytes := slice d 4 16
def version (d : Bytes) : Nat := leNat (d.take 2)

structure Entry where
  prev : Nat
  next : Nat
  ekey : Bytes
  flags : Nat
deriving DecidableEq, Repr

structure File where
  version : Nat
  hash : Bytes
  head : Nat
  tail : Nat
  entries : List Entry
deriving DecidableEq, Repr

def parseEntry (e : Bytes) : Entry :=
  { prev := leNat (e.take 4), next := leNat (slice e 4 4), ekey := slice e 8 9, flags := byteAt e 17 }

/-- `entry_count_from_file_size` many 20-byte records. -/
def parseEntries : Nat → Bytes → List Entry
  | 0, _ => []
  | n + 1, b => parseEntry (b.take entrySize) :: parseEntries n (b.drop entrySize)

/-- `lru_file::deserialize`. -/
def deserialize (H : Hash) (d : Bytes) : Option File :=
  if !validSize d.length then none
  else if version d > maxVersion then none
  else if H (region d) ≠ stored d then none
  else some { version := version d, hash := stored d, head := leNat (slice d 20 4), tail := leNat (slice d 24 4),
              entries := parseEntries ((d.length - headerSize) / entrySize) (d.drop headerSize) }

def accept (H : Hash) (d : Bytes) : Bool := (deserialize H d).isSome

end Lru

/-! ## Encoding table -/
namespace Enc

inductive Err where
  | checksum | magic | header | espec | io | binrw
deriving DecidableEq, Repr

structure Header where
  version : Nat
  ckHash : Nat
  ekHash : Nat
  ckKb : Nat
  ekKb : Nat
  ckCount : Nat
  ekCount : Nat
  flags : Nat
  especSize : Nat
deriving DecidableEq, Repr

/-- the 22-byte header (binrw, big-endian), before `validate`. -/
def readHeader (d : Bytes) : Except Err Header :=
  if d.length < 2 then .error .binrw
  else if d.take 2 ≠ [0x45, 0x4E] then .error .magic
  else if d.length < 22 then .error .binrw
  else .ok { version := byteAt d 2, ckHash := byteAt d 3, ekHash := byteAt d 4,
             ckKb := beNat (slice d 5 2), ekKb := beNat (slice d 7 2),
             ckCount := beNat (slice d 9 4), ekCount := beNat (slice d 13 4),
             flags := byteAt d 17, especSize := beNat (slice d 18 4) }

/-- `EncodingHeader::validate`. -/
def headerOk (h : Header) : Bool :=
  h.version == 1 && h.flags == 0 && decide (1 ≤ h.ckHash ∧ h.ckHash ≤ 16) && decide (1 ≤ h.ekHash ∧ h.ekHash ≤ 16)
    && h.ckKb != 0 && h.ekKb != 0 && h.ckCount != 0 && h.ekCount != 0 && h.especSize != 0

/-- `ESpecTable::parse` succeeds: no empty string, NUL-terminated. `cur` = current string is empty. -/
def especOk : Bytes → Bool → Bool
  | [], cur => cur
  | b :: rest, cur => if b = 0 then (if cur then false else especOk rest true) else especOk rest false

/-- index entries `(first_key, checksum)` read from `count * 32` bytes. -/
def readIndex : Nat → Bytes → List (Bytes × Bytes)
  | 0, _ => []
  | n + 1, b => (b.take 16, slice b 16 16) :: readIndex n (b.drop 32)

/-- the CKey page entry loop: number of entries, or the binrw error.
`rest` is the page from the cursor on; `remaining = rest.length`. -/
def ckeyEntries (ck ek : Nat) : Nat → Bytes → Except Err Nat
  | 0, _ => .ok 0
  | _ + 1, [] => .ok 0
  | fuel + 1, c :: rest =>
    if c = 0 then .ok 0                                  -- padding: both branches of the handler break
    else
      let need := 5 + ck + c.toNat * ek
      if need ≤ rest.length then
        match ckeyEntries ck ek fuel (rest.drop need) with
        | .ok n => .ok (n + 1)
        | .error e => .error e
      else if rest.length + 1 < 1 + 5 + ck then .ok 0    -- remaining < min_entry_size
      else .error .binrw                                 -- next byte (the count) is not 0

/-- the EKey page entry loop; it never fails (every error path breaks). -/
def ekeyEntries (ek : Nat) : Nat → Bytes → Nat
  | 0, _ => 0
  | fuel + 1, rest =>
    if rest.length < ek + 9 then 0
    else
      let espec := beNat (slice rest ek 4)
      if espec = 0xFFFFFFFF ∨ (espec = 0 ∧ (rest.take ek).all (· == 0)) then 0
      else ekeyEntries ek fuel (rest.drop (ek + 9)) + 1

/-- `parse_ckey_pages` / `parse_ekey_pages`: for each index entry read a page, verify its MD5
against the index checksum (all of it, 16 bytes), THEN parse its entries with `pe`.
Returns the total number of entries and the unread rest. -/
def parsePages (H : Hash) (pe : Bytes → Except Err Nat) (ps : Nat) :
    List (Bytes × Bytes) → Bytes → Except Err (Nat × Bytes)
  | [], rest => .ok (0, rest)
  | (_, ck) :: more, rest =>
    if rest.length < ps then .error .io
    else if H (rest.take ps) ≠ ck then .error .checksum
    else
      match pe (rest.take ps) with
      | .error e => .error e
      | .ok n =>
        match parsePages H pe ps more (rest.drop ps) with
        | .error e => .error e
        | .ok (m, r) => .ok (n + m, r)

/-- `EncodingHeader::data_size`: header, both index + page tables, ESpec block (`usize`; the
operands are `u32`/`u16·1024`, far below 2^64). -/
def dataSize (h : Header) : Nat :=
  22 + h.ckCount * (32 + h.ckKb * 1024) + h.ekCount * (32 + h.ekKb * 1024) + h.especSize

/-- `EncodingFile::parse`: (CKey entries, EKey entries) or the error class. -/
def parse (H : Hash) (d : Bytes) : Except Err (Nat × Nat) :=
  match readHeader d with
  | .error e => .error e
  | .ok h =>
    if !headerOk h then .error .header
    -- fix a1e7c2a: `header.data_size() > data.len()` → UnexpectedEof before anything is read or allocated
    else if d.length < dataSize h then .error .io
    else if d.length < 22 + h.especSize then .error .io
    else if !especOk (slice d 22 h.especSize) true then .error .espec
    else
      let r1 := d.drop (22 + h.especSize)
      if r1.length < 32 * h.ckCount then .error .io
      else
        match parsePages H (fun p => ckeyEntries h.ckHash h.ekHash p.length p) (h.ckKb * 1024)
                (readIndex h.ckCount r1) (r1.drop (32 * h.ckCount)) with
        | .error e => .error e
        | .ok (nc, r2) =>
          if r2.length < 32 * h.ekCount then .error .io
          else
            match parsePages H (fun p => .ok (ekeyEntries h.ekHash p.length p)) (h.ekKb * 1024)
                    (readIndex h.ekCount r2) (r2.drop (32 * h.ekCount)) with
            | .error e => .error e
            | .ok (ne, _) => .ok (nc, ne)

/-! ### `parse` with the entry parsers as parameters, and the page layout (extension) -/

/-- `EncodingFile::parse` with the two page-entry parsers as PARAMETERS (what is left is the
header + ESpec + index + page-checksum stage). `parse` is the instance with `ckPe` / `ekPe`
(`parse_eq_parseWith`, by `rfl`). -/
def parseWith (H : Hash) (peC peE : Header → Bytes → Except Err Nat) (d : Bytes) : Except Err (Nat × Nat) :=
  match readHeader d with
  | .error e => .error e
  | .ok h =>
    if !headerOk h then .error .header
    else if d.length < dataSize h then .error .io
    else if d.length < 22 + h.especSize then .error .io
    else if !especOk (slice d 22 h.especSize) true then .error .espec
    else
      let r1 := d.drop (22 + h.especSize)
      if r1.length < 32 * h.ckCount then .error .io
      else
        match parsePages H (peC h) (h.ckKb * 1024) (readIndex h.ckCount r1) (r1.drop (32 * h.ckCount)) with
        | .error e => .error e
        | .ok (nc, r2) =>
          if r2.length < 32 * h.ekCount then .error .io
          else
            match parsePages H (peE h) (h.ekKb * 1024) (readIndex h.ekCount r2) (r2.drop (32 * h.ekCount)) with
            | .error e => .error e
            | .ok (ne, _) => .ok (nc, ne)

/-- the CKey / EKey page entry loops as instances of the parameter. -/
def ckPe (h : Header) (p : Bytes) : Except Err Nat := ckeyEntries h.ckHash h.ekHash p.length p
def ekPe (h : Header) (p : Bytes) : Except Err Nat := .ok (ekeyEntries h.ekHash p.length p)

theorem parse_eq_parseWith (H : Hash) (d : Bytes) : parse H d = parseWith H ckPe ekPe d := rfl

/-- the entry parser run over `n` consecutive pages of `ps` bytes, no hashing: the part of
`parsePages` that is NOT the integrity check. -/
def entriesOf (pe : Bytes → Except Err Nat) (ps : Nat) : Nat → Bytes → Except Err Nat
  | 0, _ => .ok 0
  | k + 1, rest =>
    match pe (rest.take ps) with
    | .error e => .error e
    | .ok n =>
      match entriesOf pe ps k (rest.drop ps) with
      | .error e => .error e
      | .ok m => .ok (n + m)

/-- byte offsets of the four tables of a file with header `h` (ESpec block first, then CKey index,
CKey pages, EKey index, EKey pages; whatever follows `end_` is the trailing self-describing ESpec). -/
structure Layout where
  ckIndex : Nat
  ckPages : Nat
  ekIndex : Nat
  ekPages : Nat
  end_ : Nat
deriving DecidableEq, Repr

def layout (h : Header) : Layout :=
  let a := 22 + h.especSize
  let b := a + 32 * h.ckCount
  let c := b + h.ckCount * (h.ckKb * 1024)
  let e := c + 32 * h.ekCount
  { ckIndex := a, ckPages := b, ekIndex := c, ekPages := e, end_ := e + h.ekCount * (h.ekKb * 1024) }

/-- page `i` of a table whose pages start at `off`, and the 16 checksum bytes of index entry `i`
of an index that starts at `off`. -/
def pageAt (d : Bytes) (off ps i : Nat) : Bytes := slice d (off + i * ps) ps
def sumAt (d : Bytes) (off i : Nat) : Bytes := slice d (off + (32 * i + 16)) 16

/-- (stored checksum, page) of every page of one table, in file order. -/
def pageMap (d : Bytes) (idxOff pagesOff ps n : Nat) : List (Bytes × Bytes) :=
  (List.range n).map fun i => (sumAt d idxOff i, pageAt d pagesOff ps i)

end Enc

/-! ## Archive index footer -/
namespace Aidx

inductive Out where
  | panic | io | checksum | format | size
  | pass (version offsetBytes ekeyLen count : Nat)
deriving DecidableEq, Repr

/-- `validate_format` on the 20 fixed footer bytes. -/
def formatOk (f : Bytes) : Bool :=
  decide (byteAt f 8 ≤ 1) && byteAt f 9 == 0 && byteAt f 10 == 0 && byteAt f 11 == 4
    && (byteAt f 12 == 4 || byteAt f 12 == 5 || byteAt f 12 == 6) && byteAt f 13 == 4
    && decide (1 ≤ byteAt f 14 ∧ byteAt f 14 ≤ 16) && byteAt f 15 == 8

/-- the file size `validate_file_size` expects from the footer fields. -/
def expectedSize (f : Bytes) : Nat :=
  let rec_ := byteAt f 14 + byteAt f 13 + byteAt f 12
  let rpp := (byteAt f 11 * 1024) / rec_
  let cnt := leNat (slice f 16 4)
  let toc := (cnt + rpp - 1) / rpp
  toc * (byteAt f 11 * 1024) + toc * (byteAt f 14 + byteAt f 15) + (20 + byteAt f 15)

/-- the 20 bytes `calculate_footer_hash` hashes: footer fields `[8,20)` then 8 zero bytes. -/
def hashedOf (f : Bytes) : Bytes := f.drop 8 ++ List.replicate 8 (0 : Byte)

/-- `ArchiveIndex::parse` up to `validate_file_size` (`checkSize`), resp. `ChunkedArchiveIndex::open`. -/
def footerCheck (H : Hash) (checkSize : Bool) (d : Bytes) : Out :=
  let n := d.length
  if n < 13 then .io
  else
    let hb := byteAt d (n - 13)
    if hb ≠ 8 then .format                                    -- fix 6b0ee35: size byte checked before it sizes anything
    else if n < 20 + hb then .io
    else
      let f := slice d (n - (20 + hb)) 20
      let fh := d.drop (n - hb)
      let hb2 := byteAt f 15
      let al := min hb hb2
      let expected := (H (hashedOf f)).take 8
      if 8 < al then .panic                                   -- `expected[..actual_len]`
      else if fh.take al ≠ expected.take al then
        (if hb < 8 then .panic else .checksum)                -- `footer.footer_hash[..8]` in the error path
      else if !formatOk f then .format
      else if checkSize && (let rec_ := byteAt f 14 + byteAt f 13 + byteAt f 12; (byteAt f 11 * 1024) / rec_ == 0) then .format
      else if checkSize && n != expectedSize f then .size
      else .pass (byteAt f 8) (byteAt f 12) (byteAt f 14) (leNat (slice f 16 4))

/-- `IndexFooter::is_valid` by itself, on the 28-byte footer record `toc_hash(8) ‖ fields(12) ‖
footer_hash(8)` read field by field into the struct (what `ArchiveIndex::parse` builds from a
footer whose size byte is 8): `actual_len = min(footer_hash.len(), footer_hash_bytes)` bytes of
the stored hash are compared with as many bytes of `H(fields ‖ 0⁸)[..8]` — slice EQUALITY, every
compared byte on its own (no folding of differences). `footerCheck` answers `checksum` exactly when
this is false (`Props.C07.aidx_checksum_stage_is_isValid`). -/
def isValid (H : Hash) (ft : Bytes) : Bool :=
  let f := ft.take 20
  let fh := ft.drop 20
  let al := min fh.length (byteAt f 15)
  fh.take al == ((H (hashedOf f)).take 8).take al

end Aidx

/-! ## Update-section entries -/
namespace Upd

def entrySize : Nat := 24
def pageSize : Nat := 512

/-- `UpdateStatus::from_byte` then `as u8`. -/
def canonStatus (b : Nat) : Nat := if b = 3 ∨ b = 6 ∨ b = 7 then b else 0

structure Entry where
  guard : Nat
  ekey : Bytes
  archiveId : Nat
  archiveOffset : Nat
  size : Nat
  status : Nat
deriving DecidableEq, Repr

/-- `UpdateEntry::from_bytes` (24 bytes). -/
def fromBytes (e : Bytes) : Entry :=
  let packed := beNat (slice e 14 4)
  { guard := leNat (e.take 4), ekey := slice e 4 9,
    archiveId := byteAt e 13 * 4 + packed / 2 ^ 30, archiveOffset := packed % 2 ^ 30,
    size := leNat (slice e 18 4), status := canonStatus (byteAt e 22) }

def be32Bytes (n : Nat) : Bytes :=
  [BitVec.ofNat 8 (n / 2 ^ 24), BitVec.ofNat 8 (n / 2 ^ 16), BitVec.ofNat 8 (n / 2 ^ 8), BitVec.ofNat 8 n]
def le32Bytes (n : Nat) : Bytes :=
  [BitVec.ofNat 8 n, BitVec.ofNat 8 (n / 2 ^ 8), BitVec.ofNat 8 (n / 2 ^ 16), BitVec.ofNat 8 (n / 2 ^ 24)]

/-- bytes `[4,23)` of `UpdateEntry::to_bytes`: what `compute_hash_guard` hashes. -/
def hashedOf (x : Entry) : Bytes :=
  x.ekey ++ [BitVec.ofNat 8 (x.archiveId / 4)] ++
    be32Bytes ((x.archiveId % 4) * 2 ^ 30 + x.archiveOffset % 2 ^ 30) ++ le32Bytes x.size ++ [BitVec.ofNat 8 x.status]

/-- `hashlittle(bytes[4..23], 0) | 0x8000_0000` with `HL` the 32-bit hash as a natural. -/
def guardOf (HL : Bytes → Nat) (r : Bytes) : Nat := HL r % 2 ^ 31 + 2 ^ 31

/-- the Rust expression itself: `hashlittle(…) | 0x8000_0000` on a `u32` (`= guardOf` by
`Proofs.Integrity.Upd.guardOf_eq_or`). -/
def guardOr (hl : BitVec 32) : Nat := (hl ||| 0x80000000#32).toNat

/-- `validate_hash_guard` on a parsed entry: recomputes over the RE-SERIALISED fields. -/
def validate (HL : Bytes → Nat) (e : Bytes) : Bool :=
  (fromBytes e).guard == guardOf HL (hashedOf (fromBytes e))

/-- the protected bytes in terms of the raw entry (= `hashedOf (fromBytes e)`, theorem
`Proofs.Integrity.upd_hashedOf_fromBytes`): `[4,22)` verbatim, status byte canonicalised. -/
def region (e : Bytes) : Bytes := slice e 4 18 ++ [BitVec.ofNat 8 (canonStatus (byteAt e 22))]

/-- `UpdatePage::from_bytes` on one 512-byte page: raw 24-byte slots up to the first zero guard. -/
def pageEntries : Nat → Bytes → List Bytes
  | 0, _ => []
  | n + 1, b =>
    if b.length < entrySize then [] else
    if leNat (b.take 4) = 0 then [] else b.take entrySize :: pageEntries n (b.drop entrySize)

/-- `UpdateSection::from_bytes`: pages until the first empty one. No guard is looked at. -/
def sectionEntries : Nat → Bytes → List Bytes
  | 0, _ => []
  | n + 1, d =>
    if d.length < pageSize then [] else
    match pageEntries (pageSize / entrySize) (d.take pageSize) with
    | [] => []
    | es => es ++ sectionEntries n (d.drop pageSize)

end Upd

/-! ## Local header -/
namespace Lhdr

def size : Nat := 30

/-- `compute_checksum_b`: XOR of the bytes into four lanes, lane of byte `i` = `(base+i) & 3`. -/
def lanes : Nat → Bytes → (Nat → Byte) → (Nat → Byte)
  | _, [], f => f
  | i, b :: bs, f => lanes (i + 1) bs (fun j => if j = i % 4 then f j ^^^ b else f j)

def checksumB (base : Nat) (h : Bytes) : Bytes :=
  let f := lanes base (h.take 26) (fun _ => 0)
  [f 0, f 1, f 2, f 3]

/-- `validate_checksums(base)` on the 30 raw bytes (`to_bytes ∘ from_bytes` is the identity on them:
every field is fixed width). `HA` = `hashlittle(·, 0x3D6BE971)` as a natural. -/
def validate (HA : Bytes → Nat) (base : Nat) (h : Bytes) : Bool :=
  leNat (slice h 22 4) == HA (h.take 22) % 2 ^ 32 && slice h 26 4 == checksumB base h

/-- `SegmentHeader::from_bytes`: sixteen headers, none validated. Returns the raw 30-byte records. -/
def segmentHeaders : Nat → Bytes → List Bytes
  | 0, _ => []
  | n + 1, d => d.take size :: segmentHeaders n (d.drop size)

def segmentLoad (d : Bytes) : Option (List Bytes) :=
  if d.length < 16 * size then none else some (segmentHeaders 16 d)

end Lhdr

/-! ## V1 `Checksum:` epilogue -/
namespace V1

/-- `"Checksum: "` -/
def pfx : Bytes := [0x43, 0x68, 0x65, 0x63, 0x6b, 0x73, 0x75, 0x6d, 0x3a, 0x20]

def isHexDigit (b : Byte) : Bool :=
  (0x30 ≤ b.toNat && b.toNat ≤ 0x39) || (0x61 ≤ b.toNat && b.toNat ≤ 0x66) || (0x41 ≤ b.toNat && b.toNat ≤ 0x46)

/-- `windows(10).rposition(== prefix)`: greatest `p < bound` with the prefix at `p`. -/
def rfind (raw : Bytes) : Nat → Option Nat
  | 0 => none
  | p + 1 => if slice raw p 10 = pfx then some p else rfind raw p

/-- index of the first `\n` at or after the start of `b`, relative. -/
def findNl : Bytes → Option Nat
  | [] => none
  | x :: xs => if x = 0x0a then some 0 else (findNl xs).map (· + 1)

/-- end of the checksum line: the first `\n` at or after `p`, or the end of the input. -/
def lineEnd (raw : Bytes) (p : Nat) : Nat :=
  match findNl (raw.drop p) with | some i => p + i | none => raw.length

/-- … with one trailing `\r` stripped. -/
def hexEnd (raw : Bytes) (p : Nat) : Nat :=
  if 0 < lineEnd raw p ∧ byteAt raw (lineEnd raw p - 1) = 0x0d then lineEnd raw p - 1 else lineEnd raw p

/-- `extract_checksum`: (message bytes, checksum text). A line that is not exactly 64 hex digits
is treated as NO checksum: the whole input is the message and nothing will be verified. -/
def extract (raw : Bytes) : Bytes × Option Bytes :=
  match rfind raw (raw.length + 1 - 10) with
  | none => (raw, none)
  | some p =>
    let c := slice raw (p + 10) (hexEnd raw p - (p + 10))
    if p + 10 < hexEnd raw p ∧ c.length = 64 ∧ c.all isHexDigit = true then (raw.take p, some c) else (raw, none)

def hexc (n : Nat) : Byte := if n < 10 then BitVec.ofNat 8 (0x30 + n) else BitVec.ofNat 8 (0x61 + n - 10)
/-- `format!("{:x}")` of a digest. -/
def hexLower : Bytes → Bytes
  | [] => []
  | b :: bs => hexc (b.toNat / 16) :: hexc (b.toNat % 16) :: hexLower bs

inductive Out where
  | checksumErr
  | pass (msg : Bytes) (ck : Option Bytes)
deriving DecidableEq, Repr

/-- `extract_checksum` then `validate_checksum` (the part of `parse_v1_mime_response` before MIME). -/
def check (H : Hash) (raw : Bytes) : Out :=
  match extract raw with
  | (m, none) => .pass m none
  | (m, some c) => if hexLower (H m) = c then .pass m (some c) else .checksumErr

end V1

/-! ## Validating caches -/
namespace Cache

abbrev Layer := List (Bytes × Bytes)

def lookup (k : Bytes) : Layer → Option Bytes
  | [] => none
  | (k', v) :: r => if k' = k then some v else lookup k r

def erase (k : Bytes) (l : Layer) : Layer := l.filter (fun p => p.1 ≠ k)
def insert (k v : Bytes) (l : Layer) : Layer := (k, v) :: erase k l

/-- first layer that has the key (the `for layer in layers` loop). -/
def firstHit (k : Bytes) : List Layer → Option Bytes
  | [] => none
  | l :: ls => match lookup k l with | some v => some v | none => firstHit k ls

structure Cfg where
  hooks : Bool          -- `validation_hooks.is_some()`
  skipAbove : Nat       -- `Md5ValidationHooks::should_skip_validation`: data_size > 100 MiB

inductive Out where
  | ok | none | hit (v : Bytes) | invalid | corrupt | badLayer
deriving DecidableEq, Repr

/-- `NgdpBytes::new_with_key(v, c).validate_with_hooks(md5 hooks)`: valid? -/
def hooksValidLen (cfg : Cfg) (len : Nat) (hashMatches : Bool) : Bool := decide (cfg.skipAbove < len) || hashMatches

def hooksValid (H : Hash) (cfg : Cfg) (c v : Bytes) : Bool := hooksValidLen cfg v.length (H v == c)

/-- `MultiLayerCacheImpl::get_with_validation(key, expected)`. -/
def getValidated (H : Hash) (cfg : Cfg) (s : List Layer) (k : Bytes) (expected : Option Bytes) : List Layer × Out :=
  match firstHit k s with
  | none => (s, .none)
  | some v =>
    match cfg.hooks, expected with
    | true, some c => if hooksValid H cfg c v then (s, .hit v) else (s.map (erase k), .corrupt)
    | _, _ => (s, .hit v)

/-- `put_with_validation(key, content_key, value)`: layer 0 only, after validation. -/
def putValidated (H : Hash) (cfg : Cfg) (s : List Layer) (k c v : Bytes) : List Layer × Out :=
  if cfg.hooks && !hooksValid H cfg c v then (s, .invalid)
  else match s with
    | [] => (s, .badLayer)
    | l :: ls => (insert k v l :: ls, .ok)

/-- `put_to_layer(key, value, i)` — also how the adversary rewrites a backing store. -/
def putLayer (s : List Layer) (i : Nat) (k v : Bytes) : List Layer × Out :=
  if i < s.length then (s.modify i (insert k v), .ok) else (s, .badLayer)

/-- overwrite the backing file of layer `i` if the key has one (corrupt-backing-file). -/
def corruptLayer (s : List Layer) (i : Nat) (k v : Bytes) : List Layer × Out :=
  match s[i]? with
  | some l => if (lookup k l).isSome then (s.modify i (insert k v), .ok) else (s, .none)
  | none => (s, .badLayer)

/-- `ContentAddressedCache::get_validated(content_key)`: the inner cache is one layer keyed by the
content key; no size exemption (`validate_content` is called directly). -/
def caGet (H : Hash) (l : Layer) (c : Bytes) : Out :=
  match lookup c l with
  | none => .none
  | some v => if H v == c then .hit v else .invalid

/-- `get_with_validation` while the backing FILE of the disk layer (layer 1 of a memory + disk
stack) is rewritten with `alt` during the call: `m = 0` — just before the layer's first read of the
file; `m ≥ 1` — right after its `m`-th completed read. The code as written reads each layer at most
once and hands out the buffer it validated, so a rewrite after the read cannot reach the caller; it
stays in the store unless the failed validation removed the entry. Returns the new layers, the
outcome and the number of reads of the disk file made by the call. -/
def getValidatedFault (H : Hash) (cfg : Cfg) (s : List Layer) (k : Bytes) (expected : Option Bytes)
    (m : Nat) (alt : Bytes) : List Layer × Out × Nat :=
  let made : Nat :=
    match s with
    | l0 :: l1 :: _ => if (lookup k l0).isNone && (lookup k l1).isSome then 1 else 0
    | _ => 0
  if m = 0 then
    let s0 := if made = 1 then (corruptLayer s 1 k alt).1 else s
    let r := getValidated H cfg s0 k expected
    (r.1, r.2, made)
  else
    let r := getValidated H cfg s k expected
    let s' := if m ≤ made then (match r.2 with | .hit _ => (corruptLayer r.1 1 k alt).1 | _ => r.1) else r.1
    (s', r.2, made)

/-- `ContentAddressedCache::get_validated` against a backing store that may answer EVERY read
differently (a concurrent writer, another process rewriting the DiskCache file, a failing disk,
an entry expiring): `r k` is what the `k`-th `inner.get` made by this one call returns
(`k = 1, 2, …`). The code as written reads ONCE, hashes that buffer and hands out that same
buffer. Returns the outcome and the number of reads made. -/
def caGetReads (H : Hash) (r : Nat → Option Bytes) (c : Bytes) : Out × Nat :=
  match r 1 with
  | none => (.none, 1)
  | some v => (if H v == c then .hit v else .invalid, 1)

/-- a fault of the backing store during one call: at its `n`-th read of the key the store answers
`alt` (`none` = the entry is gone) instead of what it holds; `stays` = the store was rewritten just
before that read (later reads and later calls see `alt` too), otherwise only that read is affected. -/
structure Fault where
  n : Nat
  stays : Bool
  alt : Option Bytes
deriving Repr

/-- what the `k`-th read of the call returns when the store holds `cur` at the start. -/
def Fault.reads (f : Fault) (cur : Option Bytes) (k : Nat) : Option Bytes :=
  if k = f.n || (f.stays && decide (f.n < k)) then f.alt else cur

/-- the store after a call that made `made` reads. -/
def Fault.after (f : Fault) (c : Bytes) (l : Layer) (made : Nat) : Layer :=
  if f.stays && decide (f.n ≤ made) then (match f.alt with | some b => insert c b l | none => erase c l) else l

/-- `ContentAddressedCache::put_validated`. -/
def caPut (H : Hash) (l : Layer) (c v : Bytes) : Layer × Out :=
  if H v == c then (insert c v l, .ok) else (l, .invalid)

inductive Op where
  | putV (k c v : Bytes)
  | putL (i : Nat) (k v : Bytes)
  | corrupt (i : Nat) (k v : Bytes)
  | getV (k : Bytes) (expected : Option Bytes)
deriving Repr

def step (H : Hash) (cfg : Cfg) (s : List Layer) : Op → List Layer × Out
  | .putV k c v => putValidated H cfg s k c v
  | .putL i k v => putLayer s i k v
  | .corrupt i k v => corruptLayer s i k v
  | .getV k e => getValidated H cfg s k e

/-- a whole history: the outputs paired with the operation that produced them. -/
def run (H : Hash) (cfg : Cfg) : List Layer → List Op → List (Op × Out)
  | _, [] => []
  | s, op :: ops => let r := step H cfg s op; (op, r.2) :: run H cfg r.1 ops

end Cache

end Cascette.Model.Integrity
