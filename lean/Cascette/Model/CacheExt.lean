/-
Model/CacheExt — the parts of `MemoryCache` / `DiskCache` around the core models of
Model/MemCache and Model/DiskCache (which other properties import and which therefore stay as
they are):

* `Metrics`      — `AtomicCacheMetrics` as far as `stats()` reports it: `get_count`, `hit_count`
                   (`record_get(hit, _)` in every return path of `get`), zeroed by `clear`
                   (`metrics.reset()`); `miss_count` is computed by `cache_stats` as
                   `snapshot.get_count - snapshot.hit_count` (a `u64` subtraction).
* `cleanupTick`  — one tick of the task `MemoryCache::new_with_cleanup` spawns (after the fix
                   that lets it work on the live map and counters instead of a deep
                   `DashMap::clone`): collect the keys of the expired entries, `remove_if` still
                   expired, `entry_count -= 1`, `memory_usage -= size` per removed entry.  The
                   task runs between two operations of the cache (sequential model; the
                   interleavings with a running operation are C11's subject).
* `AOp` / `elabOp` — an operation as the CALLER issues it (a put carries no victim list); `elabOp`
                   fills in the victims `detVictims` computes.  This is what `Driver/C10` runs
                   for `ev=auto`.
-/
import Cascette.Model.MemCache
import Cascette.Model.DiskCache
namespace Cascette.Model.CacheExt
open Cascette.Spec.CacheMap (Key Val)
open Cascette.Model.CacheAssoc

structure Metrics where
  gets : Nat
  hits : Nat
  deriving Repr, DecidableEq

def Metrics.zero : Metrics := { gets := 0, hits := 0 }

/-- `record_get(hit, _)` -/
def Metrics.record (m : Metrics) (hit : Bool) : Metrics :=
  { gets := m.gets + 1, hits := if hit then m.hits + 1 else m.hits }

/-- `miss_count: snapshot.get_count - snapshot.hit_count` — as an integer; the theorem
`metrics_hits_le_gets` shows it is never negative, i.e. the `u64` subtraction never wraps. -/
def Metrics.misses (m : Metrics) : Int := (m.gets : Int) - (m.hits : Int)

/-! ## in-memory cache -/
namespace Mem
open Cascette.Model.MemCache

/-- `MemoryCacheConfig::validate` (what `MemoryCache::new` / `new_with_cleanup` start with) -/
def validate (maxEntries : Nat) (maxBytes : Option Nat) (cleanupZero : Bool) : Bool :=
  if maxEntries = 0 then false
  else if maxBytes = some 0 then false
  else if cleanupZero then false
  else true

/-- one tick of the background cleanup task -/
def cleanupTick (s : State) : State := evictKeys s (expiredKeys s.store)

structure XState where
  s : State
  m : Metrics
  deriving Repr

def xinit : XState := { s := init, m := .zero }

inductive XOp where
  | base (op : Op)
  /-- a tick of the cleanup task (instances made by `new_with_cleanup` only) -/
  | cleanup
  deriving Repr

inductive XOut where
  | base (o : Out)
  /-- `stats()`: entry_count, memory_usage_bytes, get_count, hit_count, miss_count -/
  | stats (n b : Int) (gets hits : Nat) (misses : Int)
  | unit
  deriving Repr, DecidableEq

def xstep (cfg : Config) (x : XState) : XOp → XState × XOut
  | .cleanup => ({ x with s := cleanupTick x.s }, .unit)
  | .base (.get k) =>
    let r := Model.MemCache.get (tick x.s) k
    ({ s := r.1, m := x.m.record r.2.isSome }, .base (.val r.2))
  | .base .clear => ({ s := (step cfg x.s .clear).1, m := .zero }, .base .unit)
  | .base .stats =>
    let s := tick x.s
    ({ x with s := s }, .stats s.count s.bytes x.m.gets x.m.hits x.m.misses)
  | .base op => let r := step cfg x.s op; ({ x with s := r.1 }, .base r.2)

def xrun (cfg : Config) (x : XState) (ops : List XOp) : XState :=
  ops.foldl (fun x op => (xstep cfg x op).1) x

def absXOp (cfg : Config) : XOp → Cascette.Spec.CacheMap.Op
  | .base op => absOp cfg op
  | .cleanup => .other

def xopOk (cfg : Config) (x : XState) : XOp → Bool
  | .base op => opOk cfg x.s op
  | .cleanup => true

def xrunOk (cfg : Config) : XState → List XOp → Bool
  | _, [] => true
  | x, op :: ops => xopOk cfg x op && xrunOk cfg (xstep cfg x op).1 ops

/-- an operation as the caller issues it -/
inductive AOp where
  | put (k : Key) (v : Val)
  | putTtl (k : Key) (v : Val) (short : Bool)
  | get (k : Key)
  | contains (k : Key)
  | remove (k : Key)
  | clear
  | size
  | stats
  | cleanup
  deriving Repr

/-- the victims the model computes itself (what `Driver/C10` does for `ev=auto`) -/
def autoVictims (cfg : Config) (s : State) : List Key :=
  detVictims cfg.policy (tick s).store (evictN cfg (tick s))

def elabOp (cfg : Config) (s : State) : AOp → XOp
  | .put k v => .base (.put k v (autoVictims cfg s))
  | .putTtl k v short => .base (.putTtl k v short (autoVictims cfg s))
  | .get k => .base (.get k)
  | .contains k => .base (.contains k)
  | .remove k => .base (.remove k)
  | .clear => .base .clear
  | .size => .base .size
  | .stats => .base .stats
  | .cleanup => .cleanup

def astep (cfg : Config) (x : XState) (a : AOp) : XState × XOut := xstep cfg x (elabOp cfg x.s a)

def arun (cfg : Config) (x : XState) (ops : List AOp) : XState :=
  ops.foldl (fun x a => (astep cfg x a).1) x

/-- the elaborated history (victim lists filled in along the run) -/
def elabRun (cfg : Config) : XState → List AOp → List XOp
  | _, [] => []
  | x, a :: t => elabOp cfg x.s a :: elabRun cfg (astep cfg x a).1 t

end Mem

/-! ## on-disk cache -/
namespace Disk
open Cascette.Model.DiskCache

/-- `DiskCacheConfig::validate` -/
def validate (maxFiles : Nat) (maxBytes : Option Nat) (cleanupZero syncZero useSub : Bool) (levels : Nat) : Bool :=
  if maxFiles = 0 then false
  else if maxBytes = some 0 then false
  else if cleanupZero then false
  else if syncZero then false
  else if useSub && levels = 0 then false
  else true

/-- the cleanup task's treatment of one key: still indexed with an ended TTL → unindex, delete
the file, adjust the counters (the same three steps as the expired path of `get`) -/
def dropIfExpired (s : State) (k : Key) : State :=
  match lookup k s.index with
  | some e => if e.short then { unindex s k e with files := erase k s.files } else s
  | none => s

/-- one tick of the cleanup task `new_with_background_tasks` spawns (after the fix that lets it
adjust the cache's own counters), for a cache within `max_files` / `max_disk_bytes` whose entries
are younger than 24 h (the harness's configuration): under the index write lock every entry whose
TTL has ended is removed from the index and its file deleted; counters adjusted per deleted file. -/
def cleanupTick (s : State) : State :=
  ((s.index.filter (fun p => p.2.short)).map (·.1)).foldl dropIfExpired s

structure XState where
  s : State
  m : Metrics
  deriving Repr

def xinit : XState := { s := init, m := .zero }

inductive XOp where
  | base (op : Op)
  /-- a tick of the cleanup task (instances made by `new_with_background_tasks` only) -/
  | cleanup
  /-- `put` / `put_with_ttl` of a key whose file the file system refuses to create (the key text, or
  the temporary name `write_file` derives from it, is longer than NAME_MAX): `write_file` fails
  when it opens the temporary file and `?` hands the error to the caller before the index, a
  counter or the metrics are touched.  Such a key has never been stored, so `get` / `contains` /
  `remove` of it take the ordinary "not indexed, no file" paths. -/
  | putRefused (k : Key) (v : Val)
  deriving Repr

inductive XOut where
  | base (o : Out)
  | stats (n b : Int) (gets hits : Nat) (misses : Int)
  /-- `Err(CacheError::Io(_))` of a refused put -/
  | err
  deriving Repr, DecidableEq

/-- `get` records a hit exactly when it returns a value (the read-error path records a miss);
`clear` resets the metrics; a re-created instance starts with fresh ones. -/
def xstep (cfg : Config) (x : XState) : XOp → XState × XOut
  | .cleanup => ({ x with s := cleanupTick x.s }, .base .unit)
  | .putRefused _ _ => (x, .err)
  | .base (.get k) =>
    let r := Model.DiskCache.get x.s k
    ({ s := r.1, m := x.m.record (match r.2 with | .hit _ => true | _ => false) }, .base (.got r.2))
  | .base .clear => ({ s := (step cfg x.s .clear).1, m := .zero }, .base .unit)
  | .base .reopen => ({ s := (step cfg x.s .reopen).1, m := .zero }, .base .unit)
  | .base .stats => (x, .stats x.s.count x.s.bytes x.m.gets x.m.hits x.m.misses)
  | .base op => let r := step cfg x.s op; ({ x with s := r.1 }, .base r.2)

def xrun (cfg : Config) (x : XState) (ops : List XOp) : XState :=
  ops.foldl (fun x op => (xstep cfg x op).1) x

def absXOp (cfg : Config) : XOp → Cascette.Spec.CacheMap.Op
  | .base op => absOp cfg op
  | .cleanup => .other
  -- not a successful put: the reference map keeps what it had
  | .putRefused _ _ => .other

end Disk

end Cascette.Model.CacheExt
