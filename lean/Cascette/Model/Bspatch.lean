/-
Model/Bspatch — executable model of crates/cascette-formats/src/zbsdiff AS WRITTEN
(after /repo commit 5dfb3c4, which repaired the chunked builder: relative seek 0 for extra-only
entries, simple-patch fallback for empty new content).

  utils.rs    offtin / offtout (sign-magnitude), ControlEntry::validate, ControlBlock::{from_compressed
              (record loop), with_entries}                                   → `offtin`, `offtout`, `parseCtl`, `validateEntries`
  patcher.rs  apply_patch_with_data (byte loops)                             → `memApply`
              ZbsdiffPatcher::apply_patch (buffer-sized chunks)              → `streamApply`
  builder.rs  build_simple_patch / build_chunked_patch / build_optimized_patch → `simple`, `chunked`, `suffix`, `suffixBlk` (with_max_diff_block_size)
  suffix.rs   matchlen, search (binary search over the suffix array), compute_diff → `matchLenAt`, `searchSA`, `computeDiff`
  header.rs   validate (only the output_size bound is modelled; the compressed sizes depend on zlib)

zlib (flate2) and divsufsort are parameters: the model works on the inflated blocks, and takes
the suffix array of `old` as an input (the harness computes it by sorting the suffixes; it is
unique). `pinnedChunked` keeps the builder as it was before the repair, for the counter-witness.
-/
import Cascette.Spec.Bspatch
namespace Cascette.Model.Bspatch
open Cascette
open Cascette.Spec.Bspatch (Ctl padTake addBytes subBytes seekPos usizeMax)

/-- error classes (canonicalised the same way by the harness). -/
inductive Err where
  | short | size | emptyCtl | badEntry | ctlTrunc | header
deriving DecidableEq, Repr

def Err.text : Err → String
  | .short => "err:short" | .size => "err:size" | .emptyCtl => "err:empty-ctl"
  | .badEntry => "err:bad-entry" | .ctlTrunc => "err:ctl-trunc" | .header => "err:header"

/-- `ControlEntry::validate`: MAX_OP_SIZE. -/
def maxOp : Nat := 10000000
/-- `ZbsdiffHeader::validate`: MAX_SIZE. -/
def maxSize : Nat := 1000000000

/-! ### utils.rs — control block codec -/

def leNat : Bytes → Nat
  | [] => 0
  | b :: bs => b.toNat + 256 * leNat bs

/-- `offtin`: bit 63 = sign, bits 0–62 = magnitude, little-endian. Defined on 8-byte input. -/
def offtin : Bytes → Int
  | [b0, b1, b2, b3, b4, b5, b6, b7] =>
    let m : Nat := leNat [b0, b1, b2, b3, b4, b5, b6] + 2 ^ 56 * (b7.toNat % 128)
    if b7.toNat ≥ 128 then -(m : Int) else (m : Int)
  | _ => 0

def natLe : Nat → Nat → Bytes
  | 0, _ => []
  | k + 1, n => BitVec.ofNat 8 n :: natLe k (n / 256)

/-- `offtout` (for |v| < 2^63). -/
def offtout (v : Int) : Bytes :=
  let m := v.natAbs
  natLe 7 m ++ [BitVec.ofNat 8 (m / 2 ^ 56 % 128 + (if v < 0 then 128 else 0))]

def encodeCtl : List Ctl → Bytes
  | [] => []
  | c :: cs => offtout c.diff ++ offtout c.extra ++ offtout c.seek ++ encodeCtl cs

/-- the record loop of `ControlBlock::from_compressed` on the inflated bytes (first failing
record decides the error, as in the Rust loop). -/
def parseRecords (l : Bytes) : Except Err (List Ctl) :=
  if l.length = 0 then .ok [] else
  if l.length < 24 then .error .ctlTrunc else
    let d := offtin (l.take 8)
    let e := offtin ((l.drop 8).take 8)
    let s := offtin ((l.drop 16).take 8)
    if d < 0 ∨ e < 0 ∨ d > maxOp ∨ e > maxOp then .error .badEntry else
    match parseRecords (l.drop 24) with
    | .error x => .error x
    | .ok cs => .ok (⟨d.toNat, e.toNat, s⟩ :: cs)
termination_by l.length
decreasing_by simp only [List.length_drop]; omega

def parseCtl (l : Bytes) : Except Err (List Ctl) :=
  match parseRecords l with
  | .error x => .error x
  | .ok [] => .error .emptyCtl
  | .ok cs => .ok cs

/-! ### patcher.rs — memory patcher (byte loops) -/

/-- `for i in 0..diff_size`: fail when the diff cursor is at its end, else push
`read_old_byte_at(old, old_pos) + diff_byte`. `o` is `old[old_pos..]`, `d` the cursor's rest. -/
def memDiffLoop : Nat → Bytes → Bytes → Option (Bytes × Bytes)
  | 0, _, d => some ([], d)
  | _ + 1, _, [] => none
  | n + 1, o, x :: d =>
    match memDiffLoop n o.tail d with
    | none => none
    | some (out, d') => some ((o.headD 0 + x) :: out, d')

def memExtraLoop : Nat → Bytes → Option (Bytes × Bytes)
  | 0, e => some ([], e)
  | _ + 1, [] => none
  | n + 1, x :: e =>
    match memExtraLoop n e with
    | none => none
    | some (out, e') => some (x :: out, e')

/-- `if entry.seek_offset != 0 { saturating_sub / saturating_add }`. -/
def seekStep (p : Nat) (s : Int) : Nat :=
  if s = 0 then p else if s < 0 then p - s.natAbs else min (p + s.toNat) usizeMax

def memEntries (old : Bytes) : List Ctl → Nat → Bytes → Bytes → Option Bytes
  | [], _, _, _ => some []
  | c :: cs, p, d, e =>
    match memDiffLoop c.diff (old.drop p) d with
    | none => none
    | some (o1, d') =>
      match memExtraLoop c.extra e with
      | none => none
      | some (o2, e') =>
        match memEntries old cs (seekStep (p + c.diff) c.seek) d' e' with
        | none => none
        | some rest => some (o1 ++ (o2 ++ rest))

/-! ### patcher.rs — streaming patcher (chunks of `buffer_size`) -/

/-- `with_buffer_size`: minimum 1 KiB. -/
def clampBuf (b : Nat) : Nat := max b 1024

/-- `apply_diff_block`: `while remaining > 0 { chunk = min(remaining, buf); read_exact; read_old_chunk
(zero-filled beyond EOF); add }`. Fuel = remaining (buf ≥ 1). -/
def streamDiff (buf : Nat) (old : Bytes) : Nat → Nat → Nat → Bytes → Option (Bytes × Bytes)
  | 0, _, _, d => some ([], d)
  | f + 1, rem, p, d =>
    if rem = 0 then some ([], d) else
    let c := min rem buf
    if d.length < c then none else
    match streamDiff buf old f (rem - c) (p + c) (d.drop c) with
    | none => none
    | some (o, d') => some (addBytes (padTake c (old.drop p)) (d.take c) ++ o, d')

def streamExtra (buf : Nat) : Nat → Nat → Bytes → Option (Bytes × Bytes)
  | 0, _, e => some ([], e)
  | f + 1, rem, e =>
    if rem = 0 then some ([], e) else
    let c := min rem buf
    if e.length < c then none else
    match streamExtra buf f (rem - c) (e.drop c) with
    | none => none
    | some (o, e') => some (e.take c ++ o, e')

def streamEntries (buf : Nat) (old : Bytes) : List Ctl → Nat → Bytes → Bytes → Option Bytes
  | [], _, _, _ => some []
  | c :: cs, p, d, e =>
    match streamDiff buf old c.diff c.diff p d with
    | none => none
    | some (o1, d') =>
      match streamExtra buf c.extra c.extra e with
      | none => none
      | some (o2, e') =>
        match streamEntries buf old cs (seekStep (p + c.diff) c.seek) d' e' with
        | none => none
        | some rest => some (o1 ++ (o2 ++ rest))

/-- the final `output.len() != expected` check. -/
def finish (outSize : Nat) : Option Bytes → Except Err Bytes
  | none => .error .short
  | some out => if out.length = outSize then .ok out else .error .size

/-- `apply_patch_with_data`. -/
def memApply (old : Bytes) (ctl : List Ctl) (diff extra : Bytes) (outSize : Nat) : Except Err Bytes :=
  finish outSize (memEntries old ctl 0 diff extra)

/-- `ZbsdiffPatcher::new(old, header.output_size).with_buffer_size(buf).apply_patch`. -/
def streamApply (buf : Nat) (old : Bytes) (ctl : List Ctl) (diff extra : Bytes) (outSize : Nat) : Except Err Bytes :=
  finish outSize (streamEntries (clampBuf buf) old ctl 0 diff extra)

/-- `apply_patch_memory` / `apply_patch_from_data` from the header's output size and the
inflated blocks: header validation, control block parse, then the patcher. `buf = none` is the
memory patcher. -/
def applyBytes (buf : Option Nat) (old ctlBytes diff extra : Bytes) (outSize : Nat) : Except Err Bytes :=
  if outSize > maxSize then .error .header else
  match parseCtl ctlBytes with
  | .error x => .error x
  | .ok ctl =>
    match buf with
    | none => memApply old ctl diff extra outSize
    | some b => streamApply b old ctl diff extra outSize

/-- `ZbsdiffPatcher::new(old, caller_size).with_buffer_size(buf).apply_patch_from_data(patch)`:
the header is parsed and validated, but the final length check is against the size the CALLER
gave to `new`, never against `header.output_size`. (`applyBytes (some buf)` is the documented use
`caller_size = header.output_size`.) -/
def applyBytesStreamCaller (callerSize buf : Nat) (old ctlBytes diff extra : Bytes) (headerSize : Nat) : Except Err Bytes :=
  if headerSize > maxSize then .error .header else
  match parseCtl ctlBytes with
  | .error x => .error x
  | .ok ctl => streamApply buf old ctl diff extra callerSize

/-! ### builder.rs -/

structure Blocks where
  ctl : List Ctl
  diff : Bytes
  extra : Bytes
deriving DecidableEq, Repr, Inhabited

structure Patch where
  ctl : List Ctl
  diff : Bytes
  extra : Bytes
  outSize : Nat
deriving DecidableEq, Repr

/-- `ControlBlock::with_entries` (+ the header's output-size bound of `build_patch_internal`). -/
def assemble (b : Blocks) (newLen : Nat) : Except Err Patch :=
  if b.ctl = [] then .error .emptyCtl else
  if b.ctl.any (fun c => decide (c.diff > maxOp ∨ c.extra > maxOp)) then .error .badEntry else
  if newLen > maxSize then .error .header else
  .ok ⟨b.ctl, b.diff, b.extra, newLen⟩

/-- `build_simple_patch`. -/
def simple (new : Bytes) : Except Err Patch :=
  assemble ⟨[⟨0, new.length, 0⟩], [], new⟩ new.length

/-- `find_matching_chunk`: common prefix of `old[old_pos..]` and `new[new_pos..]`, at most `cap`
(`cap` = max_diff_block_size; the two length bounds are the ends of the lists). -/
def matchLen : Nat → Bytes → Bytes → Nat
  | 0, _, _ => 0
  | _ + 1, [], _ => 0
  | _ + 1, _ :: _, [] => 0
  | c + 1, x :: xs, y :: ys => if x = y then matchLen c xs ys + 1 else 0

/-- the `while new_pos < new.len()` loop of `build_chunked_patch`. `o = old[old_pos..]`,
`n = new[new_pos..]`, `p = old_pos`; `seekOf p` is what is written into the seek field of an
extra-only entry (`0` in the repaired code, `p` in the pinned code); `xcap` = 256. Fuel = |new|
(every round consumes at least one byte of `n`). -/
def chunkedLoop (maxBlk xcap : Nat) (seekOf : Nat → Int) : Nat → Nat → Bytes → Bytes → Blocks
  | 0, _, _, _ => ⟨[], [], []⟩
  | f + 1, p, o, n =>
    if n = [] then ⟨[], [], []⟩ else
    let k := matchLen maxBlk o n
    if k ≥ 4 then
      let r := chunkedLoop maxBlk xcap seekOf f (p + k) (o.drop k) (n.drop k)
      ⟨⟨k, 0, 0⟩ :: r.ctl, subBytes (n.take k) (padTake k o) ++ r.diff, r.extra⟩
    else
      let e := min n.length xcap
      let r := chunkedLoop maxBlk xcap seekOf f p o (n.drop e)
      ⟨⟨0, e, seekOf p⟩ :: r.ctl, r.diff, n.take e ++ r.extra⟩

def chunkedBlocks (maxBlk : Nat) (old new : Bytes) : Blocks :=
  chunkedLoop maxBlk 256 (fun _ => 0) new.length 0 old new

/-- `build_chunked_patch` (repaired). -/
def chunked (maxBlk : Nat) (old new : Bytes) : Except Err Patch :=
  let b := chunkedBlocks maxBlk old new
  if b.ctl = [] then simple new else assemble b new.length

/-- `build_chunked_patch` as pinned (absolute `old_pos` in the seek field, no fallback). -/
def pinnedChunked (maxBlk : Nat) (old new : Bytes) : Except Err Patch :=
  assemble (chunkedLoop maxBlk 256 (fun p => (p : Int)) new.length 0 old new) new.length

/-! ### suffix.rs -/

/-- `matchlen(&old[p..], &new[q..])` by index. Fuel ≥ |new| − q. -/
def matchLenAt (oa na : Array Byte) : Nat → Nat → Nat → Nat
  | 0, _, _ => 0
  | f + 1, p, q =>
    if p < oa.size ∧ q < na.size ∧ oa.getD p 0 = na.getD q 0 then matchLenAt oa na f (p + 1) (q + 1) + 1 else 0

/-- the `while en - st > 1` loop of `search`. -/
def bsearch (sa : Array Nat) (oa na : Array Byte) (scan : Nat) : Nat → Nat → Nat → Nat × Nat
  | 0, st, en => (st, en)
  | f + 1, st, en =>
    if en - st > 1 then
      let pivot := st + (en - st) / 2
      let pp := sa.getD pivot 0
      let pl := matchLenAt oa na (na.size - scan) pp scan
      if pl = na.size - scan ∨ (pp + pl < oa.size ∧ oa.getD (pp + pl) 0 < na.getD (scan + pl) 0) then
        bsearch sa oa na scan f pivot en
      else bsearch sa oa na scan f st pivot
    else (st, en)

/-- `search(sa, old, &new[scan..])`. -/
def searchSA (sa : Array Nat) (oa na : Array Byte) (scan : Nat) : Nat × Nat :=
  if sa.size = 0 ∨ scan ≥ na.size then (0, 0) else
  let r := bsearch sa oa na scan sa.size 0 (sa.size - 1)
  let sp := sa.getD r.1 0
  let ep := sa.getD r.2 0
  let sl := matchLenAt oa na (na.size - scan) sp scan
  let el := matchLenAt oa na (na.size - scan) ep scan
  if sl > el then (sp, sl) else (ep, el)

/-- everything `compute_diff` reads: the two contents (lists for slices, arrays for indexed
reads) and the match finder. -/
structure Cx where
  old : Bytes
  new : Bytes
  oa : Array Byte
  na : Array Byte
  search : Nat → Nat × Nat

def Cx.osz (cx : Cx) : Nat := cx.oa.size
def Cx.nsz (cx : Cx) : Nat := cx.na.size

/-- `old_idx = (i + lastoffset) as usize; old_idx < old_size && old[old_idx] == new[i]`. -/
def driftMatch (cx : Cx) (lastoffset : Int) (i : Nat) : Bool :=
  let idx : Int := (i : Int) + lastoffset
  decide (0 ≤ idx) && decide (idx.toNat < cx.osz) && (cx.oa.getD idx.toNat 0 == cx.na.getD i 0)

/-- matches counted by `while scsc < scan + len { …; scsc += 1 }` over `n` positions from `scsc`. -/
def countDrift (cx : Cx) (lastoffset : Int) : Nat → Nat → Nat
  | 0, _ => 0
  | n + 1, scsc => (if driftMatch cx lastoffset scsc then 1 else 0) + countDrift cx lastoffset n (scsc + 1)

structure ScanSt where
  scan : Nat
  scsc : Nat
  pos : Nat
  len : Nat
  oldscore : Nat
deriving Repr

def two64 : Nat := 2 ^ 64

/-- the inner `while scan < new_size` loop. `oldscore` is a `usize`: the release build wraps
(`oldscore -= 1` at 0, `oldscore + 8`), which is what is modelled; with a sorted suffix array the
decrement never happens at 0. Fuel = new_size − scan. -/
def scanLoop (cx : Cx) (lastoffset : Int) : Nat → ScanSt → ScanSt
  | 0, s => s
  | f + 1, s =>
    if s.scan < cx.nsz then
      let r := cx.search s.scan
      let pos := r.1
      let len := r.2
      let n := s.scan + len - s.scsc
      let oldscore := s.oldscore + countDrift cx lastoffset n s.scsc
      let scsc := s.scsc + n
      if (len = oldscore ∧ len ≠ 0) ∨ len > (oldscore + 8) % two64 then
        { scan := s.scan, scsc := scsc, pos := pos, len := len, oldscore := oldscore }
      else
        let oldscore := if driftMatch cx lastoffset s.scan then (oldscore + (two64 - 1)) % two64 else oldscore
        scanLoop cx lastoffset f { scan := s.scan + 1, scsc := scsc, pos := pos, len := len, oldscore := oldscore }
    else s

/-- forward extension: best `lenf` from `lastscan` / `lastpos` (`s*2 - i > sf*2 - lenf`). -/
def fwdLoop (cx : Cx) (lastscan lastpos scan : Nat) : Nat → Nat → Nat → Nat → Nat → Nat
  | 0, _, _, _, lenf => lenf
  | f + 1, i, s, sf, lenf =>
    if lastscan + i < scan ∧ lastpos + i < cx.osz then
      let s := if cx.oa.getD (lastpos + i) 0 = cx.na.getD (lastscan + i) 0 then s + 1 else s
      let i := i + 1
      if 2 * s + lenf > 2 * sf + i then fwdLoop cx lastscan lastpos scan f i s s i
      else fwdLoop cx lastscan lastpos scan f i s sf lenf
    else lenf

/-- backward extension from the new match (`i` starts at 1). -/
def bwdLoop (cx : Cx) (lastscan scan pos : Nat) : Nat → Nat → Nat → Nat → Nat → Nat
  | 0, _, _, _, lenb => lenb
  | f + 1, i, s, sb, lenb =>
    if scan ≥ lastscan + i ∧ pos ≥ i then
      let s := if cx.oa.getD (pos - i) 0 = cx.na.getD (scan - i) 0 then s + 1 else s
      if 2 * s + lenb > 2 * sb + i then bwdLoop cx lastscan scan pos f (i + 1) s s i
      else bwdLoop cx lastscan scan pos f (i + 1) s sb lenb
    else lenb

/-- overlap resolution: `for i in 0..overlap`. -/
def ovLoop (cx : Cx) (a b c d : Nat) : Nat → Nat → Int → Int → Nat → Nat
  | 0, _, _, _, lens => lens
  | n + 1, i, s, ss, lens =>
    let s := if cx.na.getD (a + i) 0 = cx.oa.getD (b + i) 0 then s + 1 else s
    let s := if cx.na.getD (c + i) 0 = cx.oa.getD (d + i) 0 then s - 1 else s
    if s > ss then ovLoop cx a b c d n (i + 1) s s (i + 1) else ovLoop cx a b c d n (i + 1) s ss lens

structure OutSt where
  scan : Nat
  len : Nat
  pos : Nat
  lastscan : Nat
  lastpos : Nat
  lastoffset : Int
deriving Repr

/-- `(lenf, lenb)` after forward extension, backward extension and overlap resolution. -/
def extents (cx : Cx) (lastscan lastpos scan pos : Nat) : Nat × Nat :=
  let lenf0 := fwdLoop cx lastscan lastpos scan (scan - lastscan) 0 0 0 0
  let lenb0 := if scan < cx.nsz then bwdLoop cx lastscan scan pos (scan - lastscan) 1 0 0 0 else 0
  if lastscan + lenf0 > scan - lenb0 then
    let overlap := (lastscan + lenf0) - (scan - lenb0)
    let lens := ovLoop cx (lastscan + lenf0 - overlap) (lastpos + lenf0 - overlap) (scan - lenb0) (pos - lenb0)
      overlap 0 0 0 0
    (lenf0 + lens - overlap, lenb0 - lens)
  else (lenf0, lenb0)

/-- the outer `while scan < new_size` loop of `compute_diff`. Fuel: `2·|new| + 2` suffices
(`Proofs.Bspatch.measure`). -/
def outer (cx : Cx) : Nat → OutSt → Blocks
  | 0, _ => ⟨[], [], []⟩
  | f + 1, s =>
    if s.scan < cx.nsz then
      let scan0 := s.scan + s.len
      let r := scanLoop cx s.lastoffset (cx.nsz - scan0)
        { scan := scan0, scsc := scan0, pos := s.pos, len := s.len, oldscore := 0 }
      if r.len ≠ r.oldscore ∨ r.scan = cx.nsz then
        let fb := extents cx s.lastscan s.lastpos r.scan r.pos
        let lenf := fb.1
        let lenb := fb.2
        let extraStart := s.lastscan + lenf
        let extraEnd := r.scan - lenb
        let rest := outer cx f
          { scan := r.scan, len := r.len, pos := r.pos, lastscan := r.scan - lenb, lastpos := r.pos - lenb,
            lastoffset := (r.pos : Int) - (r.scan : Int) }
        ⟨⟨lenf, extraEnd - extraStart, ((r.pos : Int) - (lenb : Int)) - ((s.lastpos : Int) + (lenf : Int))⟩ :: rest.ctl,
         subBytes ((cx.new.drop s.lastscan).take lenf) ((cx.old.drop s.lastpos).take lenf) ++ rest.diff,
         (cx.new.drop extraStart).take (extraEnd - extraStart) ++ rest.extra⟩
      else
        outer cx f { s with scan := r.scan, len := r.len, pos := r.pos }
    else ⟨[], [], []⟩

def initSt : OutSt := { scan := 0, len := 0, pos := 0, lastscan := 0, lastpos := 0, lastoffset := 0 }

/-- `compute_diff` with an arbitrary match finder. -/
def computeDiff (cx : Cx) : Blocks := outer cx (2 * cx.nsz + 2) initSt

def mkCx (old new : Bytes) (search : Array Byte → Array Byte → Nat → Nat × Nat) : Cx :=
  let oa := old.toArray
  let na := new.toArray
  { old := old, new := new, oa := oa, na := na, search := search oa na }

/-- `build_optimized_patch` with match finder `search`. -/
def suffixWith (cx : Cx) : Except Err Patch :=
  let b := computeDiff cx
  if b.ctl = [] then simple cx.new else assemble b cx.new.length

/-- `build()` / `build_optimized_patch` with the real `search` over suffix array `sa`. -/
def suffix (sa : Array Nat) (old new : Bytes) : Except Err Patch :=
  suffixWith (mkCx old new (searchSA sa))

/-- `ZbsdiffBuilder::new(old, new).with_max_diff_block_size(maxBlk).build()`. `build_optimized_patch`
hands the control entries of `compute_diff` to `ControlBlock::with_entries` as they are and never
reads `max_diff_block_size` (only `find_matching_chunk` of the chunked builder does): the configured
block size is not an input of the suffix builder, whatever its value (0, 1, an exact divisor of a
diff run, the 1 MiB default). Tied to the source by `Proofs/ZbsdiffTie.optimized_builder_tie` and on
every `build suffixb <blk> …` line of the run. -/
def suffixBlk (_maxBlk : Nat) (sa : Array Nat) (old new : Bytes) : Except Err Patch :=
  suffix sa old new

end Cascette.Model.Bspatch
