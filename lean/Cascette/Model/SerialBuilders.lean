/-
Model/SerialBuilders — the builder-as-mutator side of C08 that C19's builder model does not have,
and the two width computations the `bp` lines of the C08 run compare with the real builders.

* `InstallManifestBuilder` WITH its `source_header` field (install/builder.rs): `new`,
  `from_manifest` (tags, entries, name → index map, header kept), the editing calls of C19's
  `IBuilder` underneath, and `build`: V1 header from the vectors; a builder loaded from a V2
  manifest keeps version / content_key_size / entry_count_v2 / v2_unknown of its source and gives
  every entry a file-type byte (`entry.file_type.get_or_insert(0)`) — entries added through
  `add_file` are created without one, and only a V2 header tells the parser to read it.
* BLTE chunk-table head (`BlteHeader` + `ExtendedHeader` writer): header size and the table-format
  byte followed by the 24-bit big-endian chunk count, for `n` chunks — taken from C01's
  `Model/Blte.{build, serialize, multiChunkExt, serializeX}`.
* TVFS container-table sizing: C03's `Model/TvfsTables.layout` (the widening loop of
  `TvfsBuilder::build`) and the CFT offset the builder stores in the span of file `i`.
-/
import Cascette.Model.Serial
import Cascette.Model.Blte
import Cascette.Model.TvfsTables
namespace Cascette.Model.SerialBuilders
open Cascette Cascette.Model.Manifest Cascette.Model.Serial

/-! ### install builder with its source header -/

/-- `InstallManifestBuilder { tags, entries, tag_name_to_index, source_header }`; of the source
header only the version and the V2 extension fields are used by `build` -/
structure IBuilderS where
  b : IBuilder
  src : Option (Nat × Option (Nat × Nat × Nat))
deriving Repr

/-- `InstallManifestBuilder::new` -/
def IBuilderS.new : IBuilderS := ⟨IBuilder.empty, none⟩

/-- `tags.iter().enumerate().map(|(i, t)| (t.name.clone(), i)).collect::<HashMap<_, _>>()`: a later
tag of the same name replaces the earlier index -/
def nameMapOf : List Tag → Nat → NameMap → NameMap
  | [], _, m => m
  | t :: ts, i, m => nameMapOf ts (i + 1) (nmInsert m t.name i)

/-- `InstallManifestBuilder::from_manifest` -/
def IBuilderS.fromManifest (m : IManifest) : IBuilderS :=
  ⟨⟨m.tags, m.entries, nameMapOf m.tags 0 []⟩, some (m.version, m.v2)⟩

/-- `entry.file_type.get_or_insert(0)` -/
def fillType (e : IEntry) : IEntry := { e with ftype := some (e.ftype.getD 0) }

/-- `InstallManifestBuilder::build`: `InstallHeader::new(tags, entries)` (V1), overridden by the
source header when that is V2 (then every entry gets a type byte), then `validate` (the counts
are the vectors' lengths by construction; the mask-size check is C19's `IBuilder.build`) -/
def IBuilderS.build (s : IBuilderS) : Except Err IManifest :=
  match s.b.build with
  | .error e => .error e
  | .ok m =>
    match s.src with
    | some (v, v2) =>
      if v ≥ 2 then .ok { m with version := v, v2 := v2, entries := m.entries.map fillType } else .ok m
    | none => .ok m

/-- `add_file(path, key, size)`: `InstallFileEntry::new` has no file type -/
def IBuilderS.addFile (s : IBuilderS) (path key : Bytes) (size : Nat) : IBuilderS :=
  { s with b := s.b.addFile ⟨path, key, size, none⟩ }

/-- a builder edit that can fail -/
def IBuilderS.lift (s : IBuilderS) (f : IBuilder → Except Err IBuilder) : Except Err IBuilderS :=
  match f s.b with
  | .ok b => .ok { s with b := b }
  | .error e => .error e

/-! ### BLTE chunk-table head -/

/-- first 12 bytes of the serialised container for `n` one-byte chunks: standard table through
`BlteBuilder::build` (`ext = false`), 40-byte rows through `multi_chunk_extended` (`ext = true`) -/
def blteHead (ext : Bool) (n : Nat) : Except Blte.Err Bytes :=
  let H : Bytes → Bytes := fun _ => List.replicate 16 0
  let cd : Blte.Codec := ⟨fun _ _ => none, fun _ _ => none⟩
  let chunks := List.replicate n (⟨.none, [1], some 1⟩ : Blte.Chunk)
  if ext then
    match Blte.multiChunkExt cd H chunks with
    | .ok f => .ok ((Blte.serializeX f).take 12)
    | .error e => .error e
  else
    match Blte.build H ⟨chunks, .none, 262144, none⟩ with
    | .ok f => .ok ((Blte.serialize f).take 12)
    | .error e => .error e

/-! ### TVFS container-table sizing -/

/-- what `TvfsBuilder::build` settles on for `n` files: (container entry size, cft_table_size,
CftOffsSize, CFT offset stored in the span of the last file) -/
def tvfsSizing (flags estSize n : Nat) : Nat × Nat × Nat × Nat :=
  let lay := TvfsTables.layout (TvfsTables.Flags.ofNat flags) estSize n
  (lay.2, lay.1.cftSize, lay.1.cftOffs, (n - 1) * lay.2)

/-- the two-pass sizing a "simplified" builder would use: table sized with the minimum width, entry
size taken from that table size, table sized once more — WITHOUT checking that the second size
still asks for the same width. Returns (entry size used for the offsets, final table size). -/
def twoPass (fl : TvfsTables.Flags) (estSize n : Nat) : Nat × Nat :=
  let h0 : TvfsTables.Hdr := { fl := fl, cftSize := 0, estSize := estSize }
  let h1 : TvfsTables.Hdr := { h0 with cftSize := n * h0.entrySize }
  (h1.entrySize, n * h1.entrySize)

end Cascette.Model.SerialBuilders
