/-
Model/Archive — executable model of `cascette-client-storage/src/storage/archive_file.rs`
(`ArchiveManager`) and `storage/local_header.rs` (`LocalHeader::new().to_bytes()`), as written
after the `fix:` commit that remaps a data file after every write that changed its size.

* One data file is modelled (`data.000`): `select_archive_for_write` returns archive 0 as long as
  its write position is below 256 GiB − 100 MiB; the roll-over to `data.001` is outside the model
  (`Err.rollover`, never produced below that size).
* `ArchiveFile { mmap, size }`: the mapping is a window of the file's *current* content (a shared
  file mapping) whose LENGTH is fixed when it is created; `size` is set from the same metadata
  call, so both are the one field `Open.mapped`.  `read_raw` is bounded by it.
* `write_to_archive` = seek + `write_all` at the recorded write position (`writeAt`), then the
  remap decision `P.remap old_size new_size` — a parameter: `remapFixed` is the code as it is now,
  `remapPinned` the rule of the pinned tree (> 64 MiB growth or more than doubled; the `f64` ratio
  is exact below 2^52 bytes and is written on naturals).
* `create_archive` (reached by a write when archive 0 is not open) is `createArchive`: after the
  `fix:` commit 8767d44 an existing `data.000` is opened as it is (`keepOnCreate = true`); the
  pinned `File::create` truncated it (`keepOnCreate = false`, kept for the counter-witness).
* MD5 (`EncodingKey::from_data`), zlib/LZ4 (`Blte.Codec`) are parameters; the local header is a
  parameter `hdr` in the theorems (only its length matters) and `localHeader` in the driver.
-/
import Cascette.Model.Blte
import Cascette.Model.Jenkins
namespace Cascette.Model.Archive
open Cascette
open Cascette.Model.Blte (Mode Codec)

/-- `LOCAL_HEADER_SIZE` -/
def headerSize : Nat := 30
/-- `MAX_ARCHIVE_SIZE` (256 GiB) -/
def maxArchive : Nat := 256 * 2 ^ 30
/-- the 100 MiB reserve of `select_archive_for_write` -/
def writeReserve : Nat := 100 * 2 ^ 20

inductive Err
  /-- "Archive {id} not found" / the file cannot be opened -/
  | noArchive
  /-- "Read beyond archive bounds" -/
  | bounds
  /-- BLTE build / parse / decompress failed -/
  | blte
  /-- unsupported compression mode (`Encrypted`, `Frame`) -/
  | mode
  /-- a `u32::try_from` failed / 256 GiB exceeded -/
  | tooLarge
  /-- archive 0 is within 100 MiB of 256 GiB: another data file would be selected (not modelled) -/
  | rollover
deriving DecidableEq, Repr

structure Params where
  /-- `EncodingKey::from_data` / `ContentKey::from_data` (MD5) -/
  H : Bytes → Bytes
  /-- `LocalHeader::new(key, blte_size, offset).to_bytes()` -/
  hdr : Bytes → Nat → Nat → Bytes
  /-- remap decision of `write_to_archive`: size at the last (re)map → size now → remap? -/
  remap : Nat → Nat → Bool
  cd : Codec
  /-- `create_archive` on a `data.000` that already exists (a manager that has not run
  `open_all`): `true` = the code as it is now (`OpenOptions … .create(true).truncate(false)`, the
  file is opened as it is), `false` = the pinned tree (`File::create`, which truncates it). -/
  keepOnCreate : Bool

/-- `create_archive` as the code has it now (tied to the source by `ArchiveTie.create_tie`). -/
def keepOnCreateNow : Bool := true

/-- the rule as the code has it now: remap whenever the size changed. -/
def remapFixed (old new : Nat) : Bool := decide (new ≠ old)

/-- the rule of the pinned tree: grown by more than 64 MiB, or `new / old > 2.0`
(`f64::INFINITY > 2.0` for `old = 0`). -/
def remapPinned (old new : Nat) : Bool :=
  decide (new - old > 64 * 2 ^ 20) || (if old > 0 then decide (new > 2 * old) else true)

/-! ### local header -/

/-- `compute_checksum_b`: byte `i` of the first 26 goes to lane `(base + i) & 3`. -/
def laneXor (base : Nat) (h : Bytes) (j : Nat) : Byte :=
  (h.zipIdx.filter (fun p => (base + p.2) % 4 == j)).foldl (fun a p => a ^^^ p.1) 0

def checksumB (base : Nat) (h26 : Bytes) : Bytes :=
  [laneXor base h26 0, laneXor base h26 1, laneXor base h26 2, laneXor base h26 3]

/-- `LocalHeader::new(encoding_key, blte_size, base_offset).to_bytes()`: reversed key, big-endian
size including the header, flags 0, Jenkins `hashlittle` of the first 22 bytes (seed 0x3D6BE971)
little-endian, XOR lanes of the first 26 bytes. -/
def localHeader (key : Bytes) (blteSize offset : Nat) : Bytes :=
  let h22 := key.reverse ++ Blte.beBytes 4 (blteSize + headerSize) ++ [0, 0]
  let h26 := h22 ++ toLe32 (Jenkins.hashlittle h22 0x3D6BE971)
  h26 ++ checksumB offset h26

/-! ### state -/

/-- the open archive: `mmap.len()` (= `ArchiveFile.size`) and `write_positions[0]`. -/
structure Open where
  mapped : Nat
  pos : Nat
deriving DecidableEq, Repr

structure State where
  /-- content of `data.000` (`none` = no such file) -/
  disk : Option Bytes
  /-- `archives[0]` + `write_positions[0]` (`none` = not opened by this manager) -/
  opn : Option Open
deriving Repr

def State.init : State := ⟨none, none⟩

/-- `compress_blte_with_mode`: `BlteFile::single_chunk(data, mode)?.build()`. -/
def blteOf (cd : Codec) (data : Bytes) (mode : Mode) : Except Err Bytes :=
  match mode with
  | .enc => .error .mode
  | .frame => .error .mode
  | m =>
    match Blte.Chunk.new cd data m with
    | .error _ => .error .blte
    | .ok c => .ok (Blte.serialize ⟨0, none, [c]⟩)

/-- seek to `off`, `write_all(data)` (a seek beyond the end leaves a zero-filled hole). -/
def writeAt (file : Bytes) (off : Nat) (data : Bytes) : Bytes :=
  file.take off ++ List.replicate (off - file.length) 0 ++ data ++ file.drop (off + data.length)

/-- what the COMPILED code runs for `writeAt` (`writeAt_eq_compiled` below, a `csimp` lemma: the
kernel-checked equation is the only thing the compiler is given).  A write at the end of the file -
the only one `write` ever issues, its write position being the file length - is one append instead
of three copies of the whole file, so a history of some thousand writes (one index bucket filled
until its sorted section passes the 64 KiB alignment boundary of the `.idx` layout) stays cheap in
the driver.  Every other offset runs the definition. -/
def writeAtCompiled (file : Bytes) (off : Nat) (data : Bytes) : Bytes :=
  if off = file.length then file ++ data
  else file.take off ++ List.replicate (off - file.length) 0 ++ data ++ file.drop (off + data.length)

@[csimp] theorem writeAt_eq_compiled : @writeAt = @writeAtCompiled := by
  funext file off data
  unfold writeAt writeAtCompiled
  split
  · next h =>
    subst h
    rw [List.take_length, Nat.sub_self, List.replicate_zero, List.append_nil,
      List.drop_eq_nil_of_le (Nat.le_add_right _ _), List.append_nil]
  · rfl

/-- `create_archive` + `open_archive` for archive 0 when the manager has no archive 0 open:
the file is created empty if it does not exist; if it exists it is kept (`keep`, the code now) or
truncated (pinned `File::create`); the mapping and the write position are its length. -/
def createArchive (keep : Bool) (s : State) : State :=
  let f : Bytes := if keep then s.disk.getD [] else []
  ⟨some f, some ⟨f.length, f.length⟩⟩

/-- `write_content_with_mode`; returns `(archive_id, offset, total_size, encoding_key)`. -/
def write (P : Params) (s : State) (data : Bytes) (mode : Mode) :
    State × Except Err (Nat × Nat × Nat × Bytes) :=
  match blteOf P.cd data mode with
  | .error e => (s, .error e)
  | .ok blte =>
    let key := P.H blte
    if blte.length ≥ 2 ^ 32 then (s, .error .tooLarge)
    else if headerSize + blte.length ≥ 2 ^ 32 then (s, .error .tooLarge)
    else
      let total := headerSize + blte.length
      let cur := match s.opn with
        | some o => o.pos
        | none => 0
      if cur ≥ maxArchive - writeReserve then (s, .error .rollover)
      else if cur + total > maxArchive then (s, .error .tooLarge)
      else
        -- `create_archive`: create-or-open the file, then `open_archive` (maps it, write
        -- position := its length)
        let s1 : State := match s.opn with
          | some _ => s
          | none => createArchive P.keepOnCreate s
        match s1.opn, s1.disk with
        | some o, some file =>
          let offset := o.pos
          let file' := writeAt file offset (P.hdr key blte.length offset ++ blte)
          let mapped' := if P.remap o.mapped file'.length then file'.length else o.mapped
          let s2 : State := ⟨some file', some ⟨mapped', offset + total⟩⟩
          if offset ≥ 2 ^ 32 then (s2, .error .tooLarge)
          else (s2, .ok (0, offset, total, key))
        | _, _ => (s1, .error .noArchive)

/-- `read_raw`. -/
def readRaw (s : State) (id off size : Nat) : Except Err Bytes :=
  if id ≠ 0 then .error .noArchive
  else match s.opn, s.disk with
    | some o, some file =>
      if off + size > o.mapped then .error .bounds
      else .ok ((file.drop off).take size)
    | _, _ => .error .noArchive

/-- `decompress_blte_with_formats` -/
def decompressBlte (cd : Codec) (b : Bytes) : Except Err Bytes :=
  match Blte.decodePlainBytes cd b with
  | .ok d => .ok d
  | .error _ => .error .blte

/-- `read_content`: local header + BLTE at 0x1E, else direct BLTE, else raw. -/
def readContent (P : Params) (s : State) (id off size : Nat) : Except Err Bytes :=
  match readRaw s id off size with
  | .error e => .error e
  | .ok data =>
    if data.length ≥ headerSize + 4 ∧ (data.drop headerSize).take 4 = Blte.magic then
      decompressBlte P.cd (data.drop headerSize)
    else if data.length ≥ 4 ∧ data.take 4 = Blte.magic then decompressBlte P.cd data
    else .ok data

/-- a new `ArchiveManager` on the same directory WITHOUT `open_all()` (what `Installation::open`
and `DynamicContainer::new` build): nothing is open, the files are as they were. -/
def dropOpen (s : State) : State := ⟨s.disk, none⟩

/-- the arithmetic of `write_content_with_mode` for a BLTE image of `blteLen` bytes on an open
archive 0 whose write position is `pos` — the only places where a size or offset limit enters:
`u32::try_from` of the image and total size, `select_archive_for_write` (archive 0 is used while
`pos < 256 GiB − 100 MiB`), the 256 GiB check, and `u32::try_from(offset)` AFTER the bytes were
written and the position advanced.  Returns `(offset, total_size)`.  There is NO check against
2^30, the width of the offset field of an `.idx` record (`Lsm.packLoc`). -/
def placeAt (pos blteLen : Nat) : Except Err (Nat × Nat) :=
  if blteLen ≥ 2 ^ 32 then .error .tooLarge
  else if headerSize + blteLen ≥ 2 ^ 32 then .error .tooLarge
  else if pos ≥ maxArchive - writeReserve then .error .rollover
  else if pos + (headerSize + blteLen) > maxArchive then .error .tooLarge
  else if pos ≥ 2 ^ 32 then .error .tooLarge
  else .ok (pos, headerSize + blteLen)

/-- does a failing `placeAt` leave the entry written and the position advanced?  (only the late
`u32::try_from(offset)` does) -/
def placeAtWrites (pos blteLen : Nat) : Bool :=
  decide (blteLen < 2 ^ 32 ∧ headerSize + blteLen < 2 ^ 32 ∧ pos < maxArchive - writeReserve ∧
    pos + (headerSize + blteLen) ≤ maxArchive)

/-- a new `ArchiveManager` on the same directory + `open_all()`. -/
def reopen (s : State) : State :=
  ⟨s.disk, s.disk.map fun f => ⟨f.length, f.length⟩⟩

end Cascette.Model.Archive
