/-
Model/RootFile — root manifest, byte level:
`RootBuilder::build` (header per version, blocks sorted by (locale, content), records sorted by
FileDataID, FDID delta coding, separated / interleaved arrays) → `RootFile::parse`
(`RootVersion::detect`, `RootHeader::read` with its own extended-header heuristic, block loop) →
`RootLookupTables::resolve_by_id / resolve_by_hash`.
Bytes are naturals < 256.
-/
namespace Cascette.Model.RootFile

abbrev Bytes := List Nat

def le32 (n : Nat) : Bytes := [n % 256, n / 256 % 256, n / 65536 % 256, n / 16777216 % 256]
def be32 (n : Nat) : Bytes := [n / 16777216 % 256, n / 65536 % 256, n / 256 % 256, n % 256]
def le64 (n : Nat) : Bytes := le32 (n % 4294967296) ++ le32 (n / 4294967296 % 4294967296)

def rd32 (little : Bool) : Bytes → Option (Nat × Bytes)
  | a :: b :: c :: d :: rest =>
    some (if little then a + 256 * b + 65536 * c + 16777216 * d
          else d + 256 * c + 65536 * b + 16777216 * a, rest)
  | _ => none

def rd64le (bs : Bytes) : Option (Nat × Bytes) :=
  match rd32 true bs with
  | some (lo, r) => match rd32 true r with
    | some (hi, r') => some (lo + 4294967296 * hi, r')
    | none => none
  | none => none

def takeN (n : Nat) (bs : Bytes) : Option (Bytes × Bytes) :=
  if bs.length < n then none else some (bs.take n, bs.drop n)

inductive Version | v1 | v2 | v3 | v4
deriving Repr, DecidableEq

def Version.num : Version → Nat | .v1 => 1 | .v2 => 2 | .v3 => 3 | .v4 => 4

def mfst : Bytes := [0x4D, 0x46, 0x53, 0x54]
def tsfm : Bytes := [0x54, 0x53, 0x46, 0x4D]

/-! ### header -/

inductive Header
  | classic (little : Bool) (total named : Nat)
  | ext (little : Bool) (headerSize version total named padding : Nat)
deriving Repr, DecidableEq

def Header.version : Header → Version
  | .classic .. => .v2
  | .ext _ _ v _ _ _ => if v = 1 ∨ v = 2 then .v2 else if v = 3 then .v3 else if v ≥ 4 then .v4 else .v3

def Header.named : Header → Nat
  | .classic _ _ n => n
  | .ext _ _ _ _ n _ => n

def Header.total : Header → Nat
  | .classic _ t _ => t
  | .ext _ _ _ t _ _ => t

def w32 (little : Bool) (n : Nat) : Bytes := if little then le32 n else be32 n

/-- `RootHeader::write` -/
def Header.write : Header → Bytes
  | .classic l t n => (if l then tsfm else mfst) ++ w32 l t ++ w32 l n
  | .ext l hs v t n p =>
    (if l then tsfm else mfst) ++ w32 l hs ++ w32 l v ++ w32 l t ++ w32 l n ++ (if hs > 20 then w32 l p else [])

/-- `RootVersion::detect` (the reader position is restored afterwards) -/
def detect (bs : Bytes) : Option Version :=
  match takeN 4 bs with
  | none => none
  | some (magic, rest) =>
    if magic = mfst ∨ magic = tsfm then
      let little : Bool := magic == tsfm
      match rd32 little rest with
      | none => none
      | some (v1, rest') =>
        match rd32 little rest' with
        | none => none
        | some (v2, _) =>
          if 16 ≤ v1 ∧ v1 < 100 ∧ 1 ≤ v2 ∧ v2 ≤ 4 then
            some (if v2 = 1 ∨ v2 = 2 then .v2 else if v2 = 3 then .v3 else .v4)
          else some .v2
    else some .v1

/-- `RootHeader::read` (called only when `detect` did not say V1): header and remaining bytes -/
def Header.read (bs : Bytes) : Option (Header × Bytes) :=
  match takeN 4 bs with
  | none => none
  | some (magic, r0) =>
    let little : Bool := magic == tsfm
    match rd32 little r0 with
    | none => none
    | some (v1, r1) =>
      match rd32 little r1 with
      | none => none
      | some (v2, r2) =>
        if 16 ≤ v1 ∧ v1 < 100 ∧ v2 < 10 ∧ v2 < v1 then
          match rd32 little r2 with
          | none => none
          | some (total, r3) =>
            match rd32 little r3 with
            | none => none
            | some (named, r4) =>
              if v1 > 20 then
                let skip := v1 - 20
                if skip ≥ 4 then
                  match rd32 little r4 with
                  | none => none
                  | some (pad, r5) =>
                    match takeN (skip - 4) r5 with
                    | none => none
                    | some (_, r6) => some (.ext little v1 v2 total named pad, r6)
                else
                  match takeN skip r4 with
                  | none => none
                  | some (_, r5) => some (.ext little v1 v2 total named 0, r5)
              else some (.ext little v1 v2 total named 0, r4)
        else some (.classic little v1 v2, r2)

/-! ### FileDataID delta coding (wrapping u32) -/

def M32 : Nat := 4294967296

/-- `encode_file_data_ids_tact` -/
def encodeDeltas : List Nat → List Nat
  | [] => []
  | f :: rest => f % M32 :: go f rest
where
  go (prev : Nat) : List Nat → List Nat
    | [] => []
    | c :: rest => ((c % M32 + M32 - prev % M32 + M32 - 1) % M32) :: go c rest

/-- `decode_file_data_ids_tact` -/
def decodeDeltas (ds : List Nat) : List Nat := go 0 ds
where
  go (cur : Nat) : List Nat → List Nat
    | [] => []
    | d :: rest => let id := (cur + d) % M32; id :: go ((id + 1) % M32) rest

/-! ### blocks -/

structure Rec where
  fdid : Nat
  ckey : Bytes          -- 16 bytes
  nameHash : Option Nat
deriving Repr, DecidableEq

structure Block where
  numRecords : Nat
  locale : Nat
  content : Nat
  recs : List Rec
deriving Repr

def noNameHash : Nat := 0x10000000
def hasNames (content : Nat) : Bool := content &&& noNameHash == 0

/-- `RootBlock::write` -/
def Block.write (v : Version) (b : Block) : Bytes :=
  let n := b.recs.length
  let deltas := (encodeDeltas (b.recs.map (·.fdid))).flatMap le32
  match v with
  | .v1 =>
    le32 n ++ le32 (b.content % M32) ++ le32 b.locale ++
      (if n = 0 then [] else deltas ++ b.recs.flatMap fun r => r.ckey ++ le64 (r.nameHash.getD 0))
  | .v2 | .v3 =>
    le32 n ++ le32 b.locale ++ le32 (b.content % M32) ++ le32 0 ++ [0] ++
      (if n = 0 then [] else deltas ++ b.recs.flatMap (·.ckey) ++
        (if hasNames b.content then b.recs.flatMap fun r => le64 (r.nameHash.getD 0) else []))
  | .v4 =>
    le32 n ++ le32 b.locale ++ le32 (b.content % M32) ++ [b.content / M32 % 256] ++ le32 0 ++ [0] ++
      (if n = 0 then [] else deltas ++ b.recs.flatMap (·.ckey) ++
        (if hasNames b.content then b.recs.flatMap fun r => le64 (r.nameHash.getD 0) else []))

def readMany {α : Type} (rd : Bytes → Option (α × Bytes)) : Nat → Bytes → Option (List α × Bytes)
  | 0, bs => some ([], bs)
  | n + 1, bs =>
    match rd bs with
    | none => none
    | some (a, r) =>
      match readMany rd n r with
      | none => none
      | some (as, r') => some (a :: as, r')

def mkRecs : List Nat → List Bytes → List (Option Nat) → List Rec
  | f :: fs, c :: cs, h :: hs => { fdid := f, ckey := c, nameHash := h } :: mkRecs fs cs hs
  | _, _, _ => []

/-- separated arrays (`parse_v2_block`) -/
def parseSeparated (n locale content : Nat) (bs : Bytes) : Option (Block × Bytes) :=
  match readMany (rd32 true) n bs with
  | none => none
  | some (deltas, r1) =>
    match readMany (takeN 16) n r1 with
    | none => none
    | some (ckeys, r2) =>
      if hasNames content then
        match readMany rd64le n r2 with
        | none => none
        | some (hashes, r3) =>
          some ({ numRecords := n, locale := locale, content := content,
                  recs := mkRecs (decodeDeltas deltas) ckeys (hashes.map some) }, r3)
      else
        some ({ numRecords := n, locale := locale, content := content,
                recs := mkRecs (decodeDeltas deltas) ckeys (List.replicate n none) }, r2)

/-- one interleaved V1 record: 16-byte content key, then the 64-bit name hash -/
def rdCkHash (b : Bytes) : Option ((Bytes × Nat) × Bytes) :=
  match takeN 16 b with
  | none => none
  | some (ck, r) => match rd64le r with
    | none => none
    | some (h, r') => some ((ck, h), r')

/-- `RootBlock::parse` -/
def Block.parse (v : Version) (bs : Bytes) : Option (Block × Bytes) :=
  match v with
  | .v1 =>
    match rd32 true bs with
    | none => none
    | some (n, r1) => match rd32 true r1 with
      | none => none
      | some (content, r2) => match rd32 true r2 with
        | none => none
        | some (locale, r3) =>
          if n = 0 ∨ n > 1000000 then some ({ numRecords := n, locale := locale, content := content, recs := [] }, r3)
          else
            match readMany (rd32 true) n r3 with
            | none => none
            | some (deltas, r4) =>
              match readMany rdCkHash n r4 with
              | none => none
              | some (pairs, r5) =>
                some ({ numRecords := n, locale := locale, content := content,
                        recs := mkRecs (decodeDeltas deltas) (pairs.map (·.1)) (pairs.map (some ·.2)) }, r5)
  | .v2 | .v3 =>
    match rd32 true bs with
    | none => none
    | some (n, r1) => match rd32 true r1 with
      | none => none
      | some (locale, r2) => match rd32 true r2 with
        | none => none
        | some (cf1, r3) => match rd32 true r3 with
          | none => none
          | some (cf2, r4) => match r4 with
            | [] => none
            | cf3 :: r5 =>
              let content := cf1 ||| cf2 ||| (cf3 <<< 17)
              if n = 0 ∨ n > 1000000 then some ({ numRecords := n, locale := locale, content := content, recs := [] }, r5)
              else parseSeparated n locale content r5
  | .v4 =>
    match rd32 true bs with
    | none => none
    | some (n, r1) => match rd32 true r1 with
      | none => none
      | some (locale, r2) => match rd32 true r2 with
        | none => none
        | some (lo, r3) => match r3 with
          | [] => none
          | hi :: r4 => match takeN 5 r4 with
            | none => none
            | some (_, r5) =>
              let content := lo ||| (hi <<< 32)
              if n = 0 ∨ n > 1000000 then some ({ numRecords := n, locale := locale, content := content, recs := [] }, r5)
              else parseSeparated n locale content r5

/-- the block loop of `parse_from_reader`: stop at end of data; an error after at least one block
ends the loop, an error before any block is the result; blocks with `num_records = 0` are skipped. -/
def parseBlocks (v : Version) : Nat → Bytes → List Block → Option (List Block)
  | 0, _, acc => some acc
  | fuel + 1, bs, acc =>
    if bs.isEmpty then some acc else
    match Block.parse v bs with
    | none => if acc.isEmpty then none else some acc
    | some (b, rest) => parseBlocks v fuel rest (if b.numRecords > 0 then acc ++ [b] else acc)

structure Parsed where
  version : Version
  header : Option Header
  blocks : List Block
deriving Repr

/-- `RootFile::parse` -/
def parse (bs : Bytes) : Option Parsed :=
  match detect bs with
  | none => none
  | some .v1 => (parseBlocks .v1 (bs.length + 1) bs []).map fun bl => { version := .v1, header := none, blocks := bl }
  | some _ =>
    match Header.read bs with
    | none => none
    | some (h, rest) =>
      (parseBlocks h.version (rest.length + 1) rest []).map fun bl => { version := h.version, header := some h, blocks := bl }

/-! ### builder -/

def insertSorted {α : Type} (lt : α → α → Bool) (a : α) : List α → List α
  | [] => [a]
  | b :: rest => if lt a b then a :: b :: rest else b :: insertSorted lt a rest

/-- `RootBuilder::build`: `blocks` are (locale, content, records in insertion order). `none` = the
builder refuses (no blocks). -/
def build (v : Version) (blocks : List (Nat × Nat × List Rec)) : Option Bytes :=
  if blocks.isEmpty then none else
  let total := (blocks.map fun b => b.2.2.length).sum
  let named := (blocks.map fun b => (b.2.2.filter (·.nameHash.isSome)).length).sum
  let header : Bytes := match v with
    | .v1 => []
    | .v2 => (Header.classic true total named).write
    | .v3 => (Header.ext true 20 3 total named 0).write
    | .v4 => (Header.ext true 20 4 total named 0).write
  let sortedBlocks := blocks.mergeSort fun a b => a.1 < b.1 || (a.1 == b.1 && a.2.1 ≤ b.2.1)
  some (header ++ sortedBlocks.flatMap fun (loc, cf, recs) =>
    Block.write v { numRecords := recs.length, locale := loc, content := cf,
                    recs := recs.mergeSort fun a b => a.fdid ≤ b.fdid })

/-! ### lookups -/

def entryMatches (bLocale bContent locale content : Nat) : Bool :=
  (bLocale &&& locale) != 0 && (bContent &&& content) == content

/-- `resolve_by_id`: first entry of the FileDataID (block order, record order) that matches -/
def Parsed.resolveById (p : Parsed) (fdid locale content : Nat) : Option Bytes :=
  (p.blocks.flatMap fun b => (b.recs.filter (·.fdid == fdid)).map fun r => (b, r)).find?
    (fun br => entryMatches br.1.locale br.1.content locale content) |>.map (·.2.ckey)

/-- `resolve_by_hash` -/
def Parsed.resolveByHash (p : Parsed) (hash locale content : Nat) : Option Bytes :=
  (p.blocks.flatMap fun b => (b.recs.filter (·.nameHash == some hash)).map fun r => (b, r)).find?
    (fun br => entryMatches br.1.locale br.1.content locale content) |>.map (·.2.ckey)

/-! ### the lookup tables themselves (`RootLookupTables`, filled by `build_lookups`) -/

/-- one `RootEntry`: index of the containing block, that block's locale and content flags, the
record's content key -/
structure Entry where
  blockIndex : Nat
  locale : Nat
  content : Nat
  ckey : Bytes
deriving Repr, DecidableEq

/-- the entry list `build_lookups` leaves under one map key (`q` selects the key's records):
`add_entry` pushes ONE entry per record, in block order then record order, each carrying the flags
of its own block — a file listed by several blocks has several entries, also when they share the
content key -/
def entriesFrom (q : Rec → Bool) : Nat → List Block → List Entry
  | _, [] => []
  | i, b :: rest =>
    ((b.recs.filter q).map fun r => ({ blockIndex := i, locale := b.locale, content := b.content, ckey := r.ckey } : Entry))
      ++ entriesFrom q (i + 1) rest

/-- `get_entries_by_id` (the empty list stands for `None`: a key exists iff a record pushed an entry) -/
def Parsed.entriesById (p : Parsed) (fdid : Nat) : List Entry := entriesFrom (·.fdid == fdid) 0 p.blocks

/-- `get_entries_by_hash` / `get_entries_by_path` given the path's name hash -/
def Parsed.entriesByHash (p : Parsed) (hash : Nat) : List Entry := entriesFrom (·.nameHash == some hash) 0 p.blocks

/-- `lookup_stats`: number of keys of `fdid_map` and of `name_map` -/
def Parsed.lookupStats (p : Parsed) : Nat × Nat :=
  let recs := p.blocks.flatMap (·.recs)
  ((recs.map (·.fdid)).eraseDups.length, (recs.filterMap (·.nameHash)).eraseDups.length)

end Cascette.Model.RootFile
