/-
Model/DiskCache — executable model of `cascette_cache::disk_cache::DiskCache`
(crates/cascette-cache/src/disk_cache.rs), sequential use, including drop-and-recreate on the
same directory (`reopen`).

* `index: RwLock<HashMap<K, DiskCacheEntry>>` → `index` (size + TTL class per key; lives in
  memory only, so `reopen` empties it and zeroes the counters)
* the directory                              → `files : List (Key × Val)` (one file per key;
  the map key ↦ file name is assumed injective on the keys used, and no key string ends in
  `.tmp`: assumption listed in lib/cfg/C10.py)
* `entry_count`, `disk_usage`                → `count`, `bytes : Int`
* `get`: indexed+expired → unindex, delete file, miss; indexed → read file (read error →
  unindex, `Err`); not indexed → fallback: file exists → index it with `expires_at = None`.
* `put_with_ttl`: write file, insert/replace index entry, counter arithmetic as in the Rust.
  No eviction: the disk cache enforces neither `max_files` nor `max_disk_bytes` outside its
  background task (not modelled; the property bounds only the in-memory cache).
* `contains`: indexed ∧ not expired ∧ file exists (no sweep, no fallback).
* `remove`: indexed → delete file, counters; not indexed → delete the key's file if a previous
  instance left one (after the `fix:` commit; before it returned `false` and `get` kept
  serving the file).
* `clear`: everything in the directory is deleted.
* `size`: `entry_count`, or a directory scan when that is 0.
-/
import Cascette.Model.MemCache
namespace Cascette.Model.DiskCache
open Cascette.Spec.CacheMap (Key Val)
open Cascette.Model.CacheAssoc

structure DEntry where
  size : Nat
  short : Bool
  deriving Repr, DecidableEq

abbrev Index := List (Key × DEntry)
abbrev Files := List (Key × Val)

structure Config where
  defaultShort : Bool
  deriving Repr

structure State where
  index : Index
  files : Files
  count : Int
  bytes : Int
  deriving Repr

def init : State := { index := [], files := [], count := 0, bytes := 0 }

def unindex (s : State) (k : Key) (e : DEntry) : State :=
  { s with index := erase k s.index, count := s.count - 1, bytes := s.bytes - (e.size : Int) }

inductive GetOut where
  | miss
  | hit (v : Val)
  | ioErr
  deriving Repr, DecidableEq

def get (s : State) (k : Key) : State × GetOut :=
  match lookup k s.index with
  | some e =>
    if e.short then ({ unindex s k e with files := erase k s.files }, .miss)
    else
      match lookup k s.files with
      | some v => (s, .hit v)
      | none => (unindex s k e, .ioErr)
  | none =>
    match lookup k s.files with
    | some v =>
      ({ s with index := (k, { size := v.length, short := false }) :: erase k s.index,
                count := s.count + 1, bytes := s.bytes + (v.length : Int) }, .hit v)
    | none => (s, .miss)

def putCore (s : State) (k : Key) (v : Val) (short : Bool) : State :=
  let files := (k, v) :: erase k s.files
  let e : DEntry := { size := v.length, short := short }
  match lookup k s.index with
  | some old =>
    { s with files := files, index := (k, e) :: erase k s.index,
             bytes := if e.size > old.size then s.bytes + ((e.size - old.size : Nat) : Int)
                      else s.bytes - ((old.size - e.size : Nat) : Int) }
  | none =>
    { s with files := files, index := (k, e) :: erase k s.index,
             count := s.count + 1, bytes := s.bytes + (e.size : Int) }

def contains (s : State) (k : Key) : Bool :=
  match lookup k s.index with
  | some e => if e.short then false else (lookup k s.files).isSome
  | none => false

def remove (s : State) (k : Key) : State × Bool :=
  match lookup k s.index with
  | some e => ({ unindex s k e with files := erase k s.files }, true)
  | none =>
    match lookup k s.files with
    | some _ => ({ s with files := erase k s.files }, true)
    | none => (s, false)

def size (s : State) : Int :=
  if s.count = 0 then (s.files.length : Int) else s.count

inductive Op where
  | put (k : Key) (v : Val)
  | putTtl (k : Key) (v : Val) (short : Bool)
  | get (k : Key)
  | contains (k : Key)
  | remove (k : Key)
  | clear
  | size
  | stats
  | reopen
  deriving Repr

inductive Out where
  | unit
  | got (o : GetOut)
  | bool (b : Bool)
  | num (n : Int)
  | stats (n b : Int)
  deriving Repr, DecidableEq

def step (cfg : Config) (s : State) : Op → State × Out
  | .put k v => (putCore s k v cfg.defaultShort, .unit)
  | .putTtl k v short => (putCore s k v short, .unit)
  | .get k => let r := get s k; (r.1, .got r.2)
  | .contains k => (s, .bool (contains s k))
  | .remove k => let r := remove s k; (r.1, .bool r.2)
  | .clear => ({ index := [], files := [], count := 0, bytes := 0 }, .unit)
  | .size => (s, .num (size s))
  | .stats => (s, .stats s.count s.bytes)
  | .reopen => ({ s with index := [], count := 0, bytes := 0 }, .unit)

def run (cfg : Config) (s : State) (ops : List Op) : State := ops.foldl (fun s op => (step cfg s op).1) s

def absOp (cfg : Config) : Op → Cascette.Spec.CacheMap.Op
  | .put k v => .put k v (!cfg.defaultShort)
  | .putTtl k v short => .put k v (!short)
  | .remove k => .remove k
  | .clear => .clear
  | _ => .other

def isReopen : Op → Bool
  | .reopen => true
  | _ => false

/-- the TTL class this put stores (`none` for operations that are not puts) -/
def putShort (cfg : Config) : Op → Bool
  | .put _ _ => cfg.defaultShort
  | .putTtl _ _ short => short
  | _ => false

/-- does the operation write, remove or clear key `k`? -/
def touches (k : Key) : Op → Bool
  | .put k' _ | .putTtl k' _ _ | .remove k' => k' == k
  | .clear => true
  | _ => false

end Cascette.Model.DiskCache
